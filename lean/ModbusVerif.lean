import ModbusVerif.Model.Prelude
import ModbusVerif.Model.Crc
