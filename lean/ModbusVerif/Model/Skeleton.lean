import ModbusVerif.Model.Prelude
/-
  A tiny interpreter for the "control/call skeletons" the translator extracts from Go functions.
  A token is (kind, name, args) with kind ∈ call | set | return | break | continue | if | else | end |
  loop | switch | case | go | defer. Conditions are answered by an oracle (one Bool per executed `if`,
  in execution order), the switch is answered by the case value. The result is the list of atomic
  tokens executed until `return` / the end. Only String EQUALITY is used, so that the kernel can
  evaluate it (`decide +kernel`). Core-only, executable.
-/
namespace Modbus.Skel

abbrev Tok := String × String × List String

inductive Node
  | atom (t : Tok)
  | ret
  | ifN (cond : String) (thn els : List Node)
  | loop (body : List Node)
  | sw (cases : List (List String × List Node))
  deriving Repr, Inhabited

def isBlockEnd (t : Tok) : Bool := t.1 == "end" || t.1 == "else" || t.1 == "case"

mutual
  /-- parse statements up to (not including) a block end -/
  def parseBlock : Nat → List Tok → List Node × List Tok
    | 0, ts => ([], ts)
    | _, [] => ([], [])
    | fuel+1, t :: ts =>
      if isBlockEnd t then ([], t :: ts)
      else
        let (n, rest) := parseStmt fuel t ts
        let (ns, rest') := parseBlock fuel rest
        (n :: ns, rest')
  def parseStmt : Nat → Tok → List Tok → Node × List Tok
    | 0, t, ts => (.atom t, ts)
    | fuel+1, t, ts =>
      if t.1 == "return" then (.ret, ts)
      else if t.1 == "if" then
        let (thn, r1) := parseBlock fuel ts
        match r1 with
        | ("else", _, _) :: r2 =>
          let (els, r3) := parseBlock fuel r2
          (.ifN t.2.1 thn els, r3.drop 1)
        | _ => (.ifN t.2.1 thn [], r1.drop 1)
      else if t.1 == "loop" then
        let (body, r1) := parseBlock fuel ts
        (.loop body, r1.drop 1)
      else if t.1 == "switch" then
        let (cs, r1) := parseCases fuel ts
        (.sw cs, r1.drop 1)
      else (.atom t, ts)
  def parseCases : Nat → List Tok → List (List String × List Node) × List Tok
    | 0, ts => ([], ts)
    | _, [] => ([], [])
    | fuel+1, t :: ts =>
      if t.1 == "case" then
        let (body, r1) := parseBlock fuel ts
        let (cs, r2) := parseCases fuel r1
        ((t.2.2, body) :: cs, r2)
      else ([], t :: ts)
end

def parse (toks : List Tok) : List Node := (parseBlock (2 * toks.length + 2) toks).1

structure Run where
  trace    : List Tok
  oracle   : List Bool
  returned : Bool
  deriving Repr

mutual
  def runNodes : Nat → List Node → String → Run → Run
    | 0, _, _, r => r
    | _, [], _, r => r
    | fuel+1, n :: ns, kind, r =>
      if r.returned then r
      else runNodes fuel ns kind (runNode fuel n kind r)
  def runNode : Nat → Node → String → Run → Run
    | 0, _, _, r => r
    | _, .atom s, _, r => { r with trace := r.trace ++ [s] }
    | _, .ret, _, r => { r with returned := true }
    | fuel+1, .ifN _ thn els, kind, r =>
      match r.oracle with
      | b :: rest => runNodes fuel (if b then thn else els) kind { r with oracle := rest }
      | [] => runNodes fuel els kind r          -- oracle exhausted: conditions are false
    | fuel+1, .loop body, kind, r => runNodes fuel body kind r        -- one iteration
    | fuel+1, .sw cases, kind, r =>
      match cases.find? (fun c => c.1.contains kind) with
      | some c => runNodes fuel c.2 kind r
      | none =>
        match cases.find? (fun c => c.1 == ["default"]) with
        | some c => runNodes fuel c.2 kind r
        | none => r
end

/-- executed atomic tokens of a skeleton, for the given switch value and condition outcomes -/
def exec (toks : List Tok) (kind : String) (oracle : List Bool) : List Tok :=
  (runNodes (4 * toks.length + 4) (parse toks) kind { trace := [], oracle := oracle, returned := false }).trace

/-- was `name` called? -/
def called (tr : List Tok) (name : String) : Bool := tr.any (fun t => t.1 == "call" && t.2.1 == name)
/-- was `name` called with first argument `a0`? -/
def calledWith (tr : List Tok) (name a0 : String) : Bool :=
  tr.any (fun t => t.1 == "call" && t.2.1 == name && t.2.2.head? == some a0)
def assigned (tr : List Tok) (target : String) : Bool := tr.any (fun t => t.1 == "set" && t.2.1 == target)

end Modbus.Skel
