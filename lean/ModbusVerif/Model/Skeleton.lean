import ModbusVerif.Model.Prelude
/-
  A tiny interpreter for the "control/call skeletons" the translator extracts from Go functions.
  A token is (kind, name, args) with kind ∈ call | set | return | break | continue | if | else | end |
  loop | switch | case | go | defer. Conditions are answered by an oracle (one Bool per executed `if`,
  in execution order), the switch is answered by the case value. The result is the list of atomic
  tokens executed until `return` / the end. Only String EQUALITY is used, so that the kernel can
  evaluate it (`decide +kernel`). Core-only, executable.
-/
namespace Modbus.Skel

abbrev Tok := String × String × List String

inductive Node
  | atom (t : Tok)
  | ret
  | ifN (cond : String) (thn els : List Node)
  | loop (body : List Node)
  | sw (cases : List (List String × List Node))
  deriving Repr, Inhabited

def isBlockEnd (t : Tok) : Bool := t.1 == "end" || t.1 == "else" || t.1 == "case"

mutual
  /-- parse statements up to (not including) a block end -/
  def parseBlock : Nat → List Tok → List Node × List Tok
    | 0, ts => ([], ts)
    | _, [] => ([], [])
    | fuel+1, t :: ts =>
      if isBlockEnd t then ([], t :: ts)
      else
        let (n, rest) := parseStmt fuel t ts
        let (ns, rest') := parseBlock fuel rest
        (n :: ns, rest')
  def parseStmt : Nat → Tok → List Tok → Node × List Tok
    | 0, t, ts => (.atom t, ts)
    | fuel+1, t, ts =>
      if t.1 == "return" then (.ret, ts)
      else if t.1 == "if" then
        let (thn, r1) := parseBlock fuel ts
        match r1 with
        | ("else", _, _) :: r2 =>
          let (els, r3) := parseBlock fuel r2
          (.ifN t.2.1 thn els, r3.drop 1)
        | _ => (.ifN t.2.1 thn [], r1.drop 1)
      else if t.1 == "loop" then
        let (body, r1) := parseBlock fuel ts
        (.loop body, r1.drop 1)
      else if t.1 == "switch" then
        let (cs, r1) := parseCases fuel ts
        (.sw cs, r1.drop 1)
      else (.atom t, ts)
  def parseCases : Nat → List Tok → List (List String × List Node) × List Tok
    | 0, ts => ([], ts)
    | _, [] => ([], [])
    | fuel+1, t :: ts =>
      if t.1 == "case" then
        let (body, r1) := parseBlock fuel ts
        let (cs, r2) := parseCases fuel r1
        ((t.2.2, body) :: cs, r2)
      else ([], t :: ts)
end

def parse (toks : List Tok) : List Node := (parseBlock (2 * toks.length + 2) toks).1

structure Run where
  trace    : List Tok
  oracle   : List Bool
  returned : Bool
  deriving Repr

mutual
  def runNodes : Nat → List Node → String → Run → Run
    | 0, _, _, r => r
    | _, [], _, r => r
    | fuel+1, n :: ns, kind, r =>
      if r.returned then r
      else runNodes fuel ns kind (runNode fuel n kind r)
  def runNode : Nat → Node → String → Run → Run
    | 0, _, _, r => r
    | _, .atom s, _, r => { r with trace := r.trace ++ [s] }
    | _, .ret, _, r => { r with returned := true }
    | fuel+1, .ifN _ thn els, kind, r =>
      match r.oracle with
      | b :: rest => runNodes fuel (if b then thn else els) kind { r with oracle := rest }
      | [] => runNodes fuel els kind r          -- oracle exhausted: conditions are false
    | fuel+1, .loop body, kind, r => runNodes fuel body kind r        -- one iteration
    | fuel+1, .sw cases, kind, r =>
      match cases.find? (fun c => c.1.contains kind) with
      | some c => runNodes fuel c.2 kind r
      | none =>
        match cases.find? (fun c => c.1 == ["default"]) with
        | some c => runNodes fuel c.2 kind r
        | none => r
end

/-- executed atomic tokens of a skeleton, for the given switch value and condition outcomes -/
def exec (toks : List Tok) (kind : String) (oracle : List Bool) : List Tok :=
  (runNodes (4 * toks.length + 4) (parse toks) kind { trace := [], oracle := oracle, returned := false }).trace

/-- was `name` called? -/
def called (tr : List Tok) (name : String) : Bool := tr.any (fun t => t.1 == "call" && t.2.1 == name)
/-- was `name` called with first argument `a0`? -/
def calledWith (tr : List Tok) (name a0 : String) : Bool :=
  tr.any (fun t => t.1 == "call" && t.2.1 == name && t.2.2.head? == some a0)
def assigned (tr : List Tok) (target : String) : Bool := tr.any (fun t => t.1 == "set" && t.2.1 == target)

end Modbus.Skel

/-! ### condition-table interpreter (used by Props/C16Tie)

  Like `exec`, but every `if` is answered by a table `cond` from the condition TEXT (and the tokens
  executed so far) to its outcome. A condition the table does not know makes the whole evaluation
  `none`, and so do a loop and an exhausted fuel: a changed or new condition in the Go source then
  breaks the theorem instead of being defaulted silently. -/
namespace Modbus.Skel

structure CRun where
  trace    : List Tok
  returned : Bool
  deriving Repr, DecidableEq

mutual
  def condNodes : Nat → List Node → String → (List Tok → String → Option Bool) → CRun → Option CRun
    | 0, _, _, _, _ => none
    | _+1, [], _, _, r => some r
    | fuel+1, n :: ns, kind, cond, r =>
      if r.returned then some r
      else match condNode fuel n kind cond r with
        | none => none
        | some r' => condNodes fuel ns kind cond r'
  def condNode : Nat → Node → String → (List Tok → String → Option Bool) → CRun → Option CRun
    | 0, _, _, _, _ => none
    | _+1, .atom s, _, _, r => some { r with trace := r.trace ++ [s] }
    | _+1, .ret, _, _, r => some { r with returned := true }
    | fuel+1, .ifN c thn els, kind, cond, r =>
      match cond r.trace c with
      | none => none                                   -- unknown condition text
      | some b => condNodes fuel (if b then thn else els) kind cond r
    | _+1, .loop _, _, _, _ => none                    -- no loops in the functions this is used for
    | fuel+1, .sw cases, kind, cond, r =>
      match cases.find? (fun c => c.1.contains kind) with
      | some c => condNodes fuel c.2 kind cond r
      | none =>
        match cases.find? (fun c => c.1 == ["default"]) with
        | some c => condNodes fuel c.2 kind cond r
        | none => some r
end

/-- executed atomic tokens and "a `return` statement was executed" (the trace ends there), for the
    switch value `kind`; each condition is answered from its text and the tokens executed so far -/
def execCondT (toks : List Tok) (kind : String) (cond : List Tok → String → Option Bool) :
    Option (List Tok × Bool) :=
  (condNodes (4 * toks.length + 4) (parse toks) kind cond { trace := [], returned := false }).map
    (fun r => (r.trace, r.returned))

/-- the same with a table that looks at the condition text only -/
def execCond (toks : List Tok) (kind : String) (cond : String → Option Bool) : Option (List Tok × Bool) :=
  execCondT toks kind (fun _ s => cond s)

/-- the tag expressions of the `switch` statements of a skeleton, in source order -/
def switchTags (toks : List Tok) : List String := (toks.filter (fun t => t.1 == "switch")).map (·.2.1)

mutual
  /-- every `case` value (and "default") of every switch below these nodes -/
  def labelsNodes : List Node → List String
    | [] => []
    | n :: ns => labelsNode n ++ labelsNodes ns
  def labelsNode : Node → List String
    | .atom _ => []
    | .ret => []
    | .ifN _ thn els => labelsNodes thn ++ labelsNodes els
    | .loop body => labelsNodes body
    | .sw cases => labelsCases cases
  def labelsCases : List (List String × List Node) → List String
    | [] => []
    | c :: cs => c.1 ++ labelsNodes c.2 ++ labelsCases cs
end

end Modbus.Skel
