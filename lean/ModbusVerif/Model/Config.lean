import ModbusVerif.Model.Client
/-
  Configuration (property C16): client.go `NewClient`, `Open`, `SetEncoding`;
  server.go `NewServer`; serial.go `serialPortWrapper.Open` (parity letter).
  Core Lean only; executable (linked into the mbmodel driver).

  Scope notes
  * Go strings are byte strings; Lean `String`s are valid UTF-8. The separator "://" is ASCII
    and UTF-8 is self-synchronising, so searching for it char-wise (here) or byte-wise (Go) finds
    the same first occurrence. URLs that are not valid UTF-8 are out of scope.
  * `Timeout` is a `time.Duration` (int64 ns). Only `== 0` is tested by the code, a negative
    value is kept as it is; the model has `timeoutNs : Nat` (negative timeouts out of scope).
  * `Speed`, `DataBits`, `Parity`, `StopBits`, `MaxClients` are Go `uint`s: `Nat` here.
  * On refusal the Go constructors return `ErrConfigurationError` AND a non-nil object
    (`mc` / `ms` is allocated before the checks and returned by the naked `return`).
    The model returns the error only.
-/
namespace Modbus.Config
open Modbus.Client (Kind)

/-! ### `strings.SplitN(s, "://", 2)` -/

/-- the separator as characters -/
def sep : List Char := [':', '/', '/']

/-- split at the first occurrence of `sep`; `none` when it does not occur
    (`strings.SplitN` then returns the one-element slice `[s]`) -/
def splitSep : List Char → Option (List Char × List Char)
  | [] => none
  | c :: cs =>
    if sep.isPrefixOf (c :: cs) then some ([], (c :: cs).drop 3)
    else match splitSep cs with
      | some (a, b) => some (c :: a, b)
      | none => none

/-- `strings.SplitN(s, "://", 2)` when it has two parts: (before, after) the FIRST "://" -/
def splitScheme (s : String) : Option (String × String) :=
  match splitSep s.toList with
  | some (a, b) => some (String.ofList a, String.ofList b)
  | none => none

/-! ### client -/

/-- the fields of `ClientConfiguration` that `NewClient` looks at
    (`hasCert` = `TLSClientCert != nil`, `hasRoots` = `TLSRootCAs != nil`) -/
structure ClientConf where
  url       : String
  speed     : Nat := 0
  dataBits  : Nat := 0
  parity    : Nat := 0
  stopBits  : Nat := 0
  timeoutNs : Nat := 0
  hasCert   : Bool := false
  hasRoots  : Bool := false
  deriving Repr, DecidableEq, Inhabited

/-- the `ModbusClient` after a successful `NewClient`
    (`mc.transportType`, `mc.conf.*`, `mc.unitId`, `mc.endianness`, `mc.wordOrder`) -/
structure ClientState where
  kind      : Kind
  url       : String
  speed     : Nat
  dataBits  : Nat
  parity    : Nat
  stopBits  : Nat
  timeoutNs : Nat
  unitId    : Byte := 1
  endian    : Endian := .big
  word      : WordOrder := .highFirst
  deriving Repr, DecidableEq, Inhabited

/-- the settings a read/write call looks at -/
def ClientState.cfg (st : ClientState) : Client.Cfg :=
  { kind := st.kind, unitId := st.unitId, endian := st.endian, word := st.word }

/-- `if x == 0 { x = d }` -/
def orDefault (x d : Nat) : Nat := if x = 0 then d else x

def ms : Nat := 1000000
def second : Nat := 1000000000

/-- `NewClient`. The defaults are applied in the matching `case` only; fields without a
    default in that case are copied. No "://" in the URL: `clientType` stays "" → `default:`. -/
def newClient (c : ClientConf) : Except Err ClientState :=
  match splitScheme c.url with
  | none => .error .configuration
  | some (scheme, rest) =>
    if scheme = "rtu" then
      .ok { kind := .rtu, url := rest
            speed := orDefault c.speed 19200
            dataBits := orDefault c.dataBits 8
            parity := c.parity
            stopBits := if c.stopBits = 0 then (if c.parity = 0 then 2 else 1) else c.stopBits
            timeoutNs := orDefault c.timeoutNs (300 * ms) }
    else if scheme = "rtuovertcp" then
      .ok { kind := .rtuOverTcp, url := rest
            speed := orDefault c.speed 19200
            dataBits := c.dataBits, parity := c.parity, stopBits := c.stopBits
            timeoutNs := orDefault c.timeoutNs second }
    else if scheme = "rtuoverudp" then
      .ok { kind := .rtuOverUdp, url := rest
            speed := orDefault c.speed 19200
            dataBits := c.dataBits, parity := c.parity, stopBits := c.stopBits
            timeoutNs := orDefault c.timeoutNs second }
    else if scheme = "tcp" then
      .ok { kind := .tcp, url := rest
            speed := c.speed, dataBits := c.dataBits, parity := c.parity, stopBits := c.stopBits
            timeoutNs := orDefault c.timeoutNs second }
    else if scheme = "tcp+tls" then
      if !c.hasCert then .error .configuration        -- "missing client certificate"
      else if !c.hasRoots then .error .configuration  -- "missing CA/server certificate"
      else
      .ok { kind := .tcpTls, url := rest
            speed := c.speed, dataBits := c.dataBits, parity := c.parity, stopBits := c.stopBits
            timeoutNs := orDefault c.timeoutNs second }
    else if scheme = "udp" then
      .ok { kind := .udp, url := rest
            speed := c.speed, dataBits := c.dataBits, parity := c.parity, stopBits := c.stopBits
            timeoutNs := orDefault c.timeoutNs second }
    else .error .configuration

/-- `SetEncoding(endianness, wordOrder)` with the raw `uint` values; endianness is checked
    first (both refusals give the same error, only the log line differs) -/
def setEncoding (st : ClientState) (e w : Nat) : Except Err ClientState :=
  if e ≠ 1 ∧ e ≠ 2 then .error .unexpectedParameters
  else if w ≠ 1 ∧ w ≠ 2 then .error .unexpectedParameters
  else .ok { st with endian := if e = 1 then .big else .little
                     word := if w = 1 then .highFirst else .lowFirst }

/-- `SetUnitId` -/
def setUnitId (st : ClientState) (id : Byte) : ClientState := { st with unitId := id }

/-! ### `Open`: which socket, which framing, which adapter -/

inductive Socket | serial | tcp | udp | tls
  deriving DecidableEq, Repr, Inhabited
inductive Framing | mbap | rtu
  deriving DecidableEq, Repr, Inhabited

def Socket.name : Socket → String
  | .serial => "serial" | .tcp => "tcp" | .udp => "udp" | .tls => "tls"
def Framing.name : Framing → String
  | .mbap => "mbap" | .rtu => "rtu"

/-- `Open()`: `switch mc.transportType`.
    socket = what is opened/dialled, framing = newRTUTransport / newTCPTransport,
    wrapper = the adapter put between the two ("" = the bare `net.Conn`). -/
def openWiring : Kind → Socket × Framing × String
  | .rtu        => (.serial, .rtu,  "serialPortWrapper")   -- serial.Open, discard, RTU
  | .rtuOverTcp => (.tcp,    .rtu,  "")                    -- DialTimeout tcp, discard, RTU
  | .rtuOverUdp => (.udp,    .rtu,  "udpSockWrapper")      -- DialTimeout udp, RTU
  | .tcp        => (.tcp,    .mbap, "")                    -- DialTimeout tcp, MBAP
  | .tcpTls     => (.tls,    .mbap, "tlsSockWrapper")      -- tls.DialWithDialer, Handshake, MBAP
  | .udp        => (.udp,    .mbap, "udpSockWrapper")      -- DialTimeout udp, MBAP

/-- stale input is discarded on open only for these two -/
def openDiscards : Kind → Bool
  | .rtu | .rtuOverTcp => true
  | _ => false

/-- dial / handshake time limit of `Open` in seconds (0: none, serial) -/
def openDialTimeoutS : Kind → Nat
  | .rtu => 0
  | .tcpTls => 15
  | _ => 5

/-- serial.go: `switch spw.conf.Parity`; no `default:` — other values leave `parity` "" -/
def parityLetter (p : Nat) : String :=
  if p = 0 then "N" else if p = 1 then "E" else if p = 2 then "O" else ""

/-! ### server -/

structure ServerConf where
  url        : String
  timeoutNs  : Nat := 0
  maxClients : Nat := 0
  hasCert    : Bool := false
  hasCAs     : Bool := false
  deriving Repr, DecidableEq, Inhabited

structure ServerState where
  tls        : Bool
  url        : String
  timeoutNs  : Nat
  maxClients : Nat
  deriving Repr, DecidableEq, Inhabited

/-- `NewServer`: the empty-host test comes BEFORE the scheme switch and looks at the part
    after "://" (or at the whole string when there is no "://"). -/
def newServer (c : ServerConf) : Except Err ServerState :=
  let (scheme, rest) := match splitScheme c.url with
    | some (a, b) => (a, b)
    | none => ("", c.url)
  if rest = "" then .error .configuration             -- "missing host part in URL"
  else if scheme = "tcp" then
    .ok { tls := false, url := rest
          timeoutNs := orDefault c.timeoutNs (120 * second)
          maxClients := orDefault c.maxClients 10 }
  else if scheme = "tcp+tls" then
    if !c.hasCert then .error .configuration          -- "missing server certificate"
    else if !c.hasCAs then .error .configuration      -- "missing CA/client certificates"
    else
    .ok { tls := true, url := rest
          timeoutNs := orDefault c.timeoutNs (120 * second)
          maxClients := orDefault c.maxClients 10 }
  else .error .configuration

end Modbus.Config
