import ModbusVerif.Model.Stream
import ModbusVerif.Model.Encoding
/-
  tcp_transport.go: MBAP framing (used by tcp, tcp+tls, udp clients and the server).
-/
namespace Modbus

structure Pdu where
  unit    : Byte
  fc      : Byte
  payload : Bytes
  deriving Repr, DecidableEq, Inhabited

namespace Mbap
open Strm

def maxTCPFrameLength : Nat := 260
def mbapHeaderLength  : Nat := 7

/-- `assembleMBAPFrame`: txn id, protocol id 0, length = uint16(2 + len(payload)), unit, fc, payload -/
def assemble (txn : U16) (p : Pdu) : Bytes :=
  be16 txn ++ [0, 0] ++ be16 (u16OfNat (2 + p.payload.length)) ++ [p.unit] ++ [p.fc] ++ p.payload

/-- result of `readMBAPFrame` -/
inductive Frame
  | ok (p : Pdu) (txn : U16)
  | err (e : Err)
  deriving Repr, DecidableEq

/-- `readMBAPFrame` on a stream that delivers `s` then ends with `e`.
    Returns the outcome and the unread remainder of the stream. -/
def readFrame (s : Bytes) (e : Ending) : Frame × Bytes :=
  match readFull mbapHeaderLength s e with
  | .short _ err => (.err err, [])
  | .ok h rest =>
    let txn   := mk16 (h.getD 0 0) (h.getD 1 0)
    let proto := mk16 (h.getD 2 0) (h.getD 3 0)
    let len   := (mk16 (h.getD 4 0) (h.getD 5 0)).toNat
    let unit  := h.getD 6 0
    -- bytesNeeded = len - 1 (a Go int: may be -1)
    if len + mbapHeaderLength > maxTCPFrameLength + 1 then (.err .protocolError, rest)
    else if len ≤ 1 then (.err .protocolError, rest)
    else
      match readFull (len - 1) rest e with
      | .short _ err => (.err err, [])
      | .ok body rest' =>
        if proto ≠ 0 then (.err .unknownProtocolId, rest')
        else (.ok { unit := unit, fc := body.getD 0 0, payload := body.drop 1 } txn, rest')

/-- `readResponse`: skip frames with a foreign protocol id or transaction id.
    Fuel is the stream length + 1 (each iteration consumes at least 8 bytes; `fuel_suffices`). -/
def readResponseAux : Nat → U16 → Bytes → Ending → (Except Err Pdu) × Bytes
  | 0, _, s, _ => (.error .ioOther, s)
  | fuel+1, txn, s, e =>
    match readFrame s e with
    | (.err .unknownProtocolId, rest) => readResponseAux fuel txn rest e
    | (.err err, rest) => (.error err, rest)
    | (.ok p t, rest) => if t = txn then (.ok p, rest) else readResponseAux fuel txn rest e

def readResponse (txn : U16) (s : Bytes) (e : Ending) : (Except Err Pdu) × Bytes :=
  readResponseAux (s.length + 1) txn s e

end Mbap
end Modbus
