import ModbusVerif.Model.Client
/-
  cmd/modbus-cli.go: the command-line front end.

  `main` parses the flags, then EVERY trailing argument into an `operation` (exit status 2 on the
  first malformed one), and only then creates the client, sets encoding and unit id, opens the
  connection and executes the run list.  This file transcribes

    * strconv.ParseUint / ParseInt with base 0 (Go 1.23 `strconv/atoi.go`), including
      `underscoreOK`, on the characters of the argument;
    * encoding/hex.DecodeString, strings.Split on ':' and '+';
    * the argument `switch` of `main` (command table, arity checks, type tables, order of checks);
    * the `switch o.op` of the run loop as the list of client calls it makes (`execute`) and the
      lines it prints for the integer / bool / byte reads and for the writes (`printedLines`);
    * time.ParseDuration (only to decide accept/refuse for `sleep:` and `ping:`).

  TRUSTED BASE / what is NOT modelled (stated here once):

    * Strings.  Go strings are byte strings, Lean strings are sequences of Unicode scalar values.
      The model works on `List Char`.  For every function below this is equivalent to Go's
      byte-wise processing on valid UTF-8: all separators and all accepted characters are ASCII,
      and every byte of a multi-byte character is ≥ 0x80 and is rejected by Go at the position
      where the model rejects the character.  Invalid UTF-8 arguments cannot be represented.
    * Floats.  `strconv.ParseFloat` is NOT modelled.  A float literal enters the model as its
      already parsed IEEE-754 bit pattern: in the model's input the <value> field of
      `wr:float32:<addr>:<value>` (`wr:float64:…`) is a numeral (ParseUint syntax, 32 resp.
      64 bits) of the bit pattern of the float32 (float64) that Go's own parser produces for the
      literal; the harness computes it (`math.Float32bits(float32(v))` after
      `strconv.ParseFloat(lit, 32)`) and substitutes a non-numeral such as `!` when Go's parser
      refuses the literal.  `%f` output formatting is not modelled either (`printedLines` emits
      the bit pattern as a placeholder).
    * Error texts.  Refusal is modelled exactly (which arguments are refused, and which one
      first); the message reproduces the Go text for printable ASCII arguments (strconv.Quote
      escapes are only modelled for `"` and `\`).
    * Flags.  The `flag` package is not modelled; the values of --endianness, --word-order,
      --unit-id enter `invoke` as already split strings / number.  --target, serial and TLS
      options are not modelled (they do not influence which requests are made).
    * `sleep`, `repeat`, `date`, `scan`, `ping` are parsed only to know whether the argument is
      accepted; their execution is not modelled (`Operation.other`).
    * In `time.ParseDuration` the fractional part goes through float64 arithmetic; the model
      uses Lean's `Float` (IEEE double, same operations) for that single product.

  Core Lean only, executable.
-/
namespace Modbus.Cli
open Modbus.Client (Op Val)

/-! ## strconv.ParseUint / ParseInt, base 0 -/

inductive NumErr | syntax | range
  deriving DecidableEq, Repr, Inhabited

def maxUint64 : Nat := 18446744073709551615
def two64 : Nat := 18446744073709551616

def isDec (c : Char) : Bool := '0' ≤ c && c ≤ '9'

/-- the digit value the loop of ParseUint assigns to a byte: '0'..'9' → 0..9,
    letters of either case → 10..35 (`lower(c) - 'a' + 10`); anything else: syntax error -/
def digitVal (c : Char) : Option Nat :=
  if '0' ≤ c ∧ c ≤ '9' then some (c.toNat - 48)
  else if 'a' ≤ c ∧ c ≤ 'z' then some (c.toNat - 97 + 10)
  else if 'A' ≤ c ∧ c ≤ 'Z' then some (c.toNat - 65 + 10)
  else none

/-- base detection of `ParseUint(s, 0, _)` for a non-empty `s`: the base and the digits left -/
def basePrefix (s : List Char) : Nat × List Char :=
  match s with
  | [] => (10, [])
  | c0 :: rest =>
    if c0 = '0' then
      match rest with
      | c1 :: c2 :: rest' =>                    -- len(s) >= 3
        if c1 = 'b' ∨ c1 = 'B' then (2, c2 :: rest')
        else if c1 = 'o' ∨ c1 = 'O' then (8, c2 :: rest')
        else if c1 = 'x' ∨ c1 = 'X' then (16, c2 :: rest')
        else (8, rest)
      | _ => (8, rest)
    else (10, s)

/-- one round of the accumulation, literally: `n >= cutoff` (n*base overflows uint64),
    `n *= base`, `n1 := n + d` in uint64, `n1 < n || n1 > maxVal` -/
def accum (maxVal base n d : Nat) : Except NumErr Nat :=
  if n ≥ maxUint64 / base + 1 then .error .range
  else
    let m := n * base
    let n1 := (m + d) % two64
    if n1 < m ∨ n1 > maxVal then .error .range else .ok n1

/-- the digit loop; the Bool records whether an underscore was skipped -/
def digitsLoop (maxVal base : Nat) : Nat → Bool → List Char → Except NumErr (Nat × Bool)
  | n, us, [] => .ok (n, us)
  | n, us, c :: cs =>
    if c = '_' then digitsLoop maxVal base n true cs
    else match digitVal c with
      | none => .error .syntax
      | some d =>
        if d ≥ base then .error .syntax
        else match accum maxVal base n d with
          | .error e => .error e
          | .ok n1 => digitsLoop maxVal base n1 us cs

inductive Saw | start | digit | underscore | other
  deriving DecidableEq, Repr

def isHexLetter (c : Char) : Bool := ('a' ≤ c && c ≤ 'f') || ('A' ≤ c && c ≤ 'F')

def underscoreLoop (hex : Bool) : Saw → List Char → Bool
  | saw, [] => saw ≠ .underscore
  | saw, c :: cs =>
    if isDec c || (hex && isHexLetter c) then underscoreLoop hex .digit cs
    else if c = '_' then
      if saw ≠ .digit then false else underscoreLoop hex .underscore cs
    else if saw = .underscore then false
    else underscoreLoop hex .other cs

/-- strconv `underscoreOK` -/
def underscoreOK (s : List Char) : Bool :=
  let s := match s with
    | c :: rest => if c = '-' ∨ c = '+' then rest else s
    | [] => s
  match s with
  | c0 :: c1 :: rest =>
    if c0 = '0' ∧ (c1 = 'b' ∨ c1 = 'B' ∨ c1 = 'o' ∨ c1 = 'O' ∨ c1 = 'x' ∨ c1 = 'X') then
      underscoreLoop (c1 = 'x' ∨ c1 = 'X') .digit rest
    else underscoreLoop false .start s
  | _ => underscoreLoop false .start s

/-- `strconv.ParseUint(s, 0, bits)` (1 ≤ bits ≤ 64) -/
def parseUintE (bits : Nat) (s0 : List Char) : Except NumErr Nat :=
  match s0 with
  | [] => .error .syntax
  | _ :: _ =>
    let bp := basePrefix s0
    match digitsLoop (2 ^ bits - 1) bp.1 0 false bp.2 with
    | .error e => .error e
    | .ok (n, us) => if us && !underscoreOK s0 then .error .syntax else .ok n

/-- `strconv.ParseInt(s, 0, bits)` (1 ≤ bits ≤ 64) -/
def parseIntE (bits : Nat) (s0 : List Char) : Except NumErr Int :=
  match s0 with
  | [] => .error .syntax
  | c :: rest =>
    let neg := decide (c = '-')
    let s := if c = '+' ∨ c = '-' then rest else s0
    let cutoff := 2 ^ (bits - 1)
    let fin (un : Nat) : Except NumErr Int :=
      if !neg && decide (un ≥ cutoff) then .error .range
      else if neg && decide (un > cutoff) then .error .range
      else .ok (if neg then - (un : Int) else (un : Int))
    match parseUintE bits s with
    | .error .syntax => .error .syntax
    | .error .range => fin (2 ^ bits - 1)     -- ParseUint returns maxVal with ErrRange
    | .ok un => fin un

def parseUintL (bits : Nat) (s : List Char) : Option Nat := (parseUintE bits s).toOption
def parseIntL (bits : Nat) (s : List Char) : Option Int := (parseIntE bits s).toOption

def parseUint (bits : Nat) (s : String) : Option Nat := parseUintL bits s.toList
def parseInt (bits : Nat) (s : String) : Option Int := parseIntL bits s.toList

/-! ## the CLI's parse helpers -/

def parseUint16E (s : List Char) : Except NumErr U16 := (parseUintE 16 s).map (BitVec.ofNat 16)
def parseInt16E (s : List Char) : Except NumErr U16 := (parseIntE 16 s).map (BitVec.ofInt 16)
def parseUint32E (s : List Char) : Except NumErr U32 := (parseUintE 32 s).map (BitVec.ofNat 32)
def parseInt32E (s : List Char) : Except NumErr U32 := (parseIntE 32 s).map (BitVec.ofInt 32)
def parseUint64E (s : List Char) : Except NumErr U64 := (parseUintE 64 s).map (BitVec.ofNat 64)
def parseInt64E (s : List Char) : Except NumErr U64 := (parseIntE 64 s).map (BitVec.ofInt 64)
def parseUnitIdE (s : List Char) : Except NumErr Byte := (parseUintE 8 s).map (BitVec.ofNat 8)

def parseUint16 (s : String) : Option U16 := (parseUint16E s.toList).toOption
def parseInt16 (s : String) : Option U16 := (parseInt16E s.toList).toOption
def parseUint32 (s : String) : Option U32 := (parseUint32E s.toList).toOption
def parseInt32 (s : String) : Option U32 := (parseInt32E s.toList).toOption
def parseUint64 (s : String) : Option U64 := (parseUint64E s.toList).toOption
def parseInt64 (s : String) : Option U64 := (parseInt64E s.toList).toOption
def parseUnitId (s : String) : Option Byte := (parseUnitIdE s.toList).toOption

/-- `strings.Split(s, sep)` for a one-character separator -/
def splitOn (sep : Char) : List Char → List (List Char)
  | [] => [[]]
  | c :: cs =>
    if c = sep then [] :: splitOn sep cs
    else match splitOn sep cs with
      | [] => [[c]]
      | h :: t => (c :: h) :: t

/-- best-effort `strconv.Quote` -/
def quote (s : List Char) : String :=
  "\"" ++ String.ofList (s.flatMap (fun c => if c = '"' ∨ c = '\\' then ['\\', c] else [c])) ++ "\""

def NumErr.text : NumErr → String
  | .syntax => "invalid syntax"
  | .range => "value out of range"

/-- `(*NumError).Error()` -/
def numErrMsg (fn : String) (num : List Char) (e : NumErr) : String :=
  "strconv." ++ fn ++ ": parsing " ++ quote num ++ ": " ++ e.text

def withNum (fn : String) (num : List Char) (r : Except NumErr α) : Except String α :=
  match r with
  | .ok v => .ok v
  | .error e => .error (numErrMsg fn num e)

/-- `parseAddressAndQuantity` -/
def parseAddressAndQuantityE (s : List Char) : Except String (U16 × U16) :=
  match splitOn '+' s with
  | [_] => (withNum "ParseUint" s (parseUint16E s)).map (fun a => (a, 0))
  | [p0, p1] =>
    match withNum "ParseUint" p0 (parseUint16E p0) with
    | .error e => .error e
    | .ok a => (withNum "ParseUint" p1 (parseUint16E p1)).map (fun q => (a, q))
  | _ => .error "illegal format"

def parseAddressAndQuantity (s : String) : Option (U16 × U16) :=
  (parseAddressAndQuantityE s.toList).toOption

def hexVal (c : Char) : Option Nat :=
  if '0' ≤ c ∧ c ≤ '9' then some (c.toNat - 48)
  else if 'a' ≤ c ∧ c ≤ 'f' then some (c.toNat - 97 + 10)
  else if 'A' ≤ c ∧ c ≤ 'F' then some (c.toNat - 65 + 10)
  else none

def invalidByteMsg (c : Char) : String :=
  "encoding/hex: invalid byte: U+" ++
    String.ofList (let d := Nat.toDigits 16 c.toNat
                   (List.replicate (4 - d.length) '0' ++ d).map Char.toUpper) ++
    " '" ++ String.singleton c ++ "'"

/-- `hex.DecodeString` (the partial result is discarded by the CLI) -/
def parseHexBytesE : List Char → Except String Bytes
  | [] => .ok []
  | [c] =>
    match hexVal c with
    | none => .error (invalidByteMsg c)
    | some _ => .error "encoding/hex: odd length hex string"
  | p :: q :: rest =>
    match hexVal p with
    | none => .error (invalidByteMsg p)
    | some a =>
      match hexVal q with
      | none => .error (invalidByteMsg q)
      | some b =>
        match parseHexBytesE rest with
        | .error e => .error e
        | .ok bs => .ok (BitVec.ofNat 8 (a * 16 + b) :: bs)

def parseHexBytes (s : String) : Option Bytes := (parseHexBytesE s.toList).toOption

/-! ## time.ParseDuration (acceptance only) -/

def two63 : Nat := 9223372036854775808

/-- `leadingInt`; `none` = overflow -/
def leadingInt : Nat → List Char → Option (Nat × List Char)
  | x, [] => some (x, [])
  | x, c :: cs =>
    if isDec c then
      if x > two63 / 10 then none
      else
        let x' := x * 10 + (c.toNat - 48)
        if x' > two63 then none else leadingInt x' cs
    else some (x, c :: cs)

/-- `leadingFraction`: value, number of digits accumulated (scale = 10^k), overflow flag -/
def leadingFraction : Nat → Nat → Bool → List Char → (Nat × Nat × List Char)
  | x, k, _, [] => (x, k, [])
  | x, k, ovf, c :: cs =>
    if isDec c then
      if ovf then leadingFraction x k true cs
      else if x > (two63 - 1) / 10 then leadingFraction x k true cs
      else
        let y := x * 10 + (c.toNat - 48)
        if y > two63 then leadingFraction x k true cs
        else leadingFraction y (k + 1) false cs
    else (x, k, c :: cs)

def unitOf (u : List Char) : Option Nat :=
  let s := String.ofList u
  if s = "ns" then some 1
  else if s = "us" ∨ s = "µs" ∨ s = "μs" then some 1000
  else if s = "ms" then some 1000000
  else if s = "s" then some 1000000000
  else if s = "m" then some 60000000000
  else if s = "h" then some 3600000000000
  else none

def durInvalid (orig : List Char) : String := "time: invalid duration " ++ quote orig

/-- the `for s != ""` loop of ParseDuration; every round consumes at least the unit -/
def durLoop (orig : List Char) : Nat → Nat → List Char → Except String Nat
  | _, d, [] => .ok d
  | 0, _, _ :: _ => .error "unreachable"
  | fuel + 1, d, c :: cs =>
    let s := c :: cs
    if !(c = '.' || isDec c) then .error (durInvalid orig)
    else match leadingInt 0 s with
      | none => .error (durInvalid orig)
      | some (v, s1) =>
        let pre := decide (s1.length ≠ s.length)
        let (f, k, post, s2) : Nat × Nat × Bool × List Char :=
          match s1 with
          | '.' :: t =>
            let r := leadingFraction 0 0 false t
            (r.1, r.2.1, decide (r.2.2.length ≠ t.length), r.2.2)
          | _ => (0, 0, false, s1)
        if !pre && !post then .error (durInvalid orig)
        else
          let sp := s2.span (fun c => !(c = '.' || isDec c))
          let u := sp.1
          if u.isEmpty then .error ("time: missing unit in duration " ++ quote orig)
          else match unitOf u with
            | none => .error ("time: unknown unit " ++ quote u ++ " in duration " ++ quote orig)
            | some unit =>
              if v > two63 / unit then .error (durInvalid orig)
              else
                let v := v * unit
                let v := if f > 0 then
                    v + (Float.ofNat f * (Float.ofNat unit / Float.ofNat (10 ^ k))).toUInt64.toNat
                  else v
                if f > 0 ∧ v > two63 then .error (durInvalid orig)
                else
                  let d := (d + v) % two64
                  if d > two63 then .error (durInvalid orig)
                  else durLoop orig fuel d sp.2

/-- `time.ParseDuration`: `.ok ()` iff Go returns a nil error -/
def parseDurationE (orig : List Char) : Except String Unit :=
  let (neg, s) : Bool × List Char := match orig with
    | c :: rest => if c = '-' ∨ c = '+' then (decide (c = '-'), rest) else (false, orig)
    | [] => (false, orig)
  if s = ['0'] then .ok ()
  else if s = [] then .error (durInvalid orig)
  else match durLoop orig (s.length + 1) 0 s with
    | .error e => .error e
    | .ok d => if !neg && decide (d > two63 - 1) then .error (durInvalid orig) else .ok ()

/-! ## the run list -/

/-- the `<type>` of rh / ri -/
inductive RegTy | uint16 | int16 | uint32 | int32 | float32 | uint64 | int64 | float64 | bytes
  deriving DecidableEq, Repr, Inhabited

/-- the meaningful cases of the Go `operation` struct -/
inductive Operation
  | readBools (isCoil : Bool) (addr quantity : U16)
  | readRegs (ty : RegTy) (isHolding : Bool) (addr quantity : U16)
  | writeCoil (addr : U16) (v : Bool)
  | writeU16 (addr : U16) (v : U16) (signedPrint : Bool)
  | writeU32 (addr : U16) (v : U32) (signedPrint : Bool)
  | writeU64 (addr : U16) (v : U64) (signedPrint : Bool)
  | writeF32 (addr : U16) (bits : U32)
  | writeF64 (addr : U16) (bits : U64)
  | writeBytes (addr : U16) (bs : Bytes)
  | setUnitId (u : Byte)
  | other (name : String)       -- sleep, repeat, date, scan, ping: accepted, execution unmodelled
  deriving DecidableEq, Repr, Inhabited

/-- the command-name table of the argument `switch` -/
inductive Cmd | rc | rdi | rh | ri | wc | wr | sleep | sid | repeat | date | scan | ping
  deriving DecidableEq, Repr

/-- the `case` labels of the argument `switch`, in source order -/
def cmdTable : List (String × Cmd) :=
  [("rc", .rc), ("readCoil", .rc), ("readCoils", .rc),
   ("rdi", .rdi), ("readDiscreteInput", .rdi), ("readDiscreteInputs", .rdi),
   ("rh", .rh), ("readHoldingRegister", .rh), ("readHoldingRegisters", .rh),
   ("ri", .ri), ("readInputRegister", .ri), ("readInputRegisters", .ri),
   ("wc", .wc), ("writeCoil", .wc),
   ("wr", .wr), ("writeRegister", .wr),
   ("sleep", .sleep),
   ("suid", .sid), ("setUnitId", .sid), ("sid", .sid),
   ("repeat", .repeat), ("date", .date), ("scan", .scan), ("ping", .ping)]

def cmdOf (name : List Char) : Option Cmd := cmdTable.lookup (String.ofList name)

/-- the type table of rh / ri -/
def regTyTable : List (String × RegTy) :=
  [("uint16", .uint16), ("int16", .int16), ("uint32", .uint32), ("int32", .int32),
   ("float32", .float32), ("uint64", .uint64), ("int64", .int64), ("float64", .float64),
   ("bytes", .bytes)]

def regTyOf (t : List Char) : Option RegTy := regTyTable.lookup (String.ofList t)

/-- the type table of wr: the rh / ri types plus `string` -/
inductive WrTy | reg (t : RegTy) | string
  deriving DecidableEq, Repr

def wrTyOf (t : List Char) : Option WrTy :=
  match regTyOf t with
  | some r => some (.reg r)
  | none => if String.ofList t = "string" then some .string else none

def utf8Bytes (s : List Char) : Bytes :=
  s.flatMap (fun c => (String.utf8EncodeChar c).map (fun b => BitVec.ofNat 8 b.toNat))

def scanTypes : List String :=
  ["c", "coils", "di", "discreteInputs", "h", "hr", "holding", "holdingRegisters",
   "i", "ir", "input", "inputRegisters", "s", "sid"]

def illegalFormatMsg : String :=
  "illegal command format (should be command:arg1:arg2..., e.g. rh:uint32:0x1000+5)"

def needMsg (what : String) (got : Nat) : String :=
  "need exactly " ++ what ++ ", got " ++ toString got

def str (s : List Char) : String := String.ofList s

/-- the value of `wr`, parsed after the address -/
def parseWrValue (t : WrTy) (tyName : List Char) (addr : U16) (v : List Char) :
    Except String Operation :=
  let wrap {α} (fn : String) (r : Except NumErr α) (k : α → Operation) : Except String Operation :=
    match r with
    | .ok x => .ok (k x)
    | .error e => .error ("failed to parse '" ++ str v ++ "' as " ++ str tyName ++ ": "
                          ++ numErrMsg fn v e)
  match t with
  | .reg .uint16 => wrap "ParseUint" (parseUint16E v) (fun x => .writeU16 addr x false)
  | .reg .int16 => wrap "ParseInt" (parseInt16E v) (fun x => .writeU16 addr x true)
  | .reg .uint32 => wrap "ParseUint" (parseUint32E v) (fun x => .writeU32 addr x false)
  | .reg .int32 => wrap "ParseInt" (parseInt32E v) (fun x => .writeU32 addr x true)
  | .reg .float32 => wrap "ParseFloat" (parseUint32E v) (fun x => .writeF32 addr x)
  | .reg .uint64 => wrap "ParseUint" (parseUint64E v) (fun x => .writeU64 addr x false)
  | .reg .int64 => wrap "ParseInt" (parseInt64E v) (fun x => .writeU64 addr x true)
  | .reg .float64 => wrap "ParseFloat" (parseUint64E v) (fun x => .writeF64 addr x)
  | .reg .bytes =>
    match parseHexBytesE v with
    | .ok bs => .ok (.writeBytes addr bs)
    | .error e => .error ("failed to parse '" ++ str v ++ "' as " ++ str tyName ++ ": " ++ e)
  | .string => .ok (.writeBytes addr (utf8Bytes v))

def addrErr (field : List Char) (e : String) : String :=
  "failed to parse address ('" ++ str field ++ "'): " ++ e

/-- the body of the `for _, arg := range flag.Args()` loop, on `strings.Split(arg, ":")` -/
def parseParts (parts : List (List Char)) : Except String Operation :=
  match parts with
  | [] => .error illegalFormatMsg                  -- strings.Split never returns an empty slice
  | name :: args =>
    if args.length + 1 < 2 ∧ str name ≠ "repeat" ∧ str name ≠ "date" then
      .error illegalFormatMsg
    else
    match cmdOf name with
    | none => .error ("unsupported command '" ++ str name ++ "'")
    | some .rc | some .rdi =>
      match args with
      | [a] =>
        match parseAddressAndQuantityE a with
        | .error e => .error (addrErr a e)
        | .ok (addr, q) => .ok (.readBools (cmdOf name = some .rc) addr q)
      | _ => .error (needMsg "1 argument after rc/rdi" args.length)
    | some .rh | some .ri =>
      match args with
      | [t, a] =>
        match regTyOf t with
        | none => .error ("unknown register type '" ++ str t ++ "' (should be one of " ++
                          "[u]unt16, [u]int32, [u]int64, float32, float64, bytes)")
        | some ty =>
          match parseAddressAndQuantityE a with
          | .error e => .error (addrErr a e)
          | .ok (addr, q) => .ok (.readRegs ty (cmdOf name = some .rh) addr q)
      | _ => .error (needMsg "2 arguments after rh/ri" args.length)
    | some .wc =>
      match args with
      | [a, v] =>
        match withNum "ParseUint" a (parseUint16E a) with
        | .error e => .error (addrErr a e)
        | .ok addr =>
          if str v = "true" then .ok (.writeCoil addr true)
          else if str v = "false" then .ok (.writeCoil addr false)
          else .error ("failed to parse coil value '" ++ str v ++
                       "' (should either be true or false)")
      | _ => .error (needMsg "2 arguments after writeCoil" args.length)
    | some .wr =>
      match args with
      | [t, a, v] =>
        match withNum "ParseUint" a (parseUint16E a) with
        | .error e => .error (addrErr a e)
        | .ok addr =>
          match wrTyOf t with
          | none => .error ("unknown register type '" ++ str t ++ "' (should be one of " ++
                            "[u]unt16, [u]int32, [u]int64, float32, float64, bytes, string)")
          | some ty => parseWrValue ty t addr v
      | _ => .error (needMsg "3 arguments after writeRegister" args.length)
    | some .sleep =>
      match args with
      | [d] =>
        match parseDurationE d with
        | .error e => .error ("failed to parse '" ++ str d ++ "' as duration: " ++ e)
        | .ok () => .ok (.other "sleep")
      | _ => .error (needMsg "1 argument after sleep" args.length)
    | some .sid =>
      match args with
      | [u] =>
        match parseUnitIdE u with
        | .error e => .error ("failed to parse '" ++ str u ++ "' as unit id: " ++
                              numErrMsg "ParseUint" u e)
        | .ok x => .ok (.setUnitId x)
      | _ => .error (needMsg "1 argument after setUnitId" args.length)
    | some .repeat =>
      match args with
      | [] => .ok (.other "repeat")
      | _ => .error ("repeat takes no arguments, got " ++ toString args.length)
    | some .date =>
      match args with
      | [] => .ok (.other "date")
      | _ => .error ("date takes no arguments, got " ++ toString args.length)
    | some .scan =>
      match args with
      | [t] =>
        if scanTypes.contains (str t) then .ok (.other "scan")
        else .error ("unknown scan/register type '" ++ str t ++
                     "' (valid options <coils|di|hr|ir|s>")
      | _ => .error (needMsg "1 argument after scan" args.length)
    | some .ping =>
      if args.length + 1 < 2 ∨ args.length + 1 > 3 then
        .error ("need 1 or 2 arguments after ping, got " ++ toString args.length)
      else
        let cnt := args.getD 0 []
        match parseUint16E cnt with
        | .error e => .error ("failed to parse ping count ('" ++ str cnt ++ "'): " ++
                              numErrMsg "ParseUint" cnt e)
        | .ok q =>
          if q = 0 then .error "illegal ping count value (must be >= 1)"
          else if args.length + 1 = 3 then
            let d := args.getD 1 []
            match parseDurationE d with
            | .error e => .error ("failed to parse '" ++ str d ++ "' as duration: " ++ e)
            | .ok () => .ok (.other "ping")
          else .ok (.other "ping")

def parseArgL (arg : List Char) : Except String Operation := parseParts (splitOn ':' arg)

/-- one trailing argument → operation, or the message printed before `os.Exit(2)` -/
def parseArg (arg : String) : Except String Operation := parseArgL arg.toList

def runL : List (List Char) → Except String (List Operation)
  | [] => .ok []
  | a :: rest =>
    match parseArgL a with
    | .error e => .error e
    | .ok o =>
      match runL rest with
      | .error e => .error e
      | .ok os => .ok (o :: os)

/-- the whole argument loop: the first refused argument ends the process (exit status 2) before
    the client exists; `.ok []` for an empty argument list is "nothing to do." (exit status 0) -/
def run (args : List String) : Except String (List Operation) := runL (args.map String.toList)

/-! ## the run loop -/

def regTypeArg (isHolding : Bool) : Nat := if isHolding then 0 else 1   -- HOLDING_REGISTER = 0

/-- the client call(s) one operation makes; `o.quantity + 1` is uint16 arithmetic -/
def execute : Operation → List Op
  | .readBools isCoil addr q =>
    if isCoil then [.readCoils addr (q + 1)] else [.readDiscreteInputs addr (q + 1)]
  | .readRegs ty isHolding addr q =>
    let rt := regTypeArg isHolding
    match ty with
    | .uint16 | .int16 => [.readRegisters addr (q + 1) rt]
    | .uint32 | .int32 => [.readUint32s addr (q + 1) rt]
    | .float32 => [.readFloat32s addr (q + 1) rt]
    | .uint64 | .int64 => [.readUint64s addr (q + 1) rt]
    | .float64 => [.readFloat64s addr (q + 1) rt]
    | .bytes => [.readBytes addr (q + 1) rt]
  | .writeCoil addr v => [.writeCoil addr v]
  | .writeU16 addr v _ => [.writeRegister addr v]
  | .writeU32 addr v _ => [.writeUint32 addr v]
  | .writeU64 addr v _ => [.writeUint64 addr v]
  | .writeF32 addr b => [.writeFloat32 addr b]
  | .writeF64 addr b => [.writeFloat64 addr b]
  | .writeBytes addr bs => [.writeBytes addr bs]
  | .setUnitId _ => []            -- client.SetUnitId: no request, see `nextUnit`
  | .other _ => []                -- unmodelled

/-- the unit id in force after an operation -/
def nextUnit (u : Byte) : Operation → Byte
  | .setUnitId x => x
  | _ => u

/-- the client calls of a run list, each with the unit id it is made under -/
def trace (u : Byte) : List Operation → List (Byte × Op)
  | [] => []
  | o :: rest => (execute o).map (fun c => (u, c)) ++ trace (nextUnit u o) rest

/-! ## the invocation as a whole -/

structure Invocation where
  endianness : String := "big"
  wordOrder  : String := "highfirst"
  unitId     : Nat := 1          -- value of --unit-id after flag parsing (a Go uint)
  args       : List String
  deriving Repr

inductive Outcome
  | usage (msg : String)                -- exit status 1, nothing parsed / nothing sent
  | nothingToDo                         -- exit status 0
  | refused (msg : String)              -- exit status 2 from the argument loop: no client created
  | go (endian : Endian) (word : WordOrder) (unitId : Byte) (ops : List Operation)
                                        -- NewClient, SetEncoding, SetUnitId, Open, run loop
  deriving Repr, DecidableEq

/-- `main` up to the run loop (the order of the checks is the order of the code) -/
def invoke (i : Invocation) : Outcome :=
  let e : Option Endian :=
    if i.endianness = "big" then some .big else if i.endianness = "little" then some .little
    else none
  match e with
  | none => .usage ("unknown endianness setting '" ++ i.endianness ++
                    "' (should either be big or little)")
  | some e =>
    let w : Option WordOrder :=
      if i.wordOrder = "highfirst" ∨ i.wordOrder = "hf" then some .highFirst
      else if i.wordOrder = "lowfirst" ∨ i.wordOrder = "lf" then some .lowFirst else none
    match w with
    | none => .usage ("unknown word order setting '" ++ i.wordOrder ++
                      "' (should be one of highfirst, hf, littlefirst, lf)")
    | some w =>
      if i.args = [] then .nothingToDo
      else match run i.args with
        | .error m => .refused m
        | .ok ops =>
          if i.unitId > 0xff then
            .usage ("set unit id: value '" ++ toString i.unitId ++ "' out of range")
          else .go e w (BitVec.ofNat 8 i.unitId) ops

/-- every client call of the invocation -/
def Outcome.requests : Outcome → List (Byte × Op)
  | .go _ _ u ops => trace u ops
  | _ => []

/-! ## what the run loop prints (integer, bool and byte reads; writes) -/

def hexDigit (d : Nat) : Char := if d < 10 then Char.ofNat (48 + d) else Char.ofNat (87 + d)

def natDigitsAux (b : Nat) : Nat → Nat → List Nat
  | 0, n => [n]
  | fuel + 1, n => if n < b ∨ b < 2 then [n] else natDigitsAux b fuel (n / b) ++ [n % b]

/-- digits of `n` in base `b`, most significant first -/
def natDigits (b : Nat) (n : Nat) : List Nat := natDigitsAux b n n

/-- `%0<w>x` -/
def hexPad (w n : Nat) : String :=
  let d := (natDigits 16 n).map hexDigit
  String.ofList (List.replicate (w - d.length) '0' ++ d)

def decStr (n : Nat) : String := String.ofList ((natDigits 10 n).map hexDigit)
def intStr (z : Int) : String := if z < 0 then "-" ++ decStr z.natAbs else decStr z.natAbs

/-- `%-5v` of an unsigned value -/
def padRight5 (s : String) : String := s ++ String.ofList (List.replicate (5 - s.length) ' ')

/-- `"0x%04x\t%-5v : "` -/
def addrCol (a : U16) : String :=
  "0x" ++ hexPad 4 a.toNat ++ "\t" ++ padRight5 (decStr a.toNat) ++ " : "

def enum {α} (l : List α) : List (Nat × α) := (List.range l.length).zip l

/-- `decodeString` -/
def decodeString (bs : Bytes) : String :=
  String.ofList (bs.map (fun b => if 0x20 ≤ b.toNat ∧ b.toNat ≤ 0x7e then Char.ofNat b.toNat else '.'))

def hexBytes (bs : Bytes) : String := String.join (bs.map (fun b => hexPad 2 b.toNat))

def chunks16 : Nat → Bytes → List Bytes
  | 0, _ => []
  | fuel + 1, bs => if bs = [] then [] else bs.take 16 :: chunks16 fuel (bs.drop 16)

/-- stdout of one operation given the value the client call returned (without trailing
    newlines).  Floats: placeholder `f32:0x…` / `f64:0x…` instead of `%f`. -/
def printedLines (o : Operation) (v : Val) : List String :=
  let at' (addr : U16) (k idx : Nat) : U16 := addr + BitVec.ofNat 16 idx * BitVec.ofNat 16 k
  match o, v with
  | .readBools _ addr _, .bools l =>
    (enum l).map (fun (i, b) => addrCol (at' addr 1 i) ++ (if b then "true" else "false"))
  | .readRegs .uint16 _ addr _, .u16s l =>
    (enum l).map (fun (i, x) =>
      addrCol (at' addr 1 i) ++ "0x" ++ hexPad 4 x.toNat ++ "\t" ++ decStr x.toNat)
  | .readRegs .int16 _ addr _, .u16s l =>
    (enum l).map (fun (i, x) =>
      addrCol (at' addr 1 i) ++ "0x" ++ hexPad 4 x.toNat ++ "\t" ++ intStr x.toInt)
  | .readRegs .uint32 _ addr _, .u32s l =>
    (enum l).map (fun (i, x) =>
      addrCol (at' addr 2 i) ++ "0x" ++ hexPad 8 x.toNat ++ "\t" ++ decStr x.toNat)
  | .readRegs .int32 _ addr _, .u32s l =>
    (enum l).map (fun (i, x) =>
      addrCol (at' addr 2 i) ++ "0x" ++ hexPad 8 x.toNat ++ "\t" ++ intStr x.toInt)
  | .readRegs .float32 _ addr _, .u32s l =>
    (enum l).map (fun (i, x) => addrCol (at' addr 2 i) ++ "f32:0x" ++ hexPad 8 x.toNat)
  | .readRegs .uint64 _ addr _, .u64s l =>
    (enum l).map (fun (i, x) =>
      addrCol (at' addr 4 i) ++ "0x" ++ hexPad 16 x.toNat ++ "\t" ++ decStr x.toNat)
  | .readRegs .int64 _ addr _, .u64s l =>
    (enum l).map (fun (i, x) =>
      addrCol (at' addr 4 i) ++ "0x" ++ hexPad 16 x.toNat ++ "\t" ++ intStr x.toInt)
  | .readRegs .float64 _ addr _, .u64s l =>
    (enum l).map (fun (i, x) => addrCol (at' addr 4 i) ++ "f64:0x" ++ hexPad 16 x.toNat)
  | .readRegs .bytes _ addr _, .bytes bs =>
    (enum (chunks16 (bs.length + 1) bs)).map (fun (k, row) =>
      addrCol (at' addr 8 k) ++ hexBytes (row.take 8) ++
        (if row.length > 8 then " " ++ hexBytes (row.drop 8) else "") ++
        " <" ++ decodeString row ++ ">")
  | .writeCoil addr b, .unit =>
    ["wrote " ++ (if b then "true" else "false") ++ " at coil address 0x" ++ hexPad 4 addr.toNat]
  | .writeU16 addr x sg, .unit =>
    ["wrote " ++ (if sg then intStr x.toInt else decStr x.toNat) ++ " at register address 0x"
      ++ hexPad 4 addr.toNat]
  | .writeU32 addr x sg, .unit =>
    ["wrote " ++ (if sg then intStr x.toInt else decStr x.toNat) ++ " at address 0x"
      ++ hexPad 4 addr.toNat]
  | .writeU64 addr x sg, .unit =>
    ["wrote " ++ (if sg then intStr x.toInt else decStr x.toNat) ++ " at address 0x"
      ++ hexPad 4 addr.toNat]
  | .writeF32 addr x, .unit =>
    ["wrote f32:0x" ++ hexPad 8 x.toNat ++ " at address 0x" ++ hexPad 4 addr.toNat]
  | .writeF64 addr x, .unit =>
    ["wrote f64:0x" ++ hexPad 16 x.toNat ++ " at address 0x" ++ hexPad 4 addr.toNat]
  | .writeBytes addr bs, .unit =>
    ["wrote " ++ decStr bs.length ++ " bytes at address 0x" ++ hexPad 4 addr.toNat]
  | _, _ => []

end Modbus.Cli
