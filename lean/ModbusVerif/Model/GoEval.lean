import ModbusVerif.Generated.Facts
/-
  GoEval: an evaluator for the typed rendering of Go decision logic produced by
  /verif/extract/gstmt.go (`Modbus.Gen.GTy`, `GExpr`, `GStmt`, the terms `gs_<function>`).
  Core Lean only, executable, kernel-reducible (structural recursion only: `decide` works on
  closed runs).

  ## Values and environments
  * `Val := int v | sym s | unk`. Integers and booleans (0 / 1) are `int`; error values, `nil`
    and every opaque datum (slices, structs, results of opaque calls) are symbols; `unk` is
    "no information" and never equals anything.
  * `Env := List (String × Val)`, newest binding first. Keys are the SOURCE TEXT of the leaf
    (`quantity`, `req.functionCode`, `res.payload[0]`, `len(values)`, and, for `.call` leaves, the
    whole call text). `Env.read` of a missing key is `unk`.
    An unbound `.var x .other` evaluates to `sym x` exactly when `x` is `nil` or one of the
    package's error constants (`Gen.strConsts`, generated): these are pairwise distinct
    values, so comparing two such symbols by name is sound (`strConsts_distinct`).
    Every other unbound leaf is `unk`.
  * CAVEAT (inherent in text-keyed leaves): a leaf such as `len(x)`, `x[i]`, `x.f` is a separate
    key. Assigning `x` does NOT change or invalidate it. A theorem that binds such a leaf in the
    initial environment states its value for the whole run. `staleReads` (below) lists the leaves
    of a statement that are read somewhere after (in program order) their base variable is
    assigned; for a faithful run that list must be empty or the reads unreachable/justified.
  * Values bound in the environment are expected to lie in the range of the Go type of the leaf
    (reads do not wrap). Results of `bin` and `conv` are always wrapped (`wrap`).

  ## Expressions (`eval`)
  Go integer semantics per node type: `wrap t` after every `bin` and `conv`
  (u8/u16/u32/u64/uint: mod 2^w, uint = 64 bits; i8..i64/int: two's complement, int = 64 bits;
  bool: 0/1; other: identity). `/` and `%` truncate toward zero (`Int.tdiv`, `Int.tmod`);
  a zero divisor gives `unk` (Go panics). Shifts need a count ≥ 0 (else `unk`, Go panics).
  `panics env e` tells whether evaluating `e` hits such a panic (Go evaluation order, `&&`/`||`
  short-circuit); a statement whose expression panics ends the run with `stuckAt "panic"`.
  `& | ^ &^` work on the 64-bit two's complement pattern (then `wrap`).
  Comparisons of two ints give 0/1; `==`/`!=` also compare two symbols by name; anything else
  is `unk`. `and`/`or` short-circuit like Go: `a || b` is 1 when `a` is 1 even if `b` is `unk`.
  `.call text t` is `Env.read text` (the theorem's hypotheses supply the values of opaque calls).

  ## Statements (`execFrom`, `exec`)
  `exec o fuel s env : Res`. `Res = { env, how, calls }`; `how : End` is
  `fell | returned | broke | continued | stuckAt text | stoppedAt callee args | outOfFuel`;
  `calls` is the ordered list of `bindCall`s PERFORMED, `(callee, argument values)`.
  A `bindCall targets callee args` evaluates the arguments and asks the oracle
  `o : callee → List Val → Option (List Val)`; `some results` are bound to the targets in order
  (missing results: `unk`) and the call is logged; `none` ends the run with
  `stoppedAt callee args` (not logged). `loop body` repeats `body` until it breaks
  (`fell`/`continued` → next round, `broke` → the loop falls through, anything else ends the
  run). `opaque text` = `stuckAt text`. A condition that does not evaluate to an `int` =
  `stuckAt "cond"` (never a default). An `assign` / `ite` / `bindCall` whose expression panics
  (`panics`) = `stuckAt "panic"`. Every node costs one unit of fuel; fuel 0 = `outOfFuel`
  (`Lemmas/GoEvalLemmas.lean`, `execFrom_mono`: a run that does not end `outOfFuel` is the same
  for every larger fuel).

  ## Observations and syntactic helpers
  `Res.stopped`, `Res.called`, `Res.argsOf`; `bindCalls`, `opaques`, `assignedTo`,
  `assignedTexts` (what is assigned to a target, all paths), `litField` (one field of a
  composite-literal leaf `&T{ f: v, … }`, which the translator renders as ONE opaque `.call` leaf),
  `intConst?` (`Gen.intConsts`), `hasSub`, `staleReads`.

  ## Proving things about runs
  See `Lemmas/GoEvalLemmas.lean`: tactic `go_eval [gs_…, oracle, …]` (symbolic evaluation by
  `simp only` with explicit, non-`@[defeq]` lemmas), `exec_mono`, `wrap_*` range lemmas,
  `tdiv_of_nonneg` / `tmod_of_nonneg`. Closed runs: `by decide +kernel`.
-/
namespace Modbus.GoEval
open Modbus.Gen

/-! ### values, environments -/

inductive Val
  | int (v : Int)
  | sym (s : String)
  | unk
  deriving DecidableEq, Repr, Inhabited

abbrev Env := List (String × Val)

/-- newest binding of key `x` -/
def Env.read? : Env → String → Option Val
  | [], _ => none
  | (k, v) :: r, x => if k = x then some v else Env.read? r x

/-- value of leaf `x`; missing = `unk` -/
def Env.read (env : Env) (x : String) : Val := (Env.read? env x).getD .unk

/-- bind (shadow) key `x` -/
def Env.write (env : Env) (x : String) (v : Val) : Env := (x, v) :: env

/-- Go `bool` ↦ 0 / 1 -/
def Val.ofBool (b : Bool) : Val := .int (if b then 1 else 0)

/-- truth value of a condition: any `int` ≠ 0 is true; symbols and `unk` have none -/
def Val.truth : Val → Option Bool
  | .int v => some (decide (v ≠ 0))
  | _ => none

/-- `nil` and the error constants of the package: symbols with a known identity -/
def isConstSym (x : String) : Bool := x == "nil" || strConsts.any (fun p => p.1 == x)

/-! ### integer semantics -/

/-- value of a Go expression of type `t` whose mathematical value is `v` -/
def wrap : GTy → Int → Int
  | .u8, v => v % 256
  | .u16, v => v % 65536
  | .u32, v => v % 4294967296
  | .u64, v => v % 18446744073709551616
  | .uint, v => v % 18446744073709551616
  | .i8, v => (v + 128) % 256 - 128
  | .i16, v => (v + 32768) % 65536 - 32768
  | .i32, v => (v + 2147483648) % 4294967296 - 2147483648
  | .i64, v => (v + 9223372036854775808) % 18446744073709551616 - 9223372036854775808
  | .int, v => (v + 9223372036854775808) % 18446744073709551616 - 9223372036854775808
  | .bool, v => if v = 0 then 0 else 1
  | .other, v => v

/-- the 64-bit two's complement pattern of an integer -/
def bits64 (v : Int) : Nat := (v % 18446744073709551616).toNat

/-- a binary operator on mathematical integers (before `wrap`); `none` = Go panic / unknown op -/
def binop (op : String) (a b : Int) : Option Int :=
  match op with
  | "+" => some (a + b)
  | "-" => some (a - b)
  | "*" => some (a * b)
  | "/" => if b = 0 then none else some (a.tdiv b)
  | "%" => if b = 0 then none else some (a.tmod b)
  | "&" => some (Int.ofNat (Nat.land (bits64 a) (bits64 b)))
  | "|" => some (Int.ofNat (Nat.lor (bits64 a) (bits64 b)))
  | "^" => some (Int.ofNat (Nat.xor (bits64 a) (bits64 b)))
  | "&^" => some (Int.ofNat (Nat.land (bits64 a) (18446744073709551615 - bits64 b)))
  | "<<" => if b < 0 then none else some (a * 2 ^ b.toNat)
  | ">>" => if b < 0 then none else some (a >>> b.toNat)
  | _ => none

/-- comparison operators; ints: all six, symbols: `==` / `!=` by name -/
def cmpop (op : String) : Val → Val → Val
  | .int a, .int b =>
    match op with
    | "==" => .ofBool (decide (a = b))
    | "!=" => .ofBool (decide (a ≠ b))
    | "<" => .ofBool (decide (a < b))
    | "<=" => .ofBool (decide (a ≤ b))
    | ">" => .ofBool (decide (a > b))
    | ">=" => .ofBool (decide (a ≥ b))
    | _ => .unk
  | .sym a, .sym b =>
    match op with
    | "==" => .ofBool (decide (a = b))
    | "!=" => .ofBool (decide (a ≠ b))
    | _ => .unk
  | _, _ => .unk

/-- integer result of `bin` -/
def binVal (op : String) (t : GTy) : Val → Val → Val
  | .int x, .int y =>
    match binop op x y with
    | some z => .int (wrap t z)
    | none => .unk
  | _, _ => .unk

/-- integer conversion `T(x)` -/
def convVal (t : GTy) : Val → Val
  | .int x => .int (wrap t x)
  | _ => .unk

def notVal (v : Val) : Val :=
  match v.truth with
  | some b => .ofBool (!b)
  | none => .unk

/-- `a && b` given the value of `a` and the (lazily used) value of `b` -/
def andVal (a b : Val) : Val :=
  match a.truth with
  | some false => .ofBool false
  | some true => (match b.truth with | some v => .ofBool v | none => .unk)
  | none => .unk

/-- `a || b` -/
def orVal (a b : Val) : Val :=
  match a.truth with
  | some true => .ofBool true
  | some false => (match b.truth with | some v => .ofBool v | none => .unk)
  | none => .unk

/-- value of an unbound `.var` leaf -/
def unboundVar (x : String) (t : GTy) : Val :=
  if t = .other ∧ isConstSym x = true then .sym x else .unk

def eval (env : Env) : GExpr → Val
  | .lit v _ => .int v
  | .var x t => match Env.read? env x with
    | some v => v
    | none => unboundVar x t
  | .call x _ => Env.read env x
  | .conv t e => convVal t (eval env e)
  | .bin op t a b => binVal op t (eval env a) (eval env b)
  | .cmp op a b => cmpop op (eval env a) (eval env b)
  | .not e => notVal (eval env e)
  | .and a b => andVal (eval env a) (eval env b)
  | .or a b => orVal (eval env a) (eval env b)

/-- `t = some b` -/
def isSome (b : Bool) : Option Bool → Bool
  | some x => x == b
  | none => false

/-- does evaluating `e` in `env` panic in Go: a division / remainder by zero or a negative shift
    count (operands known integers). Follows Go's evaluation order: both operands of an
    arithmetic or comparison node are evaluated, the right operand of `&&` / `||` only when the
    left one does not decide. The VALUE of such an expression is `unk` (`binop` = `none`); a
    statement that has to evaluate it is stuck (`stuckAt "panic"`). -/
def panics (env : Env) : GExpr → Bool
  | .lit _ _ | .var _ _ | .call _ _ => false
  | .conv _ e | .not e => panics env e
  | .bin op _ a b =>
    panics env a || panics env b ||
      (match eval env a, eval env b with
       | .int x, .int y => (binop op x y).isNone
       | _, _ => false)
  | .cmp _ a b => panics env a || panics env b
  | .and a b => panics env a || (isSome true (eval env a).truth && panics env b)
  | .or a b => panics env a || (isSome false (eval env a).truth && panics env b)

/-! ### statements -/

/-- how a run ended -/
inductive End
  | fell                                   -- reached the end of the statement
  | returned                               -- `return`
  | broke                                  -- `break` not yet absorbed by a loop
  | continued                              -- `continue` not yet absorbed by a loop
  | stuckAt (text : String)                -- `opaque text`, or "cond": a condition with no truth value
  | stoppedAt (callee : String) (args : List Val)   -- the oracle is undefined for this call
  | outOfFuel
  deriving DecidableEq, Repr, Inhabited

abbrev Calls := List (String × List Val)

structure Res where
  env   : Env
  how   : End
  calls : Calls
  deriving DecidableEq, Repr, Inhabited

/-- results of an opaque call, by callee name and argument values; `none`: stop here -/
abbrev Oracle := String → List Val → Option (List Val)

/-- bind results to targets in order; a missing result binds `unk` -/
def bindAll : Env → List String → List Val → Env
  | env, [], _ => env
  | env, t :: ts, rs => bindAll (Env.write env t (rs.headD .unk)) ts rs.tail

/-- a `bindCall` once the arguments are evaluated and the oracle has answered -/
def callK (env : Env) (cs : Calls) (ts : List String) (f : String) (vs : List Val) :
    Option (List Val) → Res
  | none => ⟨env, .stoppedAt f vs, cs⟩
  | some rs => ⟨bindAll env ts rs, .fell, cs ++ [(f, vs)]⟩

/-- an `ite` once the condition has a truth value -/
def iteK (c : Option Bool) (t e stuck : Res) : Res :=
  match c with
  | some true => t
  | some false => e
  | none => stuck

/-- `execFrom o fuel s env calls`: run `s` from `env`, appending to the call log `calls` -/
def execFrom (o : Oracle) : Nat → GStmt → Env → Calls → Res
  | 0, _, env, cs => ⟨env, .outOfFuel, cs⟩
  | _ + 1, .skip, env, cs => ⟨env, .fell, cs⟩
  | n + 1, .seq a b, env, cs =>
    let r := execFrom o n a env cs
    match r.how with
    | .fell => execFrom o n b r.env r.calls
    | _ => r
  | _ + 1, .assign x e, env, cs =>
    if panics env e = true then ⟨env, .stuckAt "panic", cs⟩
    else ⟨Env.write env x (eval env e), .fell, cs⟩
  | _ + 1, .bindCall ts f as, env, cs =>
    if as.any (panics env) = true then ⟨env, .stuckAt "panic", cs⟩
    else callK env cs ts f (as.map (eval env)) (o f (as.map (eval env)))
  | n + 1, .ite c t e, env, cs =>
    if panics env c = true then ⟨env, .stuckAt "panic", cs⟩
    else iteK (eval env c).truth (execFrom o n t env cs) (execFrom o n e env cs)
      ⟨env, .stuckAt "cond", cs⟩
  | n + 1, .loop body, env, cs =>
    let r := execFrom o n body env cs
    match r.how with
    | .fell | .continued => execFrom o n (.loop body) r.env r.calls
    | .broke => { r with how := .fell }
    | _ => r
  | _ + 1, .ret, env, cs => ⟨env, .returned, cs⟩
  | _ + 1, .brk, env, cs => ⟨env, .broke, cs⟩
  | _ + 1, .cont, env, cs => ⟨env, .continued, cs⟩
  | _ + 1, .opaque text, env, cs => ⟨env, .stuckAt text, cs⟩

/-- run `s` from `env` with an empty call log -/
def exec (o : Oracle) (fuel : Nat) (s : GStmt) (env : Env) : Res := execFrom o fuel s env []

/-- continuation of `seq a b` after `a` (simp normal form, see GoEvalLemmas) -/
def seqK (o : Oracle) (n : Nat) (b : GStmt) (r : Res) : Res :=
  match r.how with
  | .fell => execFrom o n b r.env r.calls
  | _ => r

/-- continuation of `loop body` after one round of `body` -/
def loopK (o : Oracle) (n : Nat) (body : GStmt) (r : Res) : Res :=
  match r.how with
  | .fell | .continued => execFrom o n (.loop body) r.env r.calls
  | .broke => { r with how := .fell }
  | _ => r

/-! ### observations on a result -/

/-- the call at which the run stopped -/
def Res.stopped (r : Res) : Option (String × List Val) :=
  match r.how with
  | .stoppedAt f vs => some (f, vs)
  | _ => none

/-- was `callee` performed (oracle answered) during the run -/
def Res.called (r : Res) (callee : String) : Bool := r.calls.any (fun c => c.1 == callee)

/-- argument values of the performed calls to `callee`, in order -/
def Res.argsOf (r : Res) (callee : String) : List (List Val) :=
  (r.calls.filter (fun c => c.1 == callee)).map (·.2)

/-! ### syntactic helpers (closed terms; use with `decide` / `rfl`) -/

/-- texts of all `.call` leaves of an expression -/
def callTexts : GExpr → List String
  | .lit _ _ | .var _ _ => []
  | .call x _ => [x]
  | .conv _ e | .not e => callTexts e
  | .bin _ _ a b | .cmp _ a b | .and a b | .or a b => callTexts a ++ callTexts b

/-- texts of all `.var` leaves of an expression -/
def varTexts : GExpr → List String
  | .lit _ _ | .call _ _ => []
  | .var x _ => [x]
  | .conv _ e | .not e => varTexts e
  | .bin _ _ a b | .cmp _ a b | .and a b | .or a b => varTexts a ++ varTexts b

/-- the expressions assigned to `target`, in program order (all paths) -/
def assignedTo (target : String) : GStmt → List GExpr
  | .assign x e => if x = target then [e] else []
  | .seq a b => assignedTo target a ++ assignedTo target b
  | .ite _ t e => assignedTo target t ++ assignedTo target e
  | .loop b => assignedTo target b
  | _ => []

/-- every `bindCall` of a statement, in program order (all paths): targets, callee, arguments -/
def bindCalls : GStmt → List (List String × String × List GExpr)
  | .bindCall ts f as => [(ts, f, as)]
  | .seq a b => bindCalls a ++ bindCalls b
  | .ite _ t e => bindCalls t ++ bindCalls e
  | .loop b => bindCalls b
  | _ => []

/-- texts of the `opaque` statements -/
def opaques : GStmt → List String
  | .opaque t => [t]
  | .seq a b => opaques a ++ opaques b
  | .ite _ t e => opaques t ++ opaques e
  | .loop b => opaques b
  | _ => []

/-- `p` occurs in `s` (lists of characters) -/
def subList (p : List Char) : List Char → Bool
  | [] => p.isEmpty
  | c :: cs => p.isPrefixOf (c :: cs) || subList p cs

/-- `p` is a substring of `s` -/
def hasSub (s p : String) : Bool := subList p.toList s.toList

/-- base variable of a compound leaf text: `len(x)` ↦ x, `x[i]` ↦ x, `x.f.g` ↦ x, `x` ↦ none -/
def leafBase (k : String) : Option String :=
  let cs := k.toList
  let cs' := if "len(".toList.isPrefixOf cs then cs.drop 4 else cs
  let b := cs'.takeWhile (fun c => c != '.' && c != '[' && c != ')' && c != '(' && c != ' ')
  if b.length = cs.length then none else some (String.ofList b)

/-- leaves read by an expression (vars and call texts) -/
def leaves (e : GExpr) : List String := varTexts e ++ callTexts e

/-- `staleFrom dirty s = (stale, dirty')`: compound leaves read in `s` whose base variable is in
    `dirty` (assigned earlier in program order), and the variables assigned up to the end of `s`.
    Conservative and path-insensitive; a loop body is scanned twice (second round). An assignment
    to the leaf itself (`req.functionCode = …`) makes later reads of it fresh again only in the
    environment, so it is still listed if its base was assigned before: inspect the list. -/
def staleFrom (dirty : List String) : GStmt → List String × List String
  | .skip | .ret | .brk | .cont | .opaque _ => ([], dirty)
  | .assign x e =>
    (((leaves e).filter (fun k => match leafBase k with | some b => dirty.contains b | none => false)),
     x :: dirty)
  | .bindCall ts _ as =>
    (((as.map leaves).flatten.filter
        (fun k => match leafBase k with | some b => dirty.contains b | none => false)),
     ts ++ dirty)
  | .seq a b =>
    let (s1, d1) := staleFrom dirty a
    let (s2, d2) := staleFrom d1 b
    (s1 ++ s2, d2)
  | .ite c t e =>
    let s0 := (leaves c).filter (fun k => match leafBase k with | some b => dirty.contains b | none => false)
    let (s1, d1) := staleFrom dirty t
    let (s2, d2) := staleFrom dirty e
    (s0 ++ s1 ++ s2, d1 ++ d2)
  | .loop b =>
    let (_, d1) := staleFrom dirty b
    let (s2, d2) := staleFrom d1 b
    (s2, d2)

/-- compound leaves read after their base variable was assigned (see the caveat in the header) -/
def staleReads (s : GStmt) : List String := (staleFrom [] s).1

/-! ### composite-literal leaves

  The translator renders `&T{ f: v, … }` as one opaque `.call` leaf named by its
  whitespace-normalised text. `litField` reads the text of one field value back. -/

/-- characters up to the next `,` / closing bracket at nesting depth 0 -/
def takeValue : Nat → List Char → List Char
  | _, [] => []
  | d, c :: cs =>
    if d = 0 ∧ (c = ',' ∨ c = '}' ∨ c = ')' ∨ c = ']') then []
    else if c = '(' ∨ c = '{' ∨ c = '[' then c :: takeValue (d + 1) cs
    else if c = ')' ∨ c = '}' ∨ c = ']' then c :: takeValue (d - 1) cs
    else c :: takeValue d cs

/-- the rest of `s` after the first occurrence of `p` -/
def afterPat (p : List Char) : List Char → Option (List Char)
  | [] => none
  | c :: cs => if p.isPrefixOf (c :: cs) then some ((c :: cs).drop p.length) else afterPat p cs

/-- `litField "&pdu{ unitId: mc.unitId, functionCode: fcWriteSingleCoil, }" "functionCode"`
    `= some "fcWriteSingleCoil"` (first occurrence of ` field: `) -/
def litField (text field : String) : Option String :=
  (afterPat (" " ++ field ++ ": ").toList text.toList).map (fun r => String.ofList (takeValue 0 r))

/-- source text of a leaf expression (`.var` / `.call`); `none` for anything else -/
def leafText? : GExpr → Option String
  | .var x _ | .call x _ => some x
  | _ => none

/-- the leaf texts assigned to `target` (`none` entries: non-leaf expressions) -/
def assignedTexts (target : String) (s : GStmt) : List (Option String) :=
  (assignedTo target s).map leafText?

/-- value of a named integer constant of the package (`Gen.intConsts`) -/
def intConst? (name : String) : Option Int := intConsts.lookup name

end Modbus.GoEval
