import ModbusVerif.Model.Prelude
/-
  server.go `(*ModbusServer).extractRole` together with the two standard-library functions it
  depends on, transcribed from the Go 1.23 sources:

    unicode/utf8   `Valid`                       (tables `first`, `acceptRanges`)
    encoding/asn1  `Unmarshal(b, &role)` with `role string`, i.e.
                   `UnmarshalWithParams` → `parseField` → `parseTagAndLength`, `invalidLength`,
                   `parseUTF8String`

  Conventions.

  * A Go slice together with a moving index (`bytes`/`offset`, `p`/`i`) is represented by the
    remaining suffix `bytes[offset:]` / `p[i:]`; `bytes[offset]` is index 0 of the suffix,
    `offset >= len(bytes)` is "the suffix is empty", `offset++` is `drop 1`.
  * Every Go index / slice expression goes through `idx` / `sliceTo` / `sliceFrom`, which yield
    the fault `panic` when Go would panic (index or slice bounds out of range). The guards are the
    ones of the Go code, in the same place. `RoleLemmas.extractRoleChecked_ok` proves that no
    fault is ever produced by `extractRoleChecked` (C15_total).
  * Loops without a structural argument take fuel; running out of fuel is the fault `fuel`
    (never happens either).
  * Go `int` is 64 bit here: `ret.length <<= 8` is guarded by `ret.length >= 1<<23`, so lengths
    stay below 2^31 and `offset+length` cannot overflow; `Nat` arithmetic is exact.
  * Only the fragment reachable from `extractRole` is modelled: the caller has checked
    `Value[0] == 0x0c` (class universal, primitive, tag 12 = UTF8String). For any other
    identifier octet that gets through the tag-and-length parser the model answers with the
    fault `unmodelled` (Go would look at other string types, compound bit, class mismatch
    "tags don't match", high tag numbers ...). `unmodelled` cannot come out of
    `extractRoleChecked` (same theorem).

  Core Lean only, executable; linear in the size of the input (values of 70 000 bytes are fine).
-/
namespace Modbus.Role

/-- why a checked computation did not produce a value -/
inductive Fault
  | err          -- the Go function returns a non-nil `error`
  | panic        -- Go run-time panic (index / slice bounds out of range)
  | fuel         -- loop fuel exhausted (artefact of the model)
  | unmodelled   -- input outside the modelled fragment (identifier octet other than 0x0c)
  deriving DecidableEq, Repr, Inhabited

abbrev M := Except Fault

/-- `len(p) < k`, looking at no more than `k` cells -/
def shorterThan : Bytes → Nat → Bool
  | _, 0 => false
  | [], _+1 => true
  | _ :: r, k+1 => shorterThan r k

/-- Go `p[k]` -/
def idx (p : Bytes) (k : Nat) : M Byte :=
  match p[k]? with
  | some b => .ok b
  | none => .error .panic

/-- Go `p[:b]` (with `cap(p) = len(p)`) -/
def sliceTo (p : Bytes) (b : Nat) : M Bytes :=
  if shorterThan p b then .error .panic else .ok (p.take b)

/-- Go `p[a:]` -/
def sliceFrom (p : Bytes) (a : Nat) : M Bytes :=
  if shorterThan p a then .error .panic else .ok (p.drop a)

/-! ## unicode/utf8 `Valid` -/

def runeSelf : Byte := 0x80
def locb : Byte := 0x80
def hicb : Byte := 0xBF

def XX : Byte := 0xF1  -- invalid: size 1
def AS : Byte := 0xF0  -- ASCII: size 1
def S1 : Byte := 0x02  -- accept 0, size 2
def S2 : Byte := 0x13  -- accept 1, size 3
def S3 : Byte := 0x03  -- accept 0, size 3
def S4 : Byte := 0x23  -- accept 2, size 3
def S5 : Byte := 0x34  -- accept 3, size 4
def S6 : Byte := 0x04  -- accept 0, size 4
def S7 : Byte := 0x44  -- accept 4, size 4

/-- `var first = [256]uint8{...}` -/
def firstTable : Array Byte := #[
  AS, AS, AS, AS, AS, AS, AS, AS, AS, AS, AS, AS, AS, AS, AS, AS, -- 0x00-0x0F
  AS, AS, AS, AS, AS, AS, AS, AS, AS, AS, AS, AS, AS, AS, AS, AS, -- 0x10-0x1F
  AS, AS, AS, AS, AS, AS, AS, AS, AS, AS, AS, AS, AS, AS, AS, AS, -- 0x20-0x2F
  AS, AS, AS, AS, AS, AS, AS, AS, AS, AS, AS, AS, AS, AS, AS, AS, -- 0x30-0x3F
  AS, AS, AS, AS, AS, AS, AS, AS, AS, AS, AS, AS, AS, AS, AS, AS, -- 0x40-0x4F
  AS, AS, AS, AS, AS, AS, AS, AS, AS, AS, AS, AS, AS, AS, AS, AS, -- 0x50-0x5F
  AS, AS, AS, AS, AS, AS, AS, AS, AS, AS, AS, AS, AS, AS, AS, AS, -- 0x60-0x6F
  AS, AS, AS, AS, AS, AS, AS, AS, AS, AS, AS, AS, AS, AS, AS, AS, -- 0x70-0x7F
  XX, XX, XX, XX, XX, XX, XX, XX, XX, XX, XX, XX, XX, XX, XX, XX, -- 0x80-0x8F
  XX, XX, XX, XX, XX, XX, XX, XX, XX, XX, XX, XX, XX, XX, XX, XX, -- 0x90-0x9F
  XX, XX, XX, XX, XX, XX, XX, XX, XX, XX, XX, XX, XX, XX, XX, XX, -- 0xA0-0xAF
  XX, XX, XX, XX, XX, XX, XX, XX, XX, XX, XX, XX, XX, XX, XX, XX, -- 0xB0-0xBF
  XX, XX, S1, S1, S1, S1, S1, S1, S1, S1, S1, S1, S1, S1, S1, S1, -- 0xC0-0xCF
  S1, S1, S1, S1, S1, S1, S1, S1, S1, S1, S1, S1, S1, S1, S1, S1, -- 0xD0-0xDF
  S2, S3, S3, S3, S3, S3, S3, S3, S3, S3, S3, S3, S3, S4, S3, S3, -- 0xE0-0xEF
  S5, S6, S6, S6, S7, XX, XX, XX, XX, XX, XX, XX, XX, XX, XX, XX  -- 0xF0-0xFF
]

/-- `first[b]`: a `[256]uint8` indexed by a `uint8` cannot be out of range
    (`RoleLemmas.firstTable_size`) -/
def first (b : Byte) : Byte := firstTable.getD b.toNat XX

structure AcceptRange where
  lo : Byte
  hi : Byte
  deriving DecidableEq, Repr

/-- `var acceptRanges = [16]acceptRange{0: .., 1: .., 2: .., 3: .., 4: ..}` (other entries zero) -/
def acceptRangesTable : Array AcceptRange := #[
  ⟨locb, hicb⟩, ⟨0xA0, hicb⟩, ⟨locb, 0x9F⟩, ⟨0x90, hicb⟩, ⟨locb, 0x8F⟩,
  ⟨0, 0⟩, ⟨0, 0⟩, ⟨0, 0⟩, ⟨0, 0⟩, ⟨0, 0⟩, ⟨0, 0⟩, ⟨0, 0⟩, ⟨0, 0⟩, ⟨0, 0⟩, ⟨0, 0⟩, ⟨0, 0⟩
]

/-- `acceptRanges[x>>4]`: 16 entries, index `uint8 >> 4 ≤ 15`, cannot be out of range -/
def acceptRanges (i : Byte) : AcceptRange := acceptRangesTable.getD i.toNat ⟨0, 0⟩

/-- the fast path `for len(p) >= 8 { if (first32|second32)&0x80808080 != 0 {break}; p = p[8:] }`:
    drop blocks of 8 bytes as long as none of the 8 has its top bit set -/
def fastPath : Bytes → Bytes
  | p@(a0 :: a1 :: a2 :: a3 :: a4 :: a5 :: a6 :: a7 :: r) =>
    if (a0 ||| a1 ||| a2 ||| a3 ||| a4 ||| a5 ||| a6 ||| a7) &&& 0x80 != 0 then p else fastPath r
  | p => p

/-- the part of the loop body after `x := first[pi]` for a non-ASCII `pi = p[i]`; `p` is `p[i:]`.
    `.ok none`: `return false`; `.ok (some size)`: fall through to `i += size`. -/
def multiByte (p : Bytes) (pi : Byte) : M (Option Nat) :=
  let x := first pi
  if x == XX then .ok none                                   -- illegal starter byte
  else
    let size := (x &&& 7).toNat
    if shorterThan p size then .ok none                      -- i+size > n: short or invalid
    else
      let accept := acceptRanges (x >>> 4)
      match idx p 1 with
      | .error e => .error e
      | .ok c =>
        if c < accept.lo || accept.hi < c then .ok none
        else if size == 2 then .ok (some size)
        else
          match idx p 2 with
          | .error e => .error e
          | .ok c =>
            if c < locb || hicb < c then .ok none
            else if size == 3 then .ok (some size)
            else
              match idx p 3 with
              | .error e => .error e
              | .ok c =>
                if c < locb || hicb < c then .ok none
                else .ok (some size)

/-- `for i := 0; i < n; { ... }` on `p[i:]` -/
def validLoop : Nat → Bytes → M Bool
  | 0, _ => .error .fuel
  | fuel+1, p =>
    match p with
    | [] => .ok true                                         -- i < n is false
    | pi :: _ =>
      if pi < runeSelf then validLoop fuel (p.drop 1)        -- i++; continue
      else
        match multiByte p pi with
        | .error e => .error e
        | .ok none => .ok false
        | .ok (some size) => validLoop fuel (p.drop size)    -- i += size

/-- `utf8.Valid(p)` with faults -/
def utf8ValidChecked (p : Bytes) : M Bool :=
  let p := fastPath p
  validLoop (p.length + 1) p

/-- `utf8.Valid(p)` (it has no fault: `RoleLemmas.utf8ValidChecked_ok`) -/
def utf8Valid (p : Bytes) : Bool :=
  match utf8ValidChecked p with
  | .ok b => b
  | .error _ => false

/-! ## encoding/asn1 -/

structure TagAndLength where
  cls        : Nat
  tag        : Nat
  length     : Nat
  isCompound : Bool
  deriving DecidableEq, Repr

/-- the long-form loop of `parseTagAndLength`:
    `for i := 0; i < numBytes; i++ { ... }` with the running `ret.length`; `bytes` is
    `bytes[offset:]`. Returns the length and the remaining `bytes[offset:]`. -/
def lengthLoop : Nat → Nat → Bytes → M (Nat × Bytes)
  | 0, length, bytes => .ok (length, bytes)
  | n+1, length, bytes =>
    if bytes.isEmpty then .error .err                        -- truncated tag or length
    else
      match idx bytes 0 with
      | .error e => .error e
      | .ok b =>
        if length ≥ 2^23 then .error .err                    -- length too large
        else
          let length := (length <<< 8) ||| b.toNat
          if length == 0 then .error .err                    -- superfluous leading zeros in length
          else lengthLoop n length (bytes.drop 1)

/-- the length octets: `bytes` is `bytes[offset:]` after the identifier octet -/
def parseLength (bytes : Bytes) : M (Nat × Bytes) :=
  if bytes.isEmpty then .error .err                          -- truncated tag or length
  else
    match idx bytes 0 with
    | .error e => .error e
    | .ok b =>
      if b &&& 0x80 == 0 then .ok ((b &&& 0x7f).toNat, bytes.drop 1)
      else
        let numBytes := (b &&& 0x7f).toNat
        if numBytes == 0 then .error .err                    -- indefinite length found (not DER)
        else
          match lengthLoop numBytes 0 (bytes.drop 1) with
          | .error e => .error e
          | .ok (length, rest) =>
            if length < 0x80 then .error .err                -- non-minimal length
            else .ok (length, rest)

/-- `parseTagAndLength(bytes, 0)`; returns `ret` and `bytes[offset:]`. High tag numbers
    (`b & 0x1f == 0x1f`, `parseBase128Int`) are outside the modelled fragment. -/
def parseTagAndLength (bytes : Bytes) : M (TagAndLength × Bytes) :=
  if bytes.isEmpty then .error .err                          -- internal error in parseTagAndLength
  else
    match idx bytes 0 with
    | .error e => .error e
    | .ok b =>
      let cls := (b >>> 6).toNat
      let isCompound := b &&& 0x20 == 0x20
      let tag := (b &&& 0x1f).toNat
      if tag == 0x1f then .error .unmodelled
      else
        match parseLength (bytes.drop 1) with
        | .error e => .error e
        | .ok (length, rest) => .ok (⟨cls, tag, length, isCompound⟩, rest)

def tagUTF8String : Nat := 12

/-- `parseUTF8String` -/
def parseUTF8String (bytes : Bytes) : M Bytes :=
  match utf8ValidChecked bytes with
  | .error e => .error e
  | .ok true => .ok bytes
  | .ok false => .error .err                                 -- invalid UTF-8 string

/-- `asn1.Unmarshal(b, &role)` for `role string`: `parseField(v, b, 0, {})` and `b[offset:]`.
    Result: the decoded string (its bytes) and `rest`. -/
def unmarshalChecked (b : Bytes) : M (Bytes × Bytes) :=
  if b.isEmpty then .error .err                              -- offset == len(bytes): sequence truncated
  else
    match parseTagAndLength b with
    | .error e => .error e
    | .ok (t, body) =>
      -- a string target: universalTag becomes t.tag for the wire string types; expected class
      -- universal, primitive. Only tag 12 on the wire is modelled.
      if !(t.cls == 0 && t.tag == tagUTF8String && !t.isCompound) then .error .unmodelled
      else if shorterThan body t.length then .error .err     -- invalidLength: data truncated
      else
        match sliceTo body t.length with                     -- innerBytes := bytes[offset:offset+t.length]
        | .error e => .error e
        | .ok inner =>
          match parseUTF8String inner with
          | .error e => .error e
          | .ok s =>
            match sliceFrom body t.length with               -- b[offset:]
            | .error e => .error e
            | .ok rest => .ok (s, rest)

/-- `asn1.Unmarshal(v, &role)`: `.ok (role, rest)` or an error. Meaningful for `v[0] = 0x0c`
    (what `extractRole` passes); any fault is reported as an error. -/
def unmarshalUtf8String (v : Bytes) : Except Unit (Bytes × Bytes) :=
  match unmarshalChecked v with
  | .ok r => .ok r
  | .error _ => .error ()

/-! ## server.go `extractRole` -/

/-- `pkix.Extension` without the `Critical` flag: `Id asn1.ObjectIdentifier`, `Value []byte` -/
structure Ext where
  id    : List Nat
  value : Bytes
  deriving DecidableEq, Repr, Inhabited

/-- `modbusRoleOID` = 1.3.6.1.4.1.50316.802.1 -/
def modbusRoleOID : List Nat := [1, 3, 6, 1, 4, 1, 50316, 802, 1]

/-- the local variables of `extractRole` that live across iterations (`rest`, `err` do not) -/
structure St where
  role    : Bytes
  found   : Bool
  badCert : Bool
  deriving DecidableEq, Repr

/-- `for _, ext := range cert.Extensions { ... }`; returning without recursing is `break` -/
def roleLoop : List Ext → St → M St
  | [], st => .ok st
  | ext :: more, st =>
    if ext.id = modbusRoleOID then                           -- ext.Id.Equal(modbusRoleOID)
      if st.found then .ok { st with badCert := true }
      else
        let st := { st with found := true }
        if shorterThan ext.value 2 then .ok { st with badCert := true }     -- len(ext.Value) < 2 ||
        else
          match idx ext.value 0 with                                          -- ext.Value[0] != 0x0c
          | .error e => .error e
          | .ok v0 =>
            if v0 != 0x0c then .ok { st with badCert := true }
            else
              match unmarshalChecked ext.value with
              | .error .err => .ok { st with badCert := true }               -- err != nil
              | .error e => .error e
              | .ok (role, rest) =>
                let st := { st with role := role }
                if !rest.isEmpty then .ok { st with badCert := true }         -- len(rest) != 0
                else roleLoop more st
    else roleLoop more st

/-- `extractRole` with faults -/
def extractRoleChecked (exts : List Ext) : M Bytes :=
  match roleLoop exts { role := [], found := false, badCert := false } with
  | .error e => .error e
  | .ok st => .ok (if st.badCert then [] else st.role)

/-- `extractRole`: the role as its UTF-8 bytes, `""` = `[]`
    (no fault occurs: `RoleLemmas.extractRoleChecked_ok`) -/
def extractRole (exts : List Ext) : Bytes :=
  match extractRoleChecked exts with
  | .ok r => r
  | .error _ => []

end Modbus.Role
