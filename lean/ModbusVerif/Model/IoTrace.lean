import ModbusVerif.Model.Mbap
import ModbusVerif.Model.Rtu
import ModbusVerif.Model.Timing
/-
  I/O primitive trace of one client exchange and a symbolic clock (property C07).

  A trace is the sequence of calls `ExecuteRequest` makes on its connection / on the clock:
  `SetDeadline`, `Write`, `Read` (the individual `Read` calls inside `io.ReadFull`) and
  `time.Sleep`. The correspondence harness wraps the connection of the real client in a
  recorder, delivers the whole input stream as ONE chunk and compares the recorded sequence
  with `showTrace` of the trace computed here.

  Text format (one token per op, separated by single spaces; all numbers decimal):
      sd:<ns>          SetDeadline(now + ns)
      w:<n>            Write of an n-byte frame
      r:<want>:<got>   Read(buf) with len(buf) = want that returned got > 0 bytes, nil error
      re:<want>        Read(buf) with len(buf) = want that returned 0 bytes and the
                       stream's ending error (deadline exceeded / EOF / reset)
      sl:<ns>          time.Sleep(ns)

  Core Lean only; executable.
-/
namespace Modbus.Io
open Modbus

inductive Op
  | setDeadline (relNs : Nat)
  | write (n : Nat)
  | read (want : Nat) (got : Nat)
  | readEnd (want : Nat)
  | sleep (ns : Nat)
  deriving DecidableEq, Repr, Inhabited

def Op.show : Op → String
  | .setDeadline ns => "sd:" ++ toString ns
  | .write n => "w:" ++ toString n
  | .read want got => "r:" ++ toString want ++ ":" ++ toString got
  | .readEnd want => "re:" ++ toString want
  | .sleep ns => "sl:" ++ toString ns

/-- space-separated rendering of a trace, e.g. `sd:1000000 w:12 r:7:7 r:6:6` -/
def showTrace (t : List Op) : String := " ".intercalate (t.map Op.show)

/-- a `Read` call (answered by data or by the ending error) -/
def Op.isRead : Op → Bool
  | .read .. | .readEnd .. => true
  | _ => false

/-- a call on the connection that is subject to the armed deadline: `Read` or `Write` -/
def Op.isIO : Op → Bool
  | .read .. | .readEnd .. | .write .. => true
  | _ => false

def Op.isSetDeadline : Op → Bool
  | .setDeadline .. => true
  | _ => false

/-- bytes a single op takes off the input stream -/
def Op.got : Op → Nat
  | .read _ g => g
  | _ => 0

/-- bytes taken off the input stream by a whole trace -/
def gotSum : List Op → Nat
  | [] => 0
  | op :: t => op.got + gotSum t

/-- number of `SetDeadline` calls in a trace -/
def countDeadlines (t : List Op) : Nat := (t.filter Op.isSetDeadline).length

/-- the `Read` calls of `io.ReadFull(conn, buf[0:n])` when the connection currently holds
    `avail` bytes, delivered as one chunk, and then ends:
    `for got < n && err == nil { k, err = Read(buf[got:n]); got += k }` -/
def rfTrace (n : Nat) (avail : Nat) : List Op :=
  if n = 0 then []
  else if n ≤ avail then [.read n n]
  else if avail = 0 then [.readEnd n]
  else [.read n avail, .readEnd (n - avail)]

/-! ### MBAP (tcp, tcp+tls, udp) -/

/-- one iteration of the `readResponse` loop: the reads of one `readMBAPFrame`, and whether the
    loop goes round again (`next`: frame skipped, the stream continues at `rest`) -/
inductive Step
  | stop (ops : List Op)
  | next (ops : List Op) (rest : Bytes)
  deriving Repr, DecidableEq

def Step.ops : Step → List Op
  | .stop ops => ops
  | .next ops _ => ops

/-- same reads, same checks, same order as `Mbap.readFrame` followed by the `continue`/`return`
    decisions of `readResponse` -/
def mbapFrameStep (txn : U16) (s : Bytes) : Step :=
  -- io.ReadFull(socket, rxbuf[0:7])
  if Mbap.mbapHeaderLength ≤ s.length then
    let h     := s.take Mbap.mbapHeaderLength
    let rest  := s.drop Mbap.mbapHeaderLength
    let t     := mk16 (h.getD 0 0) (h.getD 1 0)
    let proto := mk16 (h.getD 2 0) (h.getD 3 0)
    let len   := (mk16 (h.getD 4 0) (h.getD 5 0)).toNat
    let hdr   := rfTrace Mbap.mbapHeaderLength s.length
    if len + Mbap.mbapHeaderLength > Mbap.maxTCPFrameLength + 1 then .stop hdr   -- ErrProtocolError
    else if len ≤ 1 then .stop hdr                                              -- ErrProtocolError
    else
      -- io.ReadFull(socket, rxbuf[0:len-1])
      let body := rfTrace (len - 1) rest.length
      if len - 1 ≤ rest.length then
        let rest' := rest.drop (len - 1)
        if proto ≠ 0 then .next (hdr ++ body) rest'        -- ErrUnknownProtocolId: continue
        else if t = txn then .stop (hdr ++ body)           -- the awaited reply: break
        else .next (hdr ++ body) rest'                     -- foreign transaction id: continue
      else .stop (hdr ++ body)                             -- short read: the Read error
  else .stop (rfTrace Mbap.mbapHeaderLength s.length)      -- short read: the Read error

/-- the `Read` calls of `readResponse`; `none`: fuel exhausted (unreachable with fuel
    `s.length + 1`, theorem `mbapReadsAux_isSome`) -/
def mbapReadsAux : Nat → U16 → Bytes → Option (List Op)
  | 0, _, _ => none
  | fuel+1, txn, s =>
    match mbapFrameStep txn s with
    | .stop ops => some ops
    | .next ops rest =>
      match mbapReadsAux fuel txn rest with
      | some t => some (ops ++ t)
      | none => none

def mbapReads (txn : U16) (s : Bytes) : List Op :=
  (mbapReadsAux (s.length + 1) txn s).getD []

/-- `tcpTransport.ExecuteRequest`: one `SetDeadline(now + timeout)`, one `Write` of the
    `frameLen`-byte request, then `readResponse` on the stream `s` -/
def mbapTrace (timeoutNs : Nat) (frameLen : Nat) (txn : U16) (s : Bytes) : List Op :=
  .setDeadline timeoutNs :: .write frameLen :: mbapReads txn s

/-! ### RTU (rtu, rtuovertcp, rtuoverudp) -/

/-- the `Read` calls of `readRTUFrame` (they do not depend on how the stream ends) -/
def rtuReadOps (s : Bytes) : List Op :=
  -- io.ReadFull(link, rxbuf[0:3])
  rfTrace 3 s.length ++
  (if 3 ≤ s.length then
    let h := s.take 3
    match Rtu.expectedResponseLength (h.getD 1 0) (h.getD 2 0) with
    | .error _ => []
    | .ok n =>
      if 3 + (n + 2) > Rtu.maxRTUFrameLength then []
      -- io.ReadFull(link, rxbuf[3:3+n+2])
      else rfTrace (n + 2) (s.length - 3)
   else [])

/-- `time.Sleep(256 * t1); discard(link)`, where `discard` =
    `SetDeadline(now + 500µs); io.ReadFull(link, 1024-byte buffer)`, with `remaining` unread bytes -/
def resyncOps (rate : Nat) (remaining : Nat) : List Op :=
  [.sleep (Timing.maxRTUFrameLength * Timing.t1 rate), .setDeadline 500000] ++
    rfTrace Rtu.discardLen remaining

/-- what follows `readRTUFrame` in `ExecuteRequest` -/
def rtuTail (rate : Nat) (r : (Except Err Pdu) × Bytes) : List Op :=
  match r with
  | (.error .badCRC, rest) => resyncOps rate rest.length
  | (.error .protocolError, rest) => resyncOps rate rest.length
  | (.error .shortFrame, rest) => resyncOps rate rest.length
  | _ => []

/-- `rtuTransport.ExecuteRequest` on a link at `rate` baud (the code since fix c501b6a):
    `SetDeadline(now + timeout)`; `Sleep(waitNs)` only if the line was active less than t3.5 ago
    (`waitNs > 0`); `Write`; `Sleep(postNs)` (always called; `postNs` = lastActivity + t3.5 - now,
    0 if negative); `SetDeadline(now + timeout)` AGAIN - the request has only now left the line,
    the device gets the whole timeout to respond; `readRTUFrame` on the stream `s` ending with
    `e`; on ErrBadCRC / ErrProtocolError / ErrShortFrame the resynchronisation sleep and `discard`.
    (Whether a stream that ends inside the frame body is a short frame depends on the ending:
    EOF gives ErrShortFrame, a timeout or reset gives that error; hence the parameter `e`.)
    The single-deadline trace of the code before the fix is `Io.rtuTraceOld` (IoTraceExt.lean). -/
def rtuTrace (timeoutNs rate : Nat) (frameLen : Nat) (waitNs postNs : Nat) (s : Bytes)
    (e : Ending) : List Op :=
  [.setDeadline timeoutNs] ++ (if waitNs > 0 then [.sleep waitNs] else []) ++
    [.write frameLen, .sleep postNs, .setDeadline timeoutNs] ++ rtuReadOps s ++
    rtuTail rate (Rtu.readFrame s e)

/-! ### symbolic clock -/

/-- time on Go's monotonic clock (ns) and the absolute deadline armed on the connection -/
structure Clock where
  now      : Nat
  deadline : Option Nat
  deriving DecidableEq, Repr, Inhabited

/-- the assumptions on the duration `d` the environment chooses for one op
    (local computation between two primitives is not modelled: it takes no time).
    * A-deadline, `Read` / `Write`: with a deadline `D` armed, an operation started before `D`
      returns no later than `D`, and one started after `D` fails at once: `now + d ≤ max now D`.
      Without a deadline the duration is arbitrary.
    * A-sleep, `Sleep(ns)`: returns after at least `ns` and oversleeps by at most `ε`.
    * `SetDeadline` takes no time. -/
def durOk (ε : Nat) (c : Clock) (op : Op) (d : Nat) : Prop :=
  match op with
  | .setDeadline _ => d = 0
  | .sleep ns => ns ≤ d ∧ d ≤ ns + ε
  | .write _ | .read _ _ | .readEnd _ =>
    match c.deadline with
    | none => True
    | some D => c.now + d ≤ max c.now D

instance (ε : Nat) (c : Clock) (op : Op) (d : Nat) : Decidable (durOk ε c op d) := by
  cases c with
  | mk now dl =>
    cases op <;> cases dl <;> simp only [durOk] <;> infer_instance

/-- the clock after an op of duration `d`; `SetDeadline(now + rel)` arms `now + rel` -/
def Clock.step (c : Clock) (op : Op) (d : Nat) : Clock :=
  match op with
  | .setDeadline rel => { now := c.now + d, deadline := some (c.now + rel) }
  | _ => { now := c.now + d, deadline := c.deadline }

/-- run a trace with the durations chosen by the environment; `none` if a duration violates
    the assumptions `durOk` -/
def runClock (ε : Nat) : Clock → List (Op × Nat) → Option Clock
  | c, [] => some c
  | c, (op, d) :: rest => if durOk ε c op d then runClock ε (c.step op d) rest else none

/-- the fixed margin of an RTU exchange over its timeout, NOT counting the time `Write` takes
    (`C07_elapsed_rtu`: the call ends by `t0 + T + rtuMargin + dWrite`): the two inter-frame
    sleeps, the resynchronisation sleep `256 * t1`, the 500 µs `discard` deadline, and one
    oversleep `ε` per sleep -/
def rtuMargin (rate waitNs postNs ε : Nat) : Nat :=
  (if waitNs > 0 then waitNs + ε else 0) + (postNs + ε) +
    (Timing.maxRTUFrameLength * Timing.t1 rate + ε) + 500000

/-! ### the text format, checked at elaboration time (compiled evaluation; not theorems) -/

#guard showTrace [.setDeadline 1000000, .write 12, .read 7 7, .read 4 2, .readEnd 2, .sleep 146666496] =
  "sd:1000000 w:12 r:7:7 r:4:2 re:2 sl:146666496"
#guard showTrace [] = ""
#guard showTrace (mbapTrace 1000000 12 0x1235 [0x12, 0x35, 0, 0, 0, 5, 1, 3, 2, 0xAB, 0xCD]) =
  "sd:1000000 w:12 r:7:7 r:4:4"
#guard showTrace (rtuTrace 1000000 19200 8 250000 5916661 [0x01, 0x03, 0x02, 0x00, 0x0a, 0x38, 0x44, 0xFF] .timeout) =
  "sd:1000000 sl:250000 w:8 sl:5916661 sd:1000000 r:3:3 r:4:4 sl:146666496 sd:500000 r:1024:1 re:1023"

end Modbus.Io
