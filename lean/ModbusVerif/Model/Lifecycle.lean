/-
  Lifecycle: executable small-step model of the connection life cycle of the TCP server
  (server.go: `Start`, `Stop`, `acceptTCPClients(listener)`, `handleTCPClient(sock)`; fields
  `lock`, `started`, `tcpListener`, `tcpClients`, `conf.MaxClients`).

  One model step = one atomic unit of the Go code between two `verifYield` scheduling points
  (or one critical section under `ms.lock`).  Core Lean only: the file is linked into `mbmodel`.

    start            Start():  lock; if !started { listener := Listen (generation gen+1);
                               go acceptTCPClients(listener); started = true }
    stop             Stop():   lock; if started { started = false; listener.Close();
                               for sock in tcpClients { sock.Close() } }       (list not cleared)
    arrive c         a peer connects to the open listener (enters its accept queue)
    accept a c       listener.Accept() returns c in acceptor goroutine a        [yield "accepted"]
    acceptorExit a   listener.Accept() returns net.ErrClosed: goroutine a returns
    decide c         lock; if started && len(tcpClients) < MaxClients { append } [yield "decided"]
    launch c         accepted: go handleTCPClient(sock)  /  else: sock.Close()
    finish c r       handleTransport returns (read error on the connection)     [yield "finished"]
    remove c         lock; swap-with-last removal of the first match             [yield "removed"]
    close c          sock.Close(); the session goroutine returns
    request c        the peer sends a request: handled iff c is serving and its socket is open
-/
namespace Modbus.Lifecycle

abbrev ConnId := Nat

/-- program counter of one connection -/
inductive Phase
  | fresh       -- id not used yet (no such connection)
  | backlog     -- connected, waiting in the accept queue of the listener
  | accepted    -- Accept returned it; before the admission critical section
  | admitted    -- appended to tcpClients; `go handleTCPClient` not yet executed
  | rejecting   -- admission refused; `sock.Close()` of the accept loop not yet executed
  | rejected    -- closed by the accept loop, never handed to a session
  | serving     -- session goroutine inside handleTransport
  | finished    -- handleTransport returned; before the removal critical section
  | removed     -- removal critical section done; before `sock.Close()`
  | closed      -- session goroutine returned
  | dropped     -- still in the accept queue when its listener was closed (reset by the kernel)
  deriving DecidableEq, Repr, Inhabited

namespace Phase
/-- phases in which the connection is an element of `tcpClients` -/
def inList : Phase → Bool
  | admitted | serving | finished => true
  | _ => false
/-- phases reachable only through the admit branch -/
def wasAdmitted : Phase → Bool
  | admitted | serving | finished | removed | closed => true
  | _ => false
/-- phases in which a session goroutine exists or existed -/
def session : Phase → Bool
  | serving | finished | removed | closed => true
  | _ => false
/-- phases reachable only through the reject branch -/
def isRejected : Phase → Bool
  | rejecting | rejected => true
  | _ => false
/-- the connection is in the hands of an acceptor goroutine (between Accept and the loop back) -/
def held : Phase → Bool
  | accepted | admitted | rejecting => true
  | _ => false
/-- nothing will ever happen to the connection on the server side -/
def terminal : Phase → Bool
  | rejected | closed | dropped => true
  | _ => false
/-- number of server-side steps the connection still needs to reach a terminal phase -/
def weight : Phase → Nat
  | accepted => 5 | admitted => 4 | serving => 3 | finished => 2 | removed => 1
  | rejecting => 1
  | _ => 0
def name : Phase → String
  | fresh => "fresh" | backlog => "backlog" | accepted => "accepted" | admitted => "admitted"
  | rejecting => "rejecting" | rejected => "rejected" | serving => "serving"
  | finished => "finished" | removed => "removed" | closed => "closed" | dropped => "dropped"
end Phase

structure Conn where
  phase      : Phase
  /-- the server side closed this socket (Stop, the accept loop's reject, or the session's own Close) -/
  sockClosed : Bool
  /-- generation of the listener the peer connected to -/
  gen        : Nat
  deriving DecidableEq, Repr, Inhabited

def Conn.fresh : Conn := ⟨.fresh, false, 0⟩

/-- program counter of an accept goroutine -/
inductive AccPc
  | accepting               -- blocked in listener.Accept()
  | holding (c : ConnId)    -- Accept returned c; until `go handleTCPClient` / `sock.Close()`
  | exited                  -- returned (net.ErrClosed)
  deriving DecidableEq, Repr, Inhabited

structure Acceptor where
  /-- generation of the listener it received as its argument -/
  gen : Nat
  pc  : AccPc
  deriving DecidableEq, Repr, Inhabited

def Acceptor.weight (a : Acceptor) : Nat :=
  match a.pc with
  | .exited => 0
  | _ => 1

/-- why the request loop of a session returned -/
inductive Reason
  | peerClosed | protocolError | idleTimeout | socketClosedByServer
  deriving DecidableEq, Repr, Inhabited

inductive Event
  | admit  (c : ConnId)   -- admission critical section took the append branch
  | reject (c : ConnId)   -- admission critical section took the else branch
  | served (c : ConnId)   -- a request on c reached a handler
  deriving DecidableEq, Repr, Inhabited

structure State where
  started      : Bool
  /-- generation of the most recently bound listener (0 = none yet) -/
  gen          : Nat
  /-- the listener of generation `gen` is open (all older ones are closed) -/
  listenerOpen : Bool
  /-- accept queue of the open listener -/
  backlog      : List ConnId
  /-- `ms.tcpClients` -/
  clients      : List ConnId
  conns        : List (ConnId × Conn)
  /-- accept goroutines in order of creation -/
  acceptors    : List Acceptor
  maxClients   : Nat
  log          : List Event
  deriving DecidableEq, Repr, Inhabited

inductive Step
  | start
  | stop
  | arrive (c : ConnId)
  | accept (a : Nat) (c : ConnId)
  | acceptorExit (a : Nat)
  | decide (c : ConnId)
  | launch (c : ConnId)
  | finish (c : ConnId) (r : Reason)
  | remove (c : ConnId)
  | close (c : ConnId)
  | request (c : ConnId)
  deriving DecidableEq, Repr, Inhabited

/-! ### connection table -/

def find : List (ConnId × Conn) → ConnId → Option Conn
  | [], _ => none
  | (k, v) :: r, c => if k = c then some v else find r c

/-- overwrite the entry of `c`, or append a new one -/
def put : List (ConnId × Conn) → ConnId → Conn → List (ConnId × Conn)
  | [], c, v => [(c, v)]
  | (k, w) :: r, c, v => if k = c then (k, v) :: r else (k, w) :: put r c v

def State.conn (s : State) (c : ConnId) : Conn := (find s.conns c).getD Conn.fresh

def State.setConn (s : State) (c : ConnId) (k : Conn) : State :=
  { s with conns := put s.conns c k }

def State.setPhase (s : State) (c : ConnId) (p : Phase) : State :=
  s.setConn c { s.conn c with phase := p }

/-- the removal loop of `handleTCPClient`, literally:
    `for i := range l { if l[i] == c { l[i] = l[len(l)-1]; l = l[:len(l)-1]; break } }` -/
def swapRemove (l : List ConnId) (c : ConnId) : List ConnId :=
  match l.findIdx? (· == c) with
  | none => l
  | some i => (l.set i (l.getLast?.getD c)).dropLast

/-- the listener that acceptor generation `g` is bound to is open -/
def State.listening (s : State) (g : Nat) : Bool := g == s.gen && s.listenerOpen

/-- a request sent now on `c` reaches a handler -/
def State.wouldServe (s : State) (c : ConnId) : Bool :=
  (s.conn c).phase == .serving && !(s.conn c).sockClosed

/-! ### enabling -/

def enabled (s : State) : Step → Bool
  | .start => true
  | .stop => true
  | .arrive c => s.listenerOpen && (s.conn c).phase == .fresh
  | .accept a c =>
    match s.acceptors[a]? with
    | some ⟨g, .accepting⟩ => s.listening g && s.backlog.contains c
    | _ => false
  | .acceptorExit a =>
    match s.acceptors[a]? with
    | some ⟨g, .accepting⟩ => !s.listening g
    | _ => false
  | .decide c => (s.conn c).phase == .accepted
  | .launch c => (s.conn c).phase == .admitted || (s.conn c).phase == .rejecting
  | .finish c r =>
    (s.conn c).phase == .serving && (r != .socketClosedByServer || (s.conn c).sockClosed)
  | .remove c => (s.conn c).phase == .finished
  | .close c => (s.conn c).phase == .removed
  | .request c => (s.conn c).phase != .fresh

/-! ### effects (applied only when enabled) -/

def doStart (s : State) : State :=
  if s.started then s else
    { s with started := true, gen := s.gen + 1, listenerOpen := true,
             acceptors := s.acceptors ++ [⟨s.gen + 1, .accepting⟩] }

/-- what `Stop` does to one connection: sockets in `tcpClients` are closed; connections still
    queued on the listener are reset when the listener is closed -/
def stopConn (clients : List ConnId) (c : ConnId) (k : Conn) : Conn :=
  if clients.contains c then { k with sockClosed := true }
  else if k.phase == .backlog then { k with phase := .dropped, sockClosed := true }
  else k

def doStop (s : State) : State :=
  if s.started then
    { s with started := false, listenerOpen := false, backlog := [],
             conns := s.conns.map (fun p => (p.1, stopConn s.clients p.1 p.2)) }
  else s

def doArrive (s : State) (c : ConnId) : State :=
  { s with backlog := s.backlog ++ [c], conns := put s.conns c ⟨.backlog, false, s.gen⟩ }

def doAccept (s : State) (a : Nat) (c : ConnId) : State :=
  { (s.setPhase c .accepted) with
      backlog := s.backlog.erase c,
      acceptors := s.acceptors.modify a (fun A => { A with pc := .holding c }) }

def doAcceptorExit (s : State) (a : Nat) : State :=
  { s with acceptors := s.acceptors.modify a (fun A => { A with pc := .exited }) }

def doDecide (s : State) (c : ConnId) : State :=
  if s.started && s.clients.length < s.maxClients then
    { (s.setPhase c .admitted) with clients := s.clients ++ [c], log := s.log ++ [.admit c] }
  else
    { (s.setPhase c .rejecting) with log := s.log ++ [.reject c] }

/-- the acceptor that holds `c` loops back to `Accept` -/
def release (c : ConnId) (A : Acceptor) : Acceptor :=
  if A.pc = .holding c then { A with pc := .accepting } else A

def doLaunch (s : State) (c : ConnId) : State :=
  let s' := if (s.conn c).phase == .admitted then s.setPhase c .serving
            else s.setConn c { s.conn c with phase := .rejected, sockClosed := true }
  { s' with acceptors := s.acceptors.map (release c) }

def doFinish (s : State) (c : ConnId) : State := s.setPhase c .finished

def doRemove (s : State) (c : ConnId) : State :=
  { (s.setPhase c .removed) with clients := swapRemove s.clients c }

def doClose (s : State) (c : ConnId) : State :=
  s.setConn c { s.conn c with phase := .closed, sockClosed := true }

def doRequest (s : State) (c : ConnId) : State :=
  if s.wouldServe c then { s with log := s.log ++ [.served c] } else s

def apply (s : State) : Step → State
  | .start => doStart s
  | .stop => doStop s
  | .arrive c => doArrive s c
  | .accept a c => doAccept s a c
  | .acceptorExit a => doAcceptorExit s a
  | .decide c => doDecide s c
  | .launch c => doLaunch s c
  | .finish c _ => doFinish s c
  | .remove c => doRemove s c
  | .close c => doClose s c
  | .request c => doRequest s c

/-- one scheduling step; a step that is not enabled leaves the state unchanged -/
def step (s : State) (st : Step) : State := if enabled s st then apply s st else s

def run (s : State) (steps : List Step) : State := steps.foldl step s

def init (maxClients : Nat) : State :=
  { started := false, gen := 0, listenerOpen := false, backlog := [], clients := [],
    conns := [], acceptors := [], maxClients := maxClients, log := [] }

/-! ### observation -/

/-- the connections currently inside handleTransport -/
def State.servingConns (s : State) : List ConnId :=
  (s.conns.filter (fun p => p.2.phase == .serving)).map Prod.fst

/-- termination measure of the server's goroutines: live acceptors + remaining steps of every
    connection that an acceptor or a session goroutine still has to process -/
def State.goroutines (s : State) : Nat :=
  (s.acceptors.map Acceptor.weight).sum + (s.conns.map (fun p => p.2.phase.weight)).sum

/-- the step belongs to the shutdown path of some goroutine (no Start, no environment input) -/
def Step.teardown : Step → Bool
  | .acceptorExit _ | .decide _ | .launch _ | .finish _ _ | .remove _ | .close _ => true
  | _ => false

/-! ### line protocol -/

def showBool (b : Bool) : String := if b then "1" else "0"
def showList (l : List String) : String := if l.isEmpty then "-" else ",".intercalate l
def showIds (l : List ConnId) : String := showList (l.map toString)

def AccPc.show : AccPc → String
  | .accepting => "accepting"
  | .holding c => s!"holding:{c}"
  | .exited => "exited"

def Event.show : Event → String
  | .admit c => s!"admit:{c}"
  | .reject c => s!"reject:{c}"
  | .served c => s!"served:{c}"

def indexed {α : Type} (l : List α) : List (Nat × α) := (List.range l.length).zip l

/-- canonical one-line rendering; empty lists are written `-`.
    `started=1 gen=2 open=1 backlog=- clients=3,5 phases=1:serving,2:rejected
     sockclosed=2 acceptors=0:1:exited,1:2:holding:7 served=1,1,3 goroutines=9` -/
def showState (s : State) : String :=
  " ".intercalate [
    "started=" ++ showBool s.started,
    s!"gen={s.gen}",
    "open=" ++ showBool s.listenerOpen,
    "backlog=" ++ showIds s.backlog,
    "clients=" ++ showIds s.clients,
    "phases=" ++ showList (s.conns.map fun p => s!"{p.1}:{p.2.phase.name}"),
    "sockclosed=" ++ showIds ((s.conns.filter (·.2.sockClosed)).map Prod.fst),
    "acceptors=" ++ showList ((indexed s.acceptors).map fun p => s!"{p.1}:{p.2.gen}:{p.2.pc.show}"),
    "served=" ++ showIds (s.log.filterMap fun | .served c => some c | _ => none),
    s!"goroutines={s.goroutines}" ]

def parseReason : String → Option Reason
  | "peer" => some .peerClosed
  | "proto" => some .protocolError
  | "idle" => some .idleTimeout
  | "stop" => some .socketClosedByServer
  | _ => none

/-- `start`, `stop`, `arrive 3`, `accept 0 3`, `exit 0`, `decide 3`, `launch 3`,
    `finish 3 peer|proto|idle|stop`, `remove 3`, `close 3`, `request 3` -/
def parseStep : List String → Option Step
  | ["start"] => some .start
  | ["stop"] => some .stop
  | ["arrive", c] => c.toNat?.map .arrive
  | ["accept", a, c] => do pure (.accept (← a.toNat?) (← c.toNat?))
  | ["exit", a] => a.toNat?.map .acceptorExit
  | ["decide", c] => c.toNat?.map .decide
  | ["launch", c] => c.toNat?.map .launch
  | ["finish", c, r] => do pure (.finish (← c.toNat?) (← parseReason r))
  | ["remove", c] => c.toNat?.map .remove
  | ["close", c] => c.toNat?.map .close
  | ["request", c] => c.toNat?.map .request
  | _ => none

def Step.show : Step → String
  | .start => "start"
  | .stop => "stop"
  | .arrive c => s!"arrive {c}"
  | .accept a c => s!"accept {a} {c}"
  | .acceptorExit a => s!"exit {a}"
  | .decide c => s!"decide {c}"
  | .launch c => s!"launch {c}"
  | .finish c r =>
    let rs := match r with
      | .peerClosed => "peer" | .protocolError => "proto" | .idleTimeout => "idle"
      | .socketClosedByServer => "stop"
    s!"finish {c} {rs}"
  | .remove c => s!"remove {c}"
  | .close c => s!"close {c}"
  | .request c => s!"request {c}"

/-- driver helper: apply one step and render `en=<0|1> <state>` -/
def stepShow (s : State) (st : Step) : State × String :=
  let s' := step s st
  (s', "en=" ++ showBool (enabled s st) ++ " " ++ showState s')

/-- every step a scheduler may pick in `s` (all known connections and acceptors, plus the arrival
    of `freshId`); for the driver to enumerate / sample schedules -/
def enabledSteps (s : State) (freshId : ConnId) : List Step :=
  let ids := s.conns.map Prod.fst
  let accs := List.range s.acceptors.length
  let cands : List Step :=
    [.start, .stop, .arrive freshId]
    ++ accs.flatMap (fun a => .acceptorExit a :: s.backlog.map (.accept a))
    ++ ids.flatMap (fun c =>
        [.decide c, .launch c, .finish c .peerClosed, .finish c .protocolError,
         .finish c .idleTimeout, .finish c .socketClosedByServer, .remove c, .close c, .request c])
  cands.filter (enabled s)

end Modbus.Lifecycle
