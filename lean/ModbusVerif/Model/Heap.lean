import ModbusVerif.Model.Client
/-
  Heap model of how the client's write / read paths use Go slices (property C18).

  A Go slice is (backing array, offset, len, cap). The heap is a list of arrays, an array's
  id is its index; arrays are never freed, moved or resized (Go's GC is invisible to the
  program). Reading never changes the heap; the only writing statements are
      s[i] = x                -- `setIdx`
      append(s, x)            -- `appendByte`: IN PLACE at array[off+len] when len < cap,
                                 otherwise a NEW array (capacity 2*len+1), copy, write
      append(s, xs...)        -- `appendBytes`: repeated `appendByte` (xs is read first)
      make([]T, l, c)         -- `makeSlice`: a fresh zeroed array
      copy / io.ReadFull      -- `copyH`: element-wise `setIdx`
  and the functions further down transcribe client.go / tcp_transport.go / rtu_transport.go
  statement by statement in terms of these.

  Modelling choices
  * Arrays are typed: `GHeap α = List (List α)`, `Heap = GHeap Byte`. A caller's
    `[]uint16 / []uint32 / []uint64 / []bool` lives in a `GHeap U16 / U32 / U64 / Bool`
    (float32 / float64 values are their IEEE-754 bit patterns, as in Model/Client.lean).
    Go has no statement in these paths that writes through such a slice, so the typed
    writers take the typed heap as an input only and return a new byte heap.
  * A nil slice (`var payload []byte`) is a zero-capacity slice on a fresh empty array
    (`nilSlice`). `append` treats nil and zero-capacity slices identically and nil-ness is
    never tested on these paths.
  * `append(s, xs...)` is repeated `append(s, x)`. Go allocates at most once and, when the
    spare capacity is too small for all of `xs`, does not touch the old array at all; the
    model first fills the old array's spare capacity and then moves. The resulting contents
    are the same; the model performs a superset of Go's stores, so "array unchanged" results
    carry over. The growth policy (2*len+1) is one admissible choice; no theorem depends on it.
  * `uint16ToBytes`, `crc.value()` (`make` + a store into every element) are one allocation
    with contents (`freshOf`).
  * A Go run-time panic (index out of range in the swap loop) is `none`.
  * `subslice`, `setIdx` are total; their Go bounds checks hold at every use below (the one
    that can fail, in the swap loop, is checked explicitly).
  * Not transcribed: logging, socket writes (they read the frame), `rtuTransport.discard`'s own
    1 kB `make` buffer, the value-level checks and validation (Model/Client.lean): none of
    them contains a store into a slice.
  Core Lean only; everything is executable (`decide` runs the regression specimen).
-/
namespace Modbus.Heap

/-- the heap: array id = index -/
abbrev GHeap (α : Type) := List (List α)
abbrev Heap := GHeap Byte

/-- a Go slice header; `cap` is counted from `off` -/
structure Slice where
  arr : Nat
  off : Nat
  len : Nat
  cap : Nat
  deriving DecidableEq, Repr, Inhabited

variable {α : Type}

/-- the array with id `a` (`[]` for an id that does not exist) -/
def arrAt (h : GHeap α) (a : Nat) : List α := h.getD a []

/-- the slice points into an existing array and stays inside it -/
def Slice.Valid (h : GHeap α) (s : Slice) : Prop :=
  s.arr < h.length ∧ s.len ≤ s.cap ∧ s.off + s.cap ≤ (arrAt h s.arr).length

instance (h : GHeap α) (s : Slice) : Decidable (s.Valid h) := by
  unfold Slice.Valid; exact inferInstance

/-- the `len` visible elements -/
def load (h : GHeap α) (s : Slice) : List α := ((arrAt h s.arr).drop s.off).take s.len

/-- all `cap` elements: the visible part and the spare capacity behind it -/
def loadCap (h : GHeap α) (s : Slice) : List α := ((arrAt h s.arr).drop s.off).take s.cap

/-- `s[i]` (read) -/
def getIdx [Inhabited α] (h : GHeap α) (s : Slice) (i : Nat) : α :=
  (arrAt h s.arr).getD (s.off + i) default

/-- store into element `i` of array `a` -/
def writeArr (h : GHeap α) (a i : Nat) (x : α) : GHeap α := h.set a ((arrAt h a).set i x)

/-- a new array with the given contents; returns its id -/
def alloc (h : GHeap α) (a : List α) : GHeap α × Nat := (h ++ [a], h.length)

/-- `make([]T, l, c)` (l ≤ c): a fresh zeroed array -/
def makeSlice [Inhabited α] (h : GHeap α) (l c : Nat) : GHeap α × Slice :=
  ((alloc h (List.replicate (max l c) default)).1, ⟨h.length, 0, l, max l c⟩)

/-- a fresh slice with the given contents (`make` + a store into every element) -/
def freshOf (h : GHeap α) (xs : List α) : GHeap α × Slice :=
  ((alloc h xs).1, ⟨h.length, 0, xs.length, xs.length⟩)

/-- `var s []T` -/
def nilSlice (h : GHeap α) : GHeap α × Slice := freshOf h []

/-- `s[i] = x`; the Go bounds check `i < len` is done by the callers below -/
def setIdx (h : GHeap α) (s : Slice) (i : Nat) (x : α) : GHeap α := writeArr h s.arr (s.off + i) x

/-- `append(s, x)` -/
def appendByte [Inhabited α] (h : GHeap α) (s : Slice) (x : α) : GHeap α × Slice :=
  if s.len < s.cap then
    (writeArr h s.arr (s.off + s.len) x, { s with len := s.len + 1 })
  else
    let c := 2 * s.len + 1
    ((alloc h ((load h s ++ [x]) ++ List.replicate (c - (s.len + 1)) default)).1,
      ⟨h.length, 0, s.len + 1, c⟩)

/-- `append(s, xs...)` where `xs` has been read already -/
def appendBytes [Inhabited α] (h : GHeap α) (s : Slice) : List α → GHeap α × Slice
  | [] => (h, s)
  | x :: xs => match appendByte h s x with
    | (h', s') => appendBytes h' s' xs

/-- `s[a:b]` (a ≤ b ≤ cap): same array -/
def subslice (s : Slice) (a b : Nat) : Slice := ⟨s.arr, s.off + a, b - a, s.cap - a⟩

def copyFrom (dst : Slice) : Nat → List α → GHeap α → GHeap α
  | _, [], h => h
  | i, x :: xs, h => if i < dst.len then copyFrom dst (i + 1) xs (setIdx h dst i x) else h

/-- `copy(dst, src)` / `io.ReadFull(r, dst)` with `src` the bytes delivered:
    min(len dst, len src) stores -/
def copyH (h : GHeap α) (dst : Slice) (src : List α) : GHeap α := copyFrom dst 0 src h

def swapFrom [Inhabited α] (s : Slice) : Nat → Nat → GHeap α → Option (GHeap α)
  | 0, _, h => some h
  | fuel + 1, i, h =>
    if i < s.len then
      if i + 1 < s.len then
        let a := getIdx h s i
        let b := getIdx h s (i + 1)
        swapFrom s fuel (i + 2) (setIdx (setIdx h s i b) s (i + 1) a)
      else none                       -- s[i+1]: index out of range
    else some h

/-- `for i := 0; i < len(s); i += 2 { s[i], s[i+1] = s[i+1], s[i] }` -/
def swapPairsInPlace [Inhabited α] (h : GHeap α) (s : Slice) : Option (GHeap α) :=
  swapFrom s (s.len + 1) 0 h

/-! ### client.go, write side -/

/-- the padding and swapping part shared by the current and the pre-fix `writeBytes` -/
def padSwapH (h : Heap) (values : Slice) (little observe : Bool) : Option (Heap × Slice) :=
  -- if len(values) % 2 == 1 { values = append(values, 0x00) }
  let r := if values.len % 2 = 1 then appendByte h values 0x00 else (h, values)
  -- if observeEndianness && endianness == LITTLE_ENDIAN { swap loop }
  if observe && little then (swapPairsInPlace r.1 r.2).map (fun h' => (h', r.2))
  else some r

/-- `writeBytes` up to the call of `writeRegisters` (the CURRENT code):
    `values = append(make([]byte, 0, len(values)+1), values...)`, then pad and swap.
    Returns the heap and the slice handed to `writeRegisters`. -/
def writeBytesH (h : Heap) (values : Slice) (little observe : Bool) : Option (Heap × Slice) :=
  let m := makeSlice h 0 (values.len + 1)
  let c := appendBytes m.1 m.2 (load m.1 values)
  padSwapH c.1 c.2 little observe

/-- the PRE-FIX `writeBytes`: pads and swaps the caller's slice itself (regression specimen) -/
def writeBytesOldH (h : Heap) (values : Slice) (little observe : Bool) : Option (Heap × Slice) :=
  padSwapH h values little observe

/-- one iteration of `for _, value := range values { payload = append(payload, xToBytes(value)...) }`:
    `xToBytes` returns a fresh slice, which is then appended -/
def appendChunkH (st : Heap × Slice) (chunk : Bytes) : Heap × Slice :=
  let t := freshOf st.1 chunk
  appendBytes t.1 st.2 (load t.1 t.2)

/-- `WriteRegisters`, `WriteUint32s`, `WriteFloat32s`, `WriteUint64s`, `WriteFloat64s` up to the
    call of `writeRegisters`: `payload` starts nil, the caller's typed slice is only read -/
def buildPayloadH {β : Type} (hv : GHeap β) (h : Heap) (values : Slice) (enc : β → Bytes) :
    Heap × Slice :=
  (load hv values).foldl (fun st v => appendChunkH st (enc v)) (nilSlice h)

def encodeBoolsLoop (out : Slice) : Nat → List Bool → Heap → Heap
  | _, [], h => h
  | i, b :: bs, h =>
    encodeBoolsLoop out (i + 1) bs
      (if b then setIdx h out (i / 8) (getIdx h out (i / 8) ||| ((0x01 : Byte) <<< (i % 8))) else h)

/-- `encodeBools(in)`: `out = make([]byte, byteCount)`, then `out[i/8] |= 0x01 << (i%8)` for
    every set `in[i]`; the caller's `[]bool` is only read -/
def encodeBoolsH (hv : GHeap Bool) (h : Heap) (values : Slice) : Heap × Slice :=
  let n := values.len / 8 + (if values.len % 8 ≠ 0 then 1 else 0)
  let m := makeSlice h n n
  (encodeBoolsLoop m.2 0 (load hv values) m.1, m.2)

/-- `writeRegisters` after the local checks: the request PDU payload.
    `req.payload = uint16ToBytes(BIG_ENDIAN, addr)`; `append(.., uint16ToBytes(quantity)...)`;
    `append(.., byte(payloadLength))`; `append(req.payload, values...)` -/
def writeRegistersH (h : Heap) (addr : U16) (values : Slice) : Heap × Slice :=
  let payloadLength := u16OfNat values.len
  let quantity := payloadLength / 2
  let p0 := freshOf h (be16 addr)
  let q := freshOf p0.1 (be16 quantity)
  let p1 := appendBytes q.1 p0.2 (load q.1 q.2)
  let p2 := appendByte p1.1 p1.2 (byteOfNat payloadLength.toNat)
  appendBytes p2.1 p2.2 (load p2.1 values)

/-- `writeCoils` after the local checks: address, quantity, byte count, `encodedValues...` -/
def writeCoilsH (h : Heap) (addr quantity : U16) (encoded : Slice) : Heap × Slice :=
  let p0 := freshOf h (be16 addr)
  let q := freshOf p0.1 (be16 quantity)
  let p1 := appendBytes q.1 p0.2 (load q.1 q.2)
  let p2 := appendByte p1.1 p1.2 (byteOfNat encoded.len)
  appendBytes p2.1 p2.2 (load p2.1 encoded)

/-- the request payload of the reads and single writes: two `uint16ToBytes` results, the
    second appended to the first -/
def twoWordsH (h : Heap) (a b : Bytes) : Heap × Slice :=
  let p0 := freshOf h a
  let q := freshOf p0.1 b
  appendBytes q.1 p0.2 (load q.1 q.2)

/-! ### transports -/

/-- tcp_transport.go `assembleMBAPFrame` -/
def assembleMbapH (h : Heap) (txn : U16) (unit fc : Byte) (payload : Slice) : Heap × Slice :=
  let f0 := freshOf h (be16 txn)
  let f1 := appendBytes f0.1 f0.2 [0x00, 0x00]
  let l := freshOf f1.1 (be16 (u16OfNat (2 + payload.len)))
  let f2 := appendBytes l.1 f1.2 (load l.1 l.2)
  let f3 := appendByte f2.1 f2.2 unit
  let f4 := appendByte f3.1 f3.2 fc
  appendBytes f4.1 f4.2 (load f4.1 payload)

/-- rtu_transport.go `assembleRTUFrame`: `adu` starts nil; `crc.add(adu)` only reads;
    `crc.value()` is a fresh two-byte slice -/
def assembleRtuH (h : Heap) (unit fc : Byte) (payload : Slice) : Heap × Slice :=
  let a0 := nilSlice h
  let a1 := appendByte a0.1 a0.2 unit
  let a2 := appendByte a1.1 a1.2 fc
  let a3 := appendBytes a2.1 a2.2 (load a2.1 payload)
  let c := freshOf a3.1 (Crc.value (Crc.add Crc.init (load a3.1 a3.2)))
  appendBytes c.1 a3.2 (load c.1 c.2)

/-- `readMBAPFrame`, the PDU part: `rxbuf = make([]byte, bytesNeeded)`, `io.ReadFull` fills it
    with the `wire` bytes (bytesNeeded = |wire| ≥ 1), `payload: rxbuf[1:]` -/
def recvFrameH (h : Heap) (wire : Bytes) : Heap × Slice :=
  let m := makeSlice h wire.length wire.length
  let h2 := copyH m.1 m.2 wire
  (h2, subslice m.2 1 m.2.len)

/-- `readRTUFrame`: `rxbuf = make([]byte, maxRTUFrameLength)`, two `io.ReadFull`s into
    `rxbuf[0:3]` and `rxbuf[3:3+bytesNeeded]` (`wire` = all 3+bytesNeeded bytes of the frame),
    `payload: rxbuf[2:3+bytesNeeded-2]` -/
def recvRtuFrameH (h : Heap) (wire : Bytes) : Heap × Slice :=
  let m := makeSlice h Rtu.maxRTUFrameLength Rtu.maxRTUFrameLength
  let h2 := copyH m.1 (subslice m.2 0 3) (wire.take 3)
  let h3 := copyH h2 (subslice m.2 3 wire.length) (wire.drop 3)
  (h3, subslice m.2 2 (wire.length - 2))

/-- `readRegisters`: `bytes = res.payload[1:]` -/
def dropCountH (payload : Slice) : Slice := subslice payload 1 payload.len

/-- `readBytes` after `readRegisters` returned `values`: swap in place on little endian,
    `values[0:len(values)-1]` on odd quantities -/
def readBytesPostH (h : Heap) (values : Slice) (little observe oddQty : Bool) :
    Option (Heap × Slice) :=
  let h1 := if observe && little then swapPairsInPlace h values else some h
  h1.map (fun h' => (h', if oddQty then subslice values 0 (values.len - 1) else values))

/-- `bytesToUint16s/32s/64s`, `decodeBools`: `out` starts nil and gets the decoded values
    appended one at a time; `dec` is the value-level decoding loop of Model/Encoding.lean
    (`none`: panic), `src` is only read -/
def decodeAppendH {β : Type} [Inhabited β] (h : Heap) (src : Slice) (dec : Bytes → Option (List β))
    (hv : GHeap β) : Option (GHeap β × Slice) :=
  (dec (load h src)).map (fun vs => appendBytes (nilSlice hv).1 (nilSlice hv).2 vs)

/-! ### call histories (one client, one program memory)

  The program memory is one heap per element type. A call is the sequence of heap operations
  of one public client method: payload building, request PDU and frame assembly, one receive
  buffer per frame read from the peer, post-processing / decoding of the accepted response.
  `Env` carries everything a call reads besides its arguments; every field is arbitrary per
  call ("whatever the encoding settings", whatever the peer answers). -/

structure World where
  bytes : Heap
  u16s  : GHeap U16
  u32s  : GHeap U32
  u64s  : GHeap U64
  bools : GHeap Bool

structure Env where
  endian     : Endian
  word       : WordOrder
  rtu        : Bool          -- RTU framing, otherwise MBAP
  unit       : Byte
  txn        : U16
  checksPass : Bool          -- the local parameter checks let the request through
  frames     : List Bytes    -- every frame the call reads: MBAP ADU (7-byte header + PDU) / RTU frame
  accepted   : Bool          -- the last frame read passes the response validation

/-- what a call hands back: nothing (writes, errors), or a slice in one of the heaps -/
inductive Ref
  | none
  | bytes (s : Slice)
  | u16s (s : Slice)
  | u32s (s : Slice)
  | u64s (s : Slice)
  | bools (s : Slice)
  deriving DecidableEq, Repr

/-- `readMBAPFrame`: a 7-byte header buffer, then the PDU buffer -/
def recvMbapAduH (h : Heap) (adu : Bytes) : Heap × Slice :=
  let m := makeSlice h Mbap.mbapHeaderLength Mbap.mbapHeaderLength
  recvFrameH (copyH m.1 m.2 (adu.take Mbap.mbapHeaderLength)) (adu.drop Mbap.mbapHeaderLength)

/-- `executeRequest`: assemble the frame, write it (reads only), read the frames; the payload
    slice of the last frame read is the response's -/
def exchangeH (h : Heap) (env : Env) (fc : Byte) (payload : Slice) : Heap × Option Slice :=
  let f := if env.rtu then assembleRtuH h env.unit fc payload
           else assembleMbapH h env.txn env.unit fc payload
  env.frames.foldl (fun acc wire =>
      let r := if env.rtu then recvRtuFrameH acc.1 wire else recvMbapAduH acc.1 wire
      (r.1, some r.2)) (f.1, none)

/-- `writeRegisters` on an assembled register payload -/
def sendRegsH (h : Heap) (env : Env) (addr : U16) (payload : Slice) : Heap :=
  if env.checksPass then
    let p := writeRegistersH h addr payload
    (exchangeH p.1 env 0x10 p.2).1
  else h

/-- `readRegisters` / `readBools`: request, exchange, `res.payload[1:]` of an accepted response -/
def readCoreH (h : Heap) (env : Env) (fc : Byte) (addr qty : U16) : Heap × Option Slice :=
  if env.checksPass then
    let p := twoWordsH h (be16 addr) (be16 qty)
    let x := exchangeH p.1 env fc p.2
    (x.1, if env.accepted then x.2.map dropCountH else Option.none)
  else (h, Option.none)

inductive Call
  | writeBytes (values : Slice) (observe : Bool) (addr : U16)   -- WriteBytes / WriteRawBytes
  | writeU16s (values : Slice) (addr : U16)                      -- WriteRegisters
  | writeU32s (values : Slice) (addr : U16)                      -- WriteUint32s / WriteFloat32s
  | writeU64s (values : Slice) (addr : U16)                      -- WriteUint64s / WriteFloat64s
  | writeCoils (values : Slice) (addr : U16)                     -- WriteCoils
  | writeScalarRegs (chunk : Bytes) (addr : U16)                 -- WriteUint32 / Float32 / Uint64 / Float64
  | writeSingle (fc : Byte) (a b : Bytes)                        -- WriteCoil / WriteRegister
  | readBytes (fc : Byte) (addr qty : U16) (observe : Bool)      -- ReadBytes / ReadRawBytes
  | readU16s (fc : Byte) (addr qty : U16)                        -- ReadRegister(s)
  | readU32s (fc : Byte) (addr qty : U16)                        -- ReadUint32(s) / ReadFloat32(s)
  | readU64s (fc : Byte) (addr qty : U16)                        -- ReadUint64(s) / ReadFloat64(s)
  | readBools (fc : Byte) (addr qty : U16)                       -- ReadCoil(s) / ReadDiscreteInput(s)

/-- a typed read: the raw bytes are decoded into a result slice appended from nil -/
def decodeStep {β : Type} [Inhabited β] (h : Heap) (src : Option Slice) (dec : Bytes → Option (List β))
    (hv : GHeap β) : GHeap β × Option Slice :=
  match src with
  | Option.none => (hv, Option.none)
  | some s =>
    match decodeAppendH h s dec hv with
    | Option.none => (hv, Option.none)              -- panic in the decoding loop
    | some r => (r.1, some r.2)

def step (w : World) (env : Env) : Call → World × Ref
  | .writeBytes values observe addr =>
    match writeBytesH w.bytes values (decide (env.endian = .little)) observe with
    | Option.none => (w, .none)
    | some r => ({ w with bytes := sendRegsH r.1 env addr r.2 }, .none)
  | .writeU16s values addr =>
    let r := buildPayloadH w.u16s w.bytes values (Enc.uint16ToBytes env.endian)
    ({ w with bytes := sendRegsH r.1 env addr r.2 }, .none)
  | .writeU32s values addr =>
    let r := buildPayloadH w.u32s w.bytes values (Enc.uint32ToBytes env.endian env.word)
    ({ w with bytes := sendRegsH r.1 env addr r.2 }, .none)
  | .writeU64s values addr =>
    let r := buildPayloadH w.u64s w.bytes values (Enc.uint64ToBytes env.endian env.word)
    ({ w with bytes := sendRegsH r.1 env addr r.2 }, .none)
  | .writeCoils values addr =>
    if env.checksPass then
      let enc := encodeBoolsH w.bools w.bytes values
      let p := writeCoilsH enc.1 addr (u16OfNat values.len) enc.2
      ({ w with bytes := (exchangeH p.1 env 0x0f p.2).1 }, .none)
    else (w, .none)
  | .writeScalarRegs chunk addr =>
    let r := freshOf w.bytes chunk
    ({ w with bytes := sendRegsH r.1 env addr r.2 }, .none)
  | .writeSingle fc a b =>
    let p := twoWordsH w.bytes a b
    ({ w with bytes := (exchangeH p.1 env fc p.2).1 }, .none)
  | .readBytes fc addr qty observe =>
    let r := readCoreH w.bytes env fc addr ((qty / 2) + (qty % 2))
    match r.2 with
    | Option.none => ({ w with bytes := r.1 }, .none)
    | some s =>
      match readBytesPostH r.1 s (decide (env.endian = .little)) observe (decide (qty % 2 = 1)) with
      | Option.none => ({ w with bytes := r.1 }, .none)       -- panic in the swap loop
      | some p => ({ w with bytes := p.1 }, .bytes p.2)
  | .readU16s fc addr qty =>
    let r := readCoreH w.bytes env fc addr qty
    let d := decodeStep r.1 r.2 (Enc.bytesToUint16s env.endian) w.u16s
    ({ w with bytes := r.1, u16s := d.1 }, match d.2 with | some s => .u16s s | Option.none => .none)
  | .readU32s fc addr qty =>
    let r := readCoreH w.bytes env fc addr (qty * 2)
    let d := decodeStep r.1 r.2 (Enc.bytesToUint32s env.endian env.word) w.u32s
    ({ w with bytes := r.1, u32s := d.1 }, match d.2 with | some s => .u32s s | Option.none => .none)
  | .readU64s fc addr qty =>
    let r := readCoreH w.bytes env fc addr (qty * 4)
    let d := decodeStep r.1 r.2 (Enc.bytesToUint64s env.endian env.word) w.u64s
    ({ w with bytes := r.1, u64s := d.1 }, match d.2 with | some s => .u64s s | Option.none => .none)
  | .readBools fc addr qty =>
    let r := readCoreH w.bytes env fc addr qty
    let d := decodeStep r.1 r.2 (Enc.decodeBools qty.toNat) w.bools
    ({ w with bytes := r.1, bools := d.1 }, match d.2 with | some s => .bools s | Option.none => .none)

/-- the memory after a history of calls -/
def run (w : World) : List (Env × Call) → World
  | [] => w
  | (env, c) :: cs => run (step w env c).1 cs

/-- what the caller sees through a returned slice -/
def Ref.view (w : World) : Ref → Client.Val
  | .none => .unit
  | .bytes s => .bytes (load w.bytes s)
  | .u16s s => .u16s (load w.u16s s)
  | .u32s s => .u32s (load w.u32s s)
  | .u64s s => .u64s (load w.u64s s)
  | .bools s => .bools (load w.bools s)

end Modbus.Heap
