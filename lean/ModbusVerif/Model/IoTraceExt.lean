import ModbusVerif.Model.IoTrace
import ModbusVerif.Model.Client
import ModbusVerif.Model.Server
/-
  Extensions of the I/O-trace / symbolic-clock model (`Model/IoTrace.lean`) for the gaps found
  by the audit of the C07 and C09 statements. New definitions only; core Lean; executable.

  1. clock disciplines other than A-deadline:
       * `durOkδ ε δ`      A-deadline with a slack δ (δ = 0 is `durOk`, the socket discipline);
       * `durOkSerial ε δ wmax`  serial.go `serialPortWrapper`: the deadline is only looked at on
         entry of `Read`; a `Read` entered not after the deadline blocks at most δ (the port is
         opened with Timeout = 10 ms) - it does NOT return by the deadline; a `Read` entered after
         the deadline returns ErrRequestTimedOut at once; `Write` ignores the deadline (it is
         assumed to last at most `wmax`);
       * `runWith ok`      `runClock` for an arbitrary discipline `ok`;
     zero-byte reads (`serial.ErrTimeout` masked into `(0, nil)`; `io.ReadFull` calls `Read`
     again): `Op.read want 0`, text form `r:<want>:0`; `rfTraceSerial`, `rtuTraceSerial`.
     `rtuSkeleton`, `rtuPreTrace`: the code since fix c501b6a (second `SetDeadline(T)` in front
     of the first read); `rtuPreTraceOld`, `rtuTraceOld`: the code before it (witness for F9).
  2. outcomes coupled to the clock: `outcomeOk` (a `Read` that STARTS after the armed deadline
     fails with the timeout error whatever the receive buffer holds: it cannot be a `read`),
     `timeoutNotEarly` (A-deadline⁻: a `Read` that fails with the timeout error returns no
     earlier than the armed deadline), `clockedResult` (a public client call whose first `Read`
     starts at a given clock reading).
  3. the arguments of the two RTU inter-frame sleeps as computed by the Go code (`waitOf`,
     `postOf`) and the resulting concrete margins (`marginRtu`, `marginRtuSerial`).
  4. server side: `readRequestTrace` (tcp_transport.go `ReadRequest`), the iterations of
     server.go `handleTransport` (`Iter`, `sessionTrace`, `serverIters`, `serverTrace`) and a
     timed abstraction of the loop (`serveTimed`).
-/
namespace Modbus.Io
open Modbus

/-! ### 1. clock disciplines -/

/-- `runClock` for an arbitrary assumption `ok` on the durations (and outcomes) of the ops -/
def runWith (ok : Clock → Op → Nat → Prop) [∀ c op d, Decidable (ok c op d)] :
    Clock → List (Op × Nat) → Option Clock
  | c, [] => some c
  | c, (op, d) :: rest => if ok c op d then runWith ok (c.step op d) rest else none

/-- A-deadline with slack `δ`: a `Read` / `Write` started not after the armed deadline `D`
    returns no later than `D + δ`; started after `D` it fails at once.
    `δ = 0` is `durOk` (theorem `durOkδ_zero`). -/
def durOkδ (ε δ : Nat) (c : Clock) (op : Op) (d : Nat) : Prop :=
  match op with
  | .setDeadline _ => d = 0
  | .sleep ns => ns ≤ d ∧ d ≤ ns + ε
  | .write _ | .read _ _ | .readEnd _ =>
    match c.deadline with
    | none => True
    | some D => if c.now ≤ D then c.now + d ≤ D + δ else d = 0

instance (ε δ : Nat) (c : Clock) (op : Op) (d : Nat) : Decidable (durOkδ ε δ c op d) := by
  cases c with
  | mk now dl =>
    cases op <;> cases dl <;> simp only [durOkδ] <;> infer_instance

/-- serial.go `serialPortWrapper` on a port opened with `Timeout = δ` (10 ms):
    * `SetDeadline` stores the deadline (no time);
    * `Read`: `if time.Now().After(deadline) { return ErrRequestTimedOut }` - at once;
      otherwise `port.Read`, which returns what is there or, after at most `δ`,
      `serial.ErrTimeout` (masked into `(0, nil)`): a `Read` entered not after the deadline lasts
      at most `δ`, WHEREVER the deadline is;
    * `Write` does not look at the deadline; assumed to last at most `wmax`;
    * `Sleep` as in `durOk`. -/
def durOkSerial (ε δ wmax : Nat) (c : Clock) (op : Op) (d : Nat) : Prop :=
  match op with
  | .setDeadline _ => d = 0
  | .sleep ns => ns ≤ d ∧ d ≤ ns + ε
  | .write _ => d ≤ wmax
  | .read _ _ | .readEnd _ =>
    match c.deadline with
    | none => d ≤ δ
    | some D => if c.now ≤ D then d ≤ δ else d = 0

instance (ε δ wmax : Nat) (c : Clock) (op : Op) (d : Nat) :
    Decidable (durOkSerial ε δ wmax c op d) := by
  cases c with
  | mk now dl =>
    cases op <;> cases dl <;> simp only [durOkSerial] <;> infer_instance

/-- a bound on the duration of `Write` (sockets: the time to copy a frame of at most 260 bytes
    into the kernel's send buffer) -/
def writeLe (wmax : Nat) (op : Op) (d : Nat) : Prop :=
  match op with
  | .write _ => d ≤ wmax
  | _ => True

instance (wmax : Nat) (op : Op) (d : Nat) : Decidable (writeLe wmax op d) := by
  cases op <;> simp only [writeLe] <;> infer_instance

/-! ### 2. outcomes coupled to the clock -/

/-- a `Read` that STARTS after the armed deadline returns the timeout error without looking at
    the receive buffer (net.Conn: the poller reports the expired deadline before any read
    attempt; `serialPortWrapper.Read`: `time.Now().After(spw.deadline)` comes first): such a
    call cannot be a `read` (data, or zero bytes with a nil error) -/
def outcomeOk (c : Clock) (op : Op) : Prop :=
  match op with
  | .read _ _ =>
    match c.deadline with
    | none => True
    | some D => c.now ≤ D
  | _ => True

instance (c : Clock) (op : Op) : Decidable (outcomeOk c op) := by
  cases c with
  | mk now dl => cases op <;> cases dl <;> simp only [outcomeOk] <;> infer_instance

/-- A-deadline⁻ (the converse runtime assumption): a `Read` that fails because of the deadline
    (`readEnd` in a trace whose stream ends with `.timeout`) returns no earlier than the armed
    deadline -/
def timeoutNotEarly (c : Clock) (op : Op) (d : Nat) : Prop :=
  match op with
  | .readEnd _ =>
    match c.deadline with
    | none => True
    | some D => D ≤ c.now + d
  | _ => True

instance (c : Clock) (op : Op) (d : Nat) : Decidable (timeoutNotEarly c op d) := by
  cases c with
  | mk now dl => cases op <;> cases dl <;> simp only [timeoutNotEarly] <;> infer_instance

/-- sockets, durations and outcomes: A-deadline, A-sleep, late reads fail -/
def okSock (ε : Nat) (c : Clock) (op : Op) (d : Nat) : Prop := durOk ε c op d ∧ outcomeOk c op
instance (ε : Nat) (c : Clock) (op : Op) (d : Nat) : Decidable (okSock ε c op d) :=
  inferInstanceAs (Decidable (_ ∧ _))

/-- sockets with a bound on the duration of `Write` -/
def okSockW (ε wmax : Nat) (c : Clock) (op : Op) (d : Nat) : Prop :=
  durOk ε c op d ∧ writeLe wmax op d
instance (ε wmax : Nat) (c : Clock) (op : Op) (d : Nat) : Decidable (okSockW ε wmax c op d) :=
  inferInstanceAs (Decidable (_ ∧ _))

/-- sockets, A-deadline in both directions: a timed-out read returns exactly at the deadline -/
def okSockIdle (ε : Nat) (c : Clock) (op : Op) (d : Nat) : Prop :=
  durOk ε c op d ∧ timeoutNotEarly c op d
instance (ε : Nat) (c : Clock) (op : Op) (d : Nat) : Decidable (okSockIdle ε c op d) :=
  inferInstanceAs (Decidable (_ ∧ _))

/-- the same with slack `δ` on the upper side -/
def okIdleδ (ε δ : Nat) (c : Clock) (op : Op) (d : Nat) : Prop :=
  durOkδ ε δ c op d ∧ timeoutNotEarly c op d
instance (ε δ : Nat) (c : Clock) (op : Op) (d : Nat) : Decidable (okIdleδ ε δ c op d) :=
  inferInstanceAs (Decidable (_ ∧ _))

/-- the serial wrapper, durations and outcomes -/
def okSerial (ε δ wmax : Nat) (c : Clock) (op : Op) (d : Nat) : Prop :=
  durOkSerial ε δ wmax c op d ∧ outcomeOk c op
instance (ε δ wmax : Nat) (c : Clock) (op : Op) (d : Nat) : Decidable (okSerial ε δ wmax c op d) :=
  inferInstanceAs (Decidable (_ ∧ _))

/-! ### 3. zero-byte reads: `io.ReadFull` on the serial wrapper -/

/-- a `Read` that returned zero bytes and a nil error -/
def Op.isPoll : Op → Bool
  | .read _ 0 => true
  | _ => false

/-- the `Read` calls of `io.ReadFull(link, buf[0:n])` on the serial wrapper: `polls` calls that
    find the port empty for `δ` and return `(0, nil)`, then the calls of `rfTrace`
    (data, or the timeout error of the first call entered after the deadline) -/
def rfTraceSerial (n avail polls : Nat) : List Op :=
  if n = 0 then [] else List.replicate polls (.read n 0) ++ rfTrace n avail

/-- `readRTUFrame` with `p1` empty polls in front of the header and `p2` in front of the body -/
def rtuReadOpsSerial (s : Bytes) (p1 p2 : Nat) : List Op :=
  rfTraceSerial 3 s.length p1 ++
  (if 3 ≤ s.length then
    let h := s.take 3
    match Rtu.expectedResponseLength (h.getD 1 0) (h.getD 2 0) with
    | .error _ => []
    | .ok n =>
      if 3 + (n + 2) > Rtu.maxRTUFrameLength then []
      else rfTraceSerial (n + 2) (s.length - 3) p2
   else [])

/-- the reads of `discard` with `p3` empty polls -/
def flushOpsSerial (remaining p3 : Nat) : List Op := rfTraceSerial Rtu.discardLen remaining p3

/-- does `ExecuteRequest` resynchronise after this result of `readRTUFrame` -/
def needsResync (r : (Except Err Pdu) × Bytes) : Bool :=
  match r with
  | (.error .badCRC, _) => true
  | (.error .protocolError, _) => true
  | (.error .shortFrame, _) => true
  | _ => false

/-- what every RTU exchange looks like (code since fix c501b6a), whatever `Read` calls its two
    read phases consist of: `SetDeadline(T)`, the optional wait, `Write`, the post-transmission
    sleep, `SetDeadline(T)` again, the reads of `readRTUFrame`, and - if `flush` is given -
    `Sleep(256·t1)`, `SetDeadline(500 µs)` and the reads of `discard` -/
def rtuSkeleton (T rate L w post : Nat) (reads : List Op) (flush : Option (List Op)) : List Op :=
  [.setDeadline T] ++ (if w > 0 then [.sleep w] else []) ++
    [.write L, .sleep post, .setDeadline T] ++ reads ++
    (match flush with
     | none => []
     | some f => [.sleep (Timing.maxRTUFrameLength * Timing.t1 rate), .setDeadline 500000] ++ f)

/-- `rtuTrace` on the serial wrapper: `p1`, `p2`, `p3` empty polls in front of the header read,
    the body read and the flush read (`rtuTraceSerial … 0 0 0 = rtuTrace …`) -/
def rtuTraceSerial (T rate L w post : Nat) (s : Bytes) (e : Ending) (p1 p2 p3 : Nat) : List Op :=
  rtuSkeleton T rate L w post (rtuReadOpsSerial s p1 p2)
    (if needsResync (Rtu.readFrame s e) then
      some (flushOpsSerial (Rtu.readFrame s e).2.length p3) else none)

/-- the part of an RTU exchange in front of the first `Read` (code since fix c501b6a): it ends
    with the second `SetDeadline(T)` -/
def rtuPreTrace (T L w post : Nat) : List Op :=
  [.setDeadline T] ++ (if w > 0 then [.sleep w] else []) ++ [.write L, .sleep post, .setDeadline T]

/-- THE CODE BEFORE FIX c501b6a (kept as the regression witness for finding F9): one deadline,
    armed in front of the two inter-frame sleeps, for the whole exchange -/
def rtuPreTraceOld (T L w post : Nat) : List Op :=
  [.setDeadline T] ++ (if w > 0 then [.sleep w] else []) ++ [.write L, .sleep post]

/-- `rtuTrace` of the code before fix c501b6a (regression witness for F9) -/
def rtuTraceOld (T rate L w post : Nat) (s : Bytes) (e : Ending) : List Op :=
  rtuPreTraceOld T L w post ++ rtuReadOps s ++ rtuTail rate (Rtu.readFrame s e)

/-- the part of an MBAP exchange in front of the first `Read` -/
def mbapPreTrace (T L : Nat) : List Op := [.setDeadline T, .write L]

/-- margin of an RTU exchange on the serial wrapper over its timeout: `rtuMargin`, the `Write`
    (at most `wmax`; the wrapper's `Write` ignores the deadline), and one port timeout `δ` for
    the last frame read and one for the flush read -/
def rtuMarginSerial (rate w post ε δ wmax : Nat) : Nat := rtuMargin rate w post ε + wmax + 2 * δ

/-! ### 4. the arguments of the two inter-frame sleeps -/

/-- `t = time.Since(rt.lastActivity.Add(rt.t35)); if t < 0 { time.Sleep(-t) }`:
    the argument of the first sleep (0: no sleep) when the clock reads `now` -/
def waitOf (rate lastActivity now : Nat) : Nat := (lastActivity + Timing.t35 rate) - now

/-- `rt.lastActivity = ts.Add(n * rt.t1); time.Sleep(rt.lastActivity.Add(rt.t35).Sub(time.Now()))`:
    the argument of the second sleep (0 if negative) when `Write` returned `n` and the clock
    reads `now2` -/
def postOf (rate n ts now2 : Nat) : Nat := (ts + n * Timing.t1 rate + Timing.t35 rate) - now2

/-- the fixed margin of an RTU exchange (sockets: rtuovertcp, rtuoverudp) over its timeout as a
    function of the baud rate and the length `n` of the request frame only:
    wait ≤ t3.5, post ≤ n·t1 + t3.5, resynchronisation 256·t1, flush 500 µs, three oversleeps.
    Since fix c501b6a the time `Write` takes is no longer absorbed by the timeout: the call ends
    by `t0 + T + marginRtu + dWrite` (`C07X_rtu_margin_concrete`), and by `t0 + T + marginRtu`
    when `dWrite ≤ n·t1 + t3.5` comes off the second sleep (`C07X_rtu_margin_concrete_coupled`). -/
def marginRtu (rate n ε : Nat) : Nat :=
  (n + 256) * Timing.t1 rate + 2 * Timing.t35 rate + 500000 + 3 * ε

/-- the second sleep when `Write` returns at once: the emulated transmission time of the
    `n`-byte request plus t3.5. Before fix c501b6a a timeout below it could not be met
    (`C07X_rtu_timeout_below_min_always_fails`, about `rtuPreTraceOld`). -/
def minTimeoutRtu (rate n : Nat) : Nat := n * Timing.t1 rate + Timing.t35 rate

/-- the same on the serial wrapper -/
def marginRtuSerial (rate n ε δ wmax : Nat) : Nat := marginRtu rate n ε + wmax + 2 * δ

/-! ### 5. a client call in the clocked semantics -/

/-- what the `Read` calls of one exchange get to see when the first of them starts at
    `readStart` under the deadline `D` and the peer's bytes `s` are in the receive buffer from
    `availAt` on (one chunk; then the stream ends with `e`):
    * first read started after `D`: nothing, the timeout error - whatever is buffered;
    * bytes there no later than `D`: a read entered not after `D` blocks until they are there;
    * otherwise nothing, the timeout error (exact for sockets; on the serial wrapper bytes that
      arrive within `δ` after `D` may still be returned by the poll in flight - the theorems
      only use the first two cases). -/
def seen (readStart D availAt : Nat) (s : Bytes) (e : Ending) : Bytes × Ending :=
  if D < readStart then ([], .timeout)
  else if availAt ≤ D then (s, e)
  else ([], .timeout)

/-- the result of a public client call in the clocked semantics. `c`: the clock when the first
    `Read` of the exchange starts (`c.deadline`: the deadline armed by `ExecuteRequest`).
    A late first read sees neither the bytes left over from earlier calls nor the new ones. -/
def clockedResult (op : Client.Op) (cfg : Client.Cfg) (st : Client.TState) (c : Clock)
    (availAt : Nat) (arrivals : Bytes) (e : Ending) : Option (Except Err Client.Val) :=
  match c.deadline with
  | none => (op.run cfg st arrivals e).result
  | some D =>
    if D < c.now then (op.run cfg { st with pending := [] } [] .timeout).result
    else (op.run cfg st (seen c.now D availAt arrivals e).1 (seen c.now D availAt arrivals e).2).result

/-! ### 6. server side: `ReadRequest` and the loop of `handleTransport` -/

/-- the `Read` calls of one `readMBAPFrame` (they do not depend on a transaction id;
    `mbapFrameStep_ops`) -/
def mbapFrameReads (s : Bytes) : List Op := (mbapFrameStep 0 s).ops

/-- tcp_transport.go `ReadRequest`: `SetDeadline(now + timeout)` ONCE, then `readMBAPFrame` on
    the bytes `s` this call gets to see -/
def readRequestTrace (T : Nat) (s : Bytes) : List Op := .setDeadline T :: mbapFrameReads s

/-- one iteration of the `for` loop of server.go `handleTransport` as the connection sees it:
    `ReadRequest` on the bytes `view`, then `WriteResponse` of an `L`-byte frame (`resp = some L`)
    or the end of the session (`none`: ReadRequest failed, or the transport is closed after a
    protocol error) -/
structure Iter where
  view : Bytes
  resp : Option Nat
  deriving Repr, DecidableEq

def iterTrace (T : Nat) (it : Iter) : List Op :=
  readRequestTrace T it.view ++ (match it.resp with | some L => [.write L] | none => [])

/-- a server session: its iterations one after the other -/
def sessionTrace (T : Nat) (its : List Iter) : List Op := its.flatMap (iterTrace T)

/-- the iterations of `Server.runAux` (same recursion, same case distinctions) on a stream that
    is there from the start -/
def serverItersAux {σ : Type} (h : Server.Handler σ) : Nat → σ → Bytes → Ending → List Iter
  | 0, _, _, _ => []
  | fuel+1, st, s, e =>
    match Mbap.readFrame s e with
    | (.err _, _) => [⟨s, none⟩]
    | (.ok req txn, rest) =>
      match (Server.handle h st req).2.2 with
      | .respond p =>
        ⟨s, some (Mbap.assemble txn p).length⟩ ::
          serverItersAux h fuel (Server.handle h st req).1 rest e
      | _ => [⟨s, none⟩]

def serverIters {σ : Type} (h : Server.Handler σ) (st : σ) (s : Bytes) (e : Ending) : List Iter :=
  serverItersAux h (s.length + 1) st s e

/-- the I/O trace of `handleTransport` on the stream `s` ending with `e` -/
def serverTrace {σ : Type} (h : Server.Handler σ) (T : Nat) (st : σ) (s : Bytes) (e : Ending) :
    List Op :=
  sessionTrace T (serverIters h st s e)

/-- length of the frames written by a session, in order -/
def respondLens : List Server.Event → List Nat
  | [] => []
  | .respond f :: t => f.length :: respondLens t
  | _ :: t => respondLens t

def writeLens : List Op → List Nat
  | [] => []
  | .write n :: t => n :: writeLens t
  | _ :: t => writeLens t

/-- timed abstraction of the loop of `handleTransport` with a well-behaved client: the
    `ReadRequest` that begins at `tS` arms `tS + T`; request `i` is completely in the receive
    buffer at `aᵢ` and its response is written `procᵢ` after the read returned (the read cannot
    return before the bytes are there). Result: number of requests answered, and the instant
    the session is ended for idleness. -/
def serveTimed (T : Nat) : Nat → List (Nat × Nat) → Nat × Nat
  | tS, [] => (0, tS + T)
  | tS, (a, proc) :: rest =>
    if a ≤ tS + T then ((serveTimed T (max tS a + proc) rest).1 + 1, (serveTimed T (max tS a + proc) rest).2)
    else (0, tS + T)

/-- the same for a (hypothetical) server that arms ONE absolute deadline when the session
    starts - what `C09I_idle_rearmed` rules out -/
def serveTimedOnce (D : Nat) : Nat → List (Nat × Nat) → Nat × Nat
  | _, [] => (0, D)
  | tS, (a, proc) :: rest =>
    if a ≤ D ∧ tS ≤ D then ((serveTimedOnce D (max tS a + proc) rest).1 + 1, (serveTimedOnce D (max tS a + proc) rest).2)
    else (0, D)

/-- arrivals of a client that lets at most `T` pass between the start of the session (`prev`)
    and its first request and between two consecutive requests -/
def spaced (T : Nat) : Nat → List (Nat × Nat) → Prop
  | _, [] => True
  | prev, (a, _) :: rest => a ≤ prev + T ∧ spaced T a rest

instance (T : Nat) : ∀ (prev : Nat) (l : List (Nat × Nat)), Decidable (spaced T prev l)
  | _, [] => isTrue trivial
  | _, (a, _) :: rest =>
    have := instDecidableSpaced T a rest
    inferInstanceAs (Decidable (_ ∧ _))

/-- arrival time of the last request (`prev` if there is none) -/
def lastArrival : Nat → List (Nat × Nat) → Nat
  | prev, [] => prev
  | _, (a, _) :: rest => lastArrival a rest

/-! ### the text format and the definitions, checked at elaboration time -/

#guard showTrace (rfTraceSerial 3 0 2) = "r:3:0 r:3:0 re:3"
#guard showTrace (rtuTraceSerial 1000000 19200 8 0 5916661 [0x01, 0x03, 0x02, 0x00, 0x0a, 0x38, 0x43] .timeout 2 1 0) =
  "sd:1000000 w:8 sl:5916661 sd:1000000 r:3:0 r:3:0 r:3:3 r:4:0 r:4:4"
#guard rtuTraceSerial 1000000 19200 8 250000 5916661 [0x01, 0x03, 0x02, 0x00, 0x0a, 0x38, 0x44, 0xFF] .timeout 0 0 0 =
  rtuTrace 1000000 19200 8 250000 5916661 [0x01, 0x03, 0x02, 0x00, 0x0a, 0x38, 0x44, 0xFF] .timeout
#guard showTrace (rtuTraceOld 1000000 19200 8 0 5916661 [0x01, 0x03, 0x02, 0x00, 0x0a, 0x38, 0x43] .timeout) =
  "sd:1000000 w:8 sl:5916661 r:3:3 r:4:4"
#guard showTrace (readRequestTrace 30000000000 []) = "sd:30000000000 re:7"
#guard serveTimed 100 0 [(50, 1), (120, 1), (190, 1), (260, 1)] = (4, 361)
#guard serveTimedOnce 100 0 [(50, 1), (120, 1), (190, 1), (260, 1)] = (1, 100)

end Modbus.Io
