import ModbusVerif.Model.Mbap
import ModbusVerif.Model.Crc
/-
  rtu_transport.go: RTU framing (rtu, rtuovertcp, rtuoverudp clients).
-/
namespace Modbus.Rtu
open Strm

def maxRTUFrameLength : Nat := 256

/-- `assembleRTUFrame`: unit, fc, payload, CRC (low byte first) -/
def assemble (p : Pdu) : Bytes :=
  let adu := [p.unit] ++ [p.fc] ++ p.payload
  adu ++ Crc.crc16 adu

/-- `expectedResponseLenth responseCode responseLength` -/
def expectedResponseLength (fc : Byte) (len : Byte) : Except Err Nat :=
  if fc = 0x03 ∨ fc = 0x04 ∨ fc = 0x01 ∨ fc = 0x02 then .ok len.toNat
  else if fc = 0x06 ∨ fc = 0x10 ∨ fc = 0x05 ∨ fc = 0x0f then .ok 3
  else if fc = 0x16 then .ok 5
  else if fc = 0x83 ∨ fc = 0x84 ∨ fc = 0x81 ∨ fc = 0x82 ∨ fc = 0x86 ∨ fc = 0x90 ∨ fc = 0x85
        ∨ fc = 0x8f ∨ fc = 0x96 then .ok 0
  else .error .protocolError

/-- `readRTUFrame` on a stream that delivers `s` then ends with `e` -/
def readFrame (s : Bytes) (e : Ending) : (Except Err Pdu) × Bytes :=
  match readFull 3 s e with
  | .short got _ =>
    -- (byteCount > 0 || err == nil) && byteCount != 3  ==> short frame; else the Read error
    if got.length > 0 then (.error .shortFrame, []) else (.error e.err, [])
  | .ok h rest =>
    match expectedResponseLength (h.getD 1 0) (h.getD 2 0) with
    | .error err => (.error err, rest)
    | .ok n =>
      let bytesNeeded := n + 2
      if 3 + bytesNeeded > maxRTUFrameLength then (.error .protocolError, rest)
      else
        match readFull bytesNeeded rest e with
        | .short got _ =>
          -- err != nil && err != io.ErrUnexpectedEOF ==> that error; else short frame
          if got.length = 0 then (.error e.err, [])
          else if e = .eof then (.error .shortFrame, [])
          else (.error e.err, [])
        | .ok body rest' =>
          let data := body.take n
          let c := Crc.add Crc.init (h ++ data)
          if Crc.isEqual c (body.getD n 0) (body.getD (n+1) 0) then
            (.ok { unit := h.getD 0 0, fc := h.getD 1 0, payload := h.getD 2 0 :: data }, rest')
          else (.error .badCRC, rest')

/-- what `ExecuteRequest` does after `readRTUFrame`: on bad CRC / protocol error / short frame
    it waits and flushes up to 1 kB of pending input (`discard`) -/
def discardLen : Nat := 1024

def afterRead (r : (Except Err Pdu) × Bytes) : (Except Err Pdu) × Bytes :=
  match r with
  | (.error .badCRC, rest) => (.error .badCRC, rest.drop discardLen)
  | (.error .protocolError, rest) => (.error .protocolError, rest.drop discardLen)
  | (.error .shortFrame, rest) => (.error .shortFrame, rest.drop discardLen)
  | r => r

end Modbus.Rtu
