import ModbusVerif.Model.Prelude
/-
  The TLS policy the repository configures (client.go `Open`, server.go `startTLS`) as data, and the
  contract assumed of crypto/tls (T-tls). The literals are extracted from the source on every run.
-/
namespace Modbus.Tls

/-- a `tls.Config` composite literal as extracted: (field, value expression, constant value) -/
abbrev Lit := List (String × String × Option Int)

def field? (l : Lit) (k : String) : Option (String × Option Int) :=
  (l.find? (fun e => e.1 == k)).map (·.2)

def fieldConst (l : Lit) (k : String) : Option Int := (field? l k).bind (·.2)
def fieldExpr (l : Lit) (k : String) : Option String := (field? l k).map (·.1)

def versionTLS12 : Int := 0x0303
/-- tls.ClientAuthType: NoClientCert 0, RequestClientCert 1, RequireAnyClientCert 2,
    VerifyClientCertIfGiven 3, RequireAndVerifyClientCert 4 -/
def requireAndVerifyClientCert : Int := 4

/-- server side: exactly the four fields, mutual authentication enforced, TLS >= 1.2, client CAs taken
    from the configuration, and no field that could weaken or replace verification
    (InsecureSkipVerify, VerifyPeerCertificate, VerifyConnection, GetConfigForClient, MaxVersion, …) -/
def serverPolicyOk (l : Lit) : Bool :=
  l.map (·.1) == ["Certificates", "ClientCAs", "ClientAuth", "MinVersion"]
  && fieldConst l "ClientAuth" == some requireAndVerifyClientCert
  && (match fieldConst l "MinVersion" with | some v => decide (v ≥ versionTLS12) | none => false)
  && fieldExpr l "ClientCAs" == some "ms.conf.TLSClientCAs"
  && fieldExpr l "Certificates" == some "[]tls.Certificate{ *ms.conf.TLSServerCert, }"

/-- client side: own certificate presented, server verified against the configured roots (no
    InsecureSkipVerify, no ServerName override, no custom verifier), TLS >= 1.2 -/
def clientPolicyOk (l : Lit) : Bool :=
  l.map (·.1) == ["Certificates", "RootCAs", "MinVersion"]
  && (match fieldConst l "MinVersion" with | some v => decide (v ≥ versionTLS12) | none => false)
  && fieldExpr l "RootCAs" == some "mc.conf.TLSRootCAs"
  && fieldExpr l "Certificates" == some "[]tls.Certificate{ *mc.conf.TLSClientCert, }"

/-! ### the assumed contract of crypto/tls (T-tls) and the decision table it implies -/

inductive Cred
  | none | selfSigned | foreignCA | expired | notYetValid | wrongKeyUsage | wrongHost | pinnedLeaf | validChain
  deriving DecidableEq, Repr

inductive Peer
  | plainText
  | tls (version : Nat) (cred : Cred)      -- version: 10, 11, 12, 13
  deriving DecidableEq, Repr

/-- T-tls, server side: with RequireAndVerifyClientCert, ClientCAs = P and MinVersion 1.2 the handshake
    succeeds only for a peer speaking TLS >= 1.2 that proves possession of a key for a leaf that chains
    to (or is in) P, is inside its validity period and allows client authentication. `wrongHost` is
    irrelevant on the server side (client certificates are not matched against a host name). -/
def serverHandshakeOk : Peer → Bool
  | .plainText => false
  | .tls v c => decide (v ≥ 12) && (c == .pinnedLeaf || c == .validChain || c == .wrongHost)

/-- T-tls, client side: the server certificate must verify against RootCAs for the dialled host -/
def clientHandshakeOk : Peer → Bool
  | .plainText => false
  | .tls v c => decide (v ≥ 12) && (c == .pinnedLeaf || c == .validChain)

end Modbus.Tls
