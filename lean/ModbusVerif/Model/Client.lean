import ModbusVerif.Model.Rtu
/-
  client.go: every public read/write call = typed wrapper → core request
  (local checks, PDU) → transport exchange → unit-id rules → validation → decoding.
-/
namespace Modbus.Client
open Enc

/-- the six URL schemes / `transportType` values -/
inductive Kind | rtu | rtuOverTcp | rtuOverUdp | tcp | tcpTls | udp
  deriving DecidableEq, Repr, Inhabited

def Kind.isRtu : Kind → Bool
  | .rtu | .rtuOverTcp | .rtuOverUdp => true
  | _ => false

/-- client settings read by a call -/
structure Cfg where
  kind   : Kind
  unitId : Byte
  endian : Endian
  word   : WordOrder
  deriving Repr, DecidableEq, Inhabited

/-- the four locked helpers + the two single-write methods, after the typed wrapper ran -/
inductive Core
  | readBools (di : Bool) (addr qty : U16)
  | readRegs (addr : U16) (qty : Nat) (regType : Nat)     -- qty: uint32 register total
  | writeCoil (addr : U16) (v : Bool)
  | writeCoils (addr : U16) (vs : List Bool)
  | writeReg (e : Endian) (addr : U16) (v : U16)
  | writeRegs (addr : U16) (payload : Bytes)
  deriving Repr, DecidableEq

def perr : Except Err α := .error .unexpectedParameters

/-- local checks and request PDU (function code, payload), in the order of the code -/
def Core.request : Core → Except Err (Byte × Bytes)
  | .readBools di addr qty =>
    if qty = 0 then perr
    else if qty.toNat > 2000 then perr
    else if addr.toNat + qty.toNat - 1 > 0xffff then perr
    else .ok (if di then 0x02 else 0x01, be16 addr ++ be16 qty)
  | .readRegs addr qty rt =>
    if rt ≠ 0 ∧ rt ≠ 1 then perr
    else if qty = 0 then perr
    else if qty > 125 then perr
    else if addr.toNat + qty - 1 > 0xffff then perr
    else .ok (if rt = 0 then 0x03 else 0x04, be16 addr ++ be16 (u16OfNat qty))
  | .writeCoil addr v =>
    .ok (0x05, be16 addr ++ (if v then [0xff, 0x00] else [0x00, 0x00]))
  | .writeCoils addr vs =>
    let quantity := u16OfNat vs.length
    if quantity = 0 then perr
    else if vs.length > 0x7b0 then perr
    else if addr.toNat + quantity.toNat - 1 > 0xffff then perr
    else
      let enc := encodeBools vs
      .ok (0x0f, be16 addr ++ be16 quantity ++ [byteOfNat enc.length] ++ enc)
  | .writeReg e addr v =>
    .ok (0x06, be16 addr ++ uint16ToBytes e v)
  | .writeRegs addr payload =>
    let payloadLength := u16OfNat payload.length
    let quantity := payloadLength / 2
    if quantity = 0 then perr
    else if payload.length / 2 > 123 then perr
    else if addr.toNat + quantity.toNat - 1 > 0xffff then perr
    else .ok (0x10, be16 addr ++ be16 quantity ++ [byteOfNat payloadLength.toNat] ++ payload)

/-- `mapExceptionCodeToError` -/
def mapException (c : Byte) : Err :=
  if c = 0x01 then .illegalFunction
  else if c = 0x02 then .illegalDataAddress
  else if c = 0x03 then .illegalDataValue
  else if c = 0x04 then .serverDeviceFailure
  else if c = 0x05 then .acknowledge
  else if c = 0x08 then .memoryParityError
  else if c = 0x06 then .serverDeviceBusy
  else if c = 0x0a then .gwPathUnavailable
  else if c = 0x0b then .gwTargetFailedToRespond
  else .unknownException c

/-- raw result of a core call -/
inductive Raw
  | bools (l : List Bool)
  | bytes (b : Bytes)
  | done
  deriving Repr, DecidableEq

def protoErr : Except Err α := .error .protocolError

/-- the positive-response branch of each helper; `none` would be a Go panic -/
def Core.positive (c : Core) (pl : Bytes) : Option (Except Err Raw) :=
  match c with
  | .readBools _ _ qty =>
    let q := qty.toNat
    let expectedLen := 1 + q / 8 + (if q % 8 ≠ 0 then 1 else 0)
    if pl.length ≠ expectedLen then some protoErr
    else if (pl.getD 0 0).toNat + 1 ≠ expectedLen then some protoErr
    else match decodeBools q (pl.drop 1) with
      | some l => some (.ok (.bools l))
      | none => none
  | .readRegs _ qty _ =>
    if pl.length ≠ 1 + 2 * qty then some protoErr
    else if (pl.getD 0 0).toNat ≠ 2 * qty then some protoErr
    else some (.ok (.bytes (pl.drop 1)))
  | .writeCoil addr v =>
    if pl.length ≠ 4 ∨ mk16 (pl.getD 0 0) (pl.getD 1 0) ≠ addr
       ∨ (v = true ∧ pl.getD 2 0 ≠ 0xff) ∨ (v = false ∧ pl.getD 2 0 ≠ 0x00)
       ∨ pl.getD 3 0 ≠ 0x00 then some protoErr
    else some (.ok .done)
  | .writeCoils addr vs =>
    if pl.length ≠ 4 ∨ mk16 (pl.getD 0 0) (pl.getD 1 0) ≠ addr
       ∨ mk16 (pl.getD 2 0) (pl.getD 3 0) ≠ u16OfNat vs.length then some protoErr
    else some (.ok .done)
  | .writeReg e addr v =>
    if pl.length ≠ 4 then some protoErr
    else if mk16 (pl.getD 0 0) (pl.getD 1 0) ≠ addr then some protoErr
    else match bytesToUint16 e (pl.drop 2) with
      | none => none
      | some x => if x ≠ v then some protoErr else some (.ok .done)
  | .writeRegs addr payload =>
    if pl.length ≠ 4 ∨ mk16 (pl.getD 0 0) (pl.getD 1 0) ≠ addr
       ∨ mk16 (pl.getD 2 0) (pl.getD 3 0) ≠ u16OfNat payload.length / 2 then some protoErr
    else some (.ok .done)

/-- the `switch` on the response code shared by all helpers -/
def Core.validate (c : Core) (fc : Byte) (res : Pdu) : Option (Except Err Raw) :=
  if res.fc = fc then c.positive res.payload
  else if res.fc = (fc ||| 0x80) then
    if res.payload.length ≠ 1 then some protoErr
    else some (.error (mapException (res.payload.getD 0 0)))
  else some protoErr

/-- `executeRequest`: i/o timeouts become ErrRequestTimedOut; unit-id rules -/
def unitCheck (reqUnit : Byte) (r : Except Err Pdu) : Except Err Pdu :=
  match r with
  | .error .ioTimeout => .error .requestTimedOut
  | .error e => .error e
  | .ok res =>
    if (res.fc &&& 0x80) = 0x00 ∧ res.unit ≠ reqUnit then .error .badUnitId
    else if (res.fc &&& 0x80) = 0x80 ∧ res.unit ≠ reqUnit ∧ res.unit ≠ 0xff then .error .badUnitId
    else .ok res

/-- transport state that survives a call: MBAP transaction counter and unread input -/
structure TState where
  lastTxn : U16
  pending : Bytes
  deriving Repr, DecidableEq, Inhabited

/-- the frame put on the wire for a request PDU, and the new transaction id -/
def frameFor (k : Kind) (st : TState) (p : Pdu) : Bytes × U16 :=
  if k.isRtu then (Rtu.assemble p, st.lastTxn)
  else (Mbap.assemble (st.lastTxn + 1) p, st.lastTxn + 1)

/-- `transport.ExecuteRequest` on the stream `pending ++ arrivals` ending with `e` -/
def transportRead (k : Kind) (txn : U16) (s : Bytes) (e : Ending) : (Except Err Pdu) × Bytes :=
  if k.isRtu then Rtu.afterRead (Rtu.readFrame s e) else Mbap.readResponse txn s e

/-- outcome of one core call -/
structure Outcome where
  written : Option Bytes                 -- the single request frame, if any was sent
  result  : Option (Except Err Raw)      -- none = Go panic
  state   : TState
  deriving Repr, DecidableEq

def Core.exchange (c : Core) (cfg : Cfg) (st : TState) (arrivals : Bytes) (e : Ending) : Outcome :=
  match c.request with
  | .error err => { written := none, result := some (.error err), state := st }
  | .ok (fc, payload) =>
    let p : Pdu := { unit := cfg.unitId, fc := fc, payload := payload }
    let (frame, txn) := frameFor cfg.kind st p
    let (r, rest) := transportRead cfg.kind txn (st.pending ++ arrivals) e
    let st' : TState := { lastTxn := txn, pending := rest }
    match unitCheck cfg.unitId r with
    | .error err => { written := some frame, result := some (.error err), state := st' }
    | .ok res => { written := some frame, result := c.validate fc res, state := st' }

/-! ### the public methods -/

inductive Width | w16 | w32 | w64 deriving DecidableEq, Repr

/-- all public read/write methods. Float variants carry IEEE-754 bit patterns. -/
inductive Op
  | readCoils (addr qty : U16) | readCoil (addr : U16)
  | readDiscreteInputs (addr qty : U16) | readDiscreteInput (addr : U16)
  | readRegisters (addr qty : U16) (rt : Nat) | readRegister (addr : U16) (rt : Nat)
  | readUint32s (addr qty : U16) (rt : Nat) | readUint32 (addr : U16) (rt : Nat)
  | readFloat32s (addr qty : U16) (rt : Nat) | readFloat32 (addr : U16) (rt : Nat)
  | readUint64s (addr qty : U16) (rt : Nat) | readUint64 (addr : U16) (rt : Nat)
  | readFloat64s (addr qty : U16) (rt : Nat) | readFloat64 (addr : U16) (rt : Nat)
  | readBytes (addr qty : U16) (rt : Nat) | readRawBytes (addr qty : U16) (rt : Nat)
  | writeCoil (addr : U16) (v : Bool) | writeCoils (addr : U16) (vs : List Bool)
  | writeRegister (addr : U16) (v : U16) | writeRegisters (addr : U16) (vs : List U16)
  | writeUint32s (addr : U16) (vs : List U32) | writeUint32 (addr : U16) (v : U32)
  | writeFloat32s (addr : U16) (vs : List U32) | writeFloat32 (addr : U16) (v : U32)
  | writeUint64s (addr : U16) (vs : List U64) | writeUint64 (addr : U16) (v : U64)
  | writeFloat64s (addr : U16) (vs : List U64) | writeFloat64 (addr : U16) (v : U64)
  | writeBytes (addr : U16) (bs : Bytes) | writeRawBytes (addr : U16) (bs : Bytes)
  deriving Repr, DecidableEq

/-- per-register byte swap loop of readBytes / writeBytes (`none`: index out of range) -/
def swapPairs : Bytes → Option Bytes
  | [] => some []
  | [_] => none
  | a :: b :: rest => match swapPairs rest with
    | some r => some (b :: a :: r)
    | none => none

/-- `writeBytes`: copy, pad odd lengths with 0x00, swap on little endian -/
def writeBytesPayload (e : Endian) (observe : Bool) (bs : Bytes) : Option Bytes :=
  let padded := if bs.length % 2 = 1 then bs ++ [0x00] else bs
  if observe ∧ e = .little then swapPairs padded else some padded

/-- the core call a public method boils down to (`none`: Go panic in the wrapper) -/
def Op.core (cfg : Cfg) : Op → Option Core
  | .readCoils a q => some (.readBools false a q)
  | .readCoil a => some (.readBools false a 1)
  | .readDiscreteInputs a q => some (.readBools true a q)
  | .readDiscreteInput a => some (.readBools true a 1)
  | .readRegisters a q rt => some (.readRegs a q.toNat rt)
  | .readRegister a rt => some (.readRegs a 1 rt)
  | .readUint32s a q rt | .readFloat32s a q rt => some (.readRegs a (q.toNat * 2) rt)
  | .readUint32 a rt | .readFloat32 a rt => some (.readRegs a 2 rt)
  | .readUint64s a q rt | .readFloat64s a q rt => some (.readRegs a (q.toNat * 4) rt)
  | .readUint64 a rt | .readFloat64 a rt => some (.readRegs a 4 rt)
  | .readBytes a q rt | .readRawBytes a q rt => some (.readRegs a ((q / 2) + (q % 2)).toNat rt)
  | .writeCoil a v => some (.writeCoil a v)
  | .writeCoils a vs => some (.writeCoils a vs)
  | .writeRegister a v => some (.writeReg cfg.endian a v)
  | .writeRegisters a vs => some (.writeRegs a (vs.flatMap (uint16ToBytes cfg.endian)))
  | .writeUint32s a vs | .writeFloat32s a vs =>
    some (.writeRegs a (vs.flatMap (uint32ToBytes cfg.endian cfg.word)))
  | .writeUint32 a v | .writeFloat32 a v => some (.writeRegs a (uint32ToBytes cfg.endian cfg.word v))
  | .writeUint64s a vs | .writeFloat64s a vs =>
    some (.writeRegs a (vs.flatMap (uint64ToBytes cfg.endian cfg.word)))
  | .writeUint64 a v | .writeFloat64 a v => some (.writeRegs a (uint64ToBytes cfg.endian cfg.word v))
  | .writeBytes a bs => (writeBytesPayload cfg.endian true bs).map (.writeRegs a)
  | .writeRawBytes a bs => (writeBytesPayload cfg.endian false bs).map (.writeRegs a)

/-- values returned to the caller -/
inductive Val
  | bools (l : List Bool)
  | u16s (l : List U16)
  | u32s (l : List U32)
  | u64s (l : List U64)
  | bytes (b : Bytes)
  | unit
  deriving Repr, DecidableEq

/-- decoding done by the typed wrapper on the helper's raw result (`none`: Go panic) -/
def Op.decode (cfg : Cfg) (op : Op) (raw : Raw) : Option Val :=
  match op, raw with
  | .readCoils .., .bools l | .readCoil .., .bools l
  | .readDiscreteInputs .., .bools l | .readDiscreteInput .., .bools l => some (.bools l)
  | .readRegisters .., .bytes b | .readRegister .., .bytes b =>
    (bytesToUint16s cfg.endian b).map .u16s
  | .readUint32s .., .bytes b | .readUint32 .., .bytes b
  | .readFloat32s .., .bytes b | .readFloat32 .., .bytes b =>
    (bytesToUint32s cfg.endian cfg.word b).map .u32s
  | .readUint64s .., .bytes b | .readUint64 .., .bytes b
  | .readFloat64s .., .bytes b | .readFloat64 .., .bytes b =>
    (bytesToUint64s cfg.endian cfg.word b).map .u64s
  | .readBytes _ q _, .bytes b =>
    let swapped := if cfg.endian = .little then swapPairs b else some b
    swapped.map (fun v => .bytes (if q % 2 = 1 then v.take (v.length - 1) else v))
  | .readRawBytes _ q _, .bytes b =>
    some (.bytes (if q % 2 = 1 then b.take (b.length - 1) else b))
  | _, .done => some .unit
  | _, _ => none

/-- what a public call returns and does -/
structure Result where
  written : Option Bytes
  result  : Option (Except Err Val)     -- none = Go panic
  state   : TState
  deriving Repr, DecidableEq

def Op.run (op : Op) (cfg : Cfg) (st : TState) (arrivals : Bytes) (e : Ending) : Result :=
  match op.core cfg with
  | none => { written := none, result := none, state := st }
  | some c =>
    let o := c.exchange cfg st arrivals e
    { written := o.written, state := o.state,
      result := match o.result with
        | none => none
        | some (.error err) => some (.error err)
        | some (.ok raw) => (op.decode cfg raw).map .ok }

/-- the request frame alone (C01): what would be written, or the local error -/
def Op.requestFrame (op : Op) (cfg : Cfg) (st : TState) : Option (Except Err Bytes) :=
  match op.core cfg with
  | none => none
  | some c =>
    match c.request with
    | .error err => some (.error err)
    | .ok (fc, payload) =>
      some (.ok (frameFor cfg.kind st { unit := cfg.unitId, fc := fc, payload := payload }).1)

end Modbus.Client
