import ModbusVerif.Model.Server
/-
  MultiSession: several server connections, each with its own byte stream and its own output,
  sharing ONE handler state (server.go: one `handleTCPClient` goroutine per connection, all of
  them calling the same user handler object; tcp_transport.go: one transport per connection).

  The per-connection model `Server.run` is a loop over request cycles

      ReadRequest (readMBAPFrame) ; handle (validate, call the handler) ; WriteResponse

  and threads the handler state through ONE stream.  Here the same request cycle
  (`Mbap.readFrame` + `Server.handle`, the body of `Server.runAux`) is one atomic step `cycle`
  of one connection, and a global schedule - a list of connection indices - decides whose cycle
  comes next.  The handler state `σ` is the only thing the connections share.

  Granularity.  The Go handler is called outside any server lock, so two handler calls may
  overlap in time; making them atomic w.r.t. each other is the *handler's* obligation (the memory
  handler of the harness takes its own mutex).  A cycle is therefore atomic here exactly as far
  as the handler call is.  The reading and the writing of a cycle touch only the connection's own
  socket, so their interleaving with other connections is unobservable (C11R_turn_local).

  Arrival times.  Every connection is given all the bytes its peer will ever send, up front.
  That loses nothing: a session whose frame has not arrived completely blocks in `io.ReadFull`
  and performs its cycle when the frame is complete, which is the same as its turn being
  scheduled later.  The one thing that cannot be expressed by scheduling is a peer that stops
  sending for good WITHOUT its stream ending (no FIN, no reset, no deadline yet): that is

      ending = none        "pendingMore": the bytes so far are `input`, nothing has ended

  A connection with `ending = none` whose `input` does not contain a complete frame is *stalled*:
  its session goroutine sits in `io.ReadFull`; its turn is a no-op (`blocked`, `cycle`).  With
  `ending = some e` the stream ends with `e` after `input` (timeout, EOF, reset), as in
  `Server.run`.

  Core Lean only, executable.
-/
namespace Modbus.Multi
open Modbus Modbus.Server

/-- `readMBAPFrame` cannot complete on the bytes `s` alone: one of its two `io.ReadFull` calls
    needs more bytes than there are.  (`readFrame … .timeout` yields `ioTimeout` exactly for a
    short read: the other errors it can return are `protocolError` and `unknownProtocolId`;
    `MultiLemmas.blocked_iff`, `readFrame_ending_irrelevant`.) -/
def blocked (s : Bytes) : Bool :=
  decide ((Mbap.readFrame s .timeout).1 = .err .ioTimeout)

/-- one server connection -/
structure Conn where
  /-- bytes received from the peer and not yet consumed by the session -/
  input  : Bytes
  /-- how the stream ends after `input`; `none` = it has not ended (the peer is silent) -/
  ending : Option Ending
  /-- every byte the server wrote to THIS connection, in order -/
  output : Bytes
  /-- the session's observable events (as in `Server.run`) -/
  events : List Event
  /-- the session goroutine has not returned -/
  live   : Bool
  deriving Repr, DecidableEq

/-- a freshly accepted connection -/
def Conn.new (input : Bytes) (ending : Option Ending) : Conn :=
  { input := input, ending := ending, output := [], events := [], live := true }

/-- the connection is stalled mid-frame: alive, stream not ended, no complete frame available -/
def Conn.stalled (c : Conn) : Bool := c.live && c.ending.isNone && blocked c.input

variable {σ : Type}

/-- one request cycle of a session whose next read sees `c.input` followed by the ending `e`:
    the body of the loop of `Server.runAux`.
    Result: new handler state, new connection record, the handler call made (if any). -/
def serve (h : Handler σ) (st : σ) (c : Conn) (e : Ending) : σ × Conn × Option HReq :=
  match Mbap.readFrame c.input e with
  | (.err err, rest) =>
    (st, { c with input := rest, events := c.events ++ [.ended err], live := false }, none)
  | (.ok req txn, rest) =>
    let r := handle h st req
    let evCall := match r.2.1 with | some q => [Event.call q] | none => []
    match r.2.2 with
    | .close =>
      (r.1, { c with input := rest, events := c.events ++ evCall ++ [.closed], live := false }, r.2.1)
    | .panic =>
      (r.1, { c with input := rest, events := c.events ++ evCall ++ [.panic], live := false }, r.2.1)
    | .respond p =>
      (r.1, { c with input := rest,
                     events := c.events ++ evCall ++ [.respond (Mbap.assemble txn p)],
                     output := c.output ++ Mbap.assemble txn p }, r.2.1)

/-- the turn of one connection: nothing if its session has returned or is blocked in a read
    that cannot complete; otherwise one request cycle.  (For `ending = none` and a complete frame
    the ending passed to `readFrame` is irrelevant.) -/
def cycle (h : Handler σ) (st : σ) (c : Conn) : σ × Conn × Option HReq :=
  if c.live then
    match c.ending with
    | some e => serve h st c e
    | none => if blocked c.input then (st, c, none) else serve h st c .timeout
  else (st, c, none)

/-- the whole server: the shared handler state, the connections, and the global log of handler
    calls in the order in which the shared handler saw them, each tagged with the connection
    whose session made it -/
structure Sys (σ : Type) where
  st    : σ
  conns : List Conn
  calls : List (Nat × HReq)

/-- connection `i` takes its turn (an index that is not a connection: nothing happens) -/
def turn (h : Handler σ) (s : Sys σ) (i : Nat) : Sys σ :=
  match s.conns[i]? with
  | none => s
  | some c =>
    let r := cycle h s.st c
    { st := r.1, conns := s.conns.set i r.2.1,
      calls := s.calls ++ (match r.2.2 with | some q => [(i, q)] | none => []) }

def runFrom (h : Handler σ) (s : Sys σ) (sched : List Nat) : Sys σ := sched.foldl (turn h) s

/-- the run of a schedule from the initial handler state `st0` -/
def runMulti (h : Handler σ) (st0 : σ) (conns : List Conn) (sched : List Nat) : Sys σ :=
  runFrom h { st := st0, conns := conns, calls := [] } sched

/-! ### observation -/

/-- the bytes of the `respond` events, in order (what a session wrote) -/
def respBytes : List Event → Bytes
  | [] => []
  | .respond f :: evs => f ++ respBytes evs
  | _ :: evs => respBytes evs

/-- the handler calls among the events, in order -/
def callsOf : List Event → List HReq
  | [] => []
  | .call r :: evs => r :: callsOf evs
  | _ :: evs => callsOf evs

def Sys.output (s : Sys σ) (i : Nat) : Bytes := (s.conns[i]?.map Conn.output).getD []
def Sys.events (s : Sys σ) (i : Nat) : List Event := (s.conns[i]?.map Conn.events).getD []

/-- the calls the shared handler saw, in order -/
def Sys.globalCalls (s : Sys σ) : List HReq := s.calls.map Prod.snd

/-- the calls made by the session of connection `i`, in order -/
def Sys.callsBy (s : Sys σ) (i : Nat) : List HReq :=
  (s.calls.filter (fun p => p.1 == i)).map Prod.snd

/-! ### per-connection projection of a global run -/

/-- the shared handler states that connection `i` met at its turns, in order -/
def statesMet (h : Handler σ) : Sys σ → List Nat → Nat → List σ
  | _, [], _ => []
  | s, j :: r, i => (if j = i then [s.st] else []) ++ statesMet h (turn h s j) r i

/-- connection `c` alone, taking one turn in each of the given handler states (what the handler
    does to the state is discarded: the next state is whatever the connection meets next) -/
def replay (h : Handler σ) (sts : List σ) (c : Conn) : Conn :=
  sts.foldl (fun c st => (cycle h st c).2.1) c

/-- connection `c` alone, `n` turns, the handler state threaded through (= `Server.run`,
    `MultiLemmas.solo_eq_run`) -/
def solo (h : Handler σ) : Nat → σ → Conn → σ × Conn
  | 0, st, c => (st, c)
  | n + 1, st, c => let r := cycle h st c; solo h n r.1 r.2.1

/-! ### line protocol (driver) -/

def hexDigit (n : Nat) : Char := if n < 10 then Char.ofNat (48 + n) else Char.ofNat (87 + n)
def hexBytes (bs : Bytes) : String :=
  String.ofList (bs.flatMap fun b => [hexDigit (b.toNat / 16), hexDigit (b.toNat % 16)])

/-- render a run: `st` is not shown (the driver renders its own handler state).
    `out0=<hex> live0=1 out1=<hex> live1=0 … calls=0,1,1` (tags of the global call log) -/
def runShow (h : Handler σ) (st0 : σ) (conns : List (Bytes × Option Ending)) (sched : List Nat) :
    String :=
  let s := runMulti h st0 (conns.map fun p => Conn.new p.1 p.2) sched
  let cs := (List.range s.conns.length).zip s.conns
  let parts := cs.map fun p =>
    s!"out{p.1}=" ++ (if p.2.output.isEmpty then "-" else hexBytes p.2.output) ++
    s!" live{p.1}=" ++ (if p.2.live then "1" else "0")
  " ".intercalate parts ++ " calls=" ++
    (if s.calls.isEmpty then "-" else ",".intercalate (s.calls.map fun p => toString p.1))

end Modbus.Multi
