import ModbusVerif.Model.Client
/-
  client.go `Open` / `Close` as model steps (property C13: "... a subsequent call on a
  re-established connection behaves like a call on a fresh connection").

  Code facts (line numbers: /repo at the verified revision)

  * `ModbusClient.transport` (client.go:68) is an interface field; `NewClient` leaves it nil.
  * `Open()` (client.go:200-321) dials / opens a NEW link and assigns a NEW transport object to
    `mc.transport`, whatever was there before (an earlier transport is neither closed nor reused):
      rtu         client.go:210-229  newSerialPortWrapper + spw.Open(); `discard(spw)` (:225);
                                     newRTUTransport (:228)
      rtuovertcp  client.go:231-243  net.DialTimeout("tcp"); `discard(sock)` (:239);
                                     newRTUTransport (:242)
      rtuoverudp  client.go:245-258  net.DialTimeout("udp"); newUDPSockWrapper; newRTUTransport
                                     (:256) — no discard
      tcp         client.go:260-268  net.DialTimeout("tcp"); newTCPTransport (:268)
      tcp+tls     client.go:270-299  tls.DialWithDialer + Handshake; newTLSSockWrapper;
                                     newTCPTransport (:298)
      udp         client.go:301-313  net.DialTimeout("udp"); newUDPSockWrapper; newTCPTransport
                                     (:312)
    If dialing / opening fails, `Open` returns the error BEFORE the assignment: `mc.transport`
    keeps its previous value (nil, or the old — possibly closed — transport).
  * `newTCPTransport` (tcp_transport.go:24-32) builds `&tcpTransport{socket, timeout, logger}`:
    `lastTxnId` (tcp_transport.go:20) is NOT copied from anywhere — it is the zero value 0, so the
    first request after every `Open` carries transaction id 1 (`tt.lastTxnId++`,
    tcp_transport.go:50). Nothing in client.go keeps a transaction counter across transports.
  * `newRTUTransport` (rtu_transport.go:31-49) builds `&rtuTransport{logger, link, timeout, t1}`
    and sets t35: `lastActivity` (rtu_transport.go:18) is the zero `time.Time`, so the first
    request is not delayed (`time.Since(zero + t35)` is positive, rtu_transport.go:72-75).
  * `newUDPSockWrapper` (udp.go:17-24): fresh `rxbuf`, `leftoverCount` 0: leftover bytes of a
    datagram half-consumed on the old wrapper are not carried over.
  * unread input: it sits in the kernel buffer of the OLD socket (or in the old wrapper); the new
    transport reads only from the new link. (Serial `rtu://`: the "new link" is a new file
    descriptor on the same wire; what the tty layer still holds is additionally flushed by
    `discard`, see below.)
  * `discard` (rtu_transport.go:249-256): `io.ReadFull(link, 1024 bytes)` with a 500 µs deadline,
    result ignored. In `Open` it runs for rtu and rtuovertcp only: up to 1024 bytes that are
    readable on the NEW link during that window are dropped before the first call.
  * `Close()` (client.go:324-333): `if mc.transport != nil { err = mc.transport.Close() }` —
    closes the socket / port (tcp_transport.go:35-39, rtu_transport.go:52-56). It does NOT set
    `mc.transport = nil`: the closed transport object (with its `lastTxnId`) stays installed
    until the next successful `Open`.
  * a call while no usable transport is installed (`executeRequest`, client.go:1233-1235:
    `mc.transport.ExecuteRequest(req)`, reached only after the local parameter checks passed):
      - never opened (`mc.transport == nil`): method call on a nil interface — run-time panic
        (nil pointer dereference), under `mc.lock` (released by the deferred Unlock);
      - closed: `ExecuteRequest` starts with `SetDeadline` on the closed socket, which fails with
        "use of closed network connection" (tcp_transport.go:44-47, rtu_transport.go:65-68; the
        TLS and UDP wrappers forward SetDeadline, tls_utils.go:88-92, udp.go:74-78): the call
        returns that error — not a timeout, so it is not mapped (client.go:1238-1240) — BEFORE
        `lastTxnId++` and before any Write. Serial: `serialPortWrapper.SetDeadline` only stores
        the deadline (serial.go:99-103); the Write on the closed port fails (rtu_transport.go:
        81-84): same observable outcome, error, nothing sent.

  Transaction-id reuse across a reconnect (C05): ids restart at 1 after `Open`, so the new
  connection reuses ids of the old one. That is harmless: a reply to a request of the OLD
  connection travels on the old TCP connection (closed; the peer gets RST / the bytes are
  dropped by the kernel) and cannot appear in the byte stream of the new socket. For `udp://`
  (MBAP in datagrams) a late datagram answering an old request is addressed to the old socket's
  local port; `net.DialTimeout("udp", ...)` (client.go:304) binds a new ephemeral source port and
  the connected UDP socket only accepts datagrams for that port, so the late reply is not
  delivered either (it could only be if the OS handed out the same port again while the reply is
  still in flight). C05's guarantee (only a frame with the outstanding id is returned) is
  unaffected in any case; what the id restart removes is the extra protection "an old reply has a
  different id" — which is never needed on a new connection. Serial RTU has no ids at all: a late
  reply on the shared wire is handled by `discard` in `Open` and by the CRC / flush rules (C06).
-/
namespace Modbus.Reconnect
open Modbus Modbus.Client

/-- what `mc.transport` holds -/
inductive Link
  | absent    -- nil: `Open` never succeeded
  | live      -- a transport whose socket / port is open
  | closed    -- a transport whose socket / port was closed by `Close`
  deriving DecidableEq, Repr, Inhabited

/-- a client connection: the installed transport's state and whether it is usable -/
structure Conn where
  st   : TState
  link : Link
  deriving DecidableEq, Repr, Inhabited

/-- `open : Bool` view: a transport is installed and its link is open -/
def Conn.open (c : Conn) : Bool := c.link == .live

/-- `NewClient`: no transport yet -/
def Conn.new : Conn := { st := { lastTxn := 0, pending := [] }, link := .absent }

/-- the transport state of a client whose `Open` just succeeded with nothing received yet -/
def TState.fresh : TState := { lastTxn := 0, pending := [] }

/-- `Close()`: closes the link of the installed transport, if any; the transport object stays
    installed (`mc.transport` is not reset). Its counter is still there; its unread input is
    unreachable (every later call on it fails before reading, see `call`). -/
def close (c : Conn) : Conn :=
  match c.link with
  | .absent => c
  | _ => { c with link := .closed }

/-- `discard` runs inside `Open` for these kinds -/
def Kind.discardsOnOpen : Kind → Bool
  | .rtu | .rtuOverTcp => true
  | _ => false

/-- what is left for the first call of the bytes `early` that became readable on the NEW link
    while `Open` ran: rtu / rtuovertcp drop up to 1024 of them, the other kinds keep them -/
def openResidue (k : Kind) (early : Bytes) : Bytes :=
  if Kind.discardsOnOpen k then early.drop Rtu.discardLen else early

/-- `Open()`. `dial = none`: dialing / opening the port failed — error returned, `mc.transport`
    unchanged. `dial = some early`: a new link was obtained and a NEW transport object installed;
    `early` are the bytes readable on the new link during `Open`. Nothing of the previous
    transport (`c.st`: counter, unread input) is used. Returns the connection and `true` iff
    `Open` returned nil. -/
def openNew (k : Kind) (c : Conn) (dial : Option Bytes) : Conn × Bool :=
  match dial with
  | none => (c, false)
  | some early => ({ st := { lastTxn := 0, pending := openResidue k early }, link := .live }, true)

/-- a public call on a connection. Live link: `Op.run` on the transport state. Otherwise the
    wrapper and the local checks run first (panic in the wrapper / parameter error, as in
    `Op.run`); then: no transport — panic; closed transport — the i/o error of the closed link,
    nothing written, transport state untouched. -/
def call (op : Op) (cfg : Cfg) (c : Conn) (arrivals : Bytes) (e : Ending) : Result × Conn :=
  match c.link with
  | .live =>
    let r := op.run cfg c.st arrivals e
    (r, { c with st := r.state })
  | .closed =>
    match op.core cfg with
    | none => ({ written := none, result := none, state := c.st }, c)
    | some core =>
      match core.request with
      | .error err => ({ written := none, result := some (.error err), state := c.st }, c)
      | .ok _ => ({ written := none, result := some (.error .ioOther), state := c.st }, c)
  | .absent =>
    match op.core cfg with
    | none => ({ written := none, result := none, state := c.st }, c)
    | some core =>
      match core.request with
      | .error err => ({ written := none, result := some (.error err), state := c.st }, c)
      | .ok _ => ({ written := none, result := none, state := c.st }, c)

/-- steps of a connection history -/
inductive Step
  | call (op : Op) (arrivals : Bytes) (e : Ending)
  | close
  | openNew (dial : Option Bytes)
  deriving Repr, DecidableEq

/-- what a step returns to the caller: a call's record, or whether Close/Open returned nil
    (`Close` errors are not modelled: `true`) -/
inductive StepObs
  | result (r : Result)
  | done (ok : Bool)
  deriving Repr, DecidableEq

def step (cfg : Cfg) (c : Conn) : Step → StepObs × Conn
  | .call op arr e => let r := call op cfg c arr e; (.result r.1, r.2)
  | .close => (.done true, close c)
  | .openNew dial => let r := openNew cfg.kind c dial; (.done r.2, r.1)

/-- a whole connection history -/
def steps (cfg : Cfg) : Conn → List Step → List StepObs × Conn
  | c, [] => ([], c)
  | c, s :: ss =>
    let x := step cfg c s
    let y := steps cfg x.2 ss
    (x.1 :: y.1, y.2)

end Modbus.Reconnect
