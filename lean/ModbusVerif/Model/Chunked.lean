import ModbusVerif.Model.Client
import ModbusVerif.Model.Server
import ModbusVerif.Lemmas.SegmentationLemmas
/-
  C12, whole calls and whole sessions over a segmented byte source.

  The flat model (`Client.Core.exchange`, `Client.Op.run`, `Server.run`) takes the bytes that
  arrive as ONE list. Here the same code paths are written over what the network really hands to
  `Read`: a list of chunks (`List Bytes`; a chunk is what one `Read` can return at most; empty
  chunks = zero-byte reads are allowed), every `io.ReadFull` being the Read loop
  `Strm.readFullChunked` / `Strm.readFullC`. Unread input is carried from call to call AS CHUNKS
  (`TStateC.pending : List Bytes`, the convention of `Mbap.readFrameC`, `Rtu.readFrameC`:
  the remainder of a partially consumed chunk is the head chunk of the rest).

  For the two datagram kinds (`udp://`, `rtuoverudp://`) the link is the `udpSockWrapper`
  (`Udp.State`: leftover bytes + queued datagrams); `exchangeU` / `runU` run the same call through
  the adapter readers `Mbap.readResponseU`, `Rtu.readFrameU`, `Rtu.afterReadU`.

  Building blocks reused (all executable, core only): `Strm.readFullC` (StreamLemmas),
  `Mbap.readFrameC`, `Mbap.readResponseC` (MbapLemmas), `Rtu.readFrameC`, `Rtu.afterReadC`,
  `Mbap.readResponseU`, `Rtu.readFrameU`, `Rtu.afterReadU` (SegmentationLemmas).
-/
namespace Modbus.Chunked

namespace Client
open Modbus Modbus.Client

/-! ### client: one call over a chunked stream -/

/-- transport state between calls, unread input kept as the chunks it arrived in -/
structure TStateC where
  lastTxn : U16
  pending : List Bytes
  deriving Repr, DecidableEq, Inhabited

/-- forget the segmentation of the unread input -/
def TStateC.flat (st : TStateC) : TState := { lastTxn := st.lastTxn, pending := st.pending.flatten }

/-- a flat state seen as a chunked one (all pending bytes in one chunk) -/
def TStateC.ofFlat (st : TState) : TStateC := { lastTxn := st.lastTxn, pending := [st.pending] }

/-- `transport.ExecuteRequest`'s read side on the chunked source `src` ending with `e`:
    RTU kinds: `readRTUFrame` then the flush rule; MBAP kinds: the `readResponse` skip loop -/
def transportReadC (k : Kind) (txn : U16) (src : List Bytes) (e : Ending) :
    (Except Err Pdu) × List Bytes :=
  if k.isRtu then Rtu.afterReadC (Rtu.readFrameC src e) else Mbap.readResponseC txn src e

/-- outcome of one core call over a chunked source -/
structure OutcomeC where
  written : Option Bytes
  result  : Option (Except Err Raw)
  state   : TStateC
  deriving Repr, DecidableEq

def OutcomeC.flat (o : OutcomeC) : Outcome :=
  { written := o.written, result := o.result, state := o.state.flat }

/-- `Client.Core.exchange`, the reads being performed on `pending ++ arrivals` as chunks -/
def Core.exchangeC (c : Core) (cfg : Cfg) (st : TStateC) (arrivals : List Bytes) (e : Ending) :
    OutcomeC :=
  match c.request with
  | .error err => { written := none, result := some (.error err), state := st }
  | .ok (fc, payload) =>
    let p : Pdu := { unit := cfg.unitId, fc := fc, payload := payload }
    let (frame, txn) := frameFor cfg.kind st.flat p
    let (r, rest) := transportReadC cfg.kind txn (st.pending ++ arrivals) e
    let st' : TStateC := { lastTxn := txn, pending := rest }
    match unitCheck cfg.unitId r with
    | .error err => { written := some frame, result := some (.error err), state := st' }
    | .ok res => { written := some frame, result := c.validate fc res, state := st' }

/-- what a public call returns and does, over a chunked source -/
structure ResultC where
  written : Option Bytes
  result  : Option (Except Err Val)
  state   : TStateC
  deriving Repr, DecidableEq

def ResultC.flat (r : ResultC) : Result :=
  { written := r.written, result := r.result, state := r.state.flat }

/-- `Client.Op.run` over a chunked source -/
def Op.runC (op : Op) (cfg : Cfg) (st : TStateC) (arrivals : List Bytes) (e : Ending) : ResultC :=
  match op.core cfg with
  | none => { written := none, result := none, state := st }
  | some c =>
    let o := Core.exchangeC c cfg st arrivals e
    { written := o.written, state := o.state,
      result := match o.result with
        | none => none
        | some (.error err) => some (.error err)
        | some (.ok raw) => (op.decode cfg raw).map .ok }

/-! ### client: one call through the UDP datagram adapter -/

/-- transport state of a datagram client: transaction counter and the `udpSockWrapper`
    (leftover bytes of the last datagram + datagrams queued in the socket) -/
structure TStateU where
  lastTxn : U16
  sock    : Udp.State
  deriving Repr, DecidableEq

/-- the byte stream the adapter will still deliver -/
def TStateU.flat (st : TStateU) : TState :=
  { lastTxn := st.lastTxn, pending := st.sock.pendingBytes }

/-- datagrams arriving during a call queue up behind the ones already in the socket -/
def enqueue (s : Udp.State) (dgrams : List Bytes) : Udp.State :=
  { s with dgrams := s.dgrams ++ dgrams }

/-- what the adapter makes of a list of datagrams: each cut to the 260-byte receive buffer -/
def dgramBytes (dgrams : List Bytes) : Bytes := (dgrams.map (·.take Udp.rxbufLen)).flatten

def transportReadU (k : Kind) (txn : U16) (s : Udp.State) (e : Ending) :
    (Except Err Pdu) × Udp.State :=
  if k.isRtu then Rtu.afterReadU (Rtu.readFrameU s e) else Mbap.readResponseU txn s e

structure OutcomeU where
  written : Option Bytes
  result  : Option (Except Err Raw)
  state   : TStateU
  deriving Repr, DecidableEq

def OutcomeU.flat (o : OutcomeU) : Outcome :=
  { written := o.written, result := o.result, state := o.state.flat }

/-- `Client.Core.exchange` through the adapter: `dgrams` are the datagrams arriving in the call -/
def Core.exchangeU (c : Core) (cfg : Cfg) (st : TStateU) (dgrams : List Bytes) (e : Ending) :
    OutcomeU :=
  match c.request with
  | .error err => { written := none, result := some (.error err), state := st }
  | .ok (fc, payload) =>
    let p : Pdu := { unit := cfg.unitId, fc := fc, payload := payload }
    let (frame, txn) := frameFor cfg.kind st.flat p
    let (r, s') := transportReadU cfg.kind txn (enqueue st.sock dgrams) e
    let st' : TStateU := { lastTxn := txn, sock := s' }
    match unitCheck cfg.unitId r with
    | .error err => { written := some frame, result := some (.error err), state := st' }
    | .ok res => { written := some frame, result := c.validate fc res, state := st' }

structure ResultU where
  written : Option Bytes
  result  : Option (Except Err Val)
  state   : TStateU
  deriving Repr, DecidableEq

def ResultU.flat (r : ResultU) : Result :=
  { written := r.written, result := r.result, state := r.state.flat }

/-- `Client.Op.run` through the adapter -/
def Op.runU (op : Op) (cfg : Cfg) (st : TStateU) (dgrams : List Bytes) (e : Ending) : ResultU :=
  match op.core cfg with
  | none => { written := none, result := none, state := st }
  | some c =>
    let o := Core.exchangeU c cfg st dgrams e
    { written := o.written, state := o.state,
      result := match o.result with
        | none => none
        | some (.error err) => some (.error err)
        | some (.ok raw) => (op.decode cfg raw).map .ok }

/-! ### histories: a sequence of public calls on one transport -/

/-- one call of a history over the flat model: method, settings in force (unit id / encoding may
    be changed between calls), the bytes arriving during the call, how the stream ends -/
structure Call where
  op       : Op
  cfg      : Cfg
  arrivals : Bytes
  ending   : Ending
  deriving Repr, DecidableEq

/-- the same with the arrivals as the network segmented them -/
structure CallC where
  op       : Op
  cfg      : Cfg
  arrivals : List Bytes
  ending   : Ending
  deriving Repr, DecidableEq

def CallC.flat (c : CallC) : Call :=
  { op := c.op, cfg := c.cfg, arrivals := c.arrivals.flatten, ending := c.ending }

/-- what the caller observes of one call: the frame written (if any) and the returned value -/
abbrev Obs := Option Bytes × Option (Except Err Val)

/-- all calls of a history in order (flat model): observations, final transport state -/
def history : TState → List Call → List Obs × TState
  | st, [] => ([], st)
  | st, c :: cs =>
    let r := c.op.run c.cfg st c.arrivals c.ending
    let h := history r.state cs
    ((r.written, r.result) :: h.1, h.2)

/-- all calls of a history in order over chunked arrivals -/
def historyC : TStateC → List CallC → List Obs × TStateC
  | st, [] => ([], st)
  | st, c :: cs =>
    let r := Op.runC c.op c.cfg st c.arrivals c.ending
    let h := historyC r.state cs
    ((r.written, r.result) :: h.1, h.2)

end Client

/-! ### server: a whole session over a chunked stream -/
namespace Server
open Modbus Modbus.Server

/-- `handleTransport` (`Server.runAux`) with `ReadRequest` = `readMBAPFrame` on the chunked
    source; the unread chunks are handed to the next iteration -/
def runAuxC {σ : Type} (h : Handler σ) : Nat → σ → List Bytes → Ending → σ × List Event
  | 0, st, _, _ => (st, [.ended .ioOther])
  | fuel+1, st, src, e =>
    match Mbap.readFrameC src e with
    | (.err err, _) => (st, [.ended err])
    | (.ok req txn, rest) =>
      let (st', call, act) := handle h st req
      let evCall := match call with | some c => [Event.call c] | none => []
      match act with
      | .close => (st', evCall ++ [.closed])
      | .panic => (st', evCall ++ [.panic])
      | .respond p =>
        let (st'', evs) := runAuxC h fuel st' rest e
        (st'', evCall ++ [.respond (Mbap.assemble txn p)] ++ evs)

/-- a server session over the chunked source `src` ending with `e`
    (fuel as in `Server.run`: number of bytes + 1) -/
def runC {σ : Type} (h : Handler σ) (st : σ) (src : List Bytes) (e : Ending) : σ × List Event :=
  runAuxC h (src.flatten.length + 1) st src e

end Server
end Modbus.Chunked
