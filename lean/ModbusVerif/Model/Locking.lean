/-
  Locking — a small model of threads sharing one mutex, and the lockset checker.

  Used for C08 (ModbusClient) and C10 (ModbusServer): both objects have exactly one `sync.Mutex`
  field `lock`.  The translator extracts, per method, the ordered list of lock operations,
  receiver-field accesses, same-receiver method calls and `go` statements
  (`ModbusVerif/Generated/Facts.lean`, `Modbus.Gen.accessTables`).  This file is independent of the
  generated tables: it defines

    * `Act` / `Program`     the table format (own copy; no `held` flag; method names may carry the
                            `Type.` prefix as long as `call`/`go` targets carry it too),
    * `flatten`             inlining of `call m` into atomic `Step`s (fuel bounded, `stuck` on failure),
    * `Thread`/`State`/`step`/`run`/`trace`   interleaving semantics of any number of threads and ONE mutex,
    * `RaceAt`              two distinct threads whose next steps conflict on a mutable field,
    * `wellLocked`/`entryOk`/`mutableFields`/`entries`/`disciplineOk`   the executable checker,
    * `heldAgrees`          cross-check of the translator's syntactic `held` flag.

  The soundness theorems (checker accepts ⇒ no schedule reaches a race; mutual exclusion; critical
  sections are contiguous) are in `ModbusVerif/Lemmas/LockingLemmas.lean`.
  Core library only; everything here is computable and evaluates by `decide +kernel`.
-/
namespace Modbus.Locking

/-! ### table format -/

/-- kinds of extracted actions (same constructors as `Modbus.Gen.ActKind`) -/
inductive AK | acq | rel | rd | wr | call | go
  deriving DecidableEq, Repr

/-- one extracted action: `acq`/`rel` of the mutex (name is informative only), `rd f`/`wr f` of
    receiver field `f`, `call m` of method `m` of the same receiver, `go m` spawning `m` -/
structure Act where
  kind : AK
  name : String
  deriving DecidableEq, Repr

/-- method name ↦ its actions in source order -/
abbrev Program := List (String × List Act)

/-- body of method `m` (first match) -/
def lookup (prog : Program) (m : String) : Option (List Act) :=
  match prog with
  | [] => none
  | (n, b) :: rest => if n = m then some b else lookup rest m

/-! ### atomic steps and inlining -/

/-- atomic steps of a thread -/
inductive Step
  | acq
  | rel
  | rd (f : String)
  | wr (f : String)
  | stuck
  deriving DecidableEq, Repr

/-- steps of one action, given the steps of callees -/
def flatAct (callee : String → List Step) (a : Act) : List Step :=
  match a.kind with
  | .acq => [.acq]
  | .rel => [.rel]
  | .rd => [.rd a.name]
  | .wr => [.wr a.name]
  | .call => callee a.name
  | .go => []

/-- steps of a call of `m` with `fuel` levels of nesting left under it -/
def calleeSteps (prog : Program) (inner : List Act → List Step) (m : String) : List Step :=
  match lookup prog m with
  | none => [.stuck]
  | some b => inner b

/-- inline calls (depth bounded by `fuel`); an unknown callee or exhausted fuel gives `stuck`,
    which the checker rejects; `go m` contributes nothing to the spawning thread -/
def flatten (prog : Program) : Nat → List Act → List Step
  | 0, body => body.flatMap (flatAct (fun _ => [.stuck]))
  | fuel + 1, body => body.flatMap (flatAct (calleeSteps prog (flatten prog fuel)))

/-- the steps of one invocation of entry method `m` -/
def entrySteps (prog : Program) (fuel : Nat) (m : String) : List Step :=
  calleeSteps prog (flatten prog fuel) m

/-! ### machine: any number of threads, one mutex -/

structure Thread where
  todo : List Step
  holding : Bool
  deriving DecidableEq, Repr

structure State where
  threads : List Thread
  /-- index of the thread that holds the mutex -/
  holder : Option Nat
  deriving DecidableEq, Repr

/-- the next step of thread `tid`, if any -/
def next (s : State) (tid : Nat) : Option Step :=
  match s.threads[tid]? with
  | none => none
  | some t => t.todo.head?

/-- thread `tid` performs its next step.  `acq` is enabled only when the mutex is free; `stuck`
    never moves; a thread without remaining steps (or a non-existent one) does not move. -/
def step (s : State) (tid : Nat) : Option State :=
  match s.threads[tid]? with
  | none => none
  | some t =>
    match t.todo with
    | [] => none
    | .acq :: rest =>
      if s.holder = none then some ⟨s.threads.set tid ⟨rest, true⟩, some tid⟩ else none
    | .rel :: rest => some ⟨s.threads.set tid ⟨rest, false⟩, none⟩
    | .rd _ :: rest => some ⟨s.threads.set tid ⟨rest, t.holding⟩, s.holder⟩
    | .wr _ :: rest => some ⟨s.threads.set tid ⟨rest, t.holding⟩, s.holder⟩
    | .stuck :: _ => none

/-- run a schedule (any list of thread ids); disabled choices are skipped -/
def run (s : State) : List Nat → State
  | [] => s
  | tid :: sched =>
    match step s tid with
    | none => run s sched
    | some s' => run s' sched

/-- the steps actually performed along a schedule, with the performing thread -/
def trace (s : State) : List Nat → List (Nat × Step)
  | [] => []
  | tid :: sched =>
    match step s tid with
    | none => trace s sched
    | some s' =>
      match next s tid with
      | none => trace s' sched
      | some st => (tid, st) :: trace s' sched

/-! ### races -/

/-- `st` reads or writes field `f` -/
def Step.touches (st : Step) (f : String) : Prop := st = .rd f ∨ st = .wr f

instance (st : Step) (f : String) : Decidable (st.touches f) := by
  unfold Step.touches; exact inferInstance

/-- `st` reads or writes some field of `mf` -/
def Step.touchesMut (mf : List String) (st : Step) : Prop := ∃ f, f ∈ mf ∧ st.touches f

/-- two distinct threads are both about to access the same mutable field, one of them writing.
    `rd`/`wr` steps are always enabled, so both orders of the two accesses are possible and nothing
    orders them: a data race. -/
def RaceAt (mf : List String) (s : State) : Prop :=
  ∃ i j f a b, i ≠ j ∧ f ∈ mf ∧ next s i = some a ∧ next s j = some b ∧
    a.touches f ∧ b.touches f ∧ (a = .wr f ∨ b = .wr f)

/-! ### the checker -/

/-- simulate `holding` along the steps: no recursive `acq`, no `rel` without holding, every access
    to a mutable field while holding, no `stuck`, and not holding at the end -/
def wellLocked (mf : List String) : Bool → List Step → Bool
  | h, [] => !h
  | h, .acq :: rest => !h && wellLocked mf true rest
  | h, .rel :: rest => h && wellLocked mf false rest
  | h, .rd f :: rest => (!mf.contains f || h) && wellLocked mf h rest
  | h, .wr f :: rest => (!mf.contains f || h) && wellLocked mf h rest
  | _, .stuck :: _ => false

/-- an entry point starts and ends without the mutex -/
def entryOk (mf : List String) (steps : List Step) : Bool := wellLocked mf false steps

/-- fields written by `body` -/
def writtenIn (body : List Act) : List String :=
  body.filterMap (fun a => if a.kind = .wr then some a.name else none)

/-- fields written by some method that is not a constructor, without duplicates, in table order -/
def mutableFields (prog : Program) (ctors : List String) : List String :=
  ((prog.filter (fun p => !ctors.contains p.1)).flatMap (fun p => writtenIn p.2)).eraseDups

/-- targets of `go` statements anywhere in the program -/
def goTargets (prog : Program) : List String :=
  (prog.flatMap (fun p => p.2.filterMap (fun a => if a.kind = .go then some a.name else none))).eraseDups

/-- thread entry points: the public methods and every `go` target -/
def entries (prog : Program) (pub : List String) : List String :=
  pub ++ goTargets prog

/-- every entry's inlined body obeys the locking discipline w.r.t. the mutable fields -/
def disciplineOk (prog : Program) (pub ctors : List String) (fuel : Nat) : Bool :=
  (entries prog pub).all (fun m => entryOk (mutableFields prog ctors) (entrySteps prog fuel m))

/-- initial state: thread k runs the entry methods `calls[k]` one after the other -/
def initState (prog : Program) (fuel : Nat) (calls : List (List String)) : State :=
  ⟨calls.map (fun ms => ⟨(ms.map (entrySteps prog fuel)).flatten, false⟩), none⟩

/-! ### cross-check of the translator's `held` flag -/

/-- holding state after the steps -/
def holdAfter : Bool → List Step → Bool
  | h, [] => h
  | _, .acq :: rest => holdAfter true rest
  | _, .rel :: rest => holdAfter false rest
  | h, _ :: rest => holdAfter h rest

/-- the flag attached to every action equals the simulated holding state right after the action
    (`acq` ↦ true, `rel` ↦ false, everything else: the state it executes in); a `call` must return
    in the holding state it was made in -/
def heldAgrees (prog : Program) (fuel : Nat) : Bool → List (Act × Bool) → Bool
  | _, [] => true
  | h, (a, flag) :: rest =>
    match a.kind with
    | .acq => flag && heldAgrees prog fuel true rest
    | .rel => !flag && heldAgrees prog fuel false rest
    | .call => (flag == h) && (holdAfter h (entrySteps prog fuel a.name) == h) &&
        heldAgrees prog fuel h rest
    | _ => (flag == h) && heldAgrees prog fuel h rest

/-! ### string helpers for the instantiation

Kernel evaluation of `String.toList`/`String.ofList` (UTF-8 decoding/encoding) is slow; these helpers
work on the UTF-8 bytes, which is what a string literal reduces to. -/

/-- the UTF-8 bytes of `s` -/
def bytesOf (s : String) : List UInt8 := s.toByteArray.data.toList

/-- `s` starts with `pre` (bytewise; for valid UTF-8 that is the same as characterwise) -/
def hasPrefix (pre s : String) : Bool := (bytesOf pre).isPrefixOf (bytesOf s)

/-- Go-exported method key `pre ++ Name`: the first character after the prefix is an ASCII
    upper-case letter -/
def isExportedAfter (pre s : String) : Bool :=
  match (bytesOf s).drop (bytesOf pre).length with
  | b :: _ => 65 ≤ b && b ≤ 90
  | [] => false

/-- the tables of one receiver type (keys `Type.method`, kept in full) -/
def selectType {α : Type} (pre : String) (tables : List (String × α)) : List (String × α) :=
  tables.filter (fun p => hasPrefix pre p.1)

/-- the name a `call m` / `go m` action refers to, in a table keyed by `pre ++ method` -/
def qualify (pre : String) (k : AK) (name : String) : String :=
  match k with
  | .call => pre ++ name
  | .go => pre ++ name
  | _ => name

end Modbus.Locking
