import ModbusVerif.Model.Prelude
/-
  encoding.go, function by function. `none` stands for a Go run-time panic
  (index / slice bound out of range) in the decoders called on a slice whose length is not a
  multiple of the element size, under the convention `cap(in) = len(in)` and a valid endianness
  (with spare capacity `in[i:i+n]` reads beyond `len`; with an invalid endianness the 32/64-bit
  decoders never index: out of contract, not reachable through the public API — see the note at
  `u16s_panic_iff` in Props/C17.lean). Invalid selector values on well-sized input behave as in
  Go: no `case` matches, the zero-initialised result is returned.
-/
namespace Modbus.Enc

def byteAt32 (v : U32) (i : Nat) : Byte := v.extractLsb' (8*i) 8
def byteAt64 (v : U64) (i : Nat) : Byte := v.extractLsb' (8*i) 8

/-- binary.BigEndian.PutUint32 / LittleEndian.PutUint32 -/
def be32 (v : U32) : Bytes := [byteAt32 v 3, byteAt32 v 2, byteAt32 v 1, byteAt32 v 0]
def le32 (v : U32) : Bytes := [byteAt32 v 0, byteAt32 v 1, byteAt32 v 2, byteAt32 v 3]
def be64 (v : U64) : Bytes :=
  [byteAt64 v 7, byteAt64 v 6, byteAt64 v 5, byteAt64 v 4, byteAt64 v 3, byteAt64 v 2, byteAt64 v 1, byteAt64 v 0]
def le64 (v : U64) : Bytes :=
  [byteAt64 v 0, byteAt64 v 1, byteAt64 v 2, byteAt64 v 3, byteAt64 v 4, byteAt64 v 5, byteAt64 v 6, byteAt64 v 7]

/-- binary.BigEndian.Uint32 on exactly four bytes (most significant first) -/
def mk32 (a b c d : Byte) : U32 := a ++ b ++ c ++ d
def mk64 (a b c d e f g h : Byte) : U64 := a ++ b ++ c ++ d ++ e ++ f ++ g ++ h

def uint16ToBytes (e : Endian) (v : U16) : Bytes :=
  match e with
  | .big => be16 v
  | .little => le16 v
  | .invalid => [0, 0]

def uint16sToBytes (e : Endian) (vs : List U16) : Bytes := vs.flatMap (uint16ToBytes e)

def bytesToUint16 (e : Endian) (bs : Bytes) : Option U16 :=
  match e, bs with
  | .invalid, _ => some 0
  | .big, b0 :: b1 :: _ => some (mk16 b0 b1)
  | .little, b0 :: b1 :: _ => some (mk16 b1 b0)
  | _, _ => none

/-- `for i := 0; i < len(in); i += 2 { ... in[i:i+2] ... }` -/
def bytesToUint16s (e : Endian) : Bytes → Option (List U16)
  | [] => some []
  | [_] => none
  | b0 :: b1 :: rest =>
    match bytesToUint16 e [b0, b1], bytesToUint16s e rest with
    | some v, some vs => some (v :: vs)
    | _, _ => none

def uint32ToBytes (e : Endian) (w : WordOrder) (v : U32) : Bytes :=
  match e with
  | .big =>
    if w = .lowFirst then [byteAt32 v 1, byteAt32 v 0, byteAt32 v 3, byteAt32 v 2] else be32 v
  | .little =>
    if w = .highFirst then [byteAt32 v 2, byteAt32 v 3, byteAt32 v 0, byteAt32 v 1] else le32 v
  | .invalid => [0, 0, 0, 0]

def u32OfBytes (e : Endian) (w : WordOrder) (i0 i1 i2 i3 : Byte) : U32 :=
  match e with
  | .big => if w = .highFirst then mk32 i0 i1 i2 i3 else mk32 i2 i3 i0 i1
  | .little => if w = .lowFirst then mk32 i3 i2 i1 i0 else mk32 i1 i0 i3 i2
  | .invalid => 0

def bytesToUint32s (e : Endian) (w : WordOrder) : Bytes → Option (List U32)
  | [] => some []
  | i0 :: i1 :: i2 :: i3 :: rest =>
    match bytesToUint32s e w rest with
    | some vs => some (u32OfBytes e w i0 i1 i2 i3 :: vs)
    | none => none
  | _ => none

def uint64ToBytes (e : Endian) (w : WordOrder) (v : U64) : Bytes :=
  match e with
  | .big =>
    if w = .lowFirst then
      [byteAt64 v 1, byteAt64 v 0, byteAt64 v 3, byteAt64 v 2, byteAt64 v 5, byteAt64 v 4, byteAt64 v 7, byteAt64 v 6]
    else be64 v
  | .little =>
    if w = .highFirst then
      [byteAt64 v 6, byteAt64 v 7, byteAt64 v 4, byteAt64 v 5, byteAt64 v 2, byteAt64 v 3, byteAt64 v 0, byteAt64 v 1]
    else le64 v
  | .invalid => [0, 0, 0, 0, 0, 0, 0, 0]

def u64OfBytes (e : Endian) (w : WordOrder) (i0 i1 i2 i3 i4 i5 i6 i7 : Byte) : U64 :=
  match e with
  | .big => if w = .highFirst then mk64 i0 i1 i2 i3 i4 i5 i6 i7 else mk64 i6 i7 i4 i5 i2 i3 i0 i1
  | .little => if w = .lowFirst then mk64 i7 i6 i5 i4 i3 i2 i1 i0 else mk64 i1 i0 i3 i2 i5 i4 i7 i6
  | .invalid => 0

def bytesToUint64s (e : Endian) (w : WordOrder) : Bytes → Option (List U64)
  | [] => some []
  | i0 :: i1 :: i2 :: i3 :: i4 :: i5 :: i6 :: i7 :: rest =>
    match bytesToUint64s e w rest with
    | some vs => some (u64OfBytes e w i0 i1 i2 i3 i4 i5 i6 i7 :: vs)
    | none => none
  | _ => none

/-- one output byte of `encodeBools`: up to eight bools, least significant bit first -/
def packByte : List Bool → Byte
  | [] => 0
  | b :: bs => (if b then 1 else 0) ||| (packByte bs <<< 1)

/-- `encodeBools`: ⌈n/8⌉ bytes, bit i of the input in bit (i % 8) of byte (i / 8) -/
def encodeBools : List Bool → Bytes
  | [] => []
  | b :: bs => packByte ((b :: bs).take 8) :: encodeBools ((b :: bs).drop 8)
termination_by l => l.length
decreasing_by simp_wf; omega

/-- `decodeBools quantity in`: `(in[i/8] >> (i%8)) & 1 == 1` for i < quantity; panics on a short slice -/
def decodeBoolsFrom (bs : Bytes) : Nat → Nat → Option (List Bool)
  | _, 0 => some []
  | i, n+1 =>
    match bs[i/8]? with
    | none => none
    | some b =>
      match decodeBoolsFrom bs (i+1) n with
      | some r => some (b.getLsbD (i % 8) :: r)
      | none => none

def decodeBools (q : Nat) (bs : Bytes) : Option (List Bool) := decodeBoolsFrom bs 0 q

end Modbus.Enc
