import ModbusVerif.Model.Mbap
/-
  server.go `handleTransport`: decode, validate, dispatch to the user handler, encode.
  The handler is a parameter (arbitrary user code that returns).
-/
namespace Modbus.Server
open Enc

/-- the request object handed to a handler (ClientAddr / ClientRole are per-session constants) -/
inductive HReq
  | coils (unit : Byte) (addr qty : U16) (isWrite : Bool) (args : List Bool)
  | discrete (unit : Byte) (addr qty : U16)
  | holding (unit : Byte) (addr qty : U16) (isWrite : Bool) (args : List U16)
  | input (unit : Byte) (addr qty : U16)
  deriving Repr, DecidableEq

/-- user handler: state-passing; `Err.ioOther` stands for any non-modbus error value -/
structure Handler (σ : Type) where
  coils    : σ → HReq → σ × Except Err (List Bool)
  discrete : σ → HReq → σ × Except Err (List Bool)
  holding  : σ → HReq → σ × Except Err (List U16)
  input    : σ → HReq → σ × Except Err (List U16)

/-- `mapErrorToExceptionCode` -/
def mapError (e : Err) : Byte :=
  match e with
  | .illegalFunction => 0x01
  | .illegalDataAddress => 0x02
  | .illegalDataValue => 0x03
  | .serverDeviceFailure => 0x04
  | .acknowledge => 0x05
  | .memoryParityError => 0x08
  | .serverDeviceBusy => 0x06
  | .gwPathUnavailable => 0x0a
  | .gwTargetFailedToRespond => 0x0b
  | _ => 0x04

/-- what the server does with one decoded request -/
inductive Action
  | respond (p : Pdu)     -- WriteResponse
  | close                 -- protocol error: t.Close(); return
  | panic                 -- a Go run-time panic (index out of range); `handle_no_panic`
  deriving Repr, DecidableEq

def exception (req : Pdu) (code : Byte) : Action :=
  .respond { unit := req.unit, fc := 0x80 ||| req.fc, payload := [code] }

/-- the tail of the loop body: `err` set by validation or by the handler -/
def onError (req : Pdu) (e : Err) : Action :=
  if e = .protocolError then .close else exception req (mapError e)

/-- one iteration of the `for` loop of `handleTransport`, after `ReadRequest` succeeded.
    Returns the new handler state, the handler call made (if any), and the action. -/
def handle {σ : Type} (h : Handler σ) (st : σ) (req : Pdu) : σ × Option HReq × Action :=
  let pl := req.payload
  let addr := mk16 (pl.getD 0 0) (pl.getD 1 0)
  let quantity := mk16 (pl.getD 2 0) (pl.getD 3 0)
  if req.fc = 0x01 ∨ req.fc = 0x02 then
    if pl.length ≠ 4 then (st, none, .close)
    else if quantity.toNat > 2000 ∨ quantity = 0 then (st, none, .close)
    else if addr.toNat + quantity.toNat - 1 > 0xffff then (st, none, exception req 0x02)
    else
      let hreq := if req.fc = 0x01 then HReq.coils req.unit addr quantity false []
                  else HReq.discrete req.unit addr quantity
      let (st', r) := if req.fc = 0x01 then h.coils st hreq else h.discrete st hreq
      match r with
      | .error e => (st', some hreq, onError req e)
      | .ok coils =>
        if coils.length ≠ quantity.toNat then (st', some hreq, exception req 0x04)
        else
          let bc := byteOfNat (coils.length / 8 + (if coils.length % 8 ≠ 0 then 1 else 0))
          (st', some hreq, .respond { unit := req.unit, fc := req.fc, payload := bc :: encodeBools coils })
  else if req.fc = 0x05 then
    if pl.length ≠ 4 then (st, none, .close)
    else if (pl.getD 2 0 ≠ 0xff ∧ pl.getD 2 0 ≠ 0x00) ∨ pl.getD 3 0 ≠ 0x00 then (st, none, .close)
    else
      let hreq := HReq.coils req.unit addr 1 true [pl.getD 2 0 == 0xff]
      let (st', r) := h.coils st hreq
      match r with
      | .error e => (st', some hreq, onError req e)
      | .ok _ => (st', some hreq,
          .respond { unit := req.unit, fc := req.fc, payload := be16 addr ++ [pl.getD 2 0, pl.getD 3 0] })
  else if req.fc = 0x0f then
    if pl.length < 6 then (st, none, .close)
    else if quantity.toNat > 0x7b0 ∨ quantity = 0 then (st, none, .close)
    else if addr.toNat + quantity.toNat - 1 > 0xffff then (st, none, exception req 0x02)
    else
      let expectedLen := quantity.toNat / 8 + (if quantity.toNat % 8 ≠ 0 then 1 else 0)
      if pl.getD 4 0 ≠ byteOfNat expectedLen then (st, none, .close)
      else if pl.length - 5 ≠ expectedLen then (st, none, .close)
      else
        match decodeBools quantity.toNat (pl.drop 5) with
        | none => (st, none, .panic)
        | some args =>
          let hreq := HReq.coils req.unit addr quantity true args
          let (st', r) := h.coils st hreq
          match r with
          | .error e => (st', some hreq, onError req e)
          | .ok _ => (st', some hreq,
              .respond { unit := req.unit, fc := req.fc, payload := be16 addr ++ be16 quantity })
  else if req.fc = 0x03 ∨ req.fc = 0x04 then
    if pl.length ≠ 4 then (st, none, .close)
    else if quantity.toNat > 0x7d ∨ quantity = 0 then (st, none, .close)
    else if addr.toNat + quantity.toNat - 1 > 0xffff then (st, none, exception req 0x02)
    else
      let hreq := if req.fc = 0x03 then HReq.holding req.unit addr quantity false []
                  else HReq.input req.unit addr quantity
      let (st', r) := if req.fc = 0x03 then h.holding st hreq else h.input st hreq
      match r with
      | .error e => (st', some hreq, onError req e)
      | .ok regs =>
        if regs.length ≠ quantity.toNat then (st', some hreq, exception req 0x04)
        else (st', some hreq,
          .respond { unit := req.unit, fc := req.fc,
                     payload := byteOfNat (regs.length * 2) :: uint16sToBytes .big regs })
  else if req.fc = 0x06 then
    if pl.length ≠ 4 then (st, none, .close)
    else
      let value := quantity   -- bytes 2..3
      let hreq := HReq.holding req.unit addr 1 true [value]
      let (st', r) := h.holding st hreq
      match r with
      | .error e => (st', some hreq, onError req e)
      | .ok _ => (st', some hreq,
          .respond { unit := req.unit, fc := req.fc, payload := be16 addr ++ be16 value })
  else if req.fc = 0x10 then
    if pl.length < 6 then (st, none, .close)
    else if quantity.toNat > 0x7b ∨ quantity = 0 then (st, none, .close)
    else if addr.toNat + quantity.toNat - 1 > 0xffff then (st, none, exception req 0x02)
    else
      let expectedLen := quantity.toNat * 2
      if pl.getD 4 0 ≠ byteOfNat expectedLen then (st, none, .close)
      else if pl.length - 5 ≠ expectedLen then (st, none, .close)
      else
        match bytesToUint16s .big (pl.drop 5) with
        | none => (st, none, .panic)
        | some args =>
          let hreq := HReq.holding req.unit addr quantity true args
          let (st', r) := h.holding st hreq
          match r with
          | .error e => (st', some hreq, onError req e)
          | .ok _ => (st', some hreq,
              .respond { unit := req.unit, fc := req.fc, payload := be16 addr ++ be16 quantity })
  else (st, none, exception req 0x01)

/-- observable events of a session -/
inductive Event
  | call (r : HReq)
  | respond (frame : Bytes)
  | closed                 -- the server closed the transport after a protocol error
  | ended (e : Err)        -- ReadRequest failed; the session returns
  | panic
  deriving Repr, DecidableEq

/-- `handleTransport` over a stream `s` ending with `e`. Fuel = stream length + 1. -/
def runAux {σ : Type} (h : Handler σ) : Nat → σ → Bytes → Ending → σ × List Event
  | 0, st, _, _ => (st, [.ended .ioOther])
  | fuel+1, st, s, e =>
    match Mbap.readFrame s e with
    | (.err err, _) => (st, [.ended err])
    | (.ok req txn, rest) =>
      let (st', call, act) := handle h st req
      let evCall := match call with | some c => [Event.call c] | none => []
      match act with
      | .close => (st', evCall ++ [.closed])
      | .panic => (st', evCall ++ [.panic])
      | .respond p =>
        let (st'', evs) := runAux h fuel st' rest e
        (st'', evCall ++ [.respond (Mbap.assemble txn p)] ++ evs)

def run {σ : Type} (h : Handler σ) (st : σ) (s : Bytes) (e : Ending) : σ × List Event :=
  runAux h (s.length + 1) st s e

end Modbus.Server
