/-
  LockFlow — control-flow-sensitive lock analysis of structured method bodies.

  `Model/Locking.lean` checks LINEAR lists of actions (one pass over each method body in source
  order, every branch concatenated).  This file keeps the control structure:

    * `Flow`        structured body of one method (own copy of `Modbus.Gen.Flow`: `Locking.AK` kinds,
                    `call`/`go` targets carry the same `Type.` prefix as the table keys),
    * `Exec`        the PATH SEMANTICS: an inductive relation giving every linear trace of actions a
                    body can perform — either branch of every `alt`, any number of iterations of every
                    `loop`, calls replaced by the traces of the callee (any call depth), deferred
                    unlocks performed at method exit,
    * `MExec` / `MethodRun`   one complete execution of a method body / of a named method,
    * `steps`       the atomic `Locking.Step`s of a trace (what a thread of `Locking.run` performs),
    * `analyze`     the ANALYSIS: an executable abstract interpreter over sets of
                    (held, deferred) states, `none` on any violation,
    * `exitHeld` / `calleeOf` / `entryCheck` / `checkEntries`   method level, call inlining (fuel),
                    thread entry points.

  Soundness (`analyze` accepts ⇒ every `Exec` trace passes the linear checker `Locking.entryOk`, so
  that the generic theorems of `LockingLemmas` apply) is in `Lemmas/LockFlowLemmas.lean`.
  Core library only; everything but `Exec` is computable and evaluates by `decide +kernel`.
-/
import ModbusVerif.Model.Locking

namespace Modbus.LockFlow
open Modbus.Locking

/-! ### structured bodies -/

/-- structured body of a method.
    `act k n`: one lock operation (`acq`/`rel`, name informative), field access (`rd f`/`wr f`),
    `call m` (method of the same receiver, inlined), `go m` (spawn; `m` starts WITHOUT the lock);
    `alt` = either branch; `loop b` = zero or more iterations of `b`; `cont` ends the current
    iteration; `brk` propagates to the innermost enclosing `block`, which it ends normally;
    `ret` returns from the method; `deferRel` = `defer lock.Unlock()` executed: one more `rel` is
    performed when the method exits; `stuck` = not understood by the translator. -/
inductive Flow
  | skip
  | act (k : AK) (name : String)
  | seq (a b : Flow)
  | alt (a b : Flow)
  | loop (b : Flow)
  | block (b : Flow)
  | ret
  | brk
  | cont
  | deferRel
  | stuck (why : String)
  deriving DecidableEq, Repr

/-- method key ↦ body -/
abbrev Table := List (String × Flow)

/-- body of method `m` (first match) -/
def lookupF (tbl : Table) (m : String) : Option Flow :=
  match tbl with
  | [] => none
  | (n, b) :: rest => if n = m then some b else lookupF rest m

/-- how the execution of a piece of a body ends -/
inductive Out | fall | ret | brk | cont
  deriving DecidableEq, Repr

/-! ### path semantics -/

/-- the `rel` performed by a deferred `Unlock` at method exit -/
def relAct : Act := ⟨.rel, "lock(deferred)"⟩

/-- `Exec tbl f d o d' tr`: starting with `d` deferred unlocks registered in the current method
    invocation, the piece `f` can perform exactly the actions `tr` (in this order), end with outcome
    `o`, and have `d'` deferred unlocks registered.

    * `tr` contains only `acq`/`rel`/`rd`/`wr`/`go` actions, plus — for the two situations that have
      no meaning — an un-inlinable `call`: a call of a method that is not in the table
      (`callUnknown`) and `stuck` are TREATED AS STUCK: they leave `⟨.call, _⟩` in the trace, which
      `steps` turns into `Step.stuck`, which `Locking.wellLocked` rejects.
    * `call m` with `m` in the table performs any complete execution of `m`'s body: any trace of the
      body from 0 deferred unlocks, whatever its outcome, followed by its deferred unlocks.
    * `go m` stays in the spawning trace as `⟨.go, m⟩` (no step of the spawning thread); the spawned
      method's executions are another thread's work (`MethodRun` of `m`, an entry point).
    No fuel: loops iterate any number of times, calls nest to any depth. -/
inductive Exec (tbl : Table) : Flow → Nat → Out → Nat → List Act → Prop
  | skip {d} : Exec tbl .skip d .fall d []
  | prim {k n d} (hk : k ≠ AK.call) : Exec tbl (.act k n) d .fall d [⟨k, n⟩]
  | call {m b d o d₁ t} (hl : lookupF tbl m = some b) (hb : Exec tbl b 0 o d₁ t) :
      Exec tbl (.act .call m) d .fall d (t ++ List.replicate d₁ relAct)
  | callUnknown {m d} (hl : lookupF tbl m = none) :
      Exec tbl (.act .call m) d .fall d [⟨.call, m⟩]
  | seqFall {a b d d₁ d₂ o t₁ t₂} (ha : Exec tbl a d .fall d₁ t₁) (hb : Exec tbl b d₁ o d₂ t₂) :
      Exec tbl (.seq a b) d o d₂ (t₁ ++ t₂)
  | seqExit {a b d d₁ o t₁} (ha : Exec tbl a d o d₁ t₁) (ho : o ≠ .fall) :
      Exec tbl (.seq a b) d o d₁ t₁
  | altL {a b d d₁ o t} (ha : Exec tbl a d o d₁ t) : Exec tbl (.alt a b) d o d₁ t
  | altR {a b d d₁ o t} (hb : Exec tbl b d o d₁ t) : Exec tbl (.alt a b) d o d₁ t
  | loopDone {b d} : Exec tbl (.loop b) d .fall d []
  | loopIter {b d d₁ d₂ o o' t₁ t₂} (hb : Exec tbl b d o d₁ t₁) (ho : o = .fall ∨ o = .cont)
      (hr : Exec tbl (.loop b) d₁ o' d₂ t₂) : Exec tbl (.loop b) d o' d₂ (t₁ ++ t₂)
  | loopExit {b d d₁ o t₁} (hb : Exec tbl b d o d₁ t₁) (ho : o = .brk ∨ o = .ret) :
      Exec tbl (.loop b) d o d₁ t₁
  | blockBrk {b d d₁ t} (hb : Exec tbl b d .brk d₁ t) : Exec tbl (.block b) d .fall d₁ t
  | blockOther {b d d₁ o t} (hb : Exec tbl b d o d₁ t) (ho : o ≠ .brk) :
      Exec tbl (.block b) d o d₁ t
  | ret {d} : Exec tbl .ret d .ret d []
  | brk {d} : Exec tbl .brk d .brk d []
  | cont {d} : Exec tbl .cont d .cont d []
  | deferRel {d} : Exec tbl .deferRel d .fall (d + 1) []
  | stuck {w d} : Exec tbl (.stuck w) d .fall d [⟨.call, w⟩]

/-- one complete execution of a method body: any path through it — whatever outcome ends it
    (falling off the end, `return`; a `break`/`continue` escaping the body is not Go, it is covered
    all the same) — followed by the deferred unlocks registered on that path -/
def MExec (tbl : Table) (body : Flow) (tr : List Act) : Prop :=
  ∃ o d t, Exec tbl body 0 o d t ∧ tr = t ++ List.replicate d relAct

/-- `tr` is the trace of one complete execution of method `m` of the table -/
def MethodRun (tbl : Table) (m : String) (tr : List Act) : Prop :=
  ∃ body, lookupF tbl m = some body ∧ MExec tbl body tr

/-- the atomic steps of a trace: `go` contributes nothing to the spawning thread, a `call` that was
    not inlined (unknown callee, `stuck`) is `Step.stuck` (this is `Locking.flatten _ 0`) -/
def steps (tr : List Act) : List Step := tr.flatMap (flatAct (fun _ => [.stuck]))

/-- initial state: thread k performs the traces `work[k]` one after the other -/
def initWork (work : List (List (List Act))) : State :=
  ⟨work.map (fun ts => ⟨(ts.map steps).flatten, false⟩), none⟩

/-! ### abstract domain: sets of (held, deferred) states -/

/-- a set of states (holding the mutex?, one deferred unlock registered?) — 4 bits -/
structure SSet where
  /-- not holding, nothing deferred -/
  nn : Bool
  /-- not holding, unlock deferred -/
  nd : Bool
  /-- holding, nothing deferred -/
  hn : Bool
  /-- holding, unlock deferred -/
  hd : Bool
  deriving DecidableEq, Repr

abbrev AbsIn := SSet

namespace SSet

def empty : SSet := ⟨false, false, false, false⟩

def single (h d : Bool) : SSet := ⟨!h && !d, !h && d, h && !d, h && d⟩

def mem (s : SSet) (h d : Bool) : Bool :=
  match h, d with
  | false, false => s.nn
  | false, true => s.nd
  | true, false => s.hn
  | true, true => s.hd

def union (a b : SSet) : SSet := ⟨a.nn || b.nn, a.nd || b.nd, a.hn || b.hn, a.hd || b.hd⟩

def isEmpty (s : SSet) : Bool := !(s.nn || s.nd || s.hn || s.hd)

end SSet

/-- the states possible at each way of leaving a piece of a body -/
structure AbsOut where
  fall : SSet
  ret : SSet
  brk : SSet
  cont : SSet
  deriving DecidableEq, Repr

def AbsOut.sel (o : AbsOut) : Out → SSet
  | .fall => o.fall
  | .ret => o.ret
  | .brk => o.brk
  | .cont => o.cont

def fallOnly (s : SSet) : AbsOut := ⟨s, .empty, .empty, .empty⟩

/-- holding states in which a method can exit (after its deferred unlocks) -/
structure HSet where
  /-- may exit not holding -/
  n : Bool
  /-- may exit holding -/
  h : Bool
  deriving DecidableEq, Repr

def HSet.mem (r : HSet) (b : Bool) : Bool := match b with | false => r.n | true => r.h

/-! ### transfer functions -/

/-- `Lock()`: rejected if the mutex may be held (self-deadlock) -/
def doAcq (s : SSet) : Option SSet :=
  if s.hn || s.hd then none else some ⟨false, false, s.nn, s.nd⟩

/-- `Unlock()`: rejected if the mutex may be not held -/
def doRel (s : SSet) : Option SSet :=
  if s.nn || s.nd then none else some ⟨s.hn, s.hd, false, false⟩

/-- `rd f` / `wr f`: rejected if `f` is mutable and the mutex may be not held
    (the rule of `Locking.wellLocked`) -/
def doAccess (mf : List String) (f : String) (s : SSet) : Option SSet :=
  if mf.contains f && (s.nn || s.nd) then none else some s

/-- `defer Unlock()`: rejected if one may be registered already (two unlocks at exit) -/
def doDefer (s : SSet) : Option SSet :=
  if s.nd || s.hd then none else some ⟨false, s.nn, false, s.hn⟩

/-- call of a method whose exit analysis from holding state `h` is `cf h`: the callee is analysed
    from `false` if the caller may be not holding, from `true` if it may be holding; the caller's
    own deferred flag is kept -/
def doCall (cf : Bool → Option HSet) (s : SSet) : Option SSet :=
  match (if s.nn || s.nd then cf false else some ⟨false, false⟩),
        (if s.hn || s.hd then cf true else some ⟨false, false⟩) with
  | some rn, some rh =>
    some ⟨s.nn && rn.n || s.hn && rh.n, s.nd && rn.n || s.hd && rh.n,
          s.nn && rn.h || s.hn && rh.h, s.nd && rn.h || s.hd && rh.h⟩
  | _, _ => none

/-- one action. `callee m = none`: `m` unknown (or call depth exhausted) — rejected, for `go m` too;
    `go` puts no constraint on the spawning thread (as in `Locking.flatAct`): the spawned method is
    checked as an entry point. -/
def analyzeAct (callee : String → Option (Bool → Option HSet)) (mf : List String)
    (k : AK) (name : String) (s : SSet) : Option SSet :=
  match k with
  | .acq => doAcq s
  | .rel => doRel s
  | .rd => doAccess mf name s
  | .wr => doAccess mf name s
  | .call => match callee name with
    | none => none
    | some cf => doCall cf s
  | .go => match callee name with
    | none => none
    | some _ => some s

/-- number of rounds of the loop iteration: the candidate invariant only grows, it has 4 bits, so
    it is stable after at most 4 strict increases; the 5th round confirms. -/
def loopRounds : Nat := 8

/-- bounded fixpoint iteration for `loop b` (`F` = the analysis of `b`): find `x ⊇ s0` with
    `F x = some o` and `o.fall ∪ o.cont ⊆ x`; `none` if `F` fails or `x` has not stabilised -/
def loopFix (F : SSet → Option AbsOut) (s0 : SSet) : Nat → SSet → Option (SSet × AbsOut)
  | 0, _ => none
  | n + 1, x =>
    match F x with
    | none => none
    | some o =>
      let x' := ((s0.union x).union o.fall).union o.cont
      if x' = x then some (x, o) else loopFix F s0 n x'

/-! ### the analysis -/

/-- abstract interpretation of a piece of a body from the state set `s`: the state sets at
    fall-through / return / break / continue, or `none` on a (possible) violation -/
def analyze (callee : String → Option (Bool → Option HSet)) (mf : List String) :
    Flow → SSet → Option AbsOut
  | .skip, s => some (fallOnly s)
  | .act k n, s => (analyzeAct callee mf k n s).map fallOnly
  | .seq a b, s =>
    match analyze callee mf a s with
    | none => none
    | some oa =>
      match analyze callee mf b oa.fall with
      | none => none
      | some ob => some ⟨ob.fall, oa.ret.union ob.ret, oa.brk.union ob.brk, oa.cont.union ob.cont⟩
  | .alt a b, s =>
    match analyze callee mf a s with
    | none => none
    | some oa =>
      match analyze callee mf b s with
      | none => none
      | some ob =>
        some ⟨oa.fall.union ob.fall, oa.ret.union ob.ret, oa.brk.union ob.brk,
              oa.cont.union ob.cont⟩
  | .loop b, s =>
    match loopFix (analyze callee mf b) s loopRounds s with
    | none => none
    | some (x, ob) => some ⟨x, ob.ret, ob.brk, .empty⟩
  | .block b, s =>
    match analyze callee mf b s with
    | none => none
    | some ob => some ⟨ob.fall.union ob.brk, ob.ret, .empty, ob.cont⟩
  | .ret, s => some ⟨.empty, s, .empty, .empty⟩
  | .brk, s => some ⟨.empty, .empty, s, .empty⟩
  | .cont, s => some ⟨.empty, .empty, .empty, s⟩
  | .deferRel, s => (doDefer s).map fallOnly
  | .stuck _, _ => none

/-- a whole method body entered in holding state `h` with nothing deferred: the holding states it can
    exit in.  Rejected: a `break`/`continue` escaping the body, and an exit (return or falling off
    the end) with an unlock deferred but the mutex not held (unlock of an unlocked mutex). -/
def exitHeld (callee : String → Option (Bool → Option HSet)) (mf : List String)
    (body : Flow) (h : Bool) : Option HSet :=
  match analyze callee mf body (.single h false) with
  | none => none
  | some out =>
    if !out.brk.isEmpty || !out.cont.isEmpty then none
    else
      let fin := out.fall.union out.ret
      if fin.nd then none else some ⟨fin.nn || fin.hd, fin.hn⟩

/-- the callee analysis with `fuel` levels of call nesting available -/
def calleeOf (tbl : Table) (mf : List String) : Nat → String → Option (Bool → Option HSet)
  | 0, _ => none
  | fuel + 1, m =>
    match lookupF tbl m with
    | none => none
    | some b => some (exitHeld (calleeOf tbl mf fuel) mf b)

/-- `analyze` with calls resolved in `tbl` (the form named in the soundness theorem) -/
def analyzeT (tbl : Table) (mf : List String) (fuel : Nat) (f : Flow) (st : AbsIn) :
    Option AbsOut :=
  analyze (calleeOf tbl mf fuel) mf f st

/-- a thread entry point: analysed from "not holding, nothing deferred", accepted, and every exit
    (after the deferred unlock) not holding -/
def entryCheck (tbl : Table) (mf : List String) (fuel : Nat) (m : String) : Bool :=
  match lookupF tbl m with
  | none => false
  | some b =>
    match exitHeld (calleeOf tbl mf fuel) mf b false with
    | none => false
    | some r => !r.h

def checkEntries (tbl : Table) (mf : List String) (fuel : Nat) (ents : List String) : Bool :=
  ents.all (entryCheck tbl mf fuel)

/-! ### what the tables mention -/

/-- fields written somewhere in `f` -/
def writtenIn : Flow → List String
  | .act .wr f => [f]
  | .seq a b => writtenIn a ++ writtenIn b
  | .alt a b => writtenIn a ++ writtenIn b
  | .loop b => writtenIn b
  | .block b => writtenIn b
  | _ => []

/-- targets of `go` somewhere in `f` -/
def goIn : Flow → List String
  | .act .go m => [m]
  | .seq a b => goIn a ++ goIn b
  | .alt a b => goIn a ++ goIn b
  | .loop b => goIn b
  | .block b => goIn b
  | _ => []

/-- fields written by some method, without duplicates, in table order
    (the i/o pseudo field "transport!" is a `wr` like any other) -/
def mutableFieldsF (tbl : Table) : List String :=
  (tbl.flatMap (fun p => writtenIn p.2)).eraseDups

/-- targets of `go` statements anywhere in the table -/
def goTargetsF (tbl : Table) : List String :=
  (tbl.flatMap (fun p => goIn p.2)).eraseDups

/-- every action occurring in `f` (`deferRel` counts as a `rel`), in source order -/
def actsIn : Flow → List (AK × String)
  | .act k n => [(k, n)]
  | .deferRel => [(.rel, "lock(deferred)")]
  | .seq a b => actsIn a ++ actsIn b
  | .alt a b => actsIn a ++ actsIn b
  | .loop b => actsIn b
  | .block b => actsIn b
  | _ => []

/-- does `f` contain a `stuck`? -/
def hasStuck : Flow → Bool
  | .stuck _ => true
  | .seq a b => hasStuck a || hasStuck b
  | .alt a b => hasStuck a || hasStuck b
  | .loop b => hasStuck b
  | .block b => hasStuck b
  | _ => false

end Modbus.LockFlow
