import ModbusVerif.Model.Client
import ModbusVerif.Model.Server
/-
  Closed loop: one client (`Modbus.Client`), one server (`Modbus.Server`) and a memory-backed
  request handler, connected back to back over an MBAP stream (tcp / tcp+tls).

  One public client call = the request frame is written, the server session consumes it
  (`Server.run`), the bytes the server wrote are what arrives at the client, the client call
  finishes on them. Calls are sequential (the client holds its lock over the whole exchange), so a
  history is a fold of single steps.

  The memory handler mirrors the handler of the test harness (`harness/…` memory handler): four
  tables of 65536 entries with the deterministic initial contents of `Mem.init`.

  Core Lean only, executable (linked into `mbmodel`).
-/
namespace Modbus.System
open Modbus

/-- the four Modbus tables; only addresses 0..65535 are ever used -/
structure Mem where
  coils    : Nat → Bool
  discrete : Nat → Bool
  holding  : Nat → U16
  input    : Nat → U16

/-- initial contents (the Go memory handler of the harness starts with exactly these) -/
def Mem.init : Mem where
  coils    := fun _ => false
  discrete := fun a => (a * 7 + 3) % 5 == 0
  holding  := fun _ => 0
  input    := fun a => BitVec.ofNat 16 (a * 257 + 11)

/-- `for i := 0; i < qty; i++ { res = append(res, table[addr+i]) }` -/
def readAt {α : Type} (f : Nat → α) : Nat → Nat → List α
  | _, 0 => []
  | addr, n+1 => f addr :: readAt f (addr + 1) n

/-- `for i, v := range args { table[addr+i] = v }` -/
def writeAt {α : Type} (f : Nat → α) : Nat → List α → Nat → α
  | _, [] => f
  | addr, v :: vs => writeAt (fun a => if a = addr then v else f a) (addr + 1) vs

/-- the memory handler: reads return the `qty` entries from `addr`; writes store the arguments at
    `addr`, `addr+1`, … and return nothing. It never returns an error: the range is guaranteed by
    the server's validation (`C03_handler_args_in_range`). A request object of the wrong table
    (never passed by the server) is answered with an empty result. -/
def memHandler : Server.Handler Mem where
  coils := fun m r =>
    match r with
    | .coils _ addr qty false _ => (m, .ok (readAt m.coils addr.toNat qty.toNat))
    | .coils _ addr _ true args => ({ m with coils := writeAt m.coils addr.toNat args }, .ok [])
    | _ => (m, .ok [])
  discrete := fun m r =>
    match r with
    | .discrete _ addr qty => (m, .ok (readAt m.discrete addr.toNat qty.toNat))
    | _ => (m, .ok [])
  holding := fun m r =>
    match r with
    | .holding _ addr qty false _ => (m, .ok (readAt m.holding addr.toNat qty.toNat))
    | .holding _ addr _ true args => ({ m with holding := writeAt m.holding addr.toNat args }, .ok [])
    | _ => (m, .ok [])
  input := fun m r =>
    match r with
    | .input _ addr qty => (m, .ok (readAt m.input addr.toNat qty.toNat))
    | _ => (m, .ok [])

/-- a handler that answers every call with the error `e` and leaves the memory alone -/
def errHandler (e : Err) : Server.Handler Mem where
  coils    := fun m _ => (m, .error e)
  discrete := fun m _ => (m, .error e)
  holding  := fun m _ => (m, .error e)
  input    := fun m _ => (m, .error e)

/-- the bytes the server wrote during a session, in order -/
def responses : List Server.Event → Bytes
  | [] => []
  | .respond f :: evs => f ++ responses evs
  | _ :: evs => responses evs

/-- did the server give up the connection (protocol error → `Close`, or a crashed goroutine)? -/
def hungUp : List Server.Event → Bool
  | [] => false
  | .closed :: _ => true
  | .panic :: _ => true
  | _ :: evs => hungUp evs

/-- one public client call against the server, with the server's events.
    The server session sees exactly the request frame and then nothing more before the client's
    deadline (`.timeout`). What it wrote is what arrives at the client; after that the client's
    stream ends with end-of-file if the server closed the connection and with the deadline
    otherwise. A locally rejected call does not touch the connection. -/
def stepFull (h : Server.Handler Mem) (cfg : Client.Cfg) (st : Client.TState) (mem : Mem)
    (op : Client.Op) : Client.Result × Mem × List Server.Event :=
  match op.requestFrame cfg st with
  | some (.ok f) =>
    let (mem', evs) := Server.run h mem f .timeout
    let ending : Ending := if hungUp evs then .eof else .timeout
    (op.run cfg st (responses evs) ending, mem', evs)
  | _ => (op.run cfg st [] .timeout, mem, [])

/-- one public client call: what the caller gets (and the transport state), and the handler's
    memory afterwards -/
def step (h : Server.Handler Mem) (cfg : Client.Cfg) (st : Client.TState) (mem : Mem)
    (op : Client.Op) : Client.Result × Mem :=
  let r := stepFull h cfg st mem op
  (r.1, r.2.1)

/-- the handler invocations of one call -/
def stepCalls (h : Server.Handler Mem) (cfg : Client.Cfg) (st : Client.TState) (mem : Mem)
    (op : Client.Op) : List Server.HReq :=
  (stepFull h cfg st mem op).2.2.filterMap (fun ev => match ev with | .call r => some r | _ => none)

/-- a history: public read/write calls interleaved with `SetUnitId` and `SetEncoding`
    (raw `uint` selector values, as in the Go API) -/
inductive Cmd
  | op (o : Client.Op)
  | setUnit (u : Byte)
  | setEnc (e w : Nat)
  deriving Repr, DecidableEq

/-- `SetEncoding`: endianness and word order must both be 1 or 2; otherwise
    ErrUnexpectedParameters and no change -/
def setEnc (cfg : Client.Cfg) (e w : Nat) : Except Err Client.Cfg :=
  if e ≠ 1 ∧ e ≠ 2 then .error .unexpectedParameters
  else if w ≠ 1 ∧ w ≠ 2 then .error .unexpectedParameters
  else .ok { cfg with endian := if e = 1 then .big else .little
                      word := if w = 1 then .highFirst else .lowFirst }

/-- one command: result for the caller (`none` = Go panic), settings, transport state, memory -/
def exec (h : Server.Handler Mem) (cfg : Client.Cfg) (st : Client.TState) (mem : Mem) :
    Cmd → Option (Except Err Client.Val) × Client.Cfg × Client.TState × Mem
  | .op o =>
    let r := step h cfg st mem o
    (r.1.result, cfg, r.1.state, r.2)
  | .setUnit u => (some (.ok .unit), { cfg with unitId := u }, st, mem)
  | .setEnc e w =>
    match setEnc cfg e w with
    | .ok cfg' => (some (.ok .unit), cfg', st, mem)
    | .error err => (some (.error err), cfg, st, mem)

/-- a whole history: the result of every command, then the final settings, transport state and
    memory -/
def run (h : Server.Handler Mem) (cfg : Client.Cfg) (st : Client.TState) (mem : Mem) :
    List Cmd → List (Option (Except Err Client.Val)) × Client.Cfg × Client.TState × Mem
  | [] => ([], cfg, st, mem)
  | c :: cs =>
    let x := exec h cfg st mem c
    let y := run h x.2.1 x.2.2.1 x.2.2.2 cs
    (x.1 :: y.1, y.2)

/-- all handler invocations of a history, in order.
    (Every step starts a server session on an open connection. After a step in which the server
    closed the connection - only possible when the handler returns `ErrProtocolError`, finding F8 -
    a real client would have to be re-opened first; the harness does that.) -/
def runCalls (h : Server.Handler Mem) (cfg : Client.Cfg) (st : Client.TState) (mem : Mem) :
    List Cmd → List Server.HReq
  | [] => []
  | c :: cs =>
    let x := exec h cfg st mem c
    (match c with | .op o => stepCalls h cfg st mem o | _ => []) ++ runCalls h x.2.1 x.2.2.1 x.2.2.2 cs

end Modbus.System
