import ModbusVerif.Model.Stream
/-
  udp.go `udpSockWrapper`: lets the transports read a datagram socket byte by byte.
  State: the bytes left over from the last datagram (`rxbuf[0:leftoverCount]`).
  The socket delivers one datagram per `sock.Read(rxbuf)`; `rxbuf` holds 260 bytes, so a
  longer datagram is truncated by the socket read.
-/
namespace Modbus.Udp

def rxbufLen : Nat := 260

structure State where
  leftover : Bytes
  dgrams   : List Bytes      -- datagrams still queued in the socket
  deriving Repr, DecidableEq

/-- one `Read(buf[0:n])` on the wrapper. `none`: the socket read failed (no datagram). -/
def read (n : Nat) (st : State) : Option (Bytes × State) :=
  if st.leftover.length > 0 then
    some (st.leftover.take n, { st with leftover := st.leftover.drop n })
  else
    match st.dgrams with
    | [] => none
    | d :: ds =>
      let got := d.take rxbufLen
      some (got.take n, { leftover := got.drop n, dgrams := ds })

/-- all bytes still to be delivered, in order -/
def State.pendingBytes (st : State) : Bytes :=
  st.leftover ++ (st.dgrams.map (·.take rxbufLen)).flatten

end Modbus.Udp
