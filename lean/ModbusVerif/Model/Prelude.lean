/-
  Prelude: bytes, 16-bit words, error enum, stream endings.
  Core Lean only (no Mathlib) so that the driver links as a lean_exe.
-/
namespace Modbus

abbrev Byte  := BitVec 8
abbrev U16   := BitVec 16
abbrev U32   := BitVec 32
abbrev U64   := BitVec 64
abbrev Bytes := List Byte

/-- high / low byte of a 16-bit word -/
def hi (v : U16) : Byte := v.extractLsb' 8 8
def lo (v : U16) : Byte := v.extractLsb' 0 8
/-- 16-bit word from its high and low byte -/
def mk16 (h l : Byte) : U16 := h ++ l

/-- big-endian (network order) and little-endian two-byte forms -/
def be16 (v : U16) : Bytes := [hi v, lo v]
def le16 (v : U16) : Bytes := [lo v, hi v]

/-- `byte(x)` / `uint8(x)` and `uint16(x)` conversions of a Go int -/
def byteOfNat (n : Nat) : Byte := BitVec.ofNat 8 n
def u16OfNat (n : Nat) : U16 := BitVec.ofNat 16 n

/-- Go `Endianness` / `WordOrder` values (1, 2; anything else is "no case matches") -/
inductive Endian | big | little | invalid
  deriving DecidableEq, Repr, Inhabited
inductive WordOrder | highFirst | lowFirst | invalid
  deriving DecidableEq, Repr, Inhabited

/-- how the byte stream from the peer ends, once the available bytes are used up -/
inductive Ending
  | timeout   -- the armed deadline expires (os.IsTimeout error)
  | eof       -- orderly close by the peer (io.EOF)
  | reset     -- any other i/o error (connection reset, closed socket, ...)
  deriving DecidableEq, Repr, Inhabited

/-- modbus.go `Error` constants + the error classes the canonicaliser maps Go errors to -/
inductive Err
  | configuration | requestTimedOut | illegalFunction | illegalDataAddress | illegalDataValue
  | serverDeviceFailure | acknowledge | serverDeviceBusy | memoryParityError
  | gwPathUnavailable | gwTargetFailedToRespond | badCRC | shortFrame | protocolError
  | badUnitId | badTransactionId | unknownProtocolId | unexpectedParameters
  | unknownException (code : Byte)        -- fmt.Errorf("unknown exception code (%v)")
  | ioTimeout | ioEOF | ioUnexpectedEOF | ioOther
  deriving DecidableEq, Repr, Inhabited

def Err.name : Err → String
  | .configuration => "ErrConfigurationError"
  | .requestTimedOut => "ErrRequestTimedOut"
  | .illegalFunction => "ErrIllegalFunction"
  | .illegalDataAddress => "ErrIllegalDataAddress"
  | .illegalDataValue => "ErrIllegalDataValue"
  | .serverDeviceFailure => "ErrServerDeviceFailure"
  | .acknowledge => "ErrAcknowledge"
  | .serverDeviceBusy => "ErrServerDeviceBusy"
  | .memoryParityError => "ErrMemoryParityError"
  | .gwPathUnavailable => "ErrGWPathUnavailable"
  | .gwTargetFailedToRespond => "ErrGWTargetFailedToRespond"
  | .badCRC => "ErrBadCRC"
  | .shortFrame => "ErrShortFrame"
  | .protocolError => "ErrProtocolError"
  | .badUnitId => "ErrBadUnitId"
  | .badTransactionId => "ErrBadTransactionId"
  | .unknownProtocolId => "ErrUnknownProtocolId"
  | .unexpectedParameters => "ErrUnexpectedParameters"
  | .unknownException c => s!"unknown-exception-{c.toNat}"
  | .ioTimeout => "io-timeout"
  | .ioEOF => "io-eof"
  | .ioUnexpectedEOF => "io-unexpected-eof"
  | .ioOther => "io-other"

/-- the error a `Read` returns when the stream is exhausted -/
def Ending.err : Ending → Err
  | .timeout => .ioTimeout
  | .eof     => .ioEOF
  | .reset   => .ioOther

instance {ε α : Type} [DecidableEq ε] [DecidableEq α] : DecidableEq (Except ε α) := fun a b =>
  match a, b with
  | .ok x, .ok y => if h : x = y then isTrue (by rw [h]) else isFalse (fun h' => h (by cases h'; rfl))
  | .error x, .error y => if h : x = y then isTrue (by rw [h]) else isFalse (fun h' => h (by cases h'; rfl))
  | .ok _, .error _ => isFalse (fun h => by cases h)
  | .error _, .ok _ => isFalse (fun h => by cases h)

end Modbus
