import ModbusVerif.Model.Prelude
/-
  Byte sources. The transports consume their connection only through
  `io.ReadFull`; its observable behaviour on a stream that delivers `s` and then
  ends with `e` is `readFull`. `Chunked` is the same over an arbitrary
  segmentation (what each `Read` call can return at most); C12 relates the two.
-/
namespace Modbus.Strm

/-- outcome of `io.ReadFull(conn, buf[0:n])` -/
inductive RF
  | ok (bs : Bytes) (rest : Bytes)       -- n bytes read, err == nil
  | short (got : Bytes) (err : Err)      -- fewer than n bytes, stream exhausted
  deriving Repr, DecidableEq

/-- error of a short `ReadFull`: the Read error if nothing was read, else
    `io.ErrUnexpectedEOF` for EOF and the Read error itself otherwise -/
def shortErr (got : Nat) (e : Ending) : Err :=
  if got = 0 then e.err
  else match e with
    | .eof => .ioUnexpectedEOF
    | _ => e.err

def readFull (n : Nat) (s : Bytes) (e : Ending) : RF :=
  if n ≤ s.length then .ok (s.take n) (s.drop n)
  else .short s (shortErr s.length e)

/-! ### the same over a chunked source -/

/-- one `Read(buf[0:n])` on a chunked source: at most the head chunk, at most n bytes -/
def read1 (n : Nat) : List Bytes → Bytes × List Bytes
  | [] => ([], [])
  | c :: cs =>
    if c.length ≤ n then (c, cs) else (c.take n, c.drop n :: cs)

/-- `io.ReadFull` loop: call Read until n bytes were gathered or the source is exhausted.
    Empty chunks are zero-byte reads without error and are simply retried. -/
def readFullChunked : Nat → List Bytes → Bytes × List Bytes
  | 0, src => ([], src)
  | _, [] => ([], [])
  | n+1, c :: cs =>
    if c.length ≤ n+1 then
      let (got, rest) := readFullChunked (n + 1 - c.length) cs
      (c ++ got, rest)
    else (c.take (n+1), c.drop (n+1) :: cs)
termination_by _ src => src.length

end Modbus.Strm
