/-
  RTU timing (property C19): rtu_transport.go `serialCharTime`, the t1 / t3.5 choice of
  `newRTUTransport`, and the clock arithmetic of `rtuTransport.ExecuteRequest`.
  Core Lean only; executable. All times and durations are natural numbers of nanoseconds.

  Scope
  * rates ≥ 1 (rate 0: Go integer division by zero panics; `NewClient` replaces a zero Speed by
    19200 for the three rtu* schemes, so a client made by `NewClient` never has rate 0).
  * `time.Duration(rate_bps)` converts a `uint` to int64: the model is exact for
    1 ≤ rate < 2^63 (for rates ≥ 2^63 the Go divisor is negative; not modelled).
  * no int64 overflow: `11 * time.Second` = 11·10^9 < 2^63; the quotient is ≤ 11·10^9, and
    `serialCharTime(speed) * 35` ≤ 385·10^9 < 2^63 (theorem `no_overflow`).
  * times are points of Go's monotonic clock (time.Now / Since / Sub / Sleep all use it),
    assumed non-decreasing.
  * A-sleep: `time.Sleep(d)` returns after AT LEAST `d` (d ≤ 0: returns at once). The extra
    delay (oversleeping, scheduling, the time the calls themselves take) is an explicit,
    arbitrary input of the model, so the theorems hold for every schedule.
-/
namespace Modbus.Timing

/-- `serialCharTime(rate_bps)`: `11 * time.Second / time.Duration(rate_bps)`; truncating -/
def charTime (rate : Nat) : Nat := 11000000000 / rate

/-- `rt.t35` as set by `newRTUTransport` -/
def t35 (rate : Nat) : Nat :=
  if rate ≥ 19200 then 1750000 else charTime rate * 35 / 10

/-- `rt.t1` -/
def t1 (rate : Nat) : Nat := charTime rate

/-- `maxRTUFrameLength` -/
def maxRTUFrameLength : Nat := 256

/-- earliest instant at which the request may be handed to `Write`:
    `t = time.Since(lastActivity.Add(t35)); if t < 0 { time.Sleep(-t) }`
    (the minimum permitted by A-sleep) -/
def txStart (now lastActivity rate : Nat) : Nat := max now (lastActivity + t35 rate)

/-- how `readRTUFrame` ended, as far as the clock bookkeeping cares -/
inductive ReadOutcome
  | heard       -- nil error, or any error other than the ones below (lastActivity := now)
  | resync      -- ErrBadCRC / ErrProtocolError / ErrShortFrame: sleep 256·t1, discard, then now
  | timedOut    -- err == ErrRequestTimedOut (the sentinel itself): lastActivity is left alone
  deriving DecidableEq, Repr, Inhabited

/-- everything the environment decides during one `ExecuteRequest` -/
structure Events where
  now      : Nat          -- clock read by `time.Since` at the start of the call
  lag1     : Nat := 0     -- extra delay until `ts = time.Now()` (oversleep, scheduling)
  writeErr : Bool := false  -- `link.Write` failed: early return, nothing recorded
  n        : Nat := 0     -- bytes written (return value of Write)
  writeDur : Nat := 0     -- from `ts` until the `time.Now()` inside the second Sleep's argument
  lag2     : Nat := 0     -- extra delay of the second sleep
  readDur  : Nat := 0     -- time spent in readRTUFrame
  outcome  : ReadOutcome := .heard
  lag3     : Nat := 0     -- resync only: oversleep of the 256·t1 sleep + duration of discard
  lag4     : Nat := 0     -- until the final `time.Now()`
  deriving Repr, Inhabited

/-- what one exchange did to the clock bookkeeping -/
structure Times where
  ts            : Nat   -- `ts = time.Now()` just before Write: transmission starts no earlier
  txEnd         : Nat   -- estimated end of transmission `ts + n·t1` (= lastActivity after Write)
  readStart     : Nat   -- readRTUFrame is entered
  readEnd       : Nat   -- readRTUFrame returns (every received byte arrived before this)
  finish        : Nat   -- the last clock reading of the call
  lastActivity' : Nat   -- `rt.lastActivity` when the call returns
  deriving Repr, DecidableEq, Inhabited

/-- the assignments of `ExecuteRequest`, in order -/
def exchangeTimes (rate lastActivity : Nat) (ev : Events) : Times :=
  -- t = Since(lastActivity + t35); if t < 0 { Sleep(-t) };  ts = Now()
  let ts := txStart ev.now lastActivity rate + ev.lag1
  if ev.writeErr then
    { ts := ts, txEnd := ts, readStart := ts, readEnd := ts, finish := ts,
      lastActivity' := lastActivity }
  else
    -- rt.lastActivity = ts.Add(n * t1)
    let la1 := ts + ev.n * t1 rate
    -- time.Sleep(rt.lastActivity.Add(t35).Sub(time.Now()))
    let readStart := max (ts + ev.writeDur) (la1 + t35 rate) + ev.lag2
    let readEnd := readStart + ev.readDur
    -- bad frame: time.Sleep(256 * t1); discard(link)
    let afterResync := match ev.outcome with
      | .resync => readEnd + maxRTUFrameLength * t1 rate + ev.lag3
      | _ => readEnd
    let finish := afterResync + ev.lag4
    -- if err != ErrRequestTimedOut { rt.lastActivity = time.Now() }
    { ts := ts, txEnd := la1, readStart := readStart, readEnd := readEnd, finish := finish,
      lastActivity' := match ev.outcome with
        | .timedOut => la1
        | _ => finish }

/-- a sequence of calls on one transport; the record of each: (lastActivity before, times) -/
def history (rate : Nat) : Nat → List Events → List (Nat × Times)
  | _, [] => []
  | la, ev :: evs =>
    let t := exchangeTimes rate la ev
    (la, t) :: history rate t.lastActivity' evs

/-- the schedule is physically possible: each call starts after the previous one returned -/
def wellTimed (rate : Nat) : Nat → Nat → List Events → Prop
  | _, _, [] => True
  | la, prevFinish, ev :: evs =>
    prevFinish ≤ ev.now ∧
      wellTimed rate (exchangeTimes rate la ev).lastActivity' (exchangeTimes rate la ev).finish evs

end Modbus.Timing
