import ModbusVerif.Model.Client
import ModbusVerif.Model.Server
/-
  Canonical text forms shared with the Go harness (line protocol).
-/
namespace Modbus.Wire

def hexDigit (n : Nat) : Char :=
  if n < 10 then Char.ofNat (48 + n) else Char.ofNat (87 + n)

def hexByte (b : Byte) : String :=
  String.ofList [hexDigit (b.toNat / 16), hexDigit (b.toNat % 16)]

def hex (bs : Bytes) : String :=
  if bs.isEmpty then "-" else String.join (bs.map hexByte)

def hexVal (c : Char) : Option Nat :=
  if '0' ≤ c ∧ c ≤ '9' then some (c.toNat - 48)
  else if 'a' ≤ c ∧ c ≤ 'f' then some (c.toNat - 87)
  else if 'A' ≤ c ∧ c ≤ 'F' then some (c.toNat - 55)
  else none

def unhexAux : List Char → Bytes → Option Bytes
  | [], acc => some acc.reverse
  | [_], _ => none
  | a :: b :: rest, acc =>
    match hexVal a, hexVal b with
    | some x, some y => unhexAux rest (BitVec.ofNat 8 (x * 16 + y) :: acc)
    | _, _ => none

def unhex (s : String) : Option Bytes :=
  if s = "-" then some [] else unhexAux s.toList []

def bits (l : List Bool) : String :=
  if l.isEmpty then "-" else String.ofList (l.map fun b => if b then '1' else '0')

def unbits (s : String) : Option (List Bool) :=
  if s = "-" then some []
  else s.toList.mapM fun c => if c = '1' then some true else if c = '0' then some false else none

def hex16 (v : U16) : String := hexByte (hi v) ++ hexByte (lo v)
def hex32 (v : U32) : String := String.join ((Enc.be32 v).map hexByte)
def hex64 (v : U64) : String := String.join ((Enc.be64 v).map hexByte)

def groupBytes (n : Nat) : Nat → Bytes → Option (List Bytes)
  | _, [] => some []
  | 0, _ => none
  | fuel+1, l =>
    let g := l.take n
    if g.length < n then none
    else (groupBytes n fuel (l.drop n)).map (g :: ·)

def natOfBytes (bs : Bytes) : Nat := bs.foldl (fun acc b => acc * 256 + b.toNat) 0

def unhexWords (w : Nat) (n : Nat) (s : String) : Option (List (BitVec w)) := do
  let bs ← unhex s
  let gs ← groupBytes n (bs.length + 1) bs
  pure (gs.map fun g => BitVec.ofNat w (natOfBytes g))

def errName (e : Err) : String := e.name

def errOfName (s : String) : Option Err :=
  [Err.configuration, .requestTimedOut, .illegalFunction, .illegalDataAddress, .illegalDataValue,
   .serverDeviceFailure, .acknowledge, .serverDeviceBusy, .memoryParityError, .gwPathUnavailable,
   .gwTargetFailedToRespond, .badCRC, .shortFrame, .protocolError, .badUnitId, .badTransactionId,
   .unknownProtocolId, .unexpectedParameters, .ioTimeout, .ioEOF, .ioUnexpectedEOF, .ioOther].find?
    (fun e => e.name = s)

def endingOfName : String → Option Ending
  | "timeout" => some .timeout
  | "eof" => some .eof
  | "reset" => some .reset
  | _ => none

def endianOfNat : Nat → Endian
  | 1 => .big
  | 2 => .little
  | _ => .invalid

def wordOfNat : Nat → WordOrder
  | 1 => .highFirst
  | 2 => .lowFirst
  | _ => .invalid

open Client in
def kindOfName : String → Option Kind
  | "rtu" => some .rtu
  | "rtuovertcp" => some .rtuOverTcp
  | "rtuoverudp" => some .rtuOverUdp
  | "tcp" => some .tcp
  | "tcp+tls" => some .tcpTls
  | "udp" => some .udp
  | _ => none

def u16? (s : String) : Option U16 := s.toNat?.map (BitVec.ofNat 16)

open Client in
/-- parse `<OpName> <args…>` -/
def parseOp : List String → Option Op
  | ["ReadCoils", a, q] => do pure (.readCoils (← u16? a) (← u16? q))
  | ["ReadCoil", a] => do pure (.readCoil (← u16? a))
  | ["ReadDiscreteInputs", a, q] => do pure (.readDiscreteInputs (← u16? a) (← u16? q))
  | ["ReadDiscreteInput", a] => do pure (.readDiscreteInput (← u16? a))
  | ["ReadRegisters", a, q, rt] => do pure (.readRegisters (← u16? a) (← u16? q) (← rt.toNat?))
  | ["ReadRegister", a, rt] => do pure (.readRegister (← u16? a) (← rt.toNat?))
  | ["ReadUint32s", a, q, rt] => do pure (.readUint32s (← u16? a) (← u16? q) (← rt.toNat?))
  | ["ReadUint32", a, rt] => do pure (.readUint32 (← u16? a) (← rt.toNat?))
  | ["ReadFloat32s", a, q, rt] => do pure (.readFloat32s (← u16? a) (← u16? q) (← rt.toNat?))
  | ["ReadFloat32", a, rt] => do pure (.readFloat32 (← u16? a) (← rt.toNat?))
  | ["ReadUint64s", a, q, rt] => do pure (.readUint64s (← u16? a) (← u16? q) (← rt.toNat?))
  | ["ReadUint64", a, rt] => do pure (.readUint64 (← u16? a) (← rt.toNat?))
  | ["ReadFloat64s", a, q, rt] => do pure (.readFloat64s (← u16? a) (← u16? q) (← rt.toNat?))
  | ["ReadFloat64", a, rt] => do pure (.readFloat64 (← u16? a) (← rt.toNat?))
  | ["ReadBytes", a, q, rt] => do pure (.readBytes (← u16? a) (← u16? q) (← rt.toNat?))
  | ["ReadRawBytes", a, q, rt] => do pure (.readRawBytes (← u16? a) (← u16? q) (← rt.toNat?))
  | ["WriteCoil", a, v] => do pure (.writeCoil (← u16? a) (v = "1"))
  | ["WriteCoils", a, vs] => do pure (.writeCoils (← u16? a) (← unbits vs))
  | ["WriteRegister", a, v] => do pure (.writeRegister (← u16? a) (← u16? v))
  | ["WriteRegisters", a, vs] => do pure (.writeRegisters (← u16? a) (← unhexWords 16 2 vs))
  | ["WriteUint32s", a, vs] => do pure (.writeUint32s (← u16? a) (← unhexWords 32 4 vs))
  | ["WriteUint32", a, v] => do pure (.writeUint32 (← u16? a) (← (← unhexWords 32 4 v).head?))
  | ["WriteFloat32s", a, vs] => do pure (.writeFloat32s (← u16? a) (← unhexWords 32 4 vs))
  | ["WriteFloat32", a, v] => do pure (.writeFloat32 (← u16? a) (← (← unhexWords 32 4 v).head?))
  | ["WriteUint64s", a, vs] => do pure (.writeUint64s (← u16? a) (← unhexWords 64 8 vs))
  | ["WriteUint64", a, v] => do pure (.writeUint64 (← u16? a) (← (← unhexWords 64 8 v).head?))
  | ["WriteFloat64s", a, vs] => do pure (.writeFloat64s (← u16? a) (← unhexWords 64 8 vs))
  | ["WriteFloat64", a, v] => do pure (.writeFloat64 (← u16? a) (← (← unhexWords 64 8 v).head?))
  | ["WriteBytes", a, bs] => do pure (.writeBytes (← u16? a) (← unhex bs))
  | ["WriteRawBytes", a, bs] => do pure (.writeRawBytes (← u16? a) (← unhex bs))
  | _ => none

open Client in
def showVal : Val → String
  | .bools l => "b:" ++ bits l
  | .u16s l => "h:" ++ (if l.isEmpty then "-" else String.join (l.map hex16))
  | .u32s l => "w:" ++ (if l.isEmpty then "-" else String.join (l.map hex32))
  | .u64s l => "q:" ++ (if l.isEmpty then "-" else String.join (l.map hex64))
  | .bytes b => "x:" ++ hex b
  | .unit => "unit"

open Client in
def showResult : Option (Except Err Val) → String
  | none => "panic"
  | some (.error e) => "err:" ++ errName e
  | some (.ok v) => "ok:" ++ showVal v

def showReqFrame : Option (Except Err Bytes) → String
  | none => "panic"
  | some (.error e) => "err:" ++ errName e
  | some (.ok f) => "ok:" ++ hex f

end Modbus.Wire
