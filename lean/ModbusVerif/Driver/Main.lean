import ModbusVerif.Driver.Wire
import ModbusVerif.Spec.Request
/-
  mbmodel: line protocol. One operation per input line, one canonical output line.
  Unknown or malformed lines print `bad-op` (never a default).
-/
namespace Modbus.Driver
open Modbus Wire

/-! scripted handler shared with the Go harness -/
inductive Beh | ok | short | long | nil | err (e : Err)
  deriving Repr

def parseBeh (s : String) : Option Beh :=
  match s with
  | "ok" => some .ok
  | "short" => some .short
  | "long" => some .long
  | "nil" => some .nil
  | _ => if s.startsWith "e:" then (errOfName (s.drop 2).toString).map .err else none

def boolAt (addr idx j : Nat) : Bool := (addr + j + idx) % 3 == 0 || (addr + j) % 7 == 2
def regAt (addr idx j : Nat) : U16 := BitVec.ofNat 16 ((addr + j) * 31 + idx * 7)

def sized (b : Beh) (q : Nat) : Nat :=
  match b with
  | .ok => q
  | .short => q - 1
  | .long => q + 1
  | _ => 0

def scripted (script : List Beh) : Server.Handler Nat :=
  let beh (i : Nat) : Beh := script.getD (i % script.length) .ok
  let bools (i : Nat) (r : Server.HReq) : Nat × Except Err (List Bool) :=
    match beh i, r with
    | .err e, _ => (i+1, .error e)
    | b, .coils _ a q _ _ | b, .discrete _ a q =>
      (i+1, .ok ((List.range (sized b q.toNat)).map (boolAt a.toNat i)))
    | _, _ => (i+1, .ok [])
  let regs (i : Nat) (r : Server.HReq) : Nat × Except Err (List U16) :=
    match beh i, r with
    | .err e, _ => (i+1, .error e)
    | b, .holding _ a q _ _ | b, .input _ a q =>
      (i+1, .ok ((List.range (sized b q.toNat)).map (regAt a.toNat i)))
    | _, _ => (i+1, .ok [])
  { coils := bools, discrete := bools, holding := regs, input := regs }

def showHReq : Server.HReq → String
  | .coils u a q w args => s!"call:coils:{u.toNat}:{a.toNat}:{q.toNat}:{if w then 1 else 0}:{bits args}"
  | .discrete u a q => s!"call:discrete:{u.toNat}:{a.toNat}:{q.toNat}"
  | .holding u a q w args =>
    s!"call:holding:{u.toNat}:{a.toNat}:{q.toNat}:{if w then 1 else 0}:{if args.isEmpty then "-" else String.join (args.map hex16)}"
  | .input u a q => s!"call:input:{u.toNat}:{a.toNat}:{q.toNat}"

def showEvent : Server.Event → String
  | .call r => showHReq r
  | .respond f => "resp:" ++ hex f
  | .closed => "closed"
  | .ended e => "ended:" ++ errName e
  | .panic => "panic"

def showEvents (l : List Server.Event) : String := ";".intercalate (l.map showEvent)

def cfgOf (kind unit e w : String) : Option Client.Cfg := do
  pure { kind := ← kindOfName kind, unitId := BitVec.ofNat 8 (← unit.toNat?),
         endian := endianOfNat (← e.toNat?), word := wordOfNat (← w.toNat?) }

def step (line : String) : String :=
  match line.trimAscii.toString.splitOn " " with
  | "creq" :: kind :: unit :: e :: w :: txn :: op =>
    match cfgOf kind unit e w, u16? txn, parseOp op with
    | some cfg, some t, some o => showReqFrame (o.requestFrame cfg { lastTxn := t, pending := [] })
    | _, _, _ => "bad-op"
  | "sreq" :: kind :: unit :: e :: w :: txn :: op =>
    -- the property oracle of C01: the independent specification of the request encoding
    match cfgOf kind unit e w, u16? txn, parseOp op with
    | some cfg, some t, some o =>
      match Spec.request cfg { lastTxn := t, pending := [] } o with
      | .ok f => "ok:" ++ hex f
      | .error err => "err:" ++ errName err
    | _, _, _ => "bad-op"
  | "cex" :: kind :: unit :: e :: w :: txn :: pend :: arr :: ending :: op =>
    match cfgOf kind unit e w, u16? txn, unhex pend, unhex arr, endingOfName ending, parseOp op with
    | some cfg, some t, some p, some a, some en, some o =>
      let r := o.run cfg { lastTxn := t, pending := p } a en
      s!"w={match r.written with | none => "none" | some f => hex f} r={showResult r.result} txn={r.state.lastTxn.toNat} pend={hex r.state.pending}"
    | _, _, _, _, _, _ => "bad-op"
  | ["srv", script, ending, stream] =>
    match (script.splitOn ",").mapM parseBeh, endingOfName ending, unhex stream with
    | some sc, some en, some s =>
      if sc.isEmpty then "bad-op" else showEvents (Server.run (scripted sc) 0 s en).2
    | _, _, _ => "bad-op"
  | ["crc", data] =>
    match unhex data with
    | some d => hex (Crc.crc16 d) ++ " ref=" ++ hex (le16 (Crc.refCrc d))
    | none => "bad-op"
  | ["crcstep", s, b] =>
    match s.toNat?, b.toNat? with
    | some s, some b => toString (Crc.step (BitVec.ofNat 16 s) (BitVec.ofNat 8 b)).toNat
    | _, _ => "bad-op"
  | _ => "bad-op"

partial def loop (h : IO.FS.Stream) (out : IO.FS.Stream) : IO Unit := do
  let line ← h.getLine
  if line.isEmpty then return ()
  out.putStrLn (step line)
  loop h out

end Modbus.Driver

def main : IO Unit := do
  let stdin ← IO.getStdin
  let stdout ← IO.getStdout
  Modbus.Driver.loop stdin stdout
