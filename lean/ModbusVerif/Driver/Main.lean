import ModbusVerif.Driver.Wire
import ModbusVerif.Spec.Request
import ModbusVerif.Spec.Layout
import ModbusVerif.Spec.ServerSpec
import ModbusVerif.Model.Config
import ModbusVerif.Model.Timing
import ModbusVerif.Model.Role
import ModbusVerif.Spec.RoleSpec
import ModbusVerif.Model.Lifecycle
import ModbusVerif.Model.Heap
import ModbusVerif.Model.Tls
import ModbusVerif.Model.IoTrace
import ModbusVerif.Model.System
import ModbusVerif.Spec.RegFile
import ModbusVerif.Model.Cli
import ModbusVerif.Model.MultiSession
import ModbusVerif.Model.Reconnect
/-
  mbmodel: line protocol. One operation per input line, one canonical output line.
  Unknown or malformed lines print `bad-op` (never a default).
-/
namespace Modbus.Driver
open Modbus Wire

/-! scripted handler shared with the Go harness -/
inductive Beh | ok | short | long | huge | nil | err (e : Err)
  deriving Repr

def parseBeh (s : String) : Option Beh :=
  match s with
  | "ok" => some .ok
  | "short" => some .short
  | "long" => some .long
  | "huge" => some .huge
  | "nil" => some .nil
  | _ => if s.startsWith "e:" then (errOfName (s.drop 2).toString).map .err else none

def boolAt (addr idx j : Nat) : Bool := (addr + j + idx) % 3 == 0 || (addr + j) % 7 == 2
def regAt (addr idx j : Nat) : U16 := BitVec.ofNat 16 ((addr + j) * 31 + idx * 7)

def sized (b : Beh) (q : Nat) : Nat :=
  match b with
  | .ok => q
  | .short => q - 1
  | .long => q + 1
  | .huge => q + 65536
  | _ => 0

def scripted (script : List Beh) : Server.Handler Nat :=
  let beh (i : Nat) : Beh := script.getD (i % script.length) .ok
  let bools (i : Nat) (r : Server.HReq) : Nat × Except Err (List Bool) :=
    match beh i, r with
    | .err e, _ => (i+1, .error e)
    | b, .coils _ a q _ _ | b, .discrete _ a q =>
      (i+1, .ok ((List.range (sized b q.toNat)).map (boolAt a.toNat i)))
    | _, _ => (i+1, .ok [])
  let regs (i : Nat) (r : Server.HReq) : Nat × Except Err (List U16) :=
    match beh i, r with
    | .err e, _ => (i+1, .error e)
    | b, .holding _ a q _ _ | b, .input _ a q =>
      (i+1, .ok ((List.range (sized b q.toNat)).map (regAt a.toNat i)))
    | _, _ => (i+1, .ok [])
  { coils := bools, discrete := bools, holding := regs, input := regs }

def showHReq : Server.HReq → String
  | .coils u a q w args => s!"call:coils:{u.toNat}:{a.toNat}:{q.toNat}:{if w then 1 else 0}:{bits args}"
  | .discrete u a q => s!"call:discrete:{u.toNat}:{a.toNat}:{q.toNat}"
  | .holding u a q w args =>
    s!"call:holding:{u.toNat}:{a.toNat}:{q.toNat}:{if w then 1 else 0}:{if args.isEmpty then "-" else String.join (args.map hex16)}"
  | .input u a q => s!"call:input:{u.toNat}:{a.toNat}:{q.toNat}"

def showEvent : Server.Event → String
  | .call r => showHReq r
  | .respond f => "resp:" ++ hex f
  | .closed => "closed"
  | .ended e => "ended:" ++ errName e
  | .panic => "panic"

def showEvents (l : List Server.Event) : String := ";".intercalate (l.map showEvent)

def cfgOf (kind unit e w : String) : Option Client.Cfg := do
  pure { kind := ← kindOfName kind, unitId := BitVec.ofNat 8 (← unit.toNat?),
         endian := endianOfNat (← e.toNat?), word := wordOfNat (← w.toNat?) }

/-! C11: several sessions sharing the memory handler (`Multi.runMulti`) -/
def parseMultiConn (s : String) : Option (Bytes × Option Ending) :=
  match s.splitOn "/" with
  | [h, "none"] => (unhex h).map fun b => (b, none)
  | [h, e] => do pure ((← unhex h), some (← endingOfName e))
  | _ => none

def multiRun (sched : String) (conns : List String) : String :=
  let sch : Option (List Nat) := if sched = "-" then some [] else (sched.splitOn ",").mapM String.toNat?
  match sch, conns.mapM parseMultiConn with
  | some sc, some cs =>
    let s := Multi.runMulti System.memHandler System.Mem.init (cs.map fun p => Multi.Conn.new p.1 p.2) sc
    let idx := (List.range s.conns.length).zip s.conns
    " ".intercalate (idx.map fun p => s!"out{p.1}={hex p.2.output} live{p.1}={if p.2.live then 1 else 0}") ++
      " calls=" ++ (if s.calls.isEmpty then "-" else ";".intercalate (s.calls.map fun p => s!"{p.1}:{showHReq p.2}"))
  | _, _ => "bad-op"

/-! C13: Close / Open as steps of a connection history (`Reconnect.steps`) -/
def parseReconnStep (ws : List String) : Option Reconnect.Step :=
  match ws with
  | ["close"] => some .close
  | ["open", "fail"] => some (.openNew none)
  | ["open", h] => (unhex h).map fun b => .openNew (some b)
  | "call" :: e :: arr :: op => do pure (.call (← parseOp op) (← unhex arr) (← endingOfName e))
  | _ => none

def showStepObs : Reconnect.StepObs → String
  | .done ok => s!"done:{if ok then 1 else 0}"
  | .result r => s!"w={match r.written with | none => "none" | some f => hex f} r={showResult r.result}"

def reconnRun (kind unit e w : String) (rest : List String) : String :=
  let stepWords := ((" ".intercalate rest).splitOn ";").map fun s => (s.splitOn " ").filter (· ≠ "")
  match cfgOf kind unit e w, stepWords.mapM parseReconnStep with
  | some cfg, some steps => ";".intercalate ((Reconnect.steps cfg Reconnect.Conn.new steps).1.map showStepObs)
  | _, _ => "bad-op"

/-- the property oracle of C03: frames are cut out of the stream by the MBAP reader, each complete
    frame must produce `Spec.serverEvents` -/
def specRunAux {σ : Type} (h : Server.Handler σ) : Nat → σ → Bytes → Ending → List Server.Event
  | 0, _, _, _ => [.ended .ioOther]
  | fuel+1, st, s, e =>
    match Mbap.readFrame s e with
    | (.err err, _) => [.ended err]
    | (.ok req txn, rest) =>
      let x := Spec.serverEvents h st txn req
      if Spec.staysOpen req then x.2 ++ specRunAux h fuel x.1 rest e else x.2

def utf8OfHex (s : String) : Option String :=
  match unhex s with
  | some bs => String.fromUTF8? (ByteArray.mk (bs.map (fun b => b.toNat.toUInt8)).toArray)
  | none => none

def kindName : Client.Kind → String
  | .rtu => "rtu" | .rtuOverTcp => "rtuovertcp" | .rtuOverUdp => "rtuoverudp"
  | .tcp => "tcp" | .tcpTls => "tcp+tls" | .udp => "udp"

def endianNum : Endian → Nat | .big => 1 | .little => 2 | .invalid => 0
def wordNum : WordOrder → Nat | .highFirst => 1 | .lowFirst => 2 | .invalid => 0

def strHex (s : String) : String := hex (s.toUTF8.toList.map (fun b => BitVec.ofNat 8 b.toNat))

def parseCmd (t : String) : Option System.Cmd :=
  match (t.trimAscii.toString.splitOn " ").filter (· ≠ "") with
  | ["U", u] => u.toNat?.map (fun n => .setUnit (BitVec.ofNat 8 n))
  | ["E", e, w] => do pure (.setEnc (← e.toNat?) (← w.toNat?))
  | toks => (parseOp toks).map .op

def showCmdResult (c : System.Cmd) (r : Option (Except Err Client.Val)) : String :=
  match c, r with
  | .op _, r => showResult r
  | _, some (.ok _) => "set"
  | _, some (.error e) => "err:" ++ errName e
  | _, none => "panic"

/-- one CLI invocation end to end on the models: argument grammar → run list → client calls through the
    closed-loop system model (fresh memory) → printed lines. Output: `refused` | `nothing` |
    `go | calls=… | out=line␞line…` (␞ = U+001E between printed lines; errors print `!<err>`). -/
def cliRun (e w : String) (u : Nat) (args : List String) : String :=
  match Cli.invoke { endianness := e, wordOrder := w, unitId := u, args := args } with
  | .usage _ => "refused-usage"
  | .refused _ => "refused"
  | .nothingToDo => "nothing"
  | .go en wo unit ops =>
    let cfg0 : Client.Cfg := { kind := .tcp, unitId := unit, endian := en, word := wo }
    let st0 : Client.TState := { lastTxn := 0, pending := [] }
    let (_, _, _, calls, out) := ops.foldl (fun (acc : Client.Cfg × Client.TState × System.Mem × List Server.HReq × List String) o =>
      let (cfg, st, mem, calls, out) := acc
      let cfg' := { cfg with unitId := Cli.nextUnit cfg.unitId o }
      match Cli.execute o with
      | [c] =>
        let (r, _, st', mem') := System.exec System.memHandler cfg' st mem (.op c)
        let newCalls := System.stepCalls System.memHandler cfg' st mem c
        let lines := match r with
          | some (.ok v) => Cli.printedLines o v
          | some (.error er) => ["!" ++ errName er]
          | none => ["!panic"]
        (cfg', st', mem', calls ++ newCalls, out ++ lines)
      | _ => (cfg', st, mem, calls, out)) (cfg0, st0, System.Mem.init, [], [])
    "go | calls=" ++ ";".intercalate (calls.map showHReq) ++ " | out=" ++ "\u001e".intercalate out

def step (line : String) : String :=
  match line.trimAscii.toString.splitOn " " with
  | "creq" :: kind :: unit :: e :: w :: txn :: op =>
    match cfgOf kind unit e w, u16? txn, parseOp op with
    | some cfg, some t, some o => showReqFrame (o.requestFrame cfg { lastTxn := t, pending := [] })
    | _, _, _ => "bad-op"
  | "sreq" :: kind :: unit :: e :: w :: txn :: op =>
    -- the property oracle of C01: the independent specification of the request encoding
    match cfgOf kind unit e w, u16? txn, parseOp op with
    | some cfg, some t, some o =>
      match Spec.request cfg { lastTxn := t, pending := [] } o with
      | .ok f => "ok:" ++ hex f
      | .error err => "err:" ++ errName err
    | _, _, _ => "bad-op"
  | "cex" :: kind :: unit :: e :: w :: txn :: pend :: arr :: ending :: op =>
    match cfgOf kind unit e w, u16? txn, unhex pend, unhex arr, endingOfName ending, parseOp op with
    | some cfg, some t, some p, some a, some en, some o =>
      let r := o.run cfg { lastTxn := t, pending := p } a en
      s!"w={match r.written with | none => "none" | some f => hex f} r={showResult r.result} txn={r.state.lastTxn.toNat} pend={hex r.state.pending}"
    | _, _, _, _, _, _ => "bad-op"
  | ["srv", script, ending, stream] =>
    match (script.splitOn ",").mapM parseBeh, endingOfName ending, unhex stream with
    | some sc, some en, some s =>
      if sc.isEmpty then "bad-op" else showEvents (Server.run (scripted sc) 0 s en).2
    | _, _, _ => "bad-op"
  -- codecs (C17): model output, then the reference layout (property oracle) where one exists
  | ["enc16", e, v] =>
    match e.toNat?, u16? v with
    | some e, some v => hex (Enc.uint16ToBytes (endianOfNat e) v) ++ " spec=" ++ hex (Spec.layout16 (endianOfNat e) v)
    | _, _ => "bad-op"
  | ["enc32", e, w, v] =>
    match e.toNat?, w.toNat?, v.toNat? with
    | some e, some w, some v =>
      hex (Enc.uint32ToBytes (endianOfNat e) (wordOfNat w) (BitVec.ofNat 32 v)) ++ " spec=" ++
        hex (Spec.layout32 (endianOfNat e) (wordOfNat w) (BitVec.ofNat 32 v))
    | _, _, _ => "bad-op"
  | ["enc64", e, w, v] =>
    match e.toNat?, w.toNat?, v.toNat? with
    | some e, some w, some v =>
      hex (Enc.uint64ToBytes (endianOfNat e) (wordOfNat w) (BitVec.ofNat 64 v)) ++ " spec=" ++
        hex (Spec.layout64 (endianOfNat e) (wordOfNat w) (BitVec.ofNat 64 v))
    | _, _, _ => "bad-op"
  | ["dec16s", e, data] =>
    match e.toNat?, unhex data with
    | some e, some d => match Enc.bytesToUint16s (endianOfNat e) d with
      | some l => if l.isEmpty then "-" else String.join (l.map hex16)
      | none => "panic"
    | _, _ => "bad-op"
  | ["dec32s", e, w, data] =>
    match e.toNat?, w.toNat?, unhex data with
    | some e, some w, some d => match Enc.bytesToUint32s (endianOfNat e) (wordOfNat w) d with
      | some l => if l.isEmpty then "-" else String.join (l.map hex32)
      | none => "panic"
    | _, _, _ => "bad-op"
  | ["dec64s", e, w, data] =>
    match e.toNat?, w.toNat?, unhex data with
    | some e, some w, some d => match Enc.bytesToUint64s (endianOfNat e) (wordOfNat w) d with
      | some l => if l.isEmpty then "-" else String.join (l.map hex64)
      | none => "panic"
    | _, _, _ => "bad-op"
  | ["encbools", bs] =>
    match unbits bs with
    | some l => hex (Enc.encodeBools l) ++ " spec=" ++ hex (Spec.packBools l)
    | none => "bad-op"
  | ["decbools", q, data] =>
    match q.toNat?, unhex data with
    | some q, some d => match Enc.decodeBools q d with
      | some l => bits l
      | none => "panic"
    | _, _ => "bad-op"
  | ["crcdigest", lo, hi] =>
    -- digest over all (state, byte) pairs with lo <= state < hi of the one-byte CRC transition
    match lo.toNat?, hi.toNat? with
    | some lo, some hi =>
      let d := (List.range (hi - lo)).foldl (fun acc i =>
        (List.range 256).foldl (fun acc b =>
          (acc * 1000003 + (Crc.step (BitVec.ofNat 16 (lo + i)) (BitVec.ofNat 8 b)).toNat) % 2305843009213693951) acc) 7
      toString d
    | _, _ => "bad-op"
  | ["srvspec", script, ending, stream] =>
    match (script.splitOn ",").mapM parseBeh, endingOfName ending, unhex stream with
    | some sc, some en, some s =>
      if sc.isEmpty then "bad-op" else showEvents (specRunAux (scripted sc) (s.length + 1) 0 s en)
    | _, _, _ => "bad-op"
  | ["newclient", url, speed, db, par, sb, tmo, cert, roots] =>
    match utf8OfHex url, speed.toNat?, db.toNat?, par.toNat?, sb.toNat?, tmo.toNat? with
    | some u, some sp, some d, some pa, some st, some t =>
      match Config.newClient { url := u, speed := sp, dataBits := d, parity := pa, stopBits := st, timeoutNs := t,
                               hasCert := cert = "1", hasRoots := roots = "1" } with
      | .error e => "err:" ++ errName e
      | .ok c =>
        let w := Config.openWiring c.kind
        s!"ok kind={kindName c.kind} url={strHex c.url} speed={c.speed} databits={c.dataBits} parity={c.parity} stopbits={c.stopBits} timeout={c.timeoutNs} unit={c.unitId.toNat} e={endianNum c.endian} w={wordNum c.word} socket={w.1.name} framing={w.2.1.name}"
    | _, _, _, _, _, _ => "bad-op"
  | ["newserver", url, tmo, maxc, cert, cas] =>
    match utf8OfHex url, tmo.toNat?, maxc.toNat? with
    | some u, some t, some m =>
      match Config.newServer { url := u, timeoutNs := t, maxClients := m, hasCert := cert = "1", hasCAs := cas = "1" } with
      | .error e => "err:" ++ errName e
      | .ok c => s!"ok tls={if c.tls then 1 else 0} url={strHex c.url} timeout={c.timeoutNs} maxclients={c.maxClients}"
    | _, _, _ => "bad-op"
  | ["setenc", e0, w0, e, w] =>
    match e0.toNat?, w0.toNat?, e.toNat?, w.toNat? with
    | some e0, some w0, some e, some w =>
      let st : Config.ClientState := { kind := .tcp, url := "", speed := 0, dataBits := 0, parity := 0, stopBits := 0,
                                       timeoutNs := 0, endian := endianOfNat e0, word := wordOfNat w0 }
      match Config.setEncoding st e w with
      | .error er => s!"err:{errName er} e={e0} w={w0}"
      | .ok c => s!"ok e={endianNum c.endian} w={wordNum c.word}"
    | _, _, _, _ => "bad-op"
  | ["timing", rate] =>
    match rate.toNat? with
    | some r => s!"{Timing.charTime r} {Timing.t35 r}"
    | none => "bad-op"
  | ["timingdigest", lo, hi] =>
    match lo.toNat?, hi.toNat? with
    | some lo, some hi =>
      toString ((List.range (hi - lo)).foldl (fun acc i =>
        ((acc * 1000003 + Timing.charTime (lo + i)) % 2305843009213693951 * 1000003 + Timing.t35 (lo + i)) % 2305843009213693951) 7)
    | _, _ => "bad-op"
  | ["role", exts] =>
    -- extensions separated by ',', each `R:<hex>` (role OID) or `O:<hex>` (another OID)
    let parse (t : String) : Option Role.Ext :=
      match t.splitOn ":" with
      | ["R", v] => (unhex v).map fun b => { id := Role.modbusRoleOID, value := b }
      | ["O", v] => (unhex v).map fun b => { id := [2, 5, 29, 17], value := b }
      | _ => none
    match (if exts = "none" then some [] else (exts.splitOn ",").mapM parse) with
    | some l =>
      match Role.extractRoleChecked l with
      | .ok r => hex r ++ " spec=" ++ hex (Spec.roleOf l)
      | .error _ => "panic spec=" ++ hex (Spec.roleOf l)
    | none => "bad-op"
  | ["utf8", data] =>
    match unhex data with
    | some d => (if Role.utf8Valid d then "1" else "0") ++ " spec=" ++ (if Spec.validUtf8 d then "1" else "0")
    | none => "bad-op"
  | "life" :: maxc :: fresh :: steps =>
    -- life <maxClients> <freshId> step;step;…  -> state after the steps | enabled flags | steps enabled now
    match maxc.toNat?, fresh.toNat? with
    | some m, some f =>
      let toks := (" ".intercalate steps).splitOn ";" |>.filter (· ≠ "")
      match toks.mapM (fun t => Lifecycle.parseStep ((t.trimAscii.toString.splitOn " ").filter (· ≠ ""))) with
      | some sts =>
        let (s, flags) := sts.foldl (fun (acc : Lifecycle.State × List String) st =>
          (Lifecycle.step acc.1 st, acc.2 ++ [if Lifecycle.enabled acc.1 st then "1" else "0"])) (Lifecycle.init m, [])
        Lifecycle.showState s ++ " | en=" ++ String.join flags ++ " | next=" ++
          ";".intercalate ((Lifecycle.enabledSteps s f).map Lifecycle.Step.show)
      | none => "bad-op"
    | _, _ => "bad-op"
  | ["heapwb", little, observe, arr, off, len, cap] =>
    -- WriteBytes/WriteRawBytes on the heap model: the caller's backing array afterwards and the payload sent
    match unhex arr, off.toNat?, len.toNat?, cap.toNat? with
    | some a, some o, some l, some c =>
      match Heap.writeBytesH [a] { arr := 0, off := o, len := l, cap := c } (little = "1") (observe = "1") with
      | some (h', out) => "arr=" ++ hex (h'.getD 0 []) ++ " out=" ++ hex (Heap.load h' out)
      | none => "panic"
    | _, _, _, _ => "bad-op"
  | ["tlsmatrix", side, ver, cred] =>
    let c? : Option Tls.Cred := match cred with
      | "none" => some .none | "selfSigned" => some .selfSigned | "foreignCA" => some .foreignCA
      | "expired" => some .expired | "notYetValid" => some .notYetValid | "wrongKeyUsage" => some .wrongKeyUsage
      | "wrongHost" => some .wrongHost | "pinnedLeaf" => some .pinnedLeaf | "validChain" => some .validChain
      | _ => none
    match ver.toNat?, c? with
    | some v, some c =>
      let p : Tls.Peer := if v = 0 then .plainText else .tls v c
      if side = "server" then (if Tls.serverHandshakeOk p then "served" else "refused")
      else if side = "client" then (if Tls.clientHandshakeOk p then "served" else "refused")
      else "bad-op"
    | _, _ => "bad-op"
  | ["iotrace", "mbap", t, l, txn, stream] =>
    match t.toNat?, l.toNat?, u16? txn, unhex stream with
    | some t, some l, some x, some s => Io.showTrace (Io.mbapTrace t l x s)
    | _, _, _, _ => "bad-op"
  | ["iotrace", "rtu", t, rate, l, ending, stream] =>
    match t.toNat?, rate.toNat?, l.toNat?, endingOfName ending, unhex stream with
    | some t, some r, some l, some e, some s => Io.showTrace (Io.rtuTrace t r l 0 1 s e)
    | _, _, _, _, _ => "bad-op"
  | "sys" :: kind :: rest =>
    -- closed loop: real-client model against real-server model with the memory handler; then the
    -- abstract register file on the same commands (property oracle)
    match kindOfName kind, ((" ".intercalate rest).splitOn ";").mapM parseCmd with
    | some k, some cmds =>
      let cfg : Client.Cfg := { kind := k, unitId := 1, endian := .big, word := .highFirst }
      let st : Client.TState := { lastTxn := 0, pending := [] }
      let r := System.run System.memHandler cfg st System.Mem.init cmds
      let calls := System.runCalls System.memHandler cfg st System.Mem.init cmds
      let spec := Spec.regfileRun cfg System.Mem.init cmds
      let specCalls := Spec.regfileCalls cfg cmds
      ";".intercalate ((cmds.zip r.1).map (fun (c, x) => showCmdResult c x)) ++ " | calls=" ++
        ";".intercalate (calls.map showHReq) ++ " spec=" ++
        ";".intercalate ((cmds.zip spec.1).map (fun (c, x) => showCmdResult c (some x))) ++ " | calls=" ++
        ";".intercalate (specCalls.map showHReq)
    | _, _ => "bad-op"
  | "multi" :: sched :: conns => multiRun sched conns
  | "reconn" :: kind :: unit :: e :: w :: rest => reconnRun kind unit e w rest
  | "cli" :: e :: w :: u :: args =>
    match u.toNat? with
    | some u => cliRun e w u args
    | none => "bad-op"
  | ["crc", data] =>
    match unhex data with
    | some d => hex (Crc.crc16 d) ++ " ref=" ++ hex (le16 (Crc.refCrc d))
    | none => "bad-op"
  | ["crcstep", s, b] =>
    match s.toNat?, b.toNat? with
    | some s, some b => toString (Crc.step (BitVec.ofNat 16 s) (BitVec.ofNat 8 b)).toNat
    | _, _ => "bad-op"
  | _ => "bad-op"

partial def loop (h : IO.FS.Stream) (out : IO.FS.Stream) : IO Unit := do
  let line ← h.getLine
  if line.isEmpty then return ()
  out.putStrLn (step line)
  out.flush
  loop h out

end Modbus.Driver

def main : IO Unit := do
  let stdin ← IO.getStdin
  let stdout ← IO.getStdout
  Modbus.Driver.loop stdin stdout
