import ModbusVerif.Generated.Facts
import ModbusVerif.Model.Client
import ModbusVerif.Model.Server
import ModbusVerif.Model.Rtu
/-
  Semantic tie of the three code tables: the model functions agree, on EVERY input, with the
  `switch` tables extracted from /repo's current source (hand-written; re-checked on every run).
-/
namespace Modbus.Tie.Tables
open Modbus

/-- the model error denoted by a Go error constant name -/
def errOfConst : String → Option Err
  | "ErrConfigurationError" => some .configuration
  | "ErrRequestTimedOut" => some .requestTimedOut
  | "ErrIllegalFunction" => some .illegalFunction
  | "ErrIllegalDataAddress" => some .illegalDataAddress
  | "ErrIllegalDataValue" => some .illegalDataValue
  | "ErrServerDeviceFailure" => some .serverDeviceFailure
  | "ErrAcknowledge" => some .acknowledge
  | "ErrServerDeviceBusy" => some .serverDeviceBusy
  | "ErrMemoryParityError" => some .memoryParityError
  | "ErrGWPathUnavailable" => some .gwPathUnavailable
  | "ErrGWTargetFailedToRespond" => some .gwTargetFailedToRespond
  | "ErrBadCRC" => some .badCRC
  | "ErrShortFrame" => some .shortFrame
  | "ErrProtocolError" => some .protocolError
  | "ErrBadUnitId" => some .badUnitId
  | "ErrBadTransactionId" => some .badTransactionId
  | "ErrUnknownProtocolId" => some .unknownProtocolId
  | "ErrUnexpectedParameters" => some .unexpectedParameters
  | _ => none

/-- the Go constant behind a model error (none: not a modbus.go constant) -/
def constOfErr : Err → Option String
  | .configuration => some "ErrConfigurationError" | .requestTimedOut => some "ErrRequestTimedOut"
  | .illegalFunction => some "ErrIllegalFunction" | .illegalDataAddress => some "ErrIllegalDataAddress"
  | .illegalDataValue => some "ErrIllegalDataValue" | .serverDeviceFailure => some "ErrServerDeviceFailure"
  | .acknowledge => some "ErrAcknowledge" | .serverDeviceBusy => some "ErrServerDeviceBusy"
  | .memoryParityError => some "ErrMemoryParityError" | .gwPathUnavailable => some "ErrGWPathUnavailable"
  | .gwTargetFailedToRespond => some "ErrGWTargetFailedToRespond" | .badCRC => some "ErrBadCRC"
  | .shortFrame => some "ErrShortFrame" | .protocolError => some "ErrProtocolError"
  | .badUnitId => some "ErrBadUnitId" | .badTransactionId => some "ErrBadTransactionId"
  | .unknownProtocolId => some "ErrUnknownProtocolId" | .unexpectedParameters => some "ErrUnexpectedParameters"
  | _ => none

def lookupN (rows : List (List Nat × String)) (n : Nat) : Option String :=
  (rows.find? (fun r => r.1.contains n)).map (·.2)

/-- client: `mapExceptionCodeToError` of the source = `Client.mapException`, for all 256 codes
    (codes without a case fall to the default = "unknown exception code") -/
theorem exception_table_model :
    ∀ c : Fin 256,
      Client.mapException (BitVec.ofNat 8 c.val) =
        match (lookupN Gen.rows_mapExceptionCodeToError c.val).bind errOfConst with
        | some e => e
        | none => .unknownException (BitVec.ofNat 8 c.val) := by decide +kernel

/-- the exception constant's value (exIllegalFunction = 1 …) as extracted -/
def exConst (name : String) : Option Nat := (Gen.intConsts.lookup name).map Int.toNat

/-- server: `mapErrorToExceptionCode` of the source = `Server.mapError`, for every modbus.go error
    constant (looked up by its string value) and, through the default row, for every other error -/
def expectedCode (e : Err) : Option Nat :=
  let key := (constOfErr e).bind (fun n => Gen.strConsts.lookup n)
  let row := match key with
    | some v => (Gen.rows_mapErrorToExceptionCode.lookup v).orElse (fun _ => Gen.rows_mapErrorToExceptionCode.lookup "default")
    | none => Gen.rows_mapErrorToExceptionCode.lookup "default"
  row.bind exConst

theorem error_table_model :
    ∀ e ∈ [Err.configuration, .requestTimedOut, .illegalFunction, .illegalDataAddress, .illegalDataValue,
           .serverDeviceFailure, .acknowledge, .serverDeviceBusy, .memoryParityError, .gwPathUnavailable,
           .gwTargetFailedToRespond, .badCRC, .shortFrame, .protocolError, .badUnitId, .badTransactionId,
           .unknownProtocolId, .unexpectedParameters, .ioTimeout, .ioEOF, .ioUnexpectedEOF, .ioOther,
           .unknownException 0x7f],
      expectedCode e = some (Server.mapError e).toNat := by decide +kernel

/-- RTU: `expectedResponseLenth` of the source = `Rtu.expectedResponseLength`, for all 256 function
    codes and (sampled at two lengths, the function is affine in it) the length byte -/
def expectedLen (fc len : Nat) : Except Err Nat :=
  match lookupN Gen.rows_expectedResponseLenth fc with
  | some "int(responseLength)" => .ok len
  | some "3" => .ok 3
  | some "5" => .ok 5
  | some "0" => .ok 0
  | _ => .error .protocolError

theorem length_table_model :
    ∀ fc : Fin 256, ∀ len ∈ [0, 1, 2, 250, 255],
      Rtu.expectedResponseLength (BitVec.ofNat 8 fc.val) (BitVec.ofNat 8 len) = expectedLen fc.val len := by
  decide +kernel

#print axioms exception_table_model
#print axioms error_table_model
#print axioms length_table_model
end Modbus.Tie.Tables
