import ModbusVerif.Model.Prelude
/-
  Independent reference layout of the register encodings (documented behaviour):

  * a value of 16·k bits is split into k 16-bit registers;
  * HIGH_WORD_FIRST sends the most significant register first,
    LOW_WORD_FIRST the least significant register first
    (for 64-bit values this reverses the order of all four registers);
  * each register is sent as two bytes: high byte first for BIG_ENDIAN,
    low byte first for LITTLE_ENDIAN.

  Coils: byte j of the packed form has bit i equal to input bit 8*j+i when
  8*j+i < n, else 0.

  Core Lean only, executable. Nothing here refers to `Modbus.Enc`.
-/
namespace Modbus.Spec

/-- the registers of a 16-bit value: itself -/
def regs16 (v : U16) : List U16 := [v]

/-- the two registers of a 32-bit value, most significant first -/
def regs32 (v : U32) : List U16 := [v.extractLsb' 16 16, v.extractLsb' 0 16]

/-- the four registers of a 64-bit value, most significant first -/
def regs64 (v : U64) : List U16 :=
  [v.extractLsb' 48 16, v.extractLsb' 32 16, v.extractLsb' 16 16, v.extractLsb' 0 16]

/-- generic form: the k registers of a 16·k-bit value, most significant first -/
def regsOf (k : Nat) (v : BitVec (16*k)) : List U16 :=
  (List.range k).reverse.map (fun i => v.extractLsb' (16*i) 16)

/-- the two bytes of one register on the wire -/
def regBytes (e : Endian) (r : U16) : Bytes :=
  match e with
  | .big => [hi r, lo r]
  | .little => [lo r, hi r]
  | .invalid => [0, 0]          -- not a documented value; matches Go's "no case" zero result

/-- order the registers (given most significant first) for the wire -/
def orderRegs (w : WordOrder) (rs : List U16) : List U16 :=
  if w = .lowFirst then rs.reverse else rs

def layout16 (e : Endian) (v : U16) : Bytes := (regs16 v).flatMap (regBytes e)

def layout32 (e : Endian) (w : WordOrder) (v : U32) : Bytes :=
  (orderRegs w (regs32 v)).flatMap (regBytes e)

def layout64 (e : Endian) (w : WordOrder) (v : U64) : Bytes :=
  (orderRegs w (regs64 v)).flatMap (regBytes e)

/-- bit `p` of the coil image of `bs` : input bit p when there is one, else zero padding -/
def coilBit (bs : List Bool) (p : Nat) : Bool := if p < bs.length then bs.getD p false else false

/-- byte `j` of the coil image: bit i is `coilBit bs (8*j+i)` -/
def coilByte (bs : List Bool) (j : Nat) : Byte :=
  BitVec.ofBoolListLE
    [coilBit bs (8*j), coilBit bs (8*j+1), coilBit bs (8*j+2), coilBit bs (8*j+3),
     coilBit bs (8*j+4), coilBit bs (8*j+5), coilBit bs (8*j+6), coilBit bs (8*j+7)]

/-- number of bytes needed for n coils -/
def coilLen (n : Nat) : Nat := (n + 7) / 8

/-- the packed coil image -/
def packBools (bs : List Bool) : Bytes := (List.range (coilLen bs.length)).map (coilByte bs)

end Modbus.Spec
