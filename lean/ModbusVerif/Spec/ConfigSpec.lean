import ModbusVerif.Model.Config
/-
  The DOCUMENTED configuration table (README.md "The client supports the following modes",
  "Using the client", "The server supports"; doc comments of ClientConfiguration /
  ServerConfiguration) written down as data, independently of the code paths in Model/Config.
-/
namespace Modbus.Spec.Config
open Modbus.Client (Kind)
open Modbus.Config (Socket Framing)

/-- one documented client mode -/
structure Mode where
  scheme  : String
  kind    : Kind
  socket  : Socket
  framing : Framing
  deriving Repr, DecidableEq

/-- README: the six client modes and their URL schemes -/
def clientModes : List Mode :=
  [ { scheme := "rtu",        kind := .rtu,        socket := .serial, framing := .rtu  }   -- modbus RTU (serial)
  , { scheme := "rtuovertcp", kind := .rtuOverTcp, socket := .tcp,    framing := .rtu  }   -- RTU tunneled in TCP
  , { scheme := "rtuoverudp", kind := .rtuOverUdp, socket := .udp,    framing := .rtu  }   -- RTU tunneled in UDP
  , { scheme := "tcp",        kind := .tcp,        socket := .tcp,    framing := .mbap }   -- modbus TCP (MBAP)
  , { scheme := "tcp+tls",    kind := .tcpTls,     socket := .tls,    framing := .mbap }   -- MBAPS
  , { scheme := "udp",        kind := .udp,        socket := .udp,    framing := .mbap } ] -- MBAP over UDP

/-- the six scheme names -/
def clientSchemes : List String := ["rtu", "rtuovertcp", "rtuoverudp", "tcp", "tcp+tls", "udp"]

/-- the table entry of a scheme -/
def modeOf (scheme : String) : Option Mode := clientModes.find? (·.scheme = scheme)

/-- schemes whose `Speed` matters (serial line speed, used for the RTU timing) -/
def rtuSchemes : List String := ["rtu", "rtuovertcp", "rtuoverudp"]

/-- server: modbus TCP and modbus TCP over TLS only -/
def serverSchemes : List String := ["tcp", "tcp+tls"]

/-- default request timeout of a client scheme in ns: README 300 ms (rtu) / 1 s (others) -/
def defaultTimeoutNs (scheme : String) : Nat :=
  if scheme = "rtu" then 300000000 else 1000000000

/-- serial defaults: README "Speed: 19200 // default", "DataBits: 8 // default",
    "Parity: PARITY_NONE // default", "StopBits: 2 // default if no parity";
    client.go comment: 1 stop bit when a parity is used -/
def defaultSpeed : Nat := 19200
def defaultDataBits : Nat := 8
def defaultParity : Nat := 0
def defaultStopBits (parity : Nat) : Nat := if parity = 0 then 2 else 1

/-- server defaults: idle timeout 120 s, 10 concurrent clients -/
def serverDefaultTimeoutNs : Nat := 120000000000
def serverDefaultMaxClients : Nat := 10

/-- parity constants and their letter for the serial port -/
def parityLetters : List (Nat × String) := [(0, "N"), (1, "E"), (2, "O")]

end Modbus.Spec.Config
