import ModbusVerif.Model.Server
import ModbusVerif.Spec.Layout
/-
  Independent specification of what a Modbus/TCP server must do with one request (property C03).

  Written from the Modbus application protocol (V1.1b3 §6.1–6.12, §7) and the MBAP header
  definition, not from `Modbus.Server.handle`. From the model only the *types* of the
  observable interface are used: `Pdu`, `Server.HReq` (the request object handed to the user
  handler), `Server.Handler` and `Server.Event`. No function of the model is referred to.

  Core Lean only, executable.

  Request PDU = function code + payload. All 16-bit fields are big-endian.

    fc 01/02/03/04  payload = addr(2) qty(2)                      qty in 1..2000 (01,02) / 1..125 (03,04)
    fc 05           payload = addr(2) value(2)                    value ∈ {FF00, 0000}
    fc 06           payload = addr(2) value(2)
    fc 0F           payload = addr(2) qty(2) bc(1) data(bc)       qty in 1..1968 (0x7B0), bc = ⌈qty/8⌉
    fc 10           payload = addr(2) qty(2) bc(1) data(bc)       qty in 1..123,  bc = 2·qty

  PRECEDENCE of the checks (as observed in the implementation, and made explicit here):
    1. the payload must have the shape of the function (exactly 4 bytes for fc 1–6; for fc 0F/10
       the five header bytes and at least one data byte — a positive quantity always needs one);
       otherwise the request is `malformed`;
    2. the quantity must be in 1..limit, otherwise `malformed`;
    3. the address range addr .. addr+qty-1 must end at or below 0xFFFF, otherwise `addrRange`
       (illegal-data-address exception);
    4. ONLY THEN, for fc 0F/10, the byte count byte and the number of data bytes are compared with
       the quantity, a mismatch being `malformed`.
  So a write-multiple request with a good quantity, a bad range AND a bad byte count is answered
  with illegal-data-address, not rejected as malformed.
-/
namespace Modbus.Spec
open Modbus
open Modbus.Server (HReq Handler Event)

/-! ### fields -/

/-- big-endian 16-bit field -/
def word (a b : Byte) : U16 := BitVec.ofNat 16 (a.toNat * 256 + b.toNat)

/-- fc 0F data: coil p (p < qty) is bit p%8 of data byte p/8 — least significant bit first.
    (This is `Enc.decodeBools` when the data is long enough; `ServerLemmas.unpackBools_eq`.) -/
def unpackBools (qty : Nat) (data : Bytes) : List Bool :=
  (List.range qty).map (fun p => (data.getD (p / 8) 0).getLsbD (p % 8))

/-- fc 10 data: consecutive big-endian registers -/
def unpackRegs : Bytes → List U16
  | a :: b :: rest => word a b :: unpackRegs rest
  | _ => []

/-! ### classification of a request PDU -/

inductive ReqClass
  | valid (r : HReq)   -- well-formed and in range: `r` is what the handler must be given
  | unsupported        -- function code not implemented: exception 01, no handler call
  | addrRange          -- fields fine, quantity fine, but addr+qty-1 > 0xFFFF: exception 02, no call
  | malformed          -- anything else: never reaches a handler
  deriving Repr, DecidableEq

/-- largest quantity a request with this function code may carry -/
def qtyLimit (fc : Byte) : Nat :=
  if fc = 0x01 ∨ fc = 0x02 then 2000
  else if fc = 0x03 ∨ fc = 0x04 then 125
  else if fc = 0x0F then 1968
  else if fc = 0x10 then 123
  else 1

/-- checks 2 and 3 of the precedence list; `k` is the verdict of whatever comes after -/
def checkQtyRange (fc : Byte) (addr qty : U16) (k : ReqClass) : ReqClass :=
  if qty.toNat = 0 ∨ qty.toNat > qtyLimit fc then .malformed
  else if addr.toNat + qty.toNat - 1 > 0xFFFF then .addrRange
  else k

def classify (unit fc : Byte) (payload : Bytes) : ReqClass :=
  if fc = 0x01 ∨ fc = 0x02 ∨ fc = 0x03 ∨ fc = 0x04 then
    match payload with
    | [a1, a0, q1, q0] =>
      let addr := word a1 a0
      let qty := word q1 q0
      checkQtyRange fc addr qty
        (.valid (if fc = 0x01 then .coils unit addr qty false []
                 else if fc = 0x02 then .discrete unit addr qty
                 else if fc = 0x03 then .holding unit addr qty false []
                 else .input unit addr qty))
    | _ => .malformed
  else if fc = 0x05 then
    match payload with
    | [a1, a0, v1, v0] =>
      if (v1 = 0xFF ∨ v1 = 0x00) ∧ v0 = 0x00 then
        .valid (.coils unit (word a1 a0) 1 true [v1 == 0xFF])
      else .malformed
    | _ => .malformed
  else if fc = 0x06 then
    match payload with
    | [a1, a0, v1, v0] => .valid (.holding unit (word a1 a0) 1 true [word v1 v0])
    | _ => .malformed
  else if fc = 0x0F then
    match payload with
    | a1 :: a0 :: q1 :: q0 :: bc :: d :: ds =>
      let addr := word a1 a0
      let qty := word q1 q0
      checkQtyRange fc addr qty
        (if bc.toNat = coilLen qty.toNat ∧ (d :: ds).length = coilLen qty.toNat then
           .valid (.coils unit addr qty true (unpackBools qty.toNat (d :: ds)))
         else .malformed)
    | _ => .malformed
  else if fc = 0x10 then
    match payload with
    | a1 :: a0 :: q1 :: q0 :: bc :: d :: ds =>
      let addr := word a1 a0
      let qty := word q1 q0
      checkQtyRange fc addr qty
        (if bc.toNat = 2 * qty.toNat ∧ (d :: ds).length = 2 * qty.toNat then
           .valid (.holding unit addr qty true (unpackRegs (d :: ds)))
         else .malformed)
    | _ => .malformed
  else .unsupported

/-! ### the handler and its result -/

/-- what a handler call produced, independent of the table it was made on -/
inductive HResult
  | bits (l : List Bool)
  | regs (l : List U16)
  | error (e : Err)
  deriving Repr, DecidableEq

/-- the matching handler: coils → `coils`, discrete inputs → `discrete`, … -/
def invoke {σ : Type} (h : Handler σ) (st : σ) (r : HReq) : σ × HResult :=
  match r with
  | .coils .. =>
    let x := h.coils st r
    (x.1, match x.2 with | .ok l => .bits l | .error e => .error e)
  | .discrete .. =>
    let x := h.discrete st r
    (x.1, match x.2 with | .ok l => .bits l | .error e => .error e)
  | .holding .. =>
    let x := h.holding st r
    (x.1, match x.2 with | .ok l => .regs l | .error e => .error e)
  | .input .. =>
    let x := h.input st r
    (x.1, match x.2 with | .ok l => .regs l | .error e => .error e)

def isWrite : HReq → Bool
  | .coils _ _ _ w _ => w
  | .holding _ _ _ w _ => w
  | _ => false

def qtyOf : HReq → U16
  | .coils _ _ q _ _ => q
  | .discrete _ _ q => q
  | .holding _ _ q _ _ => q
  | .input _ _ q => q

/-- exception codes of the documented handler errors (§7); anything else is a
    server device failure -/
def exceptionCode : Err → Byte
  | .illegalFunction => 1
  | .illegalDataAddress => 2
  | .illegalDataValue => 3
  | .serverDeviceFailure => 4
  | .acknowledge => 5
  | .serverDeviceBusy => 6
  | .memoryParityError => 8
  | .gwPathUnavailable => 10
  | .gwTargetFailedToRespond => 11
  | _ => 4

/-- exception response PDU: function code with the top bit set, one byte exception code -/
def excPdu (req : Pdu) (code : Byte) : Pdu :=
  { unit := req.unit, fc := req.fc ||| 0x80, payload := [code] }

/-- positive response PDU for a valid request `r` and a handler result.
    * writes (05, 06, 0F, 10): echo of the first four request bytes (addr+value / addr+qty);
    * reads: byte count, then the packed coil image / the big-endian registers, provided the
      handler delivered exactly `qty` items; a result of any other size is a server device failure;
    * a handler error `e` gives the exception `exceptionCode e`. -/
def replyPdu (req : Pdu) (r : HReq) : HResult → Pdu
  | .error e => excPdu req (exceptionCode e)
  | .bits l =>
    if isWrite r then { unit := req.unit, fc := req.fc, payload := req.payload.take 4 }
    else if l.length = (qtyOf r).toNat then
      { unit := req.unit, fc := req.fc, payload := byteOfNat (coilLen l.length) :: packBools l }
    else excPdu req 4
  | .regs l =>
    if isWrite r then { unit := req.unit, fc := req.fc, payload := req.payload.take 4 }
    else if l.length = (qtyOf r).toNat then
      { unit := req.unit, fc := req.fc,
        payload := byteOfNat (2 * l.length) :: l.flatMap (regBytes .big) }
    else excPdu req 4

/-- MBAP frame: transaction id, protocol id 0, length = unit + fc + payload, unit, PDU -/
def mbapFrame (txn : U16) (p : Pdu) : Bytes :=
  let n := 2 + p.payload.length
  [byteOfNat (txn.toNat / 256), byteOfNat (txn.toNat % 256), 0, 0,
   byteOfNat (n / 256), byteOfNat (n % 256), p.unit, p.fc] ++ p.payload

/-! ### what one complete request frame must produce -/

/-- the events one complete frame (transaction id `txn`, PDU `req`) must produce, and the
    handler state afterwards -/
def serverEvents {σ : Type} (h : Handler σ) (st : σ) (txn : U16) (req : Pdu) : σ × List Event :=
  match classify req.unit req.fc req.payload with
  | .valid r =>
    let x := invoke h st r
    (x.1, [.call r, .respond (mbapFrame txn (replyPdu req r x.2))])
  | .unsupported => (st, [.respond (mbapFrame txn (excPdu req 1))])
  | .addrRange => (st, [.respond (mbapFrame txn (excPdu req 2))])
  | .malformed => (st, [.closed])

/-- the session goes on to the next frame iff the request was answered -/
def staysOpen (req : Pdu) : Bool :=
  match classify req.unit req.fc req.payload with
  | .malformed => false
  | _ => true

/-- a pipelined sequence of complete frames, strictly in order, each exactly once;
    `tail` is what happens on the rest of the stream (from the state reached) -/
def session {σ : Type} (h : Handler σ) (st : σ) (frames : List (U16 × Pdu))
    (tail : σ → σ × List Event) : σ × List Event :=
  match frames with
  | [] => tail st
  | (txn, req) :: fs =>
    let x := serverEvents h st txn req
    if staysOpen req then
      let y := session h x.1 fs tail
      (y.1, x.2 ++ y.2)
    else x

/-- the byte stream carrying these frames -/
def wire (frames : List (U16 × Pdu)) : Bytes := (frames.map (fun f => mbapFrame f.1 f.2)).flatten

/-- the handler never answers with the transport-level error value `ErrProtocolError`
    (finding F8: the implementation cannot tell this value from its own validation failure) -/
def NoProtoErr {σ : Type} (h : Handler σ) : Prop :=
  ∀ st r, (invoke h st r).2 ≠ .error .protocolError

/-- the arguments a handler may ever see -/
def ArgsInRange : HReq → Prop
  | .coils _ addr qty false args =>
    1 ≤ qty.toNat ∧ qty.toNat ≤ 2000 ∧ addr.toNat + qty.toNat - 1 ≤ 0xFFFF ∧ args = []
  | .coils _ addr qty true args =>
    1 ≤ qty.toNat ∧ qty.toNat ≤ 1968 ∧ addr.toNat + qty.toNat - 1 ≤ 0xFFFF ∧ args.length = qty.toNat
  | .discrete _ addr qty =>
    1 ≤ qty.toNat ∧ qty.toNat ≤ 2000 ∧ addr.toNat + qty.toNat - 1 ≤ 0xFFFF
  | .holding _ addr qty false args =>
    1 ≤ qty.toNat ∧ qty.toNat ≤ 125 ∧ addr.toNat + qty.toNat - 1 ≤ 0xFFFF ∧ args = []
  | .holding _ addr qty true args =>
    1 ≤ qty.toNat ∧ qty.toNat ≤ 123 ∧ addr.toNat + qty.toNat - 1 ≤ 0xFFFF ∧ args.length = qty.toNat
  | .input _ addr qty =>
    1 ≤ qty.toNat ∧ qty.toNat ≤ 125 ∧ addr.toNat + qty.toNat - 1 ≤ 0xFFFF

end Modbus.Spec
