import ModbusVerif.Model.Role
/-
  Independent specification for property C15 (client role from the certificate).

  Written from the standards, not from the Go code:

  * ITU-T X.690 §8.1.3 / §10.1 (DER): definite length, short form for lengths 0..127, otherwise
    long form `0x80 + k` followed by the k-octet big-endian length with no leading zero octet
    (the minimal number of octets).
  * X.690 §8.23: UTF8String = universal class, primitive, tag number 12: identifier octet 0x0c.
  * The Unicode Standard, ch. 3, Table 3-7 "Well-Formed UTF-8 Byte Sequences"; a byte string is
    valid UTF-8 iff it is a concatenation of well-formed byte sequences (D92).
  * MODBUS/TCP Security (MBAPS) R-21/R-22/R-65: the role is the UTF8String value of the single
    extension with OID 1.3.6.1.4.1.50316.802.1.

  From the model only the *type* `Role.Ext` (extension = OID + value bytes) is used; none of its
  functions, not even its OID constant.

  Core Lean only, executable.
-/
namespace Modbus.Spec

open Modbus.Role (Ext)

/-! ## DER length and UTF8String -/

/-- minimal big-endian base-256 digits of `n` (`[]` for 0); the first argument is fuel,
    `n` itself is always enough -/
def beDigitsFuel : Nat → Nat → Bytes
  | 0, _ => []
  | f+1, n => if n = 0 then [] else beDigitsFuel f (n / 256) ++ [byteOfNat (n % 256)]

def beDigits (n : Nat) : Bytes := beDigitsFuel n n

/-- DER definite length octets of `n` -/
def derLength (n : Nat) : Bytes :=
  if n < 0x80 then [byteOfNat n]
  else byteOfNat (0x80 + (beDigits n).length) :: beDigits n

/-- DER encoding of the UTF8String with content octets `s` -/
def derUTF8 (s : Bytes) : Bytes := 0x0c :: (derLength s.length ++ s)

/-! ## well-formed UTF-8 (Unicode Table 3-7) -/

/-- `lo ≤ b ≤ hi` -/
def inRange (b lo hi : Byte) : Bool := decide (lo ≤ b) && decide (b ≤ hi)

/-- row 1: U+0000..U+007F -/
def wf1 (b0 : Byte) : Bool := inRange b0 0x00 0x7F

/-- row 2: U+0080..U+07FF -/
def wf2 (b0 b1 : Byte) : Bool := inRange b0 0xC2 0xDF && inRange b1 0x80 0xBF

/-- rows 3-6: U+0800..U+0FFF, U+1000..U+CFFF, U+D000..U+D7FF, U+E000..U+FFFF -/
def wf3 (b0 b1 b2 : Byte) : Bool :=
     (b0 == 0xE0          && inRange b1 0xA0 0xBF && inRange b2 0x80 0xBF)
  || (inRange b0 0xE1 0xEC && inRange b1 0x80 0xBF && inRange b2 0x80 0xBF)
  || (b0 == 0xED          && inRange b1 0x80 0x9F && inRange b2 0x80 0xBF)
  || (inRange b0 0xEE 0xEF && inRange b1 0x80 0xBF && inRange b2 0x80 0xBF)

/-- rows 7-9: U+10000..U+3FFFF, U+40000..U+FFFFF, U+100000..U+10FFFF -/
def wf4 (b0 b1 b2 b3 : Byte) : Bool :=
     (b0 == 0xF0          && inRange b1 0x90 0xBF && inRange b2 0x80 0xBF && inRange b3 0x80 0xBF)
  || (inRange b0 0xF1 0xF3 && inRange b1 0x80 0xBF && inRange b2 0x80 0xBF && inRange b3 0x80 0xBF)
  || (b0 == 0xF4          && inRange b1 0x80 0x8F && inRange b2 0x80 0xBF && inRange b3 0x80 0xBF)

/-- `bs` is exactly one well-formed UTF-8 byte sequence (one row of Table 3-7) -/
def wellFormedSeq : Bytes → Bool
  | [b0] => wf1 b0
  | [b0, b1] => wf2 b0 b1
  | [b0, b1, b2] => wf3 b0 b1 b2
  | [b0, b1, b2, b3] => wf4 b0 b1 b2 b3
  | _ => false

/-- `bs` is a concatenation of well-formed UTF-8 byte sequences: some well-formed sequence of
    1, 2, 3 or 4 bytes is a prefix and the remainder is again valid -/
def validUtf8 : Bytes → Bool
  | [] => true
  | b0 :: r0 =>
    (wf1 b0 && validUtf8 r0) ||
    (match r0 with
     | [] => false
     | b1 :: r1 =>
       (wf2 b0 b1 && validUtf8 r1) ||
       (match r1 with
        | [] => false
        | b2 :: r2 =>
          (wf3 b0 b1 b2 && validUtf8 r2) ||
          (match r2 with
           | [] => false
           | b3 :: r3 => wf4 b0 b1 b2 b3 && validUtf8 r3)))

/-- the same as a predicate: the least set containing `[]` and closed under prefixing a
    well-formed byte sequence (`RoleLemmas.validUtf8_iff_wellFormed`) -/
inductive WellFormedUtf8 : Bytes → Prop
  | nil : WellFormedUtf8 []
  | seq (q r : Bytes) : wellFormedSeq q = true → WellFormedUtf8 r → WellFormedUtf8 (q ++ r)

/-! ## the role of a certificate -/

/-- the Modbus Role OID 1.3.6.1.4.1.50316.802.1 (MBAPS R-21) -/
def roleOID : List Nat := [1, 3, 6, 1, 4, 1, 50316, 802, 1]

/-- the role extensions of a certificate, in order -/
def roleExts (exts : List Ext) : List Ext := exts.filter (fun e => e.id == roleOID)

/-- Largest content length + 1 the implementation supports: Go's DER parser refuses lengths
    ≥ 2^31 ("length too large"). Certificates cannot get anywhere near (a TLS handshake message
    is < 2^24 bytes), so this is not a restriction on real inputs, but it is needed for the
    "empty otherwise" half to be true as stated. -/
def maxRoleLen : Nat := 2^31

/-- `v` is a well-formed UTF8String extension value carrying the role `s` -/
def IsRoleValue (v s : Bytes) : Prop :=
  v = derUTF8 s ∧ validUtf8 s = true ∧ s.length < maxRoleLen

/-- the certificate carries exactly one role extension and that one is well formed, with role `s` -/
def HasRole (exts : List Ext) (s : Bytes) : Prop :=
  ∃ e, roleExts exts = [e] ∧ IsRoleValue e.value s

/-- decode a role extension value by search: the content is a suffix of `v` after a header of
    2..6 octets; take the one whose DER encoding is `v` -/
def decodeRole (v : Bytes) : Option Bytes :=
  (List.range 7).findSome? fun k =>
    let s := v.drop k
    if v == derUTF8 s && validUtf8 s && decide (s.length < maxRoleLen) then some s else none

/-- the role handlers must see: the string of the single well-formed role extension, else "" -/
def roleOf (exts : List Ext) : Bytes :=
  match roleExts exts with
  | [e] => (decodeRole e.value).getD []
  | _ => []

end Modbus.Spec
