import ModbusVerif.Model.Client
import ModbusVerif.Spec.Layout
/-
  Independent specification of the request a Modbus client has to put on the wire
  (MODBUS Application Protocol V1.1b3 §6.1–6.6, 6.11, 6.12; MODBUS Messaging on TCP/IP §3.1;
  MODBUS over Serial Line §2.5) for each of the 30 public read/write operations of the library,
  together with the protocol limits that make a call locally illegal.

  Only the *types* `Client.Op`, `Client.Cfg`, `Client.Kind`, `Client.TState` are taken from the
  model; none of its functions is used. The bit-serial `Crc.refCrc` is the CRC reference.

  Core Lean only, executable. `request` evaluates the limits first (one `List.length`, which is
  tail recursive) and builds data only for accepted calls, i.e. for at most 1968 coils /
  123 registers, so it is cheap on arbitrarily long argument lists.
-/
namespace Modbus.Spec
open Modbus.Client (Op Cfg Kind TState)

/-- ⌈n/2⌉: registers needed for n bytes -/
def regsForBytes (n : Nat) : Nat := (n + 1) / 2

/-- the mathematical number of protocol items (coils or 16-bit registers) addressed -/
def items : Op → Nat
  | .readCoils _ q | .readDiscreteInputs _ q => q.toNat
  | .readCoil _ | .readDiscreteInput _ => 1
  | .readRegisters _ q _ => q.toNat
  | .readRegister _ _ => 1
  | .readUint32s _ q _ | .readFloat32s _ q _ => 2 * q.toNat
  | .readUint32 _ _ | .readFloat32 _ _ => 2
  | .readUint64s _ q _ | .readFloat64s _ q _ => 4 * q.toNat
  | .readUint64 _ _ | .readFloat64 _ _ => 4
  | .readBytes _ q _ | .readRawBytes _ q _ => regsForBytes q.toNat
  | .writeCoil _ _ => 1
  | .writeCoils _ vs => vs.length
  | .writeRegister _ _ => 1
  | .writeRegisters _ vs => vs.length
  | .writeUint32s _ vs | .writeFloat32s _ vs => 2 * vs.length
  | .writeUint32 _ _ | .writeFloat32 _ _ => 2
  | .writeUint64s _ vs | .writeFloat64s _ vs => 4 * vs.length
  | .writeUint64 _ _ | .writeFloat64 _ _ => 4
  | .writeBytes _ bs | .writeRawBytes _ bs => regsForBytes bs.length

/-- the Modbus function a public operation is carried by -/
inductive Fn
  | readCoils            -- 0x01
  | readDiscreteInputs   -- 0x02
  | readRegisters        -- 0x03 holding / 0x04 input
  | writeSingleCoil      -- 0x05
  | writeSingleRegister  -- 0x06
  | writeMultipleCoils   -- 0x0F
  | writeMultipleRegisters -- 0x10
  deriving DecidableEq, Repr

def fn : Op → Fn
  | .readCoils .. | .readCoil .. => .readCoils
  | .readDiscreteInputs .. | .readDiscreteInput .. => .readDiscreteInputs
  | .readRegisters .. | .readRegister .. | .readUint32s .. | .readUint32 ..
  | .readFloat32s .. | .readFloat32 .. | .readUint64s .. | .readUint64 ..
  | .readFloat64s .. | .readFloat64 .. | .readBytes .. | .readRawBytes .. => .readRegisters
  | .writeCoil .. => .writeSingleCoil
  | .writeCoils .. => .writeMultipleCoils
  | .writeRegister .. => .writeSingleRegister
  | .writeRegisters .. | .writeUint32s .. | .writeUint32 .. | .writeFloat32s .. | .writeFloat32 ..
  | .writeUint64s .. | .writeUint64 .. | .writeFloat64s .. | .writeFloat64 ..
  | .writeBytes .. | .writeRawBytes .. => .writeMultipleRegisters

/-- largest quantity one request of that function may carry (PDU ≤ 253 bytes) -/
def Fn.limit : Fn → Nat
  | .readCoils | .readDiscreteInputs => 2000
  | .readRegisters => 125
  | .writeSingleCoil | .writeSingleRegister => 1
  | .writeMultipleCoils => 1968
  | .writeMultipleRegisters => 123

def limit (op : Op) : Nat := (fn op).limit

/-- the register-type argument of the register reads (0 = holding, 1 = input) -/
def regType? : Op → Option Nat
  | .readRegisters _ _ rt | .readRegister _ rt | .readUint32s _ _ rt | .readUint32 _ rt
  | .readFloat32s _ _ rt | .readFloat32 _ rt | .readUint64s _ _ rt | .readUint64 _ rt
  | .readFloat64s _ _ rt | .readFloat64 _ rt | .readBytes _ _ rt | .readRawBytes _ _ rt => some rt
  | _ => none

def regTypeOk (op : Op) : Bool :=
  match regType? op with
  | some rt => rt == 0 || rt == 1
  | none => true

/-- starting address -/
def addr : Op → U16
  | .readCoils a _ | .readCoil a | .readDiscreteInputs a _ | .readDiscreteInput a
  | .readRegisters a _ _ | .readRegister a _ | .readUint32s a _ _ | .readUint32 a _
  | .readFloat32s a _ _ | .readFloat32 a _ | .readUint64s a _ _ | .readUint64 a _
  | .readFloat64s a _ _ | .readFloat64 a _ | .readBytes a _ _ | .readRawBytes a _ _
  | .writeCoil a _ | .writeCoils a _ | .writeRegister a _ | .writeRegisters a _
  | .writeUint32s a _ | .writeUint32 a _ | .writeFloat32s a _ | .writeFloat32 a _
  | .writeUint64s a _ | .writeUint64 a _ | .writeFloat64s a _ | .writeFloat64 a _
  | .writeBytes a _ | .writeRawBytes a _ => a

/-- the arguments break the protocol limits (all arithmetic in unbounded `Nat`) -/
def breaksLimits (op : Op) : Bool :=
  items op == 0
    || decide (items op > limit op)
    || decide ((addr op).toNat + items op - 1 > 0xFFFF)
    || !regTypeOk op

/-- function code byte -/
def functionCode (op : Op) : Byte :=
  match fn op with
  | .readCoils => 0x01
  | .readDiscreteInputs => 0x02
  | .readRegisters => if regType? op = some 1 then 0x04 else 0x03
  | .writeSingleCoil => 0x05
  | .writeSingleRegister => 0x06
  | .writeMultipleCoils => 0x0F
  | .writeMultipleRegisters => 0x10

/-- a byte string as registers of two bytes each, in order; an odd last byte is completed
    with 0x00 -/
def bytePairs : Bytes → List (Byte × Byte)
  | [] => []
  | [a] => [(a, 0x00)]
  | a :: b :: rest => (a, b) :: bytePairs rest

/-- the data part of the request (empty for reads) -/
def data (cfg : Cfg) : Op → Bytes
  | .writeCoil _ v => if v then [0xFF, 0x00] else [0x00, 0x00]
  | .writeCoils _ vs => packBools vs
  | .writeRegister _ v => layout16 cfg.endian v
  | .writeRegisters _ vs => vs.flatMap (layout16 cfg.endian)
  | .writeUint32s _ vs | .writeFloat32s _ vs => vs.flatMap (layout32 cfg.endian cfg.word)
  | .writeUint32 _ v | .writeFloat32 _ v => layout32 cfg.endian cfg.word v
  | .writeUint64s _ vs | .writeFloat64s _ vs => vs.flatMap (layout64 cfg.endian cfg.word)
  | .writeUint64 _ v | .writeFloat64 _ v => layout64 cfg.endian cfg.word v
  | .writeBytes _ bs =>
    (bytePairs bs).flatMap (fun p => if cfg.endian = .little then [p.2, p.1] else [p.1, p.2])
  | .writeRawBytes _ bs => (bytePairs bs).flatMap (fun p => [p.1, p.2])
  | _ => []

/-- function code and PDU payload -/
def pdu (cfg : Cfg) (op : Op) : Byte × Bytes :=
  let a := be16 (addr op)
  let n := be16 (u16OfNat (items op))
  let d := data cfg op
  (functionCode op,
    match fn op with
    | .readCoils | .readDiscreteInputs | .readRegisters => a ++ n
    | .writeSingleCoil | .writeSingleRegister => a ++ d
    | .writeMultipleCoils | .writeMultipleRegisters => a ++ n ++ [byteOfNat d.length] ++ d)

/-- MBAP header (transaction id, protocol id 0, length of what follows) in front of unit id and
    PDU -/
def wrapMbap (unit : Byte) (txn : U16) (fc : Byte) (payload : Bytes) : Bytes :=
  be16 txn ++ [0x00, 0x00] ++ be16 (u16OfNat (2 + payload.length)) ++ [unit, fc] ++ payload

/-- RTU ADU: unit id, PDU, CRC-16/MODBUS of all preceding bytes, low byte first -/
def wrapRtu (unit : Byte) (fc : Byte) (payload : Bytes) : Bytes :=
  let adu := [unit, fc] ++ payload
  let c := Crc.refCrc adu
  adu ++ [lo c, hi c]

/-- the frame of the selected transport; `lastTxn` is the transaction id of the previous
    request (MBAP ids count up by one per request) -/
def wrap (kind : Kind) (unit : Byte) (lastTxn : U16) (fc : Byte) (payload : Bytes) : Bytes :=
  match kind with
  | .tcp | .tcpTls | .udp => wrapMbap unit (lastTxn + 1) fc payload
  | .rtu | .rtuOverTcp | .rtuOverUdp => wrapRtu unit fc payload

/-- what a call has to do: refuse locally, or transmit exactly these bytes -/
def request (cfg : Cfg) (st : TState) (op : Op) : Except Err Bytes :=
  if breaksLimits op then .error .unexpectedParameters
  else
    let p := pdu cfg op
    .ok (wrap cfg.kind cfg.unitId st.lastTxn p.1 p.2)

end Modbus.Spec
