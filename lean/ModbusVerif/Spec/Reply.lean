import ModbusVerif.Spec.Request
/-
  Independent specification of "a well-formed reply to this request" for the 30 public
  read/write operations of the client, and of the values the caller has to receive from it
  (MODBUS Application Protocol V1.1b3 §6.1–6.6, 6.11, 6.12 response PDUs; §7 exception
  responses).

  From the model only the *types* `Client.Op`, `Client.Cfg`, `Client.Val`, `Pdu` are used; none
  of its functions. From `Spec/Request.lean` the request parameters `functionCode`, `addr`,
  `items`, `fn` are reused; from `Spec/Layout.lean` `layout16` and `coilLen`.

  Decoding of register data is defined *directly by bit assembly* (registers from byte pairs,
  32/64-bit values from register pairs/quadruples), not through the model's `Enc` functions;
  `Lemmas/ClientRespLemmas.lean` proves that it inverts `Spec.layout16/32/64`.

  Core Lean only, executable.
-/
namespace Modbus.Spec
open Modbus.Client (Op Cfg Val)

/-! ### parameters of the request a reply answers -/

/-- function code of the request -/
def reqFc (op : Op) : Byte := functionCode op
/-- starting address of the request -/
def reqAddr (op : Op) : U16 := addr op
/-- number of coils / 16-bit registers the request addresses -/
def reqItems (op : Op) : Nat := items op

/-- number of values the caller asked for (coils, registers, 32/64-bit values, or bytes);
    writes return no value -/
def requestedCount : Op → Nat
  | .readCoils _ q | .readDiscreteInputs _ q => q.toNat
  | .readRegisters _ q _ | .readUint32s _ q _ | .readFloat32s _ q _
  | .readUint64s _ q _ | .readFloat64s _ q _ => q.toNat
  | .readBytes _ q _ | .readRawBytes _ q _ => q.toNat
  | .readCoil _ | .readDiscreteInput _ | .readRegister _ _ | .readUint32 _ _ | .readFloat32 _ _
  | .readUint64 _ _ | .readFloat64 _ _ => 1
  | _ => 0

/-- number of values in a result -/
def valCount : Val → Nat
  | .bools l => l.length
  | .u16s l => l.length
  | .u32s l => l.length
  | .u64s l => l.length
  | .bytes b => b.length
  | .unit => 0

/-! ### positive replies -/

/-- payload of a read reply: one byte-count byte N, followed by exactly N data bytes -/
def ByteCounted (n : Nat) (pl : Bytes) : Prop :=
  pl = [byteOfNat n] ++ pl.drop 1 ∧ (pl.drop 1).length = n

instance (n : Nat) (pl : Bytes) : Decidable (ByteCounted n pl) := by
  unfold ByteCounted; infer_instance

/-- the data bytes of a read reply (everything after the byte count) -/
def replyData (res : Pdu) : Bytes := res.payload.drop 1

/-- the value field echoed by the single writes: 0xFF00 / 0x0000 for a coil, the register's
    two bytes in the configured byte order for a register -/
def echoValue (cfg : Cfg) : Op → Bytes
  | .writeCoil _ v => if v then [0xFF, 0x00] else [0x00, 0x00]
  | .writeRegister _ v => layout16 cfg.endian v
  | _ => []

/-- shape of the reply payload:
    bit reads       N = ⌈n/8⌉, N data bytes;
    register reads  N = 2n, N data bytes;
    fc 5 / 6        echo of address and value;
    fc 15 / 16      echo of address and quantity. -/
def PayloadOk (cfg : Cfg) (op : Op) (pl : Bytes) : Prop :=
  match fn op with
  | .readCoils | .readDiscreteInputs => ByteCounted (coilLen (reqItems op)) pl
  | .readRegisters => ByteCounted (2 * reqItems op) pl
  | .writeSingleCoil | .writeSingleRegister => pl = be16 (reqAddr op) ++ echoValue cfg op
  | .writeMultipleCoils | .writeMultipleRegisters =>
    pl = be16 (reqAddr op) ++ be16 (u16OfNat (reqItems op))

instance (cfg : Cfg) (op : Op) (pl : Bytes) : Decidable (PayloadOk cfg op pl) := by
  unfold PayloadOk; split <;> infer_instance

/-- a well-formed positive reply to `op`: sent by the addressed unit, same function code,
    payload of the shape and size the request determines -/
def PositiveReply (cfg : Cfg) (op : Op) (res : Pdu) : Prop :=
  res.unit = cfg.unitId ∧ res.fc = reqFc op ∧ PayloadOk cfg op res.payload

instance (cfg : Cfg) (op : Op) (res : Pdu) : Decidable (PositiveReply cfg op res) := by
  unfold PositiveReply; infer_instance

/-! ### the values a positive reply carries -/

/-- the first n bits of the data, least significant bit of the first byte first -/
def bitsOf (data : Bytes) (n : Nat) : List Bool :=
  (List.range n).map (fun p => (data.getD (p / 8) 0).getLsbD (p % 8))

/-- the registers on the wire: consecutive byte pairs; the first byte of a pair is the high byte
    for BIG_ENDIAN and the low byte for LITTLE_ENDIAN -/
def wireRegs (e : Endian) : Bytes → List U16
  | a :: b :: rest =>
    (match e with
      | .big => mk16 a b
      | .little => mk16 b a
      | .invalid => 0) :: wireRegs e rest
  | _ => []

/-- 32-bit values from consecutive register pairs: first register most significant for
    HIGH_WORD_FIRST, least significant for LOW_WORD_FIRST -/
def join32 (w : WordOrder) : List U16 → List U32
  | r0 :: r1 :: rest => (if w = .lowFirst then r1 ++ r0 else r0 ++ r1) :: join32 w rest
  | _ => []

/-- 64-bit values from consecutive register quadruples -/
def join64 (w : WordOrder) : List U16 → List U64
  | r0 :: r1 :: r2 :: r3 :: rest =>
    (if w = .lowFirst then r3 ++ r2 ++ r1 ++ r0 else r0 ++ r1 ++ r2 ++ r3) :: join64 w rest
  | _ => []

/-- swap the two bytes of every register -/
def swapEach : Bytes → Bytes
  | a :: b :: rest => b :: a :: swapEach rest
  | r => r

/-- what the caller must get from the positive reply `res` -/
def decodeReply (cfg : Cfg) (op : Op) (res : Pdu) : Val :=
  let d := replyData res
  match op with
  | .readCoils .. | .readCoil .. | .readDiscreteInputs .. | .readDiscreteInput .. =>
    .bools (bitsOf d (reqItems op))
  | .readRegisters .. | .readRegister .. => .u16s (wireRegs cfg.endian d)
  | .readUint32s .. | .readUint32 .. | .readFloat32s .. | .readFloat32 .. =>
    .u32s (join32 cfg.word (wireRegs cfg.endian d))
  | .readUint64s .. | .readUint64 .. | .readFloat64s .. | .readFloat64 .. =>
    .u64s (join64 cfg.word (wireRegs cfg.endian d))
  | .readBytes _ q _ =>
    -- byte strings travel high byte first; LITTLE_ENDIAN swaps each register
    .bytes ((if cfg.endian = .little then swapEach d else d).take q.toNat)
  | .readRawBytes _ q _ => .bytes (d.take q.toNat)
  | _ => .unit

/-! ### exception replies -/

/-- a well-formed exception reply: from the addressed unit or from a gateway answering as unit
    255, function code with the top bit set, exactly one exception-code byte -/
def ExceptionReply (cfg : Cfg) (op : Op) (res : Pdu) (code : Byte) : Prop :=
  (res.unit = cfg.unitId ∨ res.unit = 0xFF) ∧ res.fc = (reqFc op ||| 0x80) ∧ res.payload = [code]

instance (cfg : Cfg) (op : Op) (res : Pdu) (code : Byte) :
    Decidable (ExceptionReply cfg op res code) := by
  unfold ExceptionReply; infer_instance

/-- the error of an exception code (§7 table) -/
def exceptionError (code : Byte) : Err :=
  match code.toNat with
  | 1 => .illegalFunction
  | 2 => .illegalDataAddress
  | 3 => .illegalDataValue
  | 4 => .serverDeviceFailure
  | 5 => .acknowledge
  | 6 => .serverDeviceBusy
  | 8 => .memoryParityError
  | 10 => .gwPathUnavailable
  | 11 => .gwTargetFailedToRespond
  | _ => .unknownException code

end Modbus.Spec
