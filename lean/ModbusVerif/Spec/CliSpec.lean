import ModbusVerif.Model.Client
/-
  The DOCUMENTED command grammar of modbus-cli (`displayHelp` in cmd/modbus-cli.go), as an
  abstract syntax tree with a renderer to the concrete argument string, and what the help text
  says each command does, as the list of library calls (`Client.Op`) it stands for.

  Nothing of the CLI model is used here: only the types `Client.Op`, `U16`, … are shared.

    * <rc|readCoils>:<addr>[+additional quantity]           read 1 + n coils at <addr>
    * <rdi|readDiscreteInputs>:<addr>[+additional quantity] read 1 + n discrete inputs
    * <rh|readHoldingRegisters>:<type>:<addr>[+n]           read 1 + n values of <type>
    * <ri|readInputRegisters>:<type>:<addr>[+n]
        type ∈ uint16 int16 (1 register) uint32 int32 float32 (2 contiguous registers)
               uint64 int64 float64 (4 contiguous registers) bytes (2 bytes per register)
    * <wc|writeCoil>:<addr>:<true|false>
    * <wr|writeRegister>:<type>:<addr>:<value>              write <value> encoded as <type>
    * <setUnitId|suid|sid>:<unit id>                        unit id for subsequent requests

  Numerals are documented by example as decimal ("300") or 0x-hexadecimal ("0x100"); signed
  values may carry a '-' ("-10").  Both are rendered here.  A float <value> is carried as the
  IEEE-754 bit pattern of the float the literal denotes (strconv.ParseFloat is not modelled) and
  rendered as the numeral of that bit pattern, which is the model's input convention
  (see Model/Cli.lean).

  Reading of the help text for `bytes`: like for every other type, `+n` counts additional VALUES
  of the type, i.e. `rh:bytes:a+n` reads n + 1 bytes (⌈(n+1)/2⌉ registers).  (The sentence
  "plus any additional registers" is contradicted by the float32 example, 11 values = 22
  registers, so values are counted, not registers.)
-/
namespace Modbus.Spec
open Modbus.Client (Op)

/-! ## numerals -/

inductive NumFormat | dec | hex
  deriving DecidableEq, Repr, Inhabited

/-- '0'..'9', 'a'..'f' -/
def digitChar (d : Nat) : Char := if d < 10 then Char.ofNat (48 + d) else Char.ofNat (87 + d)

/-- the digits of `n` in base `b`, most significant first (`[0]` for 0); the first argument
    only bounds the recursion (structural, so that the kernel can evaluate it) -/
def digitsAux (b : Nat) : Nat → Nat → List Nat
  | 0, n => [n]
  | fuel + 1, n => if n < b ∨ b < 2 then [n] else digitsAux b fuel (n / b) ++ [n % b]

def digits (b : Nat) (n : Nat) : List Nat := digitsAux b n n

def toDecimalL (n : Nat) : List Char := (digits 10 n).map digitChar
def toHexL (n : Nat) : List Char := '0' :: 'x' :: (digits 16 n).map digitChar

/-- decimal numeral without leading zeros -/
def toDecimal (n : Nat) : String := String.ofList (toDecimalL n)
/-- "0x" followed by lower-case hexadecimal digits without leading zeros -/
def toHex (n : Nat) : String := String.ofList (toHexL n)

def intDecimalL (z : Int) : List Char :=
  if z < 0 then '-' :: toDecimalL z.natAbs else toDecimalL z.natAbs
def intHexL (z : Int) : List Char :=
  if z < 0 then '-' :: toHexL z.natAbs else toHexL z.natAbs

def intDecimal (z : Int) : String := String.ofList (intDecimalL z)
def intHex (z : Int) : String := String.ofList (intHexL z)

def natNumeral : NumFormat → Nat → List Char
  | .dec, n => toDecimalL n
  | .hex, n => toHexL n

def intNumeral : NumFormat → Int → List Char
  | .dec, z => intDecimalL z
  | .hex, z => intHexL z

/-! ## the grammar -/

inductive CliType | uint16 | int16 | uint32 | int32 | float32 | uint64 | int64 | float64 | bytes
  deriving DecidableEq, Repr, Inhabited

/-- the <value> of wr together with its <type> -/
inductive CliValue
  | uint16 (v : U16) | int16 (z : Int)
  | uint32 (v : U32) | int32 (z : Int) | float32 (bits : U32)
  | uint64 (v : U64) | int64 (z : Int) | float64 (bits : U64)
  | bytes (bs : Bytes)
  deriving DecidableEq, Repr

def CliValue.ty : CliValue → CliType
  | .uint16 _ => .uint16 | .int16 _ => .int16 | .uint32 _ => .uint32 | .int32 _ => .int32
  | .float32 _ => .float32 | .uint64 _ => .uint64 | .int64 _ => .int64 | .float64 _ => .float64
  | .bytes _ => .bytes

inductive Command
  | readCoils (addr : U16) (extra : Option U16)
  | readDiscrete (addr : U16) (extra : Option U16)
  | readHolding (ty : CliType) (addr : U16) (extra : Option U16)
  | readInput (ty : CliType) (addr : U16) (extra : Option U16)
  | writeCoil (addr : U16) (b : Bool)
  | writeReg (addr : U16) (value : CliValue)
  | setUnit (u : Byte)
  deriving DecidableEq, Repr

/-- which spelling of the command name: the short one, the long one of the help text, and a
    third one (`suid` for setUnitId; for the reads the singular form `readCoil`, … that the
    program also accepts; for wc / wr the long one again) -/
inductive Alias | short | long | alt
  deriving DecidableEq, Repr, Inhabited

/-- the free choices of the concrete syntax -/
structure Style where
  name  : Alias := .short
  addr  : NumFormat := .dec
  extra : NumFormat := .dec
  value : NumFormat := .dec     -- <value> of wr, <unit id> of sid
  upperBytes : Bool := false    -- case of the hex digits of a `bytes` value
  deriving DecidableEq, Repr, Inhabited

def Command.name : Command → Alias → String
  | .readCoils .., .short => "rc" | .readCoils .., .long => "readCoils"
  | .readCoils .., .alt => "readCoil"
  | .readDiscrete .., .short => "rdi" | .readDiscrete .., .long => "readDiscreteInputs"
  | .readDiscrete .., .alt => "readDiscreteInput"
  | .readHolding .., .short => "rh" | .readHolding .., .long => "readHoldingRegisters"
  | .readHolding .., .alt => "readHoldingRegister"
  | .readInput .., .short => "ri" | .readInput .., .long => "readInputRegisters"
  | .readInput .., .alt => "readInputRegister"
  | .writeCoil .., .short => "wc" | .writeCoil .., _ => "writeCoil"
  | .writeReg .., .short => "wr" | .writeReg .., _ => "writeRegister"
  | .setUnit _, .short => "sid" | .setUnit _, .long => "setUnitId" | .setUnit _, .alt => "suid"

def CliType.name : CliType → String
  | .uint16 => "uint16" | .int16 => "int16" | .uint32 => "uint32" | .int32 => "int32"
  | .float32 => "float32" | .uint64 => "uint64" | .int64 => "int64" | .float64 => "float64"
  | .bytes => "bytes"

/-- `<addr>[+additional quantity]` -/
def addrField (st : Style) (addr : U16) : Option U16 → List Char
  | none => natNumeral st.addr addr.toNat
  | some n => natNumeral st.addr addr.toNat ++ '+' :: natNumeral st.extra n.toNat

def byteHex (upper : Bool) (b : Byte) : List Char :=
  let d := [digitChar (b.toNat / 16), digitChar (b.toNat % 16)]
  if upper then d.map Char.toUpper else d

def CliValue.render (st : Style) : CliValue → List Char
  | .uint16 v => natNumeral st.value v.toNat
  | .uint32 v => natNumeral st.value v.toNat
  | .uint64 v => natNumeral st.value v.toNat
  | .int16 z | .int32 z | .int64 z => intNumeral st.value z
  | .float32 b => natNumeral st.value b.toNat       -- bit pattern, see the header
  | .float64 b => natNumeral st.value b.toNat
  | .bytes bs => bs.flatMap (byteHex st.upperBytes)

def joinWith (sep : Char) : List (List Char) → List Char
  | [] => []
  | [p] => p
  | p :: q :: rest => p ++ sep :: joinWith sep (q :: rest)

/-- the ':'-separated fields of the argument -/
def Command.fields (st : Style) (c : Command) : List (List Char) :=
  let nm := (c.name st.name).toList
  match c with
  | .readCoils a e | .readDiscrete a e => [nm, addrField st a e]
  | .readHolding ty a e | .readInput ty a e => [nm, ty.name.toList, addrField st a e]
  | .writeCoil a b => [nm, natNumeral st.addr a.toNat, (if b then "true" else "false").toList]
  | .writeReg a v => [nm, v.ty.name.toList, natNumeral st.addr a.toNat, v.render st]
  | .setUnit u => [nm, natNumeral st.value u.toNat]

def renderL (c : Command) (st : Style) : List Char := joinWith ':' (c.fields st)

/-- the command-line argument, e.g. "rh:uint32:0x100+5" -/
def render (c : Command) (st : Style) : String := String.ofList (renderL c st)

/-! ## the documented meaning -/

/-- number of values read: one, plus the additional quantity -/
def count (extra : Option U16) : Nat := (extra.getD 0).toNat + 1

/-- 16-bit registers occupied by `n` values of a type (two bytes per register for `bytes`) -/
def CliType.regsFor : CliType → Nat → Nat
  | .uint16, n | .int16, n => n
  | .uint32, n | .int32, n | .float32, n => 2 * n
  | .uint64, n | .int64, n | .float64, n => 4 * n
  | .bytes, n => (n + 1) / 2

/-- values representable in the type (the documented domain of <value>) -/
def CliValue.inRange : CliValue → Prop
  | .int16 z => -32768 ≤ z ∧ z ≤ 32767
  | .int32 z => -2147483648 ≤ z ∧ z ≤ 2147483647
  | .int64 z => -9223372036854775808 ≤ z ∧ z ≤ 9223372036854775807
  | _ => True

/-- the grammar as documented: the total `1 + additional quantity` is itself a 16-bit count
    (no wrap), values fit their type -/
def Command.documented : Command → Prop
  | .readCoils _ e | .readDiscrete _ e | .readHolding _ _ e | .readInput _ _ e => count e ≤ 65535
  | .writeReg _ v => v.inRange
  | _ => True

def readTyped (ty : CliType) (addr : U16) (n : Nat) (regType : Nat) : Op :=
  match ty with
  | .uint16 | .int16 => .readRegisters addr (u16OfNat n) regType
  | .uint32 | .int32 => .readUint32s addr (u16OfNat n) regType
  | .float32 => .readFloat32s addr (u16OfNat n) regType
  | .uint64 | .int64 => .readUint64s addr (u16OfNat n) regType
  | .float64 => .readFloat64s addr (u16OfNat n) regType
  | .bytes => .readBytes addr (u16OfNat n) regType

/-- "wr:int16:a:v writes v as 16-bit two's complement", … -/
def writeTyped (addr : U16) : CliValue → Op
  | .uint16 v => .writeRegister addr v
  | .int16 z => .writeRegister addr (BitVec.ofInt 16 z)
  | .uint32 v => .writeUint32 addr v
  | .int32 z => .writeUint32 addr (BitVec.ofInt 32 z)
  | .float32 b => .writeFloat32 addr b
  | .uint64 v => .writeUint64 addr v
  | .int64 z => .writeUint64 addr (BitVec.ofInt 64 z)
  | .float64 b => .writeFloat64 addr b
  | .bytes bs => .writeBytes addr bs

/-- what the help text says the command does, as library calls
    (register type 0 = holding, 1 = input) -/
def documentedOps : Command → List Op
  | .readCoils a e => [.readCoils a (u16OfNat (count e))]
  | .readDiscrete a e => [.readDiscreteInputs a (u16OfNat (count e))]
  | .readHolding ty a e => [readTyped ty a (count e) 0]
  | .readInput ty a e => [readTyped ty a (count e) 1]
  | .writeCoil a b => [.writeCoil a b]
  | .writeReg a v => [writeTyped a v]
  | .setUnit _ => []

/-- "Switch to unit id <unit id> for subsequent requests" -/
def documentedUnit (u : Byte) : Command → Byte
  | .setUnit x => x
  | _ => u

/-- the calls of a whole command line, each with the unit id it must be made under -/
def documentedTrace (u : Byte) : List Command → List (Byte × Op)
  | [] => []
  | c :: rest => (documentedOps c).map (fun o => (u, o)) ++ documentedTrace (documentedUnit u c) rest

end Modbus.Spec
