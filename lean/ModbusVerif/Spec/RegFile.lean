import ModbusVerif.Model.System
import ModbusVerif.Spec.Request
import ModbusVerif.Spec.Reply
import ModbusVerif.Spec.ServerSpec
/-
  The abstract register file (property C04), written from the documentation of the library and
  the Modbus application protocol — not from the client / server models.

  A Modbus device is four tables indexed by a 16-bit address: coils and discrete inputs (bits),
  holding and input registers (16-bit words). A client call either breaks the protocol limits
  (`Spec.breaksLimits`, Spec/Request.lean) and is refused without any effect, or acts on the
  `Spec.items op` consecutive entries starting at `Spec.addr op`:

    * bit reads return those entries; bit writes replace them by the arguments;
    * register reads return the entries *interpreted under the configured encoding*;
      register writes replace them by the *register image* of the arguments.

  The register image is fixed by the documented layout (Spec/Layout.lean): on the wire every
  register is two bytes, high byte first; a typed value is laid out as `Spec.layout16/32/64`
  (most significant word at the lowest address unless LOW_WORD_FIRST is selected; LITTLE_ENDIAN
  swaps the two bytes of each register). So

    * writing values `vs` stores the registers whose wire bytes are the concatenated layouts of
      `vs` (`regImage`);
    * reading returns the values whose layouts are the wire bytes of the stored registers
      (`regValue`, through the wire decoders `Spec.wireRegs / join32 / join64` of Spec/Reply.lean,
      which are the inverses of the layouts: `C02_spec_regs16/32/64`);
    * byte strings occupy ⌈n/2⌉ registers, first byte in the high half of the first register,
      an odd last byte completed with 0x00; `ReadBytes` / `WriteBytes` swap the two bytes of
      every register under LITTLE_ENDIAN, the raw variants never do.

  From the models only *types* are used (`Client.Op`, `Client.Cfg`, `Client.Val`,
  `Server.HReq`, `System.Mem`). Core Lean only, executable.
-/
namespace Modbus.Spec
open Modbus.Client (Op Cfg Val)
open Modbus.System (Mem)
open Modbus.Server (HReq)

/-- the `n` consecutive entries of a table starting at address `a` -/
def window {α : Type} (t : Nat → α) (a n : Nat) : List α := (List.range n).map (fun i => t (a + i))

/-- the table with the entries `a`, `a+1`, … replaced by `vs` -/
def store {α : Type} [Inhabited α] (t : Nat → α) (a : Nat) (vs : List α) : Nat → α :=
  fun x => if a ≤ x ∧ x < a + vs.length then vs.getD (x - a) default else t x

/-- the bytes of a list of registers on the wire: two per register, high byte first -/
def wireImage (regs : List U16) : Bytes := regs.flatMap (regBytes .big)

/-- the registers a wire byte string denotes (`Spec.unpackRegs`: consecutive big-endian pairs) -/
def regsOfWire (bs : Bytes) : List U16 := unpackRegs bs

/-- the bits written by a coil write -/
def coilArgs : Op → List Bool
  | .writeCoil _ v => [v]
  | .writeCoils _ vs => vs
  | _ => []

/-- the wire bytes of the arguments of a register write, per the documented layout -/
def writeLayout (cfg : Cfg) : Op → Bytes
  | .writeRegister _ v => layout16 cfg.endian v
  | .writeRegisters _ vs => vs.flatMap (layout16 cfg.endian)
  | .writeUint32 _ v | .writeFloat32 _ v => layout32 cfg.endian cfg.word v
  | .writeUint32s _ vs | .writeFloat32s _ vs => vs.flatMap (layout32 cfg.endian cfg.word)
  | .writeUint64 _ v | .writeFloat64 _ v => layout64 cfg.endian cfg.word v
  | .writeUint64s _ vs | .writeFloat64s _ vs => vs.flatMap (layout64 cfg.endian cfg.word)
  | .writeBytes _ bs =>
    -- first byte in the high half; LITTLE_ENDIAN swaps the halves of every register
    (bytePairs bs).flatMap (fun p => if cfg.endian = .little then [p.2, p.1] else [p.1, p.2])
  | .writeRawBytes _ bs => (bytePairs bs).flatMap (fun p => [p.1, p.2])
  | _ => []

/-- the registers stored by a register write: those whose wire bytes are the layout of the
    arguments -/
def regImage (cfg : Cfg) (op : Op) : List U16 := regsOfWire (writeLayout cfg op)

/-- what a register read returns for the stored registers `regs`: the values whose documented
    layout is the wire image of `regs` -/
def regValue (cfg : Cfg) (op : Op) (regs : List U16) : Val :=
  let d := wireImage regs
  match op with
  | .readRegisters .. | .readRegister .. => .u16s (wireRegs cfg.endian d)
  | .readUint32s .. | .readUint32 .. | .readFloat32s .. | .readFloat32 .. =>
    .u32s (join32 cfg.word (wireRegs cfg.endian d))
  | .readUint64s .. | .readUint64 .. | .readFloat64s .. | .readFloat64 .. =>
    .u64s (join64 cfg.word (wireRegs cfg.endian d))
  | .readBytes _ q _ => .bytes ((if cfg.endian = .little then swapEach d else d).take q.toNat)
  | .readRawBytes _ q _ => .bytes (d.take q.toNat)
  | _ => .unit

/-- the register table a register read addresses: input registers for register type 1,
    holding registers otherwise -/
def regTable (mem : Mem) (op : Op) : Nat → U16 :=
  if regType? op = some 1 then mem.input else mem.holding

/-- one call on the abstract register file: what the caller gets, and the tables afterwards -/
def regfileStep (cfg : Cfg) (mem : Mem) (op : Op) : Except Err Val × Mem :=
  if breaksLimits op then (.error .unexpectedParameters, mem)
  else
    let a := (addr op).toNat
    let n := items op
    match fn op with
    | .readCoils => (.ok (.bools (window mem.coils a n)), mem)
    | .readDiscreteInputs => (.ok (.bools (window mem.discrete a n)), mem)
    | .readRegisters => (.ok (regValue cfg op (window (regTable mem op) a n)), mem)
    | .writeSingleCoil | .writeMultipleCoils =>
      (.ok .unit, { mem with coils := store mem.coils a (coilArgs op) })
    | .writeSingleRegister | .writeMultipleRegisters =>
      (.ok .unit, { mem with holding := store mem.holding a (regImage cfg op) })

/-- the request object of an accepted call: unit id, start address, quantity, direction, and for
    writes the values in the documented layout -/
def handlerReq (cfg : Cfg) (op : Op) : HReq :=
  let u := cfg.unitId
  let a := addr op
  let n := u16OfNat (items op)
  match fn op with
  | .readCoils => .coils u a n false []
  | .readDiscreteInputs => .discrete u a n
  | .readRegisters => if regType? op = some 1 then .input u a n else .holding u a n false []
  | .writeSingleCoil | .writeMultipleCoils => .coils u a n true (coilArgs op)
  | .writeSingleRegister | .writeMultipleRegisters => .holding u a n true (regImage cfg op)

/-- the request object the server's handler must be given (`none`: the call is refused locally,
    no handler is invoked) -/
def handlerSees (cfg : Cfg) (op : Op) : Option HReq :=
  if breaksLimits op then none else some (handlerReq cfg op)

/-! ### histories -/

/-- `SetEncoding` as documented: both selectors must be 1 (BIG_ENDIAN / HIGH_WORD_FIRST) or
    2 (LITTLE_ENDIAN / LOW_WORD_FIRST) -/
def regfileSetEnc (cfg : Cfg) (e w : Nat) : Except Err Cfg :=
  if (e = 1 ∨ e = 2) ∧ (w = 1 ∨ w = 2) then
    .ok { cfg with endian := if e = 2 then .little else .big
                   word := if w = 2 then .lowFirst else .highFirst }
  else .error .unexpectedParameters

/-- a history on the abstract register file: results, final settings, final tables -/
def regfileRun (cfg : Cfg) (mem : Mem) :
    List System.Cmd → List (Except Err Val) × Cfg × Mem
  | [] => ([], cfg, mem)
  | .op o :: cs =>
    let x := regfileStep cfg mem o
    let y := regfileRun cfg x.2 cs
    (x.1 :: y.1, y.2)
  | .setUnit u :: cs =>
    let y := regfileRun { cfg with unitId := u } mem cs
    (.ok .unit :: y.1, y.2)
  | .setEnc e w :: cs =>
    match regfileSetEnc cfg e w with
    | .ok cfg' =>
      let y := regfileRun cfg' mem cs
      (.ok .unit :: y.1, y.2)
    | .error err =>
      let y := regfileRun cfg mem cs
      (.error err :: y.1, y.2)

/-- the handler invocations of a history, in order: one per call that is not refused, with the
    settings in force at that moment (they do not depend on the memory contents) -/
def regfileCalls (cfg : Cfg) : List System.Cmd → List HReq
  | [] => []
  | .op o :: cs => (handlerSees cfg o).toList ++ regfileCalls cfg cs
  | .setUnit u :: cs => regfileCalls { cfg with unitId := u } cs
  | .setEnc e w :: cs =>
    match regfileSetEnc cfg e w with
    | .ok cfg' => regfileCalls cfg' cs
    | .error _ => regfileCalls cfg cs

/-- the number of requests a history puts on the wire: one per call that is not refused locally -/
def requestsSent : List System.Cmd → Nat
  | [] => 0
  | .op o :: cs => (if breaksLimits o then 0 else 1) + requestsSent cs
  | _ :: cs => requestsSent cs

end Modbus.Spec
