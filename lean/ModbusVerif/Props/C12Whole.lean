import ModbusVerif.Lemmas.ChunkedLemmas
import ModbusVerif.Props.C12Ext
/-
  C12 (whole calls, whole sessions) — "The decoded result of a reply, and the server's handling
  of a request, do not depend on how the byte stream is segmented by the network: delivering the
  same bytes one at a time, split at any boundary, or coalesced with the following frame yields
  exactly the same sequence of frames and results."

  C12.lean / C12Ext.lean prove this per frame reader. Here it is proved for
    * one whole public client call (`Client.Op.run`) and one whole core call
      (`Client.Core.exchange`), on every transport kind, over a chunked stream
      (`Chunked.Client.Op.runC`, unread input carried between calls as chunks) and through the
      UDP datagram adapter (`Chunked.Client.Op.runU`);
    * a whole history of client calls (`Chunked.Client.historyC`);
    * a whole server session (`Chunked.Server.runC` vs `Server.run`).
  Definitions: ModbusVerif/Model/Chunked.lean; proofs: ModbusVerif/Lemmas/ChunkedLemmas.lean.

  "Segmentation" = any `List Bytes` whose concatenation (`List.flatten`) is the byte stream:
  empty chunks (zero-byte reads), one-byte chunks, chunks that end inside a header, chunks that
  hold several frames (coalescing) are all instances.
-/
namespace Modbus.Props.C12
open Modbus Modbus.Client

/-! ### 1. one client call -/

/-- C12W-1. For every public method, every client configuration (all six transport kinds), every
    transport state (transaction counter, unread input in any segmentation), every segmentation
    `src` of the arriving bytes and every stream ending: the chunked call returns the same
    value / error / panic, writes the same request frame, leaves the same unread bytes and the
    same transaction counter as the flat call on the concatenated stream. -/
theorem C12W_client_call_chunking (op : Op) (cfg : Cfg) (st : Chunked.Client.TStateC)
    (src : List Bytes) (e : Ending) :
    (Chunked.Client.Op.runC op cfg st src e).result =
      (op.run cfg ⟨st.lastTxn, st.pending.flatten⟩ src.flatten e).result ∧
    (Chunked.Client.Op.runC op cfg st src e).written =
      (op.run cfg ⟨st.lastTxn, st.pending.flatten⟩ src.flatten e).written ∧
    (Chunked.Client.Op.runC op cfg st src e).state.pending.flatten =
      (op.run cfg ⟨st.lastTxn, st.pending.flatten⟩ src.flatten e).state.pending ∧
    (Chunked.Client.Op.runC op cfg st src e).state.lastTxn =
      (op.run cfg ⟨st.lastTxn, st.pending.flatten⟩ src.flatten e).state.lastTxn := by
  have h := Chunked.Client.runC_flat op cfg st src e
  exact ⟨congrArg Result.result h, congrArg Result.written h,
    congrArg (fun r => r.state.pending) h, congrArg (fun r => r.state.lastTxn) h⟩

/-- the same as one equation between call records -/
theorem C12W_client_call_chunking_record (op : Op) (cfg : Cfg) (st : Chunked.Client.TStateC)
    (src : List Bytes) (e : Ending) :
    (Chunked.Client.Op.runC op cfg st src e).flat = op.run cfg st.flat src.flatten e :=
  Chunked.Client.runC_flat op cfg st src e

/-- the same for the core helpers (raw result before decoding) -/
theorem C12W_client_core_chunking (c : Core) (cfg : Cfg) (st : Chunked.Client.TStateC)
    (src : List Bytes) (e : Ending) :
    (Chunked.Client.Core.exchangeC c cfg st src e).result =
      (c.exchange cfg ⟨st.lastTxn, st.pending.flatten⟩ src.flatten e).result ∧
    (Chunked.Client.Core.exchangeC c cfg st src e).written =
      (c.exchange cfg ⟨st.lastTxn, st.pending.flatten⟩ src.flatten e).written ∧
    (Chunked.Client.Core.exchangeC c cfg st src e).state.pending.flatten =
      (c.exchange cfg ⟨st.lastTxn, st.pending.flatten⟩ src.flatten e).state.pending ∧
    (Chunked.Client.Core.exchangeC c cfg st src e).state.lastTxn =
      (c.exchange cfg ⟨st.lastTxn, st.pending.flatten⟩ src.flatten e).state.lastTxn := by
  have h := Chunked.Client.exchangeC_flat c cfg st src e
  exact ⟨congrArg Outcome.result h, congrArg Outcome.written h,
    congrArg (fun r => r.state.pending) h, congrArg (fun r => r.state.lastTxn) h⟩

/-- C12W-1 (datagram kinds `udp://`, `rtuoverudp://`; holds for every `cfg`). A call through the
    `udpSockWrapper` (leftover bytes + queued datagrams, `dgrams` arriving during the call):
    same value / error / panic, same request frame, same still-pending byte stream, same counter
    as the flat call on the byte stream the datagrams form (each cut to the 260-byte buffer). -/
theorem C12W_client_call_udp (op : Op) (cfg : Cfg) (st : Chunked.Client.TStateU)
    (dgrams : List Bytes) (e : Ending) :
    (Chunked.Client.Op.runU op cfg st dgrams e).result =
      (op.run cfg ⟨st.lastTxn, st.sock.pendingBytes⟩ (Chunked.Client.dgramBytes dgrams) e).result ∧
    (Chunked.Client.Op.runU op cfg st dgrams e).written =
      (op.run cfg ⟨st.lastTxn, st.sock.pendingBytes⟩ (Chunked.Client.dgramBytes dgrams) e).written ∧
    (Chunked.Client.Op.runU op cfg st dgrams e).state.sock.pendingBytes =
      (op.run cfg ⟨st.lastTxn, st.sock.pendingBytes⟩ (Chunked.Client.dgramBytes dgrams) e).state.pending ∧
    (Chunked.Client.Op.runU op cfg st dgrams e).state.lastTxn =
      (op.run cfg ⟨st.lastTxn, st.sock.pendingBytes⟩ (Chunked.Client.dgramBytes dgrams) e).state.lastTxn := by
  have h := Chunked.Client.runU_flat op cfg st dgrams e
  exact ⟨congrArg Result.result h, congrArg Result.written h,
    congrArg (fun r => r.state.pending) h, congrArg (fun r => r.state.lastTxn) h⟩

/-- datagrams of at most 260 bytes: the byte stream is their concatenation -/
theorem C12W_client_call_udp_small (op : Op) (cfg : Cfg) (st : Chunked.Client.TStateU)
    {dgrams : List Bytes} (e : Ending) (hs : ∀ d ∈ dgrams, d.length ≤ Udp.rxbufLen) :
    (Chunked.Client.Op.runU op cfg st dgrams e).flat =
      op.run cfg ⟨st.lastTxn, st.sock.pendingBytes⟩ dgrams.flatten e := by
  rw [Chunked.Client.runU_flat, Chunked.Client.dgramBytes_of_small hs]; rfl

/-! ### 2. two segmentations -/

/-- C12W-2. Two segmentations of the same arriving bytes, on two transport states that differ
    only in how the unread input is segmented: same result, same request frame, same unread
    bytes, same transaction counter. -/
theorem C12W_client_segmentation (op : Op) (cfg : Cfg) {st₁ st₂ : Chunked.Client.TStateC}
    {src₁ src₂ : List Bytes} (e : Ending)
    (ht : st₁.lastTxn = st₂.lastTxn) (hp : st₁.pending.flatten = st₂.pending.flatten)
    (hs : src₁.flatten = src₂.flatten) :
    (Chunked.Client.Op.runC op cfg st₁ src₁ e).result =
      (Chunked.Client.Op.runC op cfg st₂ src₂ e).result ∧
    (Chunked.Client.Op.runC op cfg st₁ src₁ e).written =
      (Chunked.Client.Op.runC op cfg st₂ src₂ e).written ∧
    (Chunked.Client.Op.runC op cfg st₁ src₁ e).state.pending.flatten =
      (Chunked.Client.Op.runC op cfg st₂ src₂ e).state.pending.flatten ∧
    (Chunked.Client.Op.runC op cfg st₁ src₁ e).state.lastTxn =
      (Chunked.Client.Op.runC op cfg st₂ src₂ e).state.lastTxn := by
  obtain ⟨a1, a2, a3, a4⟩ := C12W_client_call_chunking op cfg st₁ src₁ e
  obtain ⟨b1, b2, b3, b4⟩ := C12W_client_call_chunking op cfg st₂ src₂ e
  rw [a1, a2, a3, a4, b1, b2, b3, b4, ht, hp, hs]
  exact ⟨rfl, rfl, rfl, rfl⟩

/-- the same for datagrams: two ways of cutting the same bytes into datagrams of ≤ 260 bytes -/
theorem C12W_client_udp_partition (op : Op) (cfg : Cfg) (st : Chunked.Client.TStateU)
    {ds₁ ds₂ : List Bytes} (e : Ending)
    (h₁ : ∀ d ∈ ds₁, d.length ≤ Udp.rxbufLen) (h₂ : ∀ d ∈ ds₂, d.length ≤ Udp.rxbufLen)
    (hs : ds₁.flatten = ds₂.flatten) :
    (Chunked.Client.Op.runU op cfg st ds₁ e).flat = (Chunked.Client.Op.runU op cfg st ds₂ e).flat := by
  rw [C12W_client_call_udp_small op cfg st e h₁, C12W_client_call_udp_small op cfg st e h₂, hs]

/-! ### 3. a whole server session -/

/-- C12W-3. For every handler, every handler state, every byte stream (valid frames, garbage,
    a partial frame at the end) in every segmentation, and every stream ending: the session over
    the chunked source produces the same events in the same order (handler calls with the same
    arguments, response frames, the final `closed` / `ended err` / `panic`) and the same final
    handler state as the session over the concatenated stream. -/
theorem C12W_server_session_chunking {σ : Type} (h : Server.Handler σ) (st : σ) (src : List Bytes)
    (e : Ending) :
    Chunked.Server.runC h st src e = Server.run h st src.flatten e :=
  Chunked.Server.runC_eq h st src e

/-- two segmentations of the same stream: the same session -/
theorem C12W_server_segmentation {σ : Type} (h : Server.Handler σ) (st : σ) {src₁ src₂ : List Bytes}
    (e : Ending) (hs : src₁.flatten = src₂.flatten) :
    Chunked.Server.runC h st src₁ e = Chunked.Server.runC h st src₂ e := by
  rw [C12W_server_session_chunking, C12W_server_session_chunking, hs]

/-- the stream delivered one byte per `Read` -/
def bytewise (s : Bytes) : List Bytes := s.map (fun b => [b])
/-- one byte per `Read`, each preceded by a zero-byte read -/
def bytewiseGaps (s : Bytes) : List Bytes := s.flatMap (fun b => [[], [b]])
/-- the stream cut once, after `k` bytes -/
def splitAt (k : Nat) (s : Bytes) : List Bytes := [s.take k, s.drop k]

theorem flatten_bytewise (s : Bytes) : (bytewise s).flatten = s := by
  induction s with
  | nil => rfl
  | cons b s ih => simp [bytewise] at ih ⊢; exact ih

theorem flatten_bytewiseGaps (s : Bytes) : (bytewiseGaps s).flatten = s := by
  induction s with
  | nil => rfl
  | cons b s ih => simp [bytewiseGaps] at ih ⊢; exact ih

theorem flatten_splitAt (k : Nat) (s : Bytes) : (splitAt k s).flatten = s := by
  simp [splitAt]

/-- the named deliveries of the property text: one byte at a time (with or without empty reads),
    split at any boundary `k`, everything (all frames) coalesced in one chunk -/
theorem C12W_server_named_deliveries {σ : Type} (h : Server.Handler σ) (st : σ) (s : Bytes)
    (e : Ending) (k : Nat) :
    Chunked.Server.runC h st (bytewise s) e = Server.run h st s e ∧
    Chunked.Server.runC h st (bytewiseGaps s) e = Server.run h st s e ∧
    Chunked.Server.runC h st (splitAt k s) e = Server.run h st s e ∧
    Chunked.Server.runC h st [s] e = Server.run h st s e := by
  refine ⟨?_, ?_, ?_, ?_⟩
  · rw [C12W_server_session_chunking, flatten_bytewise]
  · rw [C12W_server_session_chunking, flatten_bytewiseGaps]
  · rw [C12W_server_session_chunking, flatten_splitAt]
  · rw [C12W_server_session_chunking]; simp

/-- the same for one client call on a fresh-or-not transport state -/
theorem C12W_client_named_deliveries (op : Op) (cfg : Cfg) (st : TState) (s : Bytes) (e : Ending)
    (k : Nat) :
    (Chunked.Client.Op.runC op cfg (.ofFlat st) (bytewise s) e).flat = op.run cfg st s e ∧
    (Chunked.Client.Op.runC op cfg (.ofFlat st) (bytewiseGaps s) e).flat = op.run cfg st s e ∧
    (Chunked.Client.Op.runC op cfg (.ofFlat st) (splitAt k s) e).flat = op.run cfg st s e ∧
    (Chunked.Client.Op.runC op cfg (.ofFlat st) [s] e).flat = op.run cfg st s e := by
  have hst : (Chunked.Client.TStateC.ofFlat st).flat = st := by
    simp [Chunked.Client.TStateC.ofFlat, Chunked.Client.TStateC.flat]
  refine ⟨?_, ?_, ?_, ?_⟩
  · rw [C12W_client_call_chunking_record, flatten_bytewise, hst]
  · rw [C12W_client_call_chunking_record, flatten_bytewiseGaps, hst]
  · rw [C12W_client_call_chunking_record, flatten_splitAt, hst]
  · rw [C12W_client_call_chunking_record, hst]; simp

/-! ### 4. a whole history of calls -/

/-- C12W-4. A sequence of public calls on one transport (settings may change between calls):
    however the arrivals of each call are segmented, the whole history of observations (request
    frame written, value / error / panic returned, per call, in order) and the final transport
    state are those of the flat model on the concatenated arrivals. Unread chunks left by one
    call (a reply coalesced with what follows) are the next call's pending input. -/
theorem C12W_history (st : Chunked.Client.TStateC) (calls : List Chunked.Client.CallC) :
    (Chunked.Client.historyC st calls).1 =
      (Chunked.Client.history ⟨st.lastTxn, st.pending.flatten⟩
        (calls.map Chunked.Client.CallC.flat)).1 ∧
    (Chunked.Client.historyC st calls).2.lastTxn =
      (Chunked.Client.history ⟨st.lastTxn, st.pending.flatten⟩
        (calls.map Chunked.Client.CallC.flat)).2.lastTxn ∧
    (Chunked.Client.historyC st calls).2.pending.flatten =
      (Chunked.Client.history ⟨st.lastTxn, st.pending.flatten⟩
        (calls.map Chunked.Client.CallC.flat)).2.pending := by
  obtain ⟨h1, h2⟩ := Chunked.Client.historyC_flat calls st
  exact ⟨h1, congrArg TState.lastTxn h2, congrArg TState.pending h2⟩

/-- two histories whose calls agree up to the segmentation of their arrivals: same observations,
    same final unread bytes and counter -/
theorem C12W_history_segmentation {st₁ st₂ : Chunked.Client.TStateC}
    {calls₁ calls₂ : List Chunked.Client.CallC}
    (ht : st₁.lastTxn = st₂.lastTxn) (hp : st₁.pending.flatten = st₂.pending.flatten)
    (hc : calls₁.map Chunked.Client.CallC.flat = calls₂.map Chunked.Client.CallC.flat) :
    (Chunked.Client.historyC st₁ calls₁).1 = (Chunked.Client.historyC st₂ calls₂).1 ∧
    (Chunked.Client.historyC st₁ calls₁).2.lastTxn = (Chunked.Client.historyC st₂ calls₂).2.lastTxn ∧
    (Chunked.Client.historyC st₁ calls₁).2.pending.flatten =
      (Chunked.Client.historyC st₂ calls₂).2.pending.flatten := by
  obtain ⟨a1, a2, a3⟩ := C12W_history st₁ calls₁
  obtain ⟨b1, b2, b3⟩ := C12W_history st₂ calls₂
  rw [a1, a2, a3, b1, b2, b3, ht, hp, hc]
  exact ⟨rfl, rfl, rfl⟩

/-! ### non-vacuity -/

/-- a handler with state: counts its invocations; holding registers read as `n, n+1, ...` -/
def exHandler : Server.Handler Nat where
  coils    := fun n _ => (n + 1, .error .illegalFunction)
  discrete := fun n _ => (n + 1, .error .illegalFunction)
  holding  := fun n r => (n + 1, match r with
    | .holding _ _ qty false _ => .ok ((List.range qty.toNat).map (fun i => u16OfNat (n + i)))
    | _ => .ok [])
  input    := fun n _ => (n + 1, .error .illegalDataAddress)

/-- two requests back to back: read 2 holding registers @0 (txn 1), write register 5 := 0xABCD (txn 2) -/
def exTwoRequests : Bytes :=
  Mbap.assemble 1 ⟨1, 3, [0, 0, 0, 2]⟩ ++ Mbap.assemble 2 ⟨1, 6, [0, 5, 0xAB, 0xCD]⟩

example : exTwoRequests =
    [0, 1, 0, 0, 0, 6, 1, 3, 0, 0, 0, 2,   0, 2, 0, 0, 0, 6, 1, 6, 0, 5, 0xAB, 0xCD] := by decide

/-- what the flat session does with it -/
def exEvents : List Server.Event :=
  [ .call (.holding 1 0 2 false []),
    .respond [0, 1, 0, 0, 0, 7, 1, 3, 4, 0, 0, 0, 1],
    .call (.holding 1 5 1 true [0xABCD]),
    .respond [0, 2, 0, 0, 0, 6, 1, 6, 0, 5, 0xAB, 0xCD],
    .ended .ioTimeout ]

example : Server.run exHandler 0 exTwoRequests .timeout = (2, exEvents) := by decide +kernel

-- byte by byte
example : Chunked.Server.runC exHandler 0 (bytewise exTwoRequests) .timeout = (2, exEvents) := by
  decide +kernel
example : (bytewise exTwoRequests).length = 24 := by decide
-- byte by byte with a zero-byte read before every byte
example : Chunked.Server.runC exHandler 0 (bytewiseGaps exTwoRequests) .timeout = (2, exEvents) := by
  decide +kernel
-- both frames coalesced in one chunk
example : Chunked.Server.runC exHandler 0 [exTwoRequests] .timeout = (2, exEvents) := by
  decide +kernel
-- split inside the first MBAP header (after 3 bytes); the second chunk holds the rest of frame 1
-- and all of frame 2
example : Chunked.Server.runC exHandler 0 (splitAt 3 exTwoRequests) .timeout = (2, exEvents) := by
  decide +kernel
-- split inside the second MBAP header (12 + 4), with empty chunks around
example : Chunked.Server.runC exHandler 0 [[], exTwoRequests.take 16, [], [], exTwoRequests.drop 16, []]
    .timeout = (2, exEvents) := by decide +kernel
-- every single cut position
example : ∀ k ∈ List.range 25,
    Chunked.Server.runC exHandler 0 (splitAt k exTwoRequests) .timeout = (2, exEvents) := by
  decide +kernel

-- garbage / partial tail: a third frame cut after 9 bytes, EOF: same events, same `ended` error
example : Server.run exHandler 0 (exTwoRequests ++ [0, 3, 0, 0, 0, 6, 1, 3, 0]) .eof =
    (2, exEvents.take 4 ++ [.ended .ioUnexpectedEOF]) := by decide +kernel
example : Chunked.Server.runC exHandler 0
    (bytewise (exTwoRequests ++ [0, 3, 0, 0, 0, 6, 1, 3, 0])) .eof =
    (2, exEvents.take 4 ++ [.ended .ioUnexpectedEOF]) := by decide +kernel
example : Chunked.Server.runC exHandler 0
    [exTwoRequests ++ [0, 3, 0, 0], [0, 6, 1, 3, 0]] .eof =
    (2, exEvents.take 4 ++ [.ended .ioUnexpectedEOF]) := by decide +kernel
-- a frame with an impossible length field in the middle: the session ends there, both ways
example : Chunked.Server.runC exHandler 0
    (bytewise (Mbap.assemble 1 ⟨1, 3, [0, 0, 0, 2]⟩ ++ [0, 2, 0, 0, 0, 0, 1, 9, 9])) .timeout =
    (1, exEvents.take 2 ++ [.ended .protocolError]) := by decide +kernel
example : Server.run exHandler 0
    (Mbap.assemble 1 ⟨1, 3, [0, 0, 0, 2]⟩ ++ [0, 2, 0, 0, 0, 0, 1, 9, 9]) .timeout =
    (1, exEvents.take 2 ++ [.ended .protocolError]) := by decide +kernel

/-! client: read 2 holding registers over MBAP/TCP; the reply `01 03 04 20 f0 12 34` (txn 1)
    arrives coalesced with the first bytes of something else -/

def exTcp : Cfg := ⟨.tcp, 1, .big, .highFirst⟩
def exRtu : Cfg := ⟨.rtu, 1, .big, .highFirst⟩
def exReplyTcp : Bytes := Mbap.assemble 1 ⟨1, 3, [4, 0x20, 0xf0, 0x12, 0x34]⟩ ++ [0xEE, 0xFF]

example : ((Op.readRegisters 0 2 0).run exTcp ⟨0, []⟩ exReplyTcp .timeout) =
    { written := some [0, 1, 0, 0, 0, 6, 1, 3, 0, 0, 0, 2],
      result := some (.ok (.u16s [0x20f0, 0x1234])),
      state := ⟨1, [0xEE, 0xFF]⟩ } := by decide +kernel
-- byte by byte: same value; the two surplus bytes stay pending as two chunks
example : (Chunked.Client.Op.runC (Op.readRegisters 0 2 0) exTcp ⟨0, []⟩ (bytewise exReplyTcp) .timeout) =
    { written := some [0, 1, 0, 0, 0, 6, 1, 3, 0, 0, 0, 2],
      result := some (.ok (.u16s [0x20f0, 0x1234])),
      state := ⟨1, [[0xEE], [0xFF]]⟩ } := by decide +kernel
-- split inside the header, unread input of an earlier call (a stale frame, txn 0) pending in
-- two chunks: the stale frame is skipped, same value
example : (Chunked.Client.Op.runC (Op.readRegisters 0 2 0) exTcp
      ⟨0, [[0, 0, 0, 0, 0], [], [3, 1, 0x83, 2]]⟩ (splitAt 5 exReplyTcp) .timeout) =
    { written := some [0, 1, 0, 0, 0, 6, 1, 3, 0, 0, 0, 2],
      result := some (.ok (.u16s [0x20f0, 0x1234])),
      state := ⟨1, [[0xEE, 0xFF]]⟩ } := by decide +kernel
-- RTU, reply `01 03 04 20 f0 12 34 | crc`, byte by byte, and cut: ErrShortFrame / timeout alike
example : (Chunked.Client.Op.runC (Op.readRegisters 0 2 0) exRtu ⟨0, []⟩
      (bytewise (Rtu.assemble ⟨1, 3, [4, 0x20, 0xf0, 0x12, 0x34]⟩)) .timeout).result =
    some (.ok (.u16s [0x20f0, 0x1234])) := by decide +kernel
example : (Chunked.Client.Op.runC (Op.readRegisters 0 2 0) exRtu ⟨0, []⟩
      (bytewise ((Rtu.assemble ⟨1, 3, [4, 0x20, 0xf0, 0x12, 0x34]⟩).take 2)) .timeout).result =
    some (.error .shortFrame) := by decide +kernel
-- through the datagram adapter: the reply spread over three datagrams (one empty)
example : (Chunked.Client.Op.runU (Op.readRegisters 0 2 0) ⟨.udp, 1, .big, .highFirst⟩ ⟨0, ⟨[], []⟩⟩
      [exReplyTcp.take 4, [], exReplyTcp.drop 4] .timeout).result =
    some (.ok (.u16s [0x20f0, 0x1234])) := by decide +kernel

/-- a history of two calls: reply 1 arrives coalesced with the first 3 bytes of reply 2, which
    stay pending (as a chunk) and are completed by the arrivals of call 2 -/
def exHistory : List Chunked.Client.CallC :=
  [ ⟨Op.readRegisters 0 2 0, exTcp,
      [Mbap.assemble 1 ⟨1, 3, [4, 0x20, 0xf0, 0x12, 0x34]⟩ ++ [0, 2, 0]], .timeout⟩,
    ⟨Op.readRegister 7 0, exTcp, [[0, 0], [5, 1, 3], [], [2, 0xBE, 0xEF]], .timeout⟩ ]

example : Chunked.Client.historyC ⟨0, []⟩ exHistory =
    ([ (some [0, 1, 0, 0, 0, 6, 1, 3, 0, 0, 0, 2], some (.ok (.u16s [0x20f0, 0x1234]))),
       (some [0, 2, 0, 0, 0, 6, 1, 3, 0, 7, 0, 1], some (.ok (.u16s [0xBEEF]))) ],
     ⟨2, []⟩) := by decide +kernel
example : (Chunked.Client.history ⟨0, []⟩ (exHistory.map Chunked.Client.CallC.flat)).1 =
    (Chunked.Client.historyC ⟨0, []⟩ exHistory).1 := by decide +kernel

end Modbus.Props.C12

#print axioms Modbus.Props.C12.C12W_client_call_chunking
#print axioms Modbus.Props.C12.C12W_client_call_chunking_record
#print axioms Modbus.Props.C12.C12W_client_core_chunking
#print axioms Modbus.Props.C12.C12W_client_call_udp
#print axioms Modbus.Props.C12.C12W_client_call_udp_small
#print axioms Modbus.Props.C12.C12W_client_segmentation
#print axioms Modbus.Props.C12.C12W_client_udp_partition
#print axioms Modbus.Props.C12.C12W_server_session_chunking
#print axioms Modbus.Props.C12.C12W_server_segmentation
#print axioms Modbus.Props.C12.C12W_server_named_deliveries
#print axioms Modbus.Props.C12.C12W_client_named_deliveries
#print axioms Modbus.Props.C12.C12W_history
#print axioms Modbus.Props.C12.C12W_history_segmentation
