import ModbusVerif.Lemmas.GoEvalTransportLemmas
import ModbusVerif.Lemmas.GoEvalLifeLemmas
import ModbusVerif.Props.C11Src
import ModbusVerif.Model.Mbap
/-
  C03 / C09 / C11, source tie for the SERVER side of the transports: `tcpTransport.ReadRequest`,
  `tcpTransport.WriteResponse`, `tcpTransport.Close`, `rtuTransport.ReadRequest`,
  `rtuTransport.WriteResponse`, `rtuTransport.Close` (tcp_transport.go, rtu_transport.go) as rendered by
  the translator (`Gen.gs_tcpTransport_ReadRequest`, …, regenerated from /repo on every run), EVALUATED
  with Go semantics by `Modbus.GoEval` for EVERY outcome of their external calls. These are the three
  methods the request loop `handleTransport` (Props/C03Src.lean, Props/C11Src.lean) calls on its
  transport `t`; the model (`Server.runAux`) reads a frame with `Mbap.readFrame` and answers with
  `Mbap.assemble txn …`, `txn` the id of the frame just read.

  ## What is proved (all theorems: any entry environment in which the name `nil` is not shadowed;
  every fuel from the stated bound on; errors are symbols, `"nil"` = no error)

  1. `C03T_readRequest_run` / `C03T_readRequest` (oracle `rdOracle dl req txn fe`: `tt.socket.SetDeadline`
     returns the error `dl`, `tt.readMBAPFrame` returns `(req, txn : U16, fe)`; `req` ANY value):
     the run RETURNS; the final `err` is nil IFF `dl = nil ∧ fe = nil`; `tt.lastTxnId` is bound IFF both
     succeeded, then exactly once and to `txn` (otherwise: same value AND same number of bindings as on
     entry); `req` is the reader's whenever the reader was called, untouched otherwise; the call log is
     `[SetDeadline [value of the leaf time.Now().Add(tt.timeout)], readMBAPFrame []]`, or its prefix
     `[SetDeadline …]` when `dl ≠ nil`; if the frame reader was called then `dl = nil` and the first
     call of the run is that `SetDeadline`.
     `C03T_no_read_without_deadline`: the same last fact under EVERY oracle whatsoever (answers of any
     shape, refusals included): the reader is called only after `tt.socket.SetDeadline(<the leaf>)` was
     the first call and was answered `nil`.
     `C03T_readRequest_static`: the two call sites (targets, callee, argument leaf texts): the deadline
     callee is `tt.socket.SetDeadline` — both directions, not `SetReadDeadline` — with the single
     argument `time.Now().Add(tt.timeout)` (`addArg?` reads `tt.timeout` back); the only assignment to
     `tt.lastTxnId` is from the variable `txnId`; no opaque statement; no parameter.
  2. `C03T_writeResponse_run` / `C03T_writeResponse` (oracle `wrOracle wd n we`: `tt.socket.SetWriteDeadline`
     returns the error `wd`, `tt.socket.Write` returns `(n, we)`; fuel ≥ 7): the run returns; the call log
     is `[SetWriteDeadline [value of the leaf time.Now().Add(tt.timeout)], Write [value of the leaf
     tt.assembleMBAPFrame(tt.lastTxnId, res)]]`, or its prefix `[SetWriteDeadline …]` when `wd ≠ nil`;
     `err` is `wd` when the deadline could not be set, else the write's; if `Write` was called then
     `wd = nil` and the first call of the run is that `SetWriteDeadline`; `tt.lastTxnId` and `res` keep
     value and number of bindings.
     `C03T_no_write_without_deadline`: under EVERY oracle whatsoever `Write` is called only after
     `tt.socket.SetWriteDeadline(<the leaf>)` was the first call and was answered `nil` — the response
     is never written without a fresh write deadline.
     Static: the two call sites; the deadline callee is exactly `tt.socket.SetWriteDeadline`, its
     argument leaf `time.Now().Add(tt.timeout)` (`addArg?` reads `tt.timeout` back); the frame leaf parsed
     (`parseCall2`) = `tt.assembleMBAPFrame` applied to `tt.lastTxnId` and the parameter `res`; targets
     `err`, `_`, `err` only.
  3. `C03T_round`, `C03T_echo`, `C03T_echo_failed_read`: composition on one receiver. A `ReadRequest`
     that succeeded with id `t`, then `WriteResponse(res)`: AT the `Write` (the second call; run cut
     there by `wrCutOracle`: `stoppedAt`, log `[SetWriteDeadline …]`) the variable `tt.lastTxnId` has the
     value `t` and `res` the response given, and the frame leaf has the value `F t res`; when the write
     deadline cannot be set nothing is written and the id stays `t`; a second round with id `t'` writes
     `F t' res'` — not `F t …`; a FAILED `ReadRequest` in between leaves the id at `t`.
     `C03T_model_frame`: in the model's frame `Mbap.assemble t p` bytes 0–1 are `t`, 2–3 are 0, byte 6
     is the unit id (that the Go `assembleMBAPFrame` builds these bytes: Props/C01SrcBytes.lean
     `C01B_mbap_frame`, Props/C18Src).
  4. `C03T_close`: both `Close` make exactly one call (`tt.socket.Close` / `rt.link.Close`) and return
     its result (ANY value) in `err`.
  5. `C03T_rtu_server_side`: `rtuTransport.ReadRequest` makes one call, `fmt.Errorf("unimplemented")`,
     returns its value as `err`, never touches `req` nor the link: an RTU transport cannot serve.
     `rtuTransport.WriteResponse` (oracle `rtuWrOracle n we tnow`): one `rt.link.Write [leaf
     rt.assembleRTUFrame(res)]`; on error nothing else, `rt.lastActivity` unbound; on success
     `rt.lastActivity` is bound once, from `time.Now().Add(x)` with `x = wrap .i64 (t1 * n)` — Go's
     `rt.t1 * time.Duration(n)` in int64 — and `x = t1 * n` exactly when that product is in the int64
     range. ASSUMED: `rt.t1` is bound to an integer `t1` (any), the byte count `n` is in the range of a
     Go `int` (−2^63 ≤ n < 2^63).
  6. `C03T_session_uses_these` (static, on `gs_ModbusServer_handleTransport`): the function is
     `for { body }; return`; its calls on `t` are, in program order, `req, err = t.ReadRequest()`,
     `t.Close()`, `err = t.WriteResponse(res)` and nothing else (also `C11S_one_transport`); `t` and
     `t.…` are never assigned; ALL SYNTACTIC PATHS through one round (`tPaths`: both branches of every
     `if`, conditions ignored) perform on `t` exactly `ReadRequest` then return | `ReadRequest`,
     `Close` then return | `ReadRequest`, `WriteResponse` then next round; with the handler calls
     included: `ReadRequest`, at most one `ms.handler.*`, then `Close` | `WriteResponse`.
  7. Section "sensitivity": variants DERIVED from the generated terms by syntactic transformers
     (`swapAt`, `dropStmts`, `renameCallee`, `substLeaf`; `C03T_variants` shows what they are) are told
     apart from the source terms by concrete runs (`decide +kernel`); among them `wrNoDeadline`, the
     `WriteResponse` of before commit d1a97bc (no write deadline of its own).

  ## What is modelled, not derived
  * The ANSWERS of the external calls are parameters (the oracles), quantified over. What
    `SetDeadline` means for a later blocking `Read` / `Write` of the socket (package net) is not
    modelled: shown is that it is called, with which argument, before the frame is read, and that the
    frame is not read when it failed. `tt.readMBAPFrame` is tied to `Mbap.readFrame` in
    Props/C02SrcFrames.lean; here its three results are arbitrary.
  * Leaves are keyed by their TEXT. `time.Now().Add(tt.timeout)`, `tt.assembleMBAPFrame(tt.lastTxnId,
    res)`, `rt.assembleRTUFrame(res)`, `"unimplemented"` are single leaves; 1./2./4./5. pass on whatever
    value the entry environment gives them (`Env.read env <text>`; unbound = `unk`).
  * 3. The evaluator does not compute `assembleMBAPFrame`. Modelled: (a) the receiver field
    `tt.lastTxnId` lives across method runs: the next run's entry environment takes it from the
    environment the previous run left (`rdEnter`, `wrLocals`; the device of `calleeEnv` in Props/C05Src);
    locals and named results start zero-valued; (b) the frame leaf of a `WriteResponse`-like term is
    bound, in the entry environment, to `F (value of its first argument text) (value of its second)`
    with `F : Val → Val → Val` ARBITRARY (`wrEnterOf`, `frameLeafVal`: the leaf text is parsed, a numeral
    argument is its number, any other argument is the variable of that name; the deadline leaf is
    bound to the symbol of its text). The environment of the `Write` call is shown (`s.how = stoppedAt …`,
    `s.env`): it is the entry environment plus the binding of `err` by the deadline call, so
    `tt.lastTxnId` and `res` have their entry values there. So 3. shows the VALUE OF THE VARIABLE THE
    LEAF NAMES at the time of the call, and the leaf's value as a function of it.
  * 6. `t` is an interface value; that `t.ReadRequest` dispatches to `tcpTransport.ReadRequest` rests on
    `handleTCPClient` passing `newTCPTransport(…)` (`C11S_fresh_transport_per_connection`) and on Go's
    method dispatch (not modelled). `tPaths` over-approximates the runs (every run follows one
    syntactic path); the per-outcome call logs of a round are Props/C03Src.lean.
  * locks and logging are dropped by the translator.

  ## Findings
  * FOUND HERE, REPRODUCED, FIXED. The first version of this file (source before d1a97bc) showed that
    `WriteResponse` made exactly one call, the `Write`: it armed no deadline of its own, so the write
    deadline in force was the one `ReadRequest` armed BEFORE waiting for the request, and the time
    spent waiting for the request and in the handler counted against it. Reproduced on the real server
    (idle timeout 300 ms, request at 220 ms, handler 120 ms: the handler ran, the response was dropped
    with an i/o timeout, the connection stayed — `handleTransport` only logs a `WriteResponse` error).
    Repaired in /repo by commit d1a97bc: `WriteResponse` first calls
    `tt.socket.SetWriteDeadline(time.Now().Add(tt.timeout))`; 2. above is about the repaired term,
    `wrNoDeadline` / `C03T_sens_no_write_deadline` keep the old one apart, Props/C03Clock.lean is a
    clocked model of the defect and the repair.
  * No outcome on which the CURRENT source disagrees with the property was found.
  * Observation: `rtuTransport.ReadRequest` always fails: harmless because the server only builds TCP
    transports.
-/
set_option linter.unusedSimpArgs false
set_option linter.unusedVariables false

namespace Modbus.GoEval.SrvT
open Modbus Modbus.Gen Modbus.GoEval

/-! ## helpers: leaves, oracles, runs -/

/-- the opaque leaves of the six functions (their source text) -/
def dlLeaf : String := "time.Now().Add(tt.timeout)"
def frLeaf : String := "tt.assembleMBAPFrame(tt.lastTxnId, res)"
def rtuFrLeaf : String := "rt.assembleRTUFrame(res)"
def unimplLeaf : String := "\"unimplemented\""

/-- the external calls of `tcpTransport.ReadRequest`: `tt.socket.SetDeadline` returns the error
    `dl` (`"nil"`: success), `tt.readMBAPFrame` returns `(req, txn, fe)`. Nothing else is answered. -/
def rdOracle (dl : String) (req : Val) (txn : U16) (fe : String) : Oracle := fun f _ =>
  if f = "tt.socket.SetDeadline" then some [.sym dl]
  else if f = "tt.readMBAPFrame" then some [req, .int txn.toNat, .sym fe]
  else none

/-- the external calls of `tcpTransport.WriteResponse`: `tt.socket.SetWriteDeadline` returns the error
    `wd` (`"nil"`: success), `tt.socket.Write` returns `(n, we)`. Nothing else is answered. -/
def wrOracle (wd : String) (n : Val) (we : String) : Oracle := fun f _ =>
  if f = "tt.socket.SetWriteDeadline" then some [.sym wd]
  else if f = "tt.socket.Write" then some [n, .sym we]
  else none

/-- the write deadline is armed, the `Write` is not answered: the run is cut AT the `Write` -/
def wrCutOracle : Oracle := fun f _ =>
  if f = "tt.socket.SetWriteDeadline" then some [.sym "nil"] else none

/-- the one callee `c` returns the single value `v`. Nothing else is answered. -/
def oneOracle (c : String) (v : Val) : Oracle := fun f _ =>
  if f = c then some [v] else none

/-- `rt.link.Write` returns `(n, we)`, `time.Now().Add` returns `tnow`. -/
def rtuWrOracle (n : Int) (we : String) (tnow : Val) : Oracle := fun f _ =>
  if f = "rt.link.Write" then some [.int n, .sym we]
  else if f = "time.Now().Add" then some [tnow]
  else none

def sdCall (env : Env) : String × List Val := ("tt.socket.SetDeadline", [Env.read env dlLeaf])
def rdCall : String × List Val := ("tt.readMBAPFrame", [])
def wdCall (env : Env) : String × List Val := ("tt.socket.SetWriteDeadline", [Env.read env dlLeaf])
def wrCall (env : Env) : String × List Val := ("tt.socket.Write", [Env.read env frLeaf])

/-- **`tcpTransport.ReadRequest`, every outcome**, from any environment in which `nil` is not
    shadowed and any call history; fuel `k + 8` -/
theorem rd_run (dl : String) (req : Val) (txn : U16) (fe : String) (env : Env) (cs : Calls)
    (hnil : Env.read? env "nil" = none) (fuel : Nat) (hf : 8 ≤ fuel) :
    execFrom (rdOracle dl req txn fe) fuel gs_tcpTransport_ReadRequest env cs =
      if dl ≠ "nil" then ⟨Env.write env "err" (.sym dl), .returned, cs ++ [sdCall env]⟩
      else if fe ≠ "nil" then
        ⟨Env.write (Env.write (Env.write (Env.write env "err" (.sym dl)) "req" req) "txnId"
          (.int txn.toNat)) "err" (.sym fe), .returned, cs ++ [sdCall env, rdCall]⟩
      else
        ⟨Env.write (Env.write (Env.write (Env.write (Env.write env "err" (.sym dl)) "req" req) "txnId"
          (.int txn.toNat)) "err" (.sym fe)) "tt.lastTxnId" (.int txn.toNat), .returned,
          cs ++ [sdCall env, rdCall]⟩ := by
  obtain ⟨k, rfl⟩ := Nat.exists_eq_add_of_le hf
  rw [Nat.add_comm]
  by_cases hd : dl = "nil"
  · subst hd
    by_cases hfe : fe = "nil"
    · subst hfe
      go_eval [gs_tcpTransport_ReadRequest, rdOracle, sdCall, rdCall, dlLeaf, hnil, ne_eq,
        not_true_eq_false, List.append_assoc]
    · go_eval [gs_tcpTransport_ReadRequest, rdOracle, sdCall, rdCall, dlLeaf, hnil, hfe, ne_eq,
        not_true_eq_false, not_false_eq_true, List.append_assoc]
  · go_eval [gs_tcpTransport_ReadRequest, rdOracle, sdCall, rdCall, dlLeaf, hnil, hd, ne_eq,
      not_false_eq_true, List.append_assoc]

/-- `ReadRequest` under ANY oracle (fuel `k + 8`): either the frame reader is not called, or the first
    call of the run is the `SetDeadline` and the oracle answered it with `nil` -/
theorem rd_any (o : Oracle) (env : Env) (hnil : Env.read? env "nil" = none) (k : Nat) :
    let r := execFrom o (k + 8) gs_tcpTransport_ReadRequest env []
    r.called "tt.readMBAPFrame" = false ∨
    (r.calls.head? = some (sdCall env) ∧
      ∃ rs, o "tt.socket.SetDeadline" [Env.read env dlLeaf] = some rs ∧ rs.headD .unk = .sym "nil") := by
  intro r
  cases h1 : o "tt.socket.SetDeadline" [(Env.read? env "time.Now().Add(tt.timeout)").getD .unk] with
  | none =>
    left
    have hr : r = ⟨env, .stoppedAt "tt.socket.SetDeadline"
        [(Env.read? env "time.Now().Add(tt.timeout)").getD .unk], []⟩ := by
      show execFrom o (k + 8) gs_tcpTransport_ReadRequest env [] = _
      go_eval [gs_tcpTransport_ReadRequest, h1]
    rw [hr]; rfl
  | some rs =>
    cases hv : rs.headD .unk with
    | int v =>
      left
      have hr : r = ⟨Env.write env "err" (.int v), .stuckAt "cond",
          [("tt.socket.SetDeadline", [(Env.read? env "time.Now().Add(tt.timeout)").getD .unk])]⟩ := by
        show execFrom o (k + 8) gs_tcpTransport_ReadRequest env [] = _
        go_eval [gs_tcpTransport_ReadRequest, ne_eq, not_true_eq_false, not_false_eq_true, h1, hv, hnil]
      rw [hr]; rfl
    | unk =>
      left
      have hr : r = ⟨Env.write env "err" .unk, .stuckAt "cond",
          [("tt.socket.SetDeadline", [(Env.read? env "time.Now().Add(tt.timeout)").getD .unk])]⟩ := by
        show execFrom o (k + 8) gs_tcpTransport_ReadRequest env [] = _
        go_eval [gs_tcpTransport_ReadRequest, ne_eq, not_true_eq_false, not_false_eq_true, h1, hv, hnil]
      rw [hr]; rfl
    | sym s =>
      by_cases hs : s = "nil"
      · subst hs
        right
        refine ⟨?_, rs, h1, hv⟩
        cases h2 : o "tt.readMBAPFrame" [] with
        | none =>
          have hr : r = ⟨Env.write env "err" (.sym "nil"), .stoppedAt "tt.readMBAPFrame" [],
              [("tt.socket.SetDeadline", [(Env.read? env "time.Now().Add(tt.timeout)").getD .unk])]⟩ := by
            show execFrom o (k + 8) gs_tcpTransport_ReadRequest env [] = _
            go_eval [gs_tcpTransport_ReadRequest, ne_eq, not_true_eq_false, not_false_eq_true, h1, hv, hnil, h2]
          rw [hr]; rfl
        | some rs2 =>
          have hc : r.calls = [("tt.socket.SetDeadline",
              [(Env.read? env "time.Now().Add(tt.timeout)").getD .unk]), ("tt.readMBAPFrame", [])] := by
            show (execFrom o (k + 8) gs_tcpTransport_ReadRequest env []).calls = _
            cases hv2 : rs2.tail.tail.headD .unk with
            | int v2 =>
              go_eval [gs_tcpTransport_ReadRequest, ne_eq, not_true_eq_false, not_false_eq_true, h1, hv,
                hnil, h2, hv2]
            | unk =>
              go_eval [gs_tcpTransport_ReadRequest, ne_eq, not_true_eq_false, not_false_eq_true, h1, hv,
                hnil, h2, hv2]
            | sym s2 =>
              by_cases hs2 : s2 = "nil"
              · subst hs2
                go_eval [gs_tcpTransport_ReadRequest, ne_eq, not_true_eq_false, not_false_eq_true, h1, hv,
                  hnil, h2, hv2]
              · go_eval [gs_tcpTransport_ReadRequest, ne_eq, not_true_eq_false, not_false_eq_true, h1, hv,
                  hnil, h2, hv2, hs2]
          rw [hc]; rfl
      · left
        have hr : r = ⟨Env.write env "err" (.sym s), .returned,
            [("tt.socket.SetDeadline", [(Env.read? env "time.Now().Add(tt.timeout)").getD .unk])]⟩ := by
          show execFrom o (k + 8) gs_tcpTransport_ReadRequest env [] = _
          go_eval [gs_tcpTransport_ReadRequest, ne_eq, not_true_eq_false, not_false_eq_true, h1, hv, hnil, hs]
        rw [hr]; rfl

/-- **`tcpTransport.WriteResponse`, every outcome** -/
theorem wr_run (wd : String) (n : Val) (we : String) (env : Env) (cs : Calls)
    (hnil : Env.read? env "nil" = none) (fuel : Nat) (hf : 7 ≤ fuel) :
    execFrom (wrOracle wd n we) fuel gs_tcpTransport_WriteResponse env cs =
      if wd ≠ "nil" then ⟨Env.write env "err" (.sym wd), .returned, cs ++ [wdCall env]⟩
      else ⟨Env.write (Env.write (Env.write env "err" (.sym wd)) "_" n) "err" (.sym we), .returned,
        cs ++ [wdCall env, wrCall env]⟩ := by
  obtain ⟨k, rfl⟩ := Nat.exists_eq_add_of_le hf
  rw [Nat.add_comm]
  by_cases hd : wd = "nil"
  · subst hd
    by_cases hw : we = "nil"
    · subst hw
      go_eval [gs_tcpTransport_WriteResponse, wrOracle, wdCall, wrCall, dlLeaf, frLeaf, hnil, ne_eq,
        not_true_eq_false, List.append_assoc]
    · go_eval [gs_tcpTransport_WriteResponse, wrOracle, wdCall, wrCall, dlLeaf, frLeaf, hnil, hw, ne_eq,
        not_true_eq_false, not_false_eq_true, List.append_assoc]
  · go_eval [gs_tcpTransport_WriteResponse, wrOracle, wdCall, wrCall, dlLeaf, frLeaf, hnil, hd, ne_eq,
      not_false_eq_true, List.append_assoc]

/-- `WriteResponse` cut AT the `Write` (`wrCutOracle`): the environment of the call — the entry
    environment plus the binding of `err` by the deadline call -/
theorem wr_stop (env : Env) (cs : Calls) (hnil : Env.read? env "nil" = none) (fuel : Nat)
    (hf : 7 ≤ fuel) :
    execFrom wrCutOracle fuel gs_tcpTransport_WriteResponse env cs =
      ⟨Env.write env "err" (.sym "nil"), .stoppedAt "tt.socket.Write" [Env.read env frLeaf],
        cs ++ [wdCall env]⟩ := by
  obtain ⟨k, rfl⟩ := Nat.exists_eq_add_of_le hf
  rw [Nat.add_comm]
  go_eval [gs_tcpTransport_WriteResponse, wrCutOracle, wdCall, dlLeaf, frLeaf, hnil, ne_eq,
    not_true_eq_false]

/-- `WriteResponse` under ANY oracle (fuel `k + 7`): either `Write` is not called, or the first call
    of the run is the `SetWriteDeadline` and the oracle answered it with `nil` -/
theorem wr_any (o : Oracle) (env : Env) (hnil : Env.read? env "nil" = none) (k : Nat) :
    let r := execFrom o (k + 7) gs_tcpTransport_WriteResponse env []
    r.called "tt.socket.Write" = false ∨
    (r.calls.head? = some (wdCall env) ∧
      ∃ rs, o "tt.socket.SetWriteDeadline" [Env.read env dlLeaf] = some rs ∧
        rs.headD .unk = .sym "nil") := by
  intro r
  cases h1 : o "tt.socket.SetWriteDeadline" [(Env.read? env "time.Now().Add(tt.timeout)").getD .unk] with
  | none =>
    left
    have hr : r = ⟨env, .stoppedAt "tt.socket.SetWriteDeadline"
        [(Env.read? env "time.Now().Add(tt.timeout)").getD .unk], []⟩ := by
      show execFrom o (k + 7) gs_tcpTransport_WriteResponse env [] = _
      go_eval [gs_tcpTransport_WriteResponse, h1]
    rw [hr]; rfl
  | some rs =>
    cases hv : rs.headD .unk with
    | int v =>
      left
      have hr : r.calls = [("tt.socket.SetWriteDeadline",
          [(Env.read? env "time.Now().Add(tt.timeout)").getD .unk])] := by
        show (execFrom o (k + 7) gs_tcpTransport_WriteResponse env []).calls = _
        go_eval [gs_tcpTransport_WriteResponse, h1, hv, hnil]
      unfold Res.called; rw [hr]; rfl
    | unk =>
      left
      have hr : r.calls = [("tt.socket.SetWriteDeadline",
          [(Env.read? env "time.Now().Add(tt.timeout)").getD .unk])] := by
        show (execFrom o (k + 7) gs_tcpTransport_WriteResponse env []).calls = _
        go_eval [gs_tcpTransport_WriteResponse, h1, hv, hnil]
      unfold Res.called; rw [hr]; rfl
    | sym s =>
      by_cases hs : s = "nil"
      · subst hs
        right
        refine ⟨?_, rs, h1, hv⟩
        cases h2 : o "tt.socket.Write"
            [(Env.read? env "tt.assembleMBAPFrame(tt.lastTxnId, res)").getD .unk] with
        | none =>
          have hr : r.calls = [("tt.socket.SetWriteDeadline",
              [(Env.read? env "time.Now().Add(tt.timeout)").getD .unk])] := by
            show (execFrom o (k + 7) gs_tcpTransport_WriteResponse env []).calls = _
            go_eval [gs_tcpTransport_WriteResponse, ne_eq, not_true_eq_false, h1, hv, hnil, h2]
          rw [hr]; rfl
        | some rs2 =>
          have hc : r.calls = [("tt.socket.SetWriteDeadline",
              [(Env.read? env "time.Now().Add(tt.timeout)").getD .unk]),
              ("tt.socket.Write", [(Env.read? env "tt.assembleMBAPFrame(tt.lastTxnId, res)").getD .unk])] := by
            show (execFrom o (k + 7) gs_tcpTransport_WriteResponse env []).calls = _
            cases hv2 : rs2.tail.headD .unk with
            | int v2 =>
              go_eval [gs_tcpTransport_WriteResponse, ne_eq, not_true_eq_false, not_false_eq_true, h1, hv,
                hnil, h2, hv2]
            | unk =>
              go_eval [gs_tcpTransport_WriteResponse, ne_eq, not_true_eq_false, not_false_eq_true, h1, hv,
                hnil, h2, hv2]
            | sym s2 =>
              by_cases hs2 : s2 = "nil"
              · subst hs2
                go_eval [gs_tcpTransport_WriteResponse, ne_eq, not_true_eq_false, not_false_eq_true, h1, hv,
                  hnil, h2, hv2]
              · go_eval [gs_tcpTransport_WriteResponse, ne_eq, not_true_eq_false, not_false_eq_true, h1, hv,
                  hnil, h2, hv2, hs2]
          rw [hc]; rfl
      · left
        have hr : r.calls = [("tt.socket.SetWriteDeadline",
            [(Env.read? env "time.Now().Add(tt.timeout)").getD .unk])] := by
          show (execFrom o (k + 7) gs_tcpTransport_WriteResponse env []).calls = _
          go_eval [gs_tcpTransport_WriteResponse, ne_eq, not_true_eq_false, not_false_eq_true, h1, hv, hnil,
            hs]
        unfold Res.called; rw [hr]; rfl

/-- the two `Close` functions -/
theorem close_tcp_run (v : Val) (env : Env) (cs : Calls) (fuel : Nat) (hf : 3 ≤ fuel) :
    execFrom (oneOracle "tt.socket.Close" v) fuel gs_tcpTransport_Close env cs =
      ⟨Env.write env "err" v, .returned, cs ++ [("tt.socket.Close", [])]⟩ := by
  obtain ⟨k, rfl⟩ := Nat.exists_eq_add_of_le hf
  rw [Nat.add_comm]
  go_eval [gs_tcpTransport_Close, oneOracle]

theorem close_rtu_run (v : Val) (env : Env) (cs : Calls) (fuel : Nat) (hf : 3 ≤ fuel) :
    execFrom (oneOracle "rt.link.Close" v) fuel gs_rtuTransport_Close env cs =
      ⟨Env.write env "err" v, .returned, cs ++ [("rt.link.Close", [])]⟩ := by
  obtain ⟨k, rfl⟩ := Nat.exists_eq_add_of_le hf
  rw [Nat.add_comm]
  go_eval [gs_rtuTransport_Close, oneOracle]

/-- `rtuTransport.ReadRequest` -/
theorem rtu_rd_run (v : Val) (env : Env) (cs : Calls) (fuel : Nat) (hf : 3 ≤ fuel) :
    execFrom (oneOracle "fmt.Errorf" v) fuel gs_rtuTransport_ReadRequest env cs =
      ⟨Env.write env "err" v, .returned, cs ++ [("fmt.Errorf", [Env.read env unimplLeaf])]⟩ := by
  obtain ⟨k, rfl⟩ := Nat.exists_eq_add_of_le hf
  rw [Nat.add_comm]
  go_eval [gs_rtuTransport_ReadRequest, oneOracle, unimplLeaf]

/-- **`rtuTransport.WriteResponse`, every outcome**; the multiplication is Go's: in `int64`
    (`time.Duration`), wrapping -/
theorem rtu_wr_run (n : Int) (we : String) (tnow : Val) (t1 : Int) (env : Env) (cs : Calls)
    (hnil : Env.read? env "nil" = none) (ht1 : Env.read? env "rt.t1" = some (.int t1)) (fuel : Nat) (hf : 6 ≤ fuel) :
    execFrom (rtuWrOracle n we tnow) fuel gs_rtuTransport_WriteResponse env cs =
      if we ≠ "nil" then
        ⟨Env.write (Env.write env "n" (.int n)) "err" (.sym we), .returned,
          cs ++ [("rt.link.Write", [Env.read env rtuFrLeaf])]⟩
      else
        ⟨Env.write (Env.write (Env.write env "n" (.int n)) "err" (.sym we)) "rt.lastActivity" tnow,
          .returned,
          cs ++ [("rt.link.Write", [Env.read env rtuFrLeaf]),
            ("time.Now().Add", [.int (wrap .i64 (t1 * wrap .i64 n))])]⟩ := by
  obtain ⟨k, rfl⟩ := Nat.exists_eq_add_of_le hf
  rw [Nat.add_comm]
  by_cases hw : we = "nil"
  · subst hw
    go_eval_nowrap [gs_rtuTransport_WriteResponse, rtuWrOracle, rtuFrLeaf, hnil, ht1, ne_eq,
      not_true_eq_false, List.append_assoc]
  · go_eval_nowrap [gs_rtuTransport_WriteResponse, rtuWrOracle, rtuFrLeaf, hnil, ht1, hw, ne_eq,
      not_false_eq_true, List.append_assoc]

/-! ## the receiver field across method runs; the frame leaf -/

/-- `"f(a, b)"` ↦ `("f", "a", "b")` (first `(`, first `", "`, final `)`) -/
def parseCall2 (t : String) : Option (String × String × String) :=
  match splitOn? "(".toList t.toList with
  | some (f, r) =>
    match splitOn? ", ".toList r with
    | some (a, r2) =>
      match stripSuffix? ")".toList r2 with
      | some b => some (String.ofList f, String.ofList a, String.ofList b)
      | none => none
    | none => none
  | none => none

/-- value of an argument text: a decimal numeral, or the variable of that name -/
def argVal (env : Env) (a : String) : Val :=
  match natOfChars a.toList with
  | some k => .int k
  | none => Env.read env a

/-- value of a leaf `tt.assembleMBAPFrame(a, b)` in `env`: `F` (the meaning of `assembleMBAPFrame`, a
    parameter) applied to the values of its two argument texts; any other leaf (the deadline
    `time.Now().Add(tt.timeout)`): the symbol of its own text -/
def frameLeafVal (F : Val → Val → Val) (env : Env) (leaf : String) : Val :=
  match parseCall2 leaf with
  | some (f, a, b) => if f = "tt.assembleMBAPFrame" then F (argVal env a) (argVal env b) else .sym leaf
  | none => .sym leaf

/-- the `.call` leaves among the arguments of the `bindCall`s of a statement -/
def argCallLeaves (s : GStmt) : List String :=
  ((bindCalls s).map (fun c => (c.2.2.map callTexts).flatten)).flatten

/-- entry environment of a `ReadRequest` run that follows a method run which left `prev`: the
    receiver field `tt.lastTxnId` is carried over, the named results and the local are zero-valued,
    the deadline leaf is bound to the symbol of its own text -/
def rdEnter (prev : Env) : Env :=
  [("tt.lastTxnId", Env.read prev "tt.lastTxnId"), (dlLeaf, .sym dlLeaf), ("req", .sym "nil"),
   ("txnId", .int 0), ("err", .sym "nil")]

/-- receiver field, parameter `res`, named result `err` of a `WriteResponse` run after `prev` -/
def wrLocals (prev : Env) (res : Val) : Env :=
  [("tt.lastTxnId", Env.read prev "tt.lastTxnId"), ("res", res), ("err", .sym "nil")]

/-- entry environment of a run of the `WriteResponse`-like term `gs` after `prev`: `wrLocals`, and
    every call leaf among the arguments of `gs` bound to its value (`frameLeafVal`) there. The leaf is
    evaluated in the ENTRY environment; for the source term the environment of the `Write` call differs
    from it only by the binding of `err` made by the deadline call (`wr_stop`). -/
def wrEnterOf (gs : GStmt) (F : Val → Val → Val) (prev : Env) (res : Val) : Env :=
  (argCallLeaves gs).map (fun k => (k, frameLeafVal F (wrLocals prev res) k)) ++ wrLocals prev res

theorem wr_leaves : argCallLeaves gs_tcpTransport_WriteResponse = [dlLeaf, frLeaf] := by decide +kernel
theorem dl_parse : parseCall2 dlLeaf = none := by decide +kernel
theorem fr_parse : parseCall2 frLeaf = some ("tt.assembleMBAPFrame", "tt.lastTxnId", "res") := by
  decide +kernel
theorem id_not_num : natOfChars "tt.lastTxnId".toList = none := by decide +kernel
theorem res_not_num : natOfChars "res".toList = none := by decide +kernel

theorem frameLeafVal_fr (F : Val → Val → Val) (prev : Env) (res : Val) :
    frameLeafVal F (wrLocals prev res) frLeaf = F (Env.read prev "tt.lastTxnId") res := by
  simp only [frameLeafVal, fr_parse, argVal, id_not_num, res_not_num, wrLocals, read_def, read?_cons,
    String.reduceEq, ↓reduceIte, Option.getD_some]

/-- the entry environment of the SOURCE `WriteResponse`, spelled out -/
theorem wrEnter_eq (F : Val → Val → Val) (prev : Env) (res : Val) :
    wrEnterOf gs_tcpTransport_WriteResponse F prev res =
      (dlLeaf, .sym dlLeaf) :: (frLeaf, F (Env.read prev "tt.lastTxnId") res) :: wrLocals prev res := by
  have hd : frameLeafVal F (wrLocals prev res) dlLeaf = .sym dlLeaf := by
    simp only [frameLeafVal, dl_parse]
  simp only [wrEnterOf, wr_leaves, List.map, frameLeafVal_fr, hd, List.cons_append, List.nil_append]

theorem rdEnter_id (prev : Env) :
    Env.read (rdEnter prev) "tt.lastTxnId" = Env.read prev "tt.lastTxnId" := by
  simp only [rdEnter, Env.read, read?_cons, ↓reduceIte, Option.getD_some]

theorem rdEnter_nil (prev : Env) : Env.read? (rdEnter prev) "nil" = none := by
  simp only [rdEnter, dlLeaf, read?_cons, read?_nil, String.reduceEq, ↓reduceIte]

theorem wrEnter_nil (F : Val → Val → Val) (prev : Env) (res : Val) :
    Env.read? (wrEnterOf gs_tcpTransport_WriteResponse F prev res) "nil" = none := by
  simp only [wrEnter_eq, wrLocals, dlLeaf, frLeaf, read?_cons, read?_nil, String.reduceEq, ↓reduceIte]

/-! ## all syntactic paths of a statement -/

/-- how a syntactic path leaves a statement; `again`: the path re-enters a loop -/
inductive PEnd | fell | returned | broke | continued | again | stuck
  deriving DecidableEq, Repr

def pSeq (pa pb : List (List String × PEnd)) : List (List String × PEnd) :=
  ((pa.map (fun a => if a.2 = .fell then pb.map (fun b => (a.1 ++ b.1, b.2)) else [a])).flatten).eraseDups

/-- ALL syntactic paths through a statement (both branches of every `if`, conditions ignored): the
    callees satisfying `p`, in order, and how the path leaves the statement; duplicates removed. A
    path through a loop body that breaks leaves the loop (`fell`); one that falls through or
    `continue`s is marked `again` and not followed further. -/
def tPaths (p : String → Bool) : GStmt → List (List String × PEnd)
  | .skip => [([], .fell)]
  | .assign _ _ => [([], .fell)]
  | .bindCall _ f _ => [(if p f then [f] else [], .fell)]
  | .ret => [([], .returned)]
  | .brk => [([], .broke)]
  | .cont => [([], .continued)]
  | .opaque _ => [([], .stuck)]
  | .seq a b => pSeq (tPaths p a) (tPaths p b)
  | .ite _ t e => (tPaths p t ++ tPaths p e).eraseDups
  | .loop b => ((tPaths p b).map (fun a => match a.2 with
      | .broke => (a.1, PEnd.fell) | .fell | .continued => (a.1, PEnd.again) | _ => a)).eraseDups

/-- the body of the loop of a function of the shape `for { body }; return` -/
def loopBodyOf : GStmt → GStmt | .seq (.loop b) _ => b | _ => .skip

/-! ## variants of the generated terms (sensitivity) -/

/-- swap the `k`-th and `k+1`-th statement of a right-nested sequence -/
def swapAt : Nat → GStmt → GStmt
  | 0, .seq a (.seq b c) => .seq b (.seq a c)
  | k + 1, .seq a b => .seq a (swapAt k b)
  | _, s => s

/-- drop the first `k` statements of a right-nested sequence -/
def dropStmts : Nat → GStmt → GStmt
  | k + 1, .seq _ b => dropStmts k b
  | _, s => s

def substLeafE (old new : String) : GExpr → GExpr
  | .call x t => .call (if x = old then new else x) t
  | .conv t e => .conv t (substLeafE old new e)
  | .bin op t a b => .bin op t (substLeafE old new a) (substLeafE old new b)
  | .cmp op a b => .cmp op (substLeafE old new a) (substLeafE old new b)
  | .not e => .not (substLeafE old new e)
  | .and a b => .and (substLeafE old new a) (substLeafE old new b)
  | .or a b => .or (substLeafE old new a) (substLeafE old new b)
  | e => e

/-- replace the call leaf `old` by `new` in the arguments of every `bindCall` -/
def substLeaf (old new : String) : GStmt → GStmt
  | .bindCall ts f as => .bindCall ts f (as.map (substLeafE old new))
  | .ite c t e => .ite c (substLeaf old new t) (substLeaf old new e)
  | .seq a b => .seq (substLeaf old new a) (substLeaf old new b)
  | .loop b => .loop (substLeaf old new b)
  | s => s

/-- `tt.lastTxnId = txnId` moved in front of `if err != nil { return }` -/
def rdEarlyAssign : GStmt := swapAt 3 gs_tcpTransport_ReadRequest
/-- the `SetDeadline` call and its error test removed -/
def rdNoDeadline : GStmt := dropStmts 2 gs_tcpTransport_ReadRequest
/-- the seeded change: only the read direction gets a deadline -/
def rdReadDeadlineOnly : GStmt :=
  renameCallee "tt.socket.SetDeadline" "tt.socket.SetReadDeadline" gs_tcpTransport_ReadRequest
/-- the term BEFORE commit d1a97bc: no write deadline of its own, `Write` is the first call -/
def wrNoDeadline : GStmt := dropStmts 2 gs_tcpTransport_WriteResponse
/-- the response framed with transaction id 0 instead of the stored one -/
def wrZeroId : GStmt := substLeaf frLeaf "tt.assembleMBAPFrame(0, res)" gs_tcpTransport_WriteResponse

/-- the variants' oracle also answers the read-only deadline -/
def rdOracle' (dl : String) (req : Val) (txn : U16) (fe : String) : Oracle := fun f a =>
  if f = "tt.socket.SetReadDeadline" then some [.sym dl] else rdOracle dl req txn fe f a

end Modbus.GoEval.SrvT

namespace Modbus.Props.C03
open Modbus Modbus.Gen Modbus.GoEval Modbus.GoEval.SrvT

/-! ## 1. `tcpTransport.ReadRequest` -/

/-- the whole run as one `if`-tree over the outcomes, every fuel ≥ 8, any call history -/
theorem C03T_readRequest_run (dl : String) (req : Val) (txn : U16) (fe : String) (env : Env)
    (cs : Calls) (hnil : Env.read? env "nil" = none) (fuel : Nat) (hf : 8 ≤ fuel) :
    execFrom (rdOracle dl req txn fe) fuel gs_tcpTransport_ReadRequest env cs =
      if dl ≠ "nil" then ⟨Env.write env "err" (.sym dl), .returned, cs ++ [sdCall env]⟩
      else if fe ≠ "nil" then
        ⟨Env.write (Env.write (Env.write (Env.write env "err" (.sym dl)) "req" req) "txnId"
          (.int txn.toNat)) "err" (.sym fe), .returned, cs ++ [sdCall env, rdCall]⟩
      else
        ⟨Env.write (Env.write (Env.write (Env.write (Env.write env "err" (.sym dl)) "req" req) "txnId"
          (.int txn.toNat)) "err" (.sym fe)) "tt.lastTxnId" (.int txn.toNat), .returned,
          cs ++ [sdCall env, rdCall]⟩ :=
  rd_run dl req txn fe env cs hnil fuel hf

/-- **`ReadRequest`, every outcome** (see the header, 1.) -/
theorem C03T_readRequest (dl : String) (req : Val) (txn : U16) (fe : String) (env : Env)
    (hnil : Env.read? env "nil" = none) (fuel : Nat) (hf : 8 ≤ fuel) :
    let r := exec (rdOracle dl req txn fe) fuel gs_tcpTransport_ReadRequest env
    r.how = .returned ∧
    (∃ e, Env.read? r.env "err" = some (.sym e) ∧ (e = "nil" ↔ (dl = "nil" ∧ fe = "nil"))) ∧
    ((dl = "nil" ∧ fe = "nil") →
      Env.read? r.env "tt.lastTxnId" = some (.int txn.toNat) ∧
      writes "tt.lastTxnId" r.env = writes "tt.lastTxnId" env + 1) ∧
    (¬(dl = "nil" ∧ fe = "nil") →
      Env.read? r.env "tt.lastTxnId" = Env.read? env "tt.lastTxnId" ∧
      writes "tt.lastTxnId" r.env = writes "tt.lastTxnId" env) ∧
    (dl = "nil" → Env.read? r.env "req" = some req ∧ r.calls = [sdCall env, rdCall]) ∧
    (dl ≠ "nil" → Env.read? r.env "req" = Env.read? env "req" ∧ r.calls = [sdCall env]) ∧
    (r.called "tt.readMBAPFrame" = true → dl = "nil" ∧ r.calls.head? = some (sdCall env)) := by
  intro r
  have hr : r = _ := C03T_readRequest_run dl req txn fe env [] hnil fuel hf
  by_cases hd : dl = "nil"
  · by_cases hfe : fe = "nil"
    · simp only [hd, hfe, ne_eq, not_true_eq_false, ↓reduceIte, List.nil_append] at hr
      rw [hr]
      refine ⟨rfl, ⟨"nil", by simp only [read?_write, String.reduceEq, ↓reduceIte, hfe], by simp [hd, hfe]⟩,
        fun _ => ⟨by simp only [read?_write, ↓reduceIte], ?_⟩, fun h => absurd ⟨hd, hfe⟩ h,
        fun _ => ⟨by simp only [read?_write, String.reduceEq, ↓reduceIte], rfl⟩,
        fun h => absurd hd h, fun _ => ⟨hd, rfl⟩⟩
      simp only [writes_write, String.reduceEq, ↓reduceIte, Nat.add_zero]
    · simp only [hd, hfe, ne_eq, not_true_eq_false, not_false_eq_true, ↓reduceIte, List.nil_append] at hr
      rw [hr]
      refine ⟨rfl, ⟨fe, by simp only [read?_write, ↓reduceIte], by simp [hfe]⟩,
        fun h => absurd h.2 hfe, fun _ => ⟨by simp only [read?_write, String.reduceEq, ↓reduceIte], ?_⟩,
        fun _ => ⟨by simp only [read?_write, String.reduceEq, ↓reduceIte], rfl⟩,
        fun h => absurd hd h, fun _ => ⟨hd, rfl⟩⟩
      simp only [writes_write, String.reduceEq, ↓reduceIte, Nat.add_zero]
  · simp only [hd, ne_eq, not_false_eq_true, ↓reduceIte, List.nil_append] at hr
    rw [hr]
    refine ⟨rfl, ⟨dl, by simp only [read?_write, ↓reduceIte], by simp [hd]⟩,
      fun h => absurd h.1 hd, fun _ => ⟨by simp only [read?_write, String.reduceEq, ↓reduceIte], ?_⟩,
      fun h => absurd h hd, fun _ => ⟨by simp only [read?_write, String.reduceEq, ↓reduceIte], rfl⟩,
      fun h => ?_⟩
    · simp only [writes_write, String.reduceEq, ↓reduceIte, Nat.add_zero]
    · simp [Res.called, sdCall] at h

/-- **under EVERY oracle** (any answers, refusals included), every fuel ≥ 8: if the frame reader was
    called, the first call of the run was `tt.socket.SetDeadline(time.Now().Add(tt.timeout))` and the
    oracle answered it with `nil` -/
theorem C03T_no_read_without_deadline (o : Oracle) (env : Env) (hnil : Env.read? env "nil" = none)
    (fuel : Nat) (hf : 8 ≤ fuel) :
    let r := exec o fuel gs_tcpTransport_ReadRequest env
    r.called "tt.readMBAPFrame" = true →
      r.calls.head? = some ("tt.socket.SetDeadline", [Env.read env "time.Now().Add(tt.timeout)"]) ∧
      ∃ rs, o "tt.socket.SetDeadline" [Env.read env "time.Now().Add(tt.timeout)"] = some rs ∧
        rs.headD .unk = .sym "nil" := by
  intro r hc
  obtain ⟨k, rfl⟩ := Nat.exists_eq_add_of_le hf
  have h := rd_any o env hnil k
  rw [Nat.add_comm] at h
  rcases h with h | h
  · rw [show r.called "tt.readMBAPFrame" = false from h] at hc; cases hc
  · exact h

/-- static facts of `ReadRequest` -/
theorem C03T_readRequest_static :
    callTextsOfW gs_tcpTransport_ReadRequest =
      [(["err"], "tt.socket.SetDeadline", [some "time.Now().Add(tt.timeout)"]),
       (["req", "txnId", "err"], "tt.readMBAPFrame", [])] ∧
    addArg? "time.Now().Add(tt.timeout)" = some "tt.timeout" ∧
    assignedTexts "tt.lastTxnId" gs_tcpTransport_ReadRequest = [some "txnId"] ∧
    stmtTargets gs_tcpTransport_ReadRequest = ["err", "req", "txnId", "err", "tt.lastTxnId"] ∧
    opaques gs_tcpTransport_ReadRequest = [] ∧
    gsParams.lookup "tcpTransport.ReadRequest" = some [] ∧
    dlLeaf = "time.Now().Add(tt.timeout)" := by
  refine ⟨by decide +kernel, by decide +kernel, by decide +kernel, by decide +kernel,
    by decide +kernel, by decide +kernel, rfl⟩

/-! ## 2. `tcpTransport.WriteResponse` -/

/-- the whole run as one `if` over the outcome of the deadline call, every fuel ≥ 7, any call history -/
theorem C03T_writeResponse_run (wd : String) (n : Val) (we : String) (env : Env) (cs : Calls)
    (hnil : Env.read? env "nil" = none) (fuel : Nat) (hf : 7 ≤ fuel) :
    execFrom (wrOracle wd n we) fuel gs_tcpTransport_WriteResponse env cs =
      if wd ≠ "nil" then ⟨Env.write env "err" (.sym wd), .returned, cs ++ [wdCall env]⟩
      else ⟨Env.write (Env.write (Env.write env "err" (.sym wd)) "_" n) "err" (.sym we), .returned,
        cs ++ [wdCall env, wrCall env]⟩ :=
  wr_run wd n we env cs hnil fuel hf

/-- **`WriteResponse`, every outcome** (see the header, 2.) -/
theorem C03T_writeResponse (wd : String) (n : Val) (we : String) (env : Env)
    (hnil : Env.read? env "nil" = none) (fuel : Nat) (hf : 7 ≤ fuel) :
    let r := exec (wrOracle wd n we) fuel gs_tcpTransport_WriteResponse env
    let dlc : String × List Val := ("tt.socket.SetWriteDeadline", [Env.read env "time.Now().Add(tt.timeout)"])
    let wrc : String × List Val :=
      ("tt.socket.Write", [Env.read env "tt.assembleMBAPFrame(tt.lastTxnId, res)"])
    r.how = .returned ∧
    (wd = "nil" → r.calls = [dlc, wrc] ∧ Env.read? r.env "err" = some (.sym we)) ∧
    (wd ≠ "nil" → r.calls = [dlc] ∧ Env.read? r.env "err" = some (.sym wd)) ∧
    (r.called "tt.socket.Write" = true → wd = "nil" ∧ r.calls.head? = some dlc) ∧
    Env.read? r.env "tt.lastTxnId" = Env.read? env "tt.lastTxnId" ∧
    writes "tt.lastTxnId" r.env = writes "tt.lastTxnId" env ∧
    Env.read? r.env "res" = Env.read? env "res" ∧
    -- static
    callTextsOfW gs_tcpTransport_WriteResponse =
      [(["err"], "tt.socket.SetWriteDeadline", [some "time.Now().Add(tt.timeout)"]),
       (["_", "err"], "tt.socket.Write", [some "tt.assembleMBAPFrame(tt.lastTxnId, res)"])] ∧
    addArg? "time.Now().Add(tt.timeout)" = some "tt.timeout" ∧
    parseCall2 "tt.assembleMBAPFrame(tt.lastTxnId, res)" =
      some ("tt.assembleMBAPFrame", "tt.lastTxnId", "res") ∧
    gsParams.lookup "tcpTransport.WriteResponse" = some ["res"] ∧
    stmtTargets gs_tcpTransport_WriteResponse = ["err", "_", "err"] ∧
    assignedTexts "tt.lastTxnId" gs_tcpTransport_WriteResponse = [] ∧
    opaques gs_tcpTransport_WriteResponse = [] := by
  intro r dlc wrc
  have hr : r = _ := C03T_writeResponse_run wd n we env [] hnil fuel hf
  have hst : callTextsOfW gs_tcpTransport_WriteResponse =
      [(["err"], "tt.socket.SetWriteDeadline", [some "time.Now().Add(tt.timeout)"]),
       (["_", "err"], "tt.socket.Write", [some "tt.assembleMBAPFrame(tt.lastTxnId, res)"])] ∧
    addArg? "time.Now().Add(tt.timeout)" = some "tt.timeout" ∧
    parseCall2 "tt.assembleMBAPFrame(tt.lastTxnId, res)" =
      some ("tt.assembleMBAPFrame", "tt.lastTxnId", "res") ∧
    gsParams.lookup "tcpTransport.WriteResponse" = some ["res"] ∧
    stmtTargets gs_tcpTransport_WriteResponse = ["err", "_", "err"] ∧
    assignedTexts "tt.lastTxnId" gs_tcpTransport_WriteResponse = [] ∧
    opaques gs_tcpTransport_WriteResponse = [] :=
    ⟨by decide +kernel, by decide +kernel, by decide +kernel, by decide +kernel, by decide +kernel,
      by decide +kernel, by decide +kernel⟩
  by_cases hd : wd = "nil"
  · simp only [hd, ne_eq, not_true_eq_false, ↓reduceIte, List.nil_append] at hr
    rw [hr]
    exact ⟨rfl, fun _ => ⟨rfl, by simp only [read?_write, ↓reduceIte]⟩, fun h => absurd hd h,
      fun _ => ⟨hd, rfl⟩, by simp only [read?_write, String.reduceEq, ↓reduceIte],
      by simp only [writes_write, String.reduceEq, ↓reduceIte, Nat.add_zero],
      by simp only [read?_write, String.reduceEq, ↓reduceIte], hst⟩
  · simp only [hd, ne_eq, not_false_eq_true, ↓reduceIte, List.nil_append] at hr
    rw [hr]
    refine ⟨rfl, fun h => absurd h hd, fun _ => ⟨rfl, by simp only [read?_write, ↓reduceIte]⟩,
      fun h => ?_, by simp only [read?_write, String.reduceEq, ↓reduceIte],
      by simp only [writes_write, String.reduceEq, ↓reduceIte, Nat.add_zero],
      by simp only [read?_write, String.reduceEq, ↓reduceIte], hst⟩
    simp [Res.called, wdCall] at h

/-- **under EVERY oracle** (any answers, refusals included), every fuel ≥ 7: if `tt.socket.Write` was
    called, the first call of the run was `tt.socket.SetWriteDeadline(time.Now().Add(tt.timeout))` and
    the oracle answered it with `nil`: the response is never written without a fresh write deadline -/
theorem C03T_no_write_without_deadline (o : Oracle) (env : Env) (hnil : Env.read? env "nil" = none)
    (fuel : Nat) (hf : 7 ≤ fuel) :
    let r := exec o fuel gs_tcpTransport_WriteResponse env
    r.called "tt.socket.Write" = true →
      r.calls.head? = some ("tt.socket.SetWriteDeadline", [Env.read env "time.Now().Add(tt.timeout)"]) ∧
      ∃ rs, o "tt.socket.SetWriteDeadline" [Env.read env "time.Now().Add(tt.timeout)"] = some rs ∧
        rs.headD .unk = .sym "nil" := by
  intro r hc
  obtain ⟨k, rfl⟩ := Nat.exists_eq_add_of_le hf
  have h := wr_any o env hnil k
  rw [Nat.add_comm] at h
  rcases h with h | h
  · rw [show r.called "tt.socket.Write" = false from h] at hc; cases hc
  · exact h

/-! ## 3. the id a response carries -/

/-- one round on a transport whose previous method run left `prev`: `r` the read, `s` the
    `WriteResponse` cut AT its `Write`, `w` the whole `WriteResponse` -/
theorem C03T_round (F : Val → Val → Val) (prev : Env) (req res n : Val) (t : U16) (wd we : String)
    (fuel : Nat) (hf : 8 ≤ fuel) :
    let W := gs_tcpTransport_WriteResponse
    let r := exec (rdOracle "nil" req t "nil") fuel gs_tcpTransport_ReadRequest (rdEnter prev)
    let s := exec wrCutOracle fuel W (wrEnterOf W F r.env res)
    let w := exec (wrOracle wd n we) fuel W (wrEnterOf W F r.env res)
    let dlc : String × List Val := ("tt.socket.SetWriteDeadline", [.sym "time.Now().Add(tt.timeout)"])
    (r.how = .returned ∧ Env.read r.env "tt.lastTxnId" = .int t.toNat) ∧
    (s.how = .stoppedAt "tt.socket.Write" [F (.int t.toNat) res] ∧ s.calls = [dlc] ∧
      Env.read s.env "tt.lastTxnId" = .int t.toNat ∧ Env.read s.env "res" = res) ∧
    (w.how = .returned ∧
      (wd = "nil" → w.calls = [dlc, ("tt.socket.Write", [F (.int t.toNat) res])] ∧
        Env.read w.env "err" = .sym we) ∧
      (wd ≠ "nil" → w.calls = [dlc] ∧ Env.read w.env "err" = .sym wd) ∧
      Env.read w.env "tt.lastTxnId" = .int t.toNat) := by
  intro W r s w dlc
  have hr : r = _ := C03T_readRequest_run "nil" req t "nil" (rdEnter prev) [] (rdEnter_nil prev) fuel hf
  simp only [ne_eq, not_true_eq_false, ↓reduceIte, List.nil_append] at hr
  have hid : Env.read r.env "tt.lastTxnId" = .int t.toNat := by
    rw [hr]; simp only [read_def, read?_write, ↓reduceIte, Option.getD_some]
  have he : wrEnterOf W F r.env res =
      (dlLeaf, .sym dlLeaf) :: (frLeaf, F (.int t.toNat) res) :: wrLocals r.env res := by
    rw [wrEnter_eq, hid]
  have hl : wrLocals r.env res = [("tt.lastTxnId", .int t.toNat), ("res", res), ("err", .sym "nil")] := by
    rw [wrLocals, hid]
  have hnil : Env.read? (wrEnterOf W F r.env res) "nil" = none := wrEnter_nil F r.env res
  have hfr : Env.read (wrEnterOf W F r.env res) frLeaf = F (.int t.toNat) res := by
    rw [he]; simp only [read_def, read?_cons, dlLeaf, frLeaf, String.reduceEq, ↓reduceIte,
      Option.getD_some]
  have hdl : wdCall (wrEnterOf W F r.env res) = dlc := by
    rw [wdCall, he]; simp only [read_def, read?_cons, dlLeaf, ↓reduceIte, Option.getD_some, dlc]
  have hs : s = _ := wr_stop (wrEnterOf W F r.env res) [] hnil fuel (by omega)
  have hw : w = _ := C03T_writeResponse_run wd n we (wrEnterOf W F r.env res) [] hnil fuel (by omega)
  refine ⟨⟨by rw [hr], hid⟩, ?_, ?_⟩
  · rw [hs, hfr, hdl]
    refine ⟨rfl, rfl, ?_, ?_⟩
    · rw [he, hl]; simp only [read_def, read?_write, read?_cons, dlLeaf, frLeaf, String.reduceEq,
        ↓reduceIte, Option.getD_some]
    · rw [he, hl]; simp only [read_def, read?_write, read?_cons, dlLeaf, frLeaf, String.reduceEq,
        ↓reduceIte, Option.getD_some]
  · by_cases hd : wd = "nil"
    · simp only [hd, ne_eq, not_true_eq_false, ↓reduceIte, List.nil_append] at hw
      rw [hw]
      refine ⟨rfl, fun _ => ⟨by simp only [wrCall, hfr, hdl], ?_⟩, fun h => absurd hd h, ?_⟩
      · simp only [read_def, read?_write, ↓reduceIte, Option.getD_some]
      · rw [he, hl]; simp only [read_def, read?_write, read?_cons, dlLeaf, frLeaf, String.reduceEq,
          ↓reduceIte, Option.getD_some]
    · simp only [hd, ne_eq, not_false_eq_true, ↓reduceIte, List.nil_append] at hw
      rw [hw]
      refine ⟨rfl, fun h => absurd h hd, fun _ => ⟨by simp only [hdl], ?_⟩, ?_⟩
      · simp only [read_def, read?_write, ↓reduceIte, Option.getD_some]
      · rw [he, hl]; simp only [read_def, read?_write, read?_cons, dlLeaf, frLeaf, String.reduceEq,
          ↓reduceIte, Option.getD_some]

/-- **two rounds on one transport**: the first response is framed from id `t`, the second from `t'`
    (the write deadlines are taken to succeed; `C03T_round` has the other case) -/
theorem C03T_echo (F : Val → Val → Val) (env0 : Env) (req1 res1 n1 : Val) (t : U16) (we1 : String)
    (req2 res2 n2 : Val) (t' : U16) (we2 : String) (fuel : Nat) (hf : 8 ≤ fuel) :
    let R := gs_tcpTransport_ReadRequest
    let W := gs_tcpTransport_WriteResponse
    let dlc : String × List Val := ("tt.socket.SetWriteDeadline", [.sym "time.Now().Add(tt.timeout)"])
    let r1 := exec (rdOracle "nil" req1 t "nil") fuel R (rdEnter env0)
    let s1 := exec wrCutOracle fuel W (wrEnterOf W F r1.env res1)
    let w1 := exec (wrOracle "nil" n1 we1) fuel W (wrEnterOf W F r1.env res1)
    let r2 := exec (rdOracle "nil" req2 t' "nil") fuel R (rdEnter w1.env)
    let s2 := exec wrCutOracle fuel W (wrEnterOf W F r2.env res2)
    let w2 := exec (wrOracle "nil" n2 we2) fuel W (wrEnterOf W F r2.env res2)
    (s1.how = .stoppedAt "tt.socket.Write" [F (.int t.toNat) res1] ∧
      Env.read s1.env "tt.lastTxnId" = .int t.toNat ∧ Env.read s1.env "res" = res1 ∧
      w1.calls = [dlc, ("tt.socket.Write", [F (.int t.toNat) res1])]) ∧
    (s2.how = .stoppedAt "tt.socket.Write" [F (.int t'.toNat) res2] ∧
      Env.read s2.env "tt.lastTxnId" = .int t'.toNat ∧ Env.read s2.env "res" = res2 ∧
      w2.calls = [dlc, ("tt.socket.Write", [F (.int t'.toNat) res2])]) := by
  intro R W dlc r1 s1 w1 r2 s2 w2
  obtain ⟨_, ⟨a1, _, a2, a3⟩, _, a4, _⟩ := C03T_round F env0 req1 res1 n1 t "nil" we1 fuel hf
  obtain ⟨_, ⟨b1, _, b2, b3⟩, _, b4, _⟩ := C03T_round F w1.env req2 res2 n2 t' "nil" we2 fuel hf
  exact ⟨⟨a1, a2, a3, (a4 rfl).1⟩, ⟨b1, b2, b3, (b4 rfl).1⟩⟩

/-- a `ReadRequest` that FAILS after a served round leaves the stored id alone -/
theorem C03T_echo_failed_read (F : Val → Val → Val) (env0 : Env) (req1 res1 n1 : Val) (t : U16)
    (wd1 we1 : String) (dl : String) (req2 : Val) (t' : U16) (fe : String)
    (hfail : ¬(dl = "nil" ∧ fe = "nil")) (fuel : Nat) (hf : 8 ≤ fuel) :
    let R := gs_tcpTransport_ReadRequest
    let W := gs_tcpTransport_WriteResponse
    let r1 := exec (rdOracle "nil" req1 t "nil") fuel R (rdEnter env0)
    let w1 := exec (wrOracle wd1 n1 we1) fuel W (wrEnterOf W F r1.env res1)
    let r2 := exec (rdOracle dl req2 t' fe) fuel R (rdEnter w1.env)
    Env.read r2.env "tt.lastTxnId" = .int t.toNat := by
  intro R W r1 w1 r2
  obtain ⟨_, _, _, _, _, a⟩ := C03T_round F env0 req1 res1 n1 t wd1 we1 fuel hf
  have h := (C03T_readRequest dl req2 t' fe (rdEnter w1.env) (rdEnter_nil _) fuel hf).2.2.2.1 hfail
  have h1 : Env.read r2.env "tt.lastTxnId" = Env.read (rdEnter w1.env) "tt.lastTxnId" := by
    unfold Env.read; rw [h.1]
  rw [h1, rdEnter_id]; exact a

/-- the model's response frame: bytes 0–1 the transaction id, bytes 2–3 protocol id 0, byte 6 the
    unit id -/
theorem C03T_model_frame (t : U16) (p : Pdu) :
    (Mbap.assemble t p).take 4 = be16 t ++ [0, 0] ∧ (Mbap.assemble t p)[6]? = some p.unit :=
  ⟨rfl, rfl⟩

/-! ## 4. `Close` -/

/-- **both `Close`**: exactly one call, its result returned -/
theorem C03T_close (v : Val) (env : Env) (fuel : Nat) (hf : 3 ≤ fuel) :
    let a := exec (oneOracle "tt.socket.Close" v) fuel gs_tcpTransport_Close env
    let b := exec (oneOracle "rt.link.Close" v) fuel gs_rtuTransport_Close env
    (a.how = .returned ∧ a.calls = [("tt.socket.Close", [])] ∧ Env.read? a.env "err" = some v) ∧
    (b.how = .returned ∧ b.calls = [("rt.link.Close", [])] ∧ Env.read? b.env "err" = some v) ∧
    callTextsOfW gs_tcpTransport_Close = [(["err"], "tt.socket.Close", [])] ∧
    callTextsOfW gs_rtuTransport_Close = [(["err"], "rt.link.Close", [])] ∧
    stmtTargets gs_tcpTransport_Close = ["err"] ∧ stmtTargets gs_rtuTransport_Close = ["err"] ∧
    opaques gs_tcpTransport_Close = [] ∧ opaques gs_rtuTransport_Close = [] := by
  intro a b
  have ha : a = _ := close_tcp_run v env [] fuel hf
  have hb : b = _ := close_rtu_run v env [] fuel hf
  rw [ha, hb]
  refine ⟨⟨rfl, rfl, by simp only [read?_write, ↓reduceIte]⟩,
    ⟨rfl, rfl, by simp only [read?_write, ↓reduceIte]⟩,
    by decide +kernel, by decide +kernel, by decide +kernel, by decide +kernel, by decide +kernel,
    by decide +kernel⟩

/-! ## 5. the RTU transport on the server side -/

/-- **the RTU transport on the server side** (see the header, 5.) -/
theorem C03T_rtu_server_side (v : Val) (n t1 : Int) (we : String) (tnow : Val) (env : Env)
    (hnil : Env.read? env "nil" = none) (ht1 : Env.read? env "rt.t1" = some (.int t1))
    (hn0 : -9223372036854775808 ≤ n) (hn1 : n < 9223372036854775808) (fuel : Nat) (hf : 6 ≤ fuel) :
    let a := exec (oneOracle "fmt.Errorf" v) fuel gs_rtuTransport_ReadRequest env
    let b := exec (rtuWrOracle n we tnow) fuel gs_rtuTransport_WriteResponse env
    let wr : String × List Val := ("rt.link.Write", [Env.read env "rt.assembleRTUFrame(res)"])
    -- ReadRequest
    (a.how = .returned ∧ a.calls = [("fmt.Errorf", [Env.read env "\"unimplemented\""])] ∧
      Env.read? a.env "err" = some v ∧ Env.read? a.env "req" = Env.read? env "req") ∧
    (callTextsOfW gs_rtuTransport_ReadRequest = [(["err"], "fmt.Errorf", [some "\"unimplemented\""])] ∧
      stmtTargets gs_rtuTransport_ReadRequest = ["err"] ∧ opaques gs_rtuTransport_ReadRequest = []) ∧
    -- WriteResponse
    (b.how = .returned ∧ Env.read? b.env "err" = some (.sym we)) ∧
    (we ≠ "nil" → b.calls = [wr] ∧
      Env.read? b.env "rt.lastActivity" = Env.read? env "rt.lastActivity" ∧
      writes "rt.lastActivity" b.env = writes "rt.lastActivity" env) ∧
    (we = "nil" → b.calls = [wr, ("time.Now().Add", [.int (wrap .i64 (t1 * n))])] ∧
      Env.read? b.env "rt.lastActivity" = some tnow ∧
      writes "rt.lastActivity" b.env = writes "rt.lastActivity" env + 1) ∧
    (we = "nil" → -9223372036854775808 ≤ t1 * n → t1 * n < 9223372036854775808 →
      b.calls = [wr, ("time.Now().Add", [.int (t1 * n)])]) ∧
    (bindCalls gs_rtuTransport_WriteResponse =
        [(["n", "err"], "rt.link.Write", [.call "rt.assembleRTUFrame(res)" .other]),
         (["rt.lastActivity"], "time.Now().Add",
           [.bin "*" .i64 (.var "rt.t1" .i64) (.conv .i64 (.var "n" .int))])] ∧
      assignedTexts "rt.lastActivity" gs_rtuTransport_WriteResponse = [] ∧
      gsParams.lookup "rtuTransport.WriteResponse" = some ["res"] ∧
      opaques gs_rtuTransport_WriteResponse = []) := by
  intro a b wr
  have ha : a = _ := rtu_rd_run v env [] fuel (by omega)
  have hb : b = _ := rtu_wr_run n we tnow t1 env [] hnil ht1 fuel hf
  have hwn : wrap .i64 n = n := wrap_i64 hn0 hn1
  rw [hwn] at hb
  refine ⟨?_, ⟨by decide +kernel, by decide +kernel, by decide +kernel⟩, ?_, ?_, ?_, ?_,
    ⟨by rfl, by decide +kernel, by decide +kernel, by decide +kernel⟩⟩
  · rw [ha]
    exact ⟨rfl, rfl, by simp only [read?_write, ↓reduceIte],
      by simp only [read?_write, String.reduceEq, ↓reduceIte]⟩
  · by_cases hw : we = "nil"
    · simp only [hw, ne_eq, not_true_eq_false, ↓reduceIte] at hb
      rw [hb, hw]; exact ⟨rfl, by simp only [read?_write, String.reduceEq, ↓reduceIte]⟩
    · simp only [hw, ne_eq, not_false_eq_true, ↓reduceIte] at hb
      rw [hb]; exact ⟨rfl, by simp only [read?_write, ↓reduceIte]⟩
  · intro hw
    simp only [hw, ne_eq, not_false_eq_true, ↓reduceIte] at hb
    rw [hb]
    exact ⟨rfl, by simp only [read?_write, String.reduceEq, ↓reduceIte],
      by simp only [writes_write, String.reduceEq, ↓reduceIte, Nat.add_zero]⟩
  · intro hw
    simp only [hw, ne_eq, not_true_eq_false, ↓reduceIte] at hb
    rw [hb]
    exact ⟨rfl, by simp only [read?_write, ↓reduceIte],
      by simp only [writes_write, String.reduceEq, ↓reduceIte, Nat.add_zero]⟩
  · intro hw h0 h1
    simp only [hw, ne_eq, not_true_eq_false, ↓reduceIte] at hb
    rw [hb, wrap_i64 h0 h1]
    rfl

/-! ## 6. the request loop uses these three methods, in this order -/

set_option maxRecDepth 10000 in
/-- **the request loop calls these three methods on its one transport, in this order** (header, 6.) -/
theorem C03T_session_uses_these :
    gs_ModbusServer_handleTransport = .seq (.loop (loopBodyOf gs_ModbusServer_handleTransport)) .ret ∧
    gsParams.lookup "ModbusServer.handleTransport" = some ["t", "clientAddr", "clientRole"] ∧
    (callTextsOfW gs_ModbusServer_handleTransport).filter (fun c => c.2.1.startsWith "t.") =
      [(["req", "err"], "t.ReadRequest", []), ([], "t.Close", []), (["err"], "t.WriteResponse", [some "res"])] ∧
    ((callTextsOfW gs_ModbusServer_handleTransport).filter
        (fun c => !c.2.1.startsWith "ms.handler." && c.2.1 != "bytesToUint16")) =
      [(["req", "err"], "t.ReadRequest", []), ([], "t.Close", []), (["err"], "t.WriteResponse", [some "res"])] ∧
    (stmtTargets gs_ModbusServer_handleTransport).all (fun x => x != "t" && !x.startsWith "t.") = true ∧
    tPaths (fun f => f.startsWith "t.") (loopBodyOf gs_ModbusServer_handleTransport) =
      [(["t.ReadRequest"], .returned),
       (["t.ReadRequest", "t.Close"], .returned),
       (["t.ReadRequest", "t.WriteResponse"], .fell)] ∧
    tPaths (fun f => f.startsWith "t." || f.startsWith "ms.handler.")
        (loopBodyOf gs_ModbusServer_handleTransport) =
      [(["t.ReadRequest"], .returned),
       (["t.ReadRequest", "t.Close"], .returned),
       (["t.ReadRequest", "t.WriteResponse"], .fell),
       (["t.ReadRequest", "ms.handler.HandleCoils", "t.Close"], .returned),
       (["t.ReadRequest", "ms.handler.HandleCoils", "t.WriteResponse"], .fell),
       (["t.ReadRequest", "ms.handler.HandleDiscreteInputs", "t.Close"], .returned),
       (["t.ReadRequest", "ms.handler.HandleDiscreteInputs", "t.WriteResponse"], .fell),
       (["t.ReadRequest", "ms.handler.HandleHoldingRegisters", "t.Close"], .returned),
       (["t.ReadRequest", "ms.handler.HandleHoldingRegisters", "t.WriteResponse"], .fell),
       (["t.ReadRequest", "ms.handler.HandleInputRegisters", "t.Close"], .returned),
       (["t.ReadRequest", "ms.handler.HandleInputRegisters", "t.WriteResponse"], .fell)] := by
  refine ⟨by rfl, by decide +kernel, by decide +kernel, C11.C11S_one_transport.2, by decide +kernel,
    by decide +kernel, by decide +kernel⟩

/-! ## 7. sensitivity -/

section sensitivity

/-- the variants are what their names say (call sites, targets in program order) -/
theorem C03T_variants :
    stmtTargets rdEarlyAssign = ["err", "req", "txnId", "err", "tt.lastTxnId"] ∧
    callTextsOfW rdEarlyAssign = callTextsOfW gs_tcpTransport_ReadRequest ∧
    callTextsOfW rdNoDeadline = [(["req", "txnId", "err"], "tt.readMBAPFrame", [])] ∧
    callTextsOfW rdReadDeadlineOnly =
      [(["err"], "tt.socket.SetReadDeadline", [some "time.Now().Add(tt.timeout)"]),
       (["req", "txnId", "err"], "tt.readMBAPFrame", [])] ∧
    callTextsOfW wrZeroId =
      [(["err"], "tt.socket.SetWriteDeadline", [some "time.Now().Add(tt.timeout)"]),
       (["_", "err"], "tt.socket.Write", [some "tt.assembleMBAPFrame(0, res)"])] ∧
    callTextsOfW wrNoDeadline =
      [(["_", "err"], "tt.socket.Write", [some "tt.assembleMBAPFrame(tt.lastTxnId, res)"])] ∧
    stmtTargets wrNoDeadline = ["_", "err"] := by
  refine ⟨by decide +kernel, by decide +kernel, by decide +kernel, by decide +kernel, by decide +kernel,
    by decide +kernel, by decide +kernel⟩

/-- id 7 is stored; the frame reader fails (`io.EOF`, id 0). Source: the stored id is still 7.
    Variant "assigned before the error test": it is 0. -/
theorem C03T_sens_early_assign :
    let env := rdEnter [("tt.lastTxnId", .int 7)]
    let o := rdOracle "nil" (.sym "nil") 0 "io.EOF"
    (Env.read (exec o 10 gs_tcpTransport_ReadRequest env).env "tt.lastTxnId",
     Env.read (exec o 10 rdEarlyAssign env).env "tt.lastTxnId") = (.int 7, .int 0) := by
  decide +kernel

/-- a frame with id 9 arrives. Source: `SetDeadline` precedes the frame read; when it fails nothing
    is read. Variant without the deadline: the frame is read with no deadline armed, in both cases. -/
theorem C03T_sens_no_deadline :
    let env := rdEnter [("tt.lastTxnId", .int 7)]
    let ok := rdOracle "nil" (.sym "req") 9 "nil"
    let bad := rdOracle "EBADF" (.sym "req") 9 "nil"
    (callees (exec ok 10 gs_tcpTransport_ReadRequest env).calls,
     callees (exec ok 10 rdNoDeadline env).calls,
     callees (exec bad 10 gs_tcpTransport_ReadRequest env).calls,
     callees (exec bad 10 rdNoDeadline env).calls) =
    (["tt.socket.SetDeadline", "tt.readMBAPFrame"], ["tt.readMBAPFrame"],
     ["tt.socket.SetDeadline"], ["tt.readMBAPFrame"]) := by
  decide +kernel

/-- the seeded change (read-only deadline): under the oracle that also answers
    `SetReadDeadline` the variant arms `SetReadDeadline` and never `SetDeadline`; under the oracle of
    `C03T_readRequest` (which answers `SetDeadline` only) it does not get past its first call. -/
theorem C03T_sens_read_deadline_only :
    let env := rdEnter [("tt.lastTxnId", .int 7)]
    (callees (exec (rdOracle' "nil" (.sym "req") 9 "nil") 10 gs_tcpTransport_ReadRequest env).calls,
     callees (exec (rdOracle' "nil" (.sym "req") 9 "nil") 10 rdReadDeadlineOnly env).calls,
     (exec (rdOracle "nil" (.sym "req") 9 "nil") 10 rdReadDeadlineOnly env).how) =
    (["tt.socket.SetDeadline", "tt.readMBAPFrame"], ["tt.socket.SetReadDeadline", "tt.readMBAPFrame"],
     .stoppedAt "tt.socket.SetReadDeadline" [.sym "time.Now().Add(tt.timeout)"]) := by
  decide +kernel

/-- two requests, ids 7 then 9, `F id res := id` (the frame is represented by the id it is built
    from). Source: the two `Write`s carry 7 and 9. Variant `assembleMBAPFrame(0, res)`: 0 and 0. -/
theorem C03T_sens_zero_id :
    let F : Val → Val → Val := fun id _ => id
    let R := gs_tcpTransport_ReadRequest
    let run := fun (W : GStmt) =>
      let r1 := exec (rdOracle "nil" (.sym "req1") 7 "nil") 10 R (rdEnter [])
      let w1 := exec (wrOracle "nil" (.int 12) "nil") 10 W (wrEnterOf W F r1.env (.sym "res1"))
      let r2 := exec (rdOracle "nil" (.sym "req2") 9 "nil") 10 R (rdEnter w1.env)
      let w2 := exec (wrOracle "nil" (.int 12) "nil") 10 W (wrEnterOf W F r2.env (.sym "res2"))
      (w1.argsOf "tt.socket.Write", w2.argsOf "tt.socket.Write")
    run gs_tcpTransport_WriteResponse = ([[Val.int 7]], [[Val.int 9]]) ∧
    run wrZeroId = ([[Val.int 0]], [[Val.int 0]]) := by
  decide +kernel

/-- the term before d1a97bc (`wrNoDeadline`). Deadline call succeeding: the source arms
    `SetWriteDeadline` and then writes, the old term writes with whatever deadline `ReadRequest` left.
    Deadline call failing (`EBADF`): the source returns that error and does NOT write; the old term
    writes. -/
theorem C03T_sens_no_write_deadline :
    let F : Val → Val → Val := fun id _ => id
    let run := fun (W : GStmt) (wd : String) =>
      let w := exec (wrOracle wd (.int 12) "nil") 10 W (wrEnterOf W F [("tt.lastTxnId", .int 7)] (.sym "res"))
      (callees w.calls, Env.read w.env "err")
    run gs_tcpTransport_WriteResponse "nil" =
      (["tt.socket.SetWriteDeadline", "tt.socket.Write"], .sym "nil") ∧
    run wrNoDeadline "nil" = (["tt.socket.Write"], .sym "nil") ∧
    run gs_tcpTransport_WriteResponse "EBADF" = (["tt.socket.SetWriteDeadline"], .sym "EBADF") ∧
    run wrNoDeadline "EBADF" = (["tt.socket.Write"], .sym "nil") := by
  decide +kernel

end sensitivity

end Modbus.Props.C03

#print axioms Modbus.Props.C03.C03T_readRequest_run
#print axioms Modbus.Props.C03.C03T_readRequest
#print axioms Modbus.Props.C03.C03T_no_read_without_deadline
#print axioms Modbus.Props.C03.C03T_readRequest_static
#print axioms Modbus.Props.C03.C03T_writeResponse_run
#print axioms Modbus.Props.C03.C03T_writeResponse
#print axioms Modbus.Props.C03.C03T_no_write_without_deadline
#print axioms Modbus.Props.C03.C03T_round
#print axioms Modbus.Props.C03.C03T_echo
#print axioms Modbus.Props.C03.C03T_echo_failed_read
#print axioms Modbus.Props.C03.C03T_model_frame
#print axioms Modbus.Props.C03.C03T_close
#print axioms Modbus.Props.C03.C03T_rtu_server_side
#print axioms Modbus.Props.C03.C03T_session_uses_these
#print axioms Modbus.Props.C03.C03T_variants
#print axioms Modbus.Props.C03.C03T_sens_early_assign
#print axioms Modbus.Props.C03.C03T_sens_no_deadline
#print axioms Modbus.Props.C03.C03T_sens_read_deadline_only
#print axioms Modbus.Props.C03.C03T_sens_zero_id
#print axioms Modbus.Props.C03.C03T_sens_no_write_deadline
