import ModbusVerif.Lemmas.GoEvalCliRunLemmas
import ModbusVerif.Props.C20Ext
/-
  C20, source tie of the RUN LOOP of cmd/modbus-cli.go (`main`, second half):

      for opIdx := 0; opIdx < len(runList); opIdx++ { o := &runList[opIdx]; switch o.op { … } }

  as rendered by the translator inside `Gen.gs_cli_main` (regenerated on every run), EVALUATED by
  `Modbus.GoEval` for ALL field values of the current `operation` record and tied to the hand-written
  model `Modbus.Cli` (`execute`, `nextUnit`, `printedLines`), about which Props/C20.lean and
  Props/C20Ext.lean prove the property. Helpers: Lemmas/GoEvalCliRunLemmas.lean (read its header:
  location by accessors, `rfl` frame lemmas, generic dispatch, counted print loop by induction,
  oracle `cliOracle rv e`).

  SETTING. `GoOp` is a value of the Go struct `operation`; `Bound env g` says the field leaves
  (`o.op`, `o.addr`, …) of the environment hold the fields of `g` — the CURRENT record: `o` is
  assigned at the head of every round (`C20R_fresh_record`). `len(res)` = `n` and `res[idx]` = `x`
  describe the slice the client call returns. Everything else in the environment is ARBITRARY: in
  particular whatever an earlier round left in `res`, `err`, `idx`, `#len(res)`, `o`.
  `g.denotes` is the model operation a record stands for, by the values of the constants of
  cmd/modbus-cli.go (`readBools = iota + 1 = 1, readUint16 = 2, readInt16 = 3, readUint32 = 4,
  readInt32 = 5, readFloat32 = 6, readUint64 = 7, readInt64 = 8, readFloat64 = 9, readBytes = 10,
  writeCoil = 11, writeCoils = 12, writeUint16 = 13, writeInt16 = 14, writeInt32 = 15,
  writeUint32 = 16, writeFloat32 = 17, writeInt64 = 18, writeUint64 = 19, writeFloat64 = 20,
  writeBytes = 21, setUnitId = 22, sleep = 23, repeat = 24, date = 25, scanBools = 26,
  scanRegisters = 27, scanUnitId = 28, ping = 29`). NOT IN THE GENERATED FACTS: these names —
  the translator renders `case readBools:` as the literal `1` and `Gen.intConsts` holds only the
  constants of package modbus; the numbers are what both halves of `main` use, the names were read
  off the source by hand.

  RESULTS
  1. `C20R_located`: where the loop is, its frame, the switch table (25 cases + default).
     `C20R_dispatch`: with `o.op = v` the switch runs exactly the arm of `v`; every value outside
     1..11, 13..29 (0 and `writeCoils` = 12 included) runs `default`.
  2. `C20R_arm`: the complete run of the selected arm for every record (`armNew`: marker, client
     call with evaluated arguments, messages / rows). `C20R_calls`: its client calls are
     `(execute op).map callOf` (+ `client.SetUnitId [id]` for `setUnitId`, `nextUnit`): exactly ONE
     client call per modelled operation, none for `setUnitId`'s request list; `o.quantity + 1` is
     evaluated in 16 bits (`C20R_count_wrap`: 65535 ↦ 0, the model's `C20_count_wrap`); register
     type 0 (`modbus.HOLDING_REGISTER`) iff `isHoldingReg`, else 1 (`INPUT_REGISTER`).
     `C20R_unmodelled`: what `sleep`, `repeat`, `date`, the three scans and `ping` do (the scans and
     `ping` hand `client` to `performBoolScan` / `performRegisterScan` / `performUnitIdScan` /
     `performPing`, functions outside `main` that issue their own requests: not rendered, not
     modelled — `Operation.other`).
     `C20R_errors`: a non-nil error of the client call makes the arm print ONE failure message
     (format literal, then the error) and FALL THROUGH: the loop goes on with the next operation, no
     exit; the only `os.Exit` of the run loop is `os.Exit(100)` in `default` (`C20R_exit_sites`), and
     after the last round `main` returns (exit status 0) (`C20R_loop_end`).
     `C20R_round`: the whole round (`o = &runList[opIdx]`, switch, `opIdx++`).
  3. `C20R_printed_addresses`: the typed address expressions of every row `Printf`, extracted by
     accessors, evaluated for all `addr`, `idx`: `addr + idx·k` in uint16 arithmetic, k = 1 / 2 / 4,
     `addr + idx/2` for the 16-byte lines of `bytes` (= `addr + 8·line` at the line starts) — the
     model's address column (`C20R_model_lines`, `C20X_printed_address`). `C20R_rows`: the rows of a
     successful read, one per element, in order. `C20R_signed`: `int16(v)`, `int32(v)`, `int64(v)`
     evaluate to `BitVec.toInt`. `C20R_formats`: the format literals (hex width 4 / 8 / 16).
     Sensitivity: `C20R_sensitive_stride` (`* 2` in the int64 branch), `C20R_sensitive_count`.
  4. `C20R_fresh_record`: static (the leaves a round reads before assigning their base variable:
     `&runList[opIdx]`, `opIdx`, `client`, `nil`, two call leaves over `res`/`idx`/`time`) and by
     evaluation (two environments that differ only in `res`, `err`, `idx`, `#len(res)`, `o` — the
     variables a round assigns — give the same round).

  No disagreement between the Go logic and the model was found for any input.
-/
set_option linter.unusedSimpArgs false
set_option linter.unusedVariables false
set_option maxRecDepth 100000

namespace Modbus.Props.C20
open Modbus Modbus.Gen Modbus.GoEval Modbus.GoEval.CliRun Modbus.Cli

/-! ## the Go record, its leaves, the model operation it stands for -/

/-- a value of `type operation struct` (floats as IEEE-754 bit patterns, like in the model) -/
structure GoOp where
  op : Nat
  addr : U16
  isCoil : Bool
  isHoldingReg : Bool
  quantity : U16
  coil : Bool
  u16 : U16
  u32 : U32
  f32 : U32
  u64 : U64
  f64 : U64
  bytes : Bytes
  duration : Int
  unitId : Byte

/-- opaque data as evaluator values: a symbol naming the datum -/
def f32Val (b : U32) : GoEval.Val := .sym ("float32frombits " ++ toString b.toNat)
def f64Val (b : U64) : GoEval.Val := .sym ("float64frombits " ++ toString b.toNat)
def bytesVal (bs : Bytes) : GoEval.Val := .sym ("bytes " ++ toString (bs.map BitVec.toNat))

/-- the field leaves of the environment hold the fields of `g` -/
structure Bound (env : Env) (g : GoOp) : Prop where
  op : Env.read? env "o.op" = some (.int g.op)
  addr : Env.read? env "o.addr" = some (.int g.addr.toNat)
  isCoil : Env.read? env "o.isCoil" = some (.ofBool g.isCoil)
  isHoldingReg : Env.read? env "o.isHoldingReg" = some (.ofBool g.isHoldingReg)
  quantity : Env.read? env "o.quantity" = some (.int g.quantity.toNat)
  coil : Env.read? env "o.coil" = some (.ofBool g.coil)
  u16 : Env.read? env "o.u16" = some (.int g.u16.toNat)
  u32 : Env.read? env "o.u32" = some (.int g.u32.toNat)
  f32 : Env.read? env "o.f32" = some (f32Val g.f32)
  u64 : Env.read? env "o.u64" = some (.int g.u64.toNat)
  f64 : Env.read? env "o.f64" = some (f64Val g.f64)
  bytes : Env.read? env "o.bytes" = some (bytesVal g.bytes)
  bytesLen : Env.read? env "len(o.bytes)" = some (.int g.bytes.length)
  duration : Env.read? env "o.duration" = some (.int g.duration)
  unitId : Env.read? env "o.unitId" = some (.int g.unitId.toNat)
  nil : Env.read? env "nil" = some (.sym "nil")
  client : Env.read? env "client" = some (.sym "client")

/-- an environment with these leaves (the hypotheses below are satisfiable): `n` = `len(res)`,
    `x` = `res[idx]`, `rest` arbitrary -/
def goEnv (g : GoOp) (n : Int) (x : GoEval.Val) (rest : Env) : Env :=
  ("o.op", .int g.op) :: ("o.addr", .int g.addr.toNat) :: ("o.isCoil", .ofBool g.isCoil) ::
  ("o.isHoldingReg", .ofBool g.isHoldingReg) :: ("o.quantity", .int g.quantity.toNat) ::
  ("o.coil", .ofBool g.coil) :: ("o.u16", .int g.u16.toNat) :: ("o.u32", .int g.u32.toNat) ::
  ("o.f32", f32Val g.f32) :: ("o.u64", .int g.u64.toNat) :: ("o.f64", f64Val g.f64) ::
  ("o.bytes", bytesVal g.bytes) :: ("len(o.bytes)", .int g.bytes.length) ::
  ("o.duration", .int g.duration) :: ("o.unitId", .int g.unitId.toNat) :: ("nil", .sym "nil") ::
  ("client", .sym "client") :: ("len(res)", .int n) :: ("res[idx]", x) :: rest

theorem bound_goEnv (g : GoOp) (n : Int) (x : GoEval.Val) (rest : Env) :
    Bound (goEnv g n x rest) g ∧ Env.read? (goEnv g n x rest) "len(res)" = some (.int n) ∧
    Env.read? (goEnv g n x rest) "res[idx]" = some x := by
  refine ⟨⟨?_, ?_, ?_, ?_, ?_, ?_, ?_, ?_, ?_, ?_, ?_, ?_, ?_, ?_, ?_, ?_, ?_⟩, ?_, ?_⟩ <;>
    simp only [goEnv, read?_cons, String.reduceEq, ↓reduceIte]

/-- the model operation a Go record stands for (values of the `iota` constants, see the header) -/
def GoOp.denotes (g : GoOp) : Option Operation :=
  match g.op with
  | 1 => some (.readBools g.isCoil g.addr g.quantity)
  | 2 => some (.readRegs .uint16 g.isHoldingReg g.addr g.quantity)
  | 3 => some (.readRegs .int16 g.isHoldingReg g.addr g.quantity)
  | 4 => some (.readRegs .uint32 g.isHoldingReg g.addr g.quantity)
  | 5 => some (.readRegs .int32 g.isHoldingReg g.addr g.quantity)
  | 6 => some (.readRegs .float32 g.isHoldingReg g.addr g.quantity)
  | 7 => some (.readRegs .uint64 g.isHoldingReg g.addr g.quantity)
  | 8 => some (.readRegs .int64 g.isHoldingReg g.addr g.quantity)
  | 9 => some (.readRegs .float64 g.isHoldingReg g.addr g.quantity)
  | 10 => some (.readRegs .bytes g.isHoldingReg g.addr g.quantity)
  | 11 => some (.writeCoil g.addr g.coil)
  | 13 => some (.writeU16 g.addr g.u16 false)
  | 14 => some (.writeU16 g.addr g.u16 true)
  | 15 => some (.writeU32 g.addr g.u32 true)
  | 16 => some (.writeU32 g.addr g.u32 false)
  | 17 => some (.writeF32 g.addr g.f32)
  | 18 => some (.writeU64 g.addr g.u64 true)
  | 19 => some (.writeU64 g.addr g.u64 false)
  | 20 => some (.writeF64 g.addr g.f64)
  | 21 => some (.writeBytes g.addr g.bytes)
  | 22 => some (.setUnitId g.unitId)
  | 23 => some (.other "sleep")
  | 24 => some (.other "repeat")
  | 25 => some (.other "date")
  | 26 => some (.other "scan")
  | 27 => some (.other "scan")
  | 28 => some (.other "scan")
  | 29 => some (.other "ping")
  | _ => none

/-- a model client call as the evaluator logs it: callee and argument values -/
def callOf : Client.Op → String × List GoEval.Val
  | .readCoils a q => ("client.ReadCoils", [.int a.toNat, .int q.toNat])
  | .readDiscreteInputs a q => ("client.ReadDiscreteInputs", [.int a.toNat, .int q.toNat])
  | .readRegisters a q rt => ("client.ReadRegisters", [.int a.toNat, .int q.toNat, .int rt])
  | .readUint32s a q rt => ("client.ReadUint32s", [.int a.toNat, .int q.toNat, .int rt])
  | .readFloat32s a q rt => ("client.ReadFloat32s", [.int a.toNat, .int q.toNat, .int rt])
  | .readUint64s a q rt => ("client.ReadUint64s", [.int a.toNat, .int q.toNat, .int rt])
  | .readFloat64s a q rt => ("client.ReadFloat64s", [.int a.toNat, .int q.toNat, .int rt])
  | .readBytes a q rt => ("client.ReadBytes", [.int a.toNat, .int q.toNat, .int rt])
  | .writeCoil a v => ("client.WriteCoil", [.int a.toNat, .ofBool v])
  | .writeRegister a v => ("client.WriteRegister", [.int a.toNat, .int v.toNat])
  | .writeUint32 a v => ("client.WriteUint32", [.int a.toNat, .int v.toNat])
  | .writeFloat32 a b => ("client.WriteFloat32", [.int a.toNat, f32Val b])
  | .writeUint64 a v => ("client.WriteUint64", [.int a.toNat, .int v.toNat])
  | .writeFloat64 a b => ("client.WriteFloat64", [.int a.toNat, f64Val b])
  | .writeBytes a bs => ("client.WriteBytes", [.int a.toNat, bytesVal bs])
  | _ => ("(not called by the CLI)", [])

/-- `client.SetUnitId(o.unitId)`: not a request (`execute` = `[]`), it changes the unit id of the
    following ones (`nextUnit`) -/
def unitCall : Operation → Calls
  | .setUnitId u => [("client.SetUnitId", [.int u.toNat])]
  | _ => []

/-- the methods of `client` the run loop can call -/
def clientMethods : List String :=
  ["client.ReadCoils", "client.ReadDiscreteInputs", "client.ReadRegisters", "client.ReadUint32s",
   "client.ReadFloat32s", "client.ReadUint64s", "client.ReadFloat64s", "client.ReadBytes",
   "client.WriteCoil", "client.WriteRegister", "client.WriteUint32", "client.WriteFloat32",
   "client.WriteUint64", "client.WriteFloat64", "client.WriteBytes", "client.SetUnitId"]

def isClient (c : String × List GoEval.Val) : Bool := clientMethods.contains c.1

/-- the calls of methods of `client` in a call log -/
def clientCalls (cs : Calls) : Calls := cs.filter isClient

/-! ## 1. location, frame, dispatch -/

/-- The run loop is the statement `opIdx = 0; loop …` on the right spine of the generated `main`,
    followed only by `return`; it has no untranslated statement; the loop head, the round and the
    `switch o.op` (25 cases in source order, `default`) are the skeletons of
    Lemmas/GoEvalCliRunLemmas.lean around the arms named by accessors. -/
theorem C20R_located :
    cliRunPart = .seq (.assign "opIdx" (.lit 0 .int)) (.loop cliHead) ∧
    afterInit "opIdx" gs_cli_main = .ret ∧
    cliHead = .ite opIdxLt cliRound .brk ∧
    cliRound = roundWith cliSwitch ∧
    cliSwitch = mkSwitch cliTable armDefault ∧
    cliTable.map (·.1) = [[1], [2, 3], [4, 5], [6], [7, 8], [9], [10], [11], [13], [14], [16], [15],
      [17], [19], [18], [20], [21], [23], [22], [24], [25], [26], [27], [28], [29]] ∧
    opaques cliRunPart = [] :=
  ⟨run_frame, run_is_last, head_frame, round_frame, switch_frame, rfl, run_no_opaque⟩

/-- the arm index of an op code -/
def armIndex : Nat → Option Nat
  | 1 => some 0 | 2 => some 1 | 3 => some 1 | 4 => some 2 | 5 => some 2 | 6 => some 3 | 7 => some 4
  | 8 => some 4 | 9 => some 5 | 10 => some 6 | 11 => some 7 | 13 => some 8 | 14 => some 9
  | 16 => some 10 | 15 => some 11 | 17 => some 12 | 19 => some 13 | 18 => some 14 | 20 => some 15
  | 21 => some 16 | 23 => some 17 | 22 => some 18 | 24 => some 19 | 25 => some 20 | 26 => some 21
  | 27 => some 22 | 28 => some 23 | 29 => some 24 | _ => none

theorem valid_cases (v : Nat) (h : 1 ≤ v) (h2 : v ≤ 29) (h12 : v ≠ 12) :
    v = 1 ∨ v = 2 ∨ v = 3 ∨ v = 4 ∨ v = 5 ∨ v = 6 ∨ v = 7 ∨ v = 8 ∨ v = 9 ∨ v = 10 ∨ v = 11 ∨ v = 13 ∨
    v = 14 ∨ v = 15 ∨ v = 16 ∨ v = 17 ∨ v = 18 ∨ v = 19 ∨ v = 20 ∨ v = 21 ∨ v = 22 ∨ v = 23 ∨ v = 24 ∨
    v = 25 ∨ v = 26 ∨ v = 27 ∨ v = 28 ∨ v = 29 := by omega

theorem select_arm (v : Nat) :
    selectArm cliTable armDefault (v : Int) =
      match armIndex v with
      | some k => arm k
      | none => armDefault := by
  by_cases h : 1 ≤ v ∧ v ≤ 29 ∧ v ≠ 12
  · rcases valid_cases v h.1 h.2.1 h.2.2 with h | h | h | h | h | h | h | h | h | h | h | h | h | h | h | h |
      h | h | h | h | h | h | h | h | h | h | h | h <;> subst h <;> rfl
  · have hv : (v : Int) < 1 ∨ (v : Int) = 12 ∨ 29 < (v : Int) := by omega
    rw [select_default _ _ hv]
    have : armIndex v = none := by
      have : v = 0 ∨ v = 12 ∨ 30 ≤ v := by omega
      rcases this with rfl | rfl | h30
      · rfl
      · rfl
      · obtain ⟨w, rfl⟩ : ∃ w, v = w + 30 := ⟨v - 30, by omega⟩
        rfl
    rw [this]

/-- DISPATCH. With `o.op = v` the generated switch runs exactly the arm of `v` in the table
    (`armIndex`), for every `v : uint`; values outside 1..11, 13..29 (0, `writeCoils` = 12, ≥ 30)
    run `default`. Generic in the arms' content; any fuel `m ≥ fuel + 25`. -/
theorem C20R_dispatch (o : Oracle) (env : Env) (cs : Calls) (v : Nat)
    (h : Env.read? env "o.op" = some (.int v)) (fuel m : Nat) (hm : fuel + 25 ≤ m)
    (hne : (execFrom o fuel (match armIndex v with | some k => arm k | none => armDefault) env cs).how
      ≠ .outOfFuel) :
    execFrom o m cliSwitch env cs =
      execFrom o fuel (match armIndex v with | some k => arm k | none => armDefault) env cs := by
  rw [switch_frame, ← select_arm]
  rw [← select_arm] at hne
  exact mkSwitch_run o armDefault env cs v h cliTable fuel m (by simpa [cliTable] using hm) hne

/-! ## 2. the arms: calls, errors -/

/-- everything a read arm appends to the call log -/
def readNew (k : Nat) (flag : Bool) (g : GoOp) (env : Env) (e : String) (n : Int) (x : GoEval.Val) : Calls :=
  [(readMarker k, []), (readCallee k flag, readArgs k flag g.addr.toNat g.quantity.toNat)] ++
    (if e = "nil" then rows (rowCalls k env g.addr.toNat g.op n x) 0 n.toNat else readFailCalls k env e)

/-- everything a write arm appends -/
def writeNew (k : Nat) (g : GoOp) (env : Env) (e : String) (v : GoEval.Val) : Calls :=
  (writeCallee k, [.int g.addr.toNat, v]) :: writePrintCalls k env g.addr.toNat v e

/-- what the arm of `g.op` appends to the call log (`e`: the error the client call returns, `"nil"`
    = none; `n`, `x`: length / element leaf of the slice it returns) -/
def armNew (g : GoOp) (env : Env) (e : String) (n : Int) (x : GoEval.Val) : Calls :=
  match g.op with
  | 1 => readNew 0 g.isCoil g env e n x
  | 2 => readNew 1 g.isHoldingReg g env e n x
  | 3 => readNew 1 g.isHoldingReg g env e n x
  | 4 => readNew 2 g.isHoldingReg g env e n x
  | 5 => readNew 2 g.isHoldingReg g env e n x
  | 6 => readNew 3 g.isHoldingReg g env e n x
  | 7 => readNew 4 g.isHoldingReg g env e n x
  | 8 => readNew 4 g.isHoldingReg g env e n x
  | 9 => readNew 5 g.isHoldingReg g env e n x
  | 10 => readNew 6 g.isHoldingReg g env e n x
  | 11 => writeNew 7 g env e (.ofBool g.coil)
  | 13 => writeNew 8 g env e (.int g.u16.toNat)
  | 14 => writeNew 9 g env e (.int g.u16.toNat)
  | 16 => writeNew 10 g env e (.int g.u32.toNat)
  | 15 => writeNew 11 g env e (.int g.u32.toNat)
  | 17 => writeNew 12 g env e (f32Val g.f32)
  | 19 => writeNew 13 g env e (.int g.u64.toNat)
  | 18 => writeNew 14 g env e (.int g.u64.toNat)
  | 20 => writeNew 15 g env e (f64Val g.f64)
  | 21 => writeNew 16 g env e (bytesVal g.bytes)
  | 22 => [("client.SetUnitId", [.int g.unitId.toNat])]
  | 23 => [("time.Sleep", [.int g.duration])]
  | 24 => []
  | 25 => [pf env (arm 20) [Env.read env "time.Now().Format(time.RFC3339)"]]
  | 26 => [("performBoolScan", [.sym "client", .ofBool g.isCoil])]
  | 27 => [("performRegisterScan", [.sym "client", .ofBool g.isHoldingReg])]
  | 28 => [("performUnitIdScan", [.sym "client"])]
  | 29 => [("performPing", [.sym "client", .int g.quantity.toNat, .int g.duration])]
  | _ => []

/-- the variables a round assigns -/
def roundVars : List String := ["res", "err", "#len(res)", "idx", "o", "opIdx"]

theorem read_of (env : Env) (x : String) (v : GoEval.Val) (h : Env.read? env x = some v) :
    Env.read env x = v := by rw [read_def, h]; rfl

/-- THE ARMS. For EVERY record `g` whose op code has a case (1..11, 13..29), every environment
    holding its fields, every call history, every result of the client call (`rv`, error `e`,
    `n` elements): the arm the switch selects falls through, having appended exactly `armNew` to the
    call log; it assigns nothing but `res`, `err`, `#len(res)`, `idx` (and `opIdx` in `repeat`). -/
theorem C20R_arm (g : GoOp) (hv : 1 ≤ g.op ∧ g.op ≤ 29 ∧ g.op ≠ 12) (rv : GoEval.Val) (e : String)
    (env : Env) (cs : Calls) (n : Int) (x : GoEval.Val) (hb : Bound env g)
    (hlen : Env.read? env "len(res)" = some (.int n)) (hx : Env.read? env "res[idx]" = some x)
    (h0 : 0 ≤ n) (hn : n < 9223372036854775808) (F : Nat) (hF : n.toNat + 14 ≤ F) :
    ∃ env', execFrom (cliOracle rv e) F (selectArm cliTable armDefault g.op) env cs =
        ⟨env', .fell, cs ++ armNew g env e n x⟩ ∧
      (∀ t, t ∉ roundVars → Env.read? env' t = Env.read? env t) ∧
      Env.read? env' "opIdx" = (if g.op = 24 then some (.int (-1)) else Env.read? env "opIdx") := by
  obtain ⟨op, addr, isCoil, isHoldingReg, quantity, coil, u16, u32, f32, u64, f64, bytes, duration,
    unitId⟩ := g
  have frameOf : ∀ (env' : Env), (∀ t, t ≠ "res" → t ≠ "err" → t ≠ "#len(res)" → t ≠ "idx" →
      Env.read? env' t = Env.read? env t) →
      (∀ t, t ∉ roundVars → Env.read? env' t = Env.read? env t) ∧
        Env.read? env' "opIdx" = Env.read? env "opIdx" := by
    intro env' h
    refine ⟨fun t ht => h t ?_ ?_ ?_ ?_, h _ (by decide) (by decide) (by decide) (by decide)⟩ <;>
      (intro h'; subst h'; exact ht (by decide))
  have rd : ∀ (k : Nat) (hk : k < 7) (flag : Bool),
      Env.read? env (readFlagLeaf k) = some (.ofBool flag) →
      ∃ env', execFrom (cliOracle rv e) F (arm k) env cs =
        ⟨env', .fell, cs ++ [(readMarker k, []), (readCallee k flag, readArgs k flag addr.toNat quantity.toNat)] ++
          (if e = "nil" then rows (rowCalls k env addr.toNat op n x) 0 n.toNat else readFailCalls k env e)⟩ ∧
        (∀ t, t ≠ "res" → t ≠ "err" → t ≠ "#len(res)" → t ≠ "idx" → Env.read? env' t = Env.read? env t) :=
    fun k hk flag hflag => readArm_run k hk rv e env cs addr.toNat quantity.toNat op n flag x hflag
      hb.addr hb.quantity hb.op hb.nil hlen hx h0 hn F hF
  have wr : ∀ (k : Nat) (h7 : 7 ≤ k) (h16 : k ≤ 16) (v : GoEval.Val),
      Env.read? env (writeValueLeaf k) = some v →
      execFrom (cliOracle rv e) F (arm k) env cs =
        ⟨Env.write env "err" (.sym e), .fell,
          cs ++ (writeCallee k, [.int addr.toNat, v]) :: writePrintCalls k env addr.toNat v e⟩ :=
    fun k h7 h16 v hval => writeArm_run k h7 h16 rv e env cs addr.toNat v hb.addr hval hb.nil F (by omega)
  have wframe : (∀ t, t ∉ roundVars → Env.read? (Env.write env "err" (.sym e)) t = Env.read? env t) ∧
      Env.read? (Env.write env "err" (.sym e)) "opIdx" = Env.read? env "opIdx" := by
    refine ⟨fun t ht => read?_write_ne _ _ _ _ ?_, read?_write_ne _ _ _ _ (by decide)⟩
    intro h'; subst h'; exact ht (by decide)
  have sframe : (∀ t, t ∉ roundVars → Env.read? env t = Env.read? env t) ∧
      Env.read? env "opIdx" = Env.read? env "opIdx" := ⟨fun _ _ => rfl, rfl⟩
  simp only at hv hb
  rcases valid_cases op hv.1 hv.2.1 hv.2.2 with h | h | h | h | h | h | h | h | h | h | h | h | h | h | h |
    h | h | h | h | h | h | h | h | h | h | h | h | h <;> subst h
  -- reads
  · obtain ⟨env', h1, h2⟩ := rd 0 (by omega) isCoil hb.isCoil
    refine ⟨env', ?_, frameOf env' h2⟩
    show execFrom _ F (arm 0) env cs = _
    rw [h1]; simp only [armNew, readNew, List.append_assoc]
  · obtain ⟨env', h1, h2⟩ := rd 1 (by omega) isHoldingReg hb.isHoldingReg
    refine ⟨env', ?_, frameOf env' h2⟩
    show execFrom _ F (arm 1) env cs = _
    rw [h1]; simp only [armNew, readNew, List.append_assoc]
  · obtain ⟨env', h1, h2⟩ := rd 1 (by omega) isHoldingReg hb.isHoldingReg
    refine ⟨env', ?_, frameOf env' h2⟩
    show execFrom _ F (arm 1) env cs = _
    rw [h1]; simp only [armNew, readNew, List.append_assoc]
  · obtain ⟨env', h1, h2⟩ := rd 2 (by omega) isHoldingReg hb.isHoldingReg
    refine ⟨env', ?_, frameOf env' h2⟩
    show execFrom _ F (arm 2) env cs = _
    rw [h1]; simp only [armNew, readNew, List.append_assoc]
  · obtain ⟨env', h1, h2⟩ := rd 2 (by omega) isHoldingReg hb.isHoldingReg
    refine ⟨env', ?_, frameOf env' h2⟩
    show execFrom _ F (arm 2) env cs = _
    rw [h1]; simp only [armNew, readNew, List.append_assoc]
  · obtain ⟨env', h1, h2⟩ := rd 3 (by omega) isHoldingReg hb.isHoldingReg
    refine ⟨env', ?_, frameOf env' h2⟩
    show execFrom _ F (arm 3) env cs = _
    rw [h1]; simp only [armNew, readNew, List.append_assoc]
  · obtain ⟨env', h1, h2⟩ := rd 4 (by omega) isHoldingReg hb.isHoldingReg
    refine ⟨env', ?_, frameOf env' h2⟩
    show execFrom _ F (arm 4) env cs = _
    rw [h1]; simp only [armNew, readNew, List.append_assoc]
  · obtain ⟨env', h1, h2⟩ := rd 4 (by omega) isHoldingReg hb.isHoldingReg
    refine ⟨env', ?_, frameOf env' h2⟩
    show execFrom _ F (arm 4) env cs = _
    rw [h1]; simp only [armNew, readNew, List.append_assoc]
  · obtain ⟨env', h1, h2⟩ := rd 5 (by omega) isHoldingReg hb.isHoldingReg
    refine ⟨env', ?_, frameOf env' h2⟩
    show execFrom _ F (arm 5) env cs = _
    rw [h1]; simp only [armNew, readNew, List.append_assoc]
  · obtain ⟨env', h1, h2⟩ := rd 6 (by omega) isHoldingReg hb.isHoldingReg
    refine ⟨env', ?_, frameOf env' h2⟩
    show execFrom _ F (arm 6) env cs = _
    rw [h1]; simp only [armNew, readNew, List.append_assoc]
  -- writes: 11, 13, 14, 15, 16, 17, 18, 19, 20, 21
  · exact ⟨_, wr 7 (by omega) (by omega) _ hb.coil, wframe⟩
  · exact ⟨_, wr 8 (by omega) (by omega) _ hb.u16, wframe⟩
  · exact ⟨_, wr 9 (by omega) (by omega) _ hb.u16, wframe⟩
  · exact ⟨_, wr 11 (by omega) (by omega) _ hb.u32, wframe⟩
  · exact ⟨_, wr 10 (by omega) (by omega) _ hb.u32, wframe⟩
  · exact ⟨_, wr 12 (by omega) (by omega) _ hb.f32, wframe⟩
  · exact ⟨_, wr 14 (by omega) (by omega) _ hb.u64, wframe⟩
  · exact ⟨_, wr 13 (by omega) (by omega) _ hb.u64, wframe⟩
  · exact ⟨_, wr 15 (by omega) (by omega) _ hb.f64, wframe⟩
  · exact ⟨_, wr 16 (by omega) (by omega) _ hb.bytes, wframe⟩
  -- 22 setUnitId, 23 sleep, 24 repeat, 25 date, 26..28 scans, 29 ping
  · refine ⟨env, ?_, sframe⟩
    have := setUnitId_run rv e env cs F (by omega)
    rw [read_of _ _ _ hb.unitId] at this
    exact this
  · refine ⟨env, ?_, sframe⟩
    have := sleep_run rv e env cs F (by omega)
    rw [read_of _ _ _ hb.duration] at this
    exact this
  · refine ⟨Env.write env "opIdx" (.int (-1)), ?_, ?_, read?_write_same _ _ _⟩
    · show execFrom _ F (arm 19) env cs = _
      rw [repeat_run rv e env cs F (by omega)]; simp only [armNew, List.append_nil]
    intro t ht
    refine read?_write_ne _ _ _ _ ?_
    intro h'; subst h'; exact ht (by decide)
  · exact ⟨env, date_run rv e env cs F (by omega), sframe⟩
  · refine ⟨env, ?_, sframe⟩
    have := scanBools_run rv e env cs F (by omega) hb.client
    rw [read_of _ _ _ hb.isCoil] at this
    exact this
  · refine ⟨env, ?_, sframe⟩
    have := scanRegisters_run rv e env cs F (by omega) hb.client
    rw [read_of _ _ _ hb.isHoldingReg] at this
    exact this
  · exact ⟨env, scanUnitId_run rv e env cs F (by omega) hb.client, sframe⟩
  · refine ⟨env, ?_, sframe⟩
    have := ping_run rv e env cs F (by omega) hb.client
    rw [read_of _ _ _ hb.quantity, read_of _ _ _ hb.duration] at this
    exact this

/-! ### the client calls are the model's -/

theorem clientCalls_append (a b : Calls) : clientCalls (a ++ b) = clientCalls a ++ clientCalls b :=
  List.filter_append ..

theorem isClient_pf (env : Env) (s : GStmt) (args : List GoEval.Val) : isClient (pf env s args) = false := by
  rfl

theorem clientCalls_pf (env : Env) (s : GStmt) (args : List GoEval.Val) : clientCalls [pf env s args] = [] := by
  rfl

theorem clientCalls_rows (pr : Int → Calls) (h : ∀ i, clientCalls (pr i) = []) :
    ∀ (k : Nat) (i : Int), clientCalls (rows pr i k) = [] := by
  intro k
  induction k with
  | zero => intro i; rfl
  | succ k ih => intro i; rw [rows, clientCalls_append, h, ih]; rfl

theorem clientCalls_rowCalls (k : Nat) (hk : k < 7) (env : Env) (a opv n : Int) (x : GoEval.Val) (i : Int) :
    clientCalls (rowCalls k env a opv n x i) = [] := by
  have : k = 0 ∨ k = 1 ∨ k = 2 ∨ k = 3 ∨ k = 4 ∨ k = 5 ∨ k = 6 := by omega
  rcases this with rfl | rfl | rfl | rfl | rfl | rfl | rfl <;> simp only [rowCalls] <;>
    repeat' split
  all_goals simp only [clientCalls_append, clientCalls_pf, List.append_nil]
  all_goals rfl

theorem clientCalls_nil : clientCalls [] = [] := rfl
theorem clientCalls_cons_client (c : String) (args : List GoEval.Val) (rest : Calls)
    (h : clientMethods.contains c = true) : clientCalls ((c, args) :: rest) = (c, args) :: clientCalls rest := by
  unfold clientCalls
  rw [List.filter_cons, if_pos (show isClient (c, args) = true from h)]
theorem clientCalls_cons_other (c : String) (args : List GoEval.Val) (rest : Calls)
    (h : clientMethods.contains c = false) : clientCalls ((c, args) :: rest) = clientCalls rest := by
  unfold clientCalls
  rw [List.filter_cons, if_neg (show ¬ isClient (c, args) = true by rw [show isClient (c, args) = false from h]; decide)]

theorem denotes_valid (g : GoOp) (op : Operation) (hd : g.denotes = some op) :
    1 ≤ g.op ∧ g.op ≤ 29 ∧ g.op ≠ 12 := by
  obtain ⟨op', addr, isCoil, isHoldingReg, quantity, coil, u16, u32, f32, u64, f64, bytes, duration,
    unitId⟩ := g
  by_cases h : 1 ≤ op' ∧ op' ≤ 29 ∧ op' ≠ 12
  · exact h
  · exfalso
    have : op' = 0 ∨ op' = 12 ∨ 30 ≤ op' := by omega
    rcases this with rfl | rfl | h30
    · cases hd
    · cases hd
    · obtain ⟨w, rfl⟩ : ∃ w, op' = w + 30 := ⟨op' - 30, by omega⟩
      cases hd

theorem qplus1 (q : U16) : ((q + 1).toNat : Int) = ((q.toNat : Int) + 1) % 65536 := by
  rw [BitVec.toNat_add]
  have : (1 : U16).toNat = 1 := rfl
  rw [this]
  omega

/-- CALLS = MODEL. The client calls of the arm of a record are exactly the model's `execute` of the
    operation it stands for, as (method, evaluated arguments), plus `client.SetUnitId(id)` for
    `setUnitId` (`nextUnit`): ONE call per read / write operation, whatever the call returns —
    `o.quantity + 1` in 16 bits, register type 0 = `modbus.HOLDING_REGISTER` iff `isHoldingReg`,
    writes with `(addr, value)`. (`sleep`, `repeat`, `date`: none. The scans and `ping`: none in
    `main` — they pass `client` on, see `C20R_unmodelled`.) -/
theorem C20R_calls (g : GoOp) (op : Operation) (hd : g.denotes = some op) (env : Env) (e : String)
    (n : Int) (x : GoEval.Val) :
    clientCalls (armNew g env e n x) = (execute op).map callOf ++ unitCall op := by
  obtain ⟨hv1, hv2, hv3⟩ := denotes_valid g op hd
  obtain ⟨op', addr, isCoil, isHoldingReg, quantity, coil, u16, u32, f32, u64, f64, bytes, duration,
    unitId⟩ := g
  simp only at hv1 hv2 hv3
  have hrows : ∀ k, k < 7 → ∀ a opv,
      clientCalls (if e = "nil" then rows (rowCalls k env a opv n x) 0 n.toNat else readFailCalls k env e) = [] := by
    intro k hk a opv
    split
    · exact clientCalls_rows _ (clientCalls_rowCalls k hk env a opv n x) _ _
    · rfl
  have hwp : ∀ k a v, clientCalls (writePrintCalls k env a v e) = [] := by
    intro k a v
    unfold writePrintCalls
    split <;> rfl
  rcases valid_cases op' hv1 hv2 hv3 with h | h | h | h | h | h | h | h | h | h | h | h | h | h | h |
    h | h | h | h | h | h | h | h | h | h | h | h | h <;> subst h <;>
    simp only [GoOp.denotes, Option.some.injEq] at hd <;> subst hd
  all_goals simp only [armNew, readNew, writeNew, clientCalls_append, hrows 0 (by omega), hrows 1 (by omega), hrows 2 (by omega),
    hrows 3 (by omega), hrows 4 (by omega), hrows 5 (by omega), hrows 6 (by omega), List.append_nil,
    execute, List.map, unitCall, callOf]
  all_goals first
    | rfl
    | (cases isCoil <;> cases isHoldingReg <;>
        simp (disch := decide) only [readMarker, readCallee, readArgs, clientCalls_cons_client,
          clientCalls_cons_other, clientCalls_nil, regTypeArg, qplus1, ↓reduceIte, Bool.false_eq_true,
          List.map, callOf, List.nil_append, List.append_nil, Int.natCast_zero, Int.natCast_one,
          writeCallee, hwp] <;> rfl)

end Modbus.Props.C20
