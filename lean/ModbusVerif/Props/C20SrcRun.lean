import ModbusVerif.Lemmas.GoEvalCliRunLemmas
import ModbusVerif.Props.C20Ext
/-
  C20, source tie of the RUN LOOP of cmd/modbus-cli.go (`main`, second half):

      for opIdx := 0; opIdx < len(runList); opIdx++ { o := &runList[opIdx]; switch o.op { … } }

  as rendered by the translator inside `Gen.gs_cli_main` (regenerated on every run), EVALUATED by
  `Modbus.GoEval` for ALL field values of the current `operation` record and tied to the hand-written
  model `Modbus.Cli` (`execute`, `nextUnit`, `printedLines`), about which Props/C20.lean and
  Props/C20Ext.lean prove the property. Helpers: Lemmas/GoEvalCliRunLemmas.lean (read its header:
  location by accessors, `rfl` frame lemmas, generic dispatch, counted print loop by induction,
  oracle `cliOracle rv e`).

  SETTING. `GoOp` is a value of the Go struct `operation`; `Bound env g` says the field leaves
  (`o.op`, `o.addr`, …) of the environment hold the fields of `g` — the CURRENT record: `o` is
  assigned at the head of every round (`C20R_fresh_record`). `len(res)` = `n` and `res[idx]` = `x`
  describe the slice the client call returns. Everything else in the environment is ARBITRARY: in
  particular whatever an earlier round left in `res`, `err`, `idx`, `#len(res)`, `o`.
  `g.denotes` is the model operation a record stands for, by the values of the constants of
  cmd/modbus-cli.go (`readBools = iota + 1 = 1, readUint16 = 2, readInt16 = 3, readUint32 = 4,
  readInt32 = 5, readFloat32 = 6, readUint64 = 7, readInt64 = 8, readFloat64 = 9, readBytes = 10,
  writeCoil = 11, writeCoils = 12, writeUint16 = 13, writeInt16 = 14, writeInt32 = 15,
  writeUint32 = 16, writeFloat32 = 17, writeInt64 = 18, writeUint64 = 19, writeFloat64 = 20,
  writeBytes = 21, setUnitId = 22, sleep = 23, repeat = 24, date = 25, scanBools = 26,
  scanRegisters = 27, scanUnitId = 28, ping = 29`). NOT IN THE GENERATED FACTS: these names —
  the translator renders `case readBools:` as the literal `1` and `Gen.intConsts` holds only the
  constants of package modbus; the numbers are what both halves of `main` use, the names were read
  off the source by hand.

  ARMS (accessor `arm k` = `iT (iE^k cliSwitch)`, source order; `armDefault` = `iE^25 cliSwitch`):
     0 readBools · 1 readUint16, readInt16 · 2 readUint32, readInt32 · 3 readFloat32 ·
     4 readUint64, readInt64 · 5 readFloat64 · 6 readBytes · 7 writeCoil · 8 writeUint16 ·
     9 writeInt16 · 10 writeUint32 · 11 writeInt32 · 12 writeFloat32 · 13 writeUint64 · 14 writeInt64 ·
     15 writeFloat64 · 16 writeBytes · 17 sleep · 18 setUnitId · 19 repeat · 20 date · 21 scanBools ·
     22 scanRegisters · 23 scanUnitId · 24 ping   (`armIndex`: op code ↦ arm; `C20R_call_sites`:
     every call site of every arm).

  RESULTS
  1. `C20R_located`: where the loop is, its frame, the switch table (25 cases + default).
     `C20R_dispatch`: with `o.op = v` the switch runs exactly the arm of `v`; every value outside
     1..11, 13..29 (0 and `writeCoils` = 12 included) runs `default`.
  2. `C20R_arm`: the complete run of the selected arm for every record (`armNew`: marker, client
     call with evaluated arguments, messages / rows). `C20R_calls`: its client calls are
     `(execute op).map callOf` (+ `client.SetUnitId [id]` for `setUnitId`, `nextUnit`): exactly ONE
     client call per modelled operation, none for `setUnitId`'s request list; `o.quantity + 1` is
     evaluated in 16 bits (`C20R_count_wrap`: 65535 ↦ 0, the model's `C20_count_wrap`); register
     type 0 (`modbus.HOLDING_REGISTER`) iff `isHoldingReg`, else 1 (`INPUT_REGISTER`).
     `C20R_unmodelled`: what `sleep`, `repeat`, `date`, the three scans and `ping` do (the scans and
     `ping` hand `client` to `performBoolScan` / `performRegisterScan` / `performUnitIdScan` /
     `performPing`, functions outside `main` that issue their own requests: not rendered, not
     modelled — `Operation.other`).
     `C20R_errors`: a non-nil error of the client call makes the arm print ONE failure message
     (format literal, then the error) and FALL THROUGH: the loop goes on with the next operation, no
     exit; the only `os.Exit` of the run loop is `os.Exit(100)` in `default` (`C20R_exit_sites`), and
     after the last round `main` returns (exit status 0) (`C20R_loop_end`).
     `C20R_default`: an op code without a case prints `unknown operation` and stops at `os.Exit(100)`.
     `C20R_round`: the whole round (`o = &runList[opIdx]`, switch, `opIdx++`); `C20R_loop_step`.
     `C20R_unit`: `SetUnitId` gets the id of `nextUnit`. `C20R_example`: a closed run of the whole
     generated loop, executed by the kernel.
  3. `C20R_printed_addresses`: the typed address expressions of every row `Printf`, extracted by
     accessors, evaluated for all `addr`, `idx`: `addr + idx·k` in uint16 arithmetic, k = 1 / 2 / 4,
     `addr + idx/2` for the 16-byte lines of `bytes` (= `addr + 8·line` at the line starts) — the
     model's address column (`C20R_model_lines`, `C20X_printed_address`). `C20R_rows`: the rows of a
     successful read, one per element, in order; `C20R_row_content`: (address, address, value
     [, value as `%v` shows it]) per type. `C20R_signed`: `int16(v)`, `int32(v)`, `int64(v)`
     evaluate to `BitVec.toInt`. `C20R_formats`: the format literals (hex width 4 / 8 / 16).
     Sensitivity: `C20R_sensitive_stride` (`* 2` in the int64 branch), `C20R_sensitive_count`.
  4. `C20R_fresh_record`: static (the leaves a round reads before assigning their base variable:
     `&runList[opIdx]`, `opIdx`, `client`, `nil`, two call leaves over `res`/`idx`/`time`) and by
     evaluation (two environments that differ only in `res`, `err`, `idx`, `#len(res)`, `o` — the
     variables a round assigns — give the same round).

  No disagreement between the Go logic and the model was found for any input.

  LIMITS (inherent in the rendering, nothing is guessed):
  * `fmt.Printf` is a call with a format LITERAL and evaluated arguments: which literal and which
    values, in which order, is proved; the rendering of `%04x`, `%-5v`, `%f` into characters is Go's
    `fmt` and is not modelled (the model's strings are compared with the binary by the C20 harness).
  * `res[idx]` is ONE text-keyed leaf: the rows show that the value printed next to address
    `addr + idx·k` is the expression `res[idx]` (resp. its conversion); that this is the `idx`-th
    element of what the call returned is the meaning of the Go index expression, not evaluated.
  * `o.field` are leaves keyed by text: that they are the fields of `runList[opIdx]` rests on the
    assignment `o = &runList[opIdx]` at the head of the round (`C20R_fresh_record`, static part).
  * float values, byte slices, `time.Duration` arguments are opaque symbols / integers passed through.
  * `performBoolScan`, `performRegisterScan`, `performUnitIdScan`, `performPing`, `decodeString` are
    other functions of the command (not rendered): only their call with its arguments is.
-/
set_option linter.unusedSimpArgs false
set_option linter.unusedVariables false
set_option maxRecDepth 100000

namespace Modbus.Props.C20
open Modbus Modbus.Gen Modbus.GoEval Modbus.GoEval.CliRun Modbus.Cli

/-! ## the Go record, its leaves, the model operation it stands for -/

/-- a value of `type operation struct` (floats as IEEE-754 bit patterns, like in the model) -/
structure GoOp where
  op : Nat
  addr : U16
  isCoil : Bool
  isHoldingReg : Bool
  quantity : U16
  coil : Bool
  u16 : U16
  u32 : U32
  f32 : U32
  u64 : U64
  f64 : U64
  bytes : Bytes
  duration : Int
  unitId : Byte

/-- opaque data as evaluator values: a symbol naming the datum -/
def f32Val (b : U32) : GoEval.Val := .sym ("float32frombits " ++ toString b.toNat)
def f64Val (b : U64) : GoEval.Val := .sym ("float64frombits " ++ toString b.toNat)
def bytesVal (bs : Bytes) : GoEval.Val := .sym ("bytes " ++ toString (bs.map BitVec.toNat))

/-- the field leaves of the environment hold the fields of `g` -/
structure Bound (env : Env) (g : GoOp) : Prop where
  op : Env.read? env "o.op" = some (.int g.op)
  addr : Env.read? env "o.addr" = some (.int g.addr.toNat)
  isCoil : Env.read? env "o.isCoil" = some (.ofBool g.isCoil)
  isHoldingReg : Env.read? env "o.isHoldingReg" = some (.ofBool g.isHoldingReg)
  quantity : Env.read? env "o.quantity" = some (.int g.quantity.toNat)
  coil : Env.read? env "o.coil" = some (.ofBool g.coil)
  u16 : Env.read? env "o.u16" = some (.int g.u16.toNat)
  u32 : Env.read? env "o.u32" = some (.int g.u32.toNat)
  f32 : Env.read? env "o.f32" = some (f32Val g.f32)
  u64 : Env.read? env "o.u64" = some (.int g.u64.toNat)
  f64 : Env.read? env "o.f64" = some (f64Val g.f64)
  bytes : Env.read? env "o.bytes" = some (bytesVal g.bytes)
  bytesLen : Env.read? env "len(o.bytes)" = some (.int g.bytes.length)
  duration : Env.read? env "o.duration" = some (.int g.duration)
  unitId : Env.read? env "o.unitId" = some (.int g.unitId.toNat)
  nil : Env.read? env "nil" = some (.sym "nil")
  client : Env.read? env "client" = some (.sym "client")

/-- an environment with these leaves (the hypotheses below are satisfiable): `n` = `len(res)`,
    `x` = `res[idx]`, `rest` arbitrary -/
def goEnv (g : GoOp) (n : Int) (x : GoEval.Val) (rest : Env) : Env :=
  ("o.op", .int g.op) :: ("o.addr", .int g.addr.toNat) :: ("o.isCoil", .ofBool g.isCoil) ::
  ("o.isHoldingReg", .ofBool g.isHoldingReg) :: ("o.quantity", .int g.quantity.toNat) ::
  ("o.coil", .ofBool g.coil) :: ("o.u16", .int g.u16.toNat) :: ("o.u32", .int g.u32.toNat) ::
  ("o.f32", f32Val g.f32) :: ("o.u64", .int g.u64.toNat) :: ("o.f64", f64Val g.f64) ::
  ("o.bytes", bytesVal g.bytes) :: ("len(o.bytes)", .int g.bytes.length) ::
  ("o.duration", .int g.duration) :: ("o.unitId", .int g.unitId.toNat) :: ("nil", .sym "nil") ::
  ("client", .sym "client") :: ("len(res)", .int n) :: ("res[idx]", x) :: rest

theorem bound_goEnv (g : GoOp) (n : Int) (x : GoEval.Val) (rest : Env) :
    Bound (goEnv g n x rest) g ∧ Env.read? (goEnv g n x rest) "len(res)" = some (.int n) ∧
    Env.read? (goEnv g n x rest) "res[idx]" = some x := by
  refine ⟨⟨?_, ?_, ?_, ?_, ?_, ?_, ?_, ?_, ?_, ?_, ?_, ?_, ?_, ?_, ?_, ?_, ?_⟩, ?_, ?_⟩ <;>
    simp only [goEnv, read?_cons, String.reduceEq, ↓reduceIte]

/-- the model operation a Go record stands for (values of the `iota` constants, see the header) -/
def GoOp.denotes (g : GoOp) : Option Operation :=
  match g.op with
  | 1 => some (.readBools g.isCoil g.addr g.quantity)
  | 2 => some (.readRegs .uint16 g.isHoldingReg g.addr g.quantity)
  | 3 => some (.readRegs .int16 g.isHoldingReg g.addr g.quantity)
  | 4 => some (.readRegs .uint32 g.isHoldingReg g.addr g.quantity)
  | 5 => some (.readRegs .int32 g.isHoldingReg g.addr g.quantity)
  | 6 => some (.readRegs .float32 g.isHoldingReg g.addr g.quantity)
  | 7 => some (.readRegs .uint64 g.isHoldingReg g.addr g.quantity)
  | 8 => some (.readRegs .int64 g.isHoldingReg g.addr g.quantity)
  | 9 => some (.readRegs .float64 g.isHoldingReg g.addr g.quantity)
  | 10 => some (.readRegs .bytes g.isHoldingReg g.addr g.quantity)
  | 11 => some (.writeCoil g.addr g.coil)
  | 13 => some (.writeU16 g.addr g.u16 false)
  | 14 => some (.writeU16 g.addr g.u16 true)
  | 15 => some (.writeU32 g.addr g.u32 true)
  | 16 => some (.writeU32 g.addr g.u32 false)
  | 17 => some (.writeF32 g.addr g.f32)
  | 18 => some (.writeU64 g.addr g.u64 true)
  | 19 => some (.writeU64 g.addr g.u64 false)
  | 20 => some (.writeF64 g.addr g.f64)
  | 21 => some (.writeBytes g.addr g.bytes)
  | 22 => some (.setUnitId g.unitId)
  | 23 => some (.other "sleep")
  | 24 => some (.other "repeat")
  | 25 => some (.other "date")
  | 26 => some (.other "scan")
  | 27 => some (.other "scan")
  | 28 => some (.other "scan")
  | 29 => some (.other "ping")
  | _ => none

/-- a model client call as the evaluator logs it: callee and argument values -/
def callOf : Client.Op → String × List GoEval.Val
  | .readCoils a q => ("client.ReadCoils", [.int a.toNat, .int q.toNat])
  | .readDiscreteInputs a q => ("client.ReadDiscreteInputs", [.int a.toNat, .int q.toNat])
  | .readRegisters a q rt => ("client.ReadRegisters", [.int a.toNat, .int q.toNat, .int rt])
  | .readUint32s a q rt => ("client.ReadUint32s", [.int a.toNat, .int q.toNat, .int rt])
  | .readFloat32s a q rt => ("client.ReadFloat32s", [.int a.toNat, .int q.toNat, .int rt])
  | .readUint64s a q rt => ("client.ReadUint64s", [.int a.toNat, .int q.toNat, .int rt])
  | .readFloat64s a q rt => ("client.ReadFloat64s", [.int a.toNat, .int q.toNat, .int rt])
  | .readBytes a q rt => ("client.ReadBytes", [.int a.toNat, .int q.toNat, .int rt])
  | .writeCoil a v => ("client.WriteCoil", [.int a.toNat, .ofBool v])
  | .writeRegister a v => ("client.WriteRegister", [.int a.toNat, .int v.toNat])
  | .writeUint32 a v => ("client.WriteUint32", [.int a.toNat, .int v.toNat])
  | .writeFloat32 a b => ("client.WriteFloat32", [.int a.toNat, f32Val b])
  | .writeUint64 a v => ("client.WriteUint64", [.int a.toNat, .int v.toNat])
  | .writeFloat64 a b => ("client.WriteFloat64", [.int a.toNat, f64Val b])
  | .writeBytes a bs => ("client.WriteBytes", [.int a.toNat, bytesVal bs])
  | _ => ("(not called by the CLI)", [])

/-- `client.SetUnitId(o.unitId)`: not a request (`execute` = `[]`), it changes the unit id of the
    following ones (`nextUnit`) -/
def unitCall : Operation → Calls
  | .setUnitId u => [("client.SetUnitId", [.int u.toNat])]
  | _ => []

/-- the methods of `client` the run loop can call -/
def clientMethods : List String :=
  ["client.ReadCoils", "client.ReadDiscreteInputs", "client.ReadRegisters", "client.ReadUint32s",
   "client.ReadFloat32s", "client.ReadUint64s", "client.ReadFloat64s", "client.ReadBytes",
   "client.WriteCoil", "client.WriteRegister", "client.WriteUint32", "client.WriteFloat32",
   "client.WriteUint64", "client.WriteFloat64", "client.WriteBytes", "client.SetUnitId"]

def isClient (c : String × List GoEval.Val) : Bool := clientMethods.contains c.1

/-- the calls of methods of `client` in a call log -/
def clientCalls (cs : Calls) : Calls := cs.filter isClient

/-! ## 1. location, frame, dispatch -/

/-- The run loop is the statement `opIdx = 0; loop …` on the right spine of the generated `main`,
    followed only by `return`; it has no untranslated statement; the loop head, the round and the
    `switch o.op` (25 cases in source order, `default`) are the skeletons of
    Lemmas/GoEvalCliRunLemmas.lean around the arms named by accessors. -/
theorem C20R_located :
    cliRunPart = .seq (.assign "opIdx" (.lit 0 .int)) (.loop cliHead) ∧
    afterInit "opIdx" gs_cli_main = .ret ∧
    cliHead = .ite opIdxLt cliRound .brk ∧
    cliRound = roundWith cliSwitch ∧
    cliSwitch = mkSwitch cliTable armDefault ∧
    cliTable.map (·.1) = [[1], [2, 3], [4, 5], [6], [7, 8], [9], [10], [11], [13], [14], [16], [15],
      [17], [19], [18], [20], [21], [23], [22], [24], [25], [26], [27], [28], [29]] ∧
    opaques cliRunPart = [] :=
  ⟨run_frame, run_is_last, head_frame, round_frame, switch_frame, rfl, run_no_opaque⟩

/-- the arm index of an op code -/
def armIndex : Nat → Option Nat
  | 1 => some 0 | 2 => some 1 | 3 => some 1 | 4 => some 2 | 5 => some 2 | 6 => some 3 | 7 => some 4
  | 8 => some 4 | 9 => some 5 | 10 => some 6 | 11 => some 7 | 13 => some 8 | 14 => some 9
  | 16 => some 10 | 15 => some 11 | 17 => some 12 | 19 => some 13 | 18 => some 14 | 20 => some 15
  | 21 => some 16 | 23 => some 17 | 22 => some 18 | 24 => some 19 | 25 => some 20 | 26 => some 21
  | 27 => some 22 | 28 => some 23 | 29 => some 24 | _ => none

theorem valid_cases (v : Nat) (h : 1 ≤ v) (h2 : v ≤ 29) (h12 : v ≠ 12) :
    v = 1 ∨ v = 2 ∨ v = 3 ∨ v = 4 ∨ v = 5 ∨ v = 6 ∨ v = 7 ∨ v = 8 ∨ v = 9 ∨ v = 10 ∨ v = 11 ∨ v = 13 ∨
    v = 14 ∨ v = 15 ∨ v = 16 ∨ v = 17 ∨ v = 18 ∨ v = 19 ∨ v = 20 ∨ v = 21 ∨ v = 22 ∨ v = 23 ∨ v = 24 ∨
    v = 25 ∨ v = 26 ∨ v = 27 ∨ v = 28 ∨ v = 29 := by omega

theorem select_arm (v : Nat) :
    selectArm cliTable armDefault (v : Int) =
      match armIndex v with
      | some k => arm k
      | none => armDefault := by
  by_cases h : 1 ≤ v ∧ v ≤ 29 ∧ v ≠ 12
  · rcases valid_cases v h.1 h.2.1 h.2.2 with h | h | h | h | h | h | h | h | h | h | h | h | h | h | h | h |
      h | h | h | h | h | h | h | h | h | h | h | h <;> subst h <;> rfl
  · have hv : (v : Int) < 1 ∨ (v : Int) = 12 ∨ 29 < (v : Int) := by omega
    rw [select_default _ _ hv]
    have : armIndex v = none := by
      have : v = 0 ∨ v = 12 ∨ 30 ≤ v := by omega
      rcases this with rfl | rfl | h30
      · rfl
      · rfl
      · obtain ⟨w, rfl⟩ : ∃ w, v = w + 30 := ⟨v - 30, by omega⟩
        rfl
    rw [this]

/-- DISPATCH. With `o.op = v` the generated switch runs exactly the arm of `v` in the table
    (`armIndex`), for every `v : uint`; values outside 1..11, 13..29 (0, `writeCoils` = 12, ≥ 30)
    run `default`. Generic in the arms' content; any fuel `m ≥ fuel + 25`. -/
theorem C20R_dispatch (o : Oracle) (env : Env) (cs : Calls) (v : Nat)
    (h : Env.read? env "o.op" = some (.int v)) (fuel m : Nat) (hm : fuel + 25 ≤ m)
    (hne : (execFrom o fuel (match armIndex v with | some k => arm k | none => armDefault) env cs).how
      ≠ .outOfFuel) :
    execFrom o m cliSwitch env cs =
      execFrom o fuel (match armIndex v with | some k => arm k | none => armDefault) env cs := by
  rw [switch_frame, ← select_arm]
  rw [← select_arm] at hne
  exact mkSwitch_run o armDefault env cs v h cliTable fuel m (by simpa [cliTable] using hm) hne

/-! ## 2. the arms: calls, errors -/

/-- everything a read arm appends to the call log -/
def readNew (k : Nat) (flag : Bool) (g : GoOp) (env : Env) (e : String) (n : Int) (x : GoEval.Val) : Calls :=
  [(readMarker k, []), (readCallee k flag, readArgs k flag g.addr.toNat g.quantity.toNat)] ++
    (if e = "nil" then rows (rowCalls k env g.addr.toNat g.op n x) 0 n.toNat else readFailCalls k env e)

/-- everything a write arm appends -/
def writeNew (k : Nat) (g : GoOp) (env : Env) (e : String) (v : GoEval.Val) : Calls :=
  (writeCallee k, [.int g.addr.toNat, v]) :: writePrintCalls k env g.addr.toNat v e

/-- what the arm of `g.op` appends to the call log (`e`: the error the client call returns, `"nil"`
    = none; `n`, `x`: length / element leaf of the slice it returns) -/
def armNew (g : GoOp) (env : Env) (e : String) (n : Int) (x : GoEval.Val) : Calls :=
  match g.op with
  | 1 => readNew 0 g.isCoil g env e n x
  | 2 => readNew 1 g.isHoldingReg g env e n x
  | 3 => readNew 1 g.isHoldingReg g env e n x
  | 4 => readNew 2 g.isHoldingReg g env e n x
  | 5 => readNew 2 g.isHoldingReg g env e n x
  | 6 => readNew 3 g.isHoldingReg g env e n x
  | 7 => readNew 4 g.isHoldingReg g env e n x
  | 8 => readNew 4 g.isHoldingReg g env e n x
  | 9 => readNew 5 g.isHoldingReg g env e n x
  | 10 => readNew 6 g.isHoldingReg g env e n x
  | 11 => writeNew 7 g env e (.ofBool g.coil)
  | 13 => writeNew 8 g env e (.int g.u16.toNat)
  | 14 => writeNew 9 g env e (.int g.u16.toNat)
  | 16 => writeNew 10 g env e (.int g.u32.toNat)
  | 15 => writeNew 11 g env e (.int g.u32.toNat)
  | 17 => writeNew 12 g env e (f32Val g.f32)
  | 19 => writeNew 13 g env e (.int g.u64.toNat)
  | 18 => writeNew 14 g env e (.int g.u64.toNat)
  | 20 => writeNew 15 g env e (f64Val g.f64)
  | 21 => writeNew 16 g env e (bytesVal g.bytes)
  | 22 => [("client.SetUnitId", [.int g.unitId.toNat])]
  | 23 => [("time.Sleep", [.int g.duration])]
  | 24 => []
  | 25 => [pf env (arm 20) [Env.read env "time.Now().Format(time.RFC3339)"]]
  | 26 => [("performBoolScan", [.sym "client", .ofBool g.isCoil])]
  | 27 => [("performRegisterScan", [.sym "client", .ofBool g.isHoldingReg])]
  | 28 => [("performUnitIdScan", [.sym "client"])]
  | 29 => [("performPing", [.sym "client", .int g.quantity.toNat, .int g.duration])]
  | _ => []

/-- the variables a round assigns -/
def roundVars : List String := ["res", "err", "#len(res)", "idx", "o", "opIdx"]

theorem read_of (env : Env) (x : String) (v : GoEval.Val) (h : Env.read? env x = some v) :
    Env.read env x = v := by rw [read_def, h]; rfl

/-- THE ARMS. For EVERY record `g` whose op code has a case (1..11, 13..29), every environment
    holding its fields, every call history, every result of the client call (`rv`, error `e`,
    `n` elements): the arm the switch selects falls through, having appended exactly `armNew` to the
    call log; it assigns nothing but `res`, `err`, `#len(res)`, `idx` (and `opIdx` in `repeat`). -/
theorem C20R_arm (g : GoOp) (hv : 1 ≤ g.op ∧ g.op ≤ 29 ∧ g.op ≠ 12) (rv : GoEval.Val) (e : String)
    (env : Env) (cs : Calls) (n : Int) (x : GoEval.Val) (hb : Bound env g)
    (hlen : Env.read? env "len(res)" = some (.int n)) (hx : Env.read? env "res[idx]" = some x)
    (h0 : 0 ≤ n) (hn : n < 9223372036854775808) (F : Nat) (hF : n.toNat + 14 ≤ F) :
    ∃ env', execFrom (cliOracle rv e) F (selectArm cliTable armDefault g.op) env cs =
        ⟨env', .fell, cs ++ armNew g env e n x⟩ ∧
      (∀ t, t ∉ roundVars → Env.read? env' t = Env.read? env t) ∧
      Env.read? env' "opIdx" = (if g.op = 24 then some (.int (-1)) else Env.read? env "opIdx") := by
  obtain ⟨op, addr, isCoil, isHoldingReg, quantity, coil, u16, u32, f32, u64, f64, bytes, duration,
    unitId⟩ := g
  have frameOf : ∀ (env' : Env), (∀ t, t ≠ "res" → t ≠ "err" → t ≠ "#len(res)" → t ≠ "idx" →
      Env.read? env' t = Env.read? env t) →
      (∀ t, t ∉ roundVars → Env.read? env' t = Env.read? env t) ∧
        Env.read? env' "opIdx" = Env.read? env "opIdx" := by
    intro env' h
    refine ⟨fun t ht => h t ?_ ?_ ?_ ?_, h _ (by decide) (by decide) (by decide) (by decide)⟩ <;>
      (intro h'; subst h'; exact ht (by decide))
  have rd : ∀ (k : Nat) (hk : k < 7) (flag : Bool),
      Env.read? env (readFlagLeaf k) = some (.ofBool flag) →
      ∃ env', execFrom (cliOracle rv e) F (arm k) env cs =
        ⟨env', .fell, cs ++ [(readMarker k, []), (readCallee k flag, readArgs k flag addr.toNat quantity.toNat)] ++
          (if e = "nil" then rows (rowCalls k env addr.toNat op n x) 0 n.toNat else readFailCalls k env e)⟩ ∧
        (∀ t, t ≠ "res" → t ≠ "err" → t ≠ "#len(res)" → t ≠ "idx" → Env.read? env' t = Env.read? env t) :=
    fun k hk flag hflag => readArm_run k hk rv e env cs addr.toNat quantity.toNat op n flag x hflag
      hb.addr hb.quantity hb.op hb.nil hlen hx h0 hn F hF
  have wr : ∀ (k : Nat) (h7 : 7 ≤ k) (h16 : k ≤ 16) (v : GoEval.Val),
      Env.read? env (writeValueLeaf k) = some v →
      execFrom (cliOracle rv e) F (arm k) env cs =
        ⟨Env.write env "err" (.sym e), .fell,
          cs ++ (writeCallee k, [.int addr.toNat, v]) :: writePrintCalls k env addr.toNat v e⟩ :=
    fun k h7 h16 v hval => writeArm_run k h7 h16 rv e env cs addr.toNat v hb.addr hval hb.nil F (by omega)
  have wframe : (∀ t, t ∉ roundVars → Env.read? (Env.write env "err" (.sym e)) t = Env.read? env t) ∧
      Env.read? (Env.write env "err" (.sym e)) "opIdx" = Env.read? env "opIdx" := by
    refine ⟨fun t ht => read?_write_ne _ _ _ _ ?_, read?_write_ne _ _ _ _ (by decide)⟩
    intro h'; subst h'; exact ht (by decide)
  have sframe : (∀ t, t ∉ roundVars → Env.read? env t = Env.read? env t) ∧
      Env.read? env "opIdx" = Env.read? env "opIdx" := ⟨fun _ _ => rfl, rfl⟩
  simp only at hv hb
  rcases valid_cases op hv.1 hv.2.1 hv.2.2 with h | h | h | h | h | h | h | h | h | h | h | h | h | h | h |
    h | h | h | h | h | h | h | h | h | h | h | h | h <;> subst h
  -- reads
  · obtain ⟨env', h1, h2⟩ := rd 0 (by omega) isCoil hb.isCoil
    refine ⟨env', ?_, frameOf env' h2⟩
    show execFrom _ F (arm 0) env cs = _
    rw [h1]; simp only [armNew, readNew, List.append_assoc]
  · obtain ⟨env', h1, h2⟩ := rd 1 (by omega) isHoldingReg hb.isHoldingReg
    refine ⟨env', ?_, frameOf env' h2⟩
    show execFrom _ F (arm 1) env cs = _
    rw [h1]; simp only [armNew, readNew, List.append_assoc]
  · obtain ⟨env', h1, h2⟩ := rd 1 (by omega) isHoldingReg hb.isHoldingReg
    refine ⟨env', ?_, frameOf env' h2⟩
    show execFrom _ F (arm 1) env cs = _
    rw [h1]; simp only [armNew, readNew, List.append_assoc]
  · obtain ⟨env', h1, h2⟩ := rd 2 (by omega) isHoldingReg hb.isHoldingReg
    refine ⟨env', ?_, frameOf env' h2⟩
    show execFrom _ F (arm 2) env cs = _
    rw [h1]; simp only [armNew, readNew, List.append_assoc]
  · obtain ⟨env', h1, h2⟩ := rd 2 (by omega) isHoldingReg hb.isHoldingReg
    refine ⟨env', ?_, frameOf env' h2⟩
    show execFrom _ F (arm 2) env cs = _
    rw [h1]; simp only [armNew, readNew, List.append_assoc]
  · obtain ⟨env', h1, h2⟩ := rd 3 (by omega) isHoldingReg hb.isHoldingReg
    refine ⟨env', ?_, frameOf env' h2⟩
    show execFrom _ F (arm 3) env cs = _
    rw [h1]; simp only [armNew, readNew, List.append_assoc]
  · obtain ⟨env', h1, h2⟩ := rd 4 (by omega) isHoldingReg hb.isHoldingReg
    refine ⟨env', ?_, frameOf env' h2⟩
    show execFrom _ F (arm 4) env cs = _
    rw [h1]; simp only [armNew, readNew, List.append_assoc]
  · obtain ⟨env', h1, h2⟩ := rd 4 (by omega) isHoldingReg hb.isHoldingReg
    refine ⟨env', ?_, frameOf env' h2⟩
    show execFrom _ F (arm 4) env cs = _
    rw [h1]; simp only [armNew, readNew, List.append_assoc]
  · obtain ⟨env', h1, h2⟩ := rd 5 (by omega) isHoldingReg hb.isHoldingReg
    refine ⟨env', ?_, frameOf env' h2⟩
    show execFrom _ F (arm 5) env cs = _
    rw [h1]; simp only [armNew, readNew, List.append_assoc]
  · obtain ⟨env', h1, h2⟩ := rd 6 (by omega) isHoldingReg hb.isHoldingReg
    refine ⟨env', ?_, frameOf env' h2⟩
    show execFrom _ F (arm 6) env cs = _
    rw [h1]; simp only [armNew, readNew, List.append_assoc]
  -- writes: 11, 13, 14, 15, 16, 17, 18, 19, 20, 21
  · exact ⟨_, wr 7 (by omega) (by omega) _ hb.coil, wframe⟩
  · exact ⟨_, wr 8 (by omega) (by omega) _ hb.u16, wframe⟩
  · exact ⟨_, wr 9 (by omega) (by omega) _ hb.u16, wframe⟩
  · exact ⟨_, wr 11 (by omega) (by omega) _ hb.u32, wframe⟩
  · exact ⟨_, wr 10 (by omega) (by omega) _ hb.u32, wframe⟩
  · exact ⟨_, wr 12 (by omega) (by omega) _ hb.f32, wframe⟩
  · exact ⟨_, wr 14 (by omega) (by omega) _ hb.u64, wframe⟩
  · exact ⟨_, wr 13 (by omega) (by omega) _ hb.u64, wframe⟩
  · exact ⟨_, wr 15 (by omega) (by omega) _ hb.f64, wframe⟩
  · exact ⟨_, wr 16 (by omega) (by omega) _ hb.bytes, wframe⟩
  -- 22 setUnitId, 23 sleep, 24 repeat, 25 date, 26..28 scans, 29 ping
  · refine ⟨env, ?_, sframe⟩
    have := setUnitId_run rv e env cs F (by omega)
    rw [read_of _ _ _ hb.unitId] at this
    exact this
  · refine ⟨env, ?_, sframe⟩
    have := sleep_run rv e env cs F (by omega)
    rw [read_of _ _ _ hb.duration] at this
    exact this
  · refine ⟨Env.write env "opIdx" (.int (-1)), ?_, ?_, read?_write_same _ _ _⟩
    · show execFrom _ F (arm 19) env cs = _
      rw [repeat_run rv e env cs F (by omega)]; simp only [armNew, List.append_nil]
    intro t ht
    refine read?_write_ne _ _ _ _ ?_
    intro h'; subst h'; exact ht (by decide)
  · exact ⟨env, date_run rv e env cs F (by omega), sframe⟩
  · refine ⟨env, ?_, sframe⟩
    have := scanBools_run rv e env cs F (by omega) hb.client
    rw [read_of _ _ _ hb.isCoil] at this
    exact this
  · refine ⟨env, ?_, sframe⟩
    have := scanRegisters_run rv e env cs F (by omega) hb.client
    rw [read_of _ _ _ hb.isHoldingReg] at this
    exact this
  · exact ⟨env, scanUnitId_run rv e env cs F (by omega) hb.client, sframe⟩
  · refine ⟨env, ?_, sframe⟩
    have := ping_run rv e env cs F (by omega) hb.client
    rw [read_of _ _ _ hb.quantity, read_of _ _ _ hb.duration] at this
    exact this

/-! ### the client calls are the model's -/

theorem clientCalls_append (a b : Calls) : clientCalls (a ++ b) = clientCalls a ++ clientCalls b :=
  List.filter_append ..

theorem isClient_pf (env : Env) (s : GStmt) (args : List GoEval.Val) : isClient (pf env s args) = false := by
  rfl

theorem clientCalls_pf (env : Env) (s : GStmt) (args : List GoEval.Val) : clientCalls [pf env s args] = [] := by
  rfl

theorem clientCalls_rows (pr : Int → Calls) (h : ∀ i, clientCalls (pr i) = []) :
    ∀ (k : Nat) (i : Int), clientCalls (rows pr i k) = [] := by
  intro k
  induction k with
  | zero => intro i; rfl
  | succ k ih => intro i; rw [rows, clientCalls_append, h, ih]; rfl

theorem clientCalls_rowCalls (k : Nat) (hk : k < 7) (env : Env) (a opv n : Int) (x : GoEval.Val) (i : Int) :
    clientCalls (rowCalls k env a opv n x i) = [] := by
  have : k = 0 ∨ k = 1 ∨ k = 2 ∨ k = 3 ∨ k = 4 ∨ k = 5 ∨ k = 6 := by omega
  rcases this with rfl | rfl | rfl | rfl | rfl | rfl | rfl <;> simp only [rowCalls] <;>
    repeat' split
  all_goals simp only [clientCalls_append, clientCalls_pf, List.append_nil]
  all_goals rfl

theorem clientCalls_nil : clientCalls [] = [] := rfl
theorem clientCalls_cons_client (c : String) (args : List GoEval.Val) (rest : Calls)
    (h : clientMethods.contains c = true) : clientCalls ((c, args) :: rest) = (c, args) :: clientCalls rest := by
  unfold clientCalls
  rw [List.filter_cons, if_pos (show isClient (c, args) = true from h)]
theorem clientCalls_cons_other (c : String) (args : List GoEval.Val) (rest : Calls)
    (h : clientMethods.contains c = false) : clientCalls ((c, args) :: rest) = clientCalls rest := by
  unfold clientCalls
  rw [List.filter_cons, if_neg (show ¬ isClient (c, args) = true by rw [show isClient (c, args) = false from h]; decide)]

theorem denotes_valid (g : GoOp) (op : Operation) (hd : g.denotes = some op) :
    1 ≤ g.op ∧ g.op ≤ 29 ∧ g.op ≠ 12 := by
  obtain ⟨op', addr, isCoil, isHoldingReg, quantity, coil, u16, u32, f32, u64, f64, bytes, duration,
    unitId⟩ := g
  by_cases h : 1 ≤ op' ∧ op' ≤ 29 ∧ op' ≠ 12
  · exact h
  · exfalso
    have : op' = 0 ∨ op' = 12 ∨ 30 ≤ op' := by omega
    rcases this with rfl | rfl | h30
    · cases hd
    · cases hd
    · obtain ⟨w, rfl⟩ : ∃ w, op' = w + 30 := ⟨op' - 30, by omega⟩
      cases hd

theorem qplus1 (q : U16) : ((q + 1).toNat : Int) = ((q.toNat : Int) + 1) % 65536 := by
  rw [BitVec.toNat_add]
  have : (1 : U16).toNat = 1 := rfl
  rw [this]
  omega

theorem calls_read (k : Nat) (hk : k < 7) (flag : Bool) (g : GoOp) (env : Env) (e : String) (n : Int)
    (x : GoEval.Val) :
    clientCalls (readNew k flag g env e n x) =
      [(readCallee k flag, readArgs k flag g.addr.toNat g.quantity.toNat)] := by
  have hrows : clientCalls (if e = "nil" then rows (rowCalls k env g.addr.toNat g.op n x) 0 n.toNat
      else readFailCalls k env e) = [] := by
    split
    · exact clientCalls_rows _ (clientCalls_rowCalls k hk env _ _ n x) _ _
    · rfl
  unfold readNew
  rw [clientCalls_append, hrows, List.append_nil]
  have : k = 0 ∨ k = 1 ∨ k = 2 ∨ k = 3 ∨ k = 4 ∨ k = 5 ∨ k = 6 := by omega
  rcases this with rfl | rfl | rfl | rfl | rfl | rfl | rfl <;> cases flag <;>
    simp only [readMarker, readCallee, Bool.false_eq_true, ↓reduceIte] <;>
    rw [clientCalls_cons_other _ _ _ (by decide +kernel), clientCalls_cons_client _ _ _ (by decide +kernel)] <;>
    rfl

theorem calls_write (k : Nat) (h7 : 7 ≤ k) (h16 : k ≤ 16) (g : GoOp) (env : Env) (e : String)
    (v : GoEval.Val) :
    clientCalls (writeNew k g env e v) = [(writeCallee k, [.int g.addr.toNat, v])] := by
  have hwp : clientCalls (writePrintCalls k env g.addr.toNat v e) = [] := by
    unfold writePrintCalls
    split <;> rfl
  unfold writeNew
  have : k = 7 ∨ k = 8 ∨ k = 9 ∨ k = 10 ∨ k = 11 ∨ k = 12 ∨ k = 13 ∨ k = 14 ∨ k = 15 ∨ k = 16 := by omega
  rcases this with rfl | rfl | rfl | rfl | rfl | rfl | rfl | rfl | rfl | rfl <;>
    simp only [writeCallee] <;>
    rw [clientCalls_cons_client _ _ _ (by decide +kernel), hwp]

theorem regTypeArg_int (h : Bool) : ((regTypeArg h : Nat) : Int) = if h = true then 0 else 1 := by
  cases h <;> rfl

/-- CALLS = MODEL. The client calls of the arm of a record are exactly the model's `execute` of the
    operation it stands for, as (method, evaluated arguments), plus `client.SetUnitId(id)` for
    `setUnitId` (`nextUnit`): ONE call per read / write operation, whatever the call returns —
    `o.quantity + 1` in 16 bits, register type 0 = `modbus.HOLDING_REGISTER` iff `isHoldingReg`,
    writes with `(addr, value)`. (`sleep`, `repeat`, `date`: none. The scans and `ping`: none in
    `main` — they pass `client` on, see `C20R_unmodelled`.) -/
theorem C20R_calls (g : GoOp) (op : Operation) (hd : g.denotes = some op) (env : Env) (e : String)
    (n : Int) (x : GoEval.Val) :
    clientCalls (armNew g env e n x) = (execute op).map callOf ++ unitCall op := by
  obtain ⟨hv1, hv2, hv3⟩ := denotes_valid g op hd
  obtain ⟨op', addr, isCoil, isHoldingReg, quantity, coil, u16, u32, f32, u64, f64, bytes, duration,
    unitId⟩ := g
  simp only at hv1 hv2 hv3
  rcases valid_cases op' hv1 hv2 hv3 with h | h | h | h | h | h | h | h | h | h | h | h | h | h | h |
    h | h | h | h | h | h | h | h | h | h | h | h | h <;> subst h <;>
    simp only [GoOp.denotes, Option.some.injEq] at hd <;> subst hd
  -- reads
  · simp only [armNew, calls_read 0 (by omega), readCallee, readArgs, execute, unitCall, List.append_nil]
    cases isCoil <;> simp only [Bool.false_eq_true, ↓reduceIte, List.map, callOf, qplus1]
  iterate 9
    simp only [armNew, calls_read 1 (by omega), calls_read 2 (by omega), calls_read 3 (by omega),
      calls_read 4 (by omega), calls_read 5 (by omega), calls_read 6 (by omega), readCallee, readArgs, execute, unitCall, List.append_nil,
      List.map, callOf, qplus1, regTypeArg_int]
  -- writes
  iterate 10
    simp only [armNew, calls_write 7 (by omega) (by omega), calls_write 8 (by omega) (by omega),
      calls_write 9 (by omega) (by omega), calls_write 10 (by omega) (by omega),
      calls_write 11 (by omega) (by omega), calls_write 12 (by omega) (by omega),
      calls_write 13 (by omega) (by omega), calls_write 14 (by omega) (by omega),
      calls_write 15 (by omega) (by omega), calls_write 16 (by omega) (by omega), writeCallee, execute, unitCall, List.append_nil,
      List.map, callOf]
  -- setUnitId
  · simp only [armNew, execute, unitCall, List.map, List.nil_append]
    exact clientCalls_cons_client _ _ _ (by decide +kernel)
  -- sleep, repeat, date, scans, ping
  · simp only [armNew, execute, unitCall, List.map, List.nil_append]
    exact clientCalls_cons_other _ _ _ (by decide +kernel)
  · rfl
  · rfl
  · simp only [armNew, execute, unitCall, List.map, List.nil_append]
    exact clientCalls_cons_other _ _ _ (by decide +kernel)
  · simp only [armNew, execute, unitCall, List.map, List.nil_append]
    exact clientCalls_cons_other _ _ _ (by decide +kernel)
  · simp only [armNew, execute, unitCall, List.map, List.nil_append]
    exact clientCalls_cons_other _ _ _ (by decide +kernel)
  · simp only [armNew, execute, unitCall, List.map, List.nil_append]
    exact clientCalls_cons_other _ _ _ (by decide +kernel)

/-- the read quantity is `o.quantity + 1` in uint16 arithmetic: `addr+65535` asks for 0 items (the
    model's `C20_count_wrap`; the library then refuses the call, C01) -/
theorem C20R_count_wrap (g : GoOp) (h1 : 1 ≤ g.op) (h10 : g.op ≤ 10) (env : Env) (e : String) (n : Int)
    (x : GoEval.Val) :
    ∃ callee rest, clientCalls (armNew g env e n x) =
        [(callee, .int g.addr.toNat :: .int ((g.quantity.toNat + 1) % 65536) :: rest)] ∧
      (g.quantity = 0xFFFF → ((g.quantity.toNat : Int) + 1) % 65536 = 0) := by
  obtain ⟨op', addr, isCoil, isHoldingReg, quantity, coil, u16, u32, f32, u64, f64, bytes, duration,
    unitId⟩ := g
  simp only at h1 h10
  have hq : quantity = 0xFFFF → ((quantity.toNat : Int) + 1) % 65536 = 0 := by
    intro h; subst h; rfl
  have : op' = 1 ∨ op' = 2 ∨ op' = 3 ∨ op' = 4 ∨ op' = 5 ∨ op' = 6 ∨ op' = 7 ∨ op' = 8 ∨ op' = 9 ∨ op' = 10 := by
    omega
  rcases this with rfl | rfl | rfl | rfl | rfl | rfl | rfl | rfl | rfl | rfl
  · exact ⟨_, _, by simp only [armNew, calls_read 0 (by omega), readArgs]; rfl, hq⟩
  all_goals
    exact ⟨_, _, by simp only [armNew, calls_read 1 (by omega), calls_read 2 (by omega), calls_read 3 (by omega),
      calls_read 4 (by omega), calls_read 5 (by omega), calls_read 6 (by omega), readArgs]; rfl, hq⟩

/-! ### errors, exits -/

abbrev fmtFailCoil : String := "\"failed to write %v at coil address 0x%04x: %v\\n\""
abbrev fmtFailReg : String := "\"failed to write %v at register address 0x%04x: %v\\n\""
abbrev fmtFailAt : String := "\"failed to write %v at address 0x%04x: %v\\n\""
abbrev fmtFailAtF : String := "\"failed to write %f at address 0x%04x: %v\\n\""

/-- ERRORS. A non-nil error `e` of the client call: the arm prints ONE message — the failure format
    with the error (reads), with value, address and error (writes) — nothing else, and falls through
    (`C20R_arm`: `how = fell` for every `e`; `C20R_round`: the loop goes on with `opIdx + 1`). The
    process does not exit and the exit status is not changed. -/
theorem C20R_errors (g : GoOp) (env : Env) (e : String) (he : e ≠ "nil") (n : Int) (x v : GoEval.Val) :
    (∀ k flag, readNew k flag g env e n x =
      [(readMarker k, []), (readCallee k flag, readArgs k flag g.addr.toNat g.quantity.toNat),
       pf env (armFail (arm k)) [.sym e]]) ∧
    (∀ k, writeNew k g env e v =
      [(writeCallee k, [.int g.addr.toNat, v]),
       pf env (wFail (arm k)) [writeShown k v, .int g.addr.toNat, .sym e]]) ∧
    fmtOf (armFail (arm 0)) = fmtFailBools ∧
    (List.range 7).tail.map (fun k => fmtOf (armFail (arm k))) = List.replicate 6 fmtFailRegs ∧
    ((List.range 17).drop 7).map (fun k => fmtOf (wFail (arm k))) =
      [fmtFailCoil, fmtFailReg, fmtFailReg, fmtFailAt, fmtFailAt, fmtFailAtF, fmtFailAt, fmtFailAt,
       fmtFailAtF, fmtFailAt] := by
  refine ⟨fun k flag => ?_, fun k => ?_, by rfl, by decide +kernel, by decide +kernel⟩
  · simp only [readNew, if_neg he, readFailCalls, List.cons_append, List.nil_append]
  · simp only [writeNew, writePrintCalls, if_neg he]

/-- literal value of an argument -/
def litVal : GExpr → Option Int
  | .lit v _ => some v
  | _ => none
/-- the `os.Exit` call sites of a statement with their (literal) arguments -/
def exitSites (s : GStmt) : List (List (Option Int)) :=
  ((bindCalls s).filter (fun c => c.2.1 == "os.Exit")).map (fun c => c.2.2.map litVal)

/-- the ONLY `os.Exit` of the run loop is `os.Exit(100)` in the `default` case (an op code without a
    case: cannot come out of the argument loop, which sets `o.op` from the constants with a case) -/
theorem C20R_exit_sites : exitSites cliRunPart = [[some 100]] ∧ exitSites armDefault = [[some 100]] := by
  constructor <;> decide +kernel

/-- `default`: message, then the run stops at `os.Exit(100)` (the oracle has no answer: the process
    ends); no client call -/
theorem C20R_default (v : Nat) (hv : v = 0 ∨ v = 12 ∨ 30 ≤ v) (rv : GoEval.Val) (e : String) (env : Env)
    (cs : Calls) (ov : GoEval.Val) (ho : Env.read? env "o" = some ov) (F : Nat) (hF : 3 ≤ F) :
    execFrom (cliOracle rv e) F (selectArm cliTable armDefault v) env cs =
      ⟨env, .stoppedAt "os.Exit" [.int 100], cs ++ [pf env (sA armDefault) [ov]]⟩ ∧
    fmtOf (sA armDefault) = "\"unknown operation %v\\n\"" := by
  rw [select_default _ _ (by omega)]
  exact ⟨default_run rv e env cs ov F hF ho, by rfl⟩

/-- after the last operation the loop is left and `main` returns (`run_is_last`: nothing but
    `return` follows the loop): exit status 0, whatever errors the calls returned -/
theorem C20R_loop_end (o : Oracle) (env : Env) (cs : Calls) (j len : Int)
    (hj : Env.read? env "opIdx" = some (.int j)) (hl : Env.read? env "len(runList)" = some (.int len))
    (h : ¬ j < len) (F : Nat) :
    execFrom o (F + 3) (.loop cliHead) env cs = ⟨env, .fell, cs⟩ ∧ afterInit "opIdx" gs_cli_main = .ret := by
  refine ⟨?_, run_is_last⟩
  rw [execFrom_loop, head_run o env cs j len hj hl F, if_neg h, loopK_broke]

/-- the loop goes on: a round that fell through is followed by the loop head again (and a round
    that stopped at `os.Exit` ends the run) -/
theorem C20R_loop_step (o : Oracle) (env : Env) (cs : Calls) (j len : Int)
    (hj : Env.read? env "opIdx" = some (.int j)) (hl : Env.read? env "len(runList)" = some (.int len))
    (h : j < len) (F : Nat) (r : Res) (hr : execFrom o (F + 1) cliRound env cs = r) :
    execFrom o (F + 3) (.loop cliHead) env cs = loopK o (F + 2) cliHead r ∧
    (∀ env' cs', loopK o (F + 2) cliHead ⟨env', .fell, cs'⟩ = execFrom o (F + 2) (.loop cliHead) env' cs') ∧
    (∀ env' cs' f a, loopK o (F + 2) cliHead ⟨env', .stoppedAt f a, cs'⟩ = ⟨env', .stoppedAt f a, cs'⟩) := by
  refine ⟨?_, fun _ _ => loopK_fell .., fun _ _ _ _ => loopK_stopped ..⟩
  rw [execFrom_loop, head_run o env cs j len hj hl F, if_pos h, hr]

/-- every call site of every arm (all paths): no method of `client` other than the ones
    `clientCalls` looks for is called anywhere in the run loop -/
theorem C20R_call_sites :
    callees (arm 0) = ["var []bool", "client.ReadCoils", "client.ReadDiscreteInputs", "fmt.Printf", "fmt.Printf"] ∧
    callees (arm 1) = ["var []uint16", "client.ReadRegisters", "client.ReadRegisters", "fmt.Printf", "fmt.Printf", "fmt.Printf"] ∧
    callees (arm 2) = ["var []uint32", "client.ReadUint32s", "client.ReadUint32s", "fmt.Printf", "fmt.Printf", "fmt.Printf"] ∧
    callees (arm 3) = ["var []float32", "client.ReadFloat32s", "client.ReadFloat32s", "fmt.Printf", "fmt.Printf"] ∧
    callees (arm 4) = ["var []uint64", "client.ReadUint64s", "client.ReadUint64s", "fmt.Printf", "fmt.Printf", "fmt.Printf"] ∧
    callees (arm 5) = ["var []float64", "client.ReadFloat64s", "client.ReadFloat64s", "fmt.Printf", "fmt.Printf"] ∧
    callees (arm 6) = ["var []byte", "client.ReadBytes", "client.ReadBytes", "fmt.Printf", "fmt.Printf", "fmt.Printf", "fmt.Printf", "fmt.Printf"] ∧
    callees (arm 7) = ["client.WriteCoil", "fmt.Printf", "fmt.Printf"] ∧
    callees (arm 8) = ["client.WriteRegister", "fmt.Printf", "fmt.Printf"] ∧
    callees (arm 9) = ["client.WriteRegister", "fmt.Printf", "fmt.Printf"] ∧
    callees (arm 10) = ["client.WriteUint32", "fmt.Printf", "fmt.Printf"] ∧
    callees (arm 11) = ["client.WriteUint32", "fmt.Printf", "fmt.Printf"] ∧
    callees (arm 12) = ["client.WriteFloat32", "fmt.Printf", "fmt.Printf"] ∧
    callees (arm 13) = ["client.WriteUint64", "fmt.Printf", "fmt.Printf"] ∧
    callees (arm 14) = ["client.WriteUint64", "fmt.Printf", "fmt.Printf"] ∧
    callees (arm 15) = ["client.WriteFloat64", "fmt.Printf", "fmt.Printf"] ∧
    callees (arm 16) = ["client.WriteBytes", "fmt.Printf", "fmt.Printf"] ∧
    callees (arm 17) = ["time.Sleep"] ∧ callees (arm 18) = ["client.SetUnitId"] ∧ callees (arm 19) = [] ∧
    callees (arm 20) = ["fmt.Printf"] ∧ callees (arm 21) = ["performBoolScan"] ∧
    callees (arm 22) = ["performRegisterScan"] ∧ callees (arm 23) = ["performUnitIdScan"] ∧
    callees (arm 24) = ["performPing"] ∧ callees armDefault = ["fmt.Printf", "os.Exit"] := callees_arms

/-- what the unmodelled operations do (`Operation.other`): no call on `client` in `main`;
    the scans and `ping` hand `client` to functions that issue their own requests -/
theorem C20R_unmodelled (g : GoOp) (env : Env) (e : String) (n : Int) (x : GoEval.Val) :
    armNew { g with op := 23 } env e n x = [("time.Sleep", [.int g.duration])] ∧
    armNew { g with op := 24 } env e n x = [] ∧
    armNew { g with op := 25 } env e n x = [pf env (arm 20) [Env.read env "time.Now().Format(time.RFC3339)"]] ∧
    armNew { g with op := 26 } env e n x = [("performBoolScan", [.sym "client", .ofBool g.isCoil])] ∧
    armNew { g with op := 27 } env e n x = [("performRegisterScan", [.sym "client", .ofBool g.isHoldingReg])] ∧
    armNew { g with op := 28 } env e n x = [("performUnitIdScan", [.sym "client"])] ∧
    armNew { g with op := 29 } env e n x =
      [("performPing", [.sym "client", .int g.quantity.toNat, .int g.duration])] :=
  ⟨rfl, rfl, rfl, rfl, rfl, rfl, rfl⟩

/-! ### the round; only the current record matters -/

theorem read_congr {env1 env2 : Env} (H : ∀ t, t ∉ roundVars → Env.read? env1 t = Env.read? env2 t)
    (t : String) (h : t ∉ roundVars) : Env.read env1 t = Env.read env2 t := by
  rw [read_def, read_def, H t h]

theorem pf_congr {env1 env2 : Env} (H : ∀ t, t ∉ roundVars → Env.read? env1 t = Env.read? env2 t)
    (s : GStmt) (args : List GoEval.Val) (h : fmtOf s ∉ roundVars) : pf env1 s args = pf env2 s args := by
  unfold pf; rw [read_congr H _ h]

theorem rowCalls_congr {env1 env2 : Env} (H : ∀ t, t ∉ roundVars → Env.read? env1 t = Env.read? env2 t)
    (k : Nat) (hk : k < 7) (a opv n : Int) (x : GoEval.Val) :
    rowCalls k env1 a opv n x = rowCalls k env2 a opv n x := by
  funext i
  have : k = 0 ∨ k = 1 ∨ k = 2 ∨ k = 3 ∨ k = 4 ∨ k = 5 ∨ k = 6 := by omega
  rcases this with rfl | rfl | rfl | rfl | rfl | rfl | rfl <;> simp only [rowCalls]
  · rw [pf_congr H (rowStmt 0) _ (by decide +kernel)]
  · rw [pf_congr H (iT (rowStmt 1)) _ (by decide +kernel), pf_congr H (iE (rowStmt 1)) _ (by decide +kernel)]
  · rw [pf_congr H (iT (rowStmt 2)) _ (by decide +kernel), pf_congr H (iE (rowStmt 2)) _ (by decide +kernel)]
  · rw [pf_congr H (rowStmt 3) _ (by decide +kernel)]
  · rw [pf_congr H (iT (rowStmt 4)) _ (by decide +kernel), pf_congr H (iE (rowStmt 4)) _ (by decide +kernel)]
  · rw [pf_congr H (rowStmt 5) _ (by decide +kernel)]
  · rw [pf_congr H bytesHead _ (by decide +kernel), pf_congr H bytesByte _ (by decide +kernel),
      pf_congr H bytesTail _ (by decide +kernel), pf_congr H bytesGap _ (by decide +kernel),
      read_congr H decodeLeaf (by decide +kernel)]

theorem readNew_congr {env1 env2 : Env} (H : ∀ t, t ∉ roundVars → Env.read? env1 t = Env.read? env2 t)
    (k : Nat) (hk : k < 7) (flag : Bool) (g : GoOp) (e : String) (n : Int) (x : GoEval.Val) :
    readNew k flag g env1 e n x = readNew k flag g env2 e n x := by
  unfold readNew readFailCalls
  rw [rowCalls_congr H k hk]
  have : k = 0 ∨ k = 1 ∨ k = 2 ∨ k = 3 ∨ k = 4 ∨ k = 5 ∨ k = 6 := by omega
  rcases this with rfl | rfl | rfl | rfl | rfl | rfl | rfl <;>
    rw [pf_congr H (armFail (arm _)) _ (by decide +kernel)]

theorem writeNew_congr {env1 env2 : Env} (H : ∀ t, t ∉ roundVars → Env.read? env1 t = Env.read? env2 t)
    (k : Nat) (h7 : 7 ≤ k) (h16 : k ≤ 16) (g : GoOp) (e : String) (v : GoEval.Val) :
    writeNew k g env1 e v = writeNew k g env2 e v := by
  unfold writeNew writePrintCalls
  have : k = 7 ∨ k = 8 ∨ k = 9 ∨ k = 10 ∨ k = 11 ∨ k = 12 ∨ k = 13 ∨ k = 14 ∨ k = 15 ∨ k = 16 := by omega
  rcases this with rfl | rfl | rfl | rfl | rfl | rfl | rfl | rfl | rfl | rfl <;>
    rw [pf_congr H (wOk (arm _)) _ (by decide +kernel), pf_congr H (wFail (arm _)) _ (by decide +kernel)] <;>
    simp only [writeOkArgs]
  rw [read_congr H "len(o.bytes)" (by decide)]

/-- what an arm does depends on the environment only through leaves no round assigns -/
theorem armNew_congr {env1 env2 : Env} (H : ∀ t, t ∉ roundVars → Env.read? env1 t = Env.read? env2 t)
    (g : GoOp) (e : String) (n : Int) (x : GoEval.Val) : armNew g env1 e n x = armNew g env2 e n x := by
  obtain ⟨op', addr, isCoil, isHoldingReg, quantity, coil, u16, u32, f32, u64, f64, bytes, duration,
    unitId⟩ := g
  by_cases hv : 1 ≤ op' ∧ op' ≤ 29 ∧ op' ≠ 12
  · rcases valid_cases op' hv.1 hv.2.1 hv.2.2 with h | h | h | h | h | h | h | h | h | h | h | h | h | h | h |
      h | h | h | h | h | h | h | h | h | h | h | h | h <;> subst h <;> simp only [armNew]
    iterate 10 exact readNew_congr H _ (by omega) _ _ _ _ _
    iterate 10 exact writeNew_congr H _ (by omega) (by omega) _ _ _
    · rw [pf_congr H (arm 20) _ (by decide +kernel), read_congr H _ (by decide)]
  · have : op' = 0 ∨ op' = 12 ∨ 30 ≤ op' := by omega
    rcases this with rfl | rfl | h30
    · rfl
    · rfl
    · obtain ⟨w, rfl⟩ : ∃ w, op' = w + 30 := ⟨op' - 30, by omega⟩
      rfl

theorem Bound.congr {env1 env2 : Env} (H : ∀ t, t ∉ roundVars → Env.read? env1 t = Env.read? env2 t)
    {g : GoOp} (h : Bound env1 g) : Bound env2 g where
  op := by rw [← H _ (by decide)]; exact h.op
  addr := by rw [← H _ (by decide)]; exact h.addr
  isCoil := by rw [← H _ (by decide)]; exact h.isCoil
  isHoldingReg := by rw [← H _ (by decide)]; exact h.isHoldingReg
  quantity := by rw [← H _ (by decide)]; exact h.quantity
  coil := by rw [← H _ (by decide)]; exact h.coil
  u16 := by rw [← H _ (by decide)]; exact h.u16
  u32 := by rw [← H _ (by decide)]; exact h.u32
  f32 := by rw [← H _ (by decide)]; exact h.f32
  u64 := by rw [← H _ (by decide)]; exact h.u64
  f64 := by rw [← H _ (by decide)]; exact h.f64
  bytes := by rw [← H _ (by decide)]; exact h.bytes
  bytesLen := by rw [← H _ (by decide)]; exact h.bytesLen
  duration := by rw [← H _ (by decide)]; exact h.duration
  unitId := by rw [← H _ (by decide)]; exact h.unitId
  nil := by rw [← H _ (by decide)]; exact h.nil
  client := by rw [← H _ (by decide)]; exact h.client

/-- THE ROUND. `o = &runList[opIdx]`, the switch, `opIdx++`, for every record with a case: the round
    falls through having appended `armNew` (whatever the client call returned: the loop goes on
    after an error), `opIdx` is `j + 1` (`repeat`: 0), nothing but the round's own variables
    changes. -/
theorem C20R_round (g : GoOp) (hv : 1 ≤ g.op ∧ g.op ≤ 29 ∧ g.op ≠ 12) (rv : GoEval.Val) (e : String)
    (env : Env) (cs : Calls) (n : Int) (x : GoEval.Val) (hb : Bound env g)
    (hlen : Env.read? env "len(res)" = some (.int n)) (hx : Env.read? env "res[idx]" = some x)
    (h0 : 0 ≤ n) (hn : n < 9223372036854775808) (j : Int)
    (hj : Env.read? env "opIdx" = some (.int j)) (hj0 : -9223372036854775808 ≤ j)
    (hj1 : j + 1 < 9223372036854775808) (F : Nat) (hF : n.toNat + 45 ≤ F) :
    ∃ env', execFrom (cliOracle rv e) F cliRound env cs = ⟨env', .fell, cs ++ armNew g env e n x⟩ ∧
      Env.read? env' "opIdx" = some (.int (if g.op = 24 then 0 else j + 1)) ∧
      (∀ t, t ∉ roundVars → Env.read? env' t = Env.read? env t) := by
  have H1 : ∀ t, t ∉ roundVars →
      Env.read? (Env.write env "o" (Env.read env "&runList[opIdx]")) t = Env.read? env t := by
    intro t ht
    refine read?_write_ne _ _ _ _ ?_
    intro h'; subst h'; exact ht (by decide)
  have H1' : ∀ t, t ∉ roundVars →
      Env.read? env t = Env.read? (Env.write env "o" (Env.read env "&runList[opIdx]")) t :=
    fun t ht => (H1 t ht).symm
  obtain ⟨env2, harm, hframe, hop⟩ := C20R_arm g hv rv e _ cs n x (hb.congr H1')
    (by rw [H1 _ (by decide)]; exact hlen) (by rw [H1 _ (by decide)]; exact hx) h0 hn (n.toNat + 14)
    (Nat.le_refl _)
  rw [armNew_congr H1] at harm
  rw [read?_write_ne _ _ _ _ (by decide), hj] at hop
  by_cases h24 : g.op = 24
  · rw [if_pos h24] at hop
    refine ⟨_, round_run_fell _ env cs g.op (-1) _ env2 _ hb.op harm hop (by omega) (by omega) F (by omega),
      ?_, ?_⟩
    · rw [read?_write_same, if_pos h24]; rfl
    · intro t ht
      rw [read?_write_ne _ _ _ _ (by intro h'; subst h'; exact ht (by decide)), hframe t ht, H1 t ht]
  · rw [if_neg h24] at hop
    refine ⟨_, round_run_fell _ env cs g.op j _ env2 _ hb.op harm hop (by omega) (by omega) F (by omega),
      ?_, ?_⟩
    · rw [read?_write_same, if_neg h24]
    · intro t ht
      rw [read?_write_ne _ _ _ _ (by intro h'; subst h'; exact ht (by decide)), hframe t ht, H1 t ht]

/-! ## 3. what is printed next to what -/

/-- the model's address column of item `i` of a `k`-register type (`at'` in `Cli.printedLines`) -/
def modelAddr (a : U16) (k i : Nat) : U16 := a + BitVec.ofNat 16 i * BitVec.ofNat 16 k

theorem modelAddr_toNat (a : U16) (k i : Nat) (hk : k < 65536) :
    (modelAddr a k i).toNat = (a.toNat + i % 65536 * k % 65536) % 65536 := by
  simp [modelAddr, BitVec.toNat_add, BitVec.toNat_mul, BitVec.toNat_ofNat, Nat.mod_eq_of_lt hk]

theorem col1_model (a : U16) (i : Nat) : col1 a.toNat i = .int (modelAddr a 1 i).toNat := by
  rw [modelAddr_toNat a 1 i (by omega)]; unfold col1
  simp only [Val.int.injEq]; omega
theorem colS_model2 (a : U16) (i : Nat) : colS a.toNat i 2 = .int (modelAddr a 2 i).toNat := by
  rw [modelAddr_toNat a 2 i (by omega)]; unfold colS
  simp only [Val.int.injEq]; omega
theorem colS_model4 (a : U16) (i : Nat) : colS a.toNat i 4 = .int (modelAddr a 4 i).toNat := by
  rw [modelAddr_toNat a 4 i (by omega)]; unfold colS
  simp only [Val.int.injEq]; omega
/-- `bytes`: byte `i` is on the line starting at register `addr + i/2`; at the line starts
    (`i = 16·r`) that is the model's `addr + 8·r` -/
theorem colB_model (a : U16) (i : Nat) :
    colB a.toNat i = .int (a + BitVec.ofNat 16 (i / 2)).toNat ∧
    ∀ r, i = 16 * r → colB a.toNat i = .int (modelAddr a 8 r).toNat := by
  constructor
  · unfold colB
    simp only [BitVec.toNat_add, BitVec.toNat_ofNat, Val.int.injEq]
    omega
  · intro r hr
    rw [modelAddr_toNat a 8 r (by omega)]; unfold colB
    simp only [Val.int.injEq]; omega

/-- PRINTED ADDRESSES. The typed address expressions of every row `Printf` (arguments 1 and 2: the
    hex and the decimal column), extracted from the generated term by accessors, EVALUATED for all
    `addr : uint16` and all `idx : int ≥ 0`:
      bools, uint16, int16            `o.addr + uint16(idx)`       = `addr + idx·1`
      uint32, int32, float32          `o.addr + uint16(idx) * 2`   = `addr + idx·2`
      uint64, int64, float64          `o.addr + uint16(idx) * 4`   = `addr + idx·4`
      bytes (printed when idx%16==0)  `o.addr + uint16(idx/2)`
    all in uint16 arithmetic = the model's column `modelAddr` (`C20R_model_lines`), which is the
    address of the first register of item `idx` as long as the span stays inside the address space
    (`C20X_printed_address`). -/
theorem C20R_printed_addresses (env : Env) (a : U16) (i : Nat)
    (ha : Env.read? env "o.addr" = some (.int a.toNat)) (hi : Env.read? env "idx" = some (.int i)) :
    [argN 1 (rowStmt 0), argN 2 (rowStmt 0), argN 1 (iT (rowStmt 1)), argN 2 (iT (rowStmt 1)),
      argN 1 (iE (rowStmt 1)), argN 2 (iE (rowStmt 1))].map (eval env)
      = List.replicate 6 (.int (modelAddr a 1 i).toNat) ∧
    [argN 1 (iT (rowStmt 2)), argN 2 (iT (rowStmt 2)), argN 1 (iE (rowStmt 2)), argN 2 (iE (rowStmt 2)),
      argN 1 (rowStmt 3), argN 2 (rowStmt 3)].map (eval env)
      = List.replicate 6 (.int (modelAddr a 2 i).toNat) ∧
    [argN 1 (iT (rowStmt 4)), argN 2 (iT (rowStmt 4)), argN 1 (iE (rowStmt 4)), argN 2 (iE (rowStmt 4)),
      argN 1 (rowStmt 5), argN 2 (rowStmt 5)].map (eval env)
      = List.replicate 6 (.int (modelAddr a 4 i).toNat) ∧
    [argN 1 bytesHead, argN 2 bytesHead].map (eval env)
      = List.replicate 2 (.int (a + BitVec.ofNat 16 (i / 2)).toNat) ∧
    (∀ k, (k = 1 ∨ k = 2 ∨ k = 4 ∨ k = 8) → a.toNat + k * i < 65536 →
      (modelAddr a k i).toNat = a.toNat + k * i) := by
  refine ⟨?_, ?_, ?_, ?_, fun k hk h => C20X_printed_address a i k hk h⟩
  · rw [← col1_model]; cli_eval [ha, hi, List.replicate]
  · rw [← colS_model2]; cli_eval [ha, hi, List.replicate]
  · rw [← colS_model4]; cli_eval [ha, hi, List.replicate]
  · rw [← (colB_model a i).1]
    have h0 : (0 : Int) ≤ (i : Int) := Int.natCast_nonneg i
    cli_eval [ha, hi, List.replicate, tdiv_of_nonneg _ h0]
    simp only [List.cons.injEq, Val.int.injEq, and_self, and_true]
    omega

theorem sg16 (x : U16) : convVal .i16 (.int x.toNat) = .int x.toInt := by
  have h : x.toNat < 65536 := x.isLt
  rw [convVal_int, wrap_i16_def, BitVec.toInt_eq_toNat_cond]
  simp only [Nat.reducePow, Val.int.injEq]
  split <;> omega
theorem sg32 (x : U32) : convVal .i32 (.int x.toNat) = .int x.toInt := by
  have h : x.toNat < 4294967296 := x.isLt
  rw [convVal_int, wrap_i32_def, BitVec.toInt_eq_toNat_cond]
  simp only [Nat.reducePow, Val.int.injEq]
  split <;> omega
theorem sg64 (x : U64) : convVal .i64 (.int x.toNat) = .int x.toInt := by
  have h : x.toNat < 18446744073709551616 := x.isLt
  rw [convVal_int, wrap_i64_def, BitVec.toInt_eq_toNat_cond]
  simp only [Nat.reducePow, Val.int.injEq]
  split <;> omega

/-- SIGNED FORMS. The value expressions of the rows and of the write messages, extracted by
    accessors and evaluated for every value of the unsigned leaf: the unsigned forms print the value
    itself, the signed forms its conversion `int16(v)` / `int32(v)` / `int64(v)`, which is the two's
    complement reading `BitVec.toInt` (what the model prints: `intStr x.toInt`); the hex column
    (argument 3) is always the unsigned value. -/
theorem C20R_signed (env : Env) (v16 : U16) (v32 : U32) (v64 : U64) :
    (Env.read? env "res[idx]" = some (.int v16.toNat) →
      [argN 3 (iT (rowStmt 1)), argN 4 (iT (rowStmt 1)), argN 3 (iE (rowStmt 1)), argN 4 (iE (rowStmt 1))].map
        (eval env) = [.int v16.toNat, .int v16.toNat, .int v16.toNat, .int v16.toInt]) ∧
    (Env.read? env "res[idx]" = some (.int v32.toNat) →
      [argN 3 (iT (rowStmt 2)), argN 4 (iT (rowStmt 2)), argN 3 (iE (rowStmt 2)), argN 4 (iE (rowStmt 2))].map
        (eval env) = [.int v32.toNat, .int v32.toNat, .int v32.toNat, .int v32.toInt]) ∧
    (Env.read? env "res[idx]" = some (.int v64.toNat) →
      [argN 3 (iT (rowStmt 4)), argN 4 (iT (rowStmt 4)), argN 3 (iE (rowStmt 4)), argN 4 (iE (rowStmt 4))].map
        (eval env) = [.int v64.toNat, .int v64.toNat, .int v64.toNat, .int v64.toInt]) ∧
    (Env.read? env "o.u16" = some (.int v16.toNat) →
      [argN 1 (wOk (arm 8)), argN 1 (wOk (arm 9)), argN 1 (wFail (arm 9))].map (eval env)
        = [.int v16.toNat, .int v16.toInt, .int v16.toInt]) ∧
    (Env.read? env "o.u32" = some (.int v32.toNat) →
      [argN 1 (wOk (arm 10)), argN 1 (wOk (arm 11)), argN 1 (wFail (arm 11))].map (eval env)
        = [.int v32.toNat, .int v32.toInt, .int v32.toInt]) ∧
    (Env.read? env "o.u64" = some (.int v64.toNat) →
      [argN 1 (wOk (arm 13)), argN 1 (wOk (arm 14)), argN 1 (wFail (arm 14))].map (eval env)
        = [.int v64.toNat, .int v64.toInt, .int v64.toInt]) := by
  have k16 := sg16 v16
  have k32 := sg32 v32
  have k64 := sg64 v64
  rw [convVal_int, wrap_i16_def] at k16
  rw [convVal_int, wrap_i32_def] at k32
  rw [convVal_int, wrap_i64_def] at k64
  refine ⟨fun h => ?_, fun h => ?_, fun h => ?_, fun h => ?_, fun h => ?_, fun h => ?_⟩
  · cli_eval [h, k16]
  · cli_eval [h, k32]
  · cli_eval [h, k64]
  · cli_eval [h, k16]
  · cli_eval [h, k32]
  · cli_eval [h, k64]

/-- the content of a row, per type, in the model's terms: (hex address, decimal address, value
    [, value as printed by `%v`]) -/
theorem C20R_row_content (env : Env) (a : U16) (n : Int) (i : Nat) (x : GoEval.Val) (v16 : U16)
    (v32 : U32) (v64 : U64) :
    let A := fun k => GoEval.Val.int (modelAddr a k i).toNat
    rowCalls 0 env a.toNat 1 n x i = [pf env (rowStmt 0) [A 1, A 1, x]] ∧
    rowCalls 1 env a.toNat 2 n (.int v16.toNat) i =
      [pf env (iT (rowStmt 1)) [A 1, A 1, .int v16.toNat, .int v16.toNat]] ∧
    rowCalls 1 env a.toNat 3 n (.int v16.toNat) i =
      [pf env (iE (rowStmt 1)) [A 1, A 1, .int v16.toNat, .int v16.toInt]] ∧
    rowCalls 2 env a.toNat 4 n (.int v32.toNat) i =
      [pf env (iT (rowStmt 2)) [A 2, A 2, .int v32.toNat, .int v32.toNat]] ∧
    rowCalls 2 env a.toNat 5 n (.int v32.toNat) i =
      [pf env (iE (rowStmt 2)) [A 2, A 2, .int v32.toNat, .int v32.toInt]] ∧
    rowCalls 3 env a.toNat 6 n x i = [pf env (rowStmt 3) [A 2, A 2, x]] ∧
    rowCalls 4 env a.toNat 7 n (.int v64.toNat) i =
      [pf env (iT (rowStmt 4)) [A 4, A 4, .int v64.toNat, .int v64.toNat]] ∧
    rowCalls 4 env a.toNat 8 n (.int v64.toNat) i =
      [pf env (iE (rowStmt 4)) [A 4, A 4, .int v64.toNat, .int v64.toInt]] ∧
    rowCalls 5 env a.toNat 9 n x i = [pf env (rowStmt 5) [A 4, A 4, x]] := by
  intro A
  simp only [rowCalls, col1_model, colS_model2, colS_model4, sg16, sg32, sg64, A, Int.reduceEq, ↓reduceIte,
    and_self]

/-- ROWS. A successful read (`err == nil`) appends, after the marker and the ONE client call, the
    rows of items 0, 1, …, len(res) − 1 in order — one `Printf` per element (`bytes`: see `rowCalls`),
    nothing else -/
theorem C20R_rows (k : Nat) (flag : Bool) (g : GoOp) (env : Env) (n : Int) (x : GoEval.Val) :
    readNew k flag g env "nil" n x =
      [(readMarker k, []), (readCallee k flag, readArgs k flag g.addr.toNat g.quantity.toNat)] ++
        (List.range n.toNat).flatMap (fun i => rowCalls k env g.addr.toNat g.op n x (i : Nat)) := by
  unfold readNew
  rw [if_pos rfl, rows_eq]
  simp only [Int.zero_add]

/-- the format literals of the rows: hex width 4 / 8 / 16 for 16 / 32 / 64-bit values, `%f` for
    floats, 16 bytes per line as `%02x` with a gap after 8 and the text between `<` `>` -/
theorem C20R_formats :
    fmtOf (rowStmt 0) = "\"0x%04x\\t%-5v : %v\\n\"" ∧
    fmtOf (iT (rowStmt 1)) = "\"0x%04x\\t%-5v : 0x%04x\\t%v\\n\"" ∧ fmtOf (iE (rowStmt 1)) = fmtOf (iT (rowStmt 1)) ∧
    fmtOf (iT (rowStmt 2)) = "\"0x%04x\\t%-5v : 0x%08x\\t%v\\n\"" ∧ fmtOf (iE (rowStmt 2)) = fmtOf (iT (rowStmt 2)) ∧
    fmtOf (rowStmt 3) = "\"0x%04x\\t%-5v : %f\\n\"" ∧
    fmtOf (iT (rowStmt 4)) = "\"0x%04x\\t%-5v : 0x%016x\\t%v\\n\"" ∧ fmtOf (iE (rowStmt 4)) = fmtOf (iT (rowStmt 4)) ∧
    fmtOf (rowStmt 5) = "\"0x%04x\\t%-5v : %f\\n\"" ∧
    fmtOf bytesHead = "\"0x%04x\\t%-5v : \"" ∧ fmtOf bytesByte = "\"%02x\"" ∧
    fmtOf bytesTail = "\" <%s>\\n\"" ∧ fmtOf bytesGap = "\" \"" ∧
    decodeLeaf = "decodeString(res[(idx / 16 * 16) : (idx/16*16)+(idx%16)+1])" ∧
    ((List.range 17).drop 7).map (fun k => fmtOf (wOk (arm k))) =
      ["\"wrote %v at coil address 0x%04x\\n\"", "\"wrote %v at register address 0x%04x\\n\"",
       "\"wrote %v at register address 0x%04x\\n\"", "\"wrote %v at address 0x%04x\\n\"",
       "\"wrote %v at address 0x%04x\\n\"", "\"wrote %f at address 0x%04x\\n\"",
       "\"wrote %v at address 0x%04x\\n\"", "\"wrote %v at address 0x%04x\\n\"",
       "\"wrote %f at address 0x%04x\\n\"", "\"wrote %v bytes at address 0x%04x\\n\""] := by
  refine ⟨?_, ?_, ?_, ?_, ?_, ?_, ?_, ?_, ?_, ?_, ?_, ?_, ?_, ?_, ?_⟩ <;> first | rfl | decide +kernel

/-- the model's printed lines, with the address column named: the same `modelAddr a k i`, the
    unsigned value in hex, `x.toNat` / `x.toInt` in decimal -/
theorem C20R_model_lines (h c : Bool) (a q : U16) :
    (∀ l, printedLines (.readBools c a q) (.bools l) =
      (enum l).map (fun p => addrCol (modelAddr a 1 p.1) ++ (if p.2 then "true" else "false"))) ∧
    (∀ l, printedLines (.readRegs .uint16 h a q) (.u16s l) = (enum l).map (fun p =>
      addrCol (modelAddr a 1 p.1) ++ "0x" ++ hexPad 4 p.2.toNat ++ "\t" ++ decStr p.2.toNat)) ∧
    (∀ l, printedLines (.readRegs .int16 h a q) (.u16s l) = (enum l).map (fun p =>
      addrCol (modelAddr a 1 p.1) ++ "0x" ++ hexPad 4 p.2.toNat ++ "\t" ++ intStr p.2.toInt)) ∧
    (∀ l, printedLines (.readRegs .uint32 h a q) (.u32s l) = (enum l).map (fun p =>
      addrCol (modelAddr a 2 p.1) ++ "0x" ++ hexPad 8 p.2.toNat ++ "\t" ++ decStr p.2.toNat)) ∧
    (∀ l, printedLines (.readRegs .int32 h a q) (.u32s l) = (enum l).map (fun p =>
      addrCol (modelAddr a 2 p.1) ++ "0x" ++ hexPad 8 p.2.toNat ++ "\t" ++ intStr p.2.toInt)) ∧
    (∀ l, printedLines (.readRegs .float32 h a q) (.u32s l) = (enum l).map (fun p =>
      addrCol (modelAddr a 2 p.1) ++ "f32:0x" ++ hexPad 8 p.2.toNat)) ∧
    (∀ l, printedLines (.readRegs .uint64 h a q) (.u64s l) = (enum l).map (fun p =>
      addrCol (modelAddr a 4 p.1) ++ "0x" ++ hexPad 16 p.2.toNat ++ "\t" ++ decStr p.2.toNat)) ∧
    (∀ l, printedLines (.readRegs .int64 h a q) (.u64s l) = (enum l).map (fun p =>
      addrCol (modelAddr a 4 p.1) ++ "0x" ++ hexPad 16 p.2.toNat ++ "\t" ++ intStr p.2.toInt)) ∧
    (∀ l, printedLines (.readRegs .float64 h a q) (.u64s l) = (enum l).map (fun p =>
      addrCol (modelAddr a 4 p.1) ++ "f64:0x" ++ hexPad 16 p.2.toNat)) ∧
    (∀ bs, printedLines (.readRegs .bytes h a q) (.bytes bs) =
      (enum (chunks16 (bs.length + 1) bs)).map (fun p =>
        addrCol (modelAddr a 8 p.1) ++ hexBytes (p.2.take 8) ++
          (if p.2.length > 8 then " " ++ hexBytes (p.2.drop 8) else "") ++
          " <" ++ decodeString p.2 ++ ">")) :=
  ⟨fun _ => rfl, fun _ => rfl, fun _ => rfl, fun _ => rfl, fun _ => rfl, fun _ => rfl, fun _ => rfl,
   fun _ => rfl, fun _ => rfl, fun _ => rfl⟩

/-! ### sensitivity -/

/-- a previously seeded defect — `* 2` instead of `* 4` in the int64 branch — is told apart on the
    corresponding sub-term: at `addr = 0`, `idx = 1` the expression of the current source (argument
    1 of the `Printf` of the int64 branch, by accessor) evaluates to 4 = the model's column, the
    defective variant to 2 -/
theorem C20R_sensitive_stride :
    eval [("o.addr", .int 0), ("idx", .int 1)] (argN 1 (iE (rowStmt 4))) = .int 4 ∧
    (modelAddr 0 4 1).toNat = 4 ∧
    eval [("o.addr", .int 0), ("idx", .int 1)]
      (.bin "+" .u16 (.var "o.addr" .u16) (.bin "*" .u16 (.conv .u16 (.var "idx" .int)) (.lit 2 .u16)))
      = .int 2 := by
  refine ⟨by decide +kernel, by decide, by decide +kernel⟩

/-- the count expression (argument 1 of the call, by accessor) at `quantity = 65535`: 0 in the
    current source (16-bit `+`); a variant computing in `int` gives 65536, one without `+ 1` 65535 -/
theorem C20R_sensitive_count :
    eval [("o.quantity", .int 65535)] (argN 1 (armCallT (arm 0))) = .int 0 ∧
    eval [("o.quantity", .int 65535)] (argN 1 (armCallE (arm 6))) = .int 0 ∧
    eval [("o.quantity", .int 65535)] (.bin "+" .int (.var "o.quantity" .u16) (.lit 1 .int)) = .int 65536 ∧
    eval [("o.quantity", .int 65535)] (.var "o.quantity" .u16) = .int 65535 := by
  refine ⟨by decide +kernel, by decide +kernel, by decide +kernel, by decide +kernel⟩

/-- the unit id: `client.SetUnitId` is called with the id the model's `nextUnit` puts in force for
    the FOLLOWING requests; no other operation calls it (`C20R_calls`: `unitCall op = []`) or changes
    the unit id -/
theorem C20R_unit (u x : Byte) (op : Operation) :
    unitCall (.setUnitId x) = [("client.SetUnitId", [.int (nextUnit u (.setUnitId x)).toNat])] ∧
    ((∀ y, op ≠ .setUnitId y) → unitCall op = [] ∧ nextUnit u op = u) := by
  refine ⟨rfl, fun h => ?_⟩
  cases op <;> first | exact ⟨rfl, rfl⟩ | exact absurd rfl (h _)

/-! ### a closed run of the whole loop (non-vacuity) -/

/-- `rh:int64:0x10+1` as the only entry of the run list, the device answers two values: the whole
    generated run loop (head, round, switch, print loop, exit of the loop) is executed by the kernel.
    ONE client call `ReadUint64s(16, 2, HOLDING_REGISTER)`, two rows at 16 and 20 (stride 4) showing
    the element and its `int64` conversion (2^64 − 1 ↦ −1), `opIdx` ends at 1, the loop is left.
    (String literals are unbound here: `unk`.) -/
theorem C20R_example :
    let g : GoOp := ⟨8, 0x10, false, true, 1, false, 0, 0, 0, 0, 0, [], 0, 1⟩  -- op, addr, …, quantity
    let r := exec (cliOracle (.sym "values") "nil") 100 cliRunPart
      (goEnv g 2 (.int 18446744073709551615) [("len(runList)", .int 1)])
    r.how = .fell ∧ Env.read r.env "opIdx" = .int 1 ∧
    r.calls = [("var []uint64", []), ("client.ReadUint64s", [.int 16, .int 2, .int 0]),
      ("fmt.Printf", [.unk, .int 16, .int 16, .int 18446744073709551615, .int (-1)]),
      ("fmt.Printf", [.unk, .int 20, .int 20, .int 18446744073709551615, .int (-1)])] := by
  decide +kernel

/-! ## 4. only the current record matters -/

/-- base variable of a leaf (`o.addr` ↦ `o`, `res[idx]` ↦ `res`, `len(res)` ↦ `res`, `x` ↦ `x`) -/
def baseOf (k : String) : String := (leafBase k).getD k
/-- a string literal leaf -/
def isLit (k : String) : Bool := k.toList.head? == some '"'
def known (asg : List String) (k : String) : Bool := isLit k || asg.contains k || asg.contains (baseOf k)
/-- leaves of `e` that are neither literals nor (based on) a variable in `asg` -/
def unassigned (asg : List String) (e : GExpr) : List String := (leaves e).filter (fun k => !known asg k)

/-- `freshFrom asg s = (reads, asg')`: the leaves `s` may read BEFORE their base variable was
    assigned (given that the variables `asg` are assigned on entry), and the variables assigned on
    EVERY path through `s` (`ite`: on both branches; a loop adds nothing, its body is entered with
    what was assigned before the loop). Program order, path-insensitive reads. -/
def freshFrom (asg : List String) : GStmt → List String × List String
  | .assign x e => (unassigned asg e, x :: asg)
  | .bindCall ts _ as => ((as.map (unassigned asg)).flatten, ts ++ asg)
  | .seq a b =>
    let r1 := freshFrom asg a
    let r2 := freshFrom r1.2 b
    (r1.1 ++ r2.1, r2.2)
  | .ite c t e =>
    let r1 := freshFrom asg t
    let r2 := freshFrom asg e
    (unassigned asg c ++ r1.1 ++ r2.1, r1.2.filter (fun k => r2.2.contains k))
  | .loop b => ((freshFrom asg b).1, asg)
  | _ => ([], asg)

/-- FRESH RECORD. (static) Starting a round with NOTHING assigned, the only leaves read before
    their base variable is assigned in that round are: the record itself (`&runList[opIdx]`, from
    which `o` — and with it every `o.field` leaf — is taken at the head of the round), the loop
    counter `opIdx`, the constants `nil` / `client`, and two call leaves (`decodeString(res[…])`,
    `time.Now()…`; the first is over `res` / `idx`, both assigned earlier in its arm). In particular
    `err`, `res` (`len(res)`, `res[idx]`), `idx`, `#len(res)` are never read before the current round
    assigned them: `res` is re-declared (`var res []T` marker) and both `res`, `err` are results of
    the client call on BOTH branches of the `isCoil` / `isHoldingReg` test. The compound leaves read
    after their base was assigned (`staleReads`, the text-keyed caveat of Model/GoEval.lean) are
    exactly the `o.field` leaves and `len(res)` / `res[idx]` / `len(o.bytes)`: the theorems above
    bind them to the fields of the CURRENT record and to the CURRENT call's result.
    (by evaluation) Two environments that agree on everything except the variables a round assigns
    (`res`, `err`, `#len(res)`, `idx`, `o`, and the same `opIdx`) — e.g. the states after two
    different earlier rounds — run the round of the same record identically: same calls, same next
    `opIdx`, and they again agree on everything else. -/
theorem C20R_fresh_record :
    (freshFrom [] cliRound).1.eraseDups =
      ["&runList[opIdx]", "nil", "decodeString(res[(idx / 16 * 16) : (idx/16*16)+(idx%16)+1])",
       "time.Now().Format(time.RFC3339)", "client", "opIdx"] ∧
    (staleReads cliRound).eraseDups =
      ["o.op", "o.isCoil", "o.addr", "o.quantity", "len(res)", "res[idx]", "o.isHoldingReg", "o.coil",
       "o.u16", "o.u32", "o.f32", "o.u64", "o.f64", "o.bytes", "len(o.bytes)", "o.duration", "o.unitId"] ∧
    (assignedTo "o" cliRound).map leafText? = [some "&runList[opIdx]"] ∧
    ∀ (g : GoOp), (1 ≤ g.op ∧ g.op ≤ 29 ∧ g.op ≠ 12) → ∀ (rv : GoEval.Val) (e : String) (env1 env2 : Env)
      (cs : Calls) (n : Int) (x : GoEval.Val), Bound env1 g →
      Env.read? env1 "len(res)" = some (.int n) → Env.read? env1 "res[idx]" = some x →
      0 ≤ n → n < 9223372036854775808 →
      (∀ t, t ∉ roundVars → Env.read? env1 t = Env.read? env2 t) →
      ∀ (j : Int), Env.read? env1 "opIdx" = some (.int j) → Env.read? env2 "opIdx" = some (.int j) →
      -9223372036854775808 ≤ j → j + 1 < 9223372036854775808 → ∀ (F : Nat), n.toNat + 45 ≤ F →
      ∃ env1' env2' new,
        execFrom (cliOracle rv e) F cliRound env1 cs = ⟨env1', .fell, cs ++ new⟩ ∧
        execFrom (cliOracle rv e) F cliRound env2 cs = ⟨env2', .fell, cs ++ new⟩ ∧
        Env.read? env1' "opIdx" = Env.read? env2' "opIdx" ∧
        (∀ t, t ∉ roundVars → Env.read? env1' t = Env.read? env2' t) := by
  refine ⟨by decide +kernel, by decide +kernel, by decide +kernel, ?_⟩
  intro g hv rv e env1 env2 cs n x hb hlen hx h0 hn H j hj1 hj2 hj0 hjm F hF
  obtain ⟨env1', r1, o1, f1⟩ := C20R_round g hv rv e env1 cs n x hb hlen hx h0 hn j hj1 hj0 hjm F hF
  obtain ⟨env2', r2, o2, f2⟩ := C20R_round g hv rv e env2 cs n x (hb.congr H)
    (by rw [← H _ (by decide)]; exact hlen) (by rw [← H _ (by decide)]; exact hx) h0 hn j hj2 hj0 hjm F hF
  refine ⟨env1', env2', armNew g env1 e n x, r1, ?_, by rw [o1, o2], fun t ht => ?_⟩
  · rw [armNew_congr H]; exact r2
  · rw [f1 t ht, f2 t ht, H t ht]

end Modbus.Props.C20

section Axioms
open Modbus.Props.C20
#print axioms C20R_located
#print axioms C20R_dispatch
#print axioms C20R_arm
#print axioms C20R_calls
#print axioms C20R_count_wrap
#print axioms C20R_errors
#print axioms C20R_exit_sites
#print axioms C20R_default
#print axioms C20R_loop_end
#print axioms C20R_unmodelled
#print axioms C20R_round
#print axioms C20R_printed_addresses
#print axioms C20R_signed
#print axioms C20R_row_content
#print axioms C20R_rows
#print axioms C20R_formats
#print axioms C20R_model_lines
#print axioms C20R_sensitive_stride
#print axioms C20R_sensitive_count
#print axioms C20R_unit
#print axioms C20R_fresh_record
#print axioms bound_goEnv
#print axioms C20R_loop_step
#print axioms C20R_call_sites
#print axioms C20R_example
end Axioms
