import ModbusVerif.Lemmas.LifecycleTermLemmas
import ModbusVerif.Props.C10
/-
  C10 (termination part, universally quantified) — "After Stop returns the server no longer
  services requests on any connection … every goroutine the server started eventually ends; this
  holds whether Stop arrives while idle, while accepting, or mid-request."

  `C10_all_goroutines_end` (Props/C10.lean) is existential: SOME shutdown schedule reaches
  `goroutines = 0`.  This file closes the gap: EVERY schedule does.

  Model: `Modbus.Lifecycle`.  A *shutdown-path step* (`Step.teardown`) is a step of a server
  goroutine towards its end: `acceptorExit`, `decide`, `launch`, `finish`, `remove`, `close`.
  All other steps are the environment's: `start`, `stop`, `arrive` (a peer connects), `accept`
  (Accept returns a connection: needs an open listener), `request` (a peer sends a request).
  `TeardownSched s steps` (Lemmas/LifecycleTermLemmas.lean):

      TeardownSched s []          = True
      TeardownSched s (st :: r)   = enabled s st ∧ st.teardown ∧ TeardownSched (step s st) r

  1. `C10T_every_schedule_bounded`   every schedule of enabled shutdown-path steps from a stopped
       reachable state has length ≤ `s.goroutines`; `C10T_no_infinite_teardown`: there is no
       infinite one.
  2. `C10T_every_maximal_schedule_ends`  if at its end no shutdown-path step is enabled, then
       `goroutines = 0` there (and `started = false`).
  3. `C10T_environment_cannot_revive`, `C10T_any_interleaving`, `C10T_fair_execution_ends`:
       the same when the environment interleaves anything but `Start`; every weakly fair infinite
       execution reaches `goroutines = 0` after at most `s.goroutines` effective shutdown-path
       steps, and stays there.
  4. non-vacuity for the three situations the property names.

  What is NOT claimed: that the Go scheduler is fair (it is: goroutines that are runnable are
  eventually run; a goroutine blocked on a closed socket / closed listener is made runnable by
  the netpoller — but that is the Go runtime's contract, not a theorem here).  `Start` is
  excluded from the continuation because the property speaks of the time until a later Start
  (see `C10_restart_may_reject` and the example at the end of Props/C10.lean: an undecided
  connection is admitted if Start comes before its admission step).
-/
namespace Modbus.Props.C10
open Modbus.Lifecycle

/-! ### 1. every schedule of enabled shutdown-path steps is bounded by the measure -/

/-- from any reachable stopped state, EVERY schedule of enabled shutdown-path steps is at most
    `s.goroutines` long; more precisely its length plus the measure at its end is at most the
    measure at its beginning -/
theorem C10T_every_schedule_bounded {s : State} (_hs : Reachable s) (_hst : s.started = false)
    (steps : List Step) (h : TeardownSched s steps) :
    steps.length ≤ s.goroutines ∧
      steps.length + (run s steps).goroutines ≤ s.goroutines := by
  have := teardownSched_length_add s steps h
  exact ⟨by omega, this⟩

/-- the same bound holds from ANY state (reachable or not, started or not): it only uses the
    strict decrease -/
theorem C10T_schedule_bounded_any_state (s : State) (steps : List Step)
    (h : TeardownSched s steps) : steps.length + (run s steps).goroutines ≤ s.goroutines :=
  teardownSched_length_add s steps h

/-- hence no infinite schedule of enabled shutdown-path steps exists -/
theorem C10T_no_infinite_teardown {s : State} (hs : Reachable s) (hst : s.started = false) :
    ¬ ∃ f : Nat → Step, ∀ n, (f n).teardown = true ∧ enabled (exec s f n) (f n) = true := by
  intro ⟨f, hf⟩
  have hns : ∀ n, f n ≠ .start := fun n => teardown_ne_start (hf n).1
  have hcount : ∀ n, execEffective s f n = n := by
    intro n
    induction n with
    | zero => rfl
    | succ n ih => simp [execEffective, ih, (hf n).1, (hf n).2]
  have := (exec_invariants hs.inv hst f hns (s.goroutines + 1)).2.2
  rw [hcount] at this
  omega

/-! ### 2. every maximal schedule ends all goroutines -/

/-- from any reachable stopped state, for EVERY schedule of enabled shutdown-path steps after
    which no shutdown-path step is enabled any more: no goroutine is left, and the server is
    still stopped -/
theorem C10T_every_maximal_schedule_ends {s : State} (hs : Reachable s) (hst : s.started = false)
    (steps : List Step) (h : TeardownSched s steps)
    (hmax : ∀ st : Step, st.teardown = true → enabled (run s steps) st = false) :
    (run s steps).goroutines = 0 ∧ (run s steps).started = false := by
  have hst' := teardownSched_started hst steps h
  exact ⟨(maximal_iff (hs.run steps).inv hst').mp hmax, hst'⟩

/-- "maximal" is the same as "measure 0", in every reachable stopped state -/
theorem C10T_maximal_iff {s : State} (hs : Reachable s) (hst : s.started = false) :
    (∀ st : Step, st.teardown = true → enabled s st = false) ↔ s.goroutines = 0 :=
  maximal_iff hs.inv hst

/-- a non-maximal schedule can always be extended, and every extension is again bounded:
    together with 1. every schedule is a prefix of a maximal one of length ≤ `s.goroutines` -/
theorem C10T_extend {s : State} (hs : Reachable s) (hst : s.started = false)
    (steps : List Step) (h : TeardownSched s steps) (hpos : 0 < (run s steps).goroutines) :
    ∃ st, TeardownSched s (steps ++ [st]) ∧
      (run s (steps ++ [st])).goroutines < (run s steps).goroutines := by
  have hst' := teardownSched_started hst steps h
  obtain ⟨st, ht, he⟩ := teardown_progress (hs.run steps).inv hst' hpos
  refine ⟨st, (teardownSched_append s steps [st]).mpr ⟨h, he, ht, trivial⟩, ?_⟩
  rw [run_append]
  exact teardown_decreases _ st he ht

/-- the two together, in the form of the property: after `Stop` (from any reachable state,
    whatever the goroutines were doing), every maximal shutdown schedule has at most
    `goroutines` steps and ends with no goroutine left -/
theorem C10T_after_stop {s : State} (hs : Reachable s) (steps : List Step)
    (h : TeardownSched (step s .stop) steps)
    (hmax : ∀ st : Step, st.teardown = true → enabled (run (step s .stop) steps) st = false) :
    steps.length ≤ (step s .stop).goroutines ∧
      (run (step s .stop) steps).goroutines = 0 ∧ (run (step s .stop) steps).started = false := by
  have hst := (C10_stop_post hs).1
  exact ⟨(C10T_every_schedule_bounded (hs.step .stop) hst steps h).1,
    C10T_every_maximal_schedule_ends (hs.step .stop) hst steps h hmax⟩

/-! ### 3. robustness to the environment -/

/-- in a reachable stopped state, whatever step other than `Start` is attempted:
    * the measure does not increase and the server stays stopped;
    * if it is not a shutdown-path step (i.e. it is `Stop` again, a peer connecting, an Accept
      returning a connection, or a peer sending a request) the state does not change AT ALL —
      in particular every shutdown-path step that was enabled stays enabled, no connection
      arrives or is accepted, and the request reaches no handler (`C10_stopped_state`,
      `C10_no_service_after_stop`) -/
theorem C10T_environment_cannot_revive {s : State} (hs : Reachable s) (hst : s.started = false)
    (st : Step) (hne : st ≠ .start) :
    (step s st).goroutines ≤ s.goroutines ∧ (step s st).started = false ∧
      (st.teardown = false → step s st = s) ∧
      (∀ c, s.wouldServe c = false ∧ enabled s (.arrive c) = false ∧
        ∀ a, enabled s (.accept a c) = false) ∧
      servedOf (step s st).log = servedOf s.log := by
  obtain ⟨h1, h2⟩ := goroutines_step_stopped hs.inv hst st hne
  refine ⟨h1, h2, env_step_stopped hs.inv hst st hne, fun c => ?_,
    servedOf_step_stopped hs.inv hst st hne⟩
  have := C10_stopped_state hs hst c
  exact ⟨this.1, this.2.2.1, this.2.2.2.1⟩

/-- an enabled shutdown-path step stays enabled across any environment step other than `Start`
    (no goroutine's way out can be taken away by a peer) -/
theorem C10T_teardown_stays_enabled {s : State} (hs : Reachable s) (hst : s.started = false)
    (env : Step) (hne : env ≠ .start) (henv : env.teardown = false)
    (st : Step) (he : enabled s st = true) : enabled (step s env) st = true := by
  rw [env_step_stopped hs.inv hst env hne henv]; exact he

/-- ANY interleaving of environment steps and shutdown-path steps (enabled or not) that contains
    no `Start`, from a reachable stopped state: the number of effective shutdown-path steps
    (`effective`: those that are enabled when taken) is at most `s.goroutines`; the measure never
    exceeds its initial value; the server stays stopped; no request is served; and if at the end
    no shutdown-path step is enabled, no goroutine is left -/
theorem C10T_any_interleaving {s : State} (hs : Reachable s) (hst : s.started = false)
    (steps : List Step) (hns : Step.start ∉ steps) :
    effective s steps ≤ s.goroutines ∧
      effective s steps + (run s steps).goroutines ≤ s.goroutines ∧
      (run s steps).started = false ∧
      servedOf (run s steps).log = servedOf s.log ∧
      ((∀ st : Step, st.teardown = true → enabled (run s steps) st = false) →
        (run s steps).goroutines = 0) := by
  obtain ⟨h1, h2⟩ := interleaving_bound hs.inv hst steps hns
  refine ⟨by omega, h1, h2, (servedOf_run_stopped hs.inv hst steps hns).1, fun hmax => ?_⟩
  exact (maximal_iff (hs.run steps).inv h2).mp hmax

/-- for a schedule of enabled shutdown-path steps `effective` is just the length -/
theorem C10T_effective_eq_length {s : State} {steps : List Step} (h : TeardownSched s steps) :
    effective s steps = steps.length := effective_eq_length h

/-- infinite executions.  `exec s f n` is the state after the first `n` steps of `f`; `Fair s f`:
    whenever a shutdown-path step is enabled, then or later an enabled shutdown-path step is
    taken.  Every fair execution without `Start` from a reachable stopped state reaches
    `goroutines = 0`, having taken at most `s.goroutines` effective shutdown-path steps, and
    from then on stays at 0, stopped, with nothing of the shutdown path enabled -/
theorem C10T_fair_execution_ends {s : State} (hs : Reachable s) (hst : s.started = false)
    (f : Nat → Step) (hns : ∀ n, f n ≠ .start) (hfair : Fair s f) :
    ∃ n, ∀ m, n ≤ m →
      (exec s f m).goroutines = 0 ∧ (exec s f m).started = false ∧
      execEffective s f m ≤ s.goroutines ∧
      (∀ st : Step, st.teardown = true → enabled (exec s f m) st = false) := by
  obtain ⟨n, hn⟩ := fair_reaches_zero hs.inv hst f hns hfair
  refine ⟨n, fun m hm => ?_⟩
  have hmono := exec_goroutines_mono hs.inv hst f hns hm
  obtain ⟨_, i2, i3⟩ := exec_invariants hs.inv hst f hns m
  have h0 : (exec s f m).goroutines = 0 := by omega
  exact ⟨h0, i2, by omega, maximal_of_zero h0⟩

/-- fairness is needed: an execution in which the environment talks forever and no goroutine is
    ever scheduled keeps its goroutines (this is the only way) -/
theorem C10T_unfair_execution_stalls :
    let s := run (init 1) stopDuringAccept
    ∀ n, (exec s (fun _ => .request 1) n).goroutines = 9 := by
  intro s n
  have hs : Reachable s := (reachable_init 1).run _
  have hst : s.started = false := by decide
  have : ∀ n, exec s (fun _ => .request 1) n = s := by
    intro n
    induction n with
    | zero => rfl
    | succ n ih =>
      simp only [exec, ih]
      exact env_step_stopped hs.inv hst _ (by simp) rfl
  rw [this n]; decide

/-! ### 4. non-vacuity: Stop while idle, while an accept is in flight, mid-request -/

/-- (a) Stop while idle: one connected client without a request in flight, the accept goroutine
    blocked in `Accept` -/
def stopIdle : List Step :=
  [.start, .arrive 1, .accept 0 1, .decide 1, .launch 1, .stop]

/-- (c) Stop mid-request.  The life-cycle machine does not split a request cycle: a session that
    is reading a frame, inside its handler or writing its response when `Stop` closes its socket
    is in phase `serving` with `sockClosed = true`; the handler call that had started is in the
    log, every later transport operation fails, and `finish c socketClosedByServer` is the
    session's next step.  Here: request 1 reached the handler, Stop, and two more requests from
    the peer (on the closed socket) that reach nothing. -/
def stopMidRequest : List Step :=
  [.start, .arrive 1, .accept 0 1, .decide 1, .launch 1, .request 1, .stop, .request 1, .request 1]

/-- (b) is `stopDuringAccept` of Props/C10.lean: connection 1 served, connection 2 returned by
    `Accept` but not yet through its admission section, connection 3 still in the accept queue -/
example : (run (init 1) stopDuringAccept).goroutines = 9 := by decide

theorem C10T_idle_reachable_stopped :
    Reachable (run (init 2) stopIdle) ∧ (run (init 2) stopIdle).started = false ∧
      (run (init 2) stopIdle).goroutines = 4 :=
  ⟨(reachable_init 2).run _, by decide, by decide⟩

/-- (a): a maximal shutdown schedule (session first, acceptor last) … -/
theorem C10T_idle_schedule :
    let s := run (init 2) stopIdle
    let sched : List Step := [.finish 1 .socketClosedByServer, .remove 1, .close 1, .acceptorExit 0]
    TeardownSched s sched ∧ (run s sched).goroutines = 0 ∧
      (∀ st : Step, st.teardown = true → enabled (run s sched) st = false) ∧
      sched.length ≤ s.goroutines := by
  intro s sched
  have h0 : (run s sched).goroutines = 0 := by decide +kernel
  exact ⟨by decide +kernel, h0, maximal_of_zero h0, by decide +kernel⟩

/-- … and another order (acceptor first, the peer closing rather than the server's Close being
    noticed): also maximal, also 0 -/
theorem C10T_idle_schedule' :
    let s := run (init 2) stopIdle
    let sched : List Step := [.acceptorExit 0, .finish 1 .peerClosed, .remove 1, .close 1]
    TeardownSched s sched ∧ (run s sched).goroutines = 0 ∧
      (∀ st : Step, st.teardown = true → enabled (run s sched) st = false) := by
  intro s sched
  have h0 : (run s sched).goroutines = 0 := by decide +kernel
  exact ⟨by decide +kernel, h0, maximal_of_zero h0⟩

/-- a proper prefix is not maximal: something of the shutdown path is still enabled -/
example :
    let s := run (init 2) stopIdle
    TeardownSched s [.finish 1 .socketClosedByServer, .remove 1] ∧
      enabled (run s [.finish 1 .socketClosedByServer, .remove 1]) (.close 1) = true ∧
      (run s [.finish 1 .socketClosedByServer, .remove 1]).goroutines = 2 := by decide +kernel

/-- (b) Stop while an accept is in flight: the in-flight connection 2 goes through its admission
    section (rejected: `started = false`), the accept loop closes it and loops back to `Accept`,
    which returns `net.ErrClosed` -/
theorem C10T_accepting_schedule :
    let s := run (init 1) stopDuringAccept
    let sched : List Step := [.decide 2, .finish 1 .socketClosedByServer, .launch 2, .remove 1,
      .acceptorExit 0, .close 1]
    s.started = false ∧ s.goroutines = 9 ∧
      TeardownSched s sched ∧ (run s sched).goroutines = 0 ∧
      (∀ st : Step, st.teardown = true → enabled (run s sched) st = false) ∧
      ((run s sched).conn 2).phase = .rejected ∧ servedOf (run s sched).log = [1] := by
  intro s sched
  have h0 : (run s sched).goroutines = 0 := by decide +kernel
  exact ⟨by decide, by decide, by decide +kernel, h0, maximal_of_zero h0, by decide +kernel,
    by decide +kernel⟩

/-- (b) with the environment interleaved (requests on both connections, a peer trying to
    connect, a second Stop): same end, nothing served after the Stop -/
theorem C10T_accepting_interleaved :
    let s := run (init 1) stopDuringAccept
    let sched : List Step := [.request 2, .decide 2, .arrive 4, .request 1,
      .finish 1 .socketClosedByServer, .stop, .launch 2, .request 2, .remove 1, .acceptorExit 0,
      .request 1, .close 1, .arrive 5]
    Step.start ∉ sched ∧ effective s sched = 6 ∧ (run s sched).goroutines = 0 ∧
      servedOf (run s sched).log = servedOf s.log ∧
      ((run s sched).conn 4).phase = .fresh := by
  intro s sched
  exact ⟨by decide, by decide +kernel, by decide +kernel, by decide +kernel, by decide +kernel⟩

/-- (c) Stop mid-request -/
theorem C10T_midrequest_schedule :
    let s := run (init 2) stopMidRequest
    let sched : List Step := [.finish 1 .socketClosedByServer, .acceptorExit 0, .remove 1, .close 1]
    s.started = false ∧ ((s.conn 1).phase = .serving ∧ (s.conn 1).sockClosed = true) ∧
      servedOf s.log = [1] ∧ s.goroutines = 4 ∧
      TeardownSched s sched ∧ (run s sched).goroutines = 0 ∧
      (∀ st : Step, st.teardown = true → enabled (run s sched) st = false) ∧
      servedOf (run s sched).log = [1] := by
  intro s sched
  have h0 : (run s sched).goroutines = 0 := by decide +kernel
  exact ⟨by decide +kernel, by decide +kernel, by decide +kernel, by decide +kernel,
    by decide +kernel, h0, maximal_of_zero h0, by decide +kernel⟩

/-- the general theorems instantiated on (b): whatever schedule of enabled shutdown-path steps
    one picks from this state, it has at most 9 steps -/
example (steps : List Step) (h : TeardownSched (run (init 1) stopDuringAccept) steps) :
    steps.length ≤ 9 := by
  have := (C10T_every_schedule_bounded ((reachable_init 1).run stopDuringAccept) (by decide) steps h).1
  have e : (run (init 1) stopDuringAccept).goroutines = 9 := by decide
  omega

#print axioms C10T_every_schedule_bounded
#print axioms C10T_schedule_bounded_any_state
#print axioms C10T_no_infinite_teardown
#print axioms C10T_every_maximal_schedule_ends
#print axioms C10T_maximal_iff
#print axioms C10T_extend
#print axioms C10T_after_stop
#print axioms C10T_environment_cannot_revive
#print axioms C10T_teardown_stays_enabled
#print axioms C10T_any_interleaving
#print axioms C10T_effective_eq_length
#print axioms C10T_fair_execution_ends
#print axioms C10T_unfair_execution_stalls
#print axioms C10T_idle_reachable_stopped
#print axioms C10T_idle_schedule
#print axioms C10T_idle_schedule'
#print axioms C10T_accepting_schedule
#print axioms C10T_accepting_interleaved
#print axioms C10T_midrequest_schedule

end Modbus.Props.C10
