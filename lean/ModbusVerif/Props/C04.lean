import ModbusVerif.Model.System
import ModbusVerif.Spec.RegFile
import ModbusVerif.Lemmas.SystemLemmas
/-
  Property C04.

  "Across a real client and a real server, any sequence of typed writes and reads (coils, discrete
   inputs, 16/32/64-bit integers, 32/64-bit floats, bytes, raw bytes; any byte order, word order,
   unit id and address) behaves like a sequential register file: every handler invocation
   receives, and every read returns, exactly what a model holding 65536 registers and 65536 coils
   predicts. The register image follows the documented layout - big-endian registers on the wire,
   most significant word at the lowest address unless low-word-first is selected, per-register
   byte swap for little-endian - and a Modbus error returned by a handler surfaces at the caller
   as that same error (any other handler error as server-device-failure)."

  Model under test: `Modbus.System` (Model/System.lean) = the client model (`Client.Op.run`,
  Model/Client.lean) and the server model (`Server.run`, Model/Server.lean) connected back to
  back over an MBAP stream, with the memory handler `System.memHandler` (or the always-failing
  `System.errHandler e`). `none` as a result stands for a Go run-time panic.

  Specification: `Spec.regfileStep` / `Spec.regfileRun` / `Spec.handlerSees` (Spec/RegFile.lean),
  the abstract register file written from the documented layout (Spec/Layout.lean); it shares
  only types with the models.

  Quantifiers: all 30 constructors of `Client.Op` (every public read/write method) with arbitrary
  arguments (every address and quantity, argument lists of every length, every bit pattern, NaN
  payloads included: floats are their IEEE-754 bit patterns), every unit id, every transaction
  counter, every memory contents; tcp and tcp+tls (`IsTcp`); byte and word order range over the
  values `SetEncoding` can store; histories: every finite list of calls interleaved with
  `SetUnitId` and `SetEncoding` with arbitrary (also refused) selector values.
  `st.pending = []`: no unread input is left over on the connection when the history starts (it
  is then an invariant of the loop, see `C04_refines`).

  Only statements live here; the proofs are in `Lemmas/SystemLemmas.lean`. They chain
  C01 (`C01_emits_spec`), C03 (`C03_valid_request`, `C03_frame_step_f8`), C02
  (`C02_complete_mbap`, `C02_exception_mbap`) and the layout laws of C17 / C02.

  KNOWN FINDING F8 (same defect as in C03). The full error-surface statement

      theorem C04_error_surface (e : Err) (cfg : Cfg) (st : TState) (mem : Mem) (op : Op)
          (hk : IsTcp cfg.kind) (he : cfg.endian ≠ .invalid) (hw : cfg.word ≠ .invalid)
          (hp : st.pending = []) (hacc : Spec.breaksLimits op = false) :
          (System.step (errHandler e) cfg st mem op).1.result =
            some (.error (if e ∈ documented then e else .serverDeviceFailure)) ∧
          (System.step (errHandler e) cfg st mem op).2 = mem

  is FALSE for the code as it is: for `e = ErrProtocolError` the server closes the connection
  without any response and the caller gets an i/o error (end of file), not
  server-device-failure. `C04_handler_protocol_error_counterexample` is a concrete instance,
  `C04_error_surface_f8` the general one, `C04_error_surface_false` the refutation;
  `C04_error_surface_partial` is the statement under the hypothesis `e ≠ .protocolError`, the only
  value that has to be excluded.
-/
namespace Modbus.Props.C04
open Modbus Modbus.Client Modbus.Server Modbus.System Modbus.Spec
open Modbus.SystemLemmas (IsTcp)

/-! ## 1. one call = one step of the abstract register file -/

/-- For every public operation: the caller gets exactly the result of the abstract register file
    (never a panic); the transaction counter advances by one iff a request was sent and no unread
    input is left behind; the handler's memory afterwards is the register file's memory -/
theorem C04_step (cfg : Cfg) (st : TState) (mem : Mem) (op : Op)
    (hk : IsTcp cfg.kind) (he : cfg.endian ≠ .invalid) (hw : cfg.word ≠ .invalid)
    (hp : st.pending = []) :
    (System.step memHandler cfg st mem op).1.result = some (Spec.regfileStep cfg mem op).1 ∧
    (System.step memHandler cfg st mem op).1.state
      = (if Spec.breaksLimits op then st else ⟨st.lastTxn + 1, []⟩) ∧
    (System.step memHandler cfg st mem op).2 = (Spec.regfileStep cfg mem op).2 :=
  SystemLemmas.step_mem st mem op he hw hk hp

/-- the memory clause, extensionally over the 65536 addresses of each table -/
theorem C04_step_memory (cfg : Cfg) (st : TState) (mem : Mem) (op : Op)
    (hk : IsTcp cfg.kind) (he : cfg.endian ≠ .invalid) (hw : cfg.word ≠ .invalid)
    (hp : st.pending = []) :
    ∀ a < 65536,
      (System.step memHandler cfg st mem op).2.coils a = (Spec.regfileStep cfg mem op).2.coils a ∧
      (System.step memHandler cfg st mem op).2.discrete a = (Spec.regfileStep cfg mem op).2.discrete a ∧
      (System.step memHandler cfg st mem op).2.holding a = (Spec.regfileStep cfg mem op).2.holding a ∧
      (System.step memHandler cfg st mem op).2.input a = (Spec.regfileStep cfg mem op).2.input a := by
  intro a _
  rw [(C04_step cfg st mem op hk he hw hp).2.2]
  exact ⟨rfl, rfl, rfl, rfl⟩

/-- what is written to the connection is the request of the specification (C01), exactly once, or
    nothing for a call refused locally -/
theorem C04_step_written (cfg : Cfg) (st : TState) (mem : Mem) (op : Op)
    (hk : IsTcp cfg.kind) (he : cfg.endian ≠ .invalid) (hw : cfg.word ≠ .invalid)
    (hp : st.pending = []) :
    (System.step memHandler cfg st mem op).1.written
      = (match Spec.request cfg st op with | .ok f => some f | .error _ => none) :=
  SystemLemmas.step_mem_written st mem op he hw hk hp

/-- the abstract register file refuses exactly the calls that break the protocol limits, with
    ErrUnexpectedParameters and without any effect -/
theorem C04_regfile_rejects (cfg : Cfg) (mem : Mem) (op : Op) :
    (Spec.breaksLimits op = true → Spec.regfileStep cfg mem op = (.error .unexpectedParameters, mem)) ∧
    (Spec.breaksLimits op = false → ∃ v, (Spec.regfileStep cfg mem op).1 = .ok v) := by
  refine ⟨SystemLemmas.regfileStep_rejected cfg mem op, fun h => ?_⟩
  simp only [Spec.regfileStep, h]
  cases Spec.fn op <;> exact ⟨_, rfl⟩

/-! ## 2. histories -/

/-- Every finite history of calls, `SetUnitId` and `SetEncoding` commands: the closed loop
    returns exactly the results of the abstract register file (no panic anywhere), ends with the
    same settings and the same memory; the transaction counter has advanced by the number of
    requests sent and the connection holds no unread input -/
theorem C04_refines (cmds : List Cmd) (cfg : Cfg) (st : TState) (mem : Mem)
    (hk : IsTcp cfg.kind) (he : cfg.endian ≠ .invalid) (hw : cfg.word ≠ .invalid)
    (hp : st.pending = []) :
    (System.run memHandler cfg st mem cmds).1 = (Spec.regfileRun cfg mem cmds).1.map some ∧
    (System.run memHandler cfg st mem cmds).2.1 = (Spec.regfileRun cfg mem cmds).2.1 ∧
    (System.run memHandler cfg st mem cmds).2.2.2 = (Spec.regfileRun cfg mem cmds).2.2 ∧
    (System.run memHandler cfg st mem cmds).2.2.1
      = ⟨st.lastTxn + BitVec.ofNat 16 (Spec.requestsSent cmds), []⟩ :=
  SystemLemmas.run_mem cmds cfg st mem ⟨hk, he, hw⟩ hp

/-- ... and, for ANY handler, the handler invocations of the whole history are exactly those the
    specification predicts: one per call that is not refused, in order, with the unit id and
    encoding in force at that moment. (`System.runCalls` starts every step on an open connection;
    for a handler that returns `ErrProtocolError` - F8, the server hangs up - this corresponds
    to a client that is re-opened after the failed call.) -/
theorem C04_refines_calls (h : Handler Mem) (cmds : List Cmd) (cfg : Cfg) (st : TState) (mem : Mem)
    (hk : IsTcp cfg.kind) (he : cfg.endian ≠ .invalid) (hw : cfg.word ≠ .invalid) :
    System.runCalls h cfg st mem cmds = Spec.regfileCalls cfg cmds :=
  SystemLemmas.runCalls_eq h cmds cfg st mem ⟨hk, he, hw⟩

/-- `SetEncoding` of the model is the documented one, for all selector values -/
theorem C04_setEncoding (cfg : Cfg) (e w : Nat) :
    System.setEnc cfg e w = Spec.regfileSetEnc cfg e w :=
  SystemLemmas.setEnc_eq cfg e w

/-! ## 3. what the handler sees -/

/-- For ANY handler (whatever it answers): a call that is not refused locally causes exactly one
    handler invocation, with the request object of the specification (unit id, address, quantity,
    direction, values in the documented layout); a refused call causes none -/
theorem C04_handler_sees (h : Handler Mem) (cfg : Cfg) (st : TState) (mem : Mem) (op : Op)
    (hk : IsTcp cfg.kind) (he : cfg.endian ≠ .invalid) (hw : cfg.word ≠ .invalid) :
    System.stepCalls h cfg st mem op = (Spec.handlerSees cfg op).toList :=
  SystemLemmas.stepCalls_eq h st mem op he hw hk

/-- with the memory handler, the server's events of an accepted call, completely: one call, one
    response, then the session waits for the next request -/
theorem C04_handler_sees_events (cfg : Cfg) (st : TState) (mem : Mem) (op : Op)
    (hk : IsTcp cfg.kind) (he : cfg.endian ≠ .invalid) (hw : cfg.word ≠ .invalid)
    (hp : st.pending = []) (hacc : Spec.breaksLimits op = false) :
    ∃ r f, Spec.handlerSees cfg op = some r ∧
      (System.stepFull memHandler cfg st mem op).2.2 = [.call r, .respond f, .ended .ioTimeout] := by
  rw [SystemLemmas.stepFull_mem st mem op he hw hk hp]
  simp [hacc, Spec.handlerSees]

/-- the request object, spelled out per class of operation -/
theorem C04_handler_request (cfg : Cfg) (op : Op) :
    Spec.handlerReq cfg op =
      (match Spec.fn op with
      | .readCoils => .coils cfg.unitId (Spec.addr op) (u16OfNat (Spec.items op)) false []
      | .readDiscreteInputs => .discrete cfg.unitId (Spec.addr op) (u16OfNat (Spec.items op))
      | .readRegisters =>
        if Spec.regType? op = some 1 then .input cfg.unitId (Spec.addr op) (u16OfNat (Spec.items op))
        else .holding cfg.unitId (Spec.addr op) (u16OfNat (Spec.items op)) false []
      | .writeSingleCoil | .writeMultipleCoils =>
        .coils cfg.unitId (Spec.addr op) (u16OfNat (Spec.items op)) true (Spec.coilArgs op)
      | .writeSingleRegister | .writeMultipleRegisters =>
        .holding cfg.unitId (Spec.addr op) (u16OfNat (Spec.items op)) true (Spec.regImage cfg op)) := rfl

/-! ## 4. the register image is the documented layout -/

/-- a register write stores the registers whose wire bytes (two per register, high byte first) are
    the documented layout of the arguments -/
theorem C04_write_image (cfg : Cfg) (op : Op) :
    Spec.wireImage (Spec.regImage cfg op) = Spec.writeLayout cfg op :=
  SystemLemmas.wireImage_regImage cfg op

/-- register reads return the values whose documented layout is the wire image of the stored
    registers -/
theorem C04_read_layout16 (cfg : Cfg) (he : cfg.endian ≠ .invalid) (regs : List U16) :
    (wireRegs cfg.endian (Spec.wireImage regs)).flatMap (layout16 cfg.endian) = Spec.wireImage regs :=
  ClientResp.wireRegs_layout16 _ he _ (by
    rw [Spec.wireImage, Server.flatMap_regBytes_length]; omega)

theorem C04_read_layout32 (cfg : Cfg) (he : cfg.endian ≠ .invalid) (hw : cfg.word ≠ .invalid)
    (regs : List U16) (hl : regs.length % 2 = 0) :
    (join32 cfg.word (wireRegs cfg.endian (Spec.wireImage regs))).flatMap
      (layout32 cfg.endian cfg.word) = Spec.wireImage regs :=
  ClientResp.join32_layout32 _ _ he hw _ (by
    rw [Spec.wireImage, Server.flatMap_regBytes_length]; omega)

theorem C04_read_layout64 (cfg : Cfg) (he : cfg.endian ≠ .invalid) (hw : cfg.word ≠ .invalid)
    (regs : List U16) (hl : regs.length % 4 = 0) :
    (join64 cfg.word (wireRegs cfg.endian (Spec.wireImage regs))).flatMap
      (layout64 cfg.endian cfg.word) = Spec.wireImage regs :=
  ClientResp.join64_layout64 _ _ he hw _ (by
    rw [Spec.wireImage, Server.flatMap_regBytes_length]; omega)

/-- typed values written and read back under the same encoding are preserved bit for bit
    (NaN payloads, signed zero included) -/
theorem C04_read_back (cfg : Cfg) (he : cfg.endian ≠ .invalid) (hw : cfg.word ≠ .invalid)
    (a a' q : U16) (rt : Nat) :
    (∀ vs, Spec.regValue cfg (.readRegisters a' q rt) (Spec.regImage cfg (.writeRegisters a vs)) = .u16s vs) ∧
    (∀ vs, Spec.regValue cfg (.readUint32s a' q rt) (Spec.regImage cfg (.writeUint32s a vs)) = .u32s vs) ∧
    (∀ vs, Spec.regValue cfg (.readFloat32s a' q rt) (Spec.regImage cfg (.writeFloat32s a vs)) = .u32s vs) ∧
    (∀ vs, Spec.regValue cfg (.readUint64s a' q rt) (Spec.regImage cfg (.writeUint64s a vs)) = .u64s vs) ∧
    (∀ vs, Spec.regValue cfg (.readFloat64s a' q rt) (Spec.regImage cfg (.writeFloat64s a vs)) = .u64s vs) :=
  ⟨fun vs => congrArg Val.u16s (SystemLemmas.read_back_u16 cfg he vs),
   fun vs => congrArg Val.u32s (SystemLemmas.read_back_u32 cfg he hw vs),
   fun vs => congrArg Val.u32s (SystemLemmas.read_back_u32 cfg he hw vs),
   fun vs => congrArg Val.u64s (SystemLemmas.read_back_u64 cfg he hw vs),
   fun vs => congrArg Val.u64s (SystemLemmas.read_back_u64 cfg he hw vs)⟩

/-! ## 5. errors returned by the handler -/

/-- exception code of the server, then error of the client: the nine documented errors are
    preserved, every other error value becomes server-device-failure (all error values) -/
theorem C04_error_table (e : Err) :
    Client.mapException (Server.mapError e) =
      if e ∈ [Err.illegalFunction, .illegalDataAddress, .illegalDataValue, .serverDeviceFailure,
              .acknowledge, .serverDeviceBusy, .memoryParityError, .gwPathUnavailable,
              .gwTargetFailedToRespond] then e else .serverDeviceFailure :=
  SystemLemmas.surfaced_table e

/-- a handler that answers with the error `e ≠ ErrProtocolError` (F8): the caller gets `e` itself
    for the nine documented errors and server-device-failure for any other; exactly one handler
    call was made; the memory is untouched; the connection stays usable -/
theorem C04_error_surface_partial (e : Err) (hne : e ≠ .protocolError)
    (cfg : Cfg) (st : TState) (mem : Mem) (op : Op)
    (hk : IsTcp cfg.kind) (he : cfg.endian ≠ .invalid) (hw : cfg.word ≠ .invalid)
    (hp : st.pending = []) (hacc : Spec.breaksLimits op = false) :
    (System.step (errHandler e) cfg st mem op).1.result =
      some (.error
        (if e ∈ [Err.illegalFunction, .illegalDataAddress, .illegalDataValue, .serverDeviceFailure,
              .acknowledge, .serverDeviceBusy, .memoryParityError, .gwPathUnavailable,
              .gwTargetFailedToRespond] then e else .serverDeviceFailure)) ∧
    (System.step (errHandler e) cfg st mem op).2 = mem ∧
    (System.step (errHandler e) cfg st mem op).1.state = ⟨st.lastTxn + 1, []⟩ ∧
    System.stepCalls (errHandler e) cfg st mem op = (Spec.handlerSees cfg op).toList := by
  refine ⟨?_, ?_, ?_, SystemLemmas.stepCalls_eq _ st mem op he hw hk⟩ <;>
    simp only [System.step, SystemLemmas.stepFull_err e hne st mem op he hw hk hp hacc,
      SystemLemmas.surfaced_table]

/-- each of the nine documented errors surfaces as itself -/
theorem C04_error_surface_documented (e : Err)
    (hdoc : e ∈ [Err.illegalFunction, .illegalDataAddress, .illegalDataValue, .serverDeviceFailure,
              .acknowledge, .serverDeviceBusy, .memoryParityError, .gwPathUnavailable,
              .gwTargetFailedToRespond])
    (cfg : Cfg) (st : TState) (mem : Mem) (op : Op)
    (hk : IsTcp cfg.kind) (he : cfg.endian ≠ .invalid) (hw : cfg.word ≠ .invalid)
    (hp : st.pending = []) (hacc : Spec.breaksLimits op = false) :
    (System.step (errHandler e) cfg st mem op).1.result = some (.error e) := by
  have hne : e ≠ .protocolError := by intro h; subst h; simp at hdoc
  rw [(C04_error_surface_partial e hne cfg st mem op hk he hw hp hacc).1, if_pos hdoc]

/-- a locally refused call never reaches the handler, whatever the handler would answer -/
theorem C04_error_refused (e : Err) (cfg : Cfg) (st : TState) (mem : Mem) (op : Op)
    (he : cfg.endian ≠ .invalid) (hw : cfg.word ≠ .invalid)
    (hrej : Spec.breaksLimits op = true) :
    System.stepFull (errHandler e) cfg st mem op =
      ({ written := none, result := some (.error .unexpectedParameters), state := st }, mem, []) :=
  SystemLemmas.stepFull_rejected _ st mem he hw hrej

/-- F8, general form: the handler returns `ErrProtocolError` for an accepted call: one handler
    call, NO response, the server closes the connection and the caller gets end-of-file -/
theorem C04_error_surface_f8 (cfg : Cfg) (st : TState) (mem : Mem) (op : Op)
    (hk : IsTcp cfg.kind) (he : cfg.endian ≠ .invalid) (hw : cfg.word ≠ .invalid)
    (hp : st.pending = []) (hacc : Spec.breaksLimits op = false) :
    (System.step (errHandler .protocolError) cfg st mem op).1.result = some (.error .ioEOF) ∧
    (System.stepFull (errHandler .protocolError) cfg st mem op).2.2
      = [.call (Spec.handlerReq cfg op), .closed] := by
  simp only [System.step, SystemLemmas.stepFull_protoErr st mem op he hw hk hp hacc, and_self]

/-- F8, concrete instance: ReadRegisters(0, 2, HOLDING) against a handler returning
    `ErrProtocolError` -/
theorem C04_handler_protocol_error_counterexample :
    (System.step (errHandler .protocolError)
      { kind := .tcp, unitId := 1, endian := .big, word := .highFirst } ⟨0, []⟩ Mem.init
      (.readRegisters 0 2 0)).1.result = some (.error .ioEOF) := by decide

/-- the full statement (header) is false -/
theorem C04_error_surface_false :
    ¬ ∀ (e : Err) (cfg : Cfg) (st : TState) (mem : Mem) (op : Op),
      IsTcp cfg.kind → cfg.endian ≠ .invalid → cfg.word ≠ .invalid → st.pending = [] →
      Spec.breaksLimits op = false →
      (System.step (errHandler e) cfg st mem op).1.result =
        some (.error
          (if e ∈ [Err.illegalFunction, .illegalDataAddress, .illegalDataValue, .serverDeviceFailure,
                .acknowledge, .serverDeviceBusy, .memoryParityError, .gwPathUnavailable,
                .gwTargetFailedToRespond] then e else .serverDeviceFailure)) := by
  intro h
  have h1 := h .protocolError { kind := .tcp, unitId := 1, endian := .big, word := .highFirst }
    ⟨0, []⟩ Mem.init (.readRegisters 0 2 0) (Or.inl rfl) (by decide) (by decide) rfl (by decide)
  rw [C04_handler_protocol_error_counterexample] at h1
  revert h1; decide

/-! ## 6. non-vacuity -/

/-- unit 1 over TCP, LITTLE_ENDIAN / LOW_WORD_FIRST -/
def cfgLL : Cfg := { kind := .tcp, unitId := 1, endian := .little, word := .lowFirst }
def cfgBH : Cfg := { kind := .tcpTls, unitId := 0xF7, endian := .big, word := .highFirst }
def st0 : TState := { lastTxn := 0xFFFF, pending := [] }

-- the hypotheses of the theorems are satisfiable
example : IsTcp cfgLL.kind ∧ IsTcp cfgBH.kind := ⟨Or.inl rfl, Or.inr rfl⟩

-- a float32 NaN with payload, written LITTLE_ENDIAN / LOW_WORD_FIRST at 0x10 and read back:
-- the same bits; read as two 16-bit registers under the same encoding: low word first;
-- after SetEncoding(BIG_ENDIAN, HIGH_WORD_FIRST) the raw registers show the per-register swap
example : (System.run memHandler cfgLL st0 Mem.init
    [.op (.writeUint32s 0x10 [0x7fc00001#32]), .op (.readUint32 0x10 0), .op (.readFloat32s 0x10 1 0),
     .op (.readRegisters 0x10 2 0), .setEnc 1 1, .op (.readRegisters 0x10 2 0),
     .op (.readUint32 0x10 0)]).1
    = [some (.ok .unit), some (.ok (.u32s [0x7fc00001#32])), some (.ok (.u32s [0x7fc00001#32])),
       some (.ok (.u16s [0x0001#16, 0x7fc0#16])), some (.ok .unit),
       some (.ok (.u16s [0x0100#16, 0xc07f#16])), some (.ok (.u32s [0x0100c07f#32]))] := by
  decide +kernel
-- ... and the abstract register file says the same
example : (Spec.regfileRun cfgLL Mem.init
    [.op (.writeUint32s 0x10 [0x7fc00001#32]), .op (.readUint32 0x10 0), .op (.readFloat32s 0x10 1 0),
     .op (.readRegisters 0x10 2 0), .setEnc 1 1, .op (.readRegisters 0x10 2 0),
     .op (.readUint32 0x10 0)]).1
    = [.ok .unit, .ok (.u32s [0x7fc00001#32]), .ok (.u32s [0x7fc00001#32]),
       .ok (.u16s [0x0001#16, 0x7fc0#16]), .ok .unit,
       .ok (.u16s [0x0100#16, 0xc07f#16]), .ok (.u32s [0x0100c07f#32])] := by
  decide +kernel
-- the handler saw the documented register image, and the memory holds it
example : System.stepCalls memHandler cfgLL st0 Mem.init (.writeUint32s 0x10 [0x7fc00001#32])
    = [.holding 1 0x10 2 true [0x0100#16, 0xc07f#16]] := by decide +kernel
example : Spec.handlerSees cfgLL (.writeUint32s 0x10 [0x7fc00001#32])
    = some (.holding 1 0x10 2 true [0x0100#16, 0xc07f#16]) := by decide +kernel
example : Spec.window (System.step memHandler cfgLL st0 Mem.init
    (.writeUint32s 0x10 [0x7fc00001#32])).2.holding 0x0F 4 = [0, 0x0100#16, 0xc07f#16, 0] := by
  decide +kernel
-- BIG_ENDIAN / HIGH_WORD_FIRST: most significant word at the lowest address
example : Spec.handlerSees cfgBH (.writeUint32s 0x10 [0x7fc00001#32])
    = some (.holding 0xF7 0x10 2 true [0x7fc0#16, 0x0001#16]) := by decide +kernel

-- coils: round trip across a byte boundary, at the top of the address space
example : (System.run memHandler cfgBH st0 Mem.init
    [.op (.writeCoils 0xFFF6 [true, false, true, true, false, false, true, true, true, true]),
     .op (.readCoils 0xFFF6 10), .op (.readCoil 0xFFFF), .op (.writeCoil 0xFFFF false),
     .op (.readCoils 0xFFFE 2), .op (.readCoils 0xFFFE 3)]).1
    = [some (.ok .unit),
       some (.ok (.bools [true, false, true, true, false, false, true, true, true, true])),
       some (.ok (.bools [true])), some (.ok .unit), some (.ok (.bools [true, false])),
       some (.error .unexpectedParameters)] := by decide +kernel

-- boundary address 0xFFFF and a float64 NaN with payload in the last four registers
example : (System.run memHandler cfgLL st0 Mem.init
    [.op (.writeRegister 0xFFFF 0xBEEF), .op (.readRegister 0xFFFF 0),
     .op (.writeFloat64 0xFFFC 0x7ff8000000000001#64), .op (.readFloat64 0xFFFC 0),
     .op (.readUint64s 0xFFFC 1 0), .op (.readRegisters 0xFFFC 4 0),
     .op (.writeFloat64 0xFFFD 0), .op (.readRegisters 0xFFFF 2 0)]).1
    = [some (.ok .unit), some (.ok (.u16s [0xBEEF#16])),
       some (.ok .unit), some (.ok (.u64s [0x7ff8000000000001#64])),
       some (.ok (.u64s [0x7ff8000000000001#64])),
       some (.ok (.u16s [0x0001#16, 0x0000#16, 0x0000#16, 0x7ff8#16])),
       some (.error .unexpectedParameters), some (.error .unexpectedParameters)] := by
  decide +kernel

-- the deterministic initial contents of the read-only tables, input registers (type 1)
example : (System.run memHandler cfgBH st0 Mem.init
    [.op (.readDiscreteInputs 0 6), .op (.readRegisters 0 3 1), .op (.readRegister 0xFFFF 1)]).1
    = [some (.ok (.bools [false, true, false, false, false, false])),
       some (.ok (.u16s [0x000b#16, 0x010c#16, 0x020d#16])),
       some (.ok (.u16s [0xff0a#16]))] := by decide +kernel

-- byte strings: three bytes in two registers; swapped per register only by the non-raw variant
example : (System.run memHandler cfgLL st0 Mem.init
    [.op (.writeBytes 0x20 [1, 2, 3]), .op (.readBytes 0x20 3 0), .op (.readRawBytes 0x20 4 0),
     .op (.writeRawBytes 0x30 [1, 2, 3]), .op (.readRawBytes 0x30 3 0), .op (.readBytes 0x30 4 0)]).1
    = [some (.ok .unit), some (.ok (.bytes [1, 2, 3])), some (.ok (.bytes [2, 1, 0, 3])),
       some (.ok .unit), some (.ok (.bytes [1, 2, 3])), some (.ok (.bytes [2, 1, 0, 3]))] := by
  decide +kernel

-- settings: the unit id reaches the handler; a refused SetEncoding changes nothing; the
-- transaction counter wraps from 0xFFFF and counts requests sent only
example :
    let r := System.run memHandler cfgLL st0 Mem.init
      [.setUnit 9, .setEnc 3 1, .setEnc 1 0, .op (.readRegisters 0 0 0), .op (.readCoil 0)]
    r.1 = [some (.ok .unit), some (.error .unexpectedParameters), some (.error .unexpectedParameters),
           some (.error .unexpectedParameters), some (.ok (.bools [false]))] ∧
    r.2.1 = { cfgLL with unitId := 9 } ∧ r.2.2.1 = ⟨0x0000, []⟩ := by
  decide +kernel
example : System.stepCalls memHandler { cfgLL with unitId := 9 } st0 Mem.init (.readCoil 0)
    = [.coils 9 0 1 false []] := by decide +kernel

-- handler errors: a documented error as itself, an undocumented one as server device failure
example : (System.step (errHandler .illegalDataAddress) cfgBH st0 Mem.init (.readCoils 0 10)).1.result
    = some (.error .illegalDataAddress) := by decide +kernel
example : (System.step (errHandler .ioOther) cfgBH st0 Mem.init (.writeCoil 0 true)).1.result
    = some (.error .serverDeviceFailure) := by decide +kernel
example : (System.step (errHandler .badCRC) cfgBH st0 Mem.init (.writeUint64 0 1)).1.result
    = some (.error .serverDeviceFailure) := by decide +kernel

-- the `≠ .invalid` hypotheses are needed: with a word order `SetEncoding` cannot store, the
-- model is not the documented layout
example : (System.step memHandler { cfgLL with word := .invalid } st0 Mem.init
      (.writeUint32 0 0x11223344#32)).2.holding 0
    ≠ (Spec.regfileStep { cfgLL with word := .invalid } Mem.init (.writeUint32 0 0x11223344#32)).2.holding 0 := by
  decide +kernel

end Modbus.Props.C04

#print axioms Modbus.Props.C04.C04_step
#print axioms Modbus.Props.C04.C04_step_memory
#print axioms Modbus.Props.C04.C04_step_written
#print axioms Modbus.Props.C04.C04_regfile_rejects
#print axioms Modbus.Props.C04.C04_refines
#print axioms Modbus.Props.C04.C04_refines_calls
#print axioms Modbus.Props.C04.C04_setEncoding
#print axioms Modbus.Props.C04.C04_handler_sees
#print axioms Modbus.Props.C04.C04_handler_sees_events
#print axioms Modbus.Props.C04.C04_handler_request
#print axioms Modbus.Props.C04.C04_write_image
#print axioms Modbus.Props.C04.C04_read_layout16
#print axioms Modbus.Props.C04.C04_read_layout32
#print axioms Modbus.Props.C04.C04_read_layout64
#print axioms Modbus.Props.C04.C04_read_back
#print axioms Modbus.Props.C04.C04_error_table
#print axioms Modbus.Props.C04.C04_error_surface_partial
#print axioms Modbus.Props.C04.C04_error_surface_documented
#print axioms Modbus.Props.C04.C04_error_refused
#print axioms Modbus.Props.C04.C04_error_surface_f8
#print axioms Modbus.Props.C04.C04_handler_protocol_error_counterexample
#print axioms Modbus.Props.C04.C04_error_surface_false
