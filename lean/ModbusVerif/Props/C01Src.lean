import ModbusVerif.Lemmas.GoEvalLemmas
import ModbusVerif.Model.Client
/-
  C01, source tie: the argument checks of the CURRENT Go source, as rendered by the translator
  (/verif/extract/gstmt.go → `Gen.gs_<function>`, regenerated on every run) are EVALUATED by
  `Modbus.GoEval` for all inputs and proved equal to the hand-written model
  (`Client.Core.request`, `Client.Op.core`), about which `Props/C01.lean` proves the property.

  Part 1 (`C01S_<f>_checks`, `C01S_core_checks`): the six core functions. The run uses the
  oracle `preOracle`: the pure helpers called before the request is sent answer with an opaque
  symbol, every other call — in particular `mc.executeRequest` — is undefined, so the run is cut
  exactly where the request would be handed to the transport. For ALL inputs the run is
  `rejected` (returned, `err = ErrUnexpectedParameters`, no call to `mc.executeRequest`) or
  `sends fc` (stopped at `mc.executeRequest(req)` with `req.functionCode = fc`), and this
  verdict is the model's. Lengths range over all naturals < 2^63 (Go `int`), so the
  16-bit-narrowing defect F1 (lengths ≥ 65536) is inside the quantifier.

  Part 2 (`C01S_wrapper_args…`): every public Read*/Write* wrapper performs the core call of
  `Op.core` with the same callee and argument VALUES.

  Part 3: sensitivity (hand-made defective variants are told apart by the evaluator).
-/
set_option linter.unusedSimpArgs false
set_option linter.unusedVariables false

namespace Modbus.Props.C01
open Modbus Modbus.Client Modbus.Gen Modbus.GoEval

/-! ## definitions used in the statements -/

/-- everything before the request is sent: `uint16ToBytes` / `encodeBools` return an opaque
    value; no other call is answered (the run stops there) -/
def preOracle : Oracle := fun f _ =>
  if f = "uint16ToBytes" then some [.sym "uint16ToBytes(…)"]
  else if f = "encodeBools" then some [.sym "encodeBools(…)"]
  else none

inductive Verdict
  | rejected            -- local refusal with ErrUnexpectedParameters, nothing sent
  | sends (fc : Int)    -- the request object with this function code reaches executeRequest
  | other
  deriving DecidableEq, Repr

/-- function code given in the composite literal assigned to `req`, when `req.functionCode` is
    never assigned: `&pdu{ …, functionCode: fcX, }` ↦ value of `fcX` in `Gen.intConsts` -/
def staticFc (s : GStmt) : Option Int :=
  match assignedTexts "req.functionCode" s, assignedTexts "req" s with
  | [], [some lit] => (litField lit "functionCode").bind intConst?
  | _, _ => none

/-- function code of the request object at the end of run `r` -/
def reqFc (sf : Option Int) (r : Res) : Option Int :=
  match Env.read r.env "req.functionCode" with
  | .int fc => some fc
  | _ => sf

def calledIn (cs : Calls) (c : String) : Bool := cs.any (fun x => x.1 == c)

/-- what a run of a core function did, up to the point where the request is handed over -/
def verdict (sf : Option Int) (r : Res) : Verdict :=
  match r.how with
  | .returned =>
    if Env.read r.env "err" = .sym "ErrUnexpectedParameters" ∧ calledIn r.calls "mc.executeRequest" = false
    then .rejected else .other
  | .stoppedAt f args =>
    if f = "mc.executeRequest" ∧ args = [Env.read r.env "req"] ∧ calledIn r.calls "mc.executeRequest" = false
    then (match reqFc sf r with | some fc => .sends fc | none => .other) else .other
  | _ => .other

def verdictOf (x : Except Err (Byte × Bytes)) : Verdict :=
  match x with
  | .error .unexpectedParameters => .rejected
  | .error _ => .other
  | .ok (fc, _) => .sends fc.toNat

/-- the same verdict, read off the model -/
def modelVerdict (c : Core) : Verdict := verdictOf c.request

/-- which generated term a `Core` value stands for -/
def coreStmt : Core → GStmt
  | .readBools .. => gs_ModbusClient_readBools
  | .readRegs .. => gs_ModbusClient_readRegisters
  | .writeCoil .. => gs_ModbusClient_WriteCoil
  | .writeCoils .. => gs_ModbusClient_WriteCoils
  | .writeReg .. => gs_ModbusClient_WriteRegister
  | .writeRegs .. => gs_ModbusClient_writeRegisters

/-- the parameters of the call as the evaluator sees them (named results start as `nil`);
    slices are represented by their length leaf -/
def coreEnv : Core → Env
  | .readBools di a q =>
    [("addr", .int a.toNat), ("quantity", .int q.toNat), ("di", .ofBool di), ("err", .sym "nil")]
  | .readRegs a q rt =>
    [("addr", .int a.toNat), ("quantity", .int q), ("regType", .int rt), ("err", .sym "nil")]
  | .writeCoil a v => [("addr", .int a.toNat), ("value", .ofBool v), ("err", .sym "nil")]
  | .writeCoils a vs => [("addr", .int a.toNat), ("len(values)", .int vs.length), ("err", .sym "nil")]
  | .writeReg _ a v => [("addr", .int a.toNat), ("value", .int v.toNat), ("err", .sym "nil")]
  | .writeRegs a p => [("addr", .int a.toNat), ("len(values)", .int p.length), ("err", .sym "nil")]

/-- the arguments are values of their Go types: `quantity uint32`, `len(values)` an `int` -/
def coreInRange : Core → Prop
  | .readRegs _ q _ => q < 2^32
  | .writeCoils _ vs => vs.length < 2^63
  | .writeRegs _ p => p.length < 2^63
  | _ => True

/-! ## helper lemmas -/

theorem verdict_returned (sf env cs) : verdict sf ⟨env, .returned, cs⟩ =
    if Env.read env "err" = .sym "ErrUnexpectedParameters" ∧ calledIn cs "mc.executeRequest" = false
    then .rejected else .other := by simp only [verdict]
theorem verdict_stopped (sf env cs f args) : verdict sf ⟨env, .stoppedAt f args, cs⟩ =
    if f = "mc.executeRequest" ∧ args = [Env.read env "req"] ∧ calledIn cs "mc.executeRequest" = false
    then (match reqFc sf ⟨env, .stoppedAt f args, cs⟩ with | some fc => .sends fc | none => .other)
    else .other := by simp only [verdict]
theorem verdict_ite (sf) (p : Prop) [Decidable p] (x y : Res) :
    verdict sf (if p then x else y) = if p then verdict sf x else verdict sf y := by
  split <;> exact id rfl
theorem verdictOf_ite (p : Prop) [Decidable p] (x y) :
    verdictOf (if p then x else y) = if p then verdictOf x else verdictOf y := by
  split <;> exact id rfl
theorem verdictOf_perr : verdictOf perr = .rejected := by exact id rfl
theorem verdictOf_ok (fc pl) : verdictOf (.ok (fc, pl)) = .sends fc.toNat := by exact id rfl

theorem u16_eq_zero (q : U16) : (q = 0) ↔ q.toNat = 0 := by
  constructor
  · intro h; rw [h]; rfl
  · intro h; exact BitVec.eq_of_toNat_eq (by simpa using h)
theorem toNat_u16OfNat (n : Nat) : (u16OfNat n).toNat = n % 65536 := by simp [u16OfNat]
theorem toNat_u16_half (x : U16) : (x / 2).toNat = x.toNat / 2 := by simp [BitVec.toNat_udiv]

theorem staticFc_WriteCoil : staticFc gs_ModbusClient_WriteCoil = some 5 := by decide +kernel
theorem staticFc_WriteRegister : staticFc gs_ModbusClient_WriteRegister = some 6 := by
  decide +kernel
theorem staticFc_WriteCoils : staticFc gs_ModbusClient_WriteCoils = some 15 := by decide +kernel
theorem staticFc_writeRegisters : staticFc gs_ModbusClient_writeRegisters = some 16 := by
  decide +kernel

/-- the model never produces the third verdict -/
theorem modelVerdict_ne_other (c : Core) : modelVerdict c ≠ .other := by
  cases c <;> simp only [modelVerdict, Core.request, verdictOf_ite, verdictOf_perr, verdictOf_ok]
    <;> repeat' split
  all_goals exact fun h => nomatch h

theorem verdict_not_outOfFuel (sf r) (h : verdict sf r ≠ .other) : r.how ≠ .outOfFuel := by
  intro h'; apply h; simp only [verdict, h']

/-- evaluate a run and reduce its verdict -/
syntax "go_verdict" " [" Lean.Parser.Tactic.simpLemma,* "]" : tactic
macro_rules
  | `(tactic| go_verdict [$ls,*]) => `(tactic|
    (go_eval [preOracle, coreEnv, coreStmt, verdict_ite, Int.reduceEq, Int.reduceLT, $ls,*]
     simp only [verdict_returned, verdict_stopped, reqFc, read_def, read?_write, read?_cons,
       read?_nil, String.reduceEq, ↓reduceIte, Option.getD_some, Option.getD_none, calledIn,
       List.any_cons, List.any_nil, String.reduceBEq, Bool.or_false, Bool.or_self, and_self,
       and_true, true_and]))

/-! ## 1. the six core functions: argument checks = model -/

set_option maxRecDepth 8000

theorem readBools_64 (di : Bool) (addr qty : U16) :
    verdict (staticFc gs_ModbusClient_readBools)
      (exec preOracle 64 gs_ModbusClient_readBools (coreEnv (.readBools di addr qty)))
    = modelVerdict (.readBools di addr qty) := by
  have ha := addr.isLt
  have hq := qty.isLt
  generalize staticFc gs_ModbusClient_readBools = sf
  go_verdict [gs_ModbusClient_readBools]
  cases di <;>
  simp only [modelVerdict, Core.request, verdictOf_ite, verdictOf_perr, verdictOf_ok, u16_eq_zero,
    Bool.false_eq_true, ↓reduceIte] <;>
  repeat' split
  all_goals first | rfl | (exfalso; omega)

theorem readRegisters_64 (addr : U16) (q rt : Nat) (hq : q < 2^32) :
    verdict (staticFc gs_ModbusClient_readRegisters)
      (exec preOracle 64 gs_ModbusClient_readRegisters (coreEnv (.readRegs addr q rt)))
    = modelVerdict (.readRegs addr q rt) := by
  have ha := addr.isLt
  generalize staticFc gs_ModbusClient_readRegisters = sf
  go_verdict [gs_ModbusClient_readRegisters]
  simp only [modelVerdict, Core.request, verdictOf_ite, verdictOf_perr, verdictOf_ok]
  repeat' split
  all_goals first | rfl | (exfalso; omega)

theorem WriteCoil_64 (addr : U16) (v : Bool) :
    verdict (staticFc gs_ModbusClient_WriteCoil)
      (exec preOracle 64 gs_ModbusClient_WriteCoil (coreEnv (.writeCoil addr v)))
    = modelVerdict (.writeCoil addr v) := by
  rw [staticFc_WriteCoil]
  go_verdict [gs_ModbusClient_WriteCoil]
  simp only [modelVerdict, Core.request, verdictOf_ok]
  repeat' split
  all_goals rfl

theorem WriteRegister_64 (e : Endian) (addr v : U16) :
    verdict (staticFc gs_ModbusClient_WriteRegister)
      (exec preOracle 64 gs_ModbusClient_WriteRegister (coreEnv (.writeReg e addr v)))
    = modelVerdict (.writeReg e addr v) := by
  rw [staticFc_WriteRegister]
  go_verdict [gs_ModbusClient_WriteRegister]
  simp only [modelVerdict, Core.request, verdictOf_ok]
  rfl

theorem WriteCoils_64 (addr : U16) (vs : List Bool) (hn : vs.length < 2^63) :
    verdict (staticFc gs_ModbusClient_WriteCoils)
      (exec preOracle 64 gs_ModbusClient_WriteCoils (coreEnv (.writeCoils addr vs)))
    = modelVerdict (.writeCoils addr vs) := by
  have ha := addr.isLt
  rw [staticFc_WriteCoils]
  go_verdict [gs_ModbusClient_WriteCoils]
  simp only [modelVerdict, Core.request, verdictOf_ite, verdictOf_perr, verdictOf_ok, u16_eq_zero,
    toNat_u16OfNat]
  repeat' split
  all_goals first | rfl | (exfalso; omega)

theorem writeRegisters_64 (addr : U16) (p : Bytes) (hn : p.length < 2^63) :
    verdict (staticFc gs_ModbusClient_writeRegisters)
      (exec preOracle 64 gs_ModbusClient_writeRegisters (coreEnv (.writeRegs addr p)))
    = modelVerdict (.writeRegs addr p) := by
  have ha := addr.isLt
  rw [staticFc_writeRegisters]
  have h0 : (0:Int) ≤ (p.length : Int) % 65536 := by omega
  have h1 : (0:Int) ≤ (p.length : Int) := by omega
  go_verdict [gs_ModbusClient_writeRegisters, tdiv_of_nonneg _ h0, tdiv_of_nonneg _ h1]
  simp only [modelVerdict, Core.request, verdictOf_ite, verdictOf_perr, verdictOf_ok, u16_eq_zero,
    toNat_u16OfNat, toNat_u16_half]
  repeat' split
  all_goals first | rfl | (exfalso; omega)

/-- the run was a local refusal: returned with `err = ErrUnexpectedParameters`, and
    `mc.executeRequest` was not called -/
def Rejected (r : Res) : Prop :=
  r.how = .returned ∧ Env.read r.env "err" = .sym "ErrUnexpectedParameters" ∧
    calledIn r.calls "mc.executeRequest" = false

/-- the run reached `mc.executeRequest(req)` (for the first time) with `req.functionCode = fc` -/
def Sends (sf : Option Int) (r : Res) (fc : Int) : Prop :=
  r.how = .stoppedAt "mc.executeRequest" [Env.read r.env "req"] ∧
    calledIn r.calls "mc.executeRequest" = false ∧ reqFc sf r = some fc

theorem verdict_rejected_iff (sf r) : verdict sf r = .rejected ↔ Rejected r := by
  obtain ⟨env, how, cs⟩ := r
  cases how <;> try (simp only [verdict, Rejected, reduceCtorEq, false_and])
  · by_cases h : Env.read env "err" = .sym "ErrUnexpectedParameters" ∧
        calledIn cs "mc.executeRequest" = false
    · simp [h]
    · rw [if_neg h]; simp only [reduceCtorEq, true_and, false_iff]; exact h
  · rename_i f args
    by_cases h : f = "mc.executeRequest" ∧ args = [Env.read env "req"] ∧
        calledIn cs "mc.executeRequest" = false
    · rw [if_pos h]; split <;> simp
    · rw [if_neg h]; simp

theorem verdict_sends_iff (sf r fc) : verdict sf r = .sends fc ↔ Sends sf r fc := by
  obtain ⟨env, how, cs⟩ := r
  cases how <;> try (simp only [verdict, Sends, reduceCtorEq, false_and])
  · by_cases h : Env.read env "err" = .sym "ErrUnexpectedParameters" ∧
        calledIn cs "mc.executeRequest" = false
    · simp [h]
    · simp [h]
  · rename_i f args
    by_cases h : f = "mc.executeRequest" ∧ args = [Env.read env "req"] ∧
        calledIn cs "mc.executeRequest" = false
    · rw [if_pos h]
      obtain ⟨h1, h2, h3⟩ := h
      subst h1 h2
      split <;> simp_all
    · rw [if_neg h]
      constructor
      · intro h'; cases h'
      · rintro ⟨h1, h2, h3⟩
        injection h1 with h1a h1b
        exact absurd ⟨h1a, h1b, h2⟩ h

theorem modelVerdict_rejected_iff (c : Core) :
    modelVerdict c = .rejected ↔ c.request = .error .unexpectedParameters := by
  unfold modelVerdict verdictOf
  split <;> simp_all

theorem modelVerdict_sends_iff (c : Core) (n : Int) :
    modelVerdict c = .sends n ↔ ∃ fc pl, c.request = .ok (fc, pl) ∧ n = fc.toNat := by
  unfold modelVerdict verdictOf
  split <;> simp_all
  exact eq_comm

/-- what `verdict … = modelVerdict …` says, spelled out -/
theorem checks_spelled {sf : Option Int} {r : Res} {c : Core} (h : verdict sf r = modelVerdict c) :
    (Rejected r ↔ c.request = .error .unexpectedParameters) ∧
    (∀ fc pl, c.request = .ok (fc, pl) → Sends sf r fc.toNat) ∧
    (Rejected r ∨ ∃ fc : Byte, Sends sf r fc.toNat) := by
  refine ⟨?_, ?_, ?_⟩
  · rw [← verdict_rejected_iff sf, h, modelVerdict_rejected_iff]
  · intro fc pl hok
    rw [← verdict_sends_iff, h, modelVerdict_sends_iff]
    exact ⟨fc, pl, hok, rfl⟩
  · cases hm : modelVerdict c with
    | rejected => left; rw [← verdict_rejected_iff sf, h, hm]
    | sends n =>
      right
      obtain ⟨fc, pl, _, hn⟩ := (modelVerdict_sends_iff c n).mp hm
      exact ⟨fc, by rw [← verdict_sends_iff, h, hm, hn]⟩
    | other => exact absurd hm (modelVerdict_ne_other c)

/-- all six at once, at fuel 64 -/
theorem core_checks_64 (c : Core) (h : coreInRange c) :
    verdict (staticFc (coreStmt c)) (exec preOracle 64 (coreStmt c) (coreEnv c)) = modelVerdict c := by
  cases c with
  | readBools di a q => exact readBools_64 di a q
  | readRegs a q rt => exact readRegisters_64 a q rt h
  | writeCoil a v => exact WriteCoil_64 a v
  | writeCoils a vs => exact WriteCoils_64 a vs h
  | writeReg e a v => exact WriteRegister_64 e a v
  | writeRegs a p => exact writeRegisters_64 a p h

/-- MAIN (part 1). For every core call with arguments in the range of their Go types and every
    fuel ≥ 64: the run of the generated term, cut at `mc.executeRequest`, has the verdict of the
    model — `rejected` exactly when `Core.request` is `ErrUnexpectedParameters`, otherwise
    `sends fc` with the function code of `Core.request`. -/
theorem C01S_core_checks (c : Core) (h : coreInRange c) (fuel : Nat) (hf : 64 ≤ fuel) :
    verdict (staticFc (coreStmt c)) (exec preOracle fuel (coreStmt c) (coreEnv c)) = modelVerdict c := by
  have h64 := core_checks_64 c h
  rw [exec_mono preOracle 64 fuel _ _ hf
    (verdict_not_outOfFuel _ _ (by rw [h64]; exact modelVerdict_ne_other c))]
  exact h64

/-! ### the six functions by name (statement spelled out; `r` is the run, `m` the model) -/

theorem C01S_readBools_checks (di : Bool) (addr quantity : U16) (fuel : Nat) (hf : 64 ≤ fuel) :
    let r := exec preOracle fuel gs_ModbusClient_readBools
      [("addr", .int addr.toNat), ("quantity", .int quantity.toNat), ("di", .ofBool di), ("err", .sym "nil")]
    let m := (Core.readBools di addr quantity).request
    (Rejected r ↔ m = .error .unexpectedParameters) ∧
    (∀ fc pl, m = .ok (fc, pl) → Sends (staticFc gs_ModbusClient_readBools) r fc.toNat) ∧
    (Rejected r ∨ ∃ fc : Byte, Sends (staticFc gs_ModbusClient_readBools) r fc.toNat) :=
  checks_spelled (C01S_core_checks (.readBools di addr quantity) trivial fuel hf)

/-- `quantity` is the `uint32` parameter of the repaired `readRegisters` (any value < 2^32) -/
theorem C01S_readRegisters_checks (addr : U16) (quantity regType : Nat) (hq : quantity < 2^32)
    (fuel : Nat) (hf : 64 ≤ fuel) :
    let r := exec preOracle fuel gs_ModbusClient_readRegisters
      [("addr", .int addr.toNat), ("quantity", .int quantity), ("regType", .int regType), ("err", .sym "nil")]
    let m := (Core.readRegs addr quantity regType).request
    (Rejected r ↔ m = .error .unexpectedParameters) ∧
    (∀ fc pl, m = .ok (fc, pl) → Sends (staticFc gs_ModbusClient_readRegisters) r fc.toNat) ∧
    (Rejected r ∨ ∃ fc : Byte, Sends (staticFc gs_ModbusClient_readRegisters) r fc.toNat) :=
  checks_spelled (C01S_core_checks (.readRegs addr quantity regType) hq fuel hf)

theorem C01S_WriteCoil_checks (addr : U16) (value : Bool) (fuel : Nat) (hf : 64 ≤ fuel) :
    let r := exec preOracle fuel gs_ModbusClient_WriteCoil
      [("addr", .int addr.toNat), ("value", .ofBool value), ("err", .sym "nil")]
    let m := (Core.writeCoil addr value).request
    (Rejected r ↔ m = .error .unexpectedParameters) ∧
    (∀ fc pl, m = .ok (fc, pl) → Sends (staticFc gs_ModbusClient_WriteCoil) r fc.toNat) ∧
    (Rejected r ∨ ∃ fc : Byte, Sends (staticFc gs_ModbusClient_WriteCoil) r fc.toNat) :=
  checks_spelled (C01S_core_checks (.writeCoil addr value) trivial fuel hf)

/-- `values []bool` is represented by `len(values)`: any length < 2^63, 65536 and beyond included -/
theorem C01S_WriteCoils_checks (addr : U16) (values : List Bool) (hn : values.length < 2^63)
    (fuel : Nat) (hf : 64 ≤ fuel) :
    let r := exec preOracle fuel gs_ModbusClient_WriteCoils
      [("addr", .int addr.toNat), ("len(values)", .int values.length), ("err", .sym "nil")]
    let m := (Core.writeCoils addr values).request
    (Rejected r ↔ m = .error .unexpectedParameters) ∧
    (∀ fc pl, m = .ok (fc, pl) → Sends (staticFc gs_ModbusClient_WriteCoils) r fc.toNat) ∧
    (Rejected r ∨ ∃ fc : Byte, Sends (staticFc gs_ModbusClient_WriteCoils) r fc.toNat) :=
  checks_spelled (C01S_core_checks (.writeCoils addr values) hn fuel hf)

theorem C01S_WriteRegister_checks (e : Endian) (addr value : U16) (fuel : Nat) (hf : 64 ≤ fuel) :
    let r := exec preOracle fuel gs_ModbusClient_WriteRegister
      [("addr", .int addr.toNat), ("value", .int value.toNat), ("err", .sym "nil")]
    let m := (Core.writeReg e addr value).request
    (Rejected r ↔ m = .error .unexpectedParameters) ∧
    (∀ fc pl, m = .ok (fc, pl) → Sends (staticFc gs_ModbusClient_WriteRegister) r fc.toNat) ∧
    (Rejected r ∨ ∃ fc : Byte, Sends (staticFc gs_ModbusClient_WriteRegister) r fc.toNat) :=
  checks_spelled (C01S_core_checks (.writeReg e addr value) trivial fuel hf)

/-- `values []byte` (the register payload) is represented by `len(values)`: any length < 2^63 -/
theorem C01S_writeRegisters_checks (addr : U16) (values : Bytes) (hn : values.length < 2^63)
    (fuel : Nat) (hf : 64 ≤ fuel) :
    let r := exec preOracle fuel gs_ModbusClient_writeRegisters
      [("addr", .int addr.toNat), ("len(values)", .int values.length), ("err", .sym "nil")]
    let m := (Core.writeRegs addr values).request
    (Rejected r ↔ m = .error .unexpectedParameters) ∧
    (∀ fc pl, m = .ok (fc, pl) → Sends (staticFc gs_ModbusClient_writeRegisters) r fc.toNat) ∧
    (Rejected r ∨ ∃ fc : Byte, Sends (staticFc gs_ModbusClient_writeRegisters) r fc.toNat) :=
  checks_spelled (C01S_core_checks (.writeRegs addr values) hn fuel hf)

/-- where the function code comes from: assigned in the body (reads) or given in the composite
    literal of `req` and resolved in the generated constant table (writes) -/
theorem C01S_staticFc :
    staticFc gs_ModbusClient_WriteCoil = some 5 ∧ staticFc gs_ModbusClient_WriteRegister = some 6 ∧
    staticFc gs_ModbusClient_WriteCoils = some 15 ∧ staticFc gs_ModbusClient_writeRegisters = some 16 :=
  ⟨staticFc_WriteCoil, staticFc_WriteRegister, staticFc_WriteCoils, staticFc_writeRegisters⟩

/-! ## 2. the public wrappers pass the arguments of `Op.core` -/

/-- a wrapper run: `mc.encoding()` returns the configured byte / word order (as the integer
    constants of the package); no other call is answered, so the run stops at the first other call -/
def wrapOracle (e w : Int) : Oracle := fun f _ =>
  if f = "mc.encoding" then some [.int e, .int w] else none

def isCoreCallee (f : String) : Bool :=
  f == "mc.readBools" || f == "mc.readRegisters" || f == "mc.writeRegisters"

/-- body and parameter names (client.go) of the intermediate methods a wrapper may call. A wrong
    parameter name would leave the parameter unbound (`unk`) and the theorems below would fail. -/
def callee? (f : String) : Option (List String × GStmt) :=
  if f = "mc.ReadRegisters" then some (["addr", "quantity", "regType"], gs_ModbusClient_ReadRegisters)
  else if f = "mc.ReadUint32s" then some (["addr", "quantity", "regType"], gs_ModbusClient_ReadUint32s)
  else if f = "mc.ReadFloat32s" then some (["addr", "quantity", "regType"], gs_ModbusClient_ReadFloat32s)
  else if f = "mc.ReadUint64s" then some (["addr", "quantity", "regType"], gs_ModbusClient_ReadUint64s)
  else if f = "mc.ReadFloat64s" then some (["addr", "quantity", "regType"], gs_ModbusClient_ReadFloat64s)
  else if f = "mc.readBytes" then
    some (["addr", "quantity", "regType", "observeEndianness"], gs_ModbusClient_readBytes)
  else none

/-- parameters := arguments; named results start as `nil` -/
def bindParams : List String → List GoEval.Val → Env
  | p :: ps, v :: vs => (p, v) :: bindParams ps vs
  | _, _ => [("err", .sym "nil")]

/-- follow the calls of a wrapper down to the core call: run the body until it stops at a call;
    a core callee ends the search, an intermediate method is entered with its parameters bound
    to the argument values -/
def resolve (e w : Int) : Nat → GStmt → Env → Option (String × List GoEval.Val)
  | 0, _, _ => none
  | n + 1, s, env =>
    match (exec (wrapOracle e w) 64 s env).stopped with
    | none => none
    | some (f, args) =>
      if isCoreCallee f = true then some (f, args)
      else match callee? f with
        | none => none
        | some (ps, body) => resolve e w n body (bindParams ps args)

/-- the public read methods: generated body and parameters -/
def readEntry : Op → Option (GStmt × Env)
  | .readCoils a q => some (gs_ModbusClient_ReadCoils, bindParams ["addr", "quantity"] [.int a.toNat, .int q.toNat])
  | .readCoil a => some (gs_ModbusClient_ReadCoil, bindParams ["addr"] [.int a.toNat])
  | .readDiscreteInputs a q => some (gs_ModbusClient_ReadDiscreteInputs, bindParams ["addr", "quantity"] [.int a.toNat, .int q.toNat])
  | .readDiscreteInput a => some (gs_ModbusClient_ReadDiscreteInput, bindParams ["addr"] [.int a.toNat])
  | .readRegisters a q rt => some (gs_ModbusClient_ReadRegisters, bindParams ["addr", "quantity", "regType"] [.int a.toNat, .int q.toNat, .int rt])
  | .readRegister a rt => some (gs_ModbusClient_ReadRegister, bindParams ["addr", "regType"] [.int a.toNat, .int rt])
  | .readUint32s a q rt => some (gs_ModbusClient_ReadUint32s, bindParams ["addr", "quantity", "regType"] [.int a.toNat, .int q.toNat, .int rt])
  | .readUint32 a rt => some (gs_ModbusClient_ReadUint32, bindParams ["addr", "regType"] [.int a.toNat, .int rt])
  | .readFloat32s a q rt => some (gs_ModbusClient_ReadFloat32s, bindParams ["addr", "quantity", "regType"] [.int a.toNat, .int q.toNat, .int rt])
  | .readFloat32 a rt => some (gs_ModbusClient_ReadFloat32, bindParams ["addr", "regType"] [.int a.toNat, .int rt])
  | .readUint64s a q rt => some (gs_ModbusClient_ReadUint64s, bindParams ["addr", "quantity", "regType"] [.int a.toNat, .int q.toNat, .int rt])
  | .readUint64 a rt => some (gs_ModbusClient_ReadUint64, bindParams ["addr", "regType"] [.int a.toNat, .int rt])
  | .readFloat64s a q rt => some (gs_ModbusClient_ReadFloat64s, bindParams ["addr", "quantity", "regType"] [.int a.toNat, .int q.toNat, .int rt])
  | .readFloat64 a rt => some (gs_ModbusClient_ReadFloat64, bindParams ["addr", "regType"] [.int a.toNat, .int rt])
  | .readBytes a q rt => some (gs_ModbusClient_ReadBytes, bindParams ["addr", "quantity", "regType"] [.int a.toNat, .int q.toNat, .int rt])
  | .readRawBytes a q rt => some (gs_ModbusClient_ReadRawBytes, bindParams ["addr", "quantity", "regType"] [.int a.toNat, .int q.toNat, .int rt])
  | _ => none

/-- the core call the model makes, as callee name and argument values -/
def expectedCall : Core → String × List GoEval.Val
  | .readBools di a q => ("mc.readBools", [.int a.toNat, .int q.toNat, .ofBool di])
  | .readRegs a q rt => ("mc.readRegisters", [.int a.toNat, .int q, .int rt])
  | .writeCoil a v => ("mc.WriteCoil", [.int a.toNat, .ofBool v])
  | .writeCoils a vs => ("mc.WriteCoils", [.int a.toNat, .int vs.length])
  | .writeReg _ a v => ("mc.WriteRegister", [.int a.toNat, .int v.toNat])
  | .writeRegs a p => ("mc.writeRegisters", [.int a.toNat, .int p.length])

theorem stopped_mk (env f args cs) : Res.stopped ⟨env, .stoppedAt f args, cs⟩ = some (f, args) := by exact id rfl
theorem stopped_ite (p : Prop) [Decidable p] (x y : Res) :
    Res.stopped (if p then x else y) = if p then Res.stopped x else Res.stopped y := by
  split <;> exact id rfl
theorem resolve_succ (e w n s env) : resolve e w (n+1) s env =
    match (exec (wrapOracle e w) 64 s env).stopped with
    | none => none
    | some (f, args) =>
      if isCoreCallee f = true then some (f, args)
      else match callee? f with
        | none => none
        | some (ps, body) => resolve e w n body (bindParams ps args) := by exact id rfl

syntax "go_resolve" " [" Lean.Parser.Tactic.simpLemma,* "]" : tactic
macro_rules
  | `(tactic| go_resolve [$ls,*]) => `(tactic|
    go_eval [resolve_succ, wrapOracle, bindParams, stopped_mk, isCoreCallee, callee?, String.reduceBEq,
      Bool.or_false, Bool.false_or, Bool.or_true, Bool.true_or, Bool.false_eq_true, Int.reduceEq, Int.reduceLT,
      expectedCall, Op.core, Option.map_some, $ls,*])

syntax "read_case" : tactic
macro_rules
  | `(tactic| read_case) => `(tactic|
    (go_resolve [gs_ModbusClient_ReadCoils, gs_ModbusClient_ReadCoil,
      gs_ModbusClient_ReadDiscreteInputs, gs_ModbusClient_ReadDiscreteInput,
      gs_ModbusClient_ReadRegisters, gs_ModbusClient_ReadRegister, gs_ModbusClient_ReadUint32s,
      gs_ModbusClient_ReadUint32, gs_ModbusClient_ReadFloat32s, gs_ModbusClient_ReadFloat32,
      gs_ModbusClient_ReadUint64s, gs_ModbusClient_ReadUint64, gs_ModbusClient_ReadFloat64s,
      gs_ModbusClient_ReadFloat64, gs_ModbusClient_ReadBytes, gs_ModbusClient_ReadRawBytes,
      gs_ModbusClient_readBytes, tdiv_natCast_left, tmod_natCast_left]
     first
      | done
      | rfl
      | (simp only [Option.some.injEq, Prod.mk.injEq, List.cons.injEq, Val.int.injEq, true_and, and_true,
          BitVec.toNat_add, BitVec.toNat_udiv, BitVec.toNat_umod, BitVec.toNat_ofNat, BitVec.reduceToNat]
         omega)))

/-- MAIN (part 2, reads). For each of the 16 public read methods, all addresses, quantities and
    register types, and whatever `mc.encoding()` returns: following the calls of the generated
    bodies (ReadUint32 → ReadUint32s → readRegisters, ReadBytes → readBytes → readRegisters, …)
    ends at the core call of the model, with the same callee and the same argument VALUES
    (`uint32(quantity)*2` etc. evaluated in 32 bits: no wrap for any 16-bit quantity). -/
theorem C01S_wrapper_args_read (op : Op) (cfg : Cfg) (e w : Int) (gs : GStmt) (env : Env)
    (h : readEntry op = some (gs, env)) :
    resolve e w 3 gs env = (op.core cfg).map expectedCall := by
  cases op with
  | readCoils a q =>
    simp only [readEntry, Option.some.injEq, Prod.mk.injEq] at h
    obtain ⟨rfl, rfl⟩ := h
    have hq := q.isLt
    read_case
  | readCoil a =>
    simp only [readEntry, Option.some.injEq, Prod.mk.injEq] at h
    obtain ⟨rfl, rfl⟩ := h
    read_case
  | readDiscreteInputs a q =>
    simp only [readEntry, Option.some.injEq, Prod.mk.injEq] at h
    obtain ⟨rfl, rfl⟩ := h
    have hq := q.isLt
    read_case
  | readDiscreteInput a =>
    simp only [readEntry, Option.some.injEq, Prod.mk.injEq] at h
    obtain ⟨rfl, rfl⟩ := h
    read_case
  | readRegisters a q rt =>
    simp only [readEntry, Option.some.injEq, Prod.mk.injEq] at h
    obtain ⟨rfl, rfl⟩ := h
    have hq := q.isLt
    read_case
  | readRegister a rt =>
    simp only [readEntry, Option.some.injEq, Prod.mk.injEq] at h
    obtain ⟨rfl, rfl⟩ := h
    read_case
  | readUint32s a q rt =>
    simp only [readEntry, Option.some.injEq, Prod.mk.injEq] at h
    obtain ⟨rfl, rfl⟩ := h
    have hq := q.isLt
    read_case
  | readUint32 a rt =>
    simp only [readEntry, Option.some.injEq, Prod.mk.injEq] at h
    obtain ⟨rfl, rfl⟩ := h
    read_case
  | readFloat32s a q rt =>
    simp only [readEntry, Option.some.injEq, Prod.mk.injEq] at h
    obtain ⟨rfl, rfl⟩ := h
    have hq := q.isLt
    read_case
  | readFloat32 a rt =>
    simp only [readEntry, Option.some.injEq, Prod.mk.injEq] at h
    obtain ⟨rfl, rfl⟩ := h
    read_case
  | readUint64s a q rt =>
    simp only [readEntry, Option.some.injEq, Prod.mk.injEq] at h
    obtain ⟨rfl, rfl⟩ := h
    have hq := q.isLt
    read_case
  | readUint64 a rt =>
    simp only [readEntry, Option.some.injEq, Prod.mk.injEq] at h
    obtain ⟨rfl, rfl⟩ := h
    read_case
  | readFloat64s a q rt =>
    simp only [readEntry, Option.some.injEq, Prod.mk.injEq] at h
    obtain ⟨rfl, rfl⟩ := h
    have hq := q.isLt
    read_case
  | readFloat64 a rt =>
    simp only [readEntry, Option.some.injEq, Prod.mk.injEq] at h
    obtain ⟨rfl, rfl⟩ := h
    read_case
  | readBytes a q rt =>
    simp only [readEntry, Option.some.injEq, Prod.mk.injEq] at h
    obtain ⟨rfl, rfl⟩ := h
    have hq := q.isLt
    read_case
  | readRawBytes a q rt =>
    simp only [readEntry, Option.some.injEq, Prod.mk.injEq] at h
    obtain ⟨rfl, rfl⟩ := h
    have hq := q.isLt
    read_case
  | _ => simp only [readEntry, reduceCtorEq] at h

/-! ### write wrappers -/

/-- the single-value typed writes: generated body and the text of the payload leaf -/
def writeEntry : Op → Option (GStmt × String)
  | .writeUint32 .. => some (gs_ModbusClient_WriteUint32, "uint32ToBytes(endianness, wordOrder, value)")
  | .writeFloat32 .. => some (gs_ModbusClient_WriteFloat32, "float32ToBytes(endianness, wordOrder, value)")
  | .writeUint64 .. => some (gs_ModbusClient_WriteUint64, "uint64ToBytes(endianness, wordOrder, value)")
  | .writeFloat64 .. => some (gs_ModbusClient_WriteFloat64, "float64ToBytes(endianness, wordOrder, value)")
  | _ => none

/-- the list-valued typed writes, whose payload is built by a `range` loop (rendered `opaque`) -/
def writeManyEntry : Op → Option GStmt
  | .writeRegisters .. => some gs_ModbusClient_WriteRegisters
  | .writeUint32s .. => some gs_ModbusClient_WriteUint32s
  | .writeFloat32s .. => some gs_ModbusClient_WriteFloat32s
  | .writeUint64s .. => some gs_ModbusClient_WriteUint64s
  | .writeFloat64s .. => some gs_ModbusClient_WriteFloat64s
  | _ => none

def Op.addr : Op → U16
  | .readCoils a _ | .readCoil a | .readDiscreteInputs a _ | .readDiscreteInput a
  | .readRegisters a _ _ | .readRegister a _ | .readUint32s a _ _ | .readUint32 a _
  | .readFloat32s a _ _ | .readFloat32 a _ | .readUint64s a _ _ | .readUint64 a _
  | .readFloat64s a _ _ | .readFloat64 a _ | .readBytes a _ _ | .readRawBytes a _ _
  | .writeCoil a _ | .writeCoils a _ | .writeRegister a _ | .writeRegisters a _
  | .writeUint32s a _ | .writeUint32 a _ | .writeFloat32s a _ | .writeFloat32 a _
  | .writeUint64s a _ | .writeUint64 a _ | .writeFloat64s a _ | .writeFloat64 a _
  | .writeBytes a _ | .writeRawBytes a _ => a

/-- the statement after the first `opaque` of a right-nested sequence, with the opaque's text -/
def tailAfterOpaque : GStmt → Option (String × GStmt)
  | .seq (.opaque t) rest => some (t, rest)
  | .seq _ rest => tailAfterOpaque rest
  | _ => none

/-- (part 2, single-value writes) WriteUint32 / WriteFloat32 / WriteUint64 / WriteFloat64 call
    `mc.writeRegisters(addr, P)` where `P` is the value of the leaf
    `<T>ToBytes(endianness, wordOrder, value)` (with `endianness, wordOrder` the results of
    `mc.encoding()`); the model's core is `writeRegs addr (<T>ToBytes cfg.endian cfg.word value)` -/
theorem C01S_wrapper_args_write1 (op : Op) (cfg : Cfg) (e w : Int) (gs : GStmt) (leaf : String)
    (P : GoEval.Val) (h : writeEntry op = some (gs, leaf)) :
    resolve e w 3 gs ((leaf, P) :: bindParams ["addr"] [.int (Op.addr op).toNat])
      = some ("mc.writeRegisters", [.int (Op.addr op).toNat, P]) ∧
    ∃ payload, op.core cfg = some (.writeRegs (Op.addr op) payload) := by
  cases op <;> simp only [writeEntry, Option.some.injEq, Prod.mk.injEq, reduceCtorEq] at h
  all_goals (obtain ⟨rfl, rfl⟩ := h)
  all_goals refine ⟨?_, _, rfl⟩
  all_goals go_resolve [gs_ModbusClient_WriteUint32, gs_ModbusClient_WriteFloat32,
    gs_ModbusClient_WriteUint64, gs_ModbusClient_WriteFloat64, Op.addr]

/-- (part 2, list-valued writes) WriteRegisters / WriteUint32s / WriteFloat32s / WriteUint64s /
    WriteFloat64s: the body is `mc.encoding(); <range loop building payload>; err =
    mc.writeRegisters(addr, payload); return`. The loop is `opaque "range values"` in the
    rendering, so the run itself is stuck there, having called nothing but `mc.encoding`; the
    statement after the loop calls `mc.writeRegisters(addr, payload)` with the address unchanged
    and whatever the loop left in `payload`. (What the loop computes is not rendered: see the
    report; `Props/C17*.lean` ties the element encoders.) -/
theorem C01S_wrapper_args_writeMany (op : Op) (cfg : Cfg) (e w : Int) (gs : GStmt)
    (h : writeManyEntry op = some gs) (P : GoEval.Val) :
    let r := exec (wrapOracle e w) 64 gs (bindParams ["addr"] [.int (Op.addr op).toNat])
    r.how = .stuckAt "range values" ∧ r.calls = [("mc.encoding", [])] ∧
    opaques gs = ["range values"] ∧
    (∃ tail, tailAfterOpaque gs = some ("range values", tail) ∧
      resolve e w 3 tail (("payload", P) :: bindParams ["addr"] [.int (Op.addr op).toNat])
        = some ("mc.writeRegisters", [.int (Op.addr op).toNat, P])) ∧
    ∃ payload, op.core cfg = some (.writeRegs (Op.addr op) payload) := by
  cases op <;> simp only [writeManyEntry, Option.some.injEq, reduceCtorEq] at h
  all_goals subst h
  all_goals refine ⟨?_, ?_, by decide, ⟨_, rfl, ?_⟩, _, rfl⟩
  all_goals go_resolve [gs_ModbusClient_WriteRegisters, gs_ModbusClient_WriteUint32s,
    gs_ModbusClient_WriteFloat32s, gs_ModbusClient_WriteUint64s, gs_ModbusClient_WriteFloat64s,
    Op.addr]

/-- (part 2, byte writes, first hop) WriteBytes / WriteRawBytes call
    `mc.writeBytes(addr, values, true / false)` -/
theorem C01S_wrapper_args_WriteBytes (a : U16) (V : GoEval.Val) (e w : Int) :
    (exec (wrapOracle e w) 64 gs_ModbusClient_WriteBytes
        (bindParams ["addr", "values"] [.int a.toNat, V])).stopped
      = some ("mc.writeBytes", [.int a.toNat, V, .ofBool true]) ∧
    (exec (wrapOracle e w) 64 gs_ModbusClient_WriteRawBytes
        (bindParams ["addr", "values"] [.int a.toNat, V])).stopped
      = some ("mc.writeBytes", [.int a.toNat, V, .ofBool false]) := by
  constructor <;>
  go_resolve [gs_ModbusClient_WriteBytes, gs_ModbusClient_WriteRawBytes] <;> rfl

/-- (part 2, byte writes, second hop) `writeBytes(addr, values, observeEndianness)` when the
    byte-swap loop is not entered (`observeEndianness` false, or the byte order is not
    LITTLE_ENDIAN = 2): it calls `mc.writeRegisters(addr, X)` with `X` the padded copy
    `append(values, 0x00)` exactly when `len(values)` is odd, the plain copy otherwise — the
    case distinction of the model's `writeBytesPayload`. `C` / `Pd`: values of the two `append`
    leaves. (The swap loop reads `len(values)` after `values` was re-assigned — a stale leaf, see
    `staleReads` — and its parallel assignment is rendered sequentially: not evaluated here.) -/
theorem C01S_wrapper_args_writeBytes (a : U16) (n : Nat) (hn : n < 2^63) (ob : Bool) (e w : Int)
    (hns : ¬ (ob = true ∧ e = 2)) (V C Pd : GoEval.Val) :
    (exec (wrapOracle e w) 64 gs_ModbusClient_writeBytes
        (("len(values)", .int n) :: ("append(make([]byte, 0, len(values)+1), values...)", C)
          :: ("append(values, 0x00)", Pd)
          :: bindParams ["addr", "values", "observeEndianness"] [.int a.toNat, V, .ofBool ob])).stopped
      = some ("mc.writeRegisters", [.int a.toNat, if n % 2 = 1 then Pd else C]) := by
  cases ob with
  | false =>
    go_resolve [gs_ModbusClient_writeBytes, tmod_natCast_left]
    simp only [stopped_ite, stopped_mk]
    repeat' split
    all_goals first | rfl | (exfalso; omega)
  | true =>
    have hne : ¬ e = 2 := fun h => hns ⟨rfl, h⟩
    go_resolve [gs_ModbusClient_writeBytes, tmod_natCast_left, hne, decide_false, andVal_true]
    simp only [stopped_ite, stopped_mk]
    repeat' split
    all_goals first | rfl | (exfalso; omega)

/-- the model's payload in the same case: the plain or the zero-padded copy -/
theorem C01S_writeBytesPayload_noswap (en : Endian) (ob : Bool) (bs : Bytes)
    (h : ¬ (ob = true ∧ en = .little)) :
    writeBytesPayload en ob bs = some (if bs.length % 2 = 1 then bs ++ [0x00] else bs) := by
  unfold writeBytesPayload
  simp only []
  rw [if_neg h]

/-- calls (program order, all paths) and opaque statements of the function `name` of the table -/
def callsOf (name : String) : Option (List String × List String) :=
  (gstmtTable.lookup name).map (fun s => ((bindCalls s).map (fun c => c.2.1), opaques s))

/-- static cross-check over the whole generated table: the calls each client method makes (in
    program order, all paths) and its opaque statements. Every public wrapper makes exactly one
    call into the layer below; the six core functions call `mc.executeRequest` exactly once.
    (The 36 names are all the `ModbusClient.` entries of the table.) -/
theorem C01S_call_table :
    ["ModbusClient.ReadBytes",
     "ModbusClient.ReadCoil",
     "ModbusClient.ReadCoils",
     "ModbusClient.ReadDiscreteInput",
     "ModbusClient.ReadDiscreteInputs",
     "ModbusClient.ReadFloat32",
     "ModbusClient.ReadFloat32s",
     "ModbusClient.ReadFloat64",
     "ModbusClient.ReadFloat64s",
     "ModbusClient.ReadRawBytes",
     "ModbusClient.ReadRegister",
     "ModbusClient.ReadRegisters",
     "ModbusClient.ReadUint32",
     "ModbusClient.ReadUint32s",
     "ModbusClient.ReadUint64",
     "ModbusClient.ReadUint64s",
     "ModbusClient.WriteBytes",
     "ModbusClient.WriteCoil",
     "ModbusClient.WriteCoils",
     "ModbusClient.WriteFloat32",
     "ModbusClient.WriteFloat32s",
     "ModbusClient.WriteFloat64",
     "ModbusClient.WriteFloat64s",
     "ModbusClient.WriteRawBytes",
     "ModbusClient.WriteRegister",
     "ModbusClient.WriteRegisters",
     "ModbusClient.WriteUint32",
     "ModbusClient.WriteUint32s",
     "ModbusClient.WriteUint64",
     "ModbusClient.WriteUint64s", "ModbusClient.executeRequest", "ModbusClient.readBools", "ModbusClient.readBytes", "ModbusClient.readRegisters", "ModbusClient.writeBytes", "ModbusClient.writeRegisters"].map callsOf =
    [some (["mc.readBytes"], []),
     some (["mc.readBools"], []),
     some (["mc.readBools"], []),
     some (["mc.readBools"], []),
     some (["mc.readBools"], []),
     some (["mc.ReadFloat32s"], []),
     some (["mc.encoding", "mc.readRegisters", "bytesToFloat32s"], []),
     some (["mc.ReadFloat64s"], []),
     some (["mc.encoding", "mc.readRegisters", "bytesToFloat64s"], []),
     some (["mc.readBytes"], []),
     some (["mc.ReadRegisters"], []),
     some (["mc.encoding", "mc.readRegisters", "bytesToUint16s"], []),
     some (["mc.ReadUint32s"], []),
     some (["mc.encoding", "mc.readRegisters", "bytesToUint32s"], []),
     some (["mc.ReadUint64s"], []),
     some (["mc.encoding", "mc.readRegisters", "bytesToUint64s"], []),
     some (["mc.writeBytes"], []),
     some (["uint16ToBytes", "mc.executeRequest", "mapExceptionCodeToError"], []),
     some (["encodeBools", "uint16ToBytes", "mc.executeRequest", "mapExceptionCodeToError"], []),
     some (["mc.encoding", "mc.writeRegisters"], []),
     some (["mc.encoding", "mc.writeRegisters"], ["range values"]),
     some (["mc.encoding", "mc.writeRegisters"], []),
     some (["mc.encoding", "mc.writeRegisters"], ["range values"]),
     some (["mc.writeBytes"], []),
     some (["uint16ToBytes", "mc.executeRequest", "mapExceptionCodeToError"], []),
     some (["mc.encoding", "mc.writeRegisters"], ["range values"]),
     some (["mc.encoding", "mc.writeRegisters"], []),
     some (["mc.encoding", "mc.writeRegisters"], ["range values"]),
     some (["mc.encoding", "mc.writeRegisters"], []),
     some (["mc.encoding", "mc.writeRegisters"], ["range values"]),
     some (["mc.transport.ExecuteRequest"], []),
     some (["uint16ToBytes", "mc.executeRequest", "decodeBools", "mapExceptionCodeToError"], []),
     some (["mc.encoding", "mc.readRegisters"], []),
     some (["uint16ToBytes", "mc.executeRequest", "mapExceptionCodeToError"], []),
     some (["mc.encoding", "mc.writeRegisters"], []),
     some (["uint16ToBytes", "mc.executeRequest", "mapExceptionCodeToError"], [])] ∧
    -- the 36 request/response functions above + Open, Close, SetEncoding, SetUnitId, encoding
    (gstmtTable.filter (fun p => hasSub p.1 "ModbusClient.")).length = 41 := by
  decide +kernel

/-- no compound leaf is read after its base variable was assigned, on the part of the six core
    functions that runs before the request is handed over — except `req.*` leaves, which are
    assigned after `req` (fresh bindings) and are not read before the cut -/
theorem C01S_prefix_not_stale :
    (staleReads gs_ModbusClient_readBools).all (fun k => hasSub k "res." || hasSub k "req.") = true ∧
    (staleReads gs_ModbusClient_readRegisters).all (fun k => hasSub k "res." || hasSub k "req.") = true ∧
    (staleReads gs_ModbusClient_WriteCoil).all (fun k => hasSub k "res." || hasSub k "req.") = true ∧
    (staleReads gs_ModbusClient_WriteCoils).all (fun k => hasSub k "res." || hasSub k "req.") = true ∧
    (staleReads gs_ModbusClient_WriteRegister).all (fun k => hasSub k "res." || hasSub k "req.") = true ∧
    (staleReads gs_ModbusClient_writeRegisters).all (fun k => hasSub k "res." || hasSub k "req.") = true := by
  decide +kernel

/-! ## 3. sensitivity: the evaluator tells defective variants apart -/

/-- `if c { err = ErrUnexpectedParameters; return }` -/
def guardRet (c : GExpr) : GStmt :=
  .ite c (.seq (.assign "err" (.var "ErrUnexpectedParameters" .other)) .ret) .skip

/-- readBools up to the hand-over, with the end-address check computed WITHOUT the `uint32`
    conversions (`addr + quantity - 1 > 0xffff` in uint16: never true) -/
def readBools_wrap16 : GStmt :=
  .seq (guardRet (.cmp "==" (.var "quantity" .u16) (.lit 0 .u16)))
  (.seq (guardRet (.cmp ">" (.var "quantity" .u16) (.lit 2000 .u16)))
  (.seq (guardRet (.cmp ">" (.bin "-" .u16 (.bin "+" .u16 (.var "addr" .u16) (.var "quantity" .u16))
      (.lit 1 .u16)) (.lit 65535 .u16)))
  (.seq (.assign "req" (.call "&pdu{ unitId: mc.unitId, }" .other))
  (.seq (.ite (.var "di" .bool) (.assign "req.functionCode" (.lit 2 .u8))
      (.assign "req.functionCode" (.lit 1 .u8)))
  (.seq (.bindCall ["res", "err"] "mc.executeRequest" [.var "req" .other]) .ret)))))

/-- the classic wrap: addr = 65535, quantity = 2. The model and the generated source reject; the
    variant sends function code 1 -/
theorem C01S_sensitive_wrap16 :
    verdict none (exec preOracle 64 readBools_wrap16 (coreEnv (.readBools false 65535 2))) = .sends 1 ∧
    verdict none (exec preOracle 64 gs_ModbusClient_readBools (coreEnv (.readBools false 65535 2)))
      = .rejected ∧
    modelVerdict (.readBools false 65535 2) = .rejected := by
  decide +kernel

/-- writeRegisters up to the hand-over, with the register limit checked on the TRUNCATED
    uint16 count (`quantity > 123`), the F1 pattern -/
def writeRegisters_trunc16 : GStmt :=
  .seq (.assign "payloadLength" (.conv .u16 (.var "len(values)" .int)))
  (.seq (.assign "quantity" (.bin "/" .u16 (.var "payloadLength" .u16) (.lit 2 .u16)))
  (.seq (guardRet (.cmp "==" (.var "quantity" .u16) (.lit 0 .u16)))
  (.seq (guardRet (.cmp ">" (.var "quantity" .u16) (.lit 123 .u16)))
  (.seq (guardRet (.cmp ">" (.bin "-" .u32 (.bin "+" .u32 (.conv .u32 (.var "addr" .u16))
      (.conv .u32 (.var "quantity" .u16))) (.lit 1 .u32)) (.lit 65535 .u32)))
  (.seq (.assign "req" (.call "&pdu{ unitId: mc.unitId, functionCode: fcWriteMultipleRegisters, }" .other))
  (.seq (.bindCall ["res", "err"] "mc.executeRequest" [.var "req" .other]) .ret))))))

/-- 131072 + 2·k bytes for k = 1 … 123 (here 131074: 16-bit length 2, one register): the variant
    sends function code 16; the generated source rejects — and so does the model for EVERY
    payload of that length (by `C01S_core_checks`) -/
theorem C01S_sensitive_F1 :
    verdict (staticFc writeRegisters_trunc16)
      (exec preOracle 64 writeRegisters_trunc16
        [("addr", .int 0), ("len(values)", .int 131074), ("err", .sym "nil")]) = .sends 16 ∧
    verdict (staticFc gs_ModbusClient_writeRegisters)
      (exec preOracle 64 gs_ModbusClient_writeRegisters
        [("addr", .int 0), ("len(values)", .int 131074), ("err", .sym "nil")]) = .rejected ∧
    ∀ p : Bytes, p.length = 131074 → modelVerdict (.writeRegs 0 p) = .rejected := by
  refine ⟨by decide +kernel, by decide +kernel, ?_⟩
  intro p hp
  have h := C01S_core_checks (.writeRegs 0 p) (by simp only [coreInRange, hp]; decide) 64 (Nat.le_refl _)
  rw [← h]
  simp only [coreStmt, coreEnv, hp]
  decide +kernel

/-- the whole range of the F1 pattern at once, symbolically: for every payload length
    `131072·m + 2·k`, m ≥ 1, 1 ≤ k ≤ 123 (and addr small enough) the variant sends while the
    generated source rejects -/
theorem C01S_sensitive_F1_all (m k : Nat) (hm : 1 ≤ m) (hk1 : 1 ≤ k) (hk : k ≤ 123)
    (hn : 131072 * m + 2 * k < 2^63) :
    verdict (some 16) (exec preOracle 64 writeRegisters_trunc16
        [("addr", .int 0), ("len(values)", .int ((131072 * m + 2 * k : Nat) : Int)), ("err", .sym "nil")])
      = .sends 16 ∧
    verdict (staticFc gs_ModbusClient_writeRegisters) (exec preOracle 64 gs_ModbusClient_writeRegisters
        [("addr", .int 0), ("len(values)", .int ((131072 * m + 2 * k : Nat) : Int)), ("err", .sym "nil")])
      = .rejected := by
  rw [staticFc_writeRegisters]
  generalize hN : 131072 * m + 2 * k = N at hn
  have h0 : (0:Int) ≤ (N : Int) % 65536 := by omega
  have h1 : (0:Int) ≤ (N : Int) := by omega
  constructor
  · go_verdict [writeRegisters_trunc16, guardRet, tdiv_of_nonneg _ h0, tdiv_of_nonneg _ h1]
    repeat' split
    all_goals first | rfl | (exfalso; omega)
  · go_verdict [gs_ModbusClient_writeRegisters, tdiv_of_nonneg _ h0, tdiv_of_nonneg _ h1]
    repeat' split
    all_goals first | rfl | (exfalso; omega)

end Modbus.Props.C01

#print axioms Modbus.Props.C01.C01S_core_checks
#print axioms Modbus.Props.C01.C01S_readBools_checks
#print axioms Modbus.Props.C01.C01S_readRegisters_checks
#print axioms Modbus.Props.C01.C01S_WriteCoil_checks
#print axioms Modbus.Props.C01.C01S_WriteCoils_checks
#print axioms Modbus.Props.C01.C01S_WriteRegister_checks
#print axioms Modbus.Props.C01.C01S_writeRegisters_checks
#print axioms Modbus.Props.C01.C01S_staticFc
#print axioms Modbus.Props.C01.checks_spelled
#print axioms Modbus.Props.C01.C01S_wrapper_args_read
#print axioms Modbus.Props.C01.C01S_wrapper_args_write1
#print axioms Modbus.Props.C01.C01S_wrapper_args_writeMany
#print axioms Modbus.Props.C01.C01S_wrapper_args_WriteBytes
#print axioms Modbus.Props.C01.C01S_wrapper_args_writeBytes
#print axioms Modbus.Props.C01.C01S_writeBytesPayload_noswap
#print axioms Modbus.Props.C01.C01S_call_table
#print axioms Modbus.Props.C01.C01S_prefix_not_stale
#print axioms Modbus.Props.C01.C01S_sensitive_wrap16
#print axioms Modbus.Props.C01.C01S_sensitive_F1
#print axioms Modbus.Props.C01.C01S_sensitive_F1_all
#print axioms Modbus.GoEval.execFrom_mono
#print axioms Modbus.GoEval.strConsts_distinct
