/-
  C10 (locking part, control-flow-sensitive) — `ModbusServer`'s shared state (`started`,
  `tcpListener`, `tcpClients`) is race-free: `Start`/`Stop` called from any number of goroutines, the
  accept goroutines and the per-connection handler goroutines, every path through every method, under
  every schedule.

  `Props/C10Locks.lean` feeds LINEAR tables to the lockset checker and trusts that "every branch's
  accesses are listed" in a straight line, and that one pass over the accept loop's body stands for
  the loop.  Here the translator only renders the control structure (`Modbus.Gen.flowTables`,
  /verif/extract/flow.go), and `LockFlow.analyze` — proved sound w.r.t. the path semantics
  `LockFlow.Exec` in `Lemmas/LockFlowLemmas.lean` (`analyze_sound`) — follows every path: the accept
  loop is a real loop (one execution of `acceptTCPClients` = any number of iterations, with its
  `continue` and `return` paths), the removal loop of `handleTCPClient` with its `break` runs inside
  the critical section, `handleTransport`'s nested `for`/`switch` with `break`s is followed as such.

  Thread entry points: the exported methods `Start`, `Stop`, and every target of a `go` statement
  (`acceptTCPClients`, `handleTCPClient`), which start WITHOUT the mutex.
  `C10F_spawned_are_entries`: every goroutine spawned along any execution runs one of these.

  Trusted: that the translator's rendering is faithful (what it does not understand is `stuck`,
  which the analysis rejects; `C10F_agrees_with_linear` cross-checks it against the independent
  linear translator), and that goroutines interact with the server object only through its methods.
-/
import ModbusVerif.Generated.Facts
import ModbusVerif.Model.LockFlow
import ModbusVerif.Lemmas.LockFlowLemmas
import ModbusVerif.Props.C10Locks

namespace Modbus.Props.C10
open Modbus Modbus.Locking Modbus.LockFlow

/-! ### from the generated flows to the analysis' input (computed, not copied) -/

/-- own copy of the structure; the targets of `call`/`go` get the table's key prefix -/
def C10F_convFlow (pre : String) : Gen.Flow → Flow
  | .skip => .skip
  | .act k n => .act (convKind k) (qualify pre (convKind k) n)
  | .seq a b => .seq (C10F_convFlow pre a) (C10F_convFlow pre b)
  | .alt a b => .alt (C10F_convFlow pre a) (C10F_convFlow pre b)
  | .loop b => .loop (C10F_convFlow pre b)
  | .block b => .block (C10F_convFlow pre b)
  | .ret => .ret
  | .brk => .brk
  | .cont => .cont
  | .deferRel => .deferRel
  | .stuck w => .stuck w

/-- the translator's flows for `ModbusServer` (keys "ModbusServer.…") -/
def serverFlows : Table :=
  (selectType "ModbusServer." Gen.flowTables).map
    (fun p => (p.1, C10F_convFlow "ModbusServer." p.2))

/-- exported methods: the name after "ModbusServer." starts with an upper-case letter -/
def serverFlowPublic : List String :=
  (serverFlows.map (·.1)).filter (isExportedAfter "ModbusServer.")

/-- thread entry points: the exported methods and every target of a `go` statement -/
def serverFlowEntries : List String := serverFlowPublic ++ goTargetsF serverFlows

/-- what the mutex protects, computed from the flows: the fields written by some method -/
def serverFlowMutable : List String := mutableFieldsF serverFlows

/-- call depth available to the analysis
    (handleTCPClient → startTLS → extractRole is the deepest chain) -/
def flowFuel : Nat := 4

/-! ### the analysis accepts the server -/

/-- F1 — every server thread entry passes the flow-sensitive analysis: on EVERY path it takes the
    mutex before it touches a mutable field, never locks while holding, never unlocks while not
    holding, and every return / end of body is not holding once the deferred unlock has run; no
    `stuck`, no unknown callee, call depth within `flowFuel`, every loop invariant found. -/
theorem C10F_flows_ok :
    checkEntries serverFlows serverFlowMutable flowFuel serverFlowEntries = true := by
  decide +kernel

/-- F1 in the terms of `LockFlow.analyze`: for every entry the analysis from the single state
    "not holding, nothing deferred" succeeds, and every exit state is not holding -/
theorem C10F_flows_ok_analyze (m : String) (hm : m ∈ serverFlowEntries) :
    ∃ body out, lookupF serverFlows m = some body ∧
      analyzeT serverFlows serverFlowMutable flowFuel body (SSet.single false false) = some out ∧
      out.brk.isEmpty = true ∧ out.cont.isEmpty = true ∧
      (out.fall.union out.ret).hn = false ∧ (out.fall.union out.ret).nd = false :=
  entryCheck_iff.mp (List.all_eq_true.mp C10F_flows_ok m hm)

/-- F2 — the mutable-field list computed from the flows is the one computed from the linear tables
    (`C10_mutable_fields`) -/
theorem C10F_mutable_fields :
    serverFlowMutable = serverMutable ∧
    serverFlowMutable = ["tcpListener", "started", "tcpClients"] := by
  decide +kernel

/-- the same methods and the same thread entry points as in the linear tables (`C10_entries`) -/
theorem C10F_entries :
    serverFlows.map (·.1) = serverProg.map (·.1) ∧
    serverFlowEntries = serverEntries ∧
    serverFlowEntries =
      ["ModbusServer.Start", "ModbusServer.Stop",
       "ModbusServer.acceptTCPClients", "ModbusServer.handleTCPClient"] := by
  decide +kernel

/-- no server method contains anything the translator did not understand -/
theorem C10F_no_stuck : serverFlows.all (fun p => !hasStuck p.2) = true := by
  decide +kernel

/-- the helpers that run without the mutex are accepted from "not holding" too (they touch no
    mutable field and perform no lock operation on any path) -/
theorem C10F_unlocked_helpers :
    checkEntries serverFlows serverFlowMutable flowFuel
      ["ModbusServer.handleTransport", "ModbusServer.startTLS", "ModbusServer.extractRole"] =
      true := by
  decide +kernel

/-! ### every execution of every entry passes the linear checker -/

/-- F3 — any complete execution of any thread entry (any path, any loop counts, calls inlined to
    any depth, deferred unlock performed at exit) is an entry in the sense of the linear checker -/
theorem C10F_method_runs_ok {m : String} (hm : m ∈ serverFlowEntries) {tr : List Act}
    (hr : MethodRun serverFlows m tr) : entryOk serverFlowMutable (steps tr) = true :=
  entryCheck_sound (List.all_eq_true.mp C10F_flows_ok m hm) hr

/-- F3' — every goroutine spawned along a complete execution of ANY server method runs a checked
    thread entry: each `go m` left in the trace has `m ∈ serverFlowEntries` -/
theorem C10F_spawned_are_entries {m : String} {tr : List Act}
    (hr : MethodRun serverFlows m tr) : ∀ g, (⟨.go, g⟩ : Act) ∈ tr → g ∈ serverFlowEntries :=
  go_targets_are_entries (by decide +kernel) hr

/-- F4 — no race, mutual exclusion, critical sections not interleaved: any number of goroutines
    (`work.length`), goroutine k performing the traces `work[k]` one after the other, each trace
    being ANY complete execution of some thread entry (callers of `Start`/`Stop`, accept loops,
    connection handlers); any schedule. -/
theorem C10F_no_race_server (work : List (List (List Act)))
    (hw : ∀ ts ∈ work, ∀ t ∈ ts, ∃ m ∈ serverFlowEntries, MethodRun serverFlows m t)
    (sched : List Nat) :
    -- no two goroutines are ever about to perform conflicting accesses to a mutable field
    ¬ RaceAt serverFlowMutable (run (initWork work) sched) ∧
    -- at most one goroutine is inside a critical section
    (∀ (i j : Nat) (ti tj : Thread),
        (run (initWork work) sched).threads[i]? = some ti →
        (run (initWork work) sched).threads[j]? = some tj →
        ti.holding = true → tj.holding = true → i = j) ∧
    -- while goroutine i is inside a critical section nobody else locks, unlocks or touches a
    -- mutable field (the admission test-and-append on `tcpClients` in the accept loop and the
    -- removal loop in `handleTCPClient` are atomic w.r.t. each other and w.r.t. `Stop`)
    (∀ i pre mid rest,
        trace (initWork work) sched = pre ++ (i, Step.acq) :: (mid ++ rest) →
        (i, Step.rel) ∉ mid →
        ∀ p ∈ mid, p.1 ≠ i → p.2 ≠ .acq ∧ p.2 ≠ .rel ∧ ¬ p.2.touchesMut serverFlowMutable) := by
  refine ⟨flows_no_race C10F_flows_ok work hw sched, ?_, ?_⟩
  · intro i j ti tj hi hj hhi hhj
    exact flows_mutex_exclusive C10F_flows_ok work hw sched hi hj hhi hhj
  · intro i pre mid rest htr hnorel
    exact flows_sections_contiguous C10F_flows_ok work hw sched htr hnorel

/-! ### the two translators agree -/

/-- lock operations are compared by kind only (the linear tables name the deferred unlock
    "lock(deferred)") -/
def C10F_norm (p : AK × String) : AK × String :=
  match p.1 with
  | .acq => (.acq, "")
  | .rel => (.rel, "")
  | _ => p

/-- equal as sets -/
def C10F_sameSet (a b : List (AK × String)) : Bool :=
  a.all (fun x => b.contains x) && b.all (fun x => a.contains x)

/-- F5 — for every server method, the set of (kind, name) actions occurring anywhere in its flow
    (`deferRel` counted as a `rel`) equals the set occurring in its linear table
    `Gen.accessTables`.  (No differences.) -/
theorem C10F_agrees_with_linear :
    serverFlows.all (fun p =>
      match lookup serverProg p.1 with
      | none => false
      | some lin =>
        C10F_sameSet ((actsIn p.2).map C10F_norm)
          (lin.map (fun a => C10F_norm (a.kind, a.name)))) = true := by
  decide +kernel

/-! ### non-vacuity and sensitivity -/

/-- replace the body of method `m` -/
def C10F_withBody (tbl : Table) (m : String) (body : Flow) : Table :=
  tbl.map (fun p => if p.1 = m then (m, body) else p)

def C10F_bodyOf (m : String) : Flow := (lookupF serverFlows m).getD (.stuck "missing")

/-- (c) the bug that was fixed (F5): the accept loop as it was — `ms.tcpListener.Accept()` reads the
    field without the mutex at the top of every iteration while `Start` writes it under the mutex -/
def C10F_oldAccept : Table :=
  C10F_withBody serverFlows "ModbusServer.acceptTCPClients"
    (.block (.loop (.seq (.act .rd "tcpListener")
      (.seq (.act .acq "lock") (.seq (.act .rd "tcpClients") (.act .rel "lock"))))))

example : checkEntries C10F_oldAccept serverFlowMutable flowFuel serverFlowEntries = false := by
  decide +kernel

/-- … and the analysis names the offender -/
example :
    serverFlowEntries.filter (fun m => !entryCheck C10F_oldAccept serverFlowMutable flowFuel m) =
      ["ModbusServer.acceptTCPClients"] := by
  decide +kernel

/-- a path-sensitive variant the linear scan cannot see: the accept loop unlocking only on the
    accepting branch (`if accepted { append; unlock }`) — the next iteration locks again while
    holding -/
example :
    entryCheck
      (C10F_withBody serverFlows "ModbusServer.acceptTCPClients"
        (.block (.loop (.seq (.act .acq "lock") (.seq (.act .rd "tcpClients")
          (.alt (.seq (.act .wr "tcpClients") (.act .rel "lock")) .skip))))))
      serverFlowMutable flowFuel "ModbusServer.acceptTCPClients" = false := by
  decide +kernel

/-- a helper that runs without the mutex must not touch a mutable field: `handleTransport` peeking
    at `started` in one `switch` arm — rejected through its caller `handleTCPClient` -/
example :
    entryCheck
      (C10F_withBody serverFlows "ModbusServer.handleTransport"
        (.block (.loop (.block (.alt (.act .rd "handler") (.alt (.act .rd "started") .brk))))))
      serverFlowMutable flowFuel "ModbusServer.handleTCPClient" = false := by
  decide +kernel

/-- (b) locking twice: `Stop` calling `Start` with the mutex held — rejected -/
example :
    entryCheck
      (C10F_withBody serverFlows "ModbusServer.Stop"
        (.seq (.act .acq "lock") (.seq .deferRel (.seq (.act .wr "started")
          (.seq (.act .call "ModbusServer.Start") .ret)))))
      serverFlowMutable flowFuel "ModbusServer.Stop" = false := by
  decide +kernel

/-- `break` leaving the removal loop of `handleTCPClient` BEFORE the unlock that follows the loop is
    what the real flow does (accepted, F1); if the `break` arm also unlocked, the unlock after the
    loop would be a second one — rejected -/
example :
    entryCheck
      (C10F_withBody serverFlows "ModbusServer.handleTCPClient"
        (.seq (.act .acq "lock") (.seq (.block (.loop (.seq (.act .rd "tcpClients")
          (.alt (.seq (.act .wr "tcpClients") (.seq (.act .rel "lock") .brk)) .skip))))
          (.seq (.act .rel "lock") .ret))))
      serverFlowMutable flowFuel "ModbusServer.handleTCPClient" = false := by
  decide +kernel

/-- a spawned method starts WITHOUT the mutex even when spawned from inside a critical section:
    `acceptTCPClients` is analysed as an entry from "not holding" (F1), not inlined into `Start` -/
example : "ModbusServer.acceptTCPClients" ∈ goIn (C10F_bodyOf "ModbusServer.Start") ∧
    "ModbusServer.handleTCPClient" ∈ goIn (C10F_bodyOf "ModbusServer.acceptTCPClients") := by
  decide +kernel

/-- the hypothesis of F4 is satisfiable and covers loops: an execution of a toy accept loop doing two
    iterations and then returning is ONE `MethodRun` -/
example :
    MethodRun
      [("a", .block (.loop (.seq (.alt .ret .skip)
        (.seq (.act .acq "lock") (.seq (.act .wr "tcpClients") (.act .rel "lock"))))))]
      "a"
      [⟨.acq, "lock"⟩, ⟨.wr, "tcpClients"⟩, ⟨.rel, "lock"⟩,
       ⟨.acq, "lock"⟩, ⟨.wr, "tcpClients"⟩, ⟨.rel, "lock"⟩] := by
  refine ⟨_, rfl, .ret, 0, _, ?_, (List.append_nil _).symm⟩
  have iter : ∀ d, Exec
      [("a", .block (.loop (.seq (.alt .ret .skip)
        (.seq (.act .acq "lock") (.seq (.act .wr "tcpClients") (.act .rel "lock"))))))]
      (.seq (.alt .ret .skip)
        (.seq (.act .acq "lock") (.seq (.act .wr "tcpClients") (.act .rel "lock"))))
      d .fall d ([] ++ ([⟨.acq, "lock"⟩] ++ ([⟨.wr, "tcpClients"⟩] ++ [⟨.rel, "lock"⟩]))) :=
    fun d => .seqFall (.altR .skip)
      (.seqFall (.prim (by decide)) (.seqFall (.prim (by decide)) (.prim (by decide))))
  have h := Exec.blockOther (Exec.loopIter (iter 0) (Or.inl rfl)
    (Exec.loopIter (iter 0) (Or.inl rfl)
      (Exec.loopExit (Exec.seqExit (Exec.altL Exec.ret) (by decide)) (Or.inr rfl)))) (by decide)
  simpa using h

end Modbus.Props.C10

#print axioms Modbus.Props.C10.C10F_flows_ok
#print axioms Modbus.Props.C10.C10F_flows_ok_analyze
#print axioms Modbus.Props.C10.C10F_mutable_fields
#print axioms Modbus.Props.C10.C10F_entries
#print axioms Modbus.Props.C10.C10F_no_stuck
#print axioms Modbus.Props.C10.C10F_unlocked_helpers
#print axioms Modbus.Props.C10.C10F_method_runs_ok
#print axioms Modbus.Props.C10.C10F_spawned_are_entries
#print axioms Modbus.Props.C10.C10F_no_race_server
#print axioms Modbus.Props.C10.C10F_agrees_with_linear
#print axioms Modbus.LockFlow.analyze_sound
