import ModbusVerif.Spec.ConfigSpec
/-
  C16 — configuration: every URL string and every combination of zero / non-zero optional
  fields gives the documented mode (socket + framing), the documented defaults, or
  ErrConfigurationError; SetEncoding accepts exactly the documented selectors.
-/
namespace Modbus.Props.C16
open Modbus.Config Modbus.Spec.Config

/-! ### `strings.SplitN(s, "://", 2)`: the first occurrence -/

theorem sep_not_infix_short {l : List Char} (h : l.length < 3) : ¬ sep <:+: l := by
  intro hi
  have := hi.length_le
  simp [sep] at this
  omega

/-- one part only iff "://" does not occur at all -/
theorem splitSep_none (s : List Char) : splitSep s = none ↔ ¬ sep <:+: s := by
  induction s with
  | nil => simp [splitSep, sep]
  | cons c cs ih =>
    rw [splitSep, List.infix_cons_iff]
    by_cases hp : sep.isPrefixOf (c :: cs) = true
    · simp [hp, List.isPrefixOf_iff_prefix.mp hp]
    · have hp' : ¬ sep <+: c :: cs := fun h => hp (List.isPrefixOf_iff_prefix.mpr h)
      simp only [hp, if_false, hp', false_or, Bool.false_eq_true]
      rw [← ih]
      cases splitSep cs with
      | none => simp
      | some p => simp

/-- (6) `splitSep s = (a, b)` iff `s = a ++ "://" ++ b` and "://" does not occur in `a ++ ":/"`,
    i.e. no occurrence starts before position `|a|`: the split is at the FIRST occurrence -/
theorem splitSep_some (s a b : List Char) :
    splitSep s = some (a, b) ↔ s = a ++ sep ++ b ∧ ¬ sep <:+: a ++ [':', '/'] := by
  constructor
  · induction s generalizing a with
    | nil => simp [splitSep]
    | cons c cs ih =>
      rw [splitSep]
      by_cases hp : sep.isPrefixOf (c :: cs) = true
      · simp only [hp, if_true, Option.some.injEq, Prod.mk.injEq]
        rintro ⟨rfl, rfl⟩
        refine ⟨?_, sep_not_infix_short (by simp)⟩
        have := List.prefix_iff_eq_append.mp (List.isPrefixOf_iff_prefix.mp hp)
        simpa [sep] using this.symm
      · have hp' : ¬ sep <+: c :: cs := fun h => hp (List.isPrefixOf_iff_prefix.mpr h)
        simp only [hp, if_false, Bool.false_eq_true]
        cases hc : splitSep cs with
        | none => simp
        | some p =>
          obtain ⟨a', b'⟩ := p
          simp only [Option.some.injEq, Prod.mk.injEq]
          rintro ⟨rfl, rfl⟩
          obtain ⟨h1, h2⟩ := ih a' hc
          refine ⟨by simp [h1], ?_⟩
          rw [List.cons_append, List.infix_cons_iff]
          rintro (h | h)
          · apply hp'
            have := List.prefix_append_of_prefix (l₃ := '/' :: b') h
            simpa [h1, sep] using this
          · exact h2 h
  · rintro ⟨rfl, hn⟩
    induction a with
    | nil => simp [splitSep, sep]
    | cons c a' ih =>
      rw [List.cons_append, List.infix_cons_iff] at hn
      have hp' : ¬ sep <+: c :: (a' ++ sep ++ b) := by
        intro h
        apply hn; left
        refine List.prefix_of_prefix_length_le h (l₂ := c :: (a' ++ [':', '/'])) ?_ (by simp [sep])
        simp [sep]
      have hp : ¬ sep.isPrefixOf (c :: (a' ++ sep ++ b)) = true :=
        fun h => hp' (List.isPrefixOf_iff_prefix.mp h)
      rw [List.cons_append, List.cons_append, splitSep]
      simp only [hp, if_false, Bool.false_eq_true]
      rw [ih (fun h => hn (Or.inr h))]

/-- minimality: no decomposition `a' ++ "://" ++ b'` of the string has a shorter first part -/
theorem splitSep_first {s a b a' b' : List Char} (h : splitSep s = some (a, b))
    (h' : s = a' ++ sep ++ b') : a.length ≤ a'.length := by
  obtain ⟨h1, h2⟩ := (splitSep_some s a b).mp h
  apply Nat.le_of_not_lt
  intro hlt
  apply h2
  have p1 : a' ++ sep <+: s := by rw [h']; exact List.prefix_append _ _
  have p2 : a ++ [':', '/'] <+: s := by
    rw [h1]; exact ⟨'/' :: b, by simp [sep]⟩
  have p3 : a' ++ sep <+: a ++ [':', '/'] :=
    List.prefix_of_prefix_length_le p1 p2 (by simp [sep]; omega)
  exact (List.infix_append' a' sep []).trans (by simpa using p3.isInfix)

theorem splitScheme_some (s a b : String) :
    splitScheme s = some (a, b) ↔
      s.toList = a.toList ++ sep ++ b.toList ∧ ¬ sep <:+: a.toList ++ [':', '/'] := by
  rw [← splitSep_some, splitScheme]
  cases h : splitSep s.toList with
  | none => simp
  | some p =>
    obtain ⟨x, y⟩ := p
    simp only [Option.some.injEq, Prod.mk.injEq]
    constructor
    · rintro ⟨rfl, rfl⟩; simp
    · rintro ⟨rfl, rfl⟩; simp

theorem splitScheme_none (s : String) : splitScheme s = none ↔ ¬ sep <:+: s.toList := by
  rw [← splitSep_none, splitScheme]
  cases h : splitSep s.toList with
  | none => simp
  | some p => simp

theorem splitScheme_eq_append {s a b : String} (h : splitScheme s = some (a, b)) :
    s = a ++ "://" ++ b := by
  rw [String.ext_iff, String.toList_append, String.toList_append]
  exact ((splitScheme_some s a b).mp h).1

theorem scheme_cases (scheme : String) :
    scheme = "rtu" ∨ scheme = "rtuovertcp" ∨ scheme = "rtuoverudp" ∨ scheme = "tcp"
      ∨ scheme = "tcp+tls" ∨ scheme = "udp" ∨ scheme ∉ clientSchemes := by
  simp only [clientSchemes, List.mem_cons, List.not_mem_nil, or_false]
  by_cases h1 : scheme = "rtu" <;> by_cases h2 : scheme = "rtuovertcp" <;>
  by_cases h3 : scheme = "rtuoverudp" <;> by_cases h4 : scheme = "tcp" <;>
  by_cases h5 : scheme = "tcp+tls" <;> by_cases h6 : scheme = "udp" <;> simp [*]

/-- (1) NewClient succeeds exactly for the six schemes (case-sensitive, split at the first "://"),
    tcp+tls needing both the client certificate and the root CAs -/
theorem C16_client_ok_iff (conf : ClientConf) :
    (∃ st, newClient conf = .ok st) ↔
      ∃ scheme rest, splitScheme conf.url = some (scheme, rest) ∧ scheme ∈ clientSchemes ∧
        (scheme = "tcp+tls" → conf.hasCert = true ∧ conf.hasRoots = true) := by
  unfold newClient
  cases hs : splitScheme conf.url with
  | none => simp
  | some p =>
    obtain ⟨scheme, rest⟩ := p
    simp only [Option.some.injEq, Prod.mk.injEq]
    rcases scheme_cases scheme with h | h | h | h | h | h | h
    all_goals first
      | (subst h; cases hc : conf.hasCert <;> cases hr : conf.hasRoots <;> simp [clientSchemes])
      | skip
    have h' := h
    simp only [clientSchemes, List.mem_cons, List.not_mem_nil, or_false, not_or] at h'
    obtain ⟨h1, h2, h3, h4, h5, h6⟩ := h'
    simp only [h1, h2, h3, h4, h5, h6, if_false]
    constructor
    · rintro ⟨st, hst⟩; cases hst
    · rintro ⟨s', r', ⟨rfl, rfl⟩, hm, _⟩; exact absurd hm h

theorem newClient_error {conf : ClientConf} {e : Err} (h : newClient conf = .error e) :
    e = .configuration := by
  unfold newClient at h
  repeat' split at h
  all_goals first | (cases h; rfl) | cases h

/-- (1) ... and every other configuration is refused with ErrConfigurationError -/
theorem C16_client_refused (conf : ClientConf)
    (h : ¬ ∃ scheme rest, splitScheme conf.url = some (scheme, rest) ∧ scheme ∈ clientSchemes ∧
        (scheme = "tcp+tls" → conf.hasCert = true ∧ conf.hasRoots = true)) :
    newClient conf = .error .configuration := by
  rw [← C16_client_ok_iff] at h
  cases hn : newClient conf with
  | ok st => exact absurd ⟨st, hn⟩ h
  | error e => rw [newClient_error hn]

/-- the documented mode of a successfully created client -/
theorem C16_client_wiring {conf : ClientConf} {st : ClientState} (h : newClient conf = .ok st) :
    ∃ scheme rest, splitScheme conf.url = some (scheme, rest) ∧ st.url = rest ∧
      modeOf scheme = some { scheme := scheme, kind := st.kind, socket := (openWiring st.kind).1,
                             framing := (openWiring st.kind).2.1 } := by
  unfold newClient at h
  cases hs : splitScheme conf.url with
  | none => simp [hs] at h
  | some p =>
    obtain ⟨scheme, rest⟩ := p
    refine ⟨scheme, rest, rfl, ?_⟩
    simp only [hs] at h
    repeat' split at h
    all_goals first
      | (cases h; subst_vars; exact ⟨rfl, by simp [modeOf, clientModes, openWiring]⟩)
      | cases h

/-- (3) defaults apply to zero fields only, per scheme; explicit values are kept -/
theorem C16_client_defaults {conf : ClientConf} {st : ClientState} {scheme rest : String}
    (hs : splitScheme conf.url = some (scheme, rest)) (h : newClient conf = .ok st) :
    st.timeoutNs = (if conf.timeoutNs ≠ 0 then conf.timeoutNs else defaultTimeoutNs scheme) ∧
    (scheme ∈ rtuSchemes → st.speed = if conf.speed ≠ 0 then conf.speed else defaultSpeed) ∧
    (scheme ∉ rtuSchemes → st.speed = conf.speed) ∧
    (scheme = "rtu" →
      st.dataBits = (if conf.dataBits ≠ 0 then conf.dataBits else defaultDataBits) ∧
      st.stopBits = (if conf.stopBits ≠ 0 then conf.stopBits else defaultStopBits conf.parity)) ∧
    (scheme ≠ "rtu" → st.dataBits = conf.dataBits ∧ st.stopBits = conf.stopBits) ∧
    st.parity = conf.parity ∧
    st.unitId = 1 ∧ st.endian = .big ∧ st.word = .highFirst := by
  unfold newClient at h
  simp only [hs] at h
  repeat' split at h
  all_goals first
    | (cases h; subst_vars
       simp [orDefault, defaultTimeoutNs, rtuSchemes, defaultSpeed, defaultDataBits,
             defaultStopBits, ms, second, *])
    | cases h

/-! ### server -/

theorem C16_server_ok_iff (conf : ServerConf) :
    (∃ st, newServer conf = .ok st) ↔
      ∃ scheme rest, splitScheme conf.url = some (scheme, rest) ∧ rest ≠ "" ∧
        scheme ∈ serverSchemes ∧
        (scheme = "tcp+tls" → conf.hasCert = true ∧ conf.hasCAs = true) := by
  unfold newServer
  cases hs : splitScheme conf.url with
  | none => simp
  | some p =>
    obtain ⟨scheme, rest⟩ := p
    simp only [serverSchemes, List.mem_cons, List.not_mem_nil, or_false]
    constructor
    · rintro ⟨st, h⟩
      refine ⟨scheme, rest, rfl, ?_⟩
      repeat' split at h
      all_goals first | (cases h; done) | simp_all
    · rintro ⟨s', r', heq, hr, hm, ht⟩
      cases heq
      rcases hm with rfl | rfl
      · simp [hr]
      · simp [hr, ht rfl]

theorem newServer_error {conf : ServerConf} {e : Err} (h : newServer conf = .error e) :
    e = .configuration := by
  unfold newServer at h
  repeat' split at h
  all_goals first | (cases h; rfl) | cases h

theorem C16_server_refused (conf : ServerConf)
    (h : ¬ ∃ scheme rest, splitScheme conf.url = some (scheme, rest) ∧ rest ≠ "" ∧
        scheme ∈ serverSchemes ∧
        (scheme = "tcp+tls" → conf.hasCert = true ∧ conf.hasCAs = true)) :
    newServer conf = .error .configuration := by
  rw [← C16_server_ok_iff] at h
  cases hn : newServer conf with
  | ok st => exact absurd ⟨st, hn⟩ h
  | error e => rw [newServer_error hn]

theorem C16_server_values {conf : ServerConf} {st : ServerState} {scheme rest : String}
    (hs : splitScheme conf.url = some (scheme, rest)) (h : newServer conf = .ok st) :
    st.url = rest ∧ (st.tls = true ↔ scheme = "tcp+tls") ∧
    st.timeoutNs = (if conf.timeoutNs ≠ 0 then conf.timeoutNs else serverDefaultTimeoutNs) ∧
    st.maxClients = (if conf.maxClients ≠ 0 then conf.maxClients else serverDefaultMaxClients) := by
  unfold newServer at h
  simp only [hs] at h
  repeat' split at h
  all_goals first
    | (cases h; subst_vars
       simp [orDefault, serverDefaultTimeoutNs, serverDefaultMaxClients, second, *])
    | cases h

/-- the five-part statement of the task in one theorem -/
theorem C16_server (conf : ServerConf) :
    ((∃ st, newServer conf = .ok st) ↔
      ∃ scheme rest, splitScheme conf.url = some (scheme, rest) ∧ rest ≠ "" ∧
        scheme ∈ serverSchemes ∧
        (scheme = "tcp+tls" → conf.hasCert = true ∧ conf.hasCAs = true)) ∧
    ((¬ ∃ st, newServer conf = .ok st) → newServer conf = .error .configuration) ∧
    (∀ st scheme rest, splitScheme conf.url = some (scheme, rest) → newServer conf = .ok st →
      st.url = rest ∧ (st.tls = true ↔ scheme = "tcp+tls") ∧
      st.timeoutNs = (if conf.timeoutNs ≠ 0 then conf.timeoutNs else 120000000000) ∧
      st.maxClients = (if conf.maxClients ≠ 0 then conf.maxClients else 10)) := by
  refine ⟨C16_server_ok_iff conf, ?_, fun st scheme rest hs h => C16_server_values hs h⟩
  intro h
  rw [C16_server_ok_iff] at h
  exact C16_server_refused conf h

/-! ### SetEncoding -/

/-- documented selector values: BIG_ENDIAN = 1, LITTLE_ENDIAN = 2 -/
def endianOf (e : Nat) : Endian := if e = 1 then .big else if e = 2 then .little else .invalid
/-- HIGH_WORD_FIRST = 1, LOW_WORD_FIRST = 2 -/
def wordOf (w : Nat) : WordOrder := if w = 1 then .highFirst else if w = 2 then .lowFirst else .invalid

theorem C16_selectors (st st' : ClientState) (e w : Nat) :
    setEncoding st e w = .ok st' ↔
      (e = 1 ∨ e = 2) ∧ (w = 1 ∨ w = 2) ∧
      st' = { st with endian := endianOf e, word := wordOf w } := by
  unfold setEncoding endianOf wordOf
  constructor
  · intro h
    repeat' split at h
    all_goals first
      | (cases h; done)
      | (cases h; refine ⟨by omega, by omega, ?_⟩; simp [*]; done)
      | (cases h; refine ⟨by omega, by omega, ?_⟩; simp [*]; omega)
  · rintro ⟨he, hw, rfl⟩
    rcases he with rfl | rfl <;> rcases hw with rfl | rfl <;> simp

theorem C16_selectors_refused (st : ClientState) (e w : Nat)
    (h : ¬ ((e = 1 ∨ e = 2) ∧ (w = 1 ∨ w = 2))) :
    setEncoding st e w = .error .unexpectedParameters := by
  unfold setEncoding
  repeat' split
  all_goals first | rfl | omega

/-- a successful SetEncoding never yields an invalid setting and touches nothing else -/
theorem C16_selectors_frame {st st' : ClientState} {e w : Nat} (h : setEncoding st e w = .ok st') :
    st'.kind = st.kind ∧ st'.url = st.url ∧ st'.speed = st.speed ∧ st'.dataBits = st.dataBits ∧
    st'.parity = st.parity ∧ st'.stopBits = st.stopBits ∧ st'.timeoutNs = st.timeoutNs ∧
    st'.unitId = st.unitId ∧ st'.endian ≠ .invalid ∧ st'.word ≠ .invalid := by
  obtain ⟨he, hw, rfl⟩ := (C16_selectors st st' e w).mp h
  rcases he with rfl | rfl <;> rcases hw with rfl | rfl <;> simp [endianOf, wordOf]

/-! ### Open: adapters; serial parity letter -/

theorem C16_wrappers (k : Client.Kind) :
    ((openWiring k).1 = .udp ↔ (openWiring k).2.2 = "udpSockWrapper") ∧
    ((openWiring k).1 = .tls ↔ (openWiring k).2.2 = "tlsSockWrapper") ∧
    ((openWiring k).1 = .serial ↔ (openWiring k).2.2 = "serialPortWrapper") ∧
    ((openWiring k).1 = .tcp ↔ (openWiring k).2.2 = "") ∧
    ((openWiring k).2.1 = .rtu ↔ k.isRtu = true) := by
  cases k <;> simp [openWiring, Client.Kind.isRtu]

theorem C16_parity (p : Nat) :
    (∀ l, (p, l) ∈ parityLetters → parityLetter p = l) ∧ (parityLetter p = "" ↔ 2 < p) := by
  unfold parityLetter
  constructor
  · intro l hl
    simp only [parityLetters, List.mem_cons, Prod.mk.injEq, List.not_mem_nil, or_false] at hl
    rcases hl with ⟨rfl, rfl⟩ | ⟨rfl, rfl⟩ | ⟨rfl, rfl⟩ <;> simp
  · repeat' split
    all_goals simp <;> omega

/-! ### non-vacuity -/

example : splitScheme "tcp://plc:502" = some ("tcp", "plc:502") := by decide
example : splitScheme "tcp://a://b" = some ("tcp", "a://b") := by decide
example : splitScheme "://x" = some ("", "x") := by decide
example : splitScheme "tcp:/x" = none := by decide
example : splitScheme "" = none := by decide
example : splitScheme "tcp://" = some ("tcp", "") := by decide

example : newClient { url := "tcp://plc:502" } =
    .ok { kind := .tcp, url := "plc:502", speed := 0, dataBits := 0, parity := 0, stopBits := 0,
          timeoutNs := 1000000000, unitId := 1, endian := .big, word := .highFirst } := by decide
example : newClient { url := "tcp://plc:502", timeoutNs := 5 } =
    .ok { kind := .tcp, url := "plc:502", speed := 0, dataBits := 0, parity := 0, stopBits := 0,
          timeoutNs := 5 } := by decide
/-- the scheme is case-sensitive -/
example : newClient { url := "TCP://x" } = .error .configuration := by decide
example : newClient { url := "tcp:/x" } = .error .configuration := by decide
example : newClient { url := "://x" } = .error .configuration := by decide
example : newClient { url := "plc:502" } = .error .configuration := by decide
example : newClient { url := " tcp://x" } = .error .configuration := by decide
example : newClient { url := "tcp+tls://h:802" } = .error .configuration := by decide
example : newClient { url := "tcp+tls://h:802", hasCert := true } = .error .configuration := by decide
example : newClient { url := "tcp+tls://h:802", hasRoots := true } = .error .configuration := by decide
example : newClient { url := "tcp+tls://h:802", hasCert := true, hasRoots := true } =
    .ok { kind := .tcpTls, url := "h:802", speed := 0, dataBits := 0, parity := 0, stopBits := 0,
          timeoutNs := 1000000000 } := by decide
example : newClient { url := "rtu:///dev/ttyUSB0", parity := 1 } =
    .ok { kind := .rtu, url := "/dev/ttyUSB0", speed := 19200, dataBits := 8, parity := 1,
          stopBits := 1, timeoutNs := 300000000 } := by decide
example : newClient { url := "rtu:///dev/ttyUSB0" } =
    .ok { kind := .rtu, url := "/dev/ttyUSB0", speed := 19200, dataBits := 8, parity := 0,
          stopBits := 2, timeoutNs := 300000000 } := by decide
example : newClient { url := "rtu:///dev/ttyUSB0", speed := 9600, dataBits := 7, parity := 2,
                      stopBits := 2, timeoutNs := 1 } =
    .ok { kind := .rtu, url := "/dev/ttyUSB0", speed := 9600, dataBits := 7, parity := 2,
          stopBits := 2, timeoutNs := 1 } := by decide
/-- an out-of-range parity value counts as "with parity": 1 stop bit, and no parity letter -/
example : (newClient { url := "rtu://x", parity := 3 }).toOption.map (·.stopBits) = some 1 ∧
    parityLetter 3 = "" := by decide
/-- the empty rest is accepted by the client (refused by the server only) -/
example : newClient { url := "tcp://" } =
    .ok { kind := .tcp, url := "", speed := 0, dataBits := 0, parity := 0, stopBits := 0,
          timeoutNs := 1000000000 } := by decide
example : newClient { url := "rtuovertcp://gw:4001" } =
    .ok { kind := .rtuOverTcp, url := "gw:4001", speed := 19200, dataBits := 0, parity := 0,
          stopBits := 0, timeoutNs := 1000000000 } := by decide
example : newClient { url := "rtuoverudp://gw:4001", speed := 115200 } =
    .ok { kind := .rtuOverUdp, url := "gw:4001", speed := 115200, dataBits := 0, parity := 0,
          stopBits := 0, timeoutNs := 1000000000 } := by decide
example : newClient { url := "udp://plc:502" } =
    .ok { kind := .udp, url := "plc:502", speed := 0, dataBits := 0, parity := 0,
          stopBits := 0, timeoutNs := 1000000000 } := by decide
example : newClient { url := "tcp://a://b" } =
    .ok { kind := .tcp, url := "a://b", speed := 0, dataBits := 0, parity := 0, stopBits := 0,
          timeoutNs := 1000000000 } := by decide

example : newServer { url := "tcp://[::]:502" } =
    .ok { tls := false, url := "[::]:502", timeoutNs := 120000000000, maxClients := 10 } := by decide
example : newServer { url := "tcp://[::]:502", timeoutNs := 7, maxClients := 3 } =
    .ok { tls := false, url := "[::]:502", timeoutNs := 7, maxClients := 3 } := by decide
/-- empty host part refused -/
example : newServer { url := "tcp://" } = .error .configuration := by decide
example : newServer { url := "" } = .error .configuration := by decide
example : newServer { url := "udp://x" } = .error .configuration := by decide
example : newServer { url := "rtu:///dev/ttyS0" } = .error .configuration := by decide
example : newServer { url := "localhost:502" } = .error .configuration := by decide
example : newServer { url := "tcp+tls://[::]:802", hasCert := true } = .error .configuration := by decide
example : newServer { url := "tcp+tls://[::]:802", hasCert := true, hasCAs := true } =
    .ok { tls := true, url := "[::]:802", timeoutNs := 120000000000, maxClients := 10 } := by decide

example : ∀ st : ClientState, st.endian = .big → st.word = .highFirst →
    setEncoding st 2 2 = .ok { st with endian := .little, word := .lowFirst } := by
  intro st _ _; simp [setEncoding]
example : setEncoding default 2 1 = .ok { (default : ClientState) with endian := .little, word := .highFirst } := by decide
example : setEncoding default 0 1 = .error .unexpectedParameters := by decide
example : setEncoding default 1 3 = .error .unexpectedParameters := by decide
example : (parityLetter 0, parityLetter 1, parityLetter 2) = ("N", "E", "O") := by decide
example : clientSchemes = clientModes.map (·.scheme) := by decide
example : clientModes.map (fun m => openWiring m.kind) =
    [(.serial, .rtu, "serialPortWrapper"), (.tcp, .rtu, ""), (.udp, .rtu, "udpSockWrapper"),
     (.tcp, .mbap, ""), (.tls, .mbap, "tlsSockWrapper"), (.udp, .mbap, "udpSockWrapper")] := by decide

#print axioms splitSep_some
#print axioms splitSep_none
#print axioms splitSep_first
#print axioms splitScheme_some
#print axioms splitScheme_none
#print axioms splitScheme_eq_append
#print axioms C16_client_ok_iff
#print axioms C16_client_refused
#print axioms C16_client_wiring
#print axioms C16_client_defaults
#print axioms C16_server_ok_iff
#print axioms C16_server_refused
#print axioms C16_server_values
#print axioms C16_server
#print axioms C16_selectors
#print axioms C16_selectors_refused
#print axioms C16_selectors_frame
#print axioms C16_wrappers
#print axioms C16_parity

end Modbus.Props.C16
