import ModbusVerif.Model.Skeleton
import ModbusVerif.Generated.Facts
/-
  C17 (continued) — the float entry points are compositions of the integer codecs with
  `math.Float32bits` / `Float32frombits` (/ 64), which are bit-exact by the Go specification.
  `Props/C17.lean` states the float laws on bit patterns (`BitVec 32/64`); this file decides, on
  skeletons regenerated from /repo/encoding.go on every run, that the four float functions do
  nothing else: one call of the integer codec with the SAME endianness / word-order arguments, the
  bit-cast applied to the value (encode) or to each decoded element in order (decode), and the
  result returned unchanged.
-/
namespace Modbus.Props.C17
open Modbus Skel

set_option maxRecDepth 100000

/-- `float32ToBytes(e, w, in) = uint32ToBytes(e, w, math.Float32bits(in))`, likewise 64 -/
theorem C17X_float_encode_is_composition :
    Gen.skeleton_float32ToBytes =
      [("params", "", ["endianness", "wordOrder", "in"]), ("results", "", ["out"]),
       ("call", "uint32ToBytes", ["endianness", "wordOrder", "math.Float32bits(..)"]),
       ("call", "math.Float32bits", ["in"]), ("bind", "uint32ToBytes", ["out"]), ("return", "", [])] ∧
    Gen.skeleton_float64ToBytes =
      [("params", "", ["endianness", "wordOrder", "in"]), ("results", "", ["out"]),
       ("call", "uint64ToBytes", ["endianness", "wordOrder", "math.Float64bits(..)"]),
       ("call", "math.Float64bits", ["in"]), ("bind", "uint64ToBytes", ["out"]), ("return", "", [])] := by
  decide +kernel

/-- `bytesToFloat32s(e, w, in)` = `bytesToUint32s(e, w, in)` mapped through `math.Float32frombits`
    element by element in order (`for _, u32 := range u32s { out = append(out, frombits(u32)) }`),
    likewise 64 -/
theorem C17X_float_decode_is_composition :
    Gen.skeleton_bytesToFloat32s =
      [("params", "", ["endianness", "wordOrder", "in"]), ("results", "", ["out"]),
       ("call", "bytesToUint32s", ["endianness", "wordOrder", "in"]), ("bind", "bytesToUint32s", ["u32s"]),
       ("loop", "u32s", []), ("call", "append", ["out", "math.Float32frombits(..)"]),
       ("call", "math.Float32frombits", ["u32"]), ("bind", "append", ["out"]), ("end", "", []),
       ("return", "", [])] ∧
    Gen.skeleton_bytesToFloat64s =
      [("params", "", ["endianness", "wordOrder", "in"]), ("results", "", ["out"]),
       ("call", "bytesToUint64s", ["endianness", "wordOrder", "in"]), ("bind", "bytesToUint64s", ["u64s"]),
       ("loop", "u64s", []), ("call", "append", ["out", "math.Float64frombits(..)"]),
       ("call", "math.Float64frombits", ["u64"]), ("bind", "append", ["out"]), ("end", "", []),
       ("return", "", [])] := by
  decide +kernel

#print axioms C17X_float_encode_is_composition
#print axioms C17X_float_decode_is_composition

end Modbus.Props.C17
