import ModbusVerif.Lemmas.LifecycleLemmas
/-
  C10 — "When Stop returns the listening socket is closed, every client connection has been
  closed and no request sent afterwards reaches a handler — including a connection that was being
  accepted while Stop ran. Start after Stop serves again, repeated Start or Stop calls are
  harmless no-ops, no server goroutine outlives Stop."

  Model: `Modbus.Lifecycle`.  `stop` / `start` are single critical sections; the accept goroutine
  receives its listener as an argument (generation fixed at creation).  Theorems hold from every
  reachable state = after every interleaving.  Race freedom of the field accesses themselves is
  the lockset part of C10 (Locking model), not this file.  That goroutines actually get
  scheduled to take their enabled steps is the Go runtime's business: the termination theorems
  say each remaining goroutine HAS an enabled step towards its end and that every such step
  decreases the measure.
-/
namespace Modbus.Props.C10
open Modbus.Lifecycle

/-! ### 5. post-condition of Stop -/

/-- right after `Stop` (from any reachable state, started or not): not started, listener closed,
    its accept queue gone, and every socket in `tcpClients` closed.  The only sockets the server
    still holds open belong to connections that are on their way out: accepted-but-undecided
    (their admission will see `started = false`), rejecting, or already removed and about to
    execute their own `sock.Close()` -/
theorem C10_stop_post {s : State} (hs : Reachable s) :
    let s' := step s .stop
    s'.started = false ∧ s'.listenerOpen = false ∧ s'.backlog = [] ∧
      (∀ c ∈ s'.clients, (s'.conn c).sockClosed = true) ∧
      (∀ c, (s'.conn c).sockClosed = false → (s'.conn c).phase = .fresh ∨
        (s'.conn c).phase = .accepted ∨ (s'.conn c).phase = .rejecting ∨
        (s'.conn c).phase = .removed) := by
  intro s'
  have hi' : Inv s' := (hs.step .stop).inv
  have hst : s'.started = false := by
    show (doStop s).started = false
    unfold doStop; split
    · rfl
    · next h => simpa using h
  have hop : s'.listenerOpen = false := by rw [← hi'.started_open]; exact hst
  refine ⟨hst, hop, hi'.backlog_closed hop, hi'.stopped_closed hst, fun c hc => ?_⟩
  have h1 := hi'.clients_iff c
  have h2 := hi'.stopped_closed hst c
  have h3 := hi'.term_closed c
  have h4 := hi'.backlog_iff c
  rw [hi'.backlog_closed hop] at h4
  revert h1 h3 h4
  cases hp : (s'.conn c).phase <;> simp [Phase.inList, Phase.terminal, hc] <;>
    intro h1 <;> simp [h2 h1] at hc

/-- while the server is stopped no connection can be served, none can arrive, and an
    accepted-but-undecided connection is rejected by its admission step -/
theorem C10_stopped_state {s : State} (hs : Reachable s) (hst : s.started = false) (c : ConnId) :
    s.wouldServe c = false ∧ (step s (.request c)).log = s.log ∧
      enabled s (.arrive c) = false ∧ (∀ a, enabled s (.accept a c) = false) ∧
      ((s.conn c).phase = .accepted → ((step s (.decide c)).conn c).phase = .rejecting) := by
  have hi := hs.inv
  have hw := request_not_served_when_stopped hi hst c
  have hop : s.listenerOpen = false := by rw [← hi.started_open]; exact hst
  refine ⟨hw, ?_, by simp [enabled, hop], fun a => ?_, fun hp => ?_⟩
  · unfold step; split
    · simp [apply, doRequest, hw]
    · rfl
  · cases he : enabled s (.accept a c) with
    | false => rfl
    | true => have := ((enabled_accept_iff s a c).mp he).2.1; rw [hop] at this; cases this
  · exact (decide_rejects s c hp (by simp [hst])).1

/-- after `Stop`, in every continuation that contains no `Start`: the handler-call history does
    not grow — whatever was accepted before, during or after Stop, and whatever the peers send -/
theorem C10_no_service_after_stop {s : State} (hs : Reachable s) (steps : List Step)
    (hns : Step.start ∉ steps) :
    servedOf (run (step s .stop) steps).log = servedOf (step s .stop).log ∧
      (run (step s .stop) steps).started = false := by
  have hst := (C10_stop_post hs).1
  exact servedOf_run_stopped (hs.step .stop).inv hst steps hns

/-- in particular a request step anywhere in such a continuation produces no event -/
theorem C10_request_after_stop_not_served {s : State} (hs : Reachable s) (pre : List Step)
    (hns : Step.start ∉ pre) (c : ConnId) :
    let t := run (step s .stop) pre
    t.wouldServe c = false ∧ (step t (.request c)).log = t.log := by
  intro t
  have ht : Reachable t := (hs.step .stop).run pre
  have hst : t.started = false := (C10_no_service_after_stop hs pre hns).2
  have := C10_stopped_state ht hst c
  exact ⟨this.1, this.2.1⟩

/-! ### 6. idempotence (on every state) -/

theorem C10_idempotent_start (s : State) : step (step s .start) .start = step s .start :=
  start_idempotent s

theorem C10_idempotent_stop (s : State) : step (step s .stop) .stop = step s .stop :=
  stop_idempotent s

/-- Start on a started server and Stop on a stopped server change nothing at all -/
theorem C10_noop (s : State) :
    (s.started = true → step s .start = s) ∧ (s.started = false → step s .stop = s) := by
  constructor
  · intro h; show doStart s = s; simp [doStart, h]
  · intro h; show doStop s = s; simp [doStop, h]

/-! ### 7. Start after Stop serves again -/

/-- `Stop; Start` from any reachable state: started, a NEW listener generation is open, a new
    acceptor (id = old generation number) waits on exactly that listener, `tcpClients` is
    untouched (old entries leave through their own removal steps); and a connection arriving
    then is admitted and served iff there is room -/
theorem C10_restart_admits {s : State} (hs : Reachable s) :
    let s' := run s [.stop, .start]
    s'.started = true ∧ s'.listenerOpen = true ∧ s'.gen = s.gen + 1 ∧
      s'.acceptors[s.gen]? = some ⟨s.gen + 1, .accepting⟩ ∧ s'.clients = s.clients ∧
      ∀ c, (s'.conn c).phase = .fresh → s'.clients.length < s'.maxClients →
        let s'' := run s' (admitSeq s.gen c)
        (s''.conn c).phase = .serving ∧ s''.wouldServe c = true ∧ c ∈ s''.clients ∧
          (step s'' (.request c)).log = s''.log ++ [.served c] := by
  intro s'
  obtain ⟨h1, h2, h3, h4, _, h6⟩ := stop_start s hs.inv
  refine ⟨h1, h2, h3, by rw [← h3]; exact h6, h4, fun c hf hroom => ?_⟩
  obtain ⟨a1, a2, a3, _⟩ := run_admitSeq (s := s') s.gen c h1 h2 h6 hf hroom
  intro s''
  have a2 : (s''.conn c).phase = .serving := a2
  have a3 : (s''.conn c).sockClosed = false := a3
  have a1 : s''.clients = s'.clients ++ [c] := a1
  have hw : s''.wouldServe c = true := by simp [State.wouldServe, a2, a3]
  refine ⟨a2, hw, by rw [a1]; simp, ?_⟩
  have he : enabled s'' (.request c) = true := by simp [enabled, a2]
  rw [step_eq _ _ he]; simp [apply, doRequest, hw]

/-! ### 8. accept goroutines are bound to one listener and exit with it -/

/-- no migration: whatever happens, acceptor `a` keeps the listener generation it was created
    with (all states, all schedules) -/
theorem C10_acceptor_bound (s : State) (steps : List Step) (a g : Nat)
    (h : (s.acceptors[a]?).map Acceptor.gen = some g) :
    ((run s steps).acceptors[a]?).map Acceptor.gen = some g :=
  acceptor_gen_run s steps a g h

/-- acceptor ids and listener generations correspond 1-1 (one acceptor per Start), and an
    acceptor only ever holds a connection that was made to its own listener -/
theorem C10_acceptor_generation {s : State} (hs : Reachable s) (a : Nat) (A : Acceptor)
    (h : s.acceptors[a]? = some A) :
    A.gen = a + 1 ∧ s.acceptors.length = s.gen ∧
      ∀ c, A.pc = .holding c → (s.conn c).gen = A.gen := by
  refine ⟨hs.inv.acc_gen a A h, hs.inv.acc_len, fun c hc => ?_⟩
  obtain ⟨g, pc⟩ := A
  simp only at hc; subst hc
  exact (hs.inv.acc_hold a g c h).2

/-- once its listener is closed, an acceptor waiting in Accept can do exactly one thing: return
    (net.ErrClosed).  It accepts nothing, and the listener never reopens. -/
theorem C10_acceptors_exit {s : State} (hs : Reachable s) (a g : Nat)
    (ha : s.acceptors[a]? = some ⟨g, .accepting⟩) (hcl : s.listening g = false) :
    enabled s (.acceptorExit a) = true ∧ (∀ c, enabled s (.accept a c) = false) ∧
      (∀ steps, (run s steps).listening g = false) ∧
      (step s (.acceptorExit a)).acceptors[a]? = some ⟨g, .exited⟩ := by
  have hg : g ≤ s.gen := by
    have h1 := hs.inv.acc_gen a _ ha
    have h2 : a < s.acceptors.length := by
      rcases Nat.lt_or_ge a s.acceptors.length with h | h
      · exact h
      · rw [List.getElem?_eq_none h] at ha; cases ha
    have h3 := hs.inv.acc_len
    simp only at h1; omega
  have he : enabled s (.acceptorExit a) = true := (enabled_exit_iff s a).mpr ⟨g, ha, hcl⟩
  refine ⟨he, fun c => ?_, fun steps => listening_closed_run s steps g hg hcl, ?_⟩
  · cases h : enabled s (.accept a c) with
    | false => rfl
    | true =>
      obtain ⟨h1, h2, _⟩ := (enabled_accept_iff s a c).mp h
      rw [ha] at h1
      simp only [Option.some.injEq, Acceptor.mk.injEq, and_true] at h1
      simp [State.listening, h1, h2] at hcl
  · rw [step_eq _ _ he]
    simp [apply, doAcceptorExit, ha]

/-- every enabled step on the shutdown path of a goroutine (acceptor exit, admission, launch /
    reject-close, session end, removal, close) strictly decreases the measure `goroutines` -/
theorem C10_teardown_decreases (s : State) (st : Step) (he : enabled s st = true)
    (ht : st.teardown = true) : (step s st).goroutines < s.goroutines :=
  teardown_decreases s st he ht

/-- progress: while stopped, if any goroutine is left, one of them has an enabled shutdown-path
    step (for a session: because Stop closed its socket, `finish c socketClosedByServer`) -/
theorem C10_teardown_progress {s : State} (hs : Reachable s) (hst : s.started = false)
    (hpos : 0 < s.goroutines) :
    ∃ st, st.teardown = true ∧ enabled s st = true ∧ (step s st).goroutines < s.goroutines := by
  obtain ⟨st, ht, he⟩ := teardown_progress hs.inv hst hpos
  exact ⟨st, ht, he, teardown_decreases s st he ht⟩

/-- a serving session whose socket was closed by Stop can always end for that reason -/
theorem C10_closed_session_ends {s : State} (hs : Reachable s) (hst : s.started = false)
    (c : ConnId) (hp : (s.conn c).phase = .serving) :
    enabled s (.finish c .socketClosedByServer) = true := by
  have hc : c ∈ s.clients := (hs.inv.clients_iff c).mpr (by rw [hp]; rfl)
  simp [enabled, hp, hs.inv.stopped_closed hst c hc]

/-- measure zero = no goroutine left: every acceptor has returned, every connection is closed,
    rejected-and-closed, dropped with the listener, (or was never made) -/
theorem C10_no_goroutine_left {s : State} (hs : Reachable s) (hst : s.started = false) :
    s.goroutines = 0 ↔
      (∀ A ∈ s.acceptors, A.pc = .exited) ∧
      ∀ c, (s.conn c).phase = .fresh ∨ (s.conn c).phase = .closed ∨
        (s.conn c).phase = .rejected ∨ (s.conn c).phase = .dropped := by
  rw [goroutines_zero_iff hs.inv]
  have hop : s.listenerOpen = false := by rw [← hs.inv.started_open]; exact hst
  have hb := hs.inv.backlog_closed hop
  constructor
  · intro ⟨h1, h2⟩
    refine ⟨h1, fun c => ?_⟩
    have h3 := h2 c
    have h4 := hs.inv.backlog_iff c
    rw [hb] at h4
    revert h3 h4
    cases (s.conn c).phase <;> simp [Phase.weight]
  · intro ⟨h1, h2⟩
    refine ⟨h1, fun c => ?_⟩
    rcases h2 c with h | h | h | h <;> rw [h] <;> rfl

/-- after Stop, shutdown-path steps alone (no Start, no arrival, no peer activity) bring every
    goroutine to its end; and since every such step decreases the measure
    (`C10_teardown_decreases`), EVERY maximal shutdown schedule does -/
theorem C10_all_goroutines_end {s : State} (hs : Reachable s) :
    ∃ steps, (∀ st ∈ steps, st.teardown = true) ∧
      (run (step s .stop) steps).goroutines = 0 ∧ (run (step s .stop) steps).started = false := by
  have hst := (C10_stop_post hs).1
  exact teardown_terminates (hs.step .stop).inv hst

/-! ### non-vacuity (MaxClients = 1) -/

/-- Stop while connection 2 is accepted-but-undecided and connection 1 is being served -/
def stopDuringAccept : List Step :=
  [.start, .arrive 1, .accept 0 1, .decide 1, .launch 1, .request 1,
   .arrive 2, .accept 0 2, .arrive 3, .stop]

example : (run (init 1) stopDuringAccept).started = false ∧
    (run (init 1) stopDuringAccept).listenerOpen = false ∧
    (run (init 1) stopDuringAccept).clients = [1] := by decide
example : ((run (init 1) stopDuringAccept).conn 1).sockClosed = true ∧
    ((run (init 1) stopDuringAccept).conn 1).phase = .serving := by decide
example : ((run (init 1) stopDuringAccept).conn 2).phase = .accepted ∧
    ((run (init 1) stopDuringAccept).conn 2).sockClosed = false := by decide
/-- connection 3 was still in the accept queue: reset with the listener -/
example : ((run (init 1) stopDuringAccept).conn 3).phase = .dropped := by decide

/-- afterwards: 2 is rejected by its admission step (started = false although the list has
    room once 1 is gone), requests on 1 and 2 are not served, all goroutines end -/
def afterStop : List Step :=
  stopDuringAccept ++ [.request 1, .request 2, .finish 1 .socketClosedByServer, .remove 1,
    .decide 2, .request 2, .launch 2, .close 1, .acceptorExit 0, .arrive 4]

example : ((run (init 1) afterStop).conn 2).phase = .rejected := by decide +kernel
example : (run (init 1) afterStop).log = [.admit 1, .served 1, .reject 2] := by decide +kernel
example : (run (init 1) afterStop).goroutines = 0 := by decide +kernel
example : (run (init 1) stopDuringAccept).goroutines = 9 := by decide
example : ((run (init 1) afterStop).conn 4).phase = .fresh := by decide +kernel

/-- Start again: new generation 2, new acceptor 1; the old acceptor 0 (still holding 2) stays
    bound to generation 1 and exits; a new connection is served -/
def restart : List Step :=
  stopDuringAccept ++ [.start, .arrive 5, .accept 0 5, .accept 1 5, .decide 5, .launch 5,
    .request 5]

example : (run (init 3) restart).gen = 2 ∧
    (run (init 3) restart).acceptors = [⟨1, .holding 2⟩, ⟨2, .accepting⟩] := by decide +kernel
example : (run (init 3) restart).log = [.admit 1, .served 1, .admit 5, .served 5] := by
  decide +kernel
/-- an undecided connection of the old listener is admitted if Start comes before its admission
    step — which is why `C10_no_service_after_stop` excludes `start` from the continuation -/
example : ((run (init 3) (restart ++ [.decide 2, .launch 2, .request 2])).conn 2).phase = .serving := by
  decide +kernel

/-! ### limits of the property as literally worded (the model — and the Go code — say otherwise) -/

/-- "when Stop returns … every client connection has been closed": NOT for a connection that an
    accept goroutine holds between `Accept` and its admission critical section — it is not in
    `tcpClients`, so Stop cannot close it; its socket is still open when Stop returns.  It is
    closed by the accept loop right after (`decide` sees started = false, `launch` closes), and
    is never served (`C10_no_service_after_stop`).  `C10_stop_post` states what does hold. -/
theorem C10_stop_leaves_inflight_open :
    let s := run (init 1) stopDuringAccept
    s.started = false ∧ (s.conn 2).phase = .accepted ∧ (s.conn 2).sockClosed = false := by decide

/-- "Start after Stop serves again": only once there is room.  Sessions of the previous run whose
    goroutines have not yet executed their removal step still occupy slots of `tcpClients`
    (Stop does not clear the list), so a connection arriving right after the restart can be
    rejected although no live session exists.  Transient: `C10_all_goroutines_end` /
    `C09_reclaim` free the slots; `C10_restart_admits` is the conditional statement. -/
theorem C10_restart_may_reject :
    let s := run (init 1) [.start, .arrive 1, .accept 0 1, .decide 1, .launch 1, .stop, .start,
      .arrive 2, .accept 1 2, .decide 2]
    s.started = true ∧ (s.conn 1).sockClosed = true ∧ s.clients = [1] ∧
      (s.conn 2).phase = .rejecting := by decide

example : step (step (init 3) .start) .start = step (init 3) .start := by decide
example : step (init 3) .stop = init 3 := by decide

#print axioms C10_stop_post
#print axioms C10_stopped_state
#print axioms C10_no_service_after_stop
#print axioms C10_request_after_stop_not_served
#print axioms C10_idempotent_start
#print axioms C10_idempotent_stop
#print axioms C10_noop
#print axioms C10_restart_admits
#print axioms C10_acceptor_bound
#print axioms C10_acceptor_generation
#print axioms C10_acceptors_exit
#print axioms C10_teardown_decreases
#print axioms C10_teardown_progress
#print axioms C10_closed_session_ends
#print axioms C10_no_goroutine_left
#print axioms C10_all_goroutines_end
#print axioms C10_stop_leaves_inflight_open
#print axioms C10_restart_may_reject

end Modbus.Props.C10
