import ModbusVerif.Lemmas.GoEvalWrapLemmas
import ModbusVerif.Model.IoTraceExt
import ModbusVerif.Props.C07Ext
/-
  C07, source tie for the three LINK ADAPTERS between the transports and the socket / serial port
  (tls_utils.go `tlsSockWrapper`, udp.go `udpSockWrapper`, serial.go `serialPortWrapper`) and for
  rtu_transport.go `discard`, as rendered by the translator (`Gen.gs_tlsSockWrapper_*`,
  `Gen.gs_udpSockWrapper_*`, `Gen.gs_serialPortWrapper_*`, `Gen.gs_discard`; regenerated from /repo
  on every run) and EVALUATED by `Modbus.GoEval`.

  The clocked model of C07 (`Model/IoTrace.lean`, `Model/IoTraceExt.lean`, `Props/C07Ext.lean`) talks
  about `SetDeadline` / `Read` / `Write` ON THE LINK THE TRANSPORT HOLDS. For tcp that is the socket;
  for tcp+tls, udp and rtu it is one of the adapters. What is proved here, for ALL argument values,
  ALL results of the inner calls (the oracle is universally quantified) and all sufficiently large fuel:

  1. FORWARDING (`C07W_tls_forwards`, `C07W_udp_forwards`): each pass-through method makes exactly one
     call, to the method OF THE SAME NAME on the inner link (the inner callee is COMPUTED from the
     method name: `tsw.sock.` ++ name), with the caller's arguments, and the only effect on the
     environment is that the inner results are bound to the result variables; if the inner call is
     not answered the run stops AT that call. So an armed deadline reaches the socket as the same
     kind of deadline with the same value. `tlsSockWrapper.Write` (`C07W_tls_write`) additionally
     calls `tsw.sock.Close` iff the inner write returned a non-nil error with `os.IsTimeout(err)`.
  2. SERIAL (`C07W_serial_read`, `C07W_serial_setDeadline`, `C07W_serial_write`,
     `C07W_serial_discipline`, `C07W_serial_port_timeout`): the deadline is emulated. The evaluated
     `Read` has exactly the two behaviours `Io.durOkSerial` / `Io.okSerial` assume, so the only
     runtime assumption left is "`port.Read` returns within the port's configured timeout", and that
     timeout is the constant 10 ms of the `serial.Config` literal in `Open`.
  3. `C07W_discard`: `SetDeadline(now + 500 µs)`, ONE `io.ReadFull` of a 1024-byte buffer, outcome
     ignored = the flush step `Io.resyncOps` / `Rtu.discardLen` of the model.

  What is modelled (not derived from the generated terms):
  * result parameters: the generated facts do not list the NAMES of a function's result parameters.
    All returns of these functions are bare `return`s, so the results are the named results of
    the Go signature; the theorems below give the WHOLE final environment (the inner results are
    bound to the `bindCall` targets and nothing else changes), which covers every possible naming;
    the names `err`, `rlen`/`wlen`/`cnt`, `addr` used in the tables are those of the Go signatures.
  * `serial.ErrTimeout` (a variable of package goburrow/serial, not a constant of this package) is
    bound to the symbol of its own name: a value distinct from `nil` and from every other error.
  * `os.IsTimeout(err)` and `time.Now().After(spw.deadline)` are boolean leaves; the theorems
    quantify over their values (for `os.IsTimeout` as an arbitrary function of the returned error).
  * the units of Go's `time` package (`GoEval.goTimeUnit?`).
  * `time.Now().After(d)` is `d < now` on the clock of `Io.Clock`; a `serialPortWrapper` on which
    `SetDeadline` was never called has the zero `time.Time`, which every `time.Now()` is after.
-/
set_option linter.unusedSimpArgs false
set_option linter.unusedVariables false

namespace Modbus.Props.C07
open Modbus Modbus.Gen Modbus.GoEval

/-! ## 1. forwarding -/

/-- `s` is a pass-through to `inner`: run with the parameters `params` bound to ANY values `args`
    (on top of ANY environment) against ANY oracle,
    * if the oracle answers `inner args` with `rs`: the run returns, the call log is exactly
      `[(inner, args)]`, and the final environment is the initial one with `rs` bound to `results`;
    * if it does not answer: the run stops at `inner args` having called nothing. -/
def PassThrough (s : GStmt) (inner : String) (params results : List String) : Prop :=
  ∀ (o : Oracle) (env0 : Env) (args rs : List Val) (fuel : Nat),
    args.length = params.length → rs.length = results.length → depth s ≤ fuel →
    (o inner args = some rs →
      exec o fuel s (bindAll env0 params args) =
        ⟨bindAll (bindAll env0 params args) results rs, .returned, [(inner, args)]⟩) ∧
    (o inner args = none →
      exec o fuel s (bindAll env0 params args) =
        ⟨bindAll env0 params args, .stoppedAt inner args, []⟩)

/-- method `m.1` of `wrapper` (receiver variable `recv`, result variables `m.2`): the generated term
    and its parameter list are looked up BY NAME, the inner callee is `recv.sock.<same name>` -/
def Forwards (wrapper recv : String) (m : String × List String) : Prop :=
  ∃ s params, gstmtTable.lookup (wrapper ++ "." ++ m.1) = some s ∧
    gsParams.lookup (wrapper ++ "." ++ m.1) = some params ∧
    loopFree s = true ∧
    PassThrough s (recv ++ ".sock." ++ m.1) params m.2

/-- the pass-through methods of `tlsSockWrapper` (all but `Write`) with their result variables -/
def tlsMethods : List (String × List String) :=
  [("Read", ["rlen", "err"]), ("Close", ["err"]), ("SetDeadline", ["err"]),
   ("SetReadDeadline", ["err"]), ("SetWriteDeadline", ["err"]),
   ("LocalAddr", ["addr"]), ("RemoteAddr", ["addr"])]

/-- the pass-through methods of `udpSockWrapper` (all but `Read`, see Props/C12UdpSrc.lean) -/
def udpMethods : List (String × List String) :=
  [("Write", ["wlen", "err"]), ("Close", ["err"]), ("SetDeadline", ["err"]),
   ("SetReadDeadline", ["err"]), ("SetWriteDeadline", ["err"]),
   ("LocalAddr", ["addr"]), ("RemoteAddr", ["addr"])]

theorem len0 {α} {l : List α} (h : l.length = ([] : List String).length) : l = [] :=
  List.length_eq_zero_iff.mp h
theorem len1 {α} {l : List α} {x : String} (h : l.length = [x].length) : ∃ a, l = [a] :=
  List.length_eq_one_iff.mp h
theorem len2 {α} {l : List α} {x y : String} (h : l.length = [x, y].length) : ∃ a b, l = [a, b] := by
  match l, h with
  | [a, b], _ => exact ⟨a, b, rfl⟩

/-- a loop-free statement: the run with any fuel ≥ depth is the run with fuel = depth = `d` -/
theorem exec_at (o : Oracle) (s : GStmt) (env : Env) (d fuel : Nat) (hl : loopFree s = true)
    (hd : depth s = d) (hf : depth s ≤ fuel) : exec o fuel s env = exec o d s env := by
  subst hd
  exact exec_loopFree o s _ fuel env hl (Nat.le_refl _) hf

/-- one run of a pass-through, both cases -/
syntax "fwd_run" " [" Lean.Parser.Tactic.simpLemma,* "]" : tactic
macro_rules
  | `(tactic| fwd_run [$ls,*]) => `(tactic|
    (refine ⟨fun h => ?_, fun h => ?_⟩ <;>
      (rw [exec_at _ _ _ 2 _ (by decide) (by decide) (by assumption)]
       go_eval [$ls,*, h, write_def])))

theorem pt_tls_Read : PassThrough gs_tlsSockWrapper_Read "tsw.sock.Read" ["buf"] ["rlen", "err"] := by
  intro o env0 args rs fuel ha hr hf
  obtain ⟨a, rfl⟩ := len1 ha
  obtain ⟨r1, r2, rfl⟩ := len2 hr
  fwd_run [gs_tlsSockWrapper_Read]
theorem pt_tls_Close : PassThrough gs_tlsSockWrapper_Close "tsw.sock.Close" [] ["err"] := by
  intro o env0 args rs fuel ha hr hf
  obtain rfl := len0 ha
  obtain ⟨r1, rfl⟩ := len1 hr
  fwd_run [gs_tlsSockWrapper_Close]
theorem pt_tls_SetDeadline :
    PassThrough gs_tlsSockWrapper_SetDeadline "tsw.sock.SetDeadline" ["deadline"] ["err"] := by
  intro o env0 args rs fuel ha hr hf
  obtain ⟨a, rfl⟩ := len1 ha
  obtain ⟨r1, rfl⟩ := len1 hr
  fwd_run [gs_tlsSockWrapper_SetDeadline]
theorem pt_tls_SetReadDeadline :
    PassThrough gs_tlsSockWrapper_SetReadDeadline "tsw.sock.SetReadDeadline" ["deadline"] ["err"] := by
  intro o env0 args rs fuel ha hr hf
  obtain ⟨a, rfl⟩ := len1 ha
  obtain ⟨r1, rfl⟩ := len1 hr
  fwd_run [gs_tlsSockWrapper_SetReadDeadline]
theorem pt_tls_SetWriteDeadline :
    PassThrough gs_tlsSockWrapper_SetWriteDeadline "tsw.sock.SetWriteDeadline" ["deadline"] ["err"] := by
  intro o env0 args rs fuel ha hr hf
  obtain ⟨a, rfl⟩ := len1 ha
  obtain ⟨r1, rfl⟩ := len1 hr
  fwd_run [gs_tlsSockWrapper_SetWriteDeadline]
theorem pt_tls_LocalAddr : PassThrough gs_tlsSockWrapper_LocalAddr "tsw.sock.LocalAddr" [] ["addr"] := by
  intro o env0 args rs fuel ha hr hf
  obtain rfl := len0 ha
  obtain ⟨r1, rfl⟩ := len1 hr
  fwd_run [gs_tlsSockWrapper_LocalAddr]
theorem pt_tls_RemoteAddr : PassThrough gs_tlsSockWrapper_RemoteAddr "tsw.sock.RemoteAddr" [] ["addr"] := by
  intro o env0 args rs fuel ha hr hf
  obtain rfl := len0 ha
  obtain ⟨r1, rfl⟩ := len1 hr
  fwd_run [gs_tlsSockWrapper_RemoteAddr]

theorem pt_udp_Write : PassThrough gs_udpSockWrapper_Write "usw.sock.Write" ["buf"] ["wlen", "err"] := by
  intro o env0 args rs fuel ha hr hf
  obtain ⟨a, rfl⟩ := len1 ha
  obtain ⟨r1, r2, rfl⟩ := len2 hr
  fwd_run [gs_udpSockWrapper_Write]
theorem pt_udp_Close : PassThrough gs_udpSockWrapper_Close "usw.sock.Close" [] ["err"] := by
  intro o env0 args rs fuel ha hr hf
  obtain rfl := len0 ha
  obtain ⟨r1, rfl⟩ := len1 hr
  fwd_run [gs_udpSockWrapper_Close]
theorem pt_udp_SetDeadline :
    PassThrough gs_udpSockWrapper_SetDeadline "usw.sock.SetDeadline" ["deadline"] ["err"] := by
  intro o env0 args rs fuel ha hr hf
  obtain ⟨a, rfl⟩ := len1 ha
  obtain ⟨r1, rfl⟩ := len1 hr
  fwd_run [gs_udpSockWrapper_SetDeadline]
theorem pt_udp_SetReadDeadline :
    PassThrough gs_udpSockWrapper_SetReadDeadline "usw.sock.SetReadDeadline" ["deadline"] ["err"] := by
  intro o env0 args rs fuel ha hr hf
  obtain ⟨a, rfl⟩ := len1 ha
  obtain ⟨r1, rfl⟩ := len1 hr
  fwd_run [gs_udpSockWrapper_SetReadDeadline]
theorem pt_udp_SetWriteDeadline :
    PassThrough gs_udpSockWrapper_SetWriteDeadline "usw.sock.SetWriteDeadline" ["deadline"] ["err"] := by
  intro o env0 args rs fuel ha hr hf
  obtain ⟨a, rfl⟩ := len1 ha
  obtain ⟨r1, rfl⟩ := len1 hr
  fwd_run [gs_udpSockWrapper_SetWriteDeadline]
theorem pt_udp_LocalAddr : PassThrough gs_udpSockWrapper_LocalAddr "usw.sock.LocalAddr" [] ["addr"] := by
  intro o env0 args rs fuel ha hr hf
  obtain rfl := len0 ha
  obtain ⟨r1, rfl⟩ := len1 hr
  fwd_run [gs_udpSockWrapper_LocalAddr]
theorem pt_udp_RemoteAddr : PassThrough gs_udpSockWrapper_RemoteAddr "usw.sock.RemoteAddr" [] ["addr"] := by
  intro o env0 args rs fuel ha hr hf
  obtain rfl := len0 ha
  obtain ⟨r1, rfl⟩ := len1 hr
  fwd_run [gs_udpSockWrapper_RemoteAddr]

/-- FORWARDING, `tlsSockWrapper`: `Read`, `Close`, `SetDeadline`, `SetReadDeadline`,
    `SetWriteDeadline`, `LocalAddr`, `RemoteAddr` each make exactly one call, to `tsw.sock.<same
    name>`, with the caller's arguments, and hand back the inner results. -/
theorem C07W_tls_forwards : ∀ m ∈ tlsMethods, Forwards "tlsSockWrapper" "tsw" m := by
  intro m hm
  simp only [tlsMethods, List.mem_cons, List.not_mem_nil, or_false] at hm
  rcases hm with rfl | rfl | rfl | rfl | rfl | rfl | rfl
  · exact ⟨_, _, by rfl, by decide +kernel, by decide, pt_tls_Read⟩
  · exact ⟨_, _, by rfl, by decide +kernel, by decide, pt_tls_Close⟩
  · exact ⟨_, _, by rfl, by decide +kernel, by decide, pt_tls_SetDeadline⟩
  · exact ⟨_, _, by rfl, by decide +kernel, by decide, pt_tls_SetReadDeadline⟩
  · exact ⟨_, _, by rfl, by decide +kernel, by decide, pt_tls_SetWriteDeadline⟩
  · exact ⟨_, _, by rfl, by decide +kernel, by decide, pt_tls_LocalAddr⟩
  · exact ⟨_, _, by rfl, by decide +kernel, by decide, pt_tls_RemoteAddr⟩

/-- FORWARDING, `udpSockWrapper`: `Write`, `Close`, `SetDeadline`, `SetReadDeadline`,
    `SetWriteDeadline`, `LocalAddr`, `RemoteAddr` -/
theorem C07W_udp_forwards : ∀ m ∈ udpMethods, Forwards "udpSockWrapper" "usw" m := by
  intro m hm
  simp only [udpMethods, List.mem_cons, List.not_mem_nil, or_false] at hm
  rcases hm with rfl | rfl | rfl | rfl | rfl | rfl | rfl
  · exact ⟨_, _, by rfl, by decide +kernel, by decide, pt_udp_Write⟩
  · exact ⟨_, _, by rfl, by decide +kernel, by decide, pt_udp_Close⟩
  · exact ⟨_, _, by rfl, by decide +kernel, by decide, pt_udp_SetDeadline⟩
  · exact ⟨_, _, by rfl, by decide +kernel, by decide, pt_udp_SetReadDeadline⟩
  · exact ⟨_, _, by rfl, by decide +kernel, by decide, pt_udp_SetWriteDeadline⟩
  · exact ⟨_, _, by rfl, by decide +kernel, by decide, pt_udp_LocalAddr⟩
  · exact ⟨_, _, by rfl, by decide +kernel, by decide, pt_udp_RemoteAddr⟩

/-! ### sensitivity of the forwarding theorems -/

/-- an oracle that answers `SetDeadline` on the socket and NOTHING else: the generated
    `tlsSockWrapper.SetDeadline` returns; the previously seeded slip (forwarding to
    `SetReadDeadline`, derived from the generated term by `renameCallee`) stops at the foreign
    call, so `PassThrough … "tsw.sock.SetDeadline" …` is false for it -/
def onlySetDeadline : Oracle := fun f _ => if f = "tsw.sock.SetDeadline" then some [.sym "nil"] else none

example : exec onlySetDeadline 2 gs_tlsSockWrapper_SetDeadline [("deadline", .sym "D")] =
    ⟨[("err", .sym "nil"), ("deadline", .sym "D")], .returned, [("tsw.sock.SetDeadline", [.sym "D"])]⟩ := by
  decide +kernel
example : exec onlySetDeadline 2
      (renameCallee "tsw.sock.SetDeadline" "tsw.sock.SetReadDeadline" gs_tlsSockWrapper_SetDeadline)
      [("deadline", .sym "D")] =
    ⟨[("deadline", .sym "D")], .stoppedAt "tsw.sock.SetReadDeadline" [.sym "D"], []⟩ := by
  decide +kernel

/-- the slip falsifies the theorem: the variant is NOT a pass-through to `tsw.sock.SetDeadline` -/
theorem C07W_sensitive_setDeadline_slip :
    ¬ PassThrough
      (renameCallee "tsw.sock.SetDeadline" "tsw.sock.SetReadDeadline" gs_tlsSockWrapper_SetDeadline)
      "tsw.sock.SetDeadline" ["deadline"] ["err"] := by
  intro h
  have h1 := (h onlySetDeadline [] [.sym "D"] [.sym "nil"] 2 rfl rfl (by decide)).1 rfl
  revert h1
  decide +kernel

/-- with an oracle that answers everything the slip is visible in the call log -/
example : (exec (fun _ _ => some [.sym "nil"]) 2
      (renameCallee "tsw.sock.SetDeadline" "tsw.sock.SetReadDeadline" gs_tlsSockWrapper_SetDeadline)
      [("deadline", .sym "D")]).calls = [("tsw.sock.SetReadDeadline", [.sym "D"])] := by
  decide +kernel
/-- a variant that drops the argument (passes another variable) is told apart as well -/
example : (exec (fun _ _ => some [.sym "nil"]) 2
      (.seq (.bindCall ["err"] "tsw.sock.SetDeadline" [(.var "other" .other)]) .ret)
      [("deadline", .sym "D"), ("other", .sym "X")]).calls ≠ [("tsw.sock.SetDeadline", [.sym "D"])] := by
  decide +kernel

/-- the same slip in `udpSockWrapper.SetDeadline` -/
theorem C07W_sensitive_setDeadline_slip_udp :
    ¬ PassThrough
      (renameCallee "usw.sock.SetDeadline" "usw.sock.SetReadDeadline" gs_udpSockWrapper_SetDeadline)
      "usw.sock.SetDeadline" ["deadline"] ["err"] := by
  intro h
  have h1 := (h (fun f _ => if f = "usw.sock.SetDeadline" then some [.sym "nil"] else none)
    [] [.sym "D"] [.sym "nil"] 2 rfl rfl (by decide)).1 rfl
  revert h1
  decide +kernel

/-! ### `tlsSockWrapper.Write` -/

/-- environment of `tlsSockWrapper.Write`: the parameter, and the boolean leaf `os.IsTimeout(err)`
    (its value for the error the inner write returns) -/
def tlsWriteEnv (buf : Val) (isTimeout : Bool) : Env :=
  [("buf", buf), ("os.IsTimeout(err)", .ofBool isTimeout)]

/-- `tlsSockWrapper.Write(buf)`: ONE `tsw.sock.Write [buf]`; then `tsw.sock.Close []` iff the inner
    write returned a non-nil error `e` for which `os.IsTimeout(e)` holds (`isTimeout` is ANY
    function of the returned error); in every case the inner results `(w, e)` are returned as
    they are, and the result of `Close` is dropped. -/
theorem C07W_tls_write (o : Oracle) (buf w : Val) (e : String) (closeRes : List Val)
    (isTimeout : String → Bool) (fuel : Nat) (hf : depth gs_tlsSockWrapper_Write ≤ fuel)
    (hW : o "tsw.sock.Write" [buf] = some [w, .sym e])
    (hC : o "tsw.sock.Close" [] = some closeRes) :
    exec o fuel gs_tlsSockWrapper_Write (tlsWriteEnv buf (isTimeout e)) =
      ⟨("err", .sym e) :: ("wlen", w) :: tlsWriteEnv buf (isTimeout e), .returned,
        ("tsw.sock.Write", [buf]) ::
          (if e ≠ "nil" ∧ isTimeout e = true then [("tsw.sock.Close", [])] else [])⟩ := by
  rw [exec_at _ _ _ 4 _ (by decide) (by decide) hf]
  by_cases hn : e = "nil"
  · subst hn
    go_eval [gs_tlsSockWrapper_Write, tlsWriteEnv, hW, hC, write_def, ne_eq, not_true_eq_false, decide_false, false_and,
      Bool.false_and]
  · cases ht : isTimeout e
    · go_eval [gs_tlsSockWrapper_Write, tlsWriteEnv, hW, hC, write_def, ne_eq, hn, not_false_eq_true, decide_true, ht]
    · go_eval [gs_tlsSockWrapper_Write, tlsWriteEnv, hW, hC, write_def, ne_eq, hn, not_false_eq_true, decide_true, ht]

/-- the `Close` is not needed to answer when it is not called: for a successful write and for a
    non-timeout error the run is the same against an oracle that answers only the write -/
theorem C07W_tls_write_no_close (o : Oracle) (buf w : Val) (e : String)
    (isTimeout : String → Bool) (fuel : Nat) (hf : depth gs_tlsSockWrapper_Write ≤ fuel)
    (hW : o "tsw.sock.Write" [buf] = some [w, .sym e])
    (hne : e = "nil" ∨ isTimeout e = false) :
    exec o fuel gs_tlsSockWrapper_Write (tlsWriteEnv buf (isTimeout e)) =
      ⟨("err", .sym e) :: ("wlen", w) :: tlsWriteEnv buf (isTimeout e), .returned,
        [("tsw.sock.Write", [buf])]⟩ := by
  rw [exec_at _ _ _ 4 _ (by decide) (by decide) hf]
  by_cases hn : e = "nil"
  · subst hn
    go_eval [gs_tlsSockWrapper_Write, tlsWriteEnv, hW, write_def, ne_eq, not_true_eq_false, decide_false, false_and,
      Bool.false_and]
  · have ht : isTimeout e = false := hne.resolve_left hn
    go_eval [gs_tlsSockWrapper_Write, tlsWriteEnv, hW, write_def, ne_eq, hn, not_false_eq_true, decide_true, ht]

/-! ## 2. `serialPortWrapper`: the emulated deadline -/

/-- environment of `serialPortWrapper.Read`: the parameter; the boolean leaf
    `time.Now().After(spw.deadline)`; `serial.ErrTimeout` bound to its own symbol; the named results
    at their zero values -/
def serialReadEnv (late : Bool) (rx : Val) : Env :=
  [("rxbuf", rx), ("time.Now().After(spw.deadline)", .ofBool late),
   ("serial.ErrTimeout", .sym "serial.ErrTimeout"), ("cnt", .int 0), ("err", .sym "nil")]

/-- `(cnt, err)` as returned -/
def serialReadResult (r : Res) : Val × Val := (Env.read r.env "cnt", Env.read r.env "err")

/-- entered after the deadline: for EVERY oracle (also one that answers nothing) the run returns at
    once with `err = ErrRequestTimedOut`, `cnt` untouched (zero), and NO call was made -/
theorem serial_read_late (o : Oracle) (rx : Val) (fuel : Nat) (hf : depth gs_serialPortWrapper_Read ≤ fuel) :
    exec o fuel gs_serialPortWrapper_Read (serialReadEnv true rx) =
      ⟨("err", .sym "ErrRequestTimedOut") :: serialReadEnv true rx, .returned, []⟩ := by
  rw [exec_at _ _ _ 5 _ (by decide) (by decide) hf]
  go_eval [gs_serialPortWrapper_Read, serialReadEnv, write_def]

/-- entered not after the deadline: exactly one `spw.port.Read [rxbuf]`; its count is returned; its
    error is returned unless it is `serial.ErrTimeout`, which becomes `nil` -/
theorem serial_read_early (o : Oracle) (rx cnt : Val) (e : String) (fuel : Nat)
    (hf : depth gs_serialPortWrapper_Read ≤ fuel)
    (hR : o "spw.port.Read" [rx] = some [cnt, .sym e]) :
    exec o fuel gs_serialPortWrapper_Read (serialReadEnv false rx) =
      ⟨(if e = "serial.ErrTimeout" then [("err", .sym "nil")] else []) ++
          ("err", .sym e) :: ("cnt", cnt) :: serialReadEnv false rx,
        .returned, [("spw.port.Read", [rx])]⟩ := by
  rw [exec_at _ _ _ 5 _ (by decide) (by decide) hf]
  by_cases hn : e = "nil"
  · subst hn
    go_eval [gs_serialPortWrapper_Read, serialReadEnv, hR, write_def, ne_eq, not_true_eq_false,
      not_false_eq_true, decide_true, decide_false]
  · by_cases ht : e = "serial.ErrTimeout"
    · subst ht
      go_eval [gs_serialPortWrapper_Read, serialReadEnv, hR, write_def, ne_eq, not_true_eq_false,
        not_false_eq_true, decide_true, decide_false]
    · go_eval [gs_serialPortWrapper_Read, serialReadEnv, hR, write_def, ne_eq, hn, ht,
        not_false_eq_true, decide_true, decide_false]

/-- if the port does not answer, the run stops AT `spw.port.Read [rxbuf]` (first and only call) -/
theorem serial_read_stops (o : Oracle) (rx : Val) (fuel : Nat)
    (hf : depth gs_serialPortWrapper_Read ≤ fuel) (hR : o "spw.port.Read" [rx] = none) :
    exec o fuel gs_serialPortWrapper_Read (serialReadEnv false rx) =
      ⟨serialReadEnv false rx, .stoppedAt "spw.port.Read" [rx], []⟩ := by
  rw [exec_at _ _ _ 5 _ (by decide) (by decide) hf]
  go_eval [gs_serialPortWrapper_Read, serialReadEnv, hR, write_def]

/-- `serialPortWrapper.Read(rxbuf)`, all cases.
    (1) `time.Now().After(spw.deadline)`: `(0, ErrRequestTimedOut)` WITHOUT calling `spw.port.Read`
        (for every oracle);
    (2) otherwise exactly one `spw.port.Read [rxbuf]`, answered `(cnt, e)`: the result is
        `(cnt, nil)` if `e` is `serial.ErrTimeout`, `(cnt, e)` otherwise (`nil` included). -/
theorem C07W_serial_read (o : Oracle) (rx cnt : Val) (e : String) (fuel : Nat)
    (hf : depth gs_serialPortWrapper_Read ≤ fuel) :
    (let r := exec o fuel gs_serialPortWrapper_Read (serialReadEnv true rx)
     r.how = .returned ∧ r.calls = [] ∧
       serialReadResult r = (.int 0, .sym "ErrRequestTimedOut")) ∧
    (o "spw.port.Read" [rx] = some [cnt, .sym e] →
     let r := exec o fuel gs_serialPortWrapper_Read (serialReadEnv false rx)
     r.how = .returned ∧ r.calls = [("spw.port.Read", [rx])] ∧
       serialReadResult r = (cnt, .sym (if e = "serial.ErrTimeout" then "nil" else e))) := by
  refine ⟨?_, fun hR => ?_⟩
  · rw [serial_read_late o rx fuel hf]
    exact ⟨rfl, rfl, rfl⟩
  · rw [serial_read_early o rx cnt e fuel hf hR]
    refine ⟨rfl, rfl, ?_⟩
    by_cases ht : e = "serial.ErrTimeout"
    · simp only [ht, if_true]; rfl
    · simp only [ht, if_false]; rfl

/-- `serialPortWrapper.SetDeadline(deadline)` ONLY stores its argument in `spw.deadline`: for every
    oracle the run makes no call at all (the term contains none), binds nothing else, and returns
    with `err` untouched (nil) -/
theorem C07W_serial_setDeadline (o : Oracle) (env0 : Env) (d : Val) (fuel : Nat)
    (hf : depth gs_serialPortWrapper_SetDeadline ≤ fuel) :
    exec o fuel gs_serialPortWrapper_SetDeadline (("deadline", d) :: env0) =
      ⟨("spw.deadline", d) :: ("deadline", d) :: env0, .returned, []⟩ ∧
    bindCalls gs_serialPortWrapper_SetDeadline = [] ∧
    stmtTargets gs_serialPortWrapper_SetDeadline = ["spw.deadline"] := by
  refine ⟨?_, rfl, by decide⟩
  rw [exec_at _ _ _ 2 _ (by decide) (by decide) hf]
  go_eval [gs_serialPortWrapper_SetDeadline, write_def]

theorem pt_serial_Write :
    PassThrough gs_serialPortWrapper_Write "spw.port.Write" ["txbuf"] ["cnt", "err"] := by
  intro o env0 args rs fuel ha hr hf
  obtain ⟨a, rfl⟩ := len1 ha
  obtain ⟨r1, r2, rfl⟩ := len2 hr
  fwd_run [gs_serialPortWrapper_Write]
theorem pt_serial_Close : PassThrough gs_serialPortWrapper_Close "spw.port.Close" [] ["err"] := by
  intro o env0 args rs fuel ha hr hf
  obtain rfl := len0 ha
  obtain ⟨r1, rfl⟩ := len1 hr
  fwd_run [gs_serialPortWrapper_Close]

/-- `serialPortWrapper.Write(txbuf)` forwards to `spw.port.Write` (one call, same argument, results
    handed back) and never consults the deadline: the run is the same in EVERY environment
    (`PassThrough` quantifies over `env0`), and no leaf the term reads mentions `deadline`.
    `Close` forwards to `spw.port.Close`. -/
theorem C07W_serial_write :
    PassThrough gs_serialPortWrapper_Write "spw.port.Write" ["txbuf"] ["cnt", "err"] ∧
    gsParams.lookup "serialPortWrapper.Write" = some ["txbuf"] ∧
    (stmtLeaves gs_serialPortWrapper_Write).all (fun l => !hasSub l "deadline") = true ∧
    (stmtTargets gs_serialPortWrapper_Write).all (fun l => !hasSub l "deadline") = true ∧
    PassThrough gs_serialPortWrapper_Close "spw.port.Close" [] ["err"] :=
  ⟨pt_serial_Write, by decide +kernel, by decide +kernel, by decide +kernel, pt_serial_Close⟩

/-- who touches what (static, all paths): `spw.deadline` is assigned by `SetDeadline` only and read
    by `Read` only (in the entry test, the FIRST statement of `Read`); `spw.port` is assigned by
    `Open` only, from `serial.Open(&serial.Config{…})`. -/
theorem C07W_serial_fields :
    stmtTargets gs_serialPortWrapper_SetDeadline = ["spw.deadline"] ∧
    stmtTargets gs_serialPortWrapper_Read = ["err", "cnt", "err", "err"] ∧
    stmtTargets gs_serialPortWrapper_Write = ["cnt", "err"] ∧
    stmtTargets gs_serialPortWrapper_Close = ["err"] ∧
    stmtTargets gs_serialPortWrapper_Open = ["parity", "parity", "parity", "spw.port", "err"] ∧
    (stmtLeaves gs_serialPortWrapper_Read).filter (fun l => hasSub l "deadline") =
      ["time.Now().After(spw.deadline)"] ∧
    (stmtLeaves gs_serialPortWrapper_Read).head? = some "time.Now().After(spw.deadline)" ∧
    (stmtLeaves gs_serialPortWrapper_Open).filter (fun l => hasSub l "deadline") = [] ∧
    (stmtLeaves gs_serialPortWrapper_Close).filter (fun l => hasSub l "deadline") = [] := by
  decide +kernel

/-- the port is opened by `serial.Open(&serial.Config{ …, Timeout: 10 * time.Millisecond, })`, the
    only call of `Open`, whose first result is the only value `spw.port` ever gets:
    `port.Read` is configured to return after at most 10 ms = 10 000 000 ns, the `δ` of
    `Io.durOkSerial` used in Props/C07Ext.lean (`C07X_marginRtu_values`, `C07X_A_deadline_false_for_serial`) -/
theorem C07W_serial_port_timeout :
    (callTextsOfW gs_serialPortWrapper_Open).map
        (fun c => (c.1, c.2.1, c.2.2.map (fun t => (t.bind (fun l => litField l "Timeout"))))) =
      [(["spw.port", "err"], "serial.Open", [some "10 * time.Millisecond"])] ∧
    goDurText? "10 * time.Millisecond" = some 10000000 := by
  decide +kernel

/-! ### the discipline `Io.durOkSerial` / `Io.okSerial` -/

open Modbus.Io in
/-- `time.Now().After(spw.deadline)` on the clock of the model: the armed deadline lies strictly
    before `now`; with no deadline armed `spw.deadline` is the zero `time.Time` -/
def lateAt (c : Io.Clock) : Bool :=
  match c.deadline with
  | none => true
  | some D => decide (D < c.now)

/-- what `io.ReadFull` sees of one `Read(buf)` with `len(buf) = want`: `err == nil` - `cnt` bytes
    (possibly 0: a poll); `err != nil` - the read ended -/
def readOpOf (want : Nat) (r : Res) : Io.Op :=
  if Env.read r.env "err" = .sym "nil" then
    .read want (match Env.read r.env "cnt" with | .int k => k.toNat | _ => 0)
  else .readEnd want

/-- number of (blocking) `spw.port.Read` calls of a run -/
def portReads (r : Res) : Nat := (r.argsOf "spw.port.Read").length

/-- duration of a run when each `spw.port.Read` lasts `portDur` (local computation takes no time,
    as everywhere in the clocked model) -/
def readDur (portDur : Nat) (r : Res) : Nat := portReads r * portDur

/-- SERIAL DISCIPLINE. One `serialPortWrapper.Read` evaluated at the clock reading `c` (the entry
    test `time.Now().After(spw.deadline)` = `lateAt c`), the port answering `(n, e)` after `portDur`:
    (1) the run returns; it makes AT MOST ONE blocking `spw.port.Read`, and nothing else;
    (2) entry test first: entered after the deadline it makes no call and returns
        `(0, ErrRequestTimedOut)` - duration 0, a `readEnd`;
    (3) entered at or before the deadline it makes exactly one port read and returns its count,
        with `serial.ErrTimeout` masked to `nil`;
    (4) a masked port timeout `(0, serial.ErrTimeout)` is a zero-byte read with nil error - the
        `Op.read want 0` polls of `Io.rfTraceSerial`;
    (5) the op and the duration of the run satisfy `Io.okSerial ε δ wmax` = `durOkSerial ∧ outcomeOk`
        under the ONLY runtime assumption `portDur ≤ δ` ("`port.Read` returns within its configured
        timeout", `δ` = 10 ms by `C07W_serial_port_timeout`). -/
theorem C07W_serial_discipline (ε δ wmax want portDur : Nat) (c : Io.Clock) (o : Oracle) (rx : Val)
    (n : Nat) (e : String) (fuel : Nat) (hf : depth gs_serialPortWrapper_Read ≤ fuel)
    (hR : o "spw.port.Read" [rx] = some [.int n, .sym e]) (hδ : portDur ≤ δ) :
    let r := exec o fuel gs_serialPortWrapper_Read (serialReadEnv (lateAt c) rx)
    r.how = .returned ∧
    (r.calls = [] ∨ r.calls = [("spw.port.Read", [rx])]) ∧
    (lateAt c = true → r.calls = [] ∧ readDur portDur r = 0 ∧
      serialReadResult r = (.int 0, .sym "ErrRequestTimedOut") ∧ readOpOf want r = .readEnd want) ∧
    (lateAt c = false → r.calls = [("spw.port.Read", [rx])] ∧ readDur portDur r = portDur ∧
      serialReadResult r = (.int n, .sym (if e = "serial.ErrTimeout" then "nil" else e))) ∧
    (lateAt c = false → n = 0 → e = "serial.ErrTimeout" →
      readOpOf want r = .read want 0 ∧ (readOpOf want r).isPoll = true) ∧
    Io.okSerial ε δ wmax c (readOpOf want r) (readDur portDur r) := by
  intro r
  cases hl : lateAt c
  · -- not late
    have hr : r = ⟨(if e = "serial.ErrTimeout" then [("err", .sym "nil")] else []) ++
          ("err", .sym e) :: ("cnt", .int n) :: serialReadEnv false rx,
        .returned, [("spw.port.Read", [rx])]⟩ := by
      show exec o fuel gs_serialPortWrapper_Read (serialReadEnv (lateAt c) rx) = _
      rw [hl]; exact serial_read_early o rx (.int n) e fuel hf hR
    have hdur : readDur portDur r = portDur := by
      rw [hr]; simp [readDur, portReads, Res.argsOf]
    have hres : serialReadResult r = (.int n, .sym (if e = "serial.ErrTimeout" then "nil" else e)) := by
      rw [hr]
      by_cases ht : e = "serial.ErrTimeout"
      · simp only [ht, if_true]; rfl
      · simp only [ht, if_false]; rfl
    have hop : readOpOf want r =
        if e = "nil" ∨ e = "serial.ErrTimeout" then .read want n else .readEnd want := by
      have h1 : Env.read r.env "err" = .sym (if e = "serial.ErrTimeout" then "nil" else e) :=
        congrArg Prod.snd hres
      have h2 : Env.read r.env "cnt" = .int n := congrArg Prod.fst hres
      unfold readOpOf
      rw [h1, h2]
      by_cases ht : e = "serial.ErrTimeout"
      · simp [ht]
      · by_cases hn : e = "nil"
        · simp [hn]
        · simp [ht, hn]
    refine ⟨by rw [hr], Or.inr (by rw [hr]), (fun h => nomatch h),
      fun _ => ⟨by rw [hr], hdur, hres⟩, fun _ hn he => ?_, ?_⟩
    · rw [hop, hn, he]; simp [Io.Op.isPoll]
    · -- okSerial
      rw [hdur, hop]
      obtain ⟨now, dl⟩ := c
      cases dl with
      | none => simp [lateAt] at hl
      | some D =>
        have hle : now ≤ D := by
          simp only [lateAt, decide_eq_false_iff_not, Nat.not_lt] at hl; exact hl
        split <;> simp [Io.okSerial, Io.durOkSerial, Io.outcomeOk, hle, hδ]
  · -- late
    have hr : r = ⟨("err", .sym "ErrRequestTimedOut") :: serialReadEnv true rx, .returned, []⟩ := by
      show exec o fuel gs_serialPortWrapper_Read (serialReadEnv (lateAt c) rx) = _
      rw [hl]; exact serial_read_late o rx fuel hf
    have hdur : readDur portDur r = 0 := by
      rw [hr]; simp [readDur, portReads, Res.argsOf]
    have hop : readOpOf want r = .readEnd want := by rw [hr]; rfl
    refine ⟨by rw [hr], Or.inl (by rw [hr]),
      fun _ => ⟨by rw [hr], hdur, by rw [hr]; rfl, hop⟩, (fun h => nomatch h), (fun h => nomatch h), ?_⟩
    rw [hdur, hop]
    obtain ⟨now, dl⟩ := c
    cases dl with
    | none => simp [Io.okSerial, Io.durOkSerial, Io.outcomeOk]
    | some D =>
      have hlt : ¬ now ≤ D := by
        simp only [lateAt, decide_eq_true_eq] at hl; omega
      simp [Io.okSerial, Io.durOkSerial, Io.outcomeOk, hlt]

theorem readOpOf_isRead (want : Nat) (r : Res) : (readOpOf want r).isRead = true := by
  unfold readOpOf; split <;> rfl

/-- plugged into the model: `C07X_serial_read_step` (Props/C07Ext.lean) applied to the op and the
    duration OF THE EVALUATED RUN - entered not after the deadline `D` the call lasts at most `δ`,
    entered after it it returns at once and is not a `read` -/
theorem C07W_serial_step_of_model (ε δ wmax want portDur t D : Nat) (o : Oracle) (rx : Val)
    (n : Nat) (e : String) (fuel : Nat) (hf : depth gs_serialPortWrapper_Read ≤ fuel)
    (hR : o "spw.port.Read" [rx] = some [.int n, .sym e]) (hδ : portDur ≤ δ) :
    let r := exec o fuel gs_serialPortWrapper_Read (serialReadEnv (lateAt ⟨t, some D⟩) rx)
    (t ≤ D → readDur portDur r ≤ δ) ∧
    (D < t → readDur portDur r = 0 ∧ ∃ k, readOpOf want r = .readEnd k) := by
  intro r
  exact C07X_serial_read_step ε δ wmax t D _ _ (readOpOf_isRead want r)
    (C07W_serial_discipline ε δ wmax want portDur ⟨t, some D⟩ o rx n e fuel hf hR hδ).2.2.2.2.2

/-- conversely the two clauses of `durOkSerial` for reads are attained by the code: a read entered
    at the deadline itself (`now = D`, not `After`) still blocks for the whole port timeout -/
example : lateAt ⟨100, some 100⟩ = false ∧ lateAt ⟨101, some 100⟩ = true ∧ lateAt ⟨5, none⟩ = true := by
  decide

/-! ## 3. `discard` -/

/-- environment of `discard(link)`: the parameter and the two opaque leaves -/
def discardEnv (lk bufV dlV : Val) (env0 : Env) : Env :=
  ("link", lk) :: ("make([]byte, 1024)", bufV) :: ("time.Now().Add(500 * time.Microsecond)", dlV) :: env0

/-- `discard(link)`: `rxbuf = make([]byte, 1024)`; ONE `link.SetDeadline [now + 500 µs]`; ONE
    `io.ReadFull [link, rxbuf]`; return. The results of both calls are bound to nothing: whatever
    they are (`sdRes`, `rfRes` arbitrary) the final environment and the way the run ends are the
    same - the outcome is ignored. -/
theorem C07W_discard (o : Oracle) (env0 : Env) (lk bufV dlV : Val) (sdRes rfRes : List Val)
    (fuel : Nat) (hf : depth gs_discard ≤ fuel)
    (hS : o "link.SetDeadline" [dlV] = some sdRes)
    (hR : o "io.ReadFull" [lk, bufV] = some rfRes) :
    exec o fuel gs_discard (discardEnv lk bufV dlV env0) =
      ⟨("rxbuf", bufV) :: discardEnv lk bufV dlV env0, .returned,
        [("link.SetDeadline", [dlV]), ("io.ReadFull", [lk, bufV])]⟩ := by
  rw [exec_at _ _ _ 4 _ (by decide) (by decide) hf]
  go_eval [gs_discard, discardEnv, hS, hR, write_def]

/-- the constants of `discard`, read off the generated term: the deadline argument is the leaf
    `time.Now().Add(500 * time.Microsecond)` = now + 500 000 ns, the buffer is `make([]byte, 1024)`;
    they are the `sd:500000` and `re:1024` / `r:1024:…` events of the flush step of the I/O trace
    model (`Io.resyncOps`) and `Rtu.discardLen` -/
theorem C07W_discard_constants :
    callTextsOfW gs_discard =
      [([], "link.SetDeadline", [some "time.Now().Add(500 * time.Microsecond)"]),
       ([], "io.ReadFull", [some "link", some "rxbuf"])] ∧
    assignedTexts "rxbuf" gs_discard = [some "make([]byte, 1024)"] ∧
    (addArg? "time.Now().Add(500 * time.Microsecond)").bind goDurText? = some 500000 ∧
    (makeLen? "make([]byte, 1024)").bind goIntText? = some 1024 ∧
    Rtu.discardLen = 1024 ∧
    (∀ rate remaining, Io.resyncOps rate remaining =
      [.sleep (Timing.maxRTUFrameLength * Timing.t1 rate), .setDeadline 500000] ++
        Io.rfTrace 1024 remaining) ∧
    Io.showTrace (Io.resyncOps 19200 0).tail = "sd:500000 re:1024" :=
  ⟨by decide +kernel, by decide +kernel, by decide +kernel, by decide +kernel, rfl,
   fun _ _ => rfl, by decide +kernel⟩

/-- sensitivity: a second `io.ReadFull`, or a deadline of another leaf, changes the call log -/
example : (exec (fun _ _ => some []) 6
      (.seq (.bindCall [] "io.ReadFull" [(.var "link" .other), (.var "rxbuf" .other)]) gs_discard)
      (discardEnv (.sym "L") (.sym "B") (.sym "D") [])).calls ≠
    [("link.SetDeadline", [.sym "D"]), ("io.ReadFull", [.sym "L", .sym "B"])] := by decide +kernel
example : (exec (fun _ _ => some []) 6 gs_discard
      (discardEnv (.sym "L") (.sym "B") (.sym "D") [])).calls =
    [("link.SetDeadline", [.sym "D"]), ("io.ReadFull", [.sym "L", .sym "B"])] := by decide +kernel

end Modbus.Props.C07

#print axioms Modbus.Props.C07.C07W_tls_forwards
#print axioms Modbus.Props.C07.C07W_udp_forwards
#print axioms Modbus.Props.C07.C07W_sensitive_setDeadline_slip
#print axioms Modbus.Props.C07.C07W_tls_write
#print axioms Modbus.Props.C07.C07W_tls_write_no_close
#print axioms Modbus.Props.C07.C07W_serial_read
#print axioms Modbus.Props.C07.C07W_serial_setDeadline
#print axioms Modbus.Props.C07.C07W_serial_write
#print axioms Modbus.Props.C07.C07W_serial_fields
#print axioms Modbus.Props.C07.C07W_serial_port_timeout
#print axioms Modbus.Props.C07.C07W_serial_discipline
#print axioms Modbus.Props.C07.C07W_serial_step_of_model
#print axioms Modbus.Props.C07.C07W_sensitive_setDeadline_slip_udp
#print axioms Modbus.Props.C07.C07W_discard
#print axioms Modbus.Props.C07.C07W_discard_constants
