import ModbusVerif.Lemmas.GoEvalWrapLemmas
import ModbusVerif.Model.IoTraceExt
import ModbusVerif.Props.C07Ext
/-
  C07, source tie for the three LINK ADAPTERS between the transports and the socket / serial port
  (tls_utils.go `tlsSockWrapper`, udp.go `udpSockWrapper`, serial.go `serialPortWrapper`) and for
  rtu_transport.go `discard`, as rendered by the translator (`Gen.gs_tlsSockWrapper_*`,
  `Gen.gs_udpSockWrapper_*`, `Gen.gs_serialPortWrapper_*`, `Gen.gs_discard`; regenerated from /repo
  on every run) and EVALUATED by `Modbus.GoEval`.

  The clocked model of C07 (`Model/IoTrace.lean`, `Model/IoTraceExt.lean`, `Props/C07Ext.lean`) talks
  about `SetDeadline` / `Read` / `Write` ON THE LINK THE TRANSPORT HOLDS. For tcp that is the socket;
  for tcp+tls, udp and rtu it is one of the adapters. What is proved here, for ALL argument values,
  ALL results of the inner calls (the oracle is universally quantified) and all sufficiently large fuel:

  1. FORWARDING (`C07W_tls_forwards`, `C07W_udp_forwards`): each pass-through method makes exactly one
     call, to the method OF THE SAME NAME on the inner link (the inner callee is COMPUTED from the
     method name: `tsw.sock.` ++ name), with the caller's arguments, and the only effect on the
     environment is that the inner results are bound to the result variables; if the inner call is
     not answered the run stops AT that call. So an armed deadline reaches the socket as the same
     kind of deadline with the same value. `tlsSockWrapper.Write` (`C07W_tls_write`) additionally
     calls `tsw.sock.Close` iff the inner write returned a non-nil error with `os.IsTimeout(err)`.
  2. SERIAL (`C07W_serial_read`, `C07W_serial_setDeadline`, `C07W_serial_write`,
     `C07W_serial_discipline`, `C07W_serial_port_timeout`): the deadline is emulated. The evaluated
     `Read` has exactly the two behaviours `Io.durOkSerial` / `Io.okSerial` assume, so the only
     runtime assumption left is "`port.Read` returns within the port's configured timeout", and that
     timeout is the constant 10 ms of the `serial.Config` literal in `Open`.
  3. `C07W_discard`: `SetDeadline(now + 500 µs)`, ONE `io.ReadFull` of a 1024-byte buffer, outcome
     ignored = the flush step `Io.resyncOps` / `Rtu.discardLen` of the model.

  What is modelled (not derived from the generated terms):
  * result parameters: the generated facts do not list the NAMES of a function's result parameters.
    All returns of these functions are bare `return`s, so the results are the named results of
    the Go signature; the theorems below give the WHOLE final environment (the inner results are
    bound to the `bindCall` targets and nothing else changes), which covers every possible naming;
    the names `err`, `rlen`/`wlen`/`cnt`, `addr` used in the tables are those of the Go signatures.
  * `serial.ErrTimeout` (a variable of package goburrow/serial, not a constant of this package) is
    bound to the symbol of its own name: a value distinct from `nil` and from every other error.
  * `os.IsTimeout(err)` and `time.Now().After(spw.deadline)` are boolean leaves; the theorems
    quantify over their values (for `os.IsTimeout` as an arbitrary function of the returned error).
  * the units of Go's `time` package (`GoEval.goTimeUnit?`).
  * `time.Now().After(d)` is `d < now` on the clock of `Io.Clock`; a `serialPortWrapper` on which
    `SetDeadline` was never called has the zero `time.Time`, which every `time.Now()` is after.
-/
set_option linter.unusedSimpArgs false
set_option linter.unusedVariables false

namespace Modbus.Props.C07
open Modbus Modbus.Gen Modbus.GoEval

/-! ## 1. forwarding -/

/-- `s` is a pass-through to `inner`: run with the parameters `params` bound to ANY values `args`
    (on top of ANY environment) against ANY oracle,
    * if the oracle answers `inner args` with `rs`: the run returns, the call log is exactly
      `[(inner, args)]`, and the final environment is the initial one with `rs` bound to `results`;
    * if it does not answer: the run stops at `inner args` having called nothing. -/
def PassThrough (s : GStmt) (inner : String) (params results : List String) : Prop :=
  ∀ (o : Oracle) (env0 : Env) (args rs : List Val) (fuel : Nat),
    args.length = params.length → rs.length = results.length → depth s ≤ fuel →
    (o inner args = some rs →
      exec o fuel s (bindAll env0 params args) =
        ⟨bindAll (bindAll env0 params args) results rs, .returned, [(inner, args)]⟩) ∧
    (o inner args = none →
      exec o fuel s (bindAll env0 params args) =
        ⟨bindAll env0 params args, .stoppedAt inner args, []⟩)

/-- method `m.1` of `wrapper` (receiver variable `recv`, result variables `m.2`): the generated term
    and its parameter list are looked up BY NAME, the inner callee is `recv.sock.<same name>` -/
def Forwards (wrapper recv : String) (m : String × List String) : Prop :=
  ∃ s params, gstmtTable.lookup (wrapper ++ "." ++ m.1) = some s ∧
    gsParams.lookup (wrapper ++ "." ++ m.1) = some params ∧
    loopFree s = true ∧
    PassThrough s (recv ++ ".sock." ++ m.1) params m.2

/-- the pass-through methods of `tlsSockWrapper` (all but `Write`) with their result variables -/
def tlsMethods : List (String × List String) :=
  [("Read", ["rlen", "err"]), ("Close", ["err"]), ("SetDeadline", ["err"]),
   ("SetReadDeadline", ["err"]), ("SetWriteDeadline", ["err"]),
   ("LocalAddr", ["addr"]), ("RemoteAddr", ["addr"])]

/-- the pass-through methods of `udpSockWrapper` (all but `Read`, see Props/C12UdpSrc.lean) -/
def udpMethods : List (String × List String) :=
  [("Write", ["wlen", "err"]), ("Close", ["err"]), ("SetDeadline", ["err"]),
   ("SetReadDeadline", ["err"]), ("SetWriteDeadline", ["err"]),
   ("LocalAddr", ["addr"]), ("RemoteAddr", ["addr"])]

theorem len0 {α} {l : List α} (h : l.length = [].length) : l = [] := List.length_eq_zero_iff.mp h
theorem len1 {α} {l : List α} {x : String} (h : l.length = [x].length) : ∃ a, l = [a] :=
  List.length_eq_one_iff.mp h
theorem len2 {α} {l : List α} {x y : String} (h : l.length = [x, y].length) : ∃ a b, l = [a, b] := by
  match l, h with
  | [a, b], _ => exact ⟨a, b, rfl⟩

/-- one run of a pass-through, both cases -/
syntax "fwd_run" " [" Lean.Parser.Tactic.simpLemma,* "]" : tactic
macro_rules
  | `(tactic| fwd_run [$ls,*]) => `(tactic|
    (refine ⟨fun h => ?_, fun h => ?_⟩ <;>
      (rw [exec_loopFree _ _ _ _ _ (by decide) (Nat.le_refl _) (by assumption)]
       go_eval [$ls,*, h, write_def, depth, Nat.max_self, Nat.reduceAdd])))

theorem pt_tls_Read : PassThrough gs_tlsSockWrapper_Read "tsw.sock.Read" ["buf"] ["rlen", "err"] := by
  intro o env0 args rs fuel ha hr hf
  obtain ⟨a, rfl⟩ := len1 ha
  obtain ⟨r1, r2, rfl⟩ := len2 hr
  fwd_run [gs_tlsSockWrapper_Read]
theorem pt_tls_Close : PassThrough gs_tlsSockWrapper_Close "tsw.sock.Close" [] ["err"] := by
  intro o env0 args rs fuel ha hr hf
  obtain rfl := len0 ha
  obtain ⟨r1, rfl⟩ := len1 hr
  fwd_run [gs_tlsSockWrapper_Close]
theorem pt_tls_SetDeadline :
    PassThrough gs_tlsSockWrapper_SetDeadline "tsw.sock.SetDeadline" ["deadline"] ["err"] := by
  intro o env0 args rs fuel ha hr hf
  obtain ⟨a, rfl⟩ := len1 ha
  obtain ⟨r1, rfl⟩ := len1 hr
  fwd_run [gs_tlsSockWrapper_SetDeadline]
theorem pt_tls_SetReadDeadline :
    PassThrough gs_tlsSockWrapper_SetReadDeadline "tsw.sock.SetReadDeadline" ["deadline"] ["err"] := by
  intro o env0 args rs fuel ha hr hf
  obtain ⟨a, rfl⟩ := len1 ha
  obtain ⟨r1, rfl⟩ := len1 hr
  fwd_run [gs_tlsSockWrapper_SetReadDeadline]
theorem pt_tls_SetWriteDeadline :
    PassThrough gs_tlsSockWrapper_SetWriteDeadline "tsw.sock.SetWriteDeadline" ["deadline"] ["err"] := by
  intro o env0 args rs fuel ha hr hf
  obtain ⟨a, rfl⟩ := len1 ha
  obtain ⟨r1, rfl⟩ := len1 hr
  fwd_run [gs_tlsSockWrapper_SetWriteDeadline]
theorem pt_tls_LocalAddr : PassThrough gs_tlsSockWrapper_LocalAddr "tsw.sock.LocalAddr" [] ["addr"] := by
  intro o env0 args rs fuel ha hr hf
  obtain rfl := len0 ha
  obtain ⟨r1, rfl⟩ := len1 hr
  fwd_run [gs_tlsSockWrapper_LocalAddr]
theorem pt_tls_RemoteAddr : PassThrough gs_tlsSockWrapper_RemoteAddr "tsw.sock.RemoteAddr" [] ["addr"] := by
  intro o env0 args rs fuel ha hr hf
  obtain rfl := len0 ha
  obtain ⟨r1, rfl⟩ := len1 hr
  fwd_run [gs_tlsSockWrapper_RemoteAddr]

theorem pt_udp_Write : PassThrough gs_udpSockWrapper_Write "usw.sock.Write" ["buf"] ["wlen", "err"] := by
  intro o env0 args rs fuel ha hr hf
  obtain ⟨a, rfl⟩ := len1 ha
  obtain ⟨r1, r2, rfl⟩ := len2 hr
  fwd_run [gs_udpSockWrapper_Write]
theorem pt_udp_Close : PassThrough gs_udpSockWrapper_Close "usw.sock.Close" [] ["err"] := by
  intro o env0 args rs fuel ha hr hf
  obtain rfl := len0 ha
  obtain ⟨r1, rfl⟩ := len1 hr
  fwd_run [gs_udpSockWrapper_Close]
theorem pt_udp_SetDeadline :
    PassThrough gs_udpSockWrapper_SetDeadline "usw.sock.SetDeadline" ["deadline"] ["err"] := by
  intro o env0 args rs fuel ha hr hf
  obtain ⟨a, rfl⟩ := len1 ha
  obtain ⟨r1, rfl⟩ := len1 hr
  fwd_run [gs_udpSockWrapper_SetDeadline]
theorem pt_udp_SetReadDeadline :
    PassThrough gs_udpSockWrapper_SetReadDeadline "usw.sock.SetReadDeadline" ["deadline"] ["err"] := by
  intro o env0 args rs fuel ha hr hf
  obtain ⟨a, rfl⟩ := len1 ha
  obtain ⟨r1, rfl⟩ := len1 hr
  fwd_run [gs_udpSockWrapper_SetReadDeadline]
theorem pt_udp_SetWriteDeadline :
    PassThrough gs_udpSockWrapper_SetWriteDeadline "usw.sock.SetWriteDeadline" ["deadline"] ["err"] := by
  intro o env0 args rs fuel ha hr hf
  obtain ⟨a, rfl⟩ := len1 ha
  obtain ⟨r1, rfl⟩ := len1 hr
  fwd_run [gs_udpSockWrapper_SetWriteDeadline]
theorem pt_udp_LocalAddr : PassThrough gs_udpSockWrapper_LocalAddr "usw.sock.LocalAddr" [] ["addr"] := by
  intro o env0 args rs fuel ha hr hf
  obtain rfl := len0 ha
  obtain ⟨r1, rfl⟩ := len1 hr
  fwd_run [gs_udpSockWrapper_LocalAddr]
theorem pt_udp_RemoteAddr : PassThrough gs_udpSockWrapper_RemoteAddr "usw.sock.RemoteAddr" [] ["addr"] := by
  intro o env0 args rs fuel ha hr hf
  obtain rfl := len0 ha
  obtain ⟨r1, rfl⟩ := len1 hr
  fwd_run [gs_udpSockWrapper_RemoteAddr]

/-- FORWARDING, `tlsSockWrapper`: `Read`, `Close`, `SetDeadline`, `SetReadDeadline`,
    `SetWriteDeadline`, `LocalAddr`, `RemoteAddr` each make exactly one call, to `tsw.sock.<same
    name>`, with the caller's arguments, and hand back the inner results. -/
theorem C07W_tls_forwards : ∀ m ∈ tlsMethods, Forwards "tlsSockWrapper" "tsw" m := by
  intro m hm
  simp only [tlsMethods, List.mem_cons, List.not_mem_nil, or_false] at hm
  rcases hm with rfl | rfl | rfl | rfl | rfl | rfl | rfl
  · exact ⟨_, _, by rfl, by decide +kernel, by decide, pt_tls_Read⟩
  · exact ⟨_, _, by rfl, by decide +kernel, by decide, pt_tls_Close⟩
  · exact ⟨_, _, by rfl, by decide +kernel, by decide, pt_tls_SetDeadline⟩
  · exact ⟨_, _, by rfl, by decide +kernel, by decide, pt_tls_SetReadDeadline⟩
  · exact ⟨_, _, by rfl, by decide +kernel, by decide, pt_tls_SetWriteDeadline⟩
  · exact ⟨_, _, by rfl, by decide +kernel, by decide, pt_tls_LocalAddr⟩
  · exact ⟨_, _, by rfl, by decide +kernel, by decide, pt_tls_RemoteAddr⟩

/-- FORWARDING, `udpSockWrapper`: `Write`, `Close`, `SetDeadline`, `SetReadDeadline`,
    `SetWriteDeadline`, `LocalAddr`, `RemoteAddr` -/
theorem C07W_udp_forwards : ∀ m ∈ udpMethods, Forwards "udpSockWrapper" "usw" m := by
  intro m hm
  simp only [udpMethods, List.mem_cons, List.not_mem_nil, or_false] at hm
  rcases hm with rfl | rfl | rfl | rfl | rfl | rfl | rfl
  · exact ⟨_, _, by rfl, by decide +kernel, by decide, pt_udp_Write⟩
  · exact ⟨_, _, by rfl, by decide +kernel, by decide, pt_udp_Close⟩
  · exact ⟨_, _, by rfl, by decide +kernel, by decide, pt_udp_SetDeadline⟩
  · exact ⟨_, _, by rfl, by decide +kernel, by decide, pt_udp_SetReadDeadline⟩
  · exact ⟨_, _, by rfl, by decide +kernel, by decide, pt_udp_SetWriteDeadline⟩
  · exact ⟨_, _, by rfl, by decide +kernel, by decide, pt_udp_LocalAddr⟩
  · exact ⟨_, _, by rfl, by decide +kernel, by decide, pt_udp_RemoteAddr⟩

end Modbus.Props.C07
