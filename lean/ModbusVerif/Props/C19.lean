import ModbusVerif.Model.Timing
/-
  C19 — RTU timing: the character time is eleven bit times truncated to the nanosecond, t3.5 is
  3.5 character times below 19200 bps (within 4.5 ns below the exact value) and 1.75 ms from
  19200 bps on, no int64 overflow, and no request is transmitted before `lastActivity + t3.5`
  (assumption A-sleep: time.Sleep(d) lasts at least d; monotonic clock).
-/
namespace Modbus.Props.C19
open Modbus.Timing

/-! ### character time and t3.5 -/

/-- (1) -/
theorem charTime_eleven_bits (rate : Nat) (_h : rate ≥ 1) : charTime rate = 11 * 10^9 / rate := by
  simp [charTime]

/-- (1) eleven bit times, truncated to the nanosecond:
    `charTime ≤ 11·10^9 / rate < charTime + 1` as real numbers -/
theorem charTime_bounds (rate : Nat) (h : rate ≥ 1) :
    charTime rate * rate ≤ 11 * 10^9 ∧ 11 * 10^9 < (charTime rate + 1) * rate := by
  unfold charTime
  refine ⟨by simpa using Nat.div_mul_le_self 11000000000 rate, ?_⟩
  have := Nat.lt_mul_div_succ 11000000000 (show 0 < rate by omega)
  rw [Nat.mul_comm] at this
  simpa using this

/-- (2) faster line, shorter character -/
theorem charTime_anti {r₁ r₂ : Nat} (h1 : 1 ≤ r₁) (h : r₁ ≤ r₂) : charTime r₂ ≤ charTime r₁ :=
  Nat.div_le_div_left h (by omega)

theorem charTime_le (rate : Nat) : charTime rate ≤ 11000000000 := Nat.div_le_self _ _

/-- (3) the intermediate product of `(serialCharTime(speed) * 35) / 10` fits an int64 -/
theorem no_overflow (rate : Nat) (_h : rate ≥ 1) : charTime rate * 35 < 2^63 := by
  have := charTime_le rate
  omega

theorem t35_high (rate : Nat) (h : rate ≥ 19200) : t35 rate = 1750000 := by
  simp [t35, h]

theorem t35_low (rate : Nat) (h1 : 1 ≤ rate) (h : rate < 19200) :
    t35 rate = charTime rate * 35 / 10 ∧
    10 * t35 rate ≤ 35 * charTime rate ∧ 35 * charTime rate < 10 * (t35 rate + 1) := by
  have : ¬ rate ≥ 19200 := by omega
  unfold t35
  rw [if_neg this]
  refine ⟨rfl, ?_, ?_⟩ <;> omega

/-- (2) distance to the exact 3.5 · 11 / rate seconds = 38.5·10^9 / rate ns, in units of
    1/(10·rate) ns: `t35 ≤ exact < t35 + 1 + 3.5`, i.e. at most 4.5 ns short, never long -/
theorem t35_low_exact (rate : Nat) (h1 : 1 ≤ rate) (h : rate < 19200) :
    10 * rate * t35 rate ≤ 385 * 10^9 ∧ 385 * 10^9 < 10 * rate * (t35 rate + 1) + 35 * rate := by
  obtain ⟨_, h2, h3⟩ := t35_low rate h1 h
  obtain ⟨h4, h5⟩ := charTime_bounds rate h1
  generalize t35 rate = T at *
  generalize charTime rate = C at *
  have e1 : 10 * rate * T = 10 * (T * rate) := by rw [Nat.mul_assoc, Nat.mul_comm rate T]
  have e2 : 10 * rate * (T + 1) = 10 * (T * rate) + 10 * rate := by
    rw [Nat.mul_add, e1]; omega
  have e3 : (C + 1) * rate = C * rate + rate := by rw [Nat.add_mul]; omega
  have h2' : 10 * (T * rate) ≤ 35 * (C * rate) := by
    have := Nat.mul_le_mul_right rate h2
    rwa [Nat.mul_assoc, Nat.mul_assoc] at this
  have h3' : 35 * (C * rate) + rate ≤ 10 * (T * rate) + 10 * rate := by
    have := Nat.mul_le_mul_right rate (show 35 * C + 1 ≤ 10 * (T + 1) by omega)
    rw [Nat.add_mul, Nat.mul_assoc, Nat.mul_assoc, Nat.add_mul, Nat.mul_add] at this
    omega
  rw [e1, e2]
  rw [e3] at h5
  omega

/-! ### the silent interval -/

/-- (4) a request is never handed to Write before `lastActivity + t3.5` -/
theorem C19_silence (now lastActivity rate : Nat) :
    txStart now lastActivity rate ≥ lastActivity + t35 rate := by
  unfold txStart; omega

theorem txStart_ge_now (now lastActivity rate : Nat) : txStart now lastActivity rate ≥ now := by
  unfold txStart; omega

/-- no needless waiting in the model: the bound is attained when the line was idle long enough -/
theorem txStart_idle (now lastActivity rate : Nat) (h : lastActivity + t35 rate ≤ now) :
    txStart now lastActivity rate = now := by
  unfold txStart; omega

/-- one exchange, any schedule: the clock readings are ordered, transmission starts at least
    t3.5 after the recorded last activity, reading starts at least t3.5 after the estimated
    end of the transmission -/
theorem exchange_order (rate la : Nat) (ev : Events) :
    let t := exchangeTimes rate la ev
    la + t35 rate ≤ t.ts ∧ ev.now ≤ t.ts ∧ t.ts ≤ t.txEnd ∧ t.txEnd ≤ t.readStart ∧
    t.readStart ≤ t.readEnd ∧ t.readEnd ≤ t.finish ∧
    (ev.writeErr = false → t.txEnd = t.ts + ev.n * t1 rate ∧ t.txEnd + t35 rate ≤ t.readStart) := by
  have h1 := C19_silence ev.now la rate
  have h2 := txStart_ge_now ev.now la rate
  unfold exchangeTimes
  cases hw : ev.writeErr <;> cases ho : ev.outcome <;> simp <;> omega

/-- what is recorded at return: unchanged on a write error; the estimated end of the own frame
    when the sentinel ErrRequestTimedOut came back; otherwise the final clock reading, which is
    not before the return of the read (so not before the last received byte), and not before
    `256·t1` after it on a bad frame -/
theorem exchange_record (rate la : Nat) (ev : Events) :
    let t := exchangeTimes rate la ev
    (ev.writeErr = true → t.lastActivity' = la) ∧
    (ev.writeErr = false → ev.outcome = .timedOut → t.lastActivity' = t.txEnd) ∧
    (ev.writeErr = false → ev.outcome ≠ .timedOut → t.lastActivity' = t.finish) ∧
    (ev.writeErr = false → ev.outcome = .resync →
      t.readEnd + maxRTUFrameLength * t1 rate ≤ t.lastActivity') ∧
    la ≤ t.lastActivity' ∧ t.lastActivity' ≤ t.finish := by
  have h1 := C19_silence ev.now la rate
  unfold exchangeTimes
  cases hw : ev.writeErr <;> cases ho : ev.outcome <;> simp <;> omega

/-- when a frame went out, the recorded activity is never before the estimated end of it, and
    never before the return of the read when something other than the timeout sentinel came back -/
theorem exchange_record_ge (rate la : Nat) (ev : Events) (hw : ev.writeErr = false) :
    let t := exchangeTimes rate la ev
    t.txEnd ≤ t.lastActivity' ∧ (ev.outcome ≠ .timedOut → t.readEnd ≤ t.lastActivity') := by
  unfold exchangeTimes
  cases ho : ev.outcome <;> simp [hw] <;> omega

/-! ### histories -/

theorem history_length (rate la : Nat) (evs : List Events) :
    (history rate la evs).length = evs.length := by
  induction evs generalizing la with
  | nil => rfl
  | cons ev evs ih => simp [history, ih]

/-- each record is the exchange run from the recorded `lastActivity` on the i-th events -/
theorem history_step (rate la : Nat) (evs : List Events) (i : Nat)
    (h : i < (history rate la evs).length) (h' : i < evs.length) :
    ((history rate la evs)[i]).2 = exchangeTimes rate ((history rate la evs)[i]).1 evs[i] := by
  induction evs generalizing la i with
  | nil => simp at h'
  | cons ev evs ih =>
    cases i with
    | zero => simp [history]
    | succ i =>
      simp only [history, List.length_cons] at h h'
      simpa [history] using ih (exchangeTimes rate la ev).lastActivity' i (by omega) (by omega)

/-- the `lastActivity` an exchange starts from is the one recorded at the end of the previous one -/
theorem history_link (rate la : Nat) (evs : List Events) (i : Nat)
    (h : i + 1 < (history rate la evs).length) :
    ((history rate la evs)[i + 1]).1 = ((history rate la evs)[i]).2.lastActivity' := by
  induction evs generalizing la i with
  | nil => simp [history] at h
  | cons ev evs ih =>
    cases i with
    | zero =>
      cases evs with
      | nil => simp [history] at h
      | cons ev2 evs => simp [history]
    | succ i =>
      simp only [history, List.length_cons] at h
      simpa [history] using ih (exchangeTimes rate la ev).lastActivity' i (by omega)

/-- (4, history version) for any sequence of calls, with arbitrary call times, delays, reply
    times and outcomes: transmission n+1 starts no earlier than t3.5 after the `lastActivity`
    recorded at the end of exchange n -/
theorem C19_silence_history (rate la : Nat) (evs : List Events) (i : Nat)
    (h : i + 1 < (history rate la evs).length) :
    ((history rate la evs)[i + 1]).2.ts ≥
      ((history rate la evs)[i]).2.lastActivity' + t35 rate := by
  have h' : i + 1 < evs.length := by rw [history_length] at h; exact h
  rw [history_step rate la evs (i + 1) h h', ← history_link rate la evs i h]
  exact (exchange_order rate _ _).1

/-- ... in particular, when frame n went out: no earlier than t3.5 after the estimated end of
    that frame, and no earlier than t3.5 after the n-th read returned with anything but the
    timeout sentinel (hence t3.5 after the last byte heard) -/
theorem C19_silence_bus (rate la : Nat) (evs : List Events) (i : Nat)
    (h : i + 1 < (history rate la evs).length) (hi : i < evs.length)
    (hw : evs[i].writeErr = false) :
    ((history rate la evs)[i + 1]).2.ts ≥ ((history rate la evs)[i]).2.txEnd + t35 rate ∧
    (evs[i].outcome ≠ .timedOut →
      ((history rate la evs)[i + 1]).2.ts ≥ ((history rate la evs)[i]).2.readEnd + t35 rate) := by
  have hs := C19_silence_history rate la evs i h
  have hr := exchange_record_ge rate ((history rate la evs)[i]).1 evs[i] hw
  rw [← history_step rate la evs i (by omega) hi] at hr
  refine ⟨by have := hr.1; omega, fun ho => by have := hr.2 ho; omega⟩

/-- the recorded last activity never decreases along a history and is never in the future -/
theorem history_monotone (rate la : Nat) (evs : List Events) (i : Nat)
    (h : i < (history rate la evs).length) :
    ((history rate la evs)[i]).1 ≤ ((history rate la evs)[i]).2.lastActivity' ∧
    ((history rate la evs)[i]).2.lastActivity' ≤ ((history rate la evs)[i]).2.finish := by
  have h' : i < evs.length := by rw [history_length] at h; exact h
  rw [history_step rate la evs i h h']
  have := exchange_record rate ((history rate la evs)[i]).1 evs[i]
  exact ⟨this.2.2.2.2.1, this.2.2.2.2.2⟩

/-- with a physically possible schedule (each call made after the previous one returned)
    exchange n+1 transmits after exchange n has returned -/
theorem history_sequential (rate la pf : Nat) (evs : List Events) (hw : wellTimed rate la pf evs)
    (i : Nat) (h : i + 1 < (history rate la evs).length) :
    ((history rate la evs)[i]).2.finish ≤ ((history rate la evs)[i + 1]).2.ts := by
  induction evs generalizing la pf i with
  | nil => simp [history] at h
  | cons ev evs ih =>
    cases evs with
    | nil => simp [history] at h
    | cons ev2 evs =>
      cases i with
      | zero =>
        simp only [wellTimed] at hw
        have := (exchange_order rate (exchangeTimes rate la ev).lastActivity' ev2).2.1
        simp only [history, List.getElem_cons_zero, List.getElem_cons_succ]
        omega
      | succ i =>
        simp only [history, List.length_cons] at h
        have := ih (exchangeTimes rate la ev).lastActivity' (exchangeTimes rate la ev).finish hw.2 i
          (by simp only [history, List.length_cons]; omega)
        simpa [history] using this

/-! ### non-vacuity -/

example : charTime 9600 = 1145833 ∧ t35 9600 = 4010415 := by decide
example : charTime 19200 = 572916 ∧ t35 19200 = 1750000 := by decide
example : charTime 115200 = 95486 ∧ t35 115200 = 1750000 := by decide
example : charTime 300 = 36666666 ∧ t35 300 = 128333331 := by decide
example : charTime 1 = 11000000000 ∧ t35 1 = 38500000000 := by decide

/-- the step at the threshold: just below 19200 bps the gap is 3.5 character times (2.005 ms),
    from 19200 bps on it is the fixed 1.75 ms (3.05 character times at 19200 bps) -/
theorem t35_threshold : t35 19199 = 2005311 ∧ t35 19200 = 1750000 ∧
    10 * 1750000 < 35 * charTime 19200 := by decide

/-- two calls at 9600 bps, the first one answered; the second call comes 7 ms after the first
    returned: no wait -/
example :
    let h := history 9600 0 [{ now := 10000000, n := 8, readDur := 9000000 },
                             { now := 38177079 + 1000000, n := 8 }]
    h.map (fun r => (r.1, r.2.ts, r.2.lastActivity')) =
      [(0, 10000000, 32177079), (32177079, 39177079, 52354158)] := by decide
/-- the second call comes 1 ms after the first returned: transmission waits for t3.5 -/
example :
    let h := history 9600 0 [{ now := 10000000, n := 8, readDur := 9000000 },
                             { now := 32177079 + 1000000, n := 8 }]
    h.map (fun r => (r.1, r.2.ts)) = [(0, 10000000), (32177079, 32177079 + 4010415)] := by decide
/-- a timeout sentinel leaves the estimated end of the own frame as last activity -/
example : (exchangeTimes 19200 0 { now := 5000000, n := 8, readDur := 300000000,
                                   outcome := .timedOut }).lastActivity' = 5000000 + 8 * 572916 := by
  decide
/-- a bad frame costs 256 character times -/
example : (exchangeTimes 19200 0 { now := 5000000, n := 8, readDur := 1000,
                                   outcome := .resync }).lastActivity'
    = (5000000 + 8 * 572916 + 1750000 + 1000) + 256 * 572916 := by decide
example : (exchangeTimes 19200 7 { now := 5000000, writeErr := true }).lastActivity' = 7 := by decide

#print axioms charTime_eleven_bits
#print axioms charTime_bounds
#print axioms charTime_anti
#print axioms no_overflow
#print axioms t35_high
#print axioms t35_low
#print axioms t35_low_exact
#print axioms t35_threshold
#print axioms C19_silence
#print axioms txStart_ge_now
#print axioms txStart_idle
#print axioms exchange_order
#print axioms exchange_record
#print axioms exchange_record_ge
#print axioms history_length
#print axioms history_step
#print axioms history_link
#print axioms C19_silence_history
#print axioms C19_silence_bus
#print axioms history_monotone
#print axioms history_sequential

end Modbus.Props.C19
