import ModbusVerif.Lemmas.GoEvalCliLemmas
import ModbusVerif.Lemmas.CliExtLemmas
import ModbusVerif.Props.C20
/-
  C20, source tie: the ARGUMENT PARSING of the CURRENT cmd/modbus-cli.go, as rendered by the
  translator (`Gen.gs_cli_main`, `Gen.gs_cli_parse…`, regenerated from /repo on every run), is
  EVALUATED by `Modbus.GoEval` and proved to agree with the hand-written model `Modbus.Cli`
  (Model/Cli.lean: `parseUintE` / `parseIntE`, `parseUint16E … parseUnitIdE`,
  `parseAddressAndQuantityE`, `parseParts`, `cmdTable`, `regTyTable`, `parseWrValue`) about which
  Props/C20.lean and Props/C20Ext.lean prove the property. Definitions (accessors, environment,
  oracle, observation) are in Lemmas/GoEvalCliLemmas.lean: read its header.

  1. NUMERIC HELPERS (`C20S_parse_helpers`, `C20S_parse_helpers_run`, `C20S_conv_*`,
     `C20S_parse_floats`, `C20S_parseHexBytes`). For EVERY argument text `s`, with `strconv.ParseUint` /
     `ParseInt` answering what the model's `Cli.parseUintE bits` / `parseIntE bits` say WHEN CALLED
     WITH (s, base 0, bits) — the oracle is keyed on the evaluated arguments of the `bindCall`, it is
     undefined for any other base —, each `parseX` returns exactly what `Cli.parseXE s` says: on
     success the named result holds `x.toNat` for the model's bit vector `x` (`uint16(val)` =
     `BitVec.ofNat 16`, `uint16(int16(val))` = `BitVec.ofInt 16`, … evaluated by the typed `conv`
     chain), on error the result variable is NOT assigned (zero value) and the error is returned.
     The single call made is logged with its evaluated arguments: base 0 and bit size
     16/16/32/32/64/64 (8 for the unit id; `ParseFloat` with 32/64).
     Sensitivity: `C20S_sensitive_bits32` (bit size 32 in `parseInt16`: "40000" is accepted and
     truncated, the model refuses it).
  2. `C20S_parseAddressAndQuantity`: for every `in` and every split of it: one part → address
     from the WHOLE string, quantity not assigned; two parts → address from part 0, and if that
     fails RETURN AT ONCE with its error (part 1 is not parsed), else quantity from part 1;
     otherwise `errors.New("illegal format")`, nothing parsed. `C20S_parseAddressAndQuantity_model`:
     that is `Cli.parseAddressAndQuantityE`. Sensitivity: `C20S_sensitive_no_early_return`.
  3. ONE ROUND OF THE ARGUMENT LOOP (`C20S_round`): for EVERY argument already split into
     `name :: args` (any number of parts, any texts), with the parse helpers answering what the
     model's functions say (parts 1 and 2 tie them to the source), the loop body of `gs_cli_main`
     ends
       * cut at `os.Exit(2)` exactly when `Cli.parseParts` refuses the argument, and
       * otherwise falls through to `runList = append(runList, o)` with the record `o` holding
         exactly the fields `Agrees` lists for the model's `Operation` (operation code, address,
         quantity, flags, value), every other field unassigned.
     `C20S_round_refused` / `C20S_round_accepted` / `C20S_round_iff` spell the two directions out,
     `C20S_round_parseArg` states it for `Cli.parseArg arg` on the parts of `Cli.splitOn ':'`,
     `C20S_round_fuel`: any fuel ≥ 60.
     Per arm: `C20S_go_*` (what the Go arm does, for all inputs, as an `if` tree over the helper
     answers: accepted names incl. all aliases, arity test, type table, which helper on which part,
     which fields). Static companions: `C20S_command_names` (the `case` literals = `Cli.cmdTable`),
     `C20S_arity_tests`, `C20S_type_tables`, `C20S_helper_calls`, `C20S_assigned_fields`.
     FRESH RECORD: `C20S_fresh_record` (the markers `splitArgs ← var []string`, `o ← var operation`
     are the first two statements of the loop body, ahead of every read / assignment of `o.*`),
     `C20S_flags_rely_on_zero_value` (rdi / ri do NOT assign `o.isCoil` / `o.isHoldingReg`: only the
     rc / rh aliases assign `true`; so the source relies on the re-initialisation, not on
     "assigned in every arm"), `C20S_stale_flag_would_leak` (a left-over `o.isCoil` survives an
     `rdi` round when nothing re-initialises `o`: what the hoisted variant does).
     REFUSED BEFORE ANY REQUEST: `C20S_exit_codes` (every `os.Exit` of the loop has the literal 2),
     `C20S_args_loop_callees`, `C20S_args_loop_no_request` (EVERY run of the argument loop, any
     oracle / environment / fuel, performs — and is cut at — only these callees: no `client.*`,
     no `modbus.NewClient`).
  4. ORDER (`C20S_order`, `C20S_sequential`): the top-level statements of `main`:
     `flag.Parse` (13) → argument loop (24) → `modbus.NewClient` (25) → `client.SetEncoding` (27) →
     `client.SetUnitId` (30) → `client.Open` (31) → run loop (33); no `client.*` / `modbus.NewClient`
     callee in statements 0–24.

  What is modelled (not derived from the generated terms):
  * texts are symbols: `splitArgs[k]` is bound to the symbol of the k-th part, a Go string literal
    leaf to the symbol of its content (`litEnv_honest`), `==` on strings is equality of symbols;
    `strings.Split(arg, ":")` is a call whose RESULT is described by the leaves `len(splitArgs)`,
    `splitArgs[k]` (that these are the parts of `Cli.splitOn ':'` is the `strings` package's
    contract; `Cli.parseArg = parseParts ∘ splitOn ':'` is `C20_split`);
  * floats: the model's convention (header of Model/Cli.lean): the value field is a numeral of
    the IEEE bit pattern; `parseFloat32` / `parseFloat64` answer accordingly;
  * `o.bytes` and `o.duration` are opaque symbols (which call / leaf produced them is stated);
  * error MESSAGES are not compared (refusal is: `os.Exit(2)` reached); the format text of every
    refusal is in `C20S_arity_tests`;
  * text-keyed leaves: `o.<field>` leaves are separate keys; the marker `o ← var operation` binds
    `o` only. That a fresh `o` has all fields zero is Go's semantics of `var`, used here as: the
    round starts with no `o.*` leaf bound (`startEnv`).
-/
set_option linter.unusedSimpArgs false
set_option linter.unusedVariables false
set_option maxRecDepth 100000

namespace Modbus.Props.C20
open Modbus Modbus.Gen Modbus.GoEval Modbus.GoEval.CliSrc Modbus.CliLemmas

/-! ## 1. the numeric helpers -/

/-- strconv's two error values -/
def errSym : Cli.NumErr → Val
  | .syntax => .sym "strconv.ErrSyntax"
  | .range => .sym "strconv.ErrRange"

theorem errSym_ne_nil (e) : errSym e ≠ .sym "nil" := by cases e <;> decide

/-- `strconv.ParseUint(s, 0, bits)` as modelled; `junk` is the value returned with an error -/
def uintAns (junk : Val) (bits : Nat) (s : String) : List Val :=
  match Cli.parseUintE bits s.toList with
  | .ok n => [.int n, .sym "nil"]
  | .error e => [junk, errSym e]
/-- `strconv.ParseInt(s, 0, bits)` as modelled -/
def intAns (junk : Val) (bits : Nat) (s : String) : List Val :=
  match Cli.parseIntE bits s.toList with
  | .ok z => [.int z, .sym "nil"]
  | .error e => [junk, errSym e]

/-- answers only for (text, base 0, bit size) -/
def strconvAns (junk : Val) (signed : Bool) : List Val → Option (List Val)
  | [.sym s, .int 0, .int bits] =>
    some (if signed then intAns junk bits.toNat s else uintAns junk bits.toNat s)
  | _ => none

theorem strconvAns_def (junk signed s bits) : strconvAns junk signed [.sym s, .int 0, .int bits] =
    some (if signed then intAns junk bits.toNat s else uintAns junk bits.toNat s) := by exact id rfl

/-- strconv as the model describes it -/
def strconvOracle (junk : Val) : Oracle := fun f args =>
  if f = "strconv.ParseUint" then strconvAns junk false args
  else if f = "strconv.ParseInt" then strconvAns junk true args
  else none

/-- an oracle that answers ONE call: callee and exact argument values -/
def oneCall (f : String) (args ans : List Val) : Oracle := fun g a =>
  if g = f then (if a = args then some ans else none) else none

/-- what a helper returned: the named result (`none`: never assigned = zero value), `err`, how the
    run ended, the calls made -/
def helperOut (resVar : String) (r : Res) : Option Val × Val × End × Calls :=
  (Env.read? r.env resVar, Env.read r.env "err", r.how, r.calls)
theorem helperOut_def (x env how cs) :
    helperOut x ⟨env, how, cs⟩ = (Env.read? env x, Env.read env "err", how, cs) := by exact id rfl
theorem helperOut_ite (x) (p : Prop) [Decidable p] (a b : Res) :
    helperOut x (if p then a else b) = if p then helperOut x a else helperOut x b := by split <;> rfl

/-- what the model's helper prescribes -/
def helperExpect {n : Nat} (r : Except Cli.NumErr (BitVec n)) (call : String × List Val) :
    Option Val × Val × End × Calls :=
  match r with
  | .ok x => (some (.int x.toNat), .sym "nil", .returned, [call])
  | .error e => (none, errSym e, .returned, [call])

theorem toNat_ofNat_int (w n : Nat) : ((BitVec.ofNat w n).toNat : Int) = (n : Int) % (2 ^ w : Nat) := by
  simp [BitVec.toNat_ofNat]
theorem toNat_ofInt_int (w : Nat) (z : Int) : ((BitVec.ofInt w z).toNat : Int) = z % (2 ^ w : Nat) := by
  rw [BitVec.toNat_ofInt]
  have h : (0 : Int) < ((2 ^ w : Nat) : Int) := by
    have := Nat.two_pow_pos w; omega
  rw [Int.toNat_of_nonneg (Int.emod_nonneg _ (by omega))]

/-- the conversions the helpers make, evaluated with Go's typed wrap-around, are the model's
    `BitVec.ofNat` / `BitVec.ofInt` — for EVERY 64-bit value, in particular for every value strconv
    can return for the bit size -/
theorem C20S_conv_unsigned (v : Nat) :
    convVal .u16 (.int v) = .int (BitVec.ofNat 16 v).toNat ∧
    convVal .u32 (.int v) = .int (BitVec.ofNat 32 v).toNat ∧
    convVal .u8 (.int v) = .int (BitVec.ofNat 8 v).toNat := by
  simp only [convVal_int, wrap_u16_def, wrap_u32_def, wrap_u8_def, toNat_ofNat_int]
  exact ⟨rfl, rfl, rfl⟩

theorem C20S_conv_signed (z : Int) :
    convVal .u16 (convVal .i16 (.int z)) = .int (BitVec.ofInt 16 z).toNat ∧
    convVal .u32 (convVal .i32 (.int z)) = .int (BitVec.ofInt 32 z).toNat ∧
    convVal .u64 (.int z) = .int (BitVec.ofInt 64 z).toNat := by
  simp only [convVal_int, wrap_u16_def, wrap_i16_def, wrap_u32_def, wrap_i32_def, wrap_u64_def,
    toNat_ofInt_int]
  refine ⟨?_, ?_, ?_⟩
  · congr 1; show _ = z % 65536; omega
  · congr 1; show _ = z % 4294967296; omega
  · rfl

/-- in the range strconv guarantees the signed conversions do not lose the value: the 16-bit
    pattern read back as `int16` is `z` -/
theorem C20S_conv_signed_roundtrip (z : Int) (h0 : -32768 ≤ z) (h1 : z < 32768) :
    (BitVec.ofInt 16 z).toInt = z := by
  rw [BitVec.toInt_ofInt]
  simp only [Int.bmod]
  have : z % ((2 ^ 16 : Nat) : Int) = z % 65536 := rfl
  rw [this]
  split <;> omega

/-- evaluate one helper against the model's strconv -/
syntax "helper_eval" " [" Lean.Parser.Tactic.simpLemma,* "]" : tactic
macro_rules
  | `(tactic| helper_eval [$ls,*]) => `(tactic|
    go_eval [strconvOracle, strconvAns_def, oneCall, Int.reduceToNat, helperOut_def, helperOut_ite,
      helperExpect, Except.map, errSym, toNat_ofNat_int, toNat_ofInt_int, Nat.reducePow,
      Int.cast_ofNat_Int, ne_eq, String.reduceNe, not_true_eq_false, not_false_eq_true, $ls,*])

theorem uintAns_ok {junk bits s n} (h : Cli.parseUintE bits s.toList = .ok n) :
    uintAns junk bits s = [.int n, .sym "nil"] := by simp only [uintAns, h]
theorem uintAns_err {junk bits s e} (h : Cli.parseUintE bits s.toList = .error e) :
    uintAns junk bits s = [junk, errSym e] := by simp only [uintAns, h]
theorem intAns_ok {junk bits s z} (h : Cli.parseIntE bits s.toList = .ok z) :
    intAns junk bits s = [.int z, .sym "nil"] := by simp only [intAns, h]
theorem intAns_err {junk bits s e} (h : Cli.parseIntE bits s.toList = .error e) :
    intAns junk bits s = [junk, errSym e] := by simp only [intAns, h]

theorem tie_parseUint16 (s : String) (junk : Val) :
    helperOut "u16" (exec (strconvOracle junk) 6 gs_cli_parseUint16 [("in", .sym s)]) =
      helperExpect (Cli.parseUint16E s.toList) ("strconv.ParseUint", [.sym s, .int 0, .int 16]) := by
  unfold Cli.parseUint16E
  cases h : Cli.parseUintE 16 s.toList with
  | ok n => helper_eval [gs_cli_parseUint16, uintAns_ok h]
  | error e => cases e <;> helper_eval [gs_cli_parseUint16, uintAns_err h]

theorem tie_parseUint32 (s : String) (junk : Val) :
    helperOut "u32" (exec (strconvOracle junk) 6 gs_cli_parseUint32 [("in", .sym s)]) =
      helperExpect (Cli.parseUint32E s.toList) ("strconv.ParseUint", [.sym s, .int 0, .int 32]) := by
  unfold Cli.parseUint32E
  cases h : Cli.parseUintE 32 s.toList with
  | ok n => helper_eval [gs_cli_parseUint32, uintAns_ok h]
  | error e => cases e <;> helper_eval [gs_cli_parseUint32, uintAns_err h]

theorem tie_parseUint64 (s : String) (junk : Val) :
    helperOut "u64" (exec (strconvOracle junk) 6 gs_cli_parseUint64 [("in", .sym s)]) =
      helperExpect (Cli.parseUint64E s.toList) ("strconv.ParseUint", [.sym s, .int 0, .int 64]) := by
  unfold Cli.parseUint64E
  cases h : Cli.parseUintE 64 s.toList with
  | ok n =>
    have hn : n < 2 ^ 64 := ((CliExt.parseUintE_iff (by decide) s.toList n).mp h).2
    have e : (n : Int) % 18446744073709551616 = n := by omega
    helper_eval [gs_cli_parseUint64, uintAns_ok h, e]
  | error e => cases e <;> helper_eval [gs_cli_parseUint64, uintAns_err h]

theorem tie_parseUnitId (s : String) (junk : Val) :
    helperOut "addr" (exec (strconvOracle junk) 6 gs_cli_parseUnitId [("in", .sym s)]) =
      helperExpect (Cli.parseUnitIdE s.toList) ("strconv.ParseUint", [.sym s, .int 0, .int 8]) := by
  unfold Cli.parseUnitIdE
  cases h : Cli.parseUintE 8 s.toList with
  | ok n => helper_eval [gs_cli_parseUnitId, uintAns_ok h]
  | error e => cases e <;> helper_eval [gs_cli_parseUnitId, uintAns_err h]

theorem mod16 (z : Int) : ((z + 32768) % 65536 - 32768) % 65536 = z % 65536 := by omega
theorem mod32 (z : Int) : ((z + 2147483648) % 4294967296 - 2147483648) % 4294967296 = z % 4294967296 := by
  omega

theorem tie_parseInt16 (s : String) (junk : Val) :
    helperOut "u16" (exec (strconvOracle junk) 6 gs_cli_parseInt16 [("in", .sym s)]) =
      helperExpect (Cli.parseInt16E s.toList) ("strconv.ParseInt", [.sym s, .int 0, .int 16]) := by
  unfold Cli.parseInt16E
  cases h : Cli.parseIntE 16 s.toList with
  | ok z => helper_eval [gs_cli_parseInt16, intAns_ok h, mod16]
  | error e => cases e <;> helper_eval [gs_cli_parseInt16, intAns_err h]

theorem tie_parseInt32 (s : String) (junk : Val) :
    helperOut "u32" (exec (strconvOracle junk) 6 gs_cli_parseInt32 [("in", .sym s)]) =
      helperExpect (Cli.parseInt32E s.toList) ("strconv.ParseInt", [.sym s, .int 0, .int 32]) := by
  unfold Cli.parseInt32E
  cases h : Cli.parseIntE 32 s.toList with
  | ok z => helper_eval [gs_cli_parseInt32, intAns_ok h, mod32]
  | error e => cases e <;> helper_eval [gs_cli_parseInt32, intAns_err h]

theorem tie_parseInt64 (s : String) (junk : Val) :
    helperOut "u64" (exec (strconvOracle junk) 6 gs_cli_parseInt64 [("in", .sym s)]) =
      helperExpect (Cli.parseInt64E s.toList) ("strconv.ParseInt", [.sym s, .int 0, .int 64]) := by
  unfold Cli.parseInt64E
  cases h : Cli.parseIntE 64 s.toList with
  | ok z => helper_eval [gs_cli_parseInt64, intAns_ok h]
  | error e => cases e <;> helper_eval [gs_cli_parseInt64, intAns_err h]

/-- **the numeric helpers are the model's.** For every argument text `s` (and whatever value
    strconv returns next to an error), with `strconv.ParseUint/ParseInt(s, 0, bits)` answering
    `Cli.parseUintE/parseIntE bits s`: each helper makes exactly ONE strconv call, with base 0 and
    the bit size 16 / 16 / 32 / 32 / 64 / 64 / 8, returns, and

    * on success the named result is `x.toNat` for the bit vector `x` the model's helper returns
      (`BitVec.ofNat w` of the unsigned, `BitVec.ofInt w` of the signed value), `err = nil`;
    * on error the named result is never assigned (`none`: it keeps its zero value) and `err` is
      strconv's error. -/
theorem C20S_parse_helpers (s : String) (junk : Val) :
    helperOut "u16" (exec (strconvOracle junk) 6 gs_cli_parseUint16 [("in", .sym s)]) =
      helperExpect (Cli.parseUint16E s.toList) ("strconv.ParseUint", [.sym s, .int 0, .int 16]) ∧
    helperOut "u16" (exec (strconvOracle junk) 6 gs_cli_parseInt16 [("in", .sym s)]) =
      helperExpect (Cli.parseInt16E s.toList) ("strconv.ParseInt", [.sym s, .int 0, .int 16]) ∧
    helperOut "u32" (exec (strconvOracle junk) 6 gs_cli_parseUint32 [("in", .sym s)]) =
      helperExpect (Cli.parseUint32E s.toList) ("strconv.ParseUint", [.sym s, .int 0, .int 32]) ∧
    helperOut "u32" (exec (strconvOracle junk) 6 gs_cli_parseInt32 [("in", .sym s)]) =
      helperExpect (Cli.parseInt32E s.toList) ("strconv.ParseInt", [.sym s, .int 0, .int 32]) ∧
    helperOut "u64" (exec (strconvOracle junk) 6 gs_cli_parseUint64 [("in", .sym s)]) =
      helperExpect (Cli.parseUint64E s.toList) ("strconv.ParseUint", [.sym s, .int 0, .int 64]) ∧
    helperOut "u64" (exec (strconvOracle junk) 6 gs_cli_parseInt64 [("in", .sym s)]) =
      helperExpect (Cli.parseInt64E s.toList) ("strconv.ParseInt", [.sym s, .int 0, .int 64]) ∧
    helperOut "addr" (exec (strconvOracle junk) 6 gs_cli_parseUnitId [("in", .sym s)]) =
      helperExpect (Cli.parseUnitIdE s.toList) ("strconv.ParseUint", [.sym s, .int 0, .int 8]) :=
  ⟨tie_parseUint16 s junk, tie_parseInt16 s junk, tie_parseUint32 s junk, tie_parseInt32 s junk,
   tie_parseUint64 s junk, tie_parseInt64 s junk, tie_parseUnitId s junk⟩

/-- the same helpers against an ARBITRARY answer `(v, e)` of the one strconv call (asked with
    exactly these argument values, base 0 and the bit size): the result is the typed conversion of
    `v` when `e` is nil, and is not assigned otherwise -/
theorem C20S_parse_helpers_run (s e : String) (v : Val) :
    helperOut "u16" (exec (oneCall "strconv.ParseUint" [.sym s, .int 0, .int 16] [v, .sym e]) 6
        gs_cli_parseUint16 [("in", .sym s)]) =
      (if e = "nil" then some (convVal .u16 v) else none, .sym e, .returned,
        [("strconv.ParseUint", [.sym s, .int 0, .int 16])]) ∧
    helperOut "u16" (exec (oneCall "strconv.ParseInt" [.sym s, .int 0, .int 16] [v, .sym e]) 6
        gs_cli_parseInt16 [("in", .sym s)]) =
      (if e = "nil" then some (convVal .u16 (convVal .i16 v)) else none, .sym e, .returned,
        [("strconv.ParseInt", [.sym s, .int 0, .int 16])]) ∧
    helperOut "u32" (exec (oneCall "strconv.ParseUint" [.sym s, .int 0, .int 32] [v, .sym e]) 6
        gs_cli_parseUint32 [("in", .sym s)]) =
      (if e = "nil" then some (convVal .u32 v) else none, .sym e, .returned,
        [("strconv.ParseUint", [.sym s, .int 0, .int 32])]) ∧
    helperOut "u32" (exec (oneCall "strconv.ParseInt" [.sym s, .int 0, .int 32] [v, .sym e]) 6
        gs_cli_parseInt32 [("in", .sym s)]) =
      (if e = "nil" then some (convVal .u32 (convVal .i32 v)) else none, .sym e, .returned,
        [("strconv.ParseInt", [.sym s, .int 0, .int 32])]) ∧
    helperOut "u64" (exec (oneCall "strconv.ParseUint" [.sym s, .int 0, .int 64] [v, .sym e]) 6
        gs_cli_parseUint64 [("in", .sym s)]) =
      (if e = "nil" then some v else none, .sym e, .returned,
        [("strconv.ParseUint", [.sym s, .int 0, .int 64])]) ∧
    helperOut "u64" (exec (oneCall "strconv.ParseInt" [.sym s, .int 0, .int 64] [v, .sym e]) 6
        gs_cli_parseInt64 [("in", .sym s)]) =
      (if e = "nil" then some (convVal .u64 v) else none, .sym e, .returned,
        [("strconv.ParseInt", [.sym s, .int 0, .int 64])]) ∧
    helperOut "addr" (exec (oneCall "strconv.ParseUint" [.sym s, .int 0, .int 8] [v, .sym e]) 6
        gs_cli_parseUnitId [("in", .sym s)]) =
      (if e = "nil" then some (convVal .u8 v) else none, .sym e, .returned,
        [("strconv.ParseUint", [.sym s, .int 0, .int 8])]) := by
  by_cases he : e = "nil"
  · subst he
    refine ⟨?_, ?_, ?_, ?_, ?_, ?_, ?_⟩
    · go_eval_nowrap [gs_cli_parseUint16, oneCall, helperOut_ite, helperOut_def]
    · go_eval_nowrap [gs_cli_parseInt16, oneCall, helperOut_ite, helperOut_def]
    · go_eval_nowrap [gs_cli_parseUint32, oneCall, helperOut_ite, helperOut_def]
    · go_eval_nowrap [gs_cli_parseInt32, oneCall, helperOut_ite, helperOut_def]
    · go_eval_nowrap [gs_cli_parseUint64, oneCall, helperOut_ite, helperOut_def]
    · go_eval_nowrap [gs_cli_parseInt64, oneCall, helperOut_ite, helperOut_def]
    · go_eval_nowrap [gs_cli_parseUnitId, oneCall, helperOut_ite, helperOut_def]
  · refine ⟨?_, ?_, ?_, ?_, ?_, ?_, ?_⟩
    · go_eval_nowrap [gs_cli_parseUint16, oneCall, helperOut_ite, helperOut_def, he]
    · go_eval_nowrap [gs_cli_parseInt16, oneCall, helperOut_ite, helperOut_def, he]
    · go_eval_nowrap [gs_cli_parseUint32, oneCall, helperOut_ite, helperOut_def, he]
    · go_eval_nowrap [gs_cli_parseInt32, oneCall, helperOut_ite, helperOut_def, he]
    · go_eval_nowrap [gs_cli_parseUint64, oneCall, helperOut_ite, helperOut_def, he]
    · go_eval_nowrap [gs_cli_parseInt64, oneCall, helperOut_ite, helperOut_def, he]
    · go_eval_nowrap [gs_cli_parseUnitId, oneCall, helperOut_ite, helperOut_def, he]

/-- the float helpers: ONE call `strconv.ParseFloat(in, 32 | 64)`; on success `f32 = float32(val)`
    (an opaque leaf) resp. `f64 = val`, on error the result is not assigned -/
theorem C20S_parse_floats (s e : String) (v : Val) :
    helperOut "f32" (exec (oneCall "strconv.ParseFloat" [.sym s, .int 32] [v, .sym e]) 6
        gs_cli_parseFloat32 [("in", .sym s), ("float32(val)", .sym "float32(val)")]) =
      (if e = "nil" then some (.sym "float32(val)") else none, .sym e, .returned,
        [("strconv.ParseFloat", [.sym s, .int 32])]) ∧
    helperOut "f64" (exec (oneCall "strconv.ParseFloat" [.sym s, .int 64] [v, .sym e]) 6
        gs_cli_parseFloat64 [("in", .sym s)]) =
      (if e = "nil" then some v else none, .sym e, .returned,
        [("strconv.ParseFloat", [.sym s, .int 64])]) := by
  by_cases he : e = "nil"
  · subst he
    exact ⟨by go_eval_nowrap [gs_cli_parseFloat32, oneCall, helperOut_ite, helperOut_def],
      by go_eval_nowrap [gs_cli_parseFloat64, oneCall, helperOut_ite, helperOut_def]⟩
  · exact ⟨by go_eval_nowrap [gs_cli_parseFloat32, oneCall, helperOut_ite, helperOut_def, he],
      by go_eval_nowrap [gs_cli_parseFloat64, oneCall, helperOut_ite, helperOut_def, he]⟩

/-- `parseHexBytes` is `hex.DecodeString(in)`, results passed through -/
theorem C20S_parseHexBytes : gs_cli_parseHexBytes =
    .seq (.bindCall ["out", "err"] "hex.DecodeString" [.var "in" .other]) .ret := by rfl

/-- the bit-size literal of the one strconv call of a helper -/
def setBitSize (k : Int) : GStmt → GStmt
  | .seq (.bindCall ts f [a, b, _]) rest => .seq (.bindCall ts f [a, b, .lit k .int]) rest
  | s => s

/-- SENSITIVITY (the seeded change C20-2): `strconv.ParseInt(in, 0, 32)` in `parseInt16`. The run
    asks strconv for 32 bits, "40000" comes back without error and `uint16(int16(40000))` = 40000
    is returned; the model (and the current source, `C20S_parse_helpers`) refuse it. -/
theorem C20S_sensitive_bits32 :
    helperOut "u16" (exec (strconvOracle .unk) 6 (setBitSize 32 gs_cli_parseInt16) [("in", .sym "40000")]) =
      (some (.int 40000), .sym "nil", .returned, [("strconv.ParseInt", [.sym "40000", .int 0, .int 32])]) ∧
    Cli.parseInt16E "40000".toList = .error .range ∧
    setBitSize 16 gs_cli_parseInt16 = gs_cli_parseInt16 := by
  refine ⟨?_, by decide, by rfl⟩
  have h : Cli.parseIntE 32 "40000".toList = .ok 40000 := by decide
  helper_eval [gs_cli_parseInt16, setBitSize, intAns_ok h]
  rfl

/-! ## 2. parseAddressAndQuantity -/

/-- `parseUint16` as the model describes it (part 1): value (0 with an error), error -/
def u16Call (t : String) : List Val :=
  match Cli.parseUint16E t.toList with
  | .ok x => [.int x.toNat, .sym "nil"]
  | .error e => [.int 0, errSym e]

theorem u16Call_ok {t : String} {x} (h : Cli.parseUint16E t.toList = .ok x) :
    u16Call t = [.int x.toNat, .sym "nil"] := by simp only [u16Call, h]
theorem u16Call_err {t : String} {e} (h : Cli.parseUint16E t.toList = .error e) :
    u16Call t = [.int 0, errSym e] := by simp only [u16Call, h]

def paqOracle : Oracle := fun f args =>
  if f = "parseUint16" then symArg1 u16Call args
  else if f = "errors.New" then
    (if args = [.sym "illegal format"] then some [.sym "errors.New(illegal format)"] else none)
  else none

/-- the leaves of `parseAddressAndQuantity`: `in`, `len(split)`, `split[0]`, `split[1]` -/
def paqEnvV (s : String) (len : Int) (p0 p1 : Val) : Env :=
  [("in", .sym s), ("len(split)", .int len), ("split[0]", p0), ("split[1]", p1),
   ("strings.Split(in, \"+\")", .sym "split"), ("\"illegal format\"", .sym "illegal format")]

/-- `in` split into `parts` -/
def paqEnv (s : String) (parts : List String) : Env :=
  paqEnvV s parts.length (partVal parts 0) (partVal parts 1)

structure PaqOut where
  addr : Option Val
  quantity : Option Val
  err : Val
  how : End
  calls : Calls
  deriving DecidableEq, Repr

def paqOut (r : Res) : PaqOut :=
  ⟨Env.read? r.env "addr", Env.read? r.env "quantity", Env.read r.env "err", r.how, r.calls⟩
theorem paqOut_def (env how cs) : paqOut ⟨env, how, cs⟩ =
    ⟨Env.read? env "addr", Env.read? env "quantity", Env.read env "err", how, cs⟩ := by exact id rfl
theorem paqOut_ite (p : Prop) [Decidable p] (a b : Res) :
    paqOut (if p then a else b) = if p then paqOut a else paqOut b := by split <;> rfl

/-- the control structure of `Cli.parseAddressAndQuantityE`, as what the Go function must return
    and which calls it must make -/
def paqExpect (s : String) (parts : List String) : PaqOut :=
  match parts with
  | [_] =>
    match Cli.parseUint16E s.toList with
    | .ok a => ⟨some (.int a.toNat), none, .sym "nil", .returned, [("parseUint16", [.sym s])]⟩
    | .error e => ⟨some (.int 0), none, errSym e, .returned, [("parseUint16", [.sym s])]⟩
  | [p0, p1] =>
    match Cli.parseUint16E p0.toList with
    | .error e => ⟨some (.int 0), none, errSym e, .returned, [("parseUint16", [.sym p0])]⟩
    | .ok a =>
      match Cli.parseUint16E p1.toList with
      | .ok q => ⟨some (.int a.toNat), some (.int q.toNat), .sym "nil", .returned,
                  [("parseUint16", [.sym p0]), ("parseUint16", [.sym p1])]⟩
      | .error e => ⟨some (.int a.toNat), some (.int 0), errSym e, .returned,
                  [("parseUint16", [.sym p0]), ("parseUint16", [.sym p1])]⟩
  | _ => ⟨none, none, .sym "errors.New(illegal format)", .returned,
          [("errors.New", [.sym "illegal format"])]⟩

syntax "paq_eval" " [" Lean.Parser.Tactic.simpLemma,* "]" : tactic
macro_rules
  | `(tactic| paq_eval [$ls,*]) => `(tactic|
    go_eval [paqOracle, paqEnvV, paqOut_def, paqOut_ite, symArg1_def, errSym, Int.reduceEq, decide_true,
      decide_false, ne_eq, String.reduceNe, not_true_eq_false, not_false_eq_true, $ls,*])

theorem paq_run_1 (s : String) (p0 p1 : Val) :
    paqOut (exec paqOracle 12 gs_cli_parseAddressAndQuantity (paqEnvV s 1 p0 p1)) =
      match Cli.parseUint16E s.toList with
      | .ok a => ⟨some (.int a.toNat), none, .sym "nil", .returned, [("parseUint16", [.sym s])]⟩
      | .error e => ⟨some (.int 0), none, errSym e, .returned, [("parseUint16", [.sym s])]⟩ := by
  cases h : Cli.parseUint16E s.toList with
  | ok a => paq_eval [gs_cli_parseAddressAndQuantity, u16Call_ok h]
  | error e => cases e <;> paq_eval [gs_cli_parseAddressAndQuantity, u16Call_err h]

theorem paq_run_2 (s p0 p1 : String) :
    paqOut (exec paqOracle 12 gs_cli_parseAddressAndQuantity (paqEnvV s 2 (.sym p0) (.sym p1))) =
      match Cli.parseUint16E p0.toList with
      | .error e => ⟨some (.int 0), none, errSym e, .returned, [("parseUint16", [.sym p0])]⟩
      | .ok a =>
        match Cli.parseUint16E p1.toList with
        | .ok q => ⟨some (.int a.toNat), some (.int q.toNat), .sym "nil", .returned,
                    [("parseUint16", [.sym p0]), ("parseUint16", [.sym p1])]⟩
        | .error e => ⟨some (.int a.toNat), some (.int 0), errSym e, .returned,
                    [("parseUint16", [.sym p0]), ("parseUint16", [.sym p1])]⟩ := by
  cases h : Cli.parseUint16E p0.toList with
  | error e => cases e <;> paq_eval [gs_cli_parseAddressAndQuantity, u16Call_err h]
  | ok a =>
    cases h1 : Cli.parseUint16E p1.toList with
    | ok q => paq_eval [gs_cli_parseAddressAndQuantity, u16Call_ok h, u16Call_ok h1]
    | error e => cases e <;> paq_eval [gs_cli_parseAddressAndQuantity, u16Call_ok h, u16Call_err h1]

theorem paq_run_other (s : String) (len : Int) (p0 p1 : Val) (h1 : len ≠ 1) (h2 : len ≠ 2) :
    paqOut (exec paqOracle 12 gs_cli_parseAddressAndQuantity (paqEnvV s len p0 p1)) =
      ⟨none, none, .sym "errors.New(illegal format)", .returned,
        [("errors.New", [.sym "illegal format"])]⟩ := by
  paq_eval [gs_cli_parseAddressAndQuantity, h1, h2]

/-- **parseAddressAndQuantity.** For every `in` and every list of `+`-separated parts (the leaves
    `len(split)`, `split[0]`, `split[1]`), `parseUint16` answering as the model says: what is
    returned (`addr`, `quantity`: `none` = not assigned, `err`) and which `parseUint16` calls are
    made is `paqExpect`: one part ↦ the WHOLE string is the address; two parts ↦ part 0 is the
    address and a failure returns at once (ONE call, its error), else part 1 is the quantity;
    otherwise "illegal format" and no call. -/
theorem C20S_parseAddressAndQuantity (s : String) (parts : List String) :
    paqOut (exec paqOracle 12 gs_cli_parseAddressAndQuantity (paqEnv s parts)) = paqExpect s parts := by
  rcases parts with _ | ⟨p0, _ | ⟨p1, _ | ⟨p2, rest⟩⟩⟩
  · exact paq_run_other s 0 _ _ (by decide) (by decide)
  · exact paq_run_1 s _ _
  · exact paq_run_2 s p0 p1
  · exact paq_run_other s _ _ _ (by simp only [List.length_cons]; omega)
      (by simp only [List.length_cons]; omega)

/-- the value of a named result: not assigned = zero -/
def valOr0 : Option Val → Val
  | some v => v
  | none => .int 0

/-- … and that is `Cli.parseAddressAndQuantityE` on the split the model makes: error iff the model
    refuses, and on success the two values are the model's -/
theorem C20S_parseAddressAndQuantity_model (s : String) :
    let out := paqOut (exec paqOracle 12 gs_cli_parseAddressAndQuantity
      (paqEnv s ((Cli.splitOn '+' s.toList).map String.ofList)))
    match Cli.parseAddressAndQuantityE s.toList with
    | .ok (a, q) => out.err = .sym "nil" ∧ valOr0 out.addr = .int a.toNat ∧
        valOr0 out.quantity = .int q.toNat ∧ out.how = .returned
    | .error _ => out.err ≠ .sym "nil" ∧ out.how = .returned := by
  intro out
  have ho : out = paqExpect s ((Cli.splitOn '+' s.toList).map String.ofList) :=
    C20S_parseAddressAndQuantity s _
  rw [ho]
  unfold Cli.parseAddressAndQuantityE
  rcases hs : Cli.splitOn '+' s.toList with _ | ⟨p0, _ | ⟨p1, _ | ⟨p2, rest⟩⟩⟩
  · simp [paqExpect]
  · simp only [List.map, paqExpect]
    cases h : Cli.parseUint16E s.toList with
    | ok a => simp [Cli.withNum, Except.map, valOr0]
    | error e => simp [Cli.withNum, Except.map, errSym_ne_nil]
  · simp only [List.map, paqExpect, String.toList_ofList]
    cases h : Cli.parseUint16E p0 with
    | error e => simp [Cli.withNum, errSym_ne_nil]
    | ok a =>
      cases h1 : Cli.parseUint16E p1 with
      | ok q => simp [Cli.withNum, Except.map, valOr0]
      | error e => simp [Cli.withNum, Except.map, errSym_ne_nil]
  · simp [paqExpect]

/-- drop every `if … { return }` (an `ite` whose branches are `ret` and `skip`) -/
def dropEarlyReturns : GStmt → GStmt
  | .ite _ .ret .skip => .skip
  | .seq a b => .seq (dropEarlyReturns a) (dropEarlyReturns b)
  | .ite c t e => .ite c (dropEarlyReturns t) (dropEarlyReturns e)
  | .loop b => .loop (dropEarlyReturns b)
  | s => s

/-- SENSITIVITY (the seeded change C20-4): without the early return of the two-part arm a good
    count overwrites the address error: `x+1` comes back as address 0, quantity 1, no error. The
    current source returns the error (`C20S_parseAddressAndQuantity`), the model refuses. -/
theorem C20S_sensitive_no_early_return :
    paqOut (exec paqOracle 12 (dropEarlyReturns gs_cli_parseAddressAndQuantity)
        (paqEnv "x+1" ["x", "1"])) =
      ⟨some (.int 0), some (.int 1), .sym "nil", .returned,
        [("parseUint16", [.sym "x"]), ("parseUint16", [.sym "1"])]⟩ ∧
    (paqOut (exec paqOracle 12 gs_cli_parseAddressAndQuantity (paqEnv "x+1" ["x", "1"]))).err =
      .sym "strconv.ErrSyntax" ∧
    (Cli.parseAddressAndQuantityE "x+1".toList).toOption = none := by
  have hx : Cli.parseUint16E "x".toList = .error .syntax := by decide
  have h1 : Cli.parseUint16E "1".toList = .ok 1 := by decide
  refine ⟨?_, ?_, by decide⟩
  · show paqOut (exec paqOracle 12 _ (paqEnvV "x+1" 2 (.sym "x") (.sym "1"))) = _
    paq_eval [gs_cli_parseAddressAndQuantity, dropEarlyReturns, u16Call_err hx, u16Call_ok h1]
    rfl
  · rw [C20S_parseAddressAndQuantity]
    simp only [paqExpect, hx, errSym]

/-! ## 3. one round of the argument loop -/

/-! ### 3a. what each arm of the Go `switch` does (all inputs) -/

def isRcName (n : String) : Prop := n = "rc" ∨ n = "readCoil" ∨ n = "readCoils"
instance (n) : Decidable (isRcName n) := by unfold isRcName; infer_instance
def isRhName (n : String) : Prop := n = "rh" ∨ n = "readHoldingRegister" ∨ n = "readHoldingRegisters"
instance (n) : Decidable (isRhName n) := by unfold isRhName; infer_instance

/-- the names of the first arm: rc and rdi with their aliases -/
def rcGroup (n : String) : Prop :=
  n = "rc" ∨ n = "readCoil" ∨ n = "readCoils" ∨ n = "rdi" ∨ n = "readDiscreteInput" ∨ n = "readDiscreteInputs"
def rhGroup (n : String) : Prop :=
  n = "rh" ∨ n = "readHoldingRegister" ∨ n = "readHoldingRegisters" ∨ n = "ri" ∨ n = "readInputRegister" ∨
    n = "readInputRegisters"
def wcGroup (n : String) : Prop := n = "wc" ∨ n = "writeCoil"
def wrGroup (n : String) : Prop := n = "wr" ∨ n = "writeRegister"
def sidGroup (n : String) : Prop := n = "suid" ∨ n = "setUnitId" ∨ n = "sid"

/-- every `case` label of the `switch` -/
def knownName (n : String) : Prop :=
  rcGroup n ∨ rhGroup n ∨ wcGroup n ∨ wrGroup n ∨ n = "sleep" ∨ sidGroup n ∨ n = "repeat" ∨ n = "date" ∨
    n = "scan" ∨ n = "ping"

/-- rc / rdi (all aliases), wrong number of parts: refused -/
theorem C20S_go_rc_arity (name arg : String) (len : Int) (p1 p2 p3 : Val) (hl : len ≠ 2)
    (hn : rcGroup name) : runV arg len (.sym name) p1 p2 p3 = R2 := by
  rcases hn with rfl | rfl | rfl | rfl | rfl | rfl <;>
  · cli_round [armRcRdi, hl]

/-- rc / rdi, two parts: `parseAddressAndQuantity(splitArgs[1])`; refused iff it fails, else
    `o.op = readBools (1)`, `o.addr`, `o.quantity`, and `o.isCoil = true` for the rc aliases ONLY
    (not assigned at all for rdi) -/
theorem C20S_go_rc (name arg a : String) (p2 p3 : Val) (hn : rcGroup name) :
    runV arg 2 (.sym name) (.sym a) p2 p3 =
      if (paqAns a).2.2 ≠ "nil" then R2
      else .accepted { noRec with op := some (.int 1), addr := some (.int (paqAns a).1),
                                  quantity := some (.int (paqAns a).2.1),
                                  isCoil := if isRcName name then some (.int 1) else none } := by
  rcases hn with rfl | rfl | rfl | rfl | rfl | rfl <;>
  · cli_round [armRcRdi, isRcName]

theorem C20S_go_rh_arity (name arg : String) (len : Int) (p1 p2 p3 : Val) (hl : len ≠ 3)
    (hn : rhGroup name) : runV arg len (.sym name) p1 p2 p3 = R2 := by
  rcases hn with rfl | rfl | rfl | rfl | rfl | rfl <;>
  · cli_round [armRhRi, hl]

/-- an accepted `rh` / `ri` with operation code `c` -/
def rhRes (name a : String) (c : Int) : RVerdict :=
  if (paqAns a).2.2 ≠ "nil" then R2
  else .accepted { noRec with op := some (.int c), addr := some (.int (paqAns a).1),
                              quantity := some (.int (paqAns a).2.1),
                              isHoldingReg := if isRhName name then some (.int 1) else none }

/-- rh / ri, three parts: the type name `splitArgs[1]` selects `o.op` (readUint16 = 2 … readBytes =
    10; anything else: refused), then `parseAddressAndQuantity(splitArgs[2])`;
    `o.isHoldingReg = true` for the rh aliases ONLY -/
theorem C20S_go_rh (name arg t a : String) (p3 : Val) (hn : rhGroup name) :
    runV arg 3 (.sym name) (.sym t) (.sym a) p3 =
      if t = "uint16" then rhRes name a 2 else if t = "int16" then rhRes name a 3
      else if t = "uint32" then rhRes name a 4 else if t = "int32" then rhRes name a 5
      else if t = "float32" then rhRes name a 6 else if t = "uint64" then rhRes name a 7
      else if t = "int64" then rhRes name a 8 else if t = "float64" then rhRes name a 9
      else if t = "bytes" then rhRes name a 10 else R2 := by
  rcases hn with rfl | rfl | rfl | rfl | rfl | rfl <;>
  · cli_round [armRhRi, isRhName, rhRes]

theorem C20S_go_wc_arity (name arg : String) (len : Int) (p1 p2 p3 : Val) (hl : len ≠ 3)
    (hn : wcGroup name) : runV arg len (.sym name) p1 p2 p3 = R2 := by
  rcases hn with rfl | rfl <;>
  · cli_round [armWc, hl]

/-- wc, three parts: `parseUint16(splitArgs[1])` is the address; `splitArgs[2]` must be `true` or
    `false` -/
theorem C20S_go_wc (name arg a v : String) (p3 : Val) (hn : wcGroup name) :
    runV arg 3 (.sym name) (.sym a) (.sym v) p3 =
      if (u16Ans a).2 ≠ "nil" then R2
      else if v = "true" then
        .accepted { noRec with op := some (.int 11), addr := some (.int (u16Ans a).1), coil := some (.int 1) }
      else if v = "false" then
        .accepted { noRec with op := some (.int 11), addr := some (.int (u16Ans a).1), coil := some (.int 0) }
      else R2 := by
  rcases hn with rfl | rfl <;>
  · cli_round [armWc]

theorem C20S_go_wr_arity (name arg : String) (len : Int) (p1 p2 p3 : Val) (hl : len ≠ 4)
    (hn : wrGroup name) : runV arg len (.sym name) p1 p2 p3 = R2 := by
  rcases hn with rfl | rfl <;>
  · cli_round [armWr, hl]

/-- an accepted `wr` of a numeric type: operation code `c`, value field set by `setF`; refused iff
    the value helper's answer `r` carries an error -/
def wrNum (a : String) (r : Int × String) (c : Int) (setF : ORec → Option Val → ORec) : RVerdict :=
  if r.2 ≠ "nil" then R2
  else .accepted (setF { noRec with op := some (.int c), addr := some (.int (u16Ans a).1) } (some (.int r.1)))

/-- wr, four parts: `parseUint16(splitArgs[2])` is the address (checked FIRST); the type name
    `splitArgs[1]` selects operation code, parse helper (always on `splitArgs[3]`) and value field;
    `string` takes the bytes of the part as they are; anything else: refused -/
theorem C20S_go_wr (name arg t a v : String) (hn : wrGroup name) :
    runV arg 4 (.sym name) (.sym t) (.sym a) (.sym v) =
      if (u16Ans a).2 ≠ "nil" then R2
      else if t = "uint16" then wrNum a (u16Ans v) 13 (fun r x => { r with u16 := x })
      else if t = "int16" then wrNum a (i16Ans v) 14 (fun r x => { r with u16 := x })
      else if t = "uint32" then wrNum a (u32Ans v) 16 (fun r x => { r with u32 := x })
      else if t = "int32" then wrNum a (i32Ans v) 15 (fun r x => { r with u32 := x })
      else if t = "float32" then wrNum a (f32Ans v) 17 (fun r x => { r with f32 := x })
      else if t = "uint64" then wrNum a (u64Ans v) 19 (fun r x => { r with u64 := x })
      else if t = "int64" then wrNum a (i64Ans v) 18 (fun r x => { r with u64 := x })
      else if t = "float64" then wrNum a (f64Ans v) 20 (fun r x => { r with f64 := x })
      else if t = "bytes" then
        (if hexAns v ≠ "nil" then R2
         else .accepted { noRec with op := some (.int 21), addr := some (.int (u16Ans a).1),
                                     bytes := some (.sym "hex.DecodeString(splitArgs[3])") })
      else if t = "string" then
        .accepted { noRec with op := some (.int 21), addr := some (.int (u16Ans a).1),
                               bytes := some (.sym "[]byte(splitArgs[3])") }
      else R2 := by
  rcases hn with rfl | rfl <;>
  · cli_round [armWr, wrNum]

theorem C20S_go_sleep_arity (arg : String) (len : Int) (p1 p2 p3 : Val) (hl : len ≠ 2) :
    runV arg len (.sym "sleep") p1 p2 p3 = R2 := by
  cli_round [armSleep, hl]

theorem C20S_go_sleep (arg d : String) (p2 p3 : Val) :
    runV arg 2 (.sym "sleep") (.sym d) p2 p3 =
      if durAns d ≠ "nil" then R2
      else .accepted { noRec with op := some (.int 23), duration := some (.sym "time.ParseDuration(..)") } := by
  cli_round [armSleep]

theorem C20S_go_sid_arity (name arg : String) (len : Int) (p1 p2 p3 : Val) (hl : len ≠ 2)
    (hn : sidGroup name) : runV arg len (.sym name) p1 p2 p3 = R2 := by
  rcases hn with rfl | rfl | rfl <;>
  · cli_round [armSid, hl]

/-- suid / setUnitId / sid, two parts: `parseUnitId(splitArgs[1])` -/
theorem C20S_go_sid (name arg u : String) (p2 p3 : Val) (hn : sidGroup name) :
    runV arg 2 (.sym name) (.sym u) p2 p3 =
      if (uidAns u).2 ≠ "nil" then R2
      else .accepted { noRec with op := some (.int 22), unitId := some (.int (uidAns u).1) } := by
  rcases hn with rfl | rfl | rfl <;>
  · cli_round [armSid]

/-- repeat: exactly one part (the `len < 2` test of the loop head lets `repeat` and `date` pass) -/
theorem C20S_go_repeat (arg : String) (len : Int) (p1 p2 p3 : Val) :
    runV arg len (.sym "repeat") p1 p2 p3 =
      if len ≠ 1 then R2 else .accepted { noRec with op := some (.int 24) } := by
  cli_round [armRepeat]

theorem C20S_go_date (arg : String) (len : Int) (p1 p2 p3 : Val) :
    runV arg len (.sym "date") p1 p2 p3 =
      if len ≠ 1 then R2 else .accepted { noRec with op := some (.int 25) } := by
  cli_round [armDate]

theorem C20S_go_scan_arity (arg : String) (len : Int) (p1 p2 p3 : Val) (hl : len ≠ 2) :
    runV arg len (.sym "scan") p1 p2 p3 = R2 := by
  cli_round [armScan, hl]

/-- scan, two parts: the five groups of type names; BOTH values of the flags are assigned here -/
theorem C20S_go_scan (arg t : String) (p2 p3 : Val) :
    runV arg 2 (.sym "scan") (.sym t) p2 p3 =
      if t = "c" ∨ t = "coils" then .accepted { noRec with op := some (.int 26), isCoil := some (.int 1) }
      else if t = "di" ∨ t = "discreteInputs" then
        .accepted { noRec with op := some (.int 26), isCoil := some (.int 0) }
      else if t = "h" ∨ t = "hr" ∨ t = "holding" ∨ t = "holdingRegisters" then
        .accepted { noRec with op := some (.int 27), isHoldingReg := some (.int 1) }
      else if t = "i" ∨ t = "ir" ∨ t = "input" ∨ t = "inputRegisters" then
        .accepted { noRec with op := some (.int 27), isHoldingReg := some (.int 0) }
      else if t = "s" ∨ t = "sid" then .accepted { noRec with op := some (.int 28) }
      else R2 := by
  cli_round [armScan]

theorem C20S_go_ping_arity (arg : String) (len : Int) (p1 p2 p3 : Val) (hl : len < 2 ∨ len > 3) :
    runV arg len (.sym "ping") p1 p2 p3 = R2 := by
  cli_round [armPing, hl]

/-- ping with a count: `parseUint16(splitArgs[1])`, refused when it fails or is 0 -/
theorem C20S_go_ping_2 (arg c : String) (p2 p3 : Val) :
    runV arg 2 (.sym "ping") (.sym c) p2 p3 =
      if (u16Ans c).2 ≠ "nil" then R2
      else if (u16Ans c).1 = 0 then R2
      else .accepted { noRec with op := some (.int 29), quantity := some (.int (u16Ans c).1) } := by
  cli_round [armPing]

/-- ping with count and interval: then `time.ParseDuration(splitArgs[2])` -/
theorem C20S_go_ping_3 (arg c d : String) (p3 : Val) :
    runV arg 3 (.sym "ping") (.sym c) (.sym d) p3 =
      if (u16Ans c).2 ≠ "nil" then R2
      else if (u16Ans c).1 = 0 then R2
      else if durAns d ≠ "nil" then R2
      else .accepted { noRec with op := some (.int 29), quantity := some (.int (u16Ans c).1),
                                  duration := some (.sym "time.ParseDuration(..)") } := by
  cli_round [armPing]

/-- any other first part, any number of parts: refused (`illegal command format` when alone,
    `unsupported command` otherwise) -/
theorem C20S_go_unknown (name arg : String) (len : Int) (p1 p2 p3 : Val) (hn : ¬ knownName name) :
    runV arg len (.sym name) p1 p2 p3 = R2 := by
  simp only [knownName, rcGroup, rhGroup, wcGroup, wrGroup, sidGroup, not_or] at hn
  obtain ⟨⟨h1, h2, h3, h4, h5, h6⟩, ⟨h7, h8, h9, h10, h11, h12⟩, ⟨h13, h14⟩, ⟨h15, h16⟩, h17,
    ⟨h18, h19, h20⟩, h21, h22, h23, h24⟩ := hn
  cli_round [armDefault, h1, h2, h3, h4, h5, h6, h7, h8, h9, h10, h11, h12, h13, h14, h15, h16, h17, h18,
    h19, h20, h21, h22, h23, h24]



/-! ### 3b. the model's verdict on the same parts -/

/-- the operation codes of the register reads (`readUint16` … `readBytes`, iota order) -/
def readCode : Cli.RegTy → Int
  | .uint16 => 2 | .int16 => 3 | .uint32 => 4 | .int32 => 5 | .float32 => 6 | .uint64 => 7 | .int64 => 8
  | .float64 => 9 | .bytes => 10

/-- a bool flag of the record: `true` is assigned, `false` is the zero value (never assigned) -/
def flagOf (b : Bool) : Option Val := if b then some (.int 1) else none

/-- the commands whose execution the model does not describe: only the code and the fields the
    arm assigns -/
def otherAgrees (nm : String) (r : ORec) : Prop :=
  if nm = "sleep" then
    r = { noRec with op := some (.int 23), duration := some (.sym "time.ParseDuration(..)") }
  else if nm = "repeat" then r = { noRec with op := some (.int 24) }
  else if nm = "date" then r = { noRec with op := some (.int 25) }
  else if nm = "scan" then
    r = { noRec with op := some (.int 26), isCoil := some (.int 1) } ∨
    r = { noRec with op := some (.int 26), isCoil := some (.int 0) } ∨
    r = { noRec with op := some (.int 27), isHoldingReg := some (.int 1) } ∨
    r = { noRec with op := some (.int 27), isHoldingReg := some (.int 0) } ∨
    r = { noRec with op := some (.int 28) }
  else if nm = "ping" then
    ∃ q : Int, q ≠ 0 ∧
      (r = { noRec with op := some (.int 29), quantity := some (.int q) } ∨
       r = { noRec with op := some (.int 29), quantity := some (.int q),
                        duration := some (.sym "time.ParseDuration(..)") })
  else False

/-- the Go record `o` of a round holds exactly what the model's operation says: operation code
    (the constants of the `const ( readBools = iota + 1 … )` block as the term carries them),
    address, quantity, flags (`true` assigned / `false` = never assigned), value; every other
    field unassigned -/
def Agrees (r : ORec) : Cli.Operation → Prop
  | .readBools c a q =>
    r = { noRec with op := some (.int 1), isCoil := flagOf c, addr := some (.int a.toNat),
                     quantity := some (.int q.toNat) }
  | .readRegs ty h a q =>
    r = { noRec with op := some (.int (readCode ty)), isHoldingReg := flagOf h,
                     addr := some (.int a.toNat), quantity := some (.int q.toNat) }
  | .writeCoil a v =>
    r = { noRec with op := some (.int 11), addr := some (.int a.toNat),
                     coil := some (.int (if v then 1 else 0)) }
  | .writeU16 a v sg =>
    r = { noRec with op := some (.int (if sg then 14 else 13)), addr := some (.int a.toNat),
                     u16 := some (.int v.toNat) }
  | .writeU32 a v sg =>
    r = { noRec with op := some (.int (if sg then 15 else 16)), addr := some (.int a.toNat),
                     u32 := some (.int v.toNat) }
  | .writeU64 a v sg =>
    r = { noRec with op := some (.int (if sg then 18 else 19)), addr := some (.int a.toNat),
                     u64 := some (.int v.toNat) }
  | .writeF32 a b =>
    r = { noRec with op := some (.int 17), addr := some (.int a.toNat), f32 := some (.int b.toNat) }
  | .writeF64 a b =>
    r = { noRec with op := some (.int 20), addr := some (.int a.toNat), f64 := some (.int b.toNat) }
  | .writeBytes a _ =>
    r = { noRec with op := some (.int 21), addr := some (.int a.toNat),
                     bytes := some (.sym "hex.DecodeString(splitArgs[3])") } ∨
    r = { noRec with op := some (.int 21), addr := some (.int a.toNat),
                     bytes := some (.sym "[]byte(splitArgs[3])") }
  | .setUnitId u => r = { noRec with op := some (.int 22), unitId := some (.int u.toNat) }
  | .other nm => otherAgrees nm r

/-- the verdict of the round on the argument split into `parts` -/
def roundV (arg : String) (parts : List String) : RVerdict :=
  runV arg parts.length (partVal parts 0) (partVal parts 1) (partVal parts 2) (partVal parts 3)

theorem roundV_def (arg : String) (parts : List String) :
    roundV arg parts = rverdict (execFrom cliOracle 60 argBody (roundEnv arg parts) []) := by rfl

/-- what the model prescribes for the round: refused iff `parseParts` refuses; else the record
    agrees with the model's operation -/
def expectRound (parts : List String) (v : RVerdict) : Prop :=
  match Cli.parseParts (parts.map String.toList) with
  | .error _ => v = R2
  | .ok op => ∃ r, v = .accepted r ∧ Agrees r op

theorem except_cases {ε α : Type} (x : Except ε α) : (∃ e, x = .error e) ∨ (∃ a, x = .ok a) := by
  cases x with
  | error e => exact .inl ⟨e, rfl⟩
  | ok a => exact .inr ⟨a, rfl⟩

theorem roundV_any (arg name : String) (args : List String) :
    roundV arg (name :: args) = runV arg ((args.length : Int) + 1) (.sym name)
      (partVal (name :: args) 1) (partVal (name :: args) 2) (partVal (name :: args) 3) := by
  simp only [roundV, partVal, List.getElem?_cons_zero, List.length_cons, Int.natCast_add, Int.natCast_one]

theorem expect_refused {parts : List String} {v : RVerdict}
    (hm : Refused (Cli.parseParts (parts.map String.toList))) (hv : v = R2) : expectRound parts v := by
  obtain ⟨m, hm⟩ := hm
  simp only [expectRound, hm, hv]

theorem numAns_ok {n : Nat} (x : BitVec n) : numAns (.ok x) = ((x.toNat : Int), "nil") := by rfl
theorem numAns_err {n : Nat} (e : Cli.NumErr) : numAns (.error e : Except Cli.NumErr (BitVec n)) = (0, "error") := by
  rfl

/-! rc / rdi -/

theorem cmdOf_rcGroup (name : String) (hn : rcGroup name) :
    Cli.cmdOf name.toList = some (if isRcName name then .rc else .rdi) := by
  rcases hn with rfl | rfl | rfl | rfl | rfl | rfl <;> decide

theorem round_rc (arg name : String) (args : List String) (hn : rcGroup name) :
    expectRound (name :: args) (roundV arg (name :: args)) := by
  have hc := cmdOf_rcGroup name hn
  by_cases hl : args.length = 1
  · obtain ⟨a, rfl⟩ : ∃ a, args = [a] := by
      rcases args with _ | ⟨a, _ | _⟩ <;> simp at hl ⊢
    have hv : roundV arg [name, a] = runV arg 2 (.sym name) (.sym a) .unk .unk := by rfl
    by_cases hr : isRcName name <;>
    · simp only [hr, if_true, if_false] at hc
      simp only [hv, C20S_go_rc name arg a _ _ hn, expectRound, List.map, Cli.parseParts, hc, paqAns]
      rcases except_cases (Cli.parseAddressAndQuantityE a.toList) with ⟨e, h⟩ | ⟨⟨x, q⟩, h⟩
      · simp [h]
      · simp [h, hr, Agrees, flagOf, noRec]
  · refine expect_refused (refuse_arity_rc (by by_cases hr : isRcName name <;> simp [hc, hr])
      (by simpa using hl)) ?_
    rw [roundV_any]
    exact C20S_go_rc_arity name arg _ _ _ _ (by omega) hn

/-! rh / ri -/

theorem cmdOf_rhGroup (name : String) (hn : rhGroup name) :
    Cli.cmdOf name.toList = some (if isRhName name then .rh else .ri) := by
  rcases hn with rfl | rfl | rfl | rfl | rfl | rfl <;> decide

/-- the `switch splitArgs[1]` of rh / ri is a lookup in the model's `regTyTable` -/
theorem rh_chain (t : String) (f : Int → RVerdict) :
    (if t = "uint16" then f 2 else if t = "int16" then f 3
      else if t = "uint32" then f 4 else if t = "int32" then f 5
      else if t = "float32" then f 6 else if t = "uint64" then f 7
      else if t = "int64" then f 8 else if t = "float64" then f 9
      else if t = "bytes" then f 10 else R2) =
    match Cli.regTyOf t.toList with
    | some ty => f (readCode ty)
    | none => R2 := by
  by_cases h1 : t = "uint16"
  · subst h1; rw [show Cli.regTyOf "uint16".toList = some .uint16 by decide]; rfl
  by_cases h2 : t = "int16"
  · subst h2; rw [show Cli.regTyOf "int16".toList = some .int16 by decide]; rfl
  by_cases h3 : t = "uint32"
  · subst h3; rw [show Cli.regTyOf "uint32".toList = some .uint32 by decide]; rfl
  by_cases h4 : t = "int32"
  · subst h4; rw [show Cli.regTyOf "int32".toList = some .int32 by decide]; rfl
  by_cases h5 : t = "float32"
  · subst h5; rw [show Cli.regTyOf "float32".toList = some .float32 by decide]; rfl
  by_cases h6 : t = "uint64"
  · subst h6; rw [show Cli.regTyOf "uint64".toList = some .uint64 by decide]; rfl
  by_cases h7 : t = "int64"
  · subst h7; rw [show Cli.regTyOf "int64".toList = some .int64 by decide]; rfl
  by_cases h8 : t = "float64"
  · subst h8; rw [show Cli.regTyOf "float64".toList = some .float64 by decide]; rfl
  by_cases h9 : t = "bytes"
  · subst h9; rw [show Cli.regTyOf "bytes".toList = some .bytes by decide]; rfl
  have hn : Cli.regTyOf t.toList = none :=
    (regTyOf_none_iff _).mpr (by simp [typeNames, String.ofList_toList, h1, h2, h3, h4, h5, h6, h7, h8, h9])
  simp only [hn, h1, h2, h3, h4, h5, h6, h7, h8, h9, if_false]

theorem round_rh (arg name : String) (args : List String) (hn : rhGroup name) :
    expectRound (name :: args) (roundV arg (name :: args)) := by
  have hc := cmdOf_rhGroup name hn
  by_cases hl : args.length = 2
  · obtain ⟨t, a, rfl⟩ : ∃ t a, args = [t, a] := by
      rcases args with _ | ⟨t, _ | ⟨a, _ | _⟩⟩ <;> simp at hl ⊢
    have hv : roundV arg [name, t, a] = runV arg 3 (.sym name) (.sym t) (.sym a) .unk := by rfl
    by_cases hr : isRhName name <;>
    · simp only [hr, if_true, if_false] at hc
      simp only [hv, C20S_go_rh name arg t a _ hn, rh_chain, expectRound, List.map, Cli.parseParts, hc]
      cases hty : Cli.regTyOf t.toList with
      | none => simp
      | some ty =>
        simp only [rhRes, paqAns]
        rcases except_cases (Cli.parseAddressAndQuantityE a.toList) with ⟨e, h⟩ | ⟨⟨x, q⟩, h⟩
        · simp [h]
        · simp [h, hr, Agrees, flagOf, noRec]
  · refine expect_refused (refuse_arity_rh (by by_cases hr : isRhName name <;> simp [hc, hr])
      (by simpa using hl)) ?_
    rw [roundV_any]
    exact C20S_go_rh_arity name arg _ _ _ _ (by omega) hn

/-! wc -/

theorem cmdOf_wcGroup (name : String) (hn : wcGroup name) : Cli.cmdOf name.toList = some .wc := by
  rcases hn with rfl | rfl <;> decide

theorem round_wc (arg name : String) (args : List String) (hn : wcGroup name) :
    expectRound (name :: args) (roundV arg (name :: args)) := by
  have hc := cmdOf_wcGroup name hn
  by_cases hl : args.length = 2
  · obtain ⟨a, v, rfl⟩ : ∃ a v, args = [a, v] := by
      rcases args with _ | ⟨a, _ | ⟨v, _ | _⟩⟩ <;> simp at hl ⊢
    have hv : roundV arg [name, a, v] = runV arg 3 (.sym name) (.sym a) (.sym v) .unk := by rfl
    simp only [hv, C20S_go_wc name arg a v _ hn, expectRound, List.map, Cli.parseParts, hc, u16Ans]
    rcases except_cases (Cli.parseUint16E a.toList) with ⟨e, h⟩ | ⟨x, h⟩
    · simp [h, numAns_err, Cli.withNum]
    · by_cases h1 : v = "true"
      · simp [h, numAns_ok, Cli.withNum, Cli.str, String.ofList_toList, h1, Agrees, noRec]
      · by_cases h2 : v = "false"
        · simp [h, numAns_ok, Cli.withNum, Cli.str, String.ofList_toList, h2, Agrees, noRec]
        · simp [h, numAns_ok, Cli.withNum, Cli.str, String.ofList_toList, h1, h2]
  · refine expect_refused (refuse_arity_wc hc (by simpa using hl)) ?_
    rw [roundV_any]
    exact C20S_go_wc_arity name arg _ _ _ _ (by omega) hn

/-! wr -/

theorem cmdOf_wrGroup (name : String) (hn : wrGroup name) : Cli.cmdOf name.toList = some .wr := by
  rcases hn with rfl | rfl <;> decide

/-- what the Go arm does for a type of the model's `wrTyOf` table -/
def wrRes (a v : String) : Cli.WrTy → RVerdict
  | .reg .uint16 => wrNum a (u16Ans v) 13 (fun r x => { r with u16 := x })
  | .reg .int16 => wrNum a (i16Ans v) 14 (fun r x => { r with u16 := x })
  | .reg .uint32 => wrNum a (u32Ans v) 16 (fun r x => { r with u32 := x })
  | .reg .int32 => wrNum a (i32Ans v) 15 (fun r x => { r with u32 := x })
  | .reg .float32 => wrNum a (f32Ans v) 17 (fun r x => { r with f32 := x })
  | .reg .uint64 => wrNum a (u64Ans v) 19 (fun r x => { r with u64 := x })
  | .reg .int64 => wrNum a (i64Ans v) 18 (fun r x => { r with u64 := x })
  | .reg .float64 => wrNum a (f64Ans v) 20 (fun r x => { r with f64 := x })
  | .reg .bytes =>
    if hexAns v ≠ "nil" then R2
    else .accepted { noRec with op := some (.int 21), addr := some (.int (u16Ans a).1),
                                bytes := some (.sym "hex.DecodeString(splitArgs[3])") }
  | .string =>
    .accepted { noRec with op := some (.int 21), addr := some (.int (u16Ans a).1),
                           bytes := some (.sym "[]byte(splitArgs[3])") }

/-- the `switch splitArgs[1]` of wr is the model's `wrTyOf` (the rh / ri table plus `string`) -/
theorem wr_chain (t a v : String) :
    (if t = "uint16" then wrNum a (u16Ans v) 13 (fun r x => { r with u16 := x })
      else if t = "int16" then wrNum a (i16Ans v) 14 (fun r x => { r with u16 := x })
      else if t = "uint32" then wrNum a (u32Ans v) 16 (fun r x => { r with u32 := x })
      else if t = "int32" then wrNum a (i32Ans v) 15 (fun r x => { r with u32 := x })
      else if t = "float32" then wrNum a (f32Ans v) 17 (fun r x => { r with f32 := x })
      else if t = "uint64" then wrNum a (u64Ans v) 19 (fun r x => { r with u64 := x })
      else if t = "int64" then wrNum a (i64Ans v) 18 (fun r x => { r with u64 := x })
      else if t = "float64" then wrNum a (f64Ans v) 20 (fun r x => { r with f64 := x })
      else if t = "bytes" then
        (if hexAns v ≠ "nil" then R2
         else .accepted { noRec with op := some (.int 21), addr := some (.int (u16Ans a).1),
                                     bytes := some (.sym "hex.DecodeString(splitArgs[3])") })
      else if t = "string" then
        .accepted { noRec with op := some (.int 21), addr := some (.int (u16Ans a).1),
                               bytes := some (.sym "[]byte(splitArgs[3])") }
      else R2) =
    match Cli.wrTyOf t.toList with
    | some ty => wrRes a v ty
    | none => R2 := by
  by_cases h1 : t = "uint16"
  · subst h1; rw [show Cli.wrTyOf "uint16".toList = some (.reg .uint16) by decide]; rfl
  by_cases h2 : t = "int16"
  · subst h2; rw [show Cli.wrTyOf "int16".toList = some (.reg .int16) by decide]; rfl
  by_cases h3 : t = "uint32"
  · subst h3; rw [show Cli.wrTyOf "uint32".toList = some (.reg .uint32) by decide]; rfl
  by_cases h4 : t = "int32"
  · subst h4; rw [show Cli.wrTyOf "int32".toList = some (.reg .int32) by decide]; rfl
  by_cases h5 : t = "float32"
  · subst h5; rw [show Cli.wrTyOf "float32".toList = some (.reg .float32) by decide]; rfl
  by_cases h6 : t = "uint64"
  · subst h6; rw [show Cli.wrTyOf "uint64".toList = some (.reg .uint64) by decide]; rfl
  by_cases h7 : t = "int64"
  · subst h7; rw [show Cli.wrTyOf "int64".toList = some (.reg .int64) by decide]; rfl
  by_cases h8 : t = "float64"
  · subst h8; rw [show Cli.wrTyOf "float64".toList = some (.reg .float64) by decide]; rfl
  by_cases h9 : t = "bytes"
  · subst h9; rw [show Cli.wrTyOf "bytes".toList = some (.reg .bytes) by decide]; rfl
  by_cases h10 : t = "string"
  · subst h10; rw [show Cli.wrTyOf "string".toList = some .string by decide]; rfl
  have hn : Cli.wrTyOf t.toList = none :=
    (wrTyOf_none_iff _).mpr (by
      simp [typeNames, String.ofList_toList, h1, h2, h3, h4, h5, h6, h7, h8, h9, h10])
  simp only [hn, h1, h2, h3, h4, h5, h6, h7, h8, h9, h10, if_false]

/-- the value part: the Go arm and the model's `parseWrValue` -/
theorem wr_value (ty : Cli.WrTy) (t a v : String) (x : U16) (h : Cli.parseUint16E a.toList = .ok x) :
    match Cli.parseWrValue ty t.toList x v.toList with
    | .error _ => wrRes a v ty = R2
    | .ok op => ∃ r, wrRes a v ty = .accepted r ∧ Agrees r op := by
  have hu : u16Ans a = ((x.toNat : Int), "nil") := by simp only [u16Ans, h, numAns_ok]
  rcases ty with ty | _
  · cases ty
    · rcases except_cases (Cli.parseUint16E v.toList) with ⟨e, hv⟩ | ⟨y, hv⟩ <;>
        simp [wrRes, wrNum, Cli.parseWrValue, u16Ans, hv, h, numAns_ok, numAns_err, Agrees, noRec]
    · rcases except_cases (Cli.parseInt16E v.toList) with ⟨e, hv⟩ | ⟨y, hv⟩ <;>
        simp [wrRes, wrNum, Cli.parseWrValue, i16Ans, u16Ans, hv, h, numAns_ok, numAns_err, Agrees, noRec]
    · rcases except_cases (Cli.parseUint32E v.toList) with ⟨e, hv⟩ | ⟨y, hv⟩ <;>
        simp [wrRes, wrNum, Cli.parseWrValue, u32Ans, u16Ans, hv, h, numAns_ok, numAns_err, Agrees, noRec]
    · rcases except_cases (Cli.parseInt32E v.toList) with ⟨e, hv⟩ | ⟨y, hv⟩ <;>
        simp [wrRes, wrNum, Cli.parseWrValue, i32Ans, u16Ans, hv, h, numAns_ok, numAns_err, Agrees, noRec]
    · rcases except_cases (Cli.parseUint32E v.toList) with ⟨e, hv⟩ | ⟨y, hv⟩ <;>
        simp [wrRes, wrNum, Cli.parseWrValue, f32Ans, u16Ans, hv, h, numAns_ok, numAns_err, Agrees, noRec]
    · rcases except_cases (Cli.parseUint64E v.toList) with ⟨e, hv⟩ | ⟨y, hv⟩ <;>
        simp [wrRes, wrNum, Cli.parseWrValue, u64Ans, u16Ans, hv, h, numAns_ok, numAns_err, Agrees, noRec]
    · rcases except_cases (Cli.parseInt64E v.toList) with ⟨e, hv⟩ | ⟨y, hv⟩ <;>
        simp [wrRes, wrNum, Cli.parseWrValue, i64Ans, u16Ans, hv, h, numAns_ok, numAns_err, Agrees, noRec]
    · rcases except_cases (Cli.parseUint64E v.toList) with ⟨e, hv⟩ | ⟨y, hv⟩ <;>
        simp [wrRes, wrNum, Cli.parseWrValue, f64Ans, u16Ans, hv, h, numAns_ok, numAns_err, Agrees, noRec]
    · rcases except_cases (Cli.parseHexBytesE v.toList) with ⟨e, hv⟩ | ⟨y, hv⟩ <;>
        simp [wrRes, Cli.parseWrValue, hexAns, u16Ans, hv, h, numAns_ok, Agrees, noRec]
  · simp [wrRes, Cli.parseWrValue, u16Ans, h, numAns_ok, Agrees, noRec]

theorem round_wr (arg name : String) (args : List String) (hn : wrGroup name) :
    expectRound (name :: args) (roundV arg (name :: args)) := by
  have hc := cmdOf_wrGroup name hn
  by_cases hl : args.length = 3
  · obtain ⟨t, a, v, rfl⟩ : ∃ t a v, args = [t, a, v] := by
      rcases args with _ | ⟨t, _ | ⟨a, _ | ⟨v, _ | _⟩⟩⟩ <;> simp at hl ⊢
    have hv : roundV arg [name, t, a, v] = runV arg 4 (.sym name) (.sym t) (.sym a) (.sym v) := by rfl
    simp only [hv, C20S_go_wr name arg t a v hn, wr_chain, expectRound, List.map, Cli.parseParts, hc]
    rcases except_cases (Cli.parseUint16E a.toList) with ⟨e, h⟩ | ⟨x, h⟩
    · simp [h, u16Ans, numAns_err, Cli.withNum]
    · have hu : (u16Ans a).2 = "nil" := by simp only [u16Ans, h, numAns_ok]
      cases hty : Cli.wrTyOf t.toList with
      | none => simp [h, hu, Cli.withNum]
      | some ty =>
        have := wr_value ty t a v x h
        simp [h, hu, Cli.withNum]
        exact this
  · refine expect_refused (refuse_arity_wr hc (by simpa using hl)) ?_
    rw [roundV_any]
    exact C20S_go_wr_arity name arg _ _ _ _ (by omega) hn

/-! sleep -/

theorem refuse_arity_1 {nm : List Char} {args : List (List Char)} {c : Cli.Cmd}
    (h : Cli.cmdOf nm = some c) (hc : c = .sleep ∨ c = .scan) (hl : args.length ≠ 1) :
    Refused (Cli.parseParts (nm :: args)) := by
  simp only [Cli.parseParts]
  split
  · simp
  · rcases hc with rfl | rfl <;> simp only [h] <;>
    match args, hl with
    | [], _ => simp
    | _ :: _ :: _, _ => simp

theorem round_sleep (arg : String) (args : List String) :
    expectRound ("sleep" :: args) (roundV arg ("sleep" :: args)) := by
  have hc : Cli.cmdOf "sleep".toList = some .sleep := by decide
  by_cases hl : args.length = 1
  · obtain ⟨d, rfl⟩ : ∃ d, args = [d] := by
      rcases args with _ | ⟨d, _ | _⟩ <;> simp at hl ⊢
    have hv : roundV arg ["sleep", d] = runV arg 2 (.sym "sleep") (.sym d) .unk .unk := by rfl
    simp only [hv, C20S_go_sleep, expectRound, List.map, Cli.parseParts, hc, durAns]
    rcases except_cases (Cli.parseDurationE d.toList) with ⟨e, h⟩ | ⟨x, h⟩
    · simp [h]
    · simp [h, Agrees, otherAgrees, noRec]
  · refine expect_refused (refuse_arity_1 hc (.inl rfl) (by simpa using hl)) ?_
    rw [roundV_any]
    exact C20S_go_sleep_arity arg _ _ _ _ (by omega)

/-! suid / setUnitId / sid -/

theorem cmdOf_sidGroup (name : String) (hn : sidGroup name) : Cli.cmdOf name.toList = some .sid := by
  rcases hn with rfl | rfl | rfl <;> decide

theorem round_sid (arg name : String) (args : List String) (hn : sidGroup name) :
    expectRound (name :: args) (roundV arg (name :: args)) := by
  have hc := cmdOf_sidGroup name hn
  by_cases hl : args.length = 1
  · obtain ⟨u, rfl⟩ : ∃ u, args = [u] := by
      rcases args with _ | ⟨u, _ | _⟩ <;> simp at hl ⊢
    have hv : roundV arg [name, u] = runV arg 2 (.sym name) (.sym u) .unk .unk := by rfl
    simp only [hv, C20S_go_sid name arg u _ _ hn, expectRound, List.map, Cli.parseParts, hc, uidAns]
    rcases except_cases (Cli.parseUnitIdE u.toList) with ⟨e, h⟩ | ⟨x, h⟩
    · simp [h, numAns_err]
    · simp [h, numAns_ok, Agrees, noRec]
  · refine expect_refused (refuse_arity_sid hc (by simpa using hl)) ?_
    rw [roundV_any]
    exact C20S_go_sid_arity name arg _ _ _ _ (by omega) hn

/-! repeat / date -/

theorem round_repeat (arg : String) (args : List String) :
    expectRound ("repeat" :: args) (roundV arg ("repeat" :: args)) := by
  have hc : Cli.cmdOf "repeat".toList = some .repeat := by decide
  have hs : Cli.str "repeat".toList = "repeat" := String.ofList_toList
  rw [roundV_any, C20S_go_repeat]
  rcases args with _ | ⟨a, rest⟩
  · simp only [expectRound, List.map, Cli.parseParts, hc, hs]
    simp [Agrees, otherAgrees, noRec]
  · have : ¬ ((rest.length : Int) + 1 + 1 = 1) := by omega
    simp only [expectRound, List.map, Cli.parseParts, hc, hs]
    simp [this]

theorem round_date (arg : String) (args : List String) :
    expectRound ("date" :: args) (roundV arg ("date" :: args)) := by
  have hc : Cli.cmdOf "date".toList = some .date := by decide
  have hs : Cli.str "date".toList = "date" := String.ofList_toList
  rw [roundV_any, C20S_go_date]
  rcases args with _ | ⟨a, rest⟩
  · simp only [expectRound, List.map, Cli.parseParts, hc, hs]
    simp [Agrees, otherAgrees, noRec]
  · have : ¬ ((rest.length : Int) + 1 + 1 = 1) := by omega
    simp only [expectRound, List.map, Cli.parseParts, hc, hs]
    simp [this]

/-! scan -/

theorem round_scan (arg : String) (args : List String) :
    expectRound ("scan" :: args) (roundV arg ("scan" :: args)) := by
  have hc : Cli.cmdOf "scan".toList = some .scan := by decide
  by_cases hl : args.length = 1
  · obtain ⟨t, rfl⟩ : ∃ t, args = [t] := by
      rcases args with _ | ⟨t, _ | _⟩ <;> simp at hl ⊢
    have hv : roundV arg ["scan", t] = runV arg 2 (.sym "scan") (.sym t) .unk .unk := by rfl
    simp only [hv, C20S_go_scan, expectRound, List.map, Cli.parseParts, hc, Cli.str, String.ofList_toList]
    by_cases h1 : t = "c" ∨ t = "coils"
    · rcases h1 with rfl | rfl <;> simp [Cli.scanTypes, Agrees, otherAgrees]
    by_cases h2 : t = "di" ∨ t = "discreteInputs"
    · rcases h2 with rfl | rfl <;> simp [Cli.scanTypes, Agrees, otherAgrees]
    by_cases h3 : t = "h" ∨ t = "hr" ∨ t = "holding" ∨ t = "holdingRegisters"
    · rcases h3 with rfl | rfl | rfl | rfl <;> simp [Cli.scanTypes, Agrees, otherAgrees]
    by_cases h4 : t = "i" ∨ t = "ir" ∨ t = "input" ∨ t = "inputRegisters"
    · rcases h4 with rfl | rfl | rfl | rfl <;> simp [Cli.scanTypes, Agrees, otherAgrees]
    by_cases h5 : t = "s" ∨ t = "sid"
    · rcases h5 with rfl | rfl <;> simp [Cli.scanTypes, Agrees, otherAgrees]
    · simp only [h1, h2, h3, h4, h5, if_false]
      simp only [not_or] at h1 h2 h3 h4 h5
      simp [Cli.scanTypes, h1, h2, h3, h4, h5]
  · refine expect_refused (refuse_arity_1 hc (.inr rfl) (by simpa using hl)) ?_
    rw [roundV_any]
    exact C20S_go_scan_arity arg _ _ _ _ (by omega)

/-! ping -/

theorem u16_toNat_eq_zero (x : U16) : ((x.toNat : Int) = 0) ↔ x = 0 := by
  constructor
  · intro h; apply BitVec.eq_of_toNat_eq; show x.toNat = 0; omega
  · intro h; subst h; rfl

theorem round_ping (arg : String) (args : List String) :
    expectRound ("ping" :: args) (roundV arg ("ping" :: args)) := by
  have hc : Cli.cmdOf "ping".toList = some .ping := by decide
  rcases args with _ | ⟨c, _ | ⟨d, _ | ⟨e, rest⟩⟩⟩
  · refine expect_refused (by decide) ?_
    rw [roundV_any]
    exact C20S_go_ping_arity arg _ _ _ _ (.inl (by decide))
  · have hv : roundV arg ["ping", c] = runV arg 2 (.sym "ping") (.sym c) .unk .unk := by rfl
    simp only [hv, C20S_go_ping_2, expectRound, List.map, Cli.parseParts, hc, u16Ans]
    rcases except_cases (Cli.parseUint16E c.toList) with ⟨e, h⟩ | ⟨x, h⟩
    · simp [h, numAns_err]
    · by_cases hx : x = 0
      · simp [h, numAns_ok, hx]
      · have hx' : ¬ ((x.toNat : Int) = 0) := fun h0 => hx ((u16_toNat_eq_zero x).mp h0)
        simp only [List.length_cons, List.length_nil, List.getD_cons_zero, h, numAns_ok, hx, hx']
        simp
        simp only [Agrees, otherAgrees, String.reduceEq, if_false, if_true]
        exact ⟨x.toNat, hx', .inl rfl⟩
  · have hv : roundV arg ["ping", c, d] = runV arg 3 (.sym "ping") (.sym c) (.sym d) .unk := by rfl
    simp only [hv, C20S_go_ping_3, expectRound, List.map, Cli.parseParts, hc, u16Ans, durAns]
    rcases except_cases (Cli.parseUint16E c.toList) with ⟨e, h⟩ | ⟨x, h⟩
    · simp [h, numAns_err]
    · by_cases hx : x = 0
      · simp [h, numAns_ok, hx]
      · have hx' : ¬ ((x.toNat : Int) = 0) := fun h0 => hx ((u16_toNat_eq_zero x).mp h0)
        rcases except_cases (Cli.parseDurationE d.toList) with ⟨e, hd⟩ | ⟨u, hd⟩
        · simp only [List.length_cons, List.length_nil, List.getD_cons_zero, List.getD_cons_succ, h,
            numAns_ok, hx, hx', hd]
          simp [hx]
        · simp only [List.length_cons, List.length_nil, List.getD_cons_zero, List.getD_cons_succ, h,
            numAns_ok, hx, hx', hd]
          simp
          simp only [Agrees, otherAgrees, String.reduceEq, if_false, if_true]
          exact ⟨x.toNat, hx', .inr rfl⟩
  · refine expect_refused (by simp only [List.map, Cli.parseParts, hc]; simp [Refused]; split <;> exact ⟨_, rfl⟩) ?_
    rw [roundV_any]
    exact C20S_go_ping_arity arg _ _ _ _ (.inr (by simp only [List.length_cons]; omega))

/-! any other name -/

theorem round_unknown (arg name : String) (args : List String) (hn : ¬ knownName name) :
    expectRound (name :: args) (roundV arg (name :: args)) := by
  refine expect_refused (refuse_unknown_cmd ((cmdOf_none_iff _).mpr ?_)) ?_
  · intro hm
    apply hn
    simp only [commandNames, String.ofList_toList, List.mem_cons, List.not_mem_nil, or_false] at hm
    simp only [knownName, rcGroup, rhGroup, wcGroup, wrGroup, sidGroup]
    rcases hm with h | h | h | h | h | h | h | h | h | h | h | h | h | h | h | h | h | h | h | h | h | h |
      h | h <;> simp [h]
  · rw [roundV_any]
    exact C20S_go_unknown name arg _ _ _ _ hn

/-- **one round of the argument loop is `Cli.parseParts`.** For EVERY argument `arg` split into
    the parts `name :: args` (any number of parts, any texts; the leaves `len(splitArgs)`,
    `splitArgs[k]` of `roundEnv`), `o` a fresh record, the parse helpers answering what the model's
    `parseAddressAndQuantityE`, `parseUint16E` … `parseUnitIdE`, `parseHexBytesE`, `parseDurationE`
    say about the text they are given (`cliOracle`), the loop body of the CURRENT `main`

    * is cut at `os.Exit(2)` — after nothing but `strings.Split`, parse helpers and `fmt.Printf` —
      exactly when `Cli.parseParts` refuses the parts, and
    * otherwise falls through to `runList = append(runList, o)` with a record `o` that `Agrees`
      with the model's operation: operation code, address, quantity, `isCoil` / `isHoldingReg`
      (assigned `true` for the rc / rh aliases, NOT assigned for rdi / ri), the value field of the
      type; no other field assigned. -/
theorem C20S_round (arg name : String) (args : List String) :
    expectRound (name :: args) (roundV arg (name :: args)) := by
  by_cases h : knownName name
  · rcases h with h | h | h | h | rfl | h | rfl | rfl | rfl | rfl
    · exact round_rc arg name args h
    · exact round_rh arg name args h
    · exact round_wc arg name args h
    · exact round_wr arg name args h
    · exact round_sleep arg args
    · exact round_sid arg name args h
    · exact round_repeat arg args
    · exact round_date arg args
    · exact round_scan arg args
    · exact round_ping arg args
  · exact round_unknown arg name args h

/-- refusal, spelled out: the model refuses ⇒ the Go round ends in `os.Exit(2)` -/
theorem C20S_round_refused (arg name : String) (args : List String)
    (h : Refused (Cli.parseParts ((name :: args).map String.toList))) :
    roundV arg (name :: args) = R2 := by
  have := C20S_round arg name args
  obtain ⟨m, hm⟩ := h
  simpa only [expectRound, hm] using this

/-- acceptance, spelled out -/
theorem C20S_round_accepted (arg name : String) (args : List String) (op : Cli.Operation)
    (h : Cli.parseParts ((name :: args).map String.toList) = .ok op) :
    ∃ r, roundV arg (name :: args) = .accepted r ∧ Agrees r op := by
  have := C20S_round arg name args
  simpa only [expectRound, h] using this

/-- and conversely: the Go round refuses ⇒ the model refuses; the Go round accepts ⇒ the model
    accepts an operation the record agrees with (the round has exactly these two outcomes) -/
theorem C20S_round_iff (arg name : String) (args : List String) :
    (roundV arg (name :: args) = R2 ↔ Refused (Cli.parseParts ((name :: args).map String.toList))) := by
  constructor
  · intro hv
    rcases except_cases (Cli.parseParts ((name :: args).map String.toList)) with ⟨e, h⟩ | ⟨op, h⟩
    · exact ⟨e, h⟩
    · obtain ⟨r, hr, _⟩ := C20S_round_accepted arg name args op h
      rw [hr] at hv; cases hv
  · exact C20S_round_refused arg name args


/-! ### 3f. the round on the split the model makes, and fuel -/

theorem splitOn_ne_nil (sep : Char) (s : List Char) : Cli.splitOn sep s ≠ [] := by
  cases s with
  | nil => simp [Cli.splitOn]
  | cons c cs =>
    simp only [Cli.splitOn]
    split
    · simp
    · split <;> simp

/-- **one argument.** For every argument text `arg`, on the parts `strings.Split(arg, ":")` yields
    (the model's `splitOn ':'`): the Go round refuses iff `Cli.parseArg arg` does, and otherwise
    builds the record of the model's operation. -/
theorem C20S_round_parseArg (arg : String) :
    let parts := (Cli.splitOn ':' arg.toList).map String.ofList
    match Cli.parseArg arg with
    | .error _ => roundV arg parts = R2
    | .ok op => ∃ r, roundV arg parts = .accepted r ∧ Agrees r op := by
  intro parts
  have hp : parts.map String.toList = Cli.splitOn ':' arg.toList := by
    simp only [parts, List.map_map]
    have : (String.toList ∘ String.ofList) = id := by
      funext l; exact String.toList_ofList
    rw [this, List.map_id]
  have hne : parts ≠ [] := by
    intro h
    apply splitOn_ne_nil ':' arg.toList
    rw [← hp, h]; rfl
  obtain ⟨name, args, hpa⟩ : ∃ name args, parts = name :: args := by
    cases hq : parts with
    | nil => exact absurd hq hne
    | cons n as => exact ⟨n, as, rfl⟩
  have := C20S_round arg name args
  rw [← hpa] at this
  simp only [expectRound, hp] at this
  exact this

/-- the fuel is immaterial: every fuel ≥ 60 gives the same verdict -/
theorem C20S_round_fuel (arg name : String) (args : List String) (m : Nat) (hm : 60 ≤ m) :
    rverdict (execFrom cliOracle m argBody (roundEnv arg (name :: args)) []) =
      roundV arg (name :: args) := by
  have hne : roundV arg (name :: args) ≠ .other := by
    have := C20S_round arg name args
    simp only [expectRound] at this
    split at this
    · rw [this]; exact fun h => nomatch h
    · obtain ⟨r, hr, _⟩ := this
      rw [hr]; exact fun h => nomatch h
  rw [roundV_def] at hne ⊢
  have hof : (execFrom cliOracle 60 argBody (roundEnv arg (name :: args)) []).how ≠ .outOfFuel := by
    intro h
    apply hne
    simp only [rverdict, h]
  rw [execFrom_mono cliOracle 60 m _ _ _ hm hof]

/-! ### 3c. static companions: tables, arity tests, helper calls, assigned fields -/

/-- the literal texts of a `case a, b, c` condition: `(variable, literal)` per comparison;
    anything that is not `v == "lit"` shows up as `("?", "?")` -/
def caseLits : GExpr → List (String × String)
  | .or a b => caseLits a ++ caseLits b
  | .cmp "==" (.var v _) (.call l _) => [(v, l)]
  | _ => [("?", "?")]

/-- the arms of a rendered `switch`: condition literals per arm, in order -/
def switchCases : GStmt → List (List (String × String))
  | .ite c _ e => caseLits c :: switchCases e
  | _ => []

def quoted (s : String) : String := "\"" ++ s ++ "\""

/-- **the command table.** The `case` labels of `switch splitArgs[0]`, arm by arm and in order,
    are exactly the names of `Cli.cmdTable` (all aliases), every one compared with `splitArgs[0]`;
    the commands of an arm are: {rc, rdi}, {rh, ri}, wc, wr, sleep, sid, repeat, date, scan, ping. -/
theorem C20S_command_names :
    (switchCases argSwitch).flatten = Cli.cmdTable.map (fun p => ("splitArgs[0]", quoted p.1)) ∧
    (switchCases argSwitch).map List.length = [6, 6, 2, 2, 1, 3, 1, 1, 1, 1] ∧
    (switchCases argSwitch).map (fun arm =>
        (arm.filterMap (fun q => (Cli.cmdTable.find? (fun p => quoted p.1 == q.2)).map (·.2))).eraseDups) =
      [[.rc, .rdi], [.rh, .ri], [.wc], [.wr], [.sleep], [.sid], [.repeat], [.date], [.scan], [.ping]] := by
  decide +kernel

/-- the type switch of rh / ri (5th statement-level item of the arm: index 2) -/
def rhTypeSwitch : GStmt := sA (lB (nthS 2 armRhRi))
/-- the type switch of wr -/
def wrTypeSwitch : GStmt := sA (lB (nthS 3 armWr))
/-- the value switch of wc -/
def wcValueSwitch : GStmt := sA (lB (sBn 4 armWc))
/-- the type switch of scan -/
def scanTypeSwitch : GStmt := sA (lB (sB armScan))

/-- integer literal of an expression -/
def litOf : GExpr → Option Int
  | .lit v _ => some v
  | _ => none

/-- **the type tables.** rh / ri: the `case` labels on `splitArgs[1]` are the names of
    `Cli.regTyTable`, in order, and the operation codes assigned are 2 … 10 in that order
    (`readCode`); wr: the same names plus `string` (`Cli.wrTyOf`), codes 13 14 16 15 17 19 18 20 21 21;
    wc: `true` / `false` on `splitArgs[2]`; scan: the fourteen names of `Cli.scanTypes`. -/
theorem C20S_type_tables :
    (switchCases rhTypeSwitch).flatten = Cli.regTyTable.map (fun p => ("splitArgs[1]", quoted p.1)) ∧
    (assignedTo "o.op" rhTypeSwitch).map litOf = Cli.regTyTable.map (fun p => some ((match p.2 with | .uint16 => 2 | .int16 => 3 | .uint32 => 4 | .int32 => 5 | .float32 => 6 | .uint64 => 7 | .int64 => 8 | .float64 => 9 | .bytes => 10 : Int))) ∧
    (switchCases wrTypeSwitch).flatten =
      (Cli.regTyTable.map (·.1) ++ ["string"]).map (fun n => ("splitArgs[1]", quoted n)) ∧
    (assignedTo "o.op" wrTypeSwitch).map litOf =
      [some 13, some 14, some 16, some 15, some 17, some 19, some 18, some 20, some 21, some 21] ∧
    (switchCases wcValueSwitch).flatten = [("splitArgs[2]", quoted "true"), ("splitArgs[2]", quoted "false")] ∧
    (switchCases scanTypeSwitch).flatten = Cli.scanTypes.map (fun n => ("splitArgs[1]", quoted n)) := by
  decide +kernel

/-- `len(splitArgs) != k` -/
def lenNe (k : Int) : GExpr := .cmp "!=" (.var "len(splitArgs)" .int) (.lit k .int)

/-- **the arity tests.** The FIRST statement of every arm is `if len(splitArgs) != k { Printf(<usage
    text>, len(splitArgs) - 1); os.Exit(2) }` with k = 2 / 3 / 3 / 4 / 2 / 2 / 1 / 1 / 2 (ping:
    `< 2 || > 3`), nothing precedes it in the arm; the loop head refuses a lone part that is not
    `repeat` / `date`; the default arm is `Printf("unsupported command …"); os.Exit(2)`. -/
theorem C20S_arity_tests :
    (iC (nthS 0 armRcRdi) = lenNe 2 ∧ iC (nthS 0 armRhRi) = lenNe 3 ∧ iC (nthS 0 armWc) = lenNe 3 ∧
     iC (nthS 0 armWr) = lenNe 4 ∧ iC (nthS 0 armSleep) = lenNe 2 ∧ iC (nthS 0 armSid) = lenNe 2 ∧
     iC (nthS 0 armRepeat) = lenNe 1 ∧ iC (nthS 0 armDate) = lenNe 1 ∧ iC (nthS 0 armScan) = lenNe 2 ∧
     iC (nthS 0 armPing) = .or (.cmp "<" (.var "len(splitArgs)" .int) (.lit 2 .int))
                              (.cmp ">" (.var "len(splitArgs)" .int) (.lit 3 .int))) ∧
    (isRefusal "\"need exactly 1 argument after rc/rdi, got %v\\n\"" (iT (nthS 0 armRcRdi)) &&
     isRefusal "\"need exactly 2 arguments after rh/ri, got %v\\n\"" (iT (nthS 0 armRhRi)) &&
     isRefusal "\"need exactly 2 arguments after writeCoil, got %v\\n\"" (iT (nthS 0 armWc)) &&
     isRefusal "\"need exactly 3 arguments after writeRegister, got %v\\n\"" (iT (nthS 0 armWr)) &&
     isRefusal "\"need exactly 1 argument after sleep, got %v\\n\"" (iT (nthS 0 armSleep)) &&
     isRefusal "\"need exactly 1 argument after setUnitId, got %v\\n\"" (iT (nthS 0 armSid)) &&
     isRefusal "\"repeat takes no arguments, got %v\\n\"" (iT (nthS 0 armRepeat)) &&
     isRefusal "\"date takes no arguments, got %v\\n\"" (iT (nthS 0 armDate)) &&
     isRefusal "\"need exactly 1 argument after scan, got %v\\n\"" (iT (nthS 0 armScan)) &&
     isRefusal "\"need 1 or 2 arguments after ping, got %v\\n\"" (iT (nthS 0 armPing)) &&
     isRefusal "\"unsupported command '%v'\\n\"" armDefault &&
     isRefusal "\"illegal command format (should be command:arg1:arg2..., e.g. rh:uint32:0x1000+5)\\n\""
       illegalStmt) = true := by
  refine ⟨⟨by rfl, by rfl, by rfl, by rfl, by rfl, by rfl, by rfl, by rfl, by rfl, by rfl⟩, ?_⟩
  decide +kernel

/-- the calls of a statement that are not `fmt.Printf` / `os.Exit`: targets, callee, texts of the
    leaf arguments -/
def helperCalls (s : GStmt) : List (List String × String × List (Option String)) :=
  ((bindCalls s).filter (fun c => c.2.1 != "fmt.Printf" && c.2.1 != "os.Exit")).map
    (fun c => (c.1, c.2.1, c.2.2.map leafText?))

/-- **which parse helper is called on which part, and where its results go** — arm by arm, all
    paths, program order -/
theorem C20S_helper_calls :
    helperCalls armRcRdi =
      [(["o.addr", "o.quantity", "err"], "parseAddressAndQuantity", [some "splitArgs[1]"])] ∧
    helperCalls armRhRi =
      [(["o.addr", "o.quantity", "err"], "parseAddressAndQuantity", [some "splitArgs[2]"])] ∧
    helperCalls armWc = [(["o.addr", "err"], "parseUint16", [some "splitArgs[1]"])] ∧
    helperCalls armWr =
      [(["o.addr", "err"], "parseUint16", [some "splitArgs[2]"]),
       (["o.u16", "err"], "parseUint16", [some "splitArgs[3]"]),
       (["o.u16", "err"], "parseInt16", [some "splitArgs[3]"]),
       (["o.u32", "err"], "parseUint32", [some "splitArgs[3]"]),
       (["o.u32", "err"], "parseInt32", [some "splitArgs[3]"]),
       (["o.f32", "err"], "parseFloat32", [some "splitArgs[3]"]),
       (["o.u64", "err"], "parseUint64", [some "splitArgs[3]"]),
       (["o.u64", "err"], "parseInt64", [some "splitArgs[3]"]),
       (["o.f64", "err"], "parseFloat64", [some "splitArgs[3]"]),
       (["o.bytes", "err"], "parseHexBytes", [some "splitArgs[3]"])] ∧
    helperCalls armSleep = [(["o.duration", "err"], "time.ParseDuration", [some "splitArgs[1]"])] ∧
    helperCalls armSid = [(["o.unitId", "err"], "parseUnitId", [some "splitArgs[1]"])] ∧
    helperCalls armRepeat = [] ∧ helperCalls armDate = [] ∧ helperCalls armScan = [] ∧
    helperCalls armPing =
      [(["o.quantity", "err"], "parseUint16", [some "splitArgs[1]"]),
       (["o.duration", "err"], "time.ParseDuration", [some "splitArgs[2]"])] ∧
    helperCalls armDefault = [] := by
  refine ⟨by decide +kernel, by decide +kernel, by decide +kernel, by decide +kernel, by decide +kernel,
    by decide +kernel, by decide +kernel, by decide +kernel, by decide +kernel, by decide +kernel,
    by decide +kernel⟩

/-- everything a statement assigns: `assign` targets and `bindCall` targets (program order) -/
def targetsOf : GStmt → List String
  | .assign x _ => [x]
  | .bindCall ts _ _ => ts
  | .seq a b => targetsOf a ++ targetsOf b
  | .ite _ t e => targetsOf t ++ targetsOf e
  | .loop b => targetsOf b
  | _ => []

/-- the fields of `o` a statement assigns (without repetition) -/
def oFields (s : GStmt) : List String :=
  ((targetsOf s).filter (fun x => "o.".toList.isPrefixOf x.toList)).eraseDups

/-- **which fields of `o` each arm sets** -/
theorem C20S_assigned_fields :
    oFields armRcRdi = ["o.isCoil", "o.op", "o.addr", "o.quantity"] ∧
    oFields armRhRi = ["o.isHoldingReg", "o.op", "o.addr", "o.quantity"] ∧
    oFields armWc = ["o.op", "o.addr", "o.coil"] ∧
    oFields armWr = ["o.addr", "o.op", "o.u16", "o.u32", "o.f32", "o.u64", "o.f64", "o.bytes"] ∧
    oFields armSleep = ["o.op", "o.duration"] ∧ oFields armSid = ["o.op", "o.unitId"] ∧
    oFields armRepeat = ["o.op"] ∧ oFields armDate = ["o.op"] ∧
    oFields armScan = ["o.op", "o.isCoil", "o.isHoldingReg"] ∧
    oFields armPing = ["o.op", "o.quantity", "o.duration"] ∧ oFields armDefault = [] ∧
    -- nothing but `o`'s fields, `err`, and (wr:string) nothing else is assigned inside the switch
    ((targetsOf argSwitch).filter (fun x => !("o.".toList.isPrefixOf x.toList))).eraseDups = ["err"] := by
  decide +kernel

/-! ### 3d. `o` is a fresh record per argument -/

/-- leaves read by the conditions, right-hand sides and call arguments of a statement -/
def readsOf : GStmt → List String
  | .assign _ e => leaves e
  | .bindCall _ _ as => (as.map leaves).flatten
  | .seq a b => readsOf a ++ readsOf b
  | .ite c t e => leaves c ++ readsOf t ++ readsOf e
  | .loop b => readsOf b
  | _ => []

/-- **fresh record.** In the SOURCE `var splitArgs []string` and `var o operation` are declared
    inside the loop body; the rendering keeps them as the marker statements
    `splitArgs ← var []string`, `o ← var operation`, and these are the FIRST TWO statements of the
    body of every round, preceded in the round only by `arg := flag.Args()[#i]`; no leaf of `o` is
    read or assigned before them (nor by them); `o` itself is assigned nowhere else in the round,
    and the round ends by appending `o` to `runList` and incrementing the index. -/
theorem C20S_fresh_record :
    nthS 0 argBody = .bindCall ["splitArgs"] "var []string" [] ∧
    nthS 1 argBody = .bindCall ["o"] "var operation" [] ∧
    argRound = .seq (.assign "arg" (.var "flag.Args()[#i]" .other))
      (.seq argBody (.assign "#i" (.bin "+" .int (.var "#i" .int) (.lit 1 .int)))) ∧
    (targetsOf argRound).filter (· == "o") = ["o"] ∧
    readsOf (nthS 0 argBody) = [] ∧ readsOf (nthS 1 argBody) = [] ∧
    sBn 5 argBody = .assign "runList" (.call "append(runList, o)" .other) := by
  refine ⟨by rfl, by rfl, by rfl, by decide +kernel, by rfl, by rfl, by rfl⟩

/-- **the flags rely on the zero value.** In the rc / rdi arm `o.isCoil` is assigned ONCE, the
    literal `true`, under the condition "rc | readCoil | readCoils", with an empty `else`: an `rdi`
    round never assigns it. The same for `o.isHoldingReg` in the rh / ri arm. So "assigned in every
    arm that is read later" does NOT hold in the source: its correctness rests on the
    re-initialisation of `o` per round (`C20S_fresh_record`). -/
theorem C20S_flags_rely_on_zero_value :
    nthS 1 armRcRdi =
      .ite (.or (.or (nameIs "rc") (nameIs "readCoil")) (nameIs "readCoils"))
        (.assign "o.isCoil" (.lit 1 .bool)) .skip ∧
    (assignedTo "o.isCoil" armRcRdi).map litOf = [some 1] ∧
    nthS 1 armRhRi =
      .ite (.or (.or (nameIs "rh") (nameIs "readHoldingRegister")) (nameIs "readHoldingRegisters"))
        (.assign "o.isHoldingReg" (.lit 1 .bool)) .skip ∧
    (assignedTo "o.isHoldingReg" armRhRi).map litOf = [some 1] := by
  refine ⟨by rfl, by rfl, by rfl, by rfl⟩

/-- SENSITIVITY (the seeded change C20-5, `o` hoisted out of the loop): when nothing re-initialises
    the record — here: a left-over `o.isCoil = true` of an earlier `rc` round is still bound when
    the round starts — an `rdi:<addr>` round is accepted WITH `isCoil = true`: the run loop would
    read coils instead of discrete inputs. With a fresh record (`C20S_go_rc`) the flag is unset. -/
theorem C20S_stale_flag_would_leak (arg a : String) (x q : U16)
    (h : Cli.parseAddressAndQuantityE a.toList = .ok (x, q)) :
    rverdict (execFrom cliOracle 60 argBody
        (("o.isCoil", .int 1) :: startEnv arg 2 (.sym "rdi") (.sym a) .unk .unk) []) =
      .accepted { noRec with op := some (.int 1), addr := some (.int x.toNat),
                             quantity := some (.int q.toNat), isCoil := some (.int 1) } ∧
    runV arg 2 (.sym "rdi") (.sym a) .unk .unk =
      .accepted { noRec with op := some (.int 1), addr := some (.int x.toNat),
                             quantity := some (.int q.toNat), isCoil := none } := by
  have hp : paqAns a = ((x.toNat : Int), (q.toNat : Int), "nil") := by simp only [paqAns, h]
  constructor
  · cli_round [armRcRdi, hp]
  · cli_round [armRcRdi, hp]

/-! ### 3e. refused before any request is sent -/

/-- the argument literals of every `os.Exit` of a statement -/
def exitCodes (s : GStmt) : List (List (Option Int)) :=
  ((bindCalls s).filter (fun c => c.2.1 == "os.Exit")).map (fun c => c.2.2.map litOf)

/-- a client / library call: `client.<method>`, `modbus.<function>`, or one of the `perform…`
    helpers of the tool (they take the client and send requests) -/
def isRequestCallee (f : String) : Bool :=
  "client.".toList.isPrefixOf f.toList || "modbus.".toList.isPrefixOf f.toList ||
    "perform".toList.isPrefixOf f.toList

/-- every `os.Exit` inside the argument loop (26 of them: one per refusal path) has the literal
    argument 2 -/
theorem C20S_exit_codes : exitCodes argLoopStmt = List.replicate 26 [some 2] := by decide +kernel

/-- the callees of the argument loop, all paths: the two `var` markers, `strings.Split`,
    `fmt.Printf`, `os.Exit`, the parse helpers, `time.ParseDuration` — and nothing else; in
    particular no `client.*`, no `modbus.NewClient`, no `perform…` -/
theorem C20S_args_loop_callees :
    (callees argLoopStmt).eraseDups =
      ["var []string", "var operation", "strings.Split", "fmt.Printf", "os.Exit",
       "parseAddressAndQuantity", "parseUint16", "parseInt16", "parseUint32", "parseInt32",
       "parseFloat32", "parseUint64", "parseInt64", "parseFloat64", "parseHexBytes",
       "time.ParseDuration", "parseUnitId"] ∧
    (callees argLoopStmt).all (fun f => !isRequestCallee f) = true := by
  decide +kernel

/-- **refused before any request is sent, for EVERY run.** Whatever the oracle answers, whatever
    the environment, the history and the fuel: a run of the argument loop of the current `main`
    (all rounds) performs no client / library call, and cannot even be cut at one. Together with
    `C20S_round` (a refused argument ends the process inside the loop, exit status 2) and
    `C20S_order` (the client is created after the loop): a malformed command is refused before
    `modbus.NewClient`, `client.Open` and any request. -/
theorem C20S_args_loop_no_request (o : Oracle) (n : Nat) (env : Env) (cs : Calls) :
    (∃ l, (execFrom o n argLoopStmt env cs).calls = cs ++ l ∧ ∀ c ∈ l, isRequestCallee c.1 = false) ∧
    (∀ f vs, (execFrom o n argLoopStmt env cs).how = .stoppedAt f vs → isRequestCallee f = false) := by
  have hall := C20S_args_loop_callees.2
  rw [List.all_eq_true] at hall
  constructor
  · obtain ⟨l, hl, hm⟩ := calls_within o n argLoopStmt env cs
    exact ⟨l, hl, fun c hc => by simpa using hall _ (hm c hc)⟩
  · intro f vs h
    simpa using hall _ (stopped_within o n argLoopStmt env cs f vs h)

/-! ## 4. order of the top-level statements of `main` -/

/-- indices of the top-level statements of `main` that contain a call of `f` -/
def stmtsCalling (f : String) : List Nat :=
  (((spine gs_cli_main).map callees).zipIdx.filter (fun p => p.1.contains f)).map (·.2)

/-- indices of the top-level statements that contain a client / library call -/
def stmtsRequesting : List Nat :=
  (((spine gs_cli_main).map callees).zipIdx.filter (fun p => p.1.any isRequestCallee)).map (·.2)

/-- **order.** `main` is a sequence of 35 top-level statements. `flag.Parse` is statement 13; the
    argument loop is statement 24 (the only one calling `strings.Split`; `nthS 24` IS
    `argLoopStmt`); `modbus.NewClient` 25; `client.SetEncoding` 27; `client.SetUnitId` 30 (and inside
    the run loop, 33, for the setUnitId command); `client.Open` 31; the run loop is statement 33
    and holds every `client.Read… / Write…` call. The statements with a client / library call are
    22 (`modbus.LoadCertPool`: reads a certificate file, no connection), 25, 27, 30, 31, 33: none
    before the argument loop except the certificate loader, none inside it. -/
theorem C20S_order :
    (spine gs_cli_main).length = 35 ∧
    stmtsCalling "flag.Parse" = [13] ∧ stmtsCalling "strings.Split" = [24] ∧
    nthS 24 gs_cli_main = argLoopStmt ∧
    stmtsCalling "modbus.NewClient" = [25] ∧ stmtsCalling "client.SetEncoding" = [27] ∧
    stmtsCalling "client.SetUnitId" = [30, 33] ∧ stmtsCalling "client.Open" = [31] ∧
    stmtsCalling "client.ReadCoils" = [33] ∧ stmtsCalling "client.ReadRegisters" = [33] ∧
    stmtsCalling "client.WriteCoil" = [33] ∧ stmtsCalling "client.WriteRegister" = [33] ∧
    stmtsRequesting = [22, 25, 27, 30, 31, 33] ∧
    (callees (nthS 22 gs_cli_main)).filter isRequestCallee = ["modbus.LoadCertPool"] := by
  refine ⟨by decide +kernel, by decide +kernel, by decide +kernel, rfl, by decide +kernel,
    by decide +kernel, by decide +kernel, by decide +kernel, by decide +kernel, by decide +kernel,
    by decide +kernel, by decide +kernel, by decide +kernel, by decide +kernel⟩

/-- **sequential composition runs in order, for EVERY run**: in `a; b` every call of `a` is logged
    before every call of `b`, and `b` contributes calls only if `a` ran to its end (`fell`) — a
    statement that ends the process (`os.Exit`: the run is cut), returns or is stuck keeps
    everything behind it from running. With `C20S_order`: `modbus.NewClient` (25) runs only after
    the argument loop (24) has completed all its rounds, `client.Open` (31) only after that. -/
theorem C20S_sequential (o : Oracle) (n : Nat) (a b : GStmt) (env : Env) (cs : Calls) :
    ∃ la lb, (execFrom o (n + 1) (.seq a b) env cs).calls = cs ++ la ++ lb ∧
      (∀ c ∈ la, c.1 ∈ callees a) ∧ (∀ c ∈ lb, c.1 ∈ callees b) ∧
      ((execFrom o n a env cs).how ≠ .fell → lb = []) := by
  rw [execFrom_seq]
  obtain ⟨la, ha, ma⟩ := calls_within o n a env cs
  generalize execFrom o n a env cs = r at ha
  obtain ⟨e, hw, c⟩ := r
  simp only at ha
  by_cases hf : hw = .fell
  · subst hf
    rw [seqK_fell]
    obtain ⟨lb, hb, mb⟩ := calls_within o n b e c
    exact ⟨la, lb, by rw [hb, ha], ma, mb, fun h => absurd rfl h⟩
  · refine ⟨la, [], ?_, ma, by simp, fun _ => rfl⟩
    rw [seqK_of_not_fell _ _ _ _ hf, List.append_nil]
    exact ha

/-! ## axioms -/

#print axioms C20S_parse_helpers
#print axioms C20S_parse_helpers_run
#print axioms C20S_conv_unsigned
#print axioms C20S_conv_signed
#print axioms C20S_conv_signed_roundtrip
#print axioms C20S_parse_floats
#print axioms C20S_parseHexBytes
#print axioms C20S_sensitive_bits32
#print axioms C20S_parseAddressAndQuantity
#print axioms C20S_parseAddressAndQuantity_model
#print axioms C20S_sensitive_no_early_return
#print axioms C20S_go_rc_arity
#print axioms C20S_go_rc
#print axioms C20S_go_rh_arity
#print axioms C20S_go_rh
#print axioms C20S_go_wc_arity
#print axioms C20S_go_wc
#print axioms C20S_go_wr_arity
#print axioms C20S_go_wr
#print axioms C20S_go_sleep_arity
#print axioms C20S_go_sleep
#print axioms C20S_go_sid_arity
#print axioms C20S_go_sid
#print axioms C20S_go_repeat
#print axioms C20S_go_date
#print axioms C20S_go_scan_arity
#print axioms C20S_go_scan
#print axioms C20S_go_ping_arity
#print axioms C20S_go_ping_2
#print axioms C20S_go_ping_3
#print axioms C20S_go_unknown
#print axioms C20S_round
#print axioms C20S_round_refused
#print axioms C20S_round_accepted
#print axioms C20S_round_iff
#print axioms C20S_round_parseArg
#print axioms C20S_round_fuel
#print axioms C20S_command_names
#print axioms C20S_type_tables
#print axioms C20S_arity_tests
#print axioms C20S_helper_calls
#print axioms C20S_assigned_fields
#print axioms C20S_fresh_record
#print axioms C20S_flags_rely_on_zero_value
#print axioms C20S_stale_flag_would_leak
#print axioms C20S_exit_codes
#print axioms C20S_args_loop_callees
#print axioms C20S_args_loop_no_request
#print axioms C20S_order
#print axioms C20S_sequential

end Modbus.Props.C20
