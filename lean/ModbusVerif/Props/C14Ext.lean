import ModbusVerif.Model.Skeleton
import ModbusVerif.Model.Tls
import ModbusVerif.Generated.Facts
/-
  C14 (continued) — the gate composed with the assumed contract of crypto/tls, and the closure
  facts "a handler can only be reached through the gate", all decided on facts regenerated from
  /repo on every run:

  * `Gen.skeleton_*`   — control/call skeletons (extract/main.go `skeletonOf`),
  * `Gen.flowTables`    — structured flows of every ModbusServer method (extract/flow.go),
  * `Gen.handlerCalls`  — every call through the server's `handler` field.

  T-tls (assumed, sampled by the real handshake matrix of the harness): with the configured policy
  (`C14_server_policy` / `C14_client_policy`) `tlsSock.Handshake()` returns an error exactly for the
  peers with `serverHandshakeOk p = false`, and after a successful handshake under
  RequireAndVerifyClientCert a peer certificate is present; `tls.DialWithDialer` + `Handshake` on
  the client side fail exactly for `clientHandshakeOk p = false`.
-/
namespace Modbus.Props.C14
open Modbus Skel Tls

set_option maxRecDepth 100000

/-! ### composition: who reaches the request loop -/

/-- outcome of `startTLS` for a peer under T-tls: oracle = [SetDeadline failed, Handshake failed,
    no peer certificate]; `startTLS` returns an error iff it does not reach `extractRole` -/
def startTLSFails (setDeadlineFails : Bool) (p : Peer) : Bool :=
  !(called (exec Gen.skeleton_ModbusServer_startTLS "" [setDeadlineFails, !serverHandshakeOk p, false])
      "ms.extractRole")

/-- SERVER: on a tcp+tls listener the request loop — the only place handlers are called from
    (`C14X_handler_calls_only_in_handleTransport`) — runs for a peer iff that peer completes the
    TLS ≥ 1.2 handshake with a certificate that verifies (T-tls), and the deadline could be set -/
theorem C14X_served_iff_handshake (p : Peer) (setDeadlineFails : Bool) :
    called (exec Gen.skeleton_ModbusServer_handleTCPClient "5" [startTLSFails setDeadlineFails p])
        "ms.handleTransport"
      = (serverHandshakeOk p && !setDeadlineFails) := by
  unfold startTLSFails
  generalize serverHandshakeOk p = b
  cases b <;> cases setDeadlineFails <;> decide +kernel

/-- the peers that are served, spelled out -/
theorem C14X_served_matrix (p : Peer) :
    called (exec Gen.skeleton_ModbusServer_handleTCPClient "5" [startTLSFails false p])
        "ms.handleTransport" = true ↔
      ∃ v c, p = .tls v c ∧ v ≥ 12 ∧ (c = .pinnedLeaf ∨ c = .validChain ∨ c = .wrongHost) := by
  rw [C14X_served_iff_handshake]
  cases p with
  | plainText => simp [serverHandshakeOk]
  | tls v c =>
    constructor
    · intro h
      refine ⟨v, c, rfl, ?_⟩
      cases c <;> simp [serverHandshakeOk] at h ⊢ <;> omega
    · rintro ⟨v', c', hp, hv, hc⟩
      cases hp
      rcases hc with rfl | rfl | rfl <;> simp [serverHandshakeOk] <;> omega

/-- when served, the loop runs on the TLS socket that `startTLS` returned, never on the raw one -/
theorem C14X_served_on_tls_socket :
    let tr := exec Gen.skeleton_ModbusServer_handleTCPClient "5" [false]
    tr.any (fun t => t.1 == "bind" && t.2.1 == "ms.startTLS" && t.2.2.head? == some "tlsSock") = true ∧
    calledWith tr "newTCPTransport" "tlsSock" = true ∧ calledWith tr "newTCPTransport" "sock" = false := by
  decide +kernel

/-- CLIENT: a transport is installed — so that a request can be written at all — iff dialling and
    the handshake both succeed; under T-tls that is `clientHandshakeOk p` (for a reachable server).
    `eDial`, `eHs` are any split of the failure between `tls.DialWithDialer` (which already runs the
    handshake) and the explicit `Handshake()` call. -/
theorem C14X_client_sends_iff_handshake (p : Peer) (eDial eHs : Bool)
    (h : (eDial || eHs) = !clientHandshakeOk p) :
    assigned (exec Gen.skeleton_ModbusClient_Open "5" [eDial, eHs]) "mc.transport" = clientHandshakeOk p := by
  generalize clientHandshakeOk p = b at h
  cases b <;> cases eDial <;> cases eHs <;> first | (exact absurd h (by decide)) | decide +kernel

/-! ### closure: handlers are only reachable through the gate -/

/-- does the flow contain the act `k name`? -/
def mentions (k : Gen.ActKind) (name : String) : Gen.Flow → Bool
  | .act k' n => k' == k && n == name
  | .seq a b | .alt a b => mentions k name a || mentions k name b
  | .loop b | .block b => mentions k name b
  | _ => false

def methodsWith (k : Gen.ActKind) (name : String) : List String :=
  (Gen.flowTables.filter (fun p => mentions k name p.2)).map (·.1)

/-- every call through the `handler` field is in `handleTransport` (8 call sites: coils read /
    single write / multiple write, discrete inputs, holding read / single / multiple, input) -/
theorem C14X_handler_calls_only_in_handleTransport :
    Gen.handlerCalls.all (fun c => c.1 == "ModbusServer.handleTransport") = true ∧
    Gen.handlerCalls.length = 8 ∧
    methodsWith .rd "handler" = ["ModbusServer.handleTransport"] := by decide +kernel

/-- `handleTransport` is called from `handleTCPClient` only, which is started as a goroutine by
    `acceptTCPClients` only, which `Start` starts; no method value of these escapes (the translator
    renders a method value as `stuck`, and no flow is stuck — `C08F`/`C10F` flows_ok) -/
theorem C14X_gate_is_the_only_way :
    methodsWith .call "handleTransport" = ["ModbusServer.handleTCPClient"] ∧
    methodsWith .go "handleTransport" = [] ∧
    methodsWith .call "handleTCPClient" = [] ∧
    methodsWith .go "handleTCPClient" = ["ModbusServer.acceptTCPClients"] ∧
    methodsWith .call "acceptTCPClients" = [] ∧
    methodsWith .go "acceptTCPClients" = ["ModbusServer.Start"] ∧
    methodsWith .call "startTLS" = ["ModbusServer.handleTCPClient"] := by decide +kernel

/-- in `handleTCPClient` the two calls of `handleTransport` sit in the plain-tcp case and behind the
    `startTLS` error test of the tcp+tls case; no other transport type reaches it -/
theorem C14X_other_types_not_served :
    called (exec Gen.skeleton_ModbusServer_handleTCPClient "0" []) "ms.handleTransport" = false ∧
    called (exec Gen.skeleton_ModbusServer_handleTCPClient "1" [false]) "ms.handleTransport" = false ∧
    called (exec Gen.skeleton_ModbusServer_handleTCPClient "6" [false]) "ms.handleTransport" = false := by
  decide +kernel

/-! sensitivity -/
example : mentions .rd "handler" (.seq (.act .acq "lock") (.alt .skip (.loop (.act .rd "handler")))) = true := by decide
example : mentions .rd "handler" (.seq (.act .wr "handler") .ret) = false := by decide

#print axioms C14X_served_iff_handshake
#print axioms C14X_served_matrix
#print axioms C14X_served_on_tls_socket
#print axioms C14X_client_sends_iff_handshake
#print axioms C14X_handler_calls_only_in_handleTransport
#print axioms C14X_gate_is_the_only_way
#print axioms C14X_other_types_not_served

end Modbus.Props.C14
