import ModbusVerif.Lemmas.GoEvalCodecLemmas
import ModbusVerif.Props.C17
/-
  C17, source tie for the COIL codec: the loops of `encodeBools` / `decodeBools` (encoding.go), as
  rendered by the translator (`Gen.gs_encodeBools`, `Gen.gs_decodeBools`, regenerated from /repo on
  every run), are EVALUATED by `Modbus.GoEval` with Go's `uint` / `uint8` semantics and proved equal,
  for every input, to the hand-written model `Enc.encodeBools` / `Enc.decodeBools`, about which
  Props/C17.lean proves the property (LSB first, zero padded, inverted by unpacking).

  1. `C17S_encode_byteCount`  the genuine run of the whole `gs_encodeBools` up to its first read of
                              `in[i]`: `byteCount = n/8 + [n%8 ≠ 0]` = ⌈n/8⌉ (n < 2^62), `out` is
                              the leaf `make([]byte, byteCount)`, `i = 0`.
  2. `C17S_encode_iter_*`     ONE round of the loop body at every index i and every byte value v.
     `C17S_encode_loop`       all rounds: the array is `Enc.encodeBools l`.
  3. `C17S_decode_iter_*`     one round of `decodeBools` at every index and byte.
     `C17S_decode_loop`       all rounds: the appended values are `Enc.decodeBools quantity bytes`;
                              the run stops for want of an element exactly when the model says
                              `none` (Go: index out of range panic).
  4. `C17S_roundtrip_src`     decode run on the array produced by the encode run gives the input.
  5. static structure (`C17S_encode_shape`, `C17S_decode_shape`), sensitivity (variants are told
     apart), concrete runs.

  How the slices are handled (Lemmas/GoEvalCodecLemmas.lean, `loopMem`): a leaf such as `in[i]` is
  ONE text key for the evaluator, so the loop is run by `loopMem` = the evaluator's own loop
  (`loopMem_trivial`) plus, per round, `load` (bind `in[i]`, `out[i/8]` / `in[i/8]` to the element
  the CURRENT value of `i` selects, `unk` when the index is out of range) and `store` (write the
  value the round left in `out[i/8]` back at the index it was loaded from).

  What is modelled (not derived from the generated terms):
  * the index expression inside a leaf text: `in[i]` is element `i`, `out[i/8]` / `in[i/8]` element
    `i / 8` (`uint` division) of the slice, with `i` the value of the variable at the START of the
    round (in both bodies `i` is assigned once, as the last statement);
  * `make([]byte, byteCount)` is `byteCount` zero bytes (`makeBytes`, applied to the value of
    `byteCount` the genuine run computed); `len(in)` is the length of the input;
  * `append(out, e)`: the appended values are read off the call log (`appended`); the slice
    itself is an opaque symbol; the oracle refuses an `unk` element (no value to append);
  * the three statements before the loop are run by `exec` on the WHOLE generated term, which gets
    stuck at the first `if in[i]` (the environment of that run has no `in[i]`): its environment
    is the one the loop is entered with. The loop body run by `loopMem` is the body of the only
    loop of the generated term (`C17S_encode_shape`, by `rfl`).
-/
set_option linter.unusedSimpArgs false
set_option linter.unusedVariables false

namespace Modbus.Props.C17
open Modbus Modbus.Gen Modbus.GoEval

/-! ## 0. common -/

/-- no call is answered (`encodeBools` calls nothing) -/
def srcNoOracle : Oracle := fun _ _ => none

/-- element `j` of a byte slice as a value; out of range: `unk` -/
def byteCell (arr : Bytes) (j : Nat) : Val :=
  match arr[j]? with | some b => .int b.toNat | none => .unk
/-- element `i` of a bool slice as a value; out of range: `unk` -/
def boolCell (l : List Bool) (i : Nat) : Val :=
  match l[i]? with | some b => .ofBool b | none => .unk

theorem read_of_read? (env : Env) (x : String) (v : Val) (h : Env.read? env x = some v) :
    Env.read env x = v := by rw [read_def, h]; rfl

theorem set_of_getElem? {α : Type} (arr : List α) (j : Nat) (w : α) (h : arr[j]? = some w) :
    arr.set j w = arr := by
  obtain ⟨hj, hw⟩ := List.getElem?_eq_some_iff.mp h
  subst hw; exact List.set_getElem_self hj

/-! ## 1. `encodeBools`: byte count and allocation -/

/-- parameter leaf `len(in)` and the allocation leaf, bound to the symbol of its own text -/
def encEnv (n : Nat) : Env :=
  [("len(in)", .int n), ("make([]byte, byteCount)", .sym "make([]byte, byteCount)")]

/-- `byteCount = uint(len(in)) / 8; if len(in) % 8 != 0 { byteCount++ }` -/
def byteCount (n : Nat) : Nat := n / 8 + (if n % 8 ≠ 0 then 1 else 0)

theorem byteCount_eq (n : Nat) : byteCount n = (n + 7) / 8 := by
  unfold byteCount; split <;> omega

/-- the environment in which the loop is entered -/
def encEntryEnv (n : Nat) : Env :=
  ("i", .int 0) :: ("out", .sym "make([]byte, byteCount)") ::
    ((if n % 8 ≠ 0 then [("byteCount", Val.int ((n / 8 + 1 : Nat) : Int))] else []) ++
      (("byteCount", .int ((n / 8 : Nat) : Int)) :: encEnv n))

theorem enc_entry_10 (n : Nat) (hn : n < 2^62) :
    exec srcNoOracle 10 gs_encodeBools (encEnv n) =
      ⟨encEntryEnv n, if n = 0 then .returned else .stuckAt "cond", []⟩ := by
  have hw : wrap .uint (n : Int) = (n : Int) := wrap_uint_nat n (by omega)
  have hd := wrap_uint_div8 n (by omega)
  have hs := wrap_uint_succ (n / 8) (by omega)
  by_cases h8 : n % 8 = 0
  · have hm : wrap .int ((n : Int).tmod 8) = 0 := by rw [wrap_int_mod8, h8]; rfl
    by_cases h0 : n = 0
    · subst h0; decide +kernel
    · have hlt : (0 : Int) < (n : Int) := by omega
      go_eval_nowrap [gs_encodeBools, srcNoOracle, encEnv, hw, hd, hm, hlt, Int.reduceEq, write_def,
        ne_eq, not_true_eq_false, not_false_eq_true, false_and, encEntryEnv, h8, h0]
  · have hm := wrap_int_mod8 n
    have hne : ¬ (((n % 8 : Nat) : Int) = 0) := by omega
    have h0 : ¬ n = 0 := by omega
    have hlt : (0 : Int) < (n : Int) := by omega
    go_eval_nowrap [gs_encodeBools, srcNoOracle, encEnv, hw, hd, hm, hne, hs, hlt, Int.reduceEq,
      write_def, ne_eq, not_true_eq_false, not_false_eq_true, false_and, encEntryEnv, h8, h0]

theorem encEntryEnv_byteCount (n : Nat) :
    Env.read? (encEntryEnv n) "byteCount" = some (.int (byteCount n)) := by
  unfold encEntryEnv byteCount
  by_cases h : n % 8 = 0
  · simp [read?_cons, h]
  · simp [read?_cons, h]

/-- **byte count and allocation of `encodeBools`**, by evaluation of the whole generated function
    for every input length n < 2^62 (no `uint` / `int` operation wraps there). The environment
    holds `len(in) = n` and nothing about the elements, so the run ends at the first `if in[i]`
    (`stuckAt "cond"`; for n = 0 the loop is not entered and the function returns). At that point
    `byteCount = n/8 + (if n%8 ≠ 0 then 1 else 0)` = ⌈n/8⌉ = the length of `Enc.encodeBools` of any
    n-element list, `out` holds the allocation leaf `make([]byte, byteCount)` — the only
    expression ever assigned to `out`, after the last assignment to `byteCount` —, `i = 0`, and no
    call was made. -/
theorem C17S_encode_byteCount (n : Nat) (hn : n < 2^62) (fuel : Nat) (hf : 10 ≤ fuel) :
    let res := exec srcNoOracle fuel gs_encodeBools (encEnv n)
    Env.read res.env "byteCount" = .int (byteCount n) ∧
    byteCount n = (n + 7) / 8 ∧
    (∀ l : List Bool, l.length = n → (Enc.encodeBools l).length = byteCount n) ∧
    Env.read res.env "out" = .sym "make([]byte, byteCount)" ∧
    assignedTexts "out" gs_encodeBools = [some "make([]byte, byteCount)"] ∧
    Env.read res.env "i" = .int 0 ∧
    res.how = (if n = 0 then .returned else .stuckAt "cond") ∧ res.calls = [] ∧
    res.env = encEntryEnv n := by
  have h10 := enc_entry_10 n hn
  have hm := exec_mono srcNoOracle 10 fuel gs_encodeBools (encEnv n) hf
    (by rw [h10]; split <;> exact fun h => nomatch h)
  simp only [hm, h10]
  refine ⟨read_of_read? _ _ _ (encEntryEnv_byteCount n), byteCount_eq n, ?_, rfl, by decide +kernel,
    rfl, trivial, trivial, trivial⟩
  intro l hl
  rw [bools_length, byteCount_eq, hl]

/-- sensitivity: the two seeded bugs computed `(n + 8) / 8`; on that variant n = 8 gives 2 bytes,
    the source (and the model) 1 -/
example : Env.read (exec srcNoOracle 10
      (.assign "byteCount" (.bin "/" .uint (.bin "+" .uint (.conv .uint (.var "len(in)" .int))
        (.lit 8 .uint)) (.lit 8 .uint))) (encEnv 8)).env "byteCount" = .int 2 ∧
    Env.read (exec srcNoOracle 10 gs_encodeBools (encEnv 8)).env "byteCount" = .int 1 ∧
    (Enc.encodeBools (List.replicate 8 true)).length = 1 := by
  refine ⟨by decide +kernel, by decide +kernel, ?_⟩
  rw [bools_length]; rfl

/-! ## 2. `encodeBools`: the loop -/

/-- the body of the `for` loop of `encodeBools` (`C17S_encode_shape`: it IS the generated one) -/
def encBody : GStmt :=
  (.ite (.cmp "<" (.var "i" .uint) (.conv .uint (.var "len(in)" .int)))
    (.seq
      (.ite (.var "in[i]" .bool)
        (.assign "out[i/8]" (.bin "|" .u8 (.var "out[i/8]" .u8)
          (.bin "<<" .u8 (.lit 1 .u8) (.bin "%" .uint (.var "i" .uint) (.lit 8 .uint)))))
        .skip)
      (.assign "i" (.bin "+" .uint (.var "i" .uint) (.lit 1 .uint))))
    .brk)

/-- static structure of `encodeBools`: two statements computing `byteCount`, the allocation, then
    `for i = 0; i < uint(len(in)); i++ { if in[i] { out[i/8] |= 1 << (i%8) } }`, then `return`;
    there is no other loop -/
theorem C17S_encode_shape :
    gs_encodeBools =
      .seq (.assign "byteCount" (.bin "/" .uint (.conv .uint (.var "len(in)" .int)) (.lit 8 .uint)))
        (.seq (.ite (.cmp "!=" (.bin "%" .int (.var "len(in)" .int) (.lit 8 .int)) (.lit 0 .int))
            (.assign "byteCount" (.bin "+" .uint (.var "byteCount" .uint) (.lit 1 .uint))) .skip)
          (.seq (.assign "out" (.call "make([]byte, byteCount)" .other))
            (.seq (.seq (.assign "i" (.lit 0 .uint)) (.loop encBody)) .ret))) ∧
    loopBodies gs_encodeBools = [encBody] ∧ bindCalls gs_encodeBools = [] :=
  ⟨rfl, rfl, rfl⟩

/-- one round, `in[i] = true`, for EVERY index i < n < 2^62 and EVERY byte v in `out[i/8]`:
    the round assigns `out[i/8] = v ||| (1 <<< (i % 8))` (the `uint8` result of the evaluator, as a
    bit-vector: bit position `i % 8`, mask `1`), then `i = i + 1`, and falls through -/
theorem C17S_encode_iter_true (env : Env) (cs : Calls) (n i : Nat) (v : Byte) (hn : n < 2^62)
    (hi : i < n) (h1 : Env.read? env "i" = some (.int i))
    (h2 : Env.read? env "len(in)" = some (.int n)) :
    execFrom srcNoOracle 4 encBody (("in[i]", .ofBool true) :: ("out[i/8]", .int v.toNat) :: env) cs =
      ⟨("i", .int ((i + 1 : Nat) : Int)) ::
        ("out[i/8]", .int ((v ||| (1#8 <<< (i % 8))).toNat : Int)) ::
        ("in[i]", .ofBool true) :: ("out[i/8]", .int v.toNat) :: env, .fell, cs⟩ := by
  have hw : wrap .uint (n : Int) = (n : Int) := wrap_uint_nat n (by omega)
  have hlt : (i : Int) < (n : Int) := by omega
  have hs := wrap_uint_succ i (by omega)
  have hm := wrap_uint_mod8 i
  have hnn := natCast_not_neg (i % 8)
  have hb := u8_or_shl v (i % 8) (Nat.mod_lt _ (by decide))
  go_eval_nowrap [encBody, srcNoOracle, h1, h2, hw, hlt, hs, hm, hnn, hb, Int.reduceEq, write_def,
    Int.toNat_natCast]

/-- one round, `in[i] = false`: nothing is assigned but `i = i + 1` (whatever `out[i/8]` holds) -/
theorem C17S_encode_iter_false (env : Env) (cs : Calls) (n i : Nat) (x : Val) (hn : n < 2^62)
    (hi : i < n) (h1 : Env.read? env "i" = some (.int i))
    (h2 : Env.read? env "len(in)" = some (.int n)) :
    execFrom srcNoOracle 4 encBody (("in[i]", .ofBool false) :: ("out[i/8]", x) :: env) cs =
      ⟨("i", .int ((i + 1 : Nat) : Int)) ::
        ("in[i]", .ofBool false) :: ("out[i/8]", x) :: env, .fell, cs⟩ := by
  have hw : wrap .uint (n : Int) = (n : Int) := wrap_uint_nat n (by omega)
  have hlt : (i : Int) < (n : Int) := by omega
  have hs := wrap_uint_succ i (by omega)
  go_eval_nowrap [encBody, srcNoOracle, h1, h2, hw, hlt, hs, Int.reduceEq, write_def]

/-- the round at `i = len(in)`: `break`, nothing assigned, no element is needed -/
theorem C17S_encode_iter_exit (env : Env) (cs : Calls) (n : Nat) (x y : Val) (hn : n < 2^62)
    (h1 : Env.read? env "i" = some (.int n)) (h2 : Env.read? env "len(in)" = some (.int n)) :
    execFrom srcNoOracle 4 encBody (("in[i]", x) :: ("out[i/8]", y) :: env) cs =
      ⟨("in[i]", x) :: ("out[i/8]", y) :: env, .broke, cs⟩ := by
  have hw : wrap .uint (n : Int) = (n : Int) := wrap_uint_nat n (by omega)
  have hlt : ¬ (n : Int) < (n : Int) := by omega
  go_eval_nowrap [encBody, srcNoOracle, h1, h2, hw, hlt, Int.reduceEq, write_def]

/-- the memory of `encodeBools`: the input slice `l` (never written) and the array `out` -/
def encMem (l : List Bool) : Mem Bytes where
  load arr env := match Env.read env "i" with
    | .int i => ("in[i]", boolCell l i.toNat) :: ("out[i/8]", byteCell arr (i.toNat / 8)) :: env
    | _ => env
  store arr env0 env1 := match Env.read env0 "i", Env.read env1 "out[i/8]" with
    | .int i, .int v => arr.set (i.toNat / 8) (BitVec.ofNat 8 v.toNat)
    | _, _ => arr

theorem encMem_load (l : List Bool) (arr : Bytes) (env : Env) (i : Nat)
    (h : Env.read? env "i" = some (.int i)) :
    (encMem l).load arr env =
      ("in[i]", boolCell l i) :: ("out[i/8]", byteCell arr (i / 8)) :: env := by
  simp only [encMem, read_of_read? _ _ _ h, Int.toNat_natCast]

theorem encMem_store (l : List Bool) (arr : Bytes) (env0 env1 : Env) (i : Nat) (w : Byte)
    (h0 : Env.read? env0 "i" = some (.int i))
    (h1 : Env.read? env1 "out[i/8]" = some (.int w.toNat)) :
    (encMem l).store arr env0 env1 = arr.set (i / 8) w := by
  simp only [encMem, read_of_read? _ _ _ h0, read_of_read? _ _ _ h1, Int.toNat_natCast,
    BitVec.ofNat_toNat, BitVec.setWidth_eq]

theorem encMem_store_unk (l : List Bool) (arr : Bytes) (env0 env1 : Env)
    (h1 : Env.read? env1 "out[i/8]" = some .unk) :
    (encMem l).store arr env0 env1 = arr := by
  simp only [encMem, read_of_read? _ _ _ h1]
  split <;> simp_all

/-- rounds `i … i+k-1` and the exit round, from any environment that holds `i` and `len(in)` -/
theorem enc_loop (l : List Bool) (hn : l.length < 2^62) :
    ∀ (k i : Nat) (arr : Bytes) (env : Env) (cs : Calls) (fuel : Nat),
      i + k = l.length → arr.length = (l.length + 7) / 8 →
      Env.read? env "i" = some (.int i) → Env.read? env "len(in)" = some (.int l.length) →
      k + 5 ≤ fuel →
      ∃ env', loopMem srcNoOracle (encMem l) fuel encBody arr env cs
          = ((List.range' i k).foldl (encStep l) arr, ⟨env', .fell, cs⟩) ∧
        Env.read? env' "i" = some (.int l.length) ∧
        (∀ x, x ≠ "i" → x ≠ "in[i]" → x ≠ "out[i/8]" → Env.read? env' x = Env.read? env x) := by
  intro k
  induction k with
  | zero =>
    intro i arr env cs fuel hik hlen h1 h2 hf
    obtain ⟨f, rfl⟩ : ∃ f, fuel = f + 1 := ⟨fuel - 1, by omega⟩
    have hi : i = l.length := by omega
    subst hi
    have hload := encMem_load l arr env l.length h1
    have hx := execFrom_ge_codec srcNoOracle 4 f encBody _ cs _
      (C17S_encode_iter_exit env cs l.length (boolCell l l.length) (byteCell arr (l.length / 8))
        hn h1 h2)
      (fun h => nomatch h) (by omega)
    rw [← hload] at hx
    refine ⟨(encMem l).load arr env, ?_, ?_, ?_⟩
    · rw [loopMem_broke _ _ _ _ _ _ _ _ _ hx]
      simp only [List.range'_zero, List.foldl_nil]
      congr 1
      rw [hload]
      unfold byteCell
      cases hc : arr[l.length / 8]? with
      | none => exact encMem_store_unk l arr _ _ (by simp [read?_cons])
      | some w =>
        rw [encMem_store l arr _ _ l.length w (by simp [read?_cons, h1]) (by simp [read?_cons])]
        exact set_of_getElem? _ _ _ hc
    · rw [hload]; simp [read?_cons, h1]
    · intro x hx1 hx2 hx3
      rw [hload]; simp [read?_cons, Ne.symm hx2, Ne.symm hx3]
  | succ k ih =>
    intro i arr env cs fuel hik hlen h1 h2 hf
    obtain ⟨f, rfl⟩ : ∃ f, fuel = f + 1 := ⟨fuel - 1, by omega⟩
    have hi : i < l.length := by omega
    have hj : i / 8 < arr.length := by omega
    have hload := encMem_load l arr env i h1
    have hbc : boolCell l i = .ofBool l[i] := by simp [boolCell, List.getElem?_eq_getElem hi]
    have hvc : byteCell arr (i / 8) = .int (arr[i / 8]).toNat := by
      simp [byteCell, List.getElem?_eq_getElem hj]
    rw [hbc, hvc] at hload
    rw [List.range'_succ, List.foldl_cons]
    cases hb : l[i] with
    | true =>
      rw [hb] at hload
      obtain ⟨env1, hE⟩ : ∃ e : Env, e = ("i", .int ((i + 1 : Nat) : Int)) ::
            ("out[i/8]", .int ((arr[i / 8] ||| (1#8 <<< (i % 8))).toNat : Int)) ::
            ("in[i]", .ofBool true) :: ("out[i/8]", .int (arr[i / 8]).toNat) :: env := ⟨_, rfl⟩
      have hx : execFrom srcNoOracle f encBody ((encMem l).load arr env) cs = ⟨env1, .fell, cs⟩ := by
        rw [hload, hE]
        exact execFrom_ge_codec srcNoOracle 4 f encBody _ cs _
          (C17S_encode_iter_true env cs l.length i arr[i / 8] hn hi h1 h2) (fun h => nomatch h)
          (by omega)
      rw [loopMem_fell _ _ _ _ _ _ _ _ _ hx]
      have hst : (encMem l).store arr ((encMem l).load arr env) env1 = encStep l arr i :=
        (encMem_store l arr _ _ i (arr[i / 8] ||| (1#8 <<< (i % 8)))
          (by rw [hload]; simp [read?_cons, h1]) (by rw [hE]; simp [read?_cons])).trans (by
            simp [encStep, List.getD_eq_getElem?_getD, List.getElem?_eq_getElem hi, hb,
              List.getElem?_eq_getElem hj])
      rw [hst]
      obtain ⟨env', e1, e2, e3⟩ := ih (i + 1) (encStep l arr i) env1 cs f (by omega)
        (by rw [encStep_length]; exact hlen) (by rw [hE]; simp [read?_cons])
        (by rw [hE]; simp [read?_cons, h2]) (by omega)
      refine ⟨env', e1, e2, ?_⟩
      intro x hx1 hx2 hx3
      rw [e3 x hx1 hx2 hx3, hE]; simp [read?_cons, Ne.symm hx1, Ne.symm hx2, Ne.symm hx3]
    | false =>
      rw [hb] at hload
      obtain ⟨env1, hE⟩ : ∃ e : Env, e = ("i", .int ((i + 1 : Nat) : Int)) ::
            ("in[i]", .ofBool false) :: ("out[i/8]", .int (arr[i / 8]).toNat) :: env := ⟨_, rfl⟩
      have hx : execFrom srcNoOracle f encBody ((encMem l).load arr env) cs = ⟨env1, .fell, cs⟩ := by
        rw [hload, hE]
        exact execFrom_ge_codec srcNoOracle 4 f encBody _ cs _
          (C17S_encode_iter_false env cs l.length i (.int (arr[i / 8]).toNat) hn hi h1 h2)
          (fun h => nomatch h) (by omega)
      rw [loopMem_fell _ _ _ _ _ _ _ _ _ hx]
      have hst : (encMem l).store arr ((encMem l).load arr env) env1 = encStep l arr i :=
        (encMem_store l arr _ _ i arr[i / 8]
          (by rw [hload]; simp [read?_cons, h1]) (by rw [hE]; simp [read?_cons])).trans (by
            simp [encStep, List.getD_eq_getElem?_getD, List.getElem?_eq_getElem hi, hb])
      rw [hst]
      obtain ⟨env', e1, e2, e3⟩ := ih (i + 1) (encStep l arr i) env1 cs f (by omega)
        (by rw [encStep_length]; exact hlen) (by rw [hE]; simp [read?_cons])
        (by rw [hE]; simp [read?_cons, h2]) (by omega)
      refine ⟨env', e1, e2, ?_⟩
      intro x hx1 hx2 hx3
      rw [e3 x hx1 hx2 hx3, hE]; simp [read?_cons, Ne.symm hx1, Ne.symm hx2, Ne.symm hx3]

/-- `make([]byte, byteCount)` for the value `byteCount` has -/
def makeBytes : Val → Bytes
  | .int v => List.replicate v.toNat 0
  | _ => []

/-- the run of `encodeBools` on the list `l`: the genuine run of the generated function up to the
    loop (`C17S_encode_byteCount`), the zeroed array of the size `byteCount` has there, then the
    loop of the generated function with the slices in memory. Result: final array and run. -/
def encodeRun (fuel : Nat) (l : List Bool) : Bytes × Res :=
  let entry := exec srcNoOracle 10 gs_encodeBools (encEnv l.length)
  loopMem srcNoOracle (encMem l) fuel encBody (makeBytes (Env.read entry.env "byteCount")) entry.env []

/-- **the loop of `encodeBools` computes `Enc.encodeBools`**, for every list of fewer than 2^62
    booleans and every fuel ≥ length + 5: the rounds run i = 0 … n−1 in order, each sets bit
    `i % 8` of byte `i / 8` when `in[i]` is true and nothing else
    (`C17S_encode_iter_true/false`), starting from `byteCount` zero bytes; after the exit round the
    array is `Enc.encodeBools l` (bit i of the input in byte i/8 at position i%8, every other
    bit zero: `bools_lsb_first`, `bools_padding` of Props/C17), the loop has fallen through
    (next statement: `return`) with `i = n`, `out` still the allocation, no call made. -/
theorem C17S_encode_loop (l : List Bool) (hn : l.length < 2^62) (fuel : Nat)
    (hf : l.length + 5 ≤ fuel) :
    (encodeRun fuel l).1 = Enc.encodeBools l ∧
    (encodeRun fuel l).2.how = .fell ∧ (encodeRun fuel l).2.calls = [] ∧
    Env.read (encodeRun fuel l).2.env "i" = .int l.length ∧
    Env.read (encodeRun fuel l).2.env "out" = .sym "make([]byte, byteCount)" := by
  have h10 := enc_entry_10 l.length hn
  have hbc := encEntryEnv_byteCount l.length
  have hmk : makeBytes (Env.read (encEntryEnv l.length) "byteCount")
      = List.replicate ((l.length + 7) / 8) 0 := by
    rw [read_of_read? _ _ _ hbc, ← byteCount_eq]; simp [makeBytes]
  obtain ⟨env', e1, e2, e3⟩ := enc_loop l hn l.length 0 (List.replicate ((l.length + 7) / 8) 0)
    (encEntryEnv l.length) [] fuel (by omega) (by simp) (by simp [encEntryEnv, read?_cons])
    (by unfold encEntryEnv encEnv; split <;> simp [read?_cons]) hf
  have hrun : encodeRun fuel l = (Enc.encodeBools l, ⟨env', .fell, []⟩) := by
    unfold encodeRun
    simp only [h10, hmk, e1]
    rw [← List.range_eq_range']
    exact congrArg (fun a => (a, _)) (encFold_eq l)
  rw [hrun]
  refine ⟨rfl, rfl, rfl, read_of_read? _ _ _ e2, ?_⟩
  apply read_of_read?
  rw [e3 "out" (by decide) (by decide) (by decide)]
  simp [encEntryEnv, read?_cons]

/-! ## 3. `decodeBools` -/

/-- the body of the `for` loop of `decodeBools` -/
def decBody : GStmt :=
  (.ite (.cmp "<" (.var "i" .uint) (.conv .uint (.var "quantity" .u16)))
    (.seq
      (.bindCall ["out"] "append" [(.var "out" .other),
        (.cmp "==" (.bin "&" .u8 (.bin ">>" .u8 (.var "in[i/8]" .u8)
          (.bin "%" .uint (.var "i" .uint) (.lit 8 .uint))) (.lit 1 .u8)) (.lit 1 .u8))])
      (.assign "i" (.bin "+" .uint (.var "i" .uint) (.lit 1 .uint))))
    .brk)

/-- static structure of `decodeBools`:
    `for i = 0; i < uint(quantity); i++ { out = append(out, ((in[i/8] >> (i%8)) & 1) == 1) }; return` -/
theorem C17S_decode_shape :
    gs_decodeBools = .seq (.seq (.assign "i" (.lit 0 .uint)) (.loop decBody)) .ret ∧
    loopBodies gs_decodeBools = [decBody] :=
  ⟨rfl, rfl⟩

/-- `append(out, e)`: answered (with the opaque slice) when `e` has a value, refused when it has
    none (`unk`: the element it is computed from does not exist) -/
def appendAns : List Val → Option (List Val)
  | [_, .int _] => some [.sym "out"]
  | _ => none
theorem appendAns_ofBool (o : Val) (b : Bool) : appendAns [o, .ofBool b] = some [.sym "out"] := by
  exact id rfl
theorem appendAns_unk (o : Val) : appendAns [o, .unk] = none := by exact id rfl
def appendOracle : Oracle := fun f args => if f = "append" then appendAns args else none

/-- one round for EVERY index i < quantity and EVERY byte v in `in[i/8]`: the appended value is
    `((v >> (i%8)) & 1) == 1` evaluated in `uint8` = bit `i % 8` of `v`; then `i = i + 1` -/
theorem C17S_decode_iter (env : Env) (cs : Calls) (q i : Nat) (v : Byte) (hq : q < 65536) (hi : i < q)
    (h1 : Env.read? env "i" = some (.int i)) (h2 : Env.read? env "quantity" = some (.int q))
    (h3 : Env.read? env "out" = some (.sym "out")) :
    execFrom appendOracle 4 decBody (("in[i/8]", .int v.toNat) :: env) cs =
      ⟨("i", .int ((i + 1 : Nat) : Int)) :: ("out", .sym "out") :: ("in[i/8]", .int v.toNat) :: env,
        .fell, cs ++ [("append", [.sym "out", .ofBool (v.getLsbD (i % 8))])]⟩ := by
  have hw : wrap .uint (q : Int) = (q : Int) := wrap_uint_nat q (by omega)
  have hlt : (i : Int) < (q : Int) := by omega
  have hs := wrap_uint_succ i (by omega)
  have hm := wrap_uint_mod8 i
  have hnn := natCast_not_neg (i % 8)
  have hb := u8_shr_and v (i % 8)
  go_eval_nowrap [decBody, appendOracle, h1, h2, h3, hw, hlt, hs, hm, hnn, hb, Int.reduceEq, write_def,
    Int.toNat_natCast, appendAns_ofBool]

/-- one round with `in[i/8]` out of range (no value): the run stops at the `append` whose
    argument needs the element; nothing is appended, `i` is not advanced -/
theorem C17S_decode_iter_oob (env : Env) (cs : Calls) (q i : Nat) (hq : q < 65536) (hi : i < q)
    (h1 : Env.read? env "i" = some (.int i)) (h2 : Env.read? env "quantity" = some (.int q))
    (h3 : Env.read? env "out" = some (.sym "out")) :
    execFrom appendOracle 4 decBody (("in[i/8]", .unk) :: env) cs =
      ⟨("in[i/8]", .unk) :: env, .stoppedAt "append" [.sym "out", .unk], cs⟩ := by
  have hw : wrap .uint (q : Int) = (q : Int) := wrap_uint_nat q (by omega)
  have hlt : (i : Int) < (q : Int) := by omega
  have hm := wrap_uint_mod8 i
  go_eval_nowrap [decBody, appendOracle, h1, h2, h3, hw, hlt, hm, Int.reduceEq, write_def,
    Int.toNat_natCast, appendAns_unk]

/-- the round at `i = quantity`: `break`; `in[i/8]` is not needed (it may be out of range) -/
theorem C17S_decode_iter_exit (env : Env) (cs : Calls) (q : Nat) (x : Val) (hq : q < 65536)
    (h1 : Env.read? env "i" = some (.int q)) (h2 : Env.read? env "quantity" = some (.int q)) :
    execFrom appendOracle 4 decBody (("in[i/8]", x) :: env) cs =
      ⟨("in[i/8]", x) :: env, .broke, cs⟩ := by
  have hw : wrap .uint (q : Int) = (q : Int) := wrap_uint_nat q (by omega)
  have hlt : ¬ (q : Int) < (q : Int) := by omega
  go_eval_nowrap [decBody, appendOracle, h1, h2, hw, hlt, Int.reduceEq, write_def]

/-- the memory of `decodeBools`: the byte slice `in` (never written) -/
def decMem (bytes : Bytes) : Mem Unit where
  load _ env := match Env.read env "i" with
    | .int i => ("in[i/8]", byteCell bytes (i.toNat / 8)) :: env
    | _ => env
  store _ _ _ := ()

theorem decMem_load (bytes : Bytes) (env : Env) (i : Nat) (h : Env.read? env "i" = some (.int i)) :
    (decMem bytes).load () env = ("in[i/8]", byteCell bytes (i / 8)) :: env := by
  simp only [decMem, read_of_read? _ _ _ h, Int.toNat_natCast]

/-- the log entry of `out = append(out, b)` -/
def appendCall (b : Bool) : String × List Val := ("append", [.sym "out", .ofBool b])

theorem dec_loop (bytes : Bytes) (q : Nat) (hq : q < 65536) :
    ∀ (k i : Nat) (env : Env) (cs : Calls) (fuel : Nat),
      i + k = q → Env.read? env "i" = some (.int i) → Env.read? env "quantity" = some (.int q) →
      Env.read? env "out" = some (.sym "out") → k + 5 ≤ fuel →
      (∀ bs, Enc.decodeBoolsFrom bytes i k = some bs →
        ∃ env', loopMem appendOracle (decMem bytes) fuel decBody () env cs
          = ((), ⟨env', .fell, cs ++ bs.map appendCall⟩)) ∧
      (Enc.decodeBoolsFrom bytes i k = none →
        ∃ env' cs', loopMem appendOracle (decMem bytes) fuel decBody () env cs
          = ((), ⟨env', .stoppedAt "append" [.sym "out", .unk], cs'⟩)) := by
  intro k
  induction k with
  | zero =>
    intro i env cs fuel hik h1 h2 h3 hf
    obtain ⟨f, rfl⟩ : ∃ f, fuel = f + 1 := ⟨fuel - 1, by omega⟩
    have hi : i = q := by omega
    subst hi
    have hload := decMem_load bytes env i h1
    have hx := execFrom_ge_codec appendOracle 4 f decBody _ cs _
      (C17S_decode_iter_exit env cs i (byteCell bytes (i / 8)) hq h1 h2) (fun h => nomatch h)
      (by omega)
    rw [← hload] at hx
    constructor
    · intro bs hbs
      simp only [Enc.decodeBoolsFrom, Option.some.injEq] at hbs
      subst hbs
      refine ⟨(decMem bytes).load () env, ?_⟩
      rw [loopMem_broke _ _ _ _ _ _ _ _ _ hx]
      simp only [List.map_nil, List.append_nil]
    · intro h; simp [Enc.decodeBoolsFrom] at h
  | succ k ih =>
    intro i env cs fuel hik h1 h2 h3 hf
    obtain ⟨f, rfl⟩ : ∃ f, fuel = f + 1 := ⟨fuel - 1, by omega⟩
    have hi : i < q := by omega
    have hload := decMem_load bytes env i h1
    cases hc : bytes[i / 8]? with
    | none =>
      have hd : Enc.decodeBoolsFrom bytes i (k + 1) = none := by rw [Enc.decodeBoolsFrom, hc]
      have hcell : byteCell bytes (i / 8) = .unk := by simp [byteCell, hc]
      rw [hcell] at hload
      have hx := execFrom_ge_codec appendOracle 4 f decBody _ cs _
        (C17S_decode_iter_oob env cs q i hq hi h1 h2 h3) (fun h => nomatch h) (by omega)
      rw [← hload] at hx
      constructor
      · intro bs hbs; rw [hd] at hbs; exact nomatch hbs
      · intro _; exact ⟨_, _, loopMem_stopped _ _ _ _ _ _ _ _ _ _ _ hx⟩
    | some v =>
      have hd : Enc.decodeBoolsFrom bytes i (k + 1) =
          match Enc.decodeBoolsFrom bytes (i + 1) k with
          | some r => some (v.getLsbD (i % 8) :: r)
          | none => none := by
        rw [Enc.decodeBoolsFrom]; simp only [hc]
        cases Enc.decodeBoolsFrom bytes (i + 1) k <;> rfl
      have hcell : byteCell bytes (i / 8) = .int v.toNat := by simp [byteCell, hc]
      rw [hcell] at hload
      obtain ⟨env1, hE⟩ : ∃ e : Env, e = ("i", .int ((i + 1 : Nat) : Int)) :: ("out", .sym "out") ::
          ("in[i/8]", .int v.toNat) :: env := ⟨_, rfl⟩
      have hx : execFrom appendOracle f decBody ((decMem bytes).load () env) cs =
          ⟨env1, .fell, cs ++ [appendCall (v.getLsbD (i % 8))]⟩ := by
        rw [hload, hE]
        exact execFrom_ge_codec appendOracle 4 f decBody _ cs _
          (C17S_decode_iter env cs q i v hq hi h1 h2 h3) (fun h => nomatch h) (by omega)
      have hstep := loopMem_fell appendOracle (decMem bytes) f decBody () env cs _ _ hx
      have hst : (decMem bytes).store () ((decMem bytes).load () env) env1 = () := rfl
      rw [hst] at hstep
      obtain ⟨ih1, ih2⟩ := ih (i + 1) env1 (cs ++ [appendCall (v.getLsbD (i % 8))]) f (by omega)
        (by rw [hE]; simp [read?_cons]) (by rw [hE]; simp [read?_cons, h2])
        (by rw [hE]; simp [read?_cons]) (by omega)
      rw [hstep, hd]
      cases hr : Enc.decodeBoolsFrom bytes (i + 1) k with
      | none =>
        constructor
        · intro bs hbs; exact nomatch hbs
        · intro _; exact ih2 hr
      | some r =>
        constructor
        · intro bs hbs
          simp only [Option.some.injEq] at hbs
          subst hbs
          obtain ⟨env', e⟩ := ih1 r hr
          exact ⟨env', by rw [e]; simp [List.append_assoc]⟩
        · intro h; exact nomatch h

/-- the environment in which the loop of `decodeBools` is entered: `i = 0`, the parameter
    `quantity`, the (nil) result slice `out` as an opaque symbol -/
def decEntryEnv (q : Nat) : Env := [("i", .int 0), ("quantity", .int q), ("out", .sym "out")]

/-- the genuine run of the whole generated `decodeBools` without any element (`in[i/8]` unbound)
    enters the loop with `decEntryEnv` and stops at the first `append` (returns when quantity = 0) -/
theorem C17S_decode_entry (q : Nat) (hq : q < 65536) (fuel : Nat) (hf : 8 ≤ fuel) :
    exec appendOracle fuel gs_decodeBools [("quantity", .int q), ("out", .sym "out")] =
      ⟨decEntryEnv q, if q = 0 then .returned else .stoppedAt "append" [.sym "out", .unk], []⟩ := by
  have h8 : exec appendOracle 8 gs_decodeBools [("quantity", .int q), ("out", .sym "out")] =
      ⟨decEntryEnv q, if q = 0 then .returned else .stoppedAt "append" [.sym "out", .unk], []⟩ := by
    have hw : wrap .uint (q : Int) = (q : Int) := wrap_uint_nat q (by omega)
    by_cases h0 : q = 0
    · subst h0; decide +kernel
    · have hlt : (0 : Int) < (q : Int) := by omega
      go_eval_nowrap [gs_decodeBools, appendOracle, hw, hlt, h0, Int.reduceEq, write_def, false_and,
        appendAns_unk, decEntryEnv]
  rw [exec_mono appendOracle 8 fuel gs_decodeBools _ hf (by rw [h8]; split <;> exact fun h => nomatch h),
    h8]

/-- the run of the loop of `decodeBools` for `quantity = q` on the byte slice `bytes` -/
def decodeRun (fuel q : Nat) (bytes : Bytes) : Res :=
  (loopMem appendOracle (decMem bytes) fuel decBody () (decEntryEnv q) []).2

/-- the values appended to `out`, in order -/
def appended (r : Res) : List Val := (r.argsOf "append").map (fun a => a.getD 1 .unk)

theorem appended_map (env : Env) (how : End) (bs : List Bool) :
    appended ⟨env, how, bs.map appendCall⟩ = bs.map Val.ofBool := by
  induction bs with
  | nil => rfl
  | cons b t ih =>
    simp only [appended, Res.argsOf, List.map_cons, appendCall] at ih ⊢
    simp only [List.filter_cons, beq_self_eq_true, if_true, List.map_cons, List.getD_cons_succ,
      List.getD_cons_zero]
    rw [ih]

/-- **the loop of `decodeBools` computes `Enc.decodeBools`**, for every quantity (`uint16`) and
    every byte slice, every fuel ≥ quantity + 5. The rounds run i = 0 … quantity−1 in order; round
    i appends `((in[i/8] >> (i%8)) & 1) == 1` = bit i%8 of byte i/8 (`C17S_decode_iter`).
    * When the model returns `some bs` (⇔ ⌈quantity/8⌉ ≤ len(in)) the loop falls through (next
      statement: `return`) having appended exactly `bs`, in order.
    * The run needs an element at an index ≥ len(in) — it stops at the `append` whose argument has
      no value; in Go: index out of range panic — exactly when the model returns `none`
      (⇔ len(in) < ⌈quantity/8⌉). -/
theorem C17S_decode_loop (q : Nat) (hq : q < 65536) (bytes : Bytes) (fuel : Nat) (hf : q + 5 ≤ fuel) :
    (∀ bs, Enc.decodeBools q bytes = some bs →
      (decodeRun fuel q bytes).how = .fell ∧ appended (decodeRun fuel q bytes) = bs.map Val.ofBool) ∧
    (Enc.decodeBools q bytes = none ↔
      (decodeRun fuel q bytes).how = .stoppedAt "append" [.sym "out", .unk]) ∧
    ((decodeRun fuel q bytes).how = .stoppedAt "append" [.sym "out", .unk] ↔
      bytes.length < (q + 7) / 8) := by
  obtain ⟨d1, d2⟩ := dec_loop bytes q hq q 0 (decEntryEnv q) [] fuel (by omega)
    (by simp [decEntryEnv, read?_cons]) (by simp [decEntryEnv, read?_cons])
    (by simp [decEntryEnv, read?_cons]) hf
  have p1 : ∀ bs, Enc.decodeBools q bytes = some bs →
      (decodeRun fuel q bytes).how = .fell ∧ appended (decodeRun fuel q bytes) = bs.map Val.ofBool := by
    intro bs hbs
    obtain ⟨env', e⟩ := d1 bs hbs
    unfold decodeRun
    rw [e]
    exact ⟨rfl, by simpa using appended_map env' .fell bs⟩
  have p2 : Enc.decodeBools q bytes = none ↔
      (decodeRun fuel q bytes).how = .stoppedAt "append" [.sym "out", .unk] := by
    constructor
    · intro h
      obtain ⟨env', cs', e⟩ := d2 h
      unfold decodeRun
      rw [e]
    · intro h
      cases hm : Enc.decodeBools q bytes with
      | none => rfl
      | some bs => rw [(p1 bs hm).1] at h; exact nomatch h
  exact ⟨p1, p2, p2.symm.trans (decodeBools_panic_iff q bytes)⟩

/-! ## 4. round trip of the evaluated source -/

/-- **round trip**: for every list of fewer than 65536 booleans (`quantity` is a `uint16`), running
    the loop of `decodeBools` with `quantity = len` on the array that the loop of `encodeBools`
    leaves falls through — no element out of range — having appended exactly the input, in order
    (`C17S_encode_loop`, `C17S_decode_loop`, and `bools_roundtrip` of Props/C17) -/
theorem C17S_roundtrip_src (l : List Bool) (hl : l.length < 65536) (fuel : Nat)
    (hf : l.length + 5 ≤ fuel) :
    let packed := (encodeRun fuel l).1
    let dec := decodeRun fuel l.length packed
    packed = Enc.encodeBools l ∧ dec.how = .fell ∧ appended dec = l.map Val.ofBool := by
  have he := (C17S_encode_loop l (by omega) fuel hf).1
  have hd := (C17S_decode_loop l.length hl (Enc.encodeBools l) fuel hf).1 l (bools_roundtrip l)
  simp only [he]
  exact ⟨trivial, hd.1, hd.2⟩

/-! ## 5. concrete runs and sensitivity (evaluated by the kernel) -/

/-- ten coils: bytes 0x0d, 0x03 -/
example : (encodeRun 20 [true, false, true, true, false, false, false, false, true, true]).1
    = [0x0d, 0x03] := by decide +kernel
example : appended (decodeRun 20 10 [0x0d, 0x03]) =
    [true, false, true, true, false, false, false, false, true, true].map Val.ofBool := by
  decide +kernel
/-- nine coils from one byte: the ninth needs `in[1]` -/
example : (decodeRun 20 9 [0xff]).how = .stoppedAt "append" [.sym "out", .unk] ∧
    (appended (decodeRun 20 9 [0xff])).length = 8 := by decide +kernel
example : (decodeRun 20 8 [0xff]).how = .fell := by decide +kernel
/-- agreement of `loopMem` with the evaluator's own loop where the latter is meaningful: eight
    `true` inputs touch the single element `out[0]`, so the genuine run of the WHOLE generated
    function with `in[i] = true`, `out[i/8] = 0` bound once leaves `0xff` in `out[i/8]` -/
example : Env.read (exec srcNoOracle 40 gs_encodeBools
      (("in[i]", .int 1) :: ("out[i/8]", .int 0) :: encEnv 8)).env "out[i/8]" = .int 255 ∧
    (exec srcNoOracle 40 gs_encodeBools
      (("in[i]", .int 1) :: ("out[i/8]", .int 0) :: encEnv 8)).how = .returned ∧
    (encodeRun 20 (List.replicate 8 true)).1 = [0xff] := by decide +kernel

/-- sensitivity: most-significant-bit-first packing (`0x80 >> (i % 8)`) gives another array -/
def encBodyMsb : GStmt :=
  (.ite (.cmp "<" (.var "i" .uint) (.conv .uint (.var "len(in)" .int)))
    (.seq
      (.ite (.var "in[i]" .bool)
        (.assign "out[i/8]" (.bin "|" .u8 (.var "out[i/8]" .u8)
          (.bin ">>" .u8 (.lit 128 .u8) (.bin "%" .uint (.var "i" .uint) (.lit 8 .uint)))))
        .skip)
      (.assign "i" (.bin "+" .uint (.var "i" .uint) (.lit 1 .uint))))
    .brk)
example : (loopMem srcNoOracle (encMem [true, false, true]) 20 encBodyMsb [0]
    (encEntryEnv 3) []).1 = [0xa0] ∧ (encodeRun 20 [true, false, true]).1 = [0x05] := by
  decide +kernel
/-- sensitivity: a loop bound `i <= len(in)` needs `in[len]`, which has no value -/
example : (loopMem srcNoOracle (encMem [true]) 20
    (.ite (.cmp "<=" (.var "i" .uint) (.conv .uint (.var "len(in)" .int)))
      (.seq (.ite (.var "in[i]" .bool) .skip .skip)
        (.assign "i" (.bin "+" .uint (.var "i" .uint) (.lit 1 .uint)))) .brk) [0]
    (encEntryEnv 1) []).2.how = .stuckAt "cond" := by decide +kernel
/-- sensitivity: decoding with the mask applied before the shift (`(in & 1) >> s`) differs -/
example : appended (loopMem appendOracle (decMem [0x02]) 20
    (.ite (.cmp "<" (.var "i" .uint) (.conv .uint (.var "quantity" .u16)))
      (.seq
        (.bindCall ["out"] "append" [(.var "out" .other),
          (.cmp "==" (.bin ">>" .u8 (.bin "&" .u8 (.var "in[i/8]" .u8) (.lit 1 .u8))
            (.bin "%" .uint (.var "i" .uint) (.lit 8 .uint))) (.lit 1 .u8))])
        (.assign "i" (.bin "+" .uint (.var "i" .uint) (.lit 1 .uint))))
      .brk) () (decEntryEnv 2) []).2 = [.int 0, .int 0] ∧
    appended (decodeRun 20 2 [0x02]) = [.int 0, .int 1] := by decide +kernel

end Modbus.Props.C17

#print axioms Modbus.Props.C17.C17S_encode_byteCount
#print axioms Modbus.Props.C17.C17S_encode_shape
#print axioms Modbus.Props.C17.C17S_encode_iter_true
#print axioms Modbus.Props.C17.C17S_encode_iter_false
#print axioms Modbus.Props.C17.C17S_encode_iter_exit
#print axioms Modbus.Props.C17.C17S_encode_loop
#print axioms Modbus.Props.C17.C17S_decode_shape
#print axioms Modbus.Props.C17.C17S_decode_iter
#print axioms Modbus.Props.C17.C17S_decode_iter_oob
#print axioms Modbus.Props.C17.C17S_decode_iter_exit
#print axioms Modbus.Props.C17.C17S_decode_entry
#print axioms Modbus.Props.C17.C17S_decode_loop
#print axioms Modbus.Props.C17.C17S_roundtrip_src
#print axioms Modbus.GoEval.loopMem_trivial
#print axioms Modbus.GoEval.encFold_eq
