import ModbusVerif.Lemmas.HeapLemmas
import ModbusVerif.Model.Mbap
import ModbusVerif.Model.Rtu
/-
  C18 — "No client call modifies the slices passed to it - neither their contents nor spare
  capacity beyond their length - whatever the encoding settings, so repeating a write with the
  same buffer sends the same bytes. Slices returned by read calls are not altered by later
  calls on the same client."

  Stated on the heap model of Model/Heap.lean (Go slice = array id, offset, len, cap; `append`
  writes in place when len < cap). "Unchanged" is always the strongest form: EVERY array that
  existed before the call (`a < h.length`) is identical afterwards (`h'.getD a [] = h.getD a []`),
  which covers the caller's visible elements, its spare capacity and everything before `off`.
-/
namespace Modbus.Props.C18
open Modbus Modbus.Heap

/-- `Frame` (Lemmas/HeapLemmas.lean) spelled out: the heap only grew, old arrays keep their
    ids and contents -/
theorem frame_iff {α : Type} (h0 h : GHeap α) :
    Frame h0 h ↔ (h0.length ≤ h.length ∧ ∀ a, a < h0.length → h.getD a [] = h0.getD a []) := Iff.rfl

/-! ### 1. frame lemmas: writes through slices on arrays allocated after `h0` -/

theorem C18_frame_setIdx {α : Type} (h0 h : GHeap α) (F : Frame h0 h) (s : Slice)
    (hs : h0.length ≤ s.arr) (i : Nat) (x : α) :
    h0.length ≤ (setIdx h s i x).length ∧
      ∀ a, a < h0.length → (setIdx h s i x).getD a [] = h0.getD a [] :=
  setIdx_frame F hs i x

theorem C18_frame_appendByte {α : Type} [Inhabited α] (h0 h : GHeap α) (F : Frame h0 h) (s : Slice)
    (hs : h0.length ≤ s.arr) (x : α) :
    (h0.length ≤ (appendByte h s x).1.length ∧
      ∀ a, a < h0.length → (appendByte h s x).1.getD a [] = h0.getD a []) ∧
      h0.length ≤ (appendByte h s x).2.arr :=
  appendByte_frame F hs x

theorem C18_frame_appendBytes {α : Type} [Inhabited α] (h0 h : GHeap α) (F : Frame h0 h) (s : Slice)
    (hs : h0.length ≤ s.arr) (xs : List α) :
    (h0.length ≤ (appendBytes h s xs).1.length ∧
      ∀ a, a < h0.length → (appendBytes h s xs).1.getD a [] = h0.getD a []) ∧
      h0.length ≤ (appendBytes h s xs).2.arr :=
  appendBytes_frame F hs xs

theorem C18_frame_copy {α : Type} (h0 h : GHeap α) (F : Frame h0 h) (dst : Slice)
    (hs : h0.length ≤ dst.arr) (src : List α) :
    h0.length ≤ (copyH h dst src).length ∧
      ∀ a, a < h0.length → (copyH h dst src).getD a [] = h0.getD a [] :=
  copyH_frame F hs src

theorem C18_frame_swapPairsInPlace {α : Type} [Inhabited α] (h0 h h' : GHeap α) (F : Frame h0 h)
    (s : Slice) (hs : h0.length ≤ s.arr) (hr : swapPairsInPlace h s = some h') :
    h0.length ≤ h'.length ∧ ∀ a, a < h0.length → h'.getD a [] = h0.getD a [] :=
  (swapFrom_frame F hs _ _ h' hr).1

/-- allocation: `make`, and the fresh slice it returns -/
theorem C18_frame_makeSlice {α : Type} [Inhabited α] (h0 h : GHeap α) (F : Frame h0 h) (l c : Nat) :
    (h0.length ≤ (makeSlice h l c).1.length ∧
      ∀ a, a < h0.length → (makeSlice h l c).1.getD a [] = h0.getD a []) ∧
      h0.length ≤ (makeSlice h l c).2.arr ∧ (makeSlice h l c).2.Valid (makeSlice h l c).1 :=
  ⟨(makeSlice_spec F l c).1.frame, (makeSlice_spec F l c).1.fresh, (makeSlice_spec F l c).1.valid⟩

/-- in-place semantics of `append` on a valid slice with spare capacity: same array, the
    element behind `len` is overwritten (this is what makes the pre-fix code a defect) -/
theorem append_in_place {α : Type} [Inhabited α] (h : GHeap α) (s : Slice) (x : α) (hc : s.len < s.cap) :
    (appendByte h s x).2.arr = s.arr ∧ (appendByte h s x).1.length = h.length := by
  unfold appendByte; rw [if_pos hc]; exact ⟨rfl, writeArr_length _ _ _ _⟩

/-! ### 2. WriteBytes / WriteRawBytes -/

/-- the current `writeBytes`: never panics, leaves every pre-existing array (hence the caller's
    contents and spare capacity) unchanged, hands a slice on a new array to `writeRegisters`,
    whose bytes are the value-level model's (`Client.writeBytesPayload`) -/
theorem C18_writeBytes_untouched_endian (h : Heap) (values : Slice) (hv : values.Valid h)
    (e : Endian) (observe : Bool) :
    ∃ h' out, writeBytesH h values (decide (e = .little)) observe = some (h', out) ∧
      h.length ≤ h'.length ∧ (∀ a, a < h.length → h'.getD a [] = h.getD a []) ∧
      h.length ≤ out.arr ∧ out.Valid h' ∧
      load h' values = load h values ∧ loadCap h' values = loadCap h values ∧
      Client.writeBytesPayload e observe (load h values) = some (load h' out) := by
  obtain ⟨h', out, E, O, T⟩ := writeBytesH_spec h values hv.1 e observe
  exact ⟨h', out, E, O.frame.1, O.frame.2, O.fresh, O.valid, O.frame.load_eq hv.1,
    O.frame.loadCap_eq hv.1, T⟩

theorem C18_writeBytes_untouched (h : Heap) (values : Slice) (hv : values.Valid h)
    (little observe : Bool) :
    ∃ h' out, writeBytesH h values little observe = some (h', out) ∧
      h.length ≤ h'.length ∧ (∀ a, a < h.length → h'.getD a [] = h.getD a []) ∧
      h.length ≤ out.arr ∧ out.Valid h' ∧
      load h' values = load h values ∧ loadCap h' values = loadCap h values ∧
      Client.writeBytesPayload (if little then .little else .big) observe (load h values)
        = some (load h' out) := by
  have := C18_writeBytes_untouched_endian h values hv (if little then .little else .big) observe
  cases little <;> simpa using this

/-- an invalid endianness value behaves like big endian: no swap, nothing touched -/
theorem C18_writeBytes_invalid_endianness (h : Heap) (values : Slice) (hv : values.Valid h)
    (observe : Bool) :
    ∃ h' out, writeBytesH h values false observe = some (h', out) ∧
      (∀ a, a < h.length → h'.getD a [] = h.getD a []) ∧
      Client.writeBytesPayload .invalid observe (load h values) = some (load h' out) := by
  obtain ⟨h', out, E, _, F, _, _, _, _, T⟩ :=
    C18_writeBytes_untouched_endian h values hv .invalid observe
  exact ⟨h', out, E, F, T⟩

/-- calling twice with the same slice sends the same payload bytes -/
theorem C18_repeat_same_bytes (h : Heap) (values : Slice) (hv : values.Valid h)
    (little observe : Bool) :
    ∃ h1 out1 h2 out2, writeBytesH h values little observe = some (h1, out1) ∧
      writeBytesH h1 values little observe = some (h2, out2) ∧
      load h2 out2 = load h1 out1 ∧
      (∀ a, a < h.length → h2.getD a [] = h.getD a []) := by
  obtain ⟨h1, o1, E1, L1, F1, _, _, LV1, _, T1⟩ := C18_writeBytes_untouched h values hv little observe
  have hv1 : values.Valid h1 := Frame.valid_of ⟨L1, F1⟩ hv
  obtain ⟨h2, o2, E2, _, F2, _, _, _, _, T2⟩ := C18_writeBytes_untouched h1 values hv1 little observe
  refine ⟨h1, o1, h2, o2, E1, E2, ?_, fun a ha => ?_⟩
  · rw [LV1, T1] at T2; exact (Option.some.inj T2).symm
  · rw [F2 a (Nat.lt_of_lt_of_le ha L1), F1 a ha]

/-! ### 3. regression specimen: the pre-fix code on the same model -/

/-- backing array `01 02 03 04 aa bb`, caller slice `[0:3]` with capacity 6, little endian:
    the pre-fix `writeBytes` pads INTO the caller's spare capacity (element 3: 04 → 00) and
    swaps the caller's elements in place; a second call with the same slice sends other bytes -/
theorem C18_old_writeBytes_counterexample :
    let h0 : Heap := [[0x01, 0x02, 0x03, 0x04, 0xaa, 0xbb]]
    let values : Slice := ⟨0, 0, 3, 6⟩
    values.Valid h0 ∧
    (writeBytesOldH h0 values true true).map (fun r => (r.1, r.2, load r.1 r.2)) =
      some ([[0x02, 0x01, 0x00, 0x03, 0xaa, 0xbb]], ⟨0, 0, 4, 6⟩, [0x02, 0x01, 0x00, 0x03]) ∧
    ((writeBytesOldH h0 values true true).bind (fun r => writeBytesOldH r.1 values true true)).map
        (fun r => (r.1, load r.1 r.2)) =
      some ([[0x01, 0x02, 0x00, 0x00, 0xaa, 0xbb]], [0x01, 0x02, 0x00, 0x00]) ∧
    -- the current code on the same input: caller's array intact, both calls send 02 01 00 03
    (writeBytesH h0 values true true).map (fun r => (r.1.getD 0 [], r.2.arr, load r.1 r.2)) =
      some ([0x01, 0x02, 0x03, 0x04, 0xaa, 0xbb], 1, [0x02, 0x01, 0x00, 0x03]) ∧
    ((writeBytesH h0 values true true).bind (fun r => writeBytesH r.1 values true true)).map
        (fun r => (r.1.getD 0 [], load r.1 r.2)) =
      some ([0x01, 0x02, 0x03, 0x04, 0xaa, 0xbb], [0x02, 0x01, 0x00, 0x03]) := by
  decide

/-- the statement of theorem 2 is false for the pre-fix code -/
theorem C18_old_writeBytes_violates :
    ¬ ∀ (h : Heap) (values : Slice), values.Valid h → ∀ little observe : Bool,
      ∀ r, writeBytesOldH h values little observe = some r →
        ∀ a, a < h.length → r.1.getD a [] = h.getD a [] := by
  intro H
  have := H [[0x01, 0x02, 0x03, 0x04, 0xaa, 0xbb]] ⟨0, 0, 3, 6⟩ (by decide) true true
    ([[0x02, 0x01, 0x00, 0x03, 0xaa, 0xbb]], ⟨0, 0, 4, 6⟩) (by decide) 0 (by decide)
  revert this; decide

/-! ### 4. typed list writers -/

/-- `WriteRegisters`, `WriteUint32s`, `WriteFloat32s`, `WriteUint64s`, `WriteFloat64s`: for any
    element type `β`, any chunk encoder, any caller slice in the `β` heap (which the function
    cannot write: it is not even an output), every byte array existing before the call is
    unchanged and the payload is the concatenation of the encoded elements read -/
theorem C18_typed_writers_untouched {β : Type} (hv : GHeap β) (h : Heap) (values : Slice)
    (enc : β → Bytes) :
    h.length ≤ (buildPayloadH hv h values enc).1.length ∧
      (∀ a, a < h.length → (buildPayloadH hv h values enc).1.getD a [] = h.getD a []) ∧
      h.length ≤ (buildPayloadH hv h values enc).2.arr ∧
      (buildPayloadH hv h values enc).2.Valid (buildPayloadH hv h values enc).1 ∧
      load (buildPayloadH hv h values enc).1 (buildPayloadH hv h values enc).2 =
        (load hv values).flatMap enc := by
  obtain ⟨O, L⟩ := buildPayloadH_spec hv h values enc
  exact ⟨O.frame.1, O.frame.2, O.fresh, O.valid, L⟩

/-- the three instances are the register payloads of the value-level client model -/
theorem C18_typed_writers_payload (cfg : Client.Cfg) (addr : U16) (h : Heap) (values : Slice)
    (h16 : GHeap U16) (h32 : GHeap U32) (h64 : GHeap U64) :
    Client.Op.core cfg (.writeRegisters addr (load h16 values)) =
      some (.writeRegs addr (load (buildPayloadH h16 h values (Enc.uint16ToBytes cfg.endian)).1
        (buildPayloadH h16 h values (Enc.uint16ToBytes cfg.endian)).2)) ∧
    Client.Op.core cfg (.writeUint32s addr (load h32 values)) =
      some (.writeRegs addr (load (buildPayloadH h32 h values (Enc.uint32ToBytes cfg.endian cfg.word)).1
        (buildPayloadH h32 h values (Enc.uint32ToBytes cfg.endian cfg.word)).2)) ∧
    Client.Op.core cfg (.writeFloat32s addr (load h32 values)) =
      some (.writeRegs addr (load (buildPayloadH h32 h values (Enc.uint32ToBytes cfg.endian cfg.word)).1
        (buildPayloadH h32 h values (Enc.uint32ToBytes cfg.endian cfg.word)).2)) ∧
    Client.Op.core cfg (.writeUint64s addr (load h64 values)) =
      some (.writeRegs addr (load (buildPayloadH h64 h values (Enc.uint64ToBytes cfg.endian cfg.word)).1
        (buildPayloadH h64 h values (Enc.uint64ToBytes cfg.endian cfg.word)).2)) ∧
    Client.Op.core cfg (.writeFloat64s addr (load h64 values)) =
      some (.writeRegs addr (load (buildPayloadH h64 h values (Enc.uint64ToBytes cfg.endian cfg.word)).1
        (buildPayloadH h64 h values (Enc.uint64ToBytes cfg.endian cfg.word)).2)) := by
  simp only [Client.Op.core, (buildPayloadH_spec _ _ _ _).2, and_self]

/-- `WriteCoils`: `encodeBools` writes only its own `out` array; its bytes are the value-level
    packing of the bools read -/
theorem C18_coils_untouched (hv : GHeap Bool) (h : Heap) (values : Slice) :
    h.length ≤ (encodeBoolsH hv h values).1.length ∧
      (∀ a, a < h.length → (encodeBoolsH hv h values).1.getD a [] = h.getD a []) ∧
      h.length ≤ (encodeBoolsH hv h values).2.arr ∧
      (values.Valid hv →
        load (encodeBoolsH hv h values).1 (encodeBoolsH hv h values).2 =
          Enc.encodeBools (load hv values)) := by
  obtain ⟨O, L⟩ := encodeBoolsH_spec hv h values
  exact ⟨O.frame.1, O.frame.2, O.fresh, L⟩

/-- `writeCoils`: `encodeBools` then the request payload, all in arrays of the call's own; the
    bytes are the value-level request's -/
theorem C18_coils_request (hv : GHeap Bool) (h : Heap) (values : Slice) (hval : values.Valid hv)
    (addr : U16) :
    let enc := encodeBoolsH hv h values
    let p := writeCoilsH enc.1 addr (u16OfNat values.len) enc.2
    (∀ a, a < h.length → p.1.getD a [] = h.getD a []) ∧ h.length ≤ p.2.arr ∧
      ∀ fc pl, Client.Core.request (.writeCoils addr (load hv values)) = .ok (fc, pl) →
        fc = 0x0f ∧ load p.1 p.2 = pl := by
  intro enc p
  obtain ⟨Oe, Le⟩ := encodeBoolsH_spec hv h values
  obtain ⟨Op, Lp⟩ := writeCoilsH_spec enc.1 addr (u16OfNat values.len) enc.2
  have F : Frame h p.1 := Oe.frame.trans Op.frame
  refine ⟨F.2, Nat.le_trans Oe.frame.1 Op.fresh, ?_⟩
  intro fc pl hreq
  have hl := load_length hval
  have hn : enc.2.len = (Enc.encodeBools (load hv values)).length := by
    rw [← Le hval]; exact (load_length Oe.valid).symm
  simp only [Client.Core.request, hl] at hreq
  split at hreq
  · cases hreq
  · split at hreq
    · cases hreq
    · split at hreq
      · cases hreq
      · simp only [Except.ok.injEq, Prod.mk.injEq] at hreq
        refine ⟨hreq.1.symm, ?_⟩
        show load (writeCoilsH enc.1 addr (u16OfNat values.len) enc.2).1 _ = pl
        rw [Lp Oe.valid.1, ← hreq.2, hn]
        show _ ++ load (encodeBoolsH hv h values).1 (encodeBoolsH hv h values).2 = _
        rw [Le hval]

/-! ### 5. request PDU and frame assembly -/

/-- `writeRegisters`: the request payload is built in arrays of its own (also when `values` is
    the caller's slice); its bytes are the value-level request's -/
theorem C18_request_assembly_untouched (h : Heap) (addr : U16) (values : Slice)
    (hv : values.Valid h) :
    h.length ≤ (writeRegistersH h addr values).1.length ∧
      (∀ a, a < h.length → (writeRegistersH h addr values).1.getD a [] = h.getD a []) ∧
      h.length ≤ (writeRegistersH h addr values).2.arr ∧
      (writeRegistersH h addr values).2.Valid (writeRegistersH h addr values).1 ∧
      ∀ fc pl, Client.Core.request (.writeRegs addr (load h values)) = .ok (fc, pl) →
        fc = 0x10 ∧ load (writeRegistersH h addr values).1 (writeRegistersH h addr values).2 = pl := by
  obtain ⟨O, L⟩ := writeRegistersH_spec h addr values
  refine ⟨O.frame.1, O.frame.2, O.fresh, O.valid, ?_⟩
  intro fc pl hreq
  have hl := load_length hv
  simp only [Client.Core.request, hl] at hreq
  split at hreq
  · cases hreq
  · split at hreq
    · cases hreq
    · split at hreq
      · cases hreq
      · simp only [Except.ok.injEq, Prod.mk.injEq] at hreq
        exact ⟨hreq.1.symm, by rw [L hv.1, ← hreq.2]⟩

/-- `assembleMBAPFrame` -/
theorem C18_mbap_assembly_untouched (h : Heap) (txn : U16) (unit fc : Byte) (payload : Slice)
    (hv : payload.Valid h) :
    h.length ≤ (assembleMbapH h txn unit fc payload).1.length ∧
      (∀ a, a < h.length → (assembleMbapH h txn unit fc payload).1.getD a [] = h.getD a []) ∧
      h.length ≤ (assembleMbapH h txn unit fc payload).2.arr ∧
      load (assembleMbapH h txn unit fc payload).1 (assembleMbapH h txn unit fc payload).2 =
        Mbap.assemble txn { unit := unit, fc := fc, payload := load h payload } := by
  obtain ⟨O, L⟩ := assembleMbapH_spec h txn unit fc payload
  refine ⟨O.frame.1, O.frame.2, O.fresh, ?_⟩
  rw [L hv.1, Mbap.assemble, load_length hv]

/-- `assembleRTUFrame` -/
theorem C18_rtu_assembly_untouched (h : Heap) (unit fc : Byte) (payload : Slice)
    (hv : payload.Valid h) :
    h.length ≤ (assembleRtuH h unit fc payload).1.length ∧
      (∀ a, a < h.length → (assembleRtuH h unit fc payload).1.getD a [] = h.getD a []) ∧
      h.length ≤ (assembleRtuH h unit fc payload).2.arr ∧
      load (assembleRtuH h unit fc payload).1 (assembleRtuH h unit fc payload).2 =
        Rtu.assemble { unit := unit, fc := fc, payload := load h payload } := by
  obtain ⟨O, L⟩ := assembleRtuH_spec h unit fc payload
  exact ⟨O.frame.1, O.frame.2, O.fresh, by rw [L hv.1]; rfl⟩

/-! ### read side: receive buffers and post-processing -/

/-- `readMBAPFrame`: the PDU payload is a sub-slice of a buffer allocated by this call -/
theorem C18_recv_fresh (h : Heap) (wire : Bytes) (hw : 1 ≤ wire.length) :
    (∀ a, a < h.length → (recvFrameH h wire).1.getD a [] = h.getD a []) ∧
      h.length ≤ (recvFrameH h wire).2.arr ∧ (recvFrameH h wire).2.Valid (recvFrameH h wire).1 ∧
      load (recvFrameH h wire).1 (recvFrameH h wire).2 = wire.drop 1 := by
  obtain ⟨O, L⟩ := recvFrameH_spec h wire hw
  exact ⟨O.frame.2, O.fresh, O.valid, L⟩

/-- `readRTUFrame`, `wire` = the whole frame (header, data, CRC) -/
theorem C18_recv_rtu_fresh (h : Heap) (wire : Bytes) (hw : 4 ≤ wire.length)
    (hw' : wire.length ≤ Rtu.maxRTUFrameLength) :
    (∀ a, a < h.length → (recvRtuFrameH h wire).1.getD a [] = h.getD a []) ∧
      h.length ≤ (recvRtuFrameH h wire).2.arr ∧
      (recvRtuFrameH h wire).2.Valid (recvRtuFrameH h wire).1 ∧
      load (recvRtuFrameH h wire).1 (recvRtuFrameH h wire).2 =
        (wire.drop 2).take (wire.length - 4) := by
  obtain ⟨O, L⟩ := recvRtuFrameH_spec h wire hw hw'
  exact ⟨O.frame.2, O.fresh, O.valid, L⟩

/-- `readBytes`' in-place swap works on the call's own receive buffer: arrays older than that
    buffer are unchanged, and the bytes returned are the value-level model's
    (`Client.Op.decode` for `readBytes` / `readRawBytes`) -/
theorem C18_readBytes_post (h0 h : Heap) (v : Slice) (F : Frame h0 h) (hf : h0.length ≤ v.arr)
    (hv : v.Valid h) (e : Endian) (observe odd : Bool) :
    (∀ h' out, readBytesPostH h v (decide (e = .little)) observe odd = some (h', out) →
      (∀ a, a < h0.length → h'.getD a [] = h0.getD a []) ∧ out.arr = v.arr) ∧
    (readBytesPostH h v (decide (e = .little)) observe odd).map (fun r => load r.1 r.2) =
      (if (observe && decide (e = .little)) = true then Client.swapPairs (load h v)
        else some (load h v)).map (fun x => if odd = true then x.take (x.length - 1) else x) := by
  obtain ⟨A, B⟩ := readBytesPostH_spec (h0 := h0) ⟨F, hf, hv⟩ e observe odd
  exact ⟨fun h' out hr => ⟨(A h' out hr).1.2, (A h' out hr).2⟩, B⟩

/-- `bytesToUint16s/32s/64s`, `decodeBools`: the result is appended from nil in the result
    heap; the source bytes are only read -/
theorem C18_decode_fresh {β : Type} [Inhabited β] (h : Heap) (src : Slice)
    (dec : Bytes → Option (List β)) (hv : GHeap β) (r : GHeap β × Slice)
    (hr : decodeAppendH h src dec hv = some r) :
    (∀ a, a < hv.length → r.1.getD a [] = hv.getD a []) ∧ hv.length ≤ r.2.arr ∧ r.2.Valid r.1 ∧
      dec (load h src) = some (load r.1 r.2) := by
  obtain ⟨O, L⟩ := decodeAppendH_spec h src dec hv r hr
  exact ⟨O.frame.2, O.fresh, O.valid, L⟩

/-! ### 6. call histories -/

/-- one call of any kind, with any arguments (the slices need not even be valid), any settings
    and any peer behaviour: every array of every heap that existed before the call is
    unchanged, and the slice handed back points into the memory after the call -/
theorem C18_call_untouched (w : World) (env : Env) (c : Call) :
    WFrame w (step w env c).1 ∧ (step w env c).2.Live (step w env c).1 :=
  step_frame w env c

/-- `WFrame` spelled out for the byte heap -/
theorem wframe_bytes (w w' : World) (F : WFrame w w') :
    w.bytes.length ≤ w'.bytes.length ∧
      ∀ a, a < w.bytes.length → w'.bytes.getD a [] = w.bytes.getD a [] := F.1

/-- no history of calls modifies any array that existed before it: in particular every slice
    the caller ever passed in -/
theorem C18_history_untouched (w : World) (cs : List (Env × Call)) : WFrame w (run w cs) :=
  run_frame w cs

/-- the result of call `i` (`c` after the history `pre`) is not altered by the later calls
    `post`: its whole backing array, hence what the caller sees through it, is the same -/
theorem C18_results_stable (w : World) (pre : List (Env × Call)) (env : Env) (c : Call)
    (post : List (Env × Call)) :
    let wi := run w pre
    let res := (step wi env c).2
    let wafter := (step wi env c).1
    let wend := run w (pre ++ (env, c) :: post)
    res.Live wafter ∧ res.Same wafter wend ∧ res.view wend = res.view wafter := by
  intro wi res wafter wend
  have hl : res.Live wafter := (step_frame wi env c).2
  have he : wend = run wafter post := run_append w pre ((env, c) :: post)
  have hs : res.Same wafter wend := by rw [he]; exact (run_frame wafter post).same hl
  exact ⟨hl, hs, hs.view⟩

/-- a byte slice returned by `ReadBytes`, spelled out -/
theorem C18_readBytes_result_stable (w : World) (env : Env) (fc : Byte) (addr qty : U16)
    (observe : Bool) (post : List (Env × Call)) (s : Slice)
    (hr : (step w env (.readBytes fc addr qty observe)).2 = .bytes s) :
    let w1 := (step w env (.readBytes fc addr qty observe)).1
    s.arr < w1.bytes.length ∧
      (run w1 post).bytes.getD s.arr [] = w1.bytes.getD s.arr [] ∧
      load (run w1 post).bytes s = load w1.bytes s ∧
      loadCap (run w1 post).bytes s = loadCap w1.bytes s := by
  intro w1
  have hl := (step_frame w env (.readBytes fc addr qty observe)).2
  rw [hr] at hl
  have F := (run_frame w1 post).1
  exact ⟨hl, F.2 _ hl, F.load_eq hl, F.loadCap_eq hl⟩

/-- after ANY history the same caller slice still yields the same `WriteBytes` payload -/
theorem C18_repeat_same_bytes_history (w : World) (cs : List (Env × Call)) (values : Slice)
    (hv : values.Valid w.bytes) (little observe : Bool) :
    ∃ h1 out1 h2 out2, writeBytesH w.bytes values little observe = some (h1, out1) ∧
      writeBytesH (run w cs).bytes values little observe = some (h2, out2) ∧
      load h2 out2 = load h1 out1 := by
  have F := (run_frame w cs).1
  obtain ⟨h1, o1, E1, _, _, _, _, _, _, T1⟩ := C18_writeBytes_untouched w.bytes values hv little observe
  obtain ⟨h2, o2, E2, _, _, _, _, _, _, T2⟩ :=
    C18_writeBytes_untouched (run w cs).bytes values (F.valid_of hv) little observe
  refine ⟨h1, o1, h2, o2, E1, E2, ?_⟩
  rw [F.load_eq hv.1, T1] at T2
  exact (Option.some.inj T2).symm

/-! ### non-vacuity: concrete runs (kernel-evaluated) -/

-- even length, no spare capacity, little endian, slice in the middle of its array
example :
    let h0 : Heap := [[0x99, 0x01, 0x02, 0x03, 0x04, 0x77]]
    let v : Slice := ⟨0, 1, 4, 4⟩
    v.Valid h0 ∧
    (writeBytesH h0 v true true).map (fun r => (r.1.getD 0 [], r.2.arr, load r.1 r.2)) =
      some ([0x99, 0x01, 0x02, 0x03, 0x04, 0x77], 1, [0x02, 0x01, 0x04, 0x03]) := by decide
-- odd length, no spare capacity (the pre-fix `append` would have reallocated here), big endian
example :
    let h0 : Heap := [[0x01, 0x02, 0x03]]
    let v : Slice := ⟨0, 0, 3, 3⟩
    v.Valid h0 ∧
    (writeBytesH h0 v false true).map (fun r => (r.1.getD 0 [], load r.1 r.2)) =
      some ([0x01, 0x02, 0x03], [0x01, 0x02, 0x03, 0x00]) := by decide
-- odd length with spare capacity, WriteRawBytes (observe = false) on a little-endian client
example :
    let h0 : Heap := [[0x01, 0x02, 0x03, 0x04, 0xaa, 0xbb]]
    let v : Slice := ⟨0, 0, 3, 6⟩
    (writeBytesH h0 v true false).map (fun r => (r.1.getD 0 [], load r.1 r.2)) =
      some ([0x01, 0x02, 0x03, 0x04, 0xaa, 0xbb], [0x01, 0x02, 0x03, 0x00]) := by decide
-- the pre-fix code without spare capacity: `append` reallocates, but the swap still hits the
-- caller's array on even lengths
example :
    let h0 : Heap := [[0x01, 0x02]]
    (writeBytesOldH h0 ⟨0, 0, 2, 2⟩ true true).map (fun r => r.1) = some [[0x02, 0x01]] := by decide
-- typed writer: []uint16{0x0102, 0x0304} little endian, caller heap is not an output at all
example :
    let r := buildPayloadH (β := U16) [[0x0102, 0x0304, 0x0506]] [[0xee]] ⟨0, 0, 2, 3⟩
      (Enc.uint16ToBytes .little)
    (r.1.getD 0 [], load r.1 r.2) = ([0xee], [0x02, 0x01, 0x04, 0x03]) := by decide
-- coils
example :
    let r := encodeBoolsH [[true, false, true, true, false, false, false, false, true]] [[0xee]]
      ⟨0, 0, 9, 9⟩
    (r.1.getD 0 [], load r.1 r.2) = ([0xee], [0x0d, 0x01]) := by decide
-- a history: ReadBytes (little endian, odd quantity) then a WriteBytes that passes the RESULT of
-- the read (len 3, cap 4: the pre-fix code would have padded into it) back in, then two more
-- reads: the first result is still 11 22 33
example :
    let env : Env :=
      { endian := .little, word := .highFirst, rtu := false, unit := 1, txn := 7,
        checksPass := true, accepted := true,
        frames := [[0x00, 0x07, 0x00, 0x00, 0x00, 0x07, 0x01, 0x03, 0x04, 0x22, 0x11, 0x44, 0x33]] }
    let w0 : World := ⟨[], [], [], [], []⟩
    let s1 := step w0 env (.readBytes 0x03 0 3 true)
    let rest : List (Env × Call) :=
      [(env, .writeBytes ⟨9, 2, 3, 4⟩ true 0), (env, .readBytes 0x03 0 4 true),
       (env, .readU16s 0x03 0 2)]
    s1.2 = .bytes ⟨9, 2, 3, 4⟩ ∧
    s1.2.view s1.1 = .bytes [0x11, 0x22, 0x33] ∧
    s1.2.view (run s1.1 rest) = .bytes [0x11, 0x22, 0x33] ∧
    (run s1.1 rest).u16s = [[], [0x1122], [0x1122, 0x3344, 0]] := by decide +kernel

#print axioms frame_iff
#print axioms C18_frame_setIdx
#print axioms C18_frame_appendByte
#print axioms C18_frame_appendBytes
#print axioms C18_frame_copy
#print axioms C18_frame_swapPairsInPlace
#print axioms C18_frame_makeSlice
#print axioms append_in_place
#print axioms C18_writeBytes_untouched_endian
#print axioms C18_writeBytes_untouched
#print axioms C18_writeBytes_invalid_endianness
#print axioms C18_repeat_same_bytes
#print axioms C18_old_writeBytes_counterexample
#print axioms C18_old_writeBytes_violates
#print axioms C18_typed_writers_untouched
#print axioms C18_typed_writers_payload
#print axioms C18_coils_untouched
#print axioms C18_coils_request
#print axioms C18_request_assembly_untouched
#print axioms C18_mbap_assembly_untouched
#print axioms C18_rtu_assembly_untouched
#print axioms C18_recv_fresh
#print axioms C18_recv_rtu_fresh
#print axioms C18_readBytes_post
#print axioms C18_decode_fresh
#print axioms C18_call_untouched
#print axioms wframe_bytes
#print axioms C18_history_untouched
#print axioms C18_results_stable
#print axioms C18_readBytes_result_stable
#print axioms C18_repeat_same_bytes_history

end Modbus.Props.C18
