import ModbusVerif.Lemmas.GoEvalCtorLemmas
import ModbusVerif.Props.C14Src
import ModbusVerif.Props.C16Tie
import ModbusVerif.Props.C08Flow
/-
  C16, second source tie: "Each URL scheme selects its documented transport; bad configs are
  refused", on the TYPED RENDERING of the current client.go / server.go (`Gen.gs_NewClient`,
  `Gen.gs_NewServer`, `Gen.gs_ModbusClient_SetEncoding`, `Gen.gs_ModbusClient_SetUnitId`, regenerated from
  /repo on every run), EVALUATED with Go semantics by `Modbus.GoEval`. Independent of Props/C16Tie
  (which interprets the extracted token skeletons): here the expressions of the source are
  evaluated, the conditions are decided by the evaluator from the values, nothing is answered from
  a table keyed by condition texts. Helpers: Lemmas/GoEvalCtorLemmas.lean.

  ## What is proved

  `NewClient` (input `CtorCli`: `conf.URL`; Speed, DataBits, StopBits, Parity, Timeout as ARBITRARY
  integers — no range hypothesis is needed, the function only compares with constants, so every Go
  `uint` / `int64` value is covered —; the two TLS credentials as symbols, `"nil"` = absent; the result
  of `strings.SplitN`: ANY length `parts`, element 0 `scheme`, element 1 `rest`; any answers `sp`, `lg` of
  the two opaque calls; every fuel ≥ `ctorFuel` = 40):
  * `C16S_newClient_run`     the run RETURNS after exactly `strings.SplitN(conf.URL, "://", 2)` and
                             `newLogger(…)`; final `err` is nil IFF `C16S_accepted` (two parts ∧ scheme one
                             of the six ∧ (tcp+tls → both credentials)), else `ErrConfigurationError`;
                             accepted: `mc.transportType` = the scheme's number 1..6, `mc.conf.URL` = rest,
                             Speed / DataBits / StopBits / Timeout = configured value if non-zero else the
                             scheme's documented default (`C16S_client_table`: 19200; 8; 2 without parity,
                             1 with; 300 ms for rtu, 1 s otherwise; default 0 = the scheme does not default
                             the field, value kept), Parity never assigned, unit id 1, endianness 1, word
                             order 1, each bound exactly once; refused (missing scheme: `clientType` stays
                             `""`; unknown scheme; tcp+tls without a credential): `mc.transportType`,
                             `mc.unitId`, `mc.endianness`, `mc.wordOrder` are NOT assigned (value 0, same
                             number of bindings as on entry);
  * `C16S_refused_client_unusable`  `Open` evaluated on the final environment of a refused run assigns
                             `ErrConfigurationError` and calls nothing (`C14S_other_types_no_call`);
  * `C16S_newClient_model`   with the split := the model's `splitScheme conf.URL`, the outcome read off the
                             final environment (`C16S_clientOutcome`, through `ClientObj` / `clientStateOf`
                             of Props/C16Tie) IS `Config.newClient conf`, for every model configuration;
  * `C16S_newClient_property` hence `C16_client_ok_iff`, `C16_client_refused`, `C16_client_wiring`,
                             `C16_client_defaults` hold of the evaluated source.
  `NewServer` (input `CtorSrv`, same conventions):
  * `C16S_newServer_run`     returns; `err` nil IFF `C16S_srvAccepted` (non-empty address ∧ two parts ∧ tcp or
                             tcp+tls ∧ (tcp+tls → both credentials)); accepted: type 4 / 5, address, Timeout
                             and MaxClients defaulted to 120 s / 10 when zero; refused: `ms.transportType`
                             not assigned; the EMPTY ADDRESS is refused before the switch: then neither
                             Timeout nor MaxClients is assigned, whatever the scheme;
  * `C16S_newServer_model`, `C16S_newServer_property`  = `Config.newServer`, hence `C16_server`.
  Setters (ANY entry environment binding the parameters, any oracle, every selector integer):
  * `C16S_setEncoding`       returns without a call; both selectors ∈ {1,2}: final environment = entry +
                             `mc.endianness := endianness`, `mc.wordOrder := wordOrder`, `err` untouched;
                             otherwise = entry + `err := ErrUnexpectedParameters` ONLY: neither field
                             assigned, also when only the word order is bad;
  * `C16S_setUnitId`         `mc.unitId := id`, nothing else, for every value;
  * `C16S_setEncoding_model`, `C16S_setUnitId_model`  = `Config.setEncoding` / `Config.setUnitId`;
  * `C16S_setters_locked`    the typed rendering DROPS the lock calls; the flow rendering of both methods
                             starts with acquire + deferred release and Props/C08Flow proves the discipline
                             on every path (cited, with the analysis result for the two methods).
  Static (`decide +kernel` on the generated terms): `C16S_newClient_static`, `C16S_newServer_static`,
  `C16S_setters_static` — the scheme literals compared, in order, the constants assigned per arm,
  `mc` / `ms` assigned once, the literal `&ModbusClient{ conf: *conf, }` (`mc.conf` is a COPY), the
  assigned targets (the caller's `conf` is never assigned), the calls and their argument leaves, the
  position of the empty-address test before the switch, no opaque statement.
  Sensitivity (section "sensitivity"): six variants derived from the generated terms by `ctorRewrite`
  (stop bits keyed on `Parity != 2`; missing scheme falling through; credential tests joined; 1 s
  rtu default; endianness assigned before the word-order test; no empty-address test), each changing
  exactly one site, each told apart by a concrete configuration and rejected by the table.

  ## What is modelled, not derived
  * `strings.SplitN` is an ORACLE call. Its slice result is an opaque value; what the function sees of
    it are the three text-keyed leaves `len(splitURL)`, `splitURL[0]`, `splitURL[1]`, bound in the entry
    environment for the whole run (`staleReads` lists them: read after `splitURL` is bound). The run
    theorems quantify over ALL their values; the model corollaries instantiate them with
    `Config.splitScheme` (before / after the FIRST "://", or one part) — that this is what Go's
    `strings.SplitN(s, "://", 2)` returns is trusted (Model/Config scope notes).
  * `newLogger(…)`, `fmt.Sprintf(…)` are opaque (an oracle call, a leaf); logging calls
    (`mc.logger.Errorf`) and the LOCK calls are dropped by the translator (the `if len(splitURL) != 2`
    of the `default:` arm only chooses a log line: both branches are `skip` in the term).
  * Strings are symbols compared BY NAME; the name is the string's content (`sym "rtu"`), so symbol
    equality is equality of contents (Go: `==` on strings). A string-literal leaf (`"\"rtu\""`) gets
    the symbol of its content from the entry environment: the unquoting is by hand, for the eight
    literals of the two functions (their texts are in the static theorems).
  * `mc = &ModbusClient{ conf: *conf, }`: the evaluator has no structs. `mc` is an opaque symbol; the
    leaves `mc.conf.X` start with the value of `conf.X` and the other fields with Go's zero value (0):
    this is the meaning of the literal, whose TEXT is checked statically. Likewise the zero values of
    the locals `clientType` / `serverType` (`""`: the translator drops `var clientType string`) and of
    the named result `err` (nil) come from the entry environment.
  * Pointers (`TLSClientCert` …) are symbols; `"nil"` is nil.
  * The translator renders the `switch` on a string as a one-shot loop of nested `if`s in case order
    (Go: first matching case, no fallthrough): trusted with the translator.
  * A refused constructor returns the non-nil object together with the error (`mc` is bound before the
    checks); the model returns the error only. `C16S_refused_client_unusable` covers the object.

  ## Findings
  No disagreement between the source, the model `Modbus.Config` and the documented table on any
  configuration. Observations (not violations): Parity is not validated by `NewClient` (any non-zero
  value, also one that is no parity constant, selects 1 stop bit — `C16_parity` covers serial.go); a
  negative Timeout is kept; in the tcp+tls arm the Timeout default is applied BEFORE the credential
  refusals; `NewClient` hands `conf.Logger` (the caller's struct) to `newLogger`, `NewServer`
  `ms.conf.Logger` (the copy) — the same value.
-/
set_option linter.unusedSimpArgs false
set_option linter.unusedVariables false
set_option maxRecDepth 100000

namespace Modbus.Props.C16
open Modbus Modbus.Gen Modbus.GoEval Modbus.Config

/-! ## 1. `NewClient`: the run, for every configuration -/

/-- the configuration is one `NewClient` must accept: `strings.SplitN` found a scheme, it is one of
    the six, and tcp+tls comes with both credentials -/
def C16S_accepted (i : CtorCli) : Prop :=
  i.parts = 2 ∧ i.scheme ∈ Spec.Config.clientSchemes ∧
    (i.scheme = "tcp+tls" → i.cert ≠ "nil" ∧ i.roots ≠ "nil")

theorem C16S_schemeType_ne_zero (s : String) :
    ctorSchemeType s ≠ 0 ↔ s ∈ Spec.Config.clientSchemes := by
  unfold ctorSchemeType
  simp only [Spec.Config.clientSchemes, List.mem_cons, List.not_mem_nil, or_false]
  by_cases h1 : s = "rtu" <;> by_cases h2 : s = "rtuovertcp" <;> by_cases h3 : s = "rtuoverudp" <;>
    by_cases h4 : s = "tcp" <;> by_cases h5 : s = "tcp+tls" <;> by_cases h6 : s = "udp" <;> simp [*]

theorem C16S_accepted_iff_ok (i : CtorCli) : C16S_accepted i ↔ i.ok := by
  unfold C16S_accepted CtorCli.ok CtorCli.ctype
  by_cases hp : i.parts = 2
  · simp only [hp, ↓reduceIte, true_and, C16S_schemeType_ne_zero]
  · simp [hp, ctorSchemeType]

/-- the entry environment binds each of the watched fields once -/
theorem C16S_clientEnv_writes (i : CtorCli) :
    writes "mc.transportType" (ctorCliEnv i) = 1 ∧ writes "mc.unitId" (ctorCliEnv i) = 1 ∧
    writes "mc.endianness" (ctorCliEnv i) = 1 ∧ writes "mc.wordOrder" (ctorCliEnv i) = 1 ∧
    writes "mc.conf.Parity" (ctorCliEnv i) = 1 := by
  simp [ctorCliEnv, ctor_writes_cons, ctor_writes_nil]

/-- **`NewClient`, the run, EVERY configuration** (every integer for Speed / DataBits / StopBits /
    Parity / Timeout — in particular every Go `uint` / `int64` —, presence or absence of the two TLS
    credentials, every result of `strings.SplitN`: any length `parts`, any `scheme`, any `rest`; every
    answer `sp`, `lg` of the two opaque calls; every fuel ≥ `ctorFuel`).

    The run RETURNS. It performs exactly `strings.SplitN(conf.URL, "://", 2)` and `newLogger(…)`.
    The final `err` is `nil` IFF the configuration is `C16S_accepted`, else `ErrConfigurationError`.
    Accepted: `mc.transportType` is the scheme's number, `mc.conf.URL` the rest of the URL, Speed /
    DataBits / StopBits / Timeout the configured value if non-zero else the scheme's documented
    default (`ctorDflt*`, 0 = no default: the value is kept), Parity untouched (never assigned),
    `mc.unitId = mc.endianness = mc.wordOrder = 1`, each of the four bound exactly once more than on
    entry. Refused: `mc.transportType`, `mc.unitId`, `mc.endianness`, `mc.wordOrder` are NOT assigned —
    same number of bindings as on entry, value still 0 —; this covers the missing scheme
    (`parts ≠ 2`: `clientType` stays `""`) and the unknown scheme alike. In both cases the names
    `ErrConfigurationError` and `nil` stay unbound (they denote the constants). -/
theorem C16S_newClient_run (i : CtorCli) (sp lg : GoEval.Val) (fuel : Nat) (hf : ctorFuel ≤ fuel) :
    let r := exec (ctorOracle sp lg) fuel gs_NewClient (ctorCliEnv i)
    r.how = .returned ∧
    r.calls = [("strings.SplitN", [.sym i.url, .sym "://", .int 2]),
               ("newLogger", [.sym "modbus-client(…)", .sym "conf.Logger"])] ∧
    (Env.read? r.env "err" = some (.sym "nil") ↔ C16S_accepted i) ∧
    Env.read? r.env "mc.conf.Parity" = some (.int i.parity) ∧
    writes "mc.conf.Parity" r.env = writes "mc.conf.Parity" (ctorCliEnv i) ∧
    Env.read? r.env "ErrConfigurationError" = none ∧ Env.read? r.env "nil" = none ∧
    (C16S_accepted i →
      Env.read? r.env "err" = some (.sym "nil") ∧
      Env.read? r.env "mc.transportType" = some (.int (ctorSchemeType i.scheme)) ∧
      Env.read? r.env "mc.conf.URL" = some (.sym i.rest) ∧
      Env.read? r.env "mc.conf.Speed" = some (.int (orDflt i.speed (ctorDfltSpeed i.scheme))) ∧
      Env.read? r.env "mc.conf.DataBits" = some (.int (orDflt i.dataBits (ctorDfltDataBits i.scheme))) ∧
      Env.read? r.env "mc.conf.StopBits" =
        some (.int (orDflt i.stopBits (ctorDfltStopBits i.scheme i.parity))) ∧
      Env.read? r.env "mc.conf.Timeout" = some (.int (orDflt i.timeout (ctorDfltTimeout i.scheme))) ∧
      Env.read? r.env "mc.unitId" = some (.int 1) ∧
      Env.read? r.env "mc.endianness" = some (.int 1) ∧
      Env.read? r.env "mc.wordOrder" = some (.int 1) ∧
      writes "mc.transportType" r.env = writes "mc.transportType" (ctorCliEnv i) + 1 ∧
      writes "mc.unitId" r.env = writes "mc.unitId" (ctorCliEnv i) + 1 ∧
      writes "mc.endianness" r.env = writes "mc.endianness" (ctorCliEnv i) + 1 ∧
      writes "mc.wordOrder" r.env = writes "mc.wordOrder" (ctorCliEnv i) + 1) ∧
    (¬ C16S_accepted i →
      Env.read? r.env "err" = some (.sym "ErrConfigurationError") ∧
      Env.read? r.env "mc.transportType" = some (.int 0) ∧
      Env.read? r.env "mc.unitId" = some (.int 0) ∧
      Env.read? r.env "mc.endianness" = some (.int 0) ∧
      Env.read? r.env "mc.wordOrder" = some (.int 0) ∧
      writes "mc.transportType" r.env = writes "mc.transportType" (ctorCliEnv i) ∧
      writes "mc.unitId" r.env = writes "mc.unitId" (ctorCliEnv i) ∧
      writes "mc.endianness" r.env = writes "mc.endianness" (ctorCliEnv i) ∧
      writes "mc.wordOrder" r.env = writes "mc.wordOrder" (ctorCliEnv i) ∧
      Env.read? r.env "mc.conf.URL" = some (.sym (if i.parts = 2 then i.rest else i.url))) := by
  intro r
  have hr : r = _ := ctorCli_run_ge i sp lg fuel hf
  have h := ctorCli_obs i sp lg
  rw [← hr] at h
  obtain ⟨w1, w2, w3, w4, w5⟩ := C16S_clientEnv_writes i
  simp only [ctorCliObs, ctorCliExp, Prod.mk.injEq, List.map, List.cons.injEq, and_true] at h
  obtain ⟨h0, hc, ⟨e1, e2, e3, e4, e5, e6, e7, e8, e9, e10, e11, e12, e13⟩, k1, k2, k3, k4, k5⟩ := h
  rw [w1, w2, w3, w4, w5]
  have hok := C16S_accepted_iff_ok i
  refine ⟨h0, hc, ?_, e7, k5, e12, e13, ?_, ?_⟩
  · rw [e1, hok]
    by_cases ho : i.ok <;> simp [ho]
  · intro ha
    have ho := hok.mp ha
    have hp : i.parts = 2 := ha.1
    have hct : i.ctype = i.scheme := by simp [CtorCli.ctype, hp]
    simp only [ho, ↓reduceIte, hct, hp] at e1 e2 e3 e4 e5 e6 e8 e9 e10 e11 k1 k2 k3 k4
    exact ⟨e1, e2, e3, e4, e5, e6, e8, e9, e10, e11, k1, k2, k3, k4⟩
  · intro ha
    have ho : ¬ i.ok := fun h => ha (hok.mpr h)
    simp only [ho, ↓reduceIte] at e1 e2 e9 e10 e11 k1 k2 k3 k4
    exact ⟨e1, e2, e9, e10, e11, k1, k2, k3, k4, e3⟩


/-- the run with the Go call `mc.Open()` appended: a refused `NewClient` leaves an object that cannot be
    opened — `Open` on the final environment of the refused run (transport type still 0) assigns
    `ErrConfigurationError` and calls NOTHING, whatever the oracle would answer
    (`C14S_other_types_no_call`) -/
theorem C16S_refused_client_unusable (i : CtorCli) (sp lg : GoEval.Val) (fuel : Nat)
    (hf : ctorFuel ≤ fuel) (h : ¬ C16S_accepted i) (o : Oracle) (fuel' : Nat) (hf' : 16 ≤ fuel') :
    let r := exec (ctorOracle sp lg) fuel gs_NewClient (ctorCliEnv i)
    exec o fuel' gs_ModbusClient_Open r.env =
      ⟨Env.write r.env "err" (.sym "ErrConfigurationError"), .returned, []⟩ := by
  intro r
  obtain ⟨_, _, _, _, _, hcfg, _, _, href⟩ := C16S_newClient_run i sp lg fuel hf
  obtain ⟨_, ht, _⟩ := href h
  exact C14.C14S_other_types_no_call o 0 (by decide) (by decide) (by decide) (by decide) (by decide)
    (by decide) r.env hcfg ht fuel' hf'

/-- **the documented table**, value by value: the numbers `C16S_newClient_run` refers to -/
theorem C16S_client_table :
    Spec.Config.clientSchemes.map ctorSchemeType = [1, 2, 3, 4, 5, 6] ∧
    Spec.Config.clientSchemes.map ctorDfltSpeed = [19200, 19200, 19200, 0, 0, 0] ∧
    Spec.Config.clientSchemes.map ctorDfltDataBits = [8, 0, 0, 0, 0, 0] ∧
    Spec.Config.clientSchemes.map (fun s => ctorDfltStopBits s 0) = [2, 0, 0, 0, 0, 0] ∧
    (∀ p : Int, p ≠ 0 → Spec.Config.clientSchemes.map (fun s => ctorDfltStopBits s p) = [1, 0, 0, 0, 0, 0]) ∧
    Spec.Config.clientSchemes.map ctorDfltTimeout =
      [300000000, 1000000000, 1000000000, 1000000000, 1000000000, 1000000000] ∧
    (∀ s, s ∈ Spec.Config.clientSchemes →
      ctorDfltTimeout s = (Spec.Config.defaultTimeoutNs s : Nat) ∧
      (s ∈ Spec.Config.rtuSchemes → ctorDfltSpeed s = (Spec.Config.defaultSpeed : Nat)) ∧
      (s ∉ Spec.Config.rtuSchemes → ctorDfltSpeed s = 0) ∧
      ctorSchemeType s = ((Spec.Config.modeOf s).map (fun m => (kindNum m.kind : Int))).getD 0) ∧
    (∀ x : Int, orDflt x 0 = x) ∧
    (const_modbusRTU = 1 ∧ const_modbusRTUOverTCP = 2 ∧ const_modbusRTUOverUDP = 3 ∧ const_modbusTCP = 4 ∧
      const_modbusTCPOverTLS = 5 ∧ const_modbusTCPOverUDP = 6) := by
  refine ⟨by decide, by decide, by decide, by decide, ?_, by decide, ?_, ?_, by decide⟩
  · intro p hp
    simp [Spec.Config.clientSchemes, ctorDfltStopBits, hp]
  · intro s hs
    simp only [Spec.Config.clientSchemes, List.mem_cons, List.not_mem_nil, or_false] at hs
    rcases hs with rfl | rfl | rfl | rfl | rfl | rfl <;> decide
  · intro x; unfold orDflt; split <;> simp_all

/-! ## 2. `NewClient` = the model `Config.newClient` -/

theorem C16S_read_of_read? {env : Env} {k : String} {v : GoEval.Val} (h : Env.read? env k = some v) :
    Env.read env k = v := by simp [Env.read, h]

/-- a Go unsigned / duration value as the model's `Nat` (negative: no reading) -/
def C16S_nat? : GoEval.Val → Option Nat
  | .int v => if 0 ≤ v then some v.toNat else none
  | _ => none
/-- a Go string value (a symbol: its content) -/
def C16S_str? : GoEval.Val → Option String
  | .sym s => some s
  | _ => none

/-- the final environment read as the Go object `*ModbusClient` (`ClientObj` of Props/C16Tie) -/
def C16S_clientObj (env : Env) : Option ClientObj := do
  let url ← C16S_str? (Env.read env "mc.conf.URL")
  let speed ← C16S_nat? (Env.read env "mc.conf.Speed")
  let dataBits ← C16S_nat? (Env.read env "mc.conf.DataBits")
  let parity ← C16S_nat? (Env.read env "mc.conf.Parity")
  let stopBits ← C16S_nat? (Env.read env "mc.conf.StopBits")
  let timeoutNs ← C16S_nat? (Env.read env "mc.conf.Timeout")
  let tt ← C16S_nat? (Env.read env "mc.transportType")
  let unitId ← C16S_nat? (Env.read env "mc.unitId")
  let en ← C16S_nat? (Env.read env "mc.endianness")
  let wo ← C16S_nat? (Env.read env "mc.wordOrder")
  pure { url := url, speed := speed, dataBits := dataBits, parity := parity, stopBits := stopBits,
         timeoutNs := timeoutNs, transportType := tt, unitId := unitId, endianness := en, wordOrder := wo }

/-- the outcome of a finished run of `NewClient` in the model's terms: the error, or the state of
    the object (`clientStateOf` of Props/C16Tie: `none` when the transport type is not one of the six) -/
def C16S_clientOutcome (r : Res) : Option (Except Err ClientState) :=
  match Env.read r.env "err" with
  | .sym e =>
    if e = "nil" then ((C16S_clientObj r.env).bind clientStateOf).map .ok
    else if e = "ErrConfigurationError" then some (.error .configuration)
    else none
  | _ => none

/-- a pointer field: present / absent -/
def C16S_ptr (b : Bool) : String := if b then "&obj" else "nil"

/-- the input of the run for a model configuration: the numbers as they are, the credentials by
    presence, and `strings.SplitN(conf.URL, "://", 2)` = the model's `splitScheme`: two parts
    (before / after the FIRST "://") when it occurs, else the one part `[conf.URL]` -/
def C16S_cliIn (c : ClientConf) : CtorCli :=
  { url := c.url, speed := c.speed, dataBits := c.dataBits, stopBits := c.stopBits, parity := c.parity,
    timeout := c.timeoutNs, cert := C16S_ptr c.hasCert, roots := C16S_ptr c.hasRoots,
    parts := if (splitScheme c.url).isSome then 2 else 1,
    scheme := ((splitScheme c.url).map (·.1)).getD c.url,
    rest := ((splitScheme c.url).map (·.2)).getD "" }

theorem C16S_nat?_cast (n : Nat) : C16S_nat? (.int (n : Int)) = some n := by
  simp [C16S_nat?]

theorem C16S_nat?_orDflt (x : Nat) (d : Int) (hd : 0 ≤ d) :
    C16S_nat? (.int (orDflt (x : Int) d)) = some (orDefault x d.toNat) := by
  unfold orDflt orDefault C16S_nat?
  by_cases h : x = 0
  · subst h; simp [hd]
  · have : (x : Int) ≠ 0 := by omega
    simp [h, this]

theorem C16S_orDefault_zero (x : Nat) : orDefault x 0 = x := by
  unfold orDefault; split <;> simp_all

theorem C16S_ptr_ne_nil (b : Bool) : C16S_ptr b ≠ "nil" ↔ b = true := by
  cases b <;> simp [C16S_ptr]

/-- **`NewClient` computes the model.** For every model configuration `c`, with the oracle's split
    being the model's `splitScheme c.url`: the outcome of the evaluated source term — refusal, or the
    state read off the final environment — is exactly `Config.newClient c`, the function the
    theorems of Props/C16 (`C16_client_ok_iff`, `C16_client_wiring`, `C16_client_defaults`) are about. -/
theorem C16S_newClient_model (c : ClientConf) (sp lg : GoEval.Val) (fuel : Nat) (hf : ctorFuel ≤ fuel) :
    C16S_clientOutcome (exec (ctorOracle sp lg) fuel gs_NewClient (ctorCliEnv (C16S_cliIn c))) =
      some (newClient c) := by
  have H := C16S_newClient_run (C16S_cliIn c) sp lg fuel hf
  dsimp only at H
  generalize exec (ctorOracle sp lg) fuel gs_NewClient (ctorCliEnv (C16S_cliIn c)) = r at H ⊢
  obtain ⟨_, _, _, hpar, _, _, _, hacc, href⟩ := H
  have refuse : ¬ C16S_accepted (C16S_cliIn c) → newClient c = .error .configuration →
      C16S_clientOutcome r = some (newClient c) := by
    intro ha hn
    obtain ⟨e1, _⟩ := href ha
    rw [hn]
    simp [C16S_clientOutcome, C16S_read_of_read? e1]
  cases hs : splitScheme c.url with
  | none =>
    apply refuse
    · intro ha
      have := ha.1
      simp [C16S_cliIn, hs] at this
    · simp [newClient, hs]
  | some p =>
    obtain ⟨scheme, rest⟩ := p
    have hparts : (C16S_cliIn c).parts = 2 := by simp [C16S_cliIn, hs]
    have hscheme : (C16S_cliIn c).scheme = scheme := by simp [C16S_cliIn, hs]
    have hrest : (C16S_cliIn c).rest = rest := by simp [C16S_cliIn, hs]
    have accept : C16S_accepted (C16S_cliIn c) →
        C16S_clientOutcome r = some (newClient c) := by
      intro ha
      obtain ⟨e1, e2, e3, e4, e5, e6, e8, e9, e10, e11, _⟩ := hacc ha
      have hm := ha.2.1
      have htls := ha.2.2
      rw [hscheme] at e2 e4 e5 e6 e8 hm htls
      rw [hrest] at e3
      simp only [C16S_clientOutcome, C16S_clientObj, C16S_read_of_read? e1, C16S_read_of_read? e2,
        C16S_read_of_read? e3, C16S_read_of_read? e4, C16S_read_of_read? e5, C16S_read_of_read? e6,
        C16S_read_of_read? hpar, C16S_read_of_read? e8, C16S_read_of_read? e9, C16S_read_of_read? e10,
        C16S_read_of_read? e11, ↓reduceIte]
      simp only [Spec.Config.clientSchemes, List.mem_cons, List.not_mem_nil, or_false] at hm
      simp only [C16S_cliIn, C16S_ptr] at htls ⊢
      rcases hm with rfl | rfl | rfl | rfl | rfl | rfl
      all_goals
        simp only [ctorSchemeType, ctorDfltSpeed, ctorDfltDataBits, ctorDfltStopBits, ctorDfltTimeout,
          String.reduceEq, ↓reduceIte]
      case inr.inr.inr.inr.inl =>
        have hc : c.hasCert = true := by
          cases hc : c.hasCert <;> simp [hc] at htls ⊢
        have hr : c.hasRoots = true := by
          cases hr : c.hasRoots <;> simp [hr] at htls ⊢
        simp only [C16S_nat?_orDflt, C16S_nat?_cast, C16S_str?, Int.natCast_eq_zero, ↓reduceIte,
          Int.reduceLE, Int.reduceToNat, Int.toNat_zero, C16S_orDefault_zero, Int.le_refl,
          Option.bind_eq_bind, Option.bind_some, Option.pure_def, Option.map_some, bind, pure]
        simp [C16S_nat?, newClient, hs, clientStateOf, kindOfNum, kindNum, endianOf, wordOf, orDefault, Config.ms,
          second, hc, hr]
      all_goals
        by_cases h4 : c.parity = 0 <;>
          (simp only [C16S_nat?_orDflt, C16S_nat?_cast, C16S_str?, h4, Int.natCast_eq_zero, ↓reduceIte,
            Int.reduceLE, Int.reduceToNat, Int.toNat_zero, C16S_orDefault_zero, Int.le_refl,
            Option.bind_eq_bind, Option.bind_some, Option.pure_def, Option.map_some, bind, pure]
           simp [C16S_nat?, newClient, hs, clientStateOf, kindOfNum, kindNum, endianOf, wordOf, orDefault,
             Config.ms, second, h4])
    by_cases ha : C16S_accepted (C16S_cliIn c)
    · exact accept ha
    · apply refuse ha
      apply C16_client_refused
      rintro ⟨s', r', hs', hm, ht⟩
      rw [hs] at hs'
      cases hs'
      refine ha ⟨hparts, by rw [hscheme]; exact hm, ?_⟩
      intro h
      rw [hscheme] at h
      simp only [C16S_cliIn, ne_eq]
      exact ⟨(C16S_ptr_ne_nil _).mpr (ht h).1, (C16S_ptr_ne_nil _).mpr (ht h).2⟩


/-! ## 3. `NewServer` -/

/-- the configuration is one `NewServer` must accept: a non-empty address (the part after "://",
    or the whole URL when there is no "://"), a scheme, tcp or tcp+tls, credentials for tcp+tls -/
def C16S_srvAccepted (i : CtorSrv) : Prop :=
  i.host ≠ "" ∧ i.parts = 2 ∧ i.scheme ∈ Spec.Config.serverSchemes ∧
    (i.scheme = "tcp+tls" → i.cert ≠ "nil" ∧ i.cas ≠ "nil")

theorem C16S_srvAccepted_iff_ok (i : CtorSrv) : C16S_srvAccepted i ↔ i.ok := by
  unfold C16S_srvAccepted CtorSrv.ok CtorSrv.stype
  by_cases hp : i.parts = 2
  · simp only [hp, ↓reduceIte, true_and, Spec.Config.serverSchemes, List.mem_cons, List.not_mem_nil,
      or_false, ctorSrvType]
    by_cases h1 : i.scheme = "tcp" <;> by_cases h2 : i.scheme = "tcp+tls" <;> simp [h1, h2]
  · simp [hp, ctorSrvType]

theorem C16S_serverEnv_writes (i : CtorSrv) :
    writes "ms.transportType" (ctorSrvEnv i) = 1 ∧ writes "ms.conf.Timeout" (ctorSrvEnv i) = 1 ∧
    writes "ms.conf.MaxClients" (ctorSrvEnv i) = 1 := by
  simp [ctorSrvEnv, ctor_writes_cons, ctor_writes_nil]

/-- **`NewServer`, the run, EVERY configuration** (every integer Timeout / MaxClients, presence or
    absence of the two credentials, every result of `strings.SplitN`, every answer of the two opaque
    calls, every fuel ≥ `ctorFuel`). The run RETURNS after exactly `strings.SplitN(conf.URL, "://", 2)`
    and `newLogger(…)`. Final `err` is `nil` IFF `C16S_srvAccepted`, else `ErrConfigurationError`.
    Accepted: `ms.transportType` is 4 (tcp) / 5 (tcp+tls), `ms.conf.URL` the address, Timeout /
    MaxClients the configured value if non-zero else 120 s / 10. Refused: `ms.transportType` is NOT
    assigned (still 0, same number of bindings). The EMPTY ADDRESS is refused BEFORE the scheme
    switch: then neither Timeout nor MaxClients is assigned either, whatever the scheme. -/
theorem C16S_newServer_run (i : CtorSrv) (sp lg : GoEval.Val) (fuel : Nat) (hf : ctorFuel ≤ fuel) :
    let r := exec (ctorOracle sp lg) fuel gs_NewServer (ctorSrvEnv i)
    r.how = .returned ∧
    r.calls = [("strings.SplitN", [.sym i.url, .sym "://", .int 2]),
               ("newLogger", [.sym "modbus-server(…)", .sym "conf.Logger"])] ∧
    (Env.read? r.env "err" = some (.sym "nil") ↔ C16S_srvAccepted i) ∧
    Env.read? r.env "ms.conf.URL" = some (.sym i.host) ∧
    Env.read? r.env "ErrConfigurationError" = none ∧ Env.read? r.env "nil" = none ∧
    (C16S_srvAccepted i →
      Env.read? r.env "err" = some (.sym "nil") ∧
      Env.read? r.env "ms.transportType" = some (.int (ctorSrvType i.scheme)) ∧
      Env.read? r.env "ms.conf.URL" = some (.sym i.rest) ∧
      Env.read? r.env "ms.conf.Timeout" = some (.int (orDflt i.timeout 120000000000)) ∧
      Env.read? r.env "ms.conf.MaxClients" = some (.int (orDflt i.maxClients 10)) ∧
      writes "ms.transportType" r.env = writes "ms.transportType" (ctorSrvEnv i) + 1) ∧
    (¬ C16S_srvAccepted i →
      Env.read? r.env "err" = some (.sym "ErrConfigurationError") ∧
      Env.read? r.env "ms.transportType" = some (.int 0) ∧
      writes "ms.transportType" r.env = writes "ms.transportType" (ctorSrvEnv i)) ∧
    (i.host = "" →
      Env.read? r.env "ms.conf.Timeout" = some (.int i.timeout) ∧
      Env.read? r.env "ms.conf.MaxClients" = some (.int i.maxClients) ∧
      writes "ms.conf.Timeout" r.env = writes "ms.conf.Timeout" (ctorSrvEnv i) ∧
      writes "ms.conf.MaxClients" r.env = writes "ms.conf.MaxClients" (ctorSrvEnv i)) := by
  intro r
  have hr : r = _ := ctorSrv_run_ge i sp lg fuel hf
  have h := ctorSrv_obs i sp lg
  rw [← hr] at h
  obtain ⟨w1, w2, w3⟩ := C16S_serverEnv_writes i
  simp only [ctorSrvObs, ctorSrvExp, Prod.mk.injEq, List.map, List.cons.injEq, and_true] at h
  obtain ⟨h0, hc, ⟨e1, e2, e3, e4, e5, e6, e7⟩, k1, k2, k3⟩ := h
  rw [w1, w2, w3]
  have hok := C16S_srvAccepted_iff_ok i
  refine ⟨h0, hc, ?_, e3, e6, e7, ?_, ?_, ?_⟩
  · rw [e1, hok]
    by_cases ho : i.ok <;> simp [ho]
  · intro ha
    have ho := hok.mp ha
    have hh : ¬ i.host = "" := ha.1
    have hp : i.parts = 2 := ha.2.1
    have hst : i.stype = i.scheme := by simp [CtorSrv.stype, hp]
    have hhost : i.host = i.rest := by simp [CtorSrv.host, hp]
    have hm := ha.2.2.1
    simp only [Spec.Config.serverSchemes, List.mem_cons, List.not_mem_nil, or_false] at hm
    simp only [ho, hh, ↓reduceIte, hst] at e1 e2 e4 e5 k1
    rw [hhost] at e3
    refine ⟨e1, e2, e3, ?_, ?_, k1⟩
    · rcases hm with h | h <;> simpa [h, ctorSrvDfltTimeout] using e4
    · rcases hm with h | h <;> simpa [h, ctorSrvDfltMaxClients] using e5
  · intro ha
    have ho : ¬ i.ok := fun h => ha (hok.mpr h)
    simp only [ho, ↓reduceIte] at e1 e2 k1
    exact ⟨e1, e2, k1⟩
  · intro hh
    simp only [hh, ↓reduceIte] at e4 e5 k2 k3
    exact ⟨e4, e5, k2, k3⟩

/-- the server table: transport types 4 / 5, defaults 120 s and 10 clients, as documented -/
theorem C16S_server_table :
    Spec.Config.serverSchemes.map ctorSrvType = [4, 5] ∧
    Spec.Config.serverSchemes.map ctorSrvDfltTimeout = [120000000000, 120000000000] ∧
    Spec.Config.serverSchemes.map ctorSrvDfltMaxClients = [10, 10] ∧
    (120000000000 : Int) = (Spec.Config.serverDefaultTimeoutNs : Nat) ∧
    (10 : Int) = (Spec.Config.serverDefaultMaxClients : Nat) ∧
    (120000000000 : Int) = 120 * 1000000000 := by
  refine ⟨by decide, by decide, by decide, by decide, by decide, by decide⟩

/-- the final environment read as the Go object `*ModbusServer` (`ServerObj` of Props/C16Tie) -/
def C16S_serverObj (env : Env) : Option ServerObj := do
  let url ← C16S_str? (Env.read env "ms.conf.URL")
  let timeoutNs ← C16S_nat? (Env.read env "ms.conf.Timeout")
  let maxClients ← C16S_nat? (Env.read env "ms.conf.MaxClients")
  let tt ← C16S_nat? (Env.read env "ms.transportType")
  pure { url := url, timeoutNs := timeoutNs, maxClients := maxClients, transportType := tt }

def C16S_serverOutcome (r : Res) : Option (Except Err ServerState) :=
  match Env.read r.env "err" with
  | .sym e =>
    if e = "nil" then ((C16S_serverObj r.env).bind serverStateOf).map .ok
    else if e = "ErrConfigurationError" then some (.error .configuration)
    else none
  | _ => none

def C16S_srvIn (c : ServerConf) : CtorSrv :=
  { url := c.url, timeout := c.timeoutNs, maxClients := c.maxClients,
    cert := C16S_ptr c.hasCert, cas := C16S_ptr c.hasCAs,
    parts := if (splitScheme c.url).isSome then 2 else 1,
    scheme := ((splitScheme c.url).map (·.1)).getD c.url,
    rest := ((splitScheme c.url).map (·.2)).getD "" }

/-- **`NewServer` computes the model**: for every model configuration, with the oracle's split being
    `splitScheme c.url`, the outcome of the evaluated source term is exactly `Config.newServer c` -/
theorem C16S_newServer_model (c : ServerConf) (sp lg : GoEval.Val) (fuel : Nat) (hf : ctorFuel ≤ fuel) :
    C16S_serverOutcome (exec (ctorOracle sp lg) fuel gs_NewServer (ctorSrvEnv (C16S_srvIn c))) =
      some (newServer c) := by
  have H := C16S_newServer_run (C16S_srvIn c) sp lg fuel hf
  dsimp only at H
  generalize exec (ctorOracle sp lg) fuel gs_NewServer (ctorSrvEnv (C16S_srvIn c)) = r at H ⊢
  obtain ⟨_, _, _, _, _, _, hacc, href, _⟩ := H
  by_cases ha : C16S_srvAccepted (C16S_srvIn c)
  · obtain ⟨e1, e2, e3, e4, e5, _⟩ := hacc ha
    obtain ⟨hh, hp, hm, htls⟩ := ha
    cases hs : splitScheme c.url with
    | none => simp [C16S_srvIn, hs] at hp
    | some p =>
      obtain ⟨scheme, rest⟩ := p
      have hscheme : (C16S_srvIn c).scheme = scheme := by simp [C16S_srvIn, hs]
      have hrest : (C16S_srvIn c).rest = rest := by simp [C16S_srvIn, hs]
      have hhost : (C16S_srvIn c).host = rest := by simp [CtorSrv.host, C16S_srvIn, hs]
      rw [hscheme] at e2 hm htls
      rw [hrest] at e3
      rw [hhost] at hh
      simp only [C16S_serverOutcome, C16S_serverObj, C16S_read_of_read? e1, C16S_read_of_read? e2,
        C16S_read_of_read? e3, C16S_read_of_read? e4, C16S_read_of_read? e5, ↓reduceIte]
      simp only [Spec.Config.serverSchemes, List.mem_cons, List.not_mem_nil, or_false] at hm
      simp only [C16S_srvIn, C16S_ptr] at htls ⊢
      rcases hm with rfl | rfl
      · simp only [C16S_nat?_orDflt, C16S_nat?_cast, C16S_str?, ctorSrvType, String.reduceEq, ↓reduceIte,
          Int.reduceLE, Int.reduceToNat, Option.bind_eq_bind, Option.bind_some, Option.pure_def,
          Option.map_some, bind, pure]
        simp [C16S_nat?, newServer, hs, hh, serverStateOf, kindNum, second]
      · have hc : c.hasCert = true := by
          cases hc : c.hasCert <;> simp [hc] at htls ⊢
        have hr : c.hasCAs = true := by
          cases hr : c.hasCAs <;> simp [hr] at htls ⊢
        simp only [C16S_nat?_orDflt, C16S_nat?_cast, C16S_str?, ctorSrvType, String.reduceEq, ↓reduceIte,
          Int.reduceLE, Int.reduceToNat, Option.bind_eq_bind, Option.bind_some, Option.pure_def,
          Option.map_some, bind, pure]
        simp [C16S_nat?, newServer, hs, hh, serverStateOf, kindNum, second, hc, hr]
  · obtain ⟨e1, _⟩ := href ha
    have hn : newServer c = .error .configuration := by
      apply C16_server_refused
      rintro ⟨s', r', hs', hr', hm, ht⟩
      apply ha
      have hscheme : (C16S_srvIn c).scheme = s' := by simp [C16S_srvIn, hs']
      refine ⟨by simpa [CtorSrv.host, C16S_srvIn, hs'] using hr', by simp [C16S_srvIn, hs'],
        by rw [hscheme]; exact hm, ?_⟩
      intro h
      rw [hscheme] at h
      simp only [C16S_srvIn, ne_eq]
      exact ⟨(C16S_ptr_ne_nil _).mpr (ht h).1, (C16S_ptr_ne_nil _).mpr (ht h).2⟩
    rw [hn]
    simp [C16S_serverOutcome, C16S_read_of_read? e1]


/-! ## 4. `SetEncoding`, `SetUnitId` -/

/-- **`SetEncoding`, every pair of selector values** (any integers, in particular every Go `uint`),
    ANY entry environment that binds the two parameters (and does not shadow the constant's name),
    any oracle, every fuel ≥ 8. The run returns without any call. Both selectors ∈ {1, 2}: the final
    environment is the entry environment with `mc.endianness := endianness` and then
    `mc.wordOrder := wordOrder` — nothing else, `err` untouched (nil). Otherwise: the final
    environment is the entry environment with `err := ErrUnexpectedParameters` ONLY — NEITHER field
    is assigned (same binding, same number of bindings), also when only the word order is bad. -/
theorem C16S_setEncoding (o : Oracle) (env : Env) (e w : Int)
    (he : Env.read? env "endianness" = some (.int e)) (hw : Env.read? env "wordOrder" = some (.int w))
    (hx : Env.read? env "ErrUnexpectedParameters" = none)
    (herr : Env.read? env "err" = some (.sym "nil")) (fuel : Nat) (hf : 8 ≤ fuel) :
    let r := exec o fuel gs_ModbusClient_SetEncoding env
    let valid := (e = 1 ∨ e = 2) ∧ (w = 1 ∨ w = 2)
    r.how = .returned ∧ r.calls = [] ∧
    (Env.read? r.env "err" = some (.sym "nil") ↔ valid) ∧
    (valid →
      r.env = Env.write (Env.write env "mc.endianness" (.int e)) "mc.wordOrder" (.int w) ∧
      Env.read? r.env "mc.endianness" = some (.int e) ∧
      Env.read? r.env "mc.wordOrder" = some (.int w) ∧
      Env.read? r.env "err" = some (.sym "nil")) ∧
    (¬ valid →
      r.env = Env.write env "err" (.sym "ErrUnexpectedParameters") ∧
      Env.read? r.env "err" = some (.sym "ErrUnexpectedParameters") ∧
      Env.read? r.env "mc.endianness" = Env.read? env "mc.endianness" ∧
      Env.read? r.env "mc.wordOrder" = Env.read? env "mc.wordOrder" ∧
      writes "mc.endianness" r.env = writes "mc.endianness" env ∧
      writes "mc.wordOrder" r.env = writes "mc.wordOrder" env) := by
  intro r valid
  have hr : r = _ := execFrom_ge o (ctorEnc_run o env [] e w he hw hx)
    (by split <;> exact fun h => nomatch h) fuel hf
  by_cases hv : valid
  · have hv' : (e = 1 ∨ e = 2) ∧ (w = 1 ∨ w = 2) := hv
    simp only [hv', and_self, ↓reduceIte] at hr
    rw [hr]
    have h1 : Env.read? (Env.write (Env.write env "mc.endianness" (.int e)) "mc.wordOrder" (.int w)) "err"
        = some (.sym "nil") := by
      simp only [read?_write, String.reduceEq, ↓reduceIte, herr]
    refine ⟨rfl, rfl, ⟨fun _ => hv, fun _ => h1⟩, fun _ => ⟨rfl, ?_, ?_, h1⟩, fun h => absurd hv h⟩
    · simp only [read?_write, String.reduceEq, ↓reduceIte]
    · simp only [read?_write, ↓reduceIte]
  · have hv' : ¬ ((e = 1 ∨ e = 2) ∧ (w = 1 ∨ w = 2)) := hv
    simp only [hv', ↓reduceIte] at hr
    rw [hr]
    refine ⟨rfl, rfl, ⟨fun h => ?_, fun h => absurd h hv⟩, fun h => absurd h hv, fun _ => ⟨rfl, ?_, ?_, ?_, ?_, ?_⟩⟩
    · simp [read?_write] at h
    · simp only [read?_write, ↓reduceIte]
    · simp only [read?_write, String.reduceEq, ↓reduceIte]
    · simp only [read?_write, String.reduceEq, ↓reduceIte]
    · simp only [writes_write, String.reduceEq, ↓reduceIte, Nat.add_zero]
    · simp only [writes_write, String.reduceEq, ↓reduceIte, Nat.add_zero]

/-- **`SetUnitId`, every id** (any value of the parameter, in particular every `uint8`), any entry
    environment, any oracle, every fuel ≥ 3: the run returns without any call, having assigned
    `mc.unitId := id` and nothing else (no error is ever assigned) -/
theorem C16S_setUnitId (o : Oracle) (env : Env) (v : GoEval.Val) (hid : Env.read? env "id" = some v)
    (fuel : Nat) (hf : 3 ≤ fuel) :
    let r := exec o fuel gs_ModbusClient_SetUnitId env
    r.how = .returned ∧ r.calls = [] ∧ r.env = Env.write env "mc.unitId" v ∧
    Env.read? r.env "mc.unitId" = some v ∧ Env.read? r.env "err" = Env.read? env "err" := by
  intro r
  have hr : r = _ := execFrom_ge o (ctorUnit_run o env [] v hid) (fun h => nomatch h) fuel hf
  rw [hr]
  refine ⟨rfl, rfl, rfl, ?_, ?_⟩
  · simp only [read?_write, ↓reduceIte]
  · simp only [read?_write, String.reduceEq, ↓reduceIte]

/-- entry environment of a setter call on a client in model state `st` -/
def C16S_setterEnv (st : ClientState) (params : Env) : Env :=
  params ++ [("err", .sym "nil"), ("mc.unitId", .int st.unitId.toNat),
    ("mc.endianness", .int (endianNum st.endian)), ("mc.wordOrder", .int (wordNum st.word))]

/-- the outcome of a setter run in the model's terms: the error, or `st` with the three settings
    read off the final environment -/
def C16S_setterOutcome (st : ClientState) (r : Res) : Option (Except Err ClientState) :=
  match Env.read r.env "err", C16S_nat? (Env.read r.env "mc.unitId"),
        C16S_nat? (Env.read r.env "mc.endianness"), C16S_nat? (Env.read r.env "mc.wordOrder") with
  | .sym e, some u, some a, some b =>
    if e = "nil" then some (.ok { st with unitId := BitVec.ofNat 8 u, endian := endianOf a, word := wordOf b })
    else if e = "ErrUnexpectedParameters" then some (.error .unexpectedParameters)
    else none
  | _, _, _, _ => none

/-- **`SetEncoding` computes the model** `Config.setEncoding` (the function `C16_selectors`,
    `C16_selectors_refused`, `C16_selectors_frame` are about), for every state with valid settings and
    every pair of selector values -/
theorem C16S_setEncoding_model (o : Oracle) (st : ClientState) (hE : st.endian ≠ .invalid)
    (hW : st.word ≠ .invalid) (e w : Nat) (fuel : Nat) (hf : 8 ≤ fuel) :
    C16S_setterOutcome st (exec o fuel gs_ModbusClient_SetEncoding
      (C16S_setterEnv st [("endianness", .int e), ("wordOrder", .int w)])) = some (setEncoding st e w) := by
  have H := C16S_setEncoding o (C16S_setterEnv st [("endianness", .int e), ("wordOrder", .int w)]) e w
    (by simp [C16S_setterEnv, read?_cons]) (by simp [C16S_setterEnv, read?_cons])
    (by simp [C16S_setterEnv, read?_cons, read?_nil]) (by simp [C16S_setterEnv, read?_cons]) fuel hf
  dsimp only at H
  generalize exec o fuel gs_ModbusClient_SetEncoding _ = r at H ⊢
  obtain ⟨_, _, _, hok, hbad⟩ := H
  by_cases hv : ((e : Int) = 1 ∨ (e : Int) = 2) ∧ ((w : Int) = 1 ∨ (w : Int) = 2)
  · obtain ⟨henv, _⟩ := hok hv
    have he : e = 1 ∨ e = 2 := by omega
    have hw : w = 1 ∨ w = 2 := by omega
    simp only [C16S_setterOutcome, henv, Env.read, read?_write, C16S_setterEnv, List.cons_append,
      List.nil_append, read?_cons, String.reduceEq, ↓reduceIte, Option.getD_some, C16S_nat?_cast]
    rcases he with rfl | rfl <;> rcases hw with rfl | rfl <;>
      simp [setEncoding, endianOf, wordOf]
  · obtain ⟨henv, _⟩ := hbad hv
    have hn : setEncoding st e w = .error .unexpectedParameters := by
      apply C16_selectors_refused
      omega
    rw [hn]
    cases hE' : st.endian <;> cases hW' : st.word <;>
      simp_all [C16S_setterOutcome, Env.read, read?_write, C16S_setterEnv, read?_cons, C16S_nat?,
        endianNum, wordNum]

/-- **`SetUnitId` computes the model** `Config.setUnitId`, for every state and every `uint8` -/
theorem C16S_setUnitId_model (o : Oracle) (st : ClientState) (hE : st.endian ≠ .invalid)
    (hW : st.word ≠ .invalid) (id : Byte) (fuel : Nat) (hf : 3 ≤ fuel) :
    C16S_setterOutcome st (exec o fuel gs_ModbusClient_SetUnitId
      (C16S_setterEnv st [("id", .int id.toNat)])) = some (.ok (setUnitId st id)) := by
  have H := C16S_setUnitId o (C16S_setterEnv st [("id", .int id.toNat)]) (.int id.toNat)
    (by simp [C16S_setterEnv, read?_cons]) fuel hf
  dsimp only at H
  generalize exec o fuel gs_ModbusClient_SetUnitId _ = r at H ⊢
  obtain ⟨_, _, henv, _⟩ := H
  cases hE' : st.endian <;> cases hW' : st.word <;>
    simp_all [C16S_setterOutcome, Env.read, read?_write, C16S_setterEnv, read?_cons, C16S_nat?,
      endianNum, wordNum, setUnitId, endianOf, wordOf]


/-- **the lock.** The typed rendering DROPS the lock calls (and the logging): `gs_ModbusClient_SetEncoding`
    and `gs_ModbusClient_SetUnitId` contain no call at all. That the mutex is taken first and
    released on every path is established on the FLOW rendering of the same source
    (`Gen.flow_ModbusClient_SetEncoding` / `…SetUnitId`, /verif/extract/flow.go): it starts with the
    acquisition of `lock` followed by the deferred release; both methods are among the exported
    methods for which Props/C08Flow (`C08F_flows_ok`, `C08F_flows_ok_analyze`, via
    `LockFlow.analyze_sound`) proves that on EVERY path the mutex is held before a mutable field is
    touched and every exit is not holding once the deferred unlock has run. (The token skeleton
    says the same: `C16T_setters_locked`.) -/
theorem C16S_setters_locked :
    bindCalls gs_ModbusClient_SetEncoding = [] ∧ bindCalls gs_ModbusClient_SetUnitId = [] ∧
    (∃ rest, flow_ModbusClient_SetEncoding = .seq (.act .acq "lock") (.seq .deferRel rest)) ∧
    (∃ rest, flow_ModbusClient_SetUnitId = .seq (.act .acq "lock") (.seq .deferRel rest)) ∧
    "ModbusClient.SetEncoding" ∈ C08.clientFlowPublic ∧ "ModbusClient.SetUnitId" ∈ C08.clientFlowPublic ∧
    (∀ m, m = "ModbusClient.SetEncoding" ∨ m = "ModbusClient.SetUnitId" →
      ∃ body out, LockFlow.lookupF C08.clientFlows m = some body ∧
        LockFlow.analyzeT C08.clientFlows C08.clientFlowMutable C08.flowFuel body
          (LockFlow.SSet.single false false) = some out ∧
        (out.fall.union out.ret).hn = false ∧ (out.fall.union out.ret).nd = false) := by
  have h1 : "ModbusClient.SetEncoding" ∈ C08.clientFlowPublic := by decide +kernel
  have h2 : "ModbusClient.SetUnitId" ∈ C08.clientFlowPublic := by decide +kernel
  refine ⟨by decide +kernel, by decide +kernel, ⟨_, rfl⟩, ⟨_, rfl⟩, h1, h2, ?_⟩
  rintro m (rfl | rfl)
  · obtain ⟨body, out, k1, k2, _, _, k5, k6⟩ := C08.C08F_flows_ok_analyze _ h1
    exact ⟨body, out, k1, k2, k5, k6⟩
  · obtain ⟨body, out, k1, k2, _, _, k5, k6⟩ := C08.C08F_flows_ok_analyze _ h2
    exact ⟨body, out, k1, k2, k5, k6⟩

/-! ## 5. static facts of the generated terms -/

/-- **`NewClient`, statically.** The arms of the scheme switch, in order: the string literal each
    test compares `clientType` with, and the assignments of the arm (target, constant, leaf text) —
    exactly the documented constants, `mc.transportType` last in every accepting arm and absent from
    the `default:` arm; the two `err = ErrConfigurationError` of the tcp+tls arm come BEFORE its
    `mc.transportType = 5`. `mc` is assigned once, the literal `&ModbusClient{ conf: *conf, }`:
    `mc.conf` is a COPY of `*conf`, no other field is set. The assigned targets: the caller's `conf`
    (or a field of it) is not among them; `mc.conf.Parity` neither. The parameter is `conf`. The two
    calls and their argument leaves. No opaque statement. `staleReads`: the leaves that are read
    after their base variable was bound — the fields of the fresh copy `mc.conf.*` and the three
    views of `splitURL`: these are the leaves the entry environment `ctorCliEnv` gives a meaning. -/
theorem C16S_newClient_static :
    ((ctorSwitch gs_NewClient).map ctorArms).getD [] =
      [(some ("clientType", "\"rtu\""),
        [("mc.conf.Speed", some 19200, none), ("mc.conf.DataBits", some 8, none),
         ("mc.conf.StopBits", some 2, none), ("mc.conf.StopBits", some 1, none),
         ("mc.conf.Timeout", some 300000000, none), ("mc.transportType", some 1, none)]),
       (some ("clientType", "\"rtuovertcp\""),
        [("mc.conf.Speed", some 19200, none), ("mc.conf.Timeout", some 1000000000, none),
         ("mc.transportType", some 2, none)]),
       (some ("clientType", "\"rtuoverudp\""),
        [("mc.conf.Speed", some 19200, none), ("mc.conf.Timeout", some 1000000000, none),
         ("mc.transportType", some 3, none)]),
       (some ("clientType", "\"tcp\""),
        [("mc.conf.Timeout", some 1000000000, none), ("mc.transportType", some 4, none)]),
       (some ("clientType", "\"tcp+tls\""),
        [("mc.conf.Timeout", some 1000000000, none), ("err", none, some "ErrConfigurationError"),
         ("err", none, some "ErrConfigurationError"), ("mc.transportType", some 5, none)]),
       (some ("clientType", "\"udp\""),
        [("mc.conf.Timeout", some 1000000000, none), ("mc.transportType", some 6, none)]),
       (none, [("err", none, some "ErrConfigurationError")])] ∧
    assignedTexts "mc" gs_NewClient = [some "&ModbusClient{ conf: *conf, }"] ∧
    litField ctorCliLit "conf" = some "*conf" ∧
    (ctorTargets gs_NewClient).eraseDups =
      ["mc", "splitURL", "clientType", "mc.conf.URL", "mc.logger", "mc.conf.Speed", "mc.conf.DataBits",
       "mc.conf.StopBits", "mc.conf.Timeout", "mc.transportType", "err", "mc.unitId", "mc.endianness",
       "mc.wordOrder"] ∧
    gsParams.lookup "NewClient" = some ["conf"] ∧
    (bindCalls gs_NewClient).map (fun b => (b.1, b.2.1, b.2.2.map leafText?)) =
      [(["splitURL"], "strings.SplitN", [some "mc.conf.URL", some "\"://\"", none]),
       (["mc.logger"], "newLogger",
        [some "fmt.Sprintf(\"modbus-client(%s)\", mc.conf.URL)", some "conf.Logger"])] ∧
    ((bindCalls gs_NewClient).map (fun b => b.2.2.map ctorLit?)).head? = some [none, none, some 2] ∧
    opaques gs_NewClient = [] ∧
    (staleReads gs_NewClient).eraseDups =
      ["mc.conf.URL", "len(splitURL)", "splitURL[0]", "splitURL[1]", "mc.conf.Speed", "mc.conf.DataBits",
       "mc.conf.StopBits", "mc.conf.Parity", "mc.conf.Timeout", "mc.conf.TLSClientCert",
       "mc.conf.TLSRootCAs"] ∧
    (ctorAssigns gs_NewClient).map ctorAsg =
      [("mc", none, some "&ModbusClient{ conf: *conf, }"), ("clientType", none, some "splitURL[0]"),
       ("mc.conf.URL", none, some "splitURL[1]")] ++
      (((ctorSwitch gs_NewClient).map ctorArms).getD []).flatMap (·.2) ++
      [("mc.unitId", some 1, none), ("mc.endianness", some 1, none), ("mc.wordOrder", some 1, none)] := by
  refine ⟨by decide +kernel, by decide +kernel, by decide +kernel, by decide +kernel, by decide +kernel,
    by decide +kernel, by decide +kernel, by decide +kernel, by decide +kernel, by decide +kernel⟩

/-- **`NewServer`, statically.** The empty-address test `ms.conf.URL == ""` is the second `if` of the
    function and stands BEFORE the loop that renders the scheme switch (it is not inside it); the arms
    of the switch with their literals and constants (120 s, 10, types 4 / 5; the credential refusals
    before `ms.transportType = 5`; `default:` only refuses); `ms` is the literal
    `&ModbusServer{ conf: *conf, handler: reqHandler, }` (configuration copied, handler wired); the
    caller's `conf` is not assigned; parameters `conf, reqHandler`. -/
theorem C16S_newServer_static :
    ((ctorSwitch gs_NewServer).map ctorArms).getD [] =
      [(some ("serverType", "\"tcp\""),
        [("ms.conf.Timeout", some 120000000000, none), ("ms.conf.MaxClients", some 10, none),
         ("ms.transportType", some 4, none)]),
       (some ("serverType", "\"tcp+tls\""),
        [("ms.conf.Timeout", some 120000000000, none), ("ms.conf.MaxClients", some 10, none),
         ("err", none, some "ErrConfigurationError"), ("err", none, some "ErrConfigurationError"),
         ("ms.transportType", some 5, none)]),
       (none, [("err", none, some "ErrConfigurationError")])] ∧
    ((ctorConds gs_NewServer).map (fun c => (varTexts c, callTexts c))).take 3 =
      [(["len(splitURL)"], []), (["ms.conf.URL"], ["\"\""]), (["serverType"], ["\"tcp\""])] ∧
    ((ctorSwitch gs_NewServer).map (fun b => (ctorConds b).map (fun c => (varTexts c, callTexts c)))).getD [] =
      [(["serverType"], ["\"tcp\""]), (["ms.conf.Timeout"], []), (["ms.conf.MaxClients"], []),
       (["serverType"], ["\"tcp+tls\""]), (["ms.conf.Timeout"], []), (["ms.conf.MaxClients"], []),
       (["ms.conf.TLSServerCert", "nil"], []), (["ms.conf.TLSClientCAs", "nil"], [])] ∧
    assignedTexts "ms" gs_NewServer = [some "&ModbusServer{ conf: *conf, handler: reqHandler, }"] ∧
    litField ctorSrvLit "conf" = some "*conf" ∧ litField ctorSrvLit "handler" = some "reqHandler" ∧
    (ctorTargets gs_NewServer).eraseDups =
      ["ms", "splitURL", "serverType", "ms.conf.URL", "ms.logger", "err", "ms.conf.Timeout",
       "ms.conf.MaxClients", "ms.transportType"] ∧
    gsParams.lookup "NewServer" = some ["conf", "reqHandler"] ∧
    (bindCalls gs_NewServer).map (fun b => (b.1, b.2.1, b.2.2.map leafText?)) =
      [(["splitURL"], "strings.SplitN", [some "ms.conf.URL", some "\"://\"", none]),
       (["ms.logger"], "newLogger",
        [some "fmt.Sprintf(\"modbus-server(%s)\", ms.conf.URL)", some "ms.conf.Logger"])] ∧
    opaques gs_NewServer = [] := by
  refine ⟨by decide +kernel, by decide +kernel, by decide +kernel, by decide +kernel, by decide +kernel,
    by decide +kernel, by decide +kernel, by decide +kernel, by decide +kernel, by decide +kernel⟩

/-- **the setters, statically**: `SetEncoding` assigns `err` twice (the two refusals), then
    `mc.endianness`, then `mc.wordOrder` — both field assignments come after BOTH tests; the tests
    compare the parameters with the constants 1 and 2; `SetUnitId` assigns `mc.unitId := id` only -/
theorem C16S_setters_static :
    (ctorAssigns gs_ModbusClient_SetEncoding).map ctorAsg =
      [("err", none, some "ErrUnexpectedParameters"), ("err", none, some "ErrUnexpectedParameters"),
       ("mc.endianness", none, some "endianness"), ("mc.wordOrder", none, some "wordOrder")] ∧
    (ctorConds gs_ModbusClient_SetEncoding).map varTexts =
      [["endianness", "endianness"], ["wordOrder", "wordOrder"]] ∧
    (match gs_ModbusClient_SetEncoding with
     | .seq (.ite _ _ .skip) (.seq (.ite _ _ .skip) (.seq (.assign "mc.endianness" _)
         (.seq (.assign "mc.wordOrder" _) .ret))) => true
     | _ => false) = true ∧
    (ctorAssigns gs_ModbusClient_SetUnitId).map ctorAsg = [("mc.unitId", none, some "id")] ∧
    gsParams.lookup "ModbusClient.SetEncoding" = some ["endianness", "wordOrder"] ∧
    gsParams.lookup "ModbusClient.SetUnitId" = some ["id"] ∧
    (intConst? "BIG_ENDIAN", intConst? "LITTLE_ENDIAN", intConst? "HIGH_WORD_FIRST",
      intConst? "LOW_WORD_FIRST", intConst? "PARITY_NONE") = (some 1, some 2, some 1, some 2, some 0) := by
  refine ⟨by decide +kernel, by decide +kernel, by decide +kernel, by decide +kernel, by decide +kernel,
    by decide +kernel, by decide +kernel⟩


/-! ## 6. sensitivity

  Variants DERIVED from the generated terms by `ctorRewrite` (one local pattern replaced, exactly one
  site each: `ctorSites … = 1`) are told apart from the source terms by a concrete configuration:
  the run theorems are not vacuous, and the table `ctorCliExp` / `ctorSrvExp` rejects each variant. -/
section sensitivity

/-- `rtu:///dev/ttyUSB0`, every numeric field zero, EVEN parity (1) -/
def C16S_cfgRtuEven : CtorCli := ⟨"rtu:///dev/ttyUSB0", 0, 0, 0, 1, 0, "nil", "nil", 2, "rtu", "/dev/ttyUSB0"⟩
/-- `localhost:502`: no scheme, `strings.SplitN` returns one part -/
def C16S_cfgNoScheme : CtorCli := ⟨"localhost:502", 0, 0, 0, 0, 0, "nil", "nil", 1, "localhost:502", ""⟩
/-- `tcp+tls://host:802` with root CAs but WITHOUT a client certificate -/
def C16S_cfgTlsNoCert : CtorCli := ⟨"tcp+tls://host:802", 0, 0, 0, 0, 0, "nil", "&pool", 2, "tcp+tls", "host:802"⟩
/-- `tcp://`: a server URL with an empty address -/
def C16S_cfgSrvNoHost : CtorSrv := ⟨"tcp://", 0, 0, "nil", "nil", 2, "tcp", ""⟩

/-- variant: the stop-bit default keyed on `Parity != 2` instead of `Parity == 0` -/
def C16S_vParity : GStmt → Option GStmt
  | .ite (.cmp "==" (.var "mc.conf.Parity" t) (.lit 0 t2)) a b =>
    some (.ite (.cmp "!=" (.var "mc.conf.Parity" t) (.lit 2 t2)) a b)
  | _ => none

/-- variant: in the `default:` arm only the unknown scheme is refused; the missing-scheme path
    (`len(splitURL) != 2`) falls through without `err` -/
def C16S_vFallThrough : GStmt → Option GStmt
  | .seq (.ite (.cmp "!=" (.var "len(splitURL)" t) l) .skip .skip) rest =>
    some (.ite (.cmp "!=" (.var "len(splitURL)" t) l) .skip rest)
  | _ => none

/-- variant: the two TLS credential tests joined with `&&`: one credential suffices -/
def C16S_vJoinCreds : GStmt → Option GStmt
  | .seq (.ite (.cmp "==" (.var "mc.conf.TLSClientCert" t) n) refuse .skip) (.seq (.ite c2 _ .skip) rest) =>
    some (.seq (.ite (.and (.cmp "==" (.var "mc.conf.TLSClientCert" t) n) c2) refuse .skip) rest)
  | _ => none

/-- variant: the 300 ms rtu default replaced by 1 s -/
def C16S_vRtuTimeout : GStmt → Option GStmt
  | .assign "mc.conf.Timeout" (.lit 300000000 t) => some (.assign "mc.conf.Timeout" (.lit 1000000000 t))
  | _ => none

/-- variant (a seeded change): `SetEncoding` assigns the endianness BEFORE checking the word order -/
def C16S_vEarlyEndianness : GStmt → Option GStmt
  | .seq (.ite c t .skip) (.seq (.assign "mc.endianness" x) rest) =>
    some (.seq (.assign "mc.endianness" x) (.seq (.ite c t .skip) rest))
  | _ => none

/-- variant: `NewServer` without the empty-address test -/
def C16S_vNoHostTest : GStmt → Option GStmt
  | .seq (.ite (.cmp "==" (.var "ms.conf.URL" _) _) _ .skip) rest => some rest
  | _ => none

/-- the runs compared below -/
def C16S_cliRun (s : GStmt) (i : CtorCli) : Res := exec (ctorOracle .unk .unk) ctorFuel s (ctorCliEnv i)
def C16S_srvRun (s : GStmt) (i : CtorSrv) : Res := exec (ctorOracle .unk .unk) ctorFuel s (ctorSrvEnv i)

/-- each variant changes exactly one site of its term; the rewriter with a pattern that matches
    nowhere gives the term back -/
theorem C16S_sens_sites :
    ctorSites C16S_vParity gs_NewClient = 1 ∧ ctorSites C16S_vFallThrough gs_NewClient = 1 ∧
    ctorSites C16S_vJoinCreds gs_NewClient = 1 ∧ ctorSites C16S_vRtuTimeout gs_NewClient = 1 ∧
    ctorSites C16S_vEarlyEndianness gs_ModbusClient_SetEncoding = 1 ∧
    ctorSites C16S_vNoHostTest gs_NewServer = 1 ∧
    ctorSites C16S_vNoHostTest gs_NewClient = 0 := by
  refine ⟨by decide +kernel, by decide +kernel, by decide +kernel, by decide +kernel, by decide +kernel,
    by decide +kernel, by decide +kernel⟩

/-- the SOURCE terms on the four configurations (instances of the run theorems, evaluated by the
    kernel): rtu with even parity gets 1 stop bit and 300 ms; the missing scheme and tcp+tls without
    a client certificate are refused, transport type 0; the empty server address is refused -/
theorem C16S_sens_source :
    ctorCliObs (C16S_cliRun gs_NewClient C16S_cfgRtuEven) = ctorCliExp C16S_cfgRtuEven ∧
    Env.read (C16S_cliRun gs_NewClient C16S_cfgRtuEven).env "mc.conf.StopBits" = .int 1 ∧
    Env.read (C16S_cliRun gs_NewClient C16S_cfgRtuEven).env "mc.conf.Timeout" = .int 300000000 ∧
    Env.read (C16S_cliRun gs_NewClient C16S_cfgNoScheme).env "err" = .sym "ErrConfigurationError" ∧
    Env.read (C16S_cliRun gs_NewClient C16S_cfgNoScheme).env "mc.unitId" = .int 0 ∧
    Env.read (C16S_cliRun gs_NewClient C16S_cfgTlsNoCert).env "err" = .sym "ErrConfigurationError" ∧
    Env.read (C16S_cliRun gs_NewClient C16S_cfgTlsNoCert).env "mc.transportType" = .int 0 ∧
    Env.read (C16S_srvRun gs_NewServer C16S_cfgSrvNoHost).env "err" = .sym "ErrConfigurationError" ∧
    Env.read (C16S_srvRun gs_NewServer C16S_cfgSrvNoHost).env "ms.transportType" = .int 0 := by
  refine ⟨by decide +kernel, by decide +kernel, by decide +kernel, by decide +kernel, by decide +kernel,
    by decide +kernel, by decide +kernel, by decide +kernel, by decide +kernel⟩

/-- stop bits keyed on `Parity != 2`: even parity gets 2 stop bits instead of 1 -/
theorem C16S_sens_parity :
    Env.read (C16S_cliRun (ctorRewrite C16S_vParity gs_NewClient) C16S_cfgRtuEven).env "mc.conf.StopBits" = .int 2 ∧
    ctorCliObs (C16S_cliRun (ctorRewrite C16S_vParity gs_NewClient) C16S_cfgRtuEven) ≠ ctorCliExp C16S_cfgRtuEven := by
  refine ⟨by decide +kernel, by decide +kernel⟩

/-- missing scheme falling through: `NewClient("localhost:502")` returns `err = nil` and an object
    with unit id 1 and transport type 0 -/
theorem C16S_sens_fall_through :
    Env.read (C16S_cliRun (ctorRewrite C16S_vFallThrough gs_NewClient) C16S_cfgNoScheme).env "err" = .sym "nil" ∧
    Env.read (C16S_cliRun (ctorRewrite C16S_vFallThrough gs_NewClient) C16S_cfgNoScheme).env "mc.unitId" = .int 1 ∧
    Env.read (C16S_cliRun (ctorRewrite C16S_vFallThrough gs_NewClient) C16S_cfgNoScheme).env "mc.transportType" = .int 0 ∧
    ctorCliObs (C16S_cliRun (ctorRewrite C16S_vFallThrough gs_NewClient) C16S_cfgNoScheme) ≠ ctorCliExp C16S_cfgNoScheme := by
  refine ⟨by decide +kernel, by decide +kernel, by decide +kernel, by decide +kernel⟩

/-- joined credential tests: tcp+tls WITHOUT a client certificate is accepted, transport type 5 -/
theorem C16S_sens_join_creds :
    Env.read (C16S_cliRun (ctorRewrite C16S_vJoinCreds gs_NewClient) C16S_cfgTlsNoCert).env "err" = .sym "nil" ∧
    Env.read (C16S_cliRun (ctorRewrite C16S_vJoinCreds gs_NewClient) C16S_cfgTlsNoCert).env "mc.transportType" = .int 5 ∧
    ctorCliObs (C16S_cliRun (ctorRewrite C16S_vJoinCreds gs_NewClient) C16S_cfgTlsNoCert) ≠ ctorCliExp C16S_cfgTlsNoCert := by
  refine ⟨by decide +kernel, by decide +kernel, by decide +kernel⟩

/-- 1 s instead of 300 ms for rtu -/
theorem C16S_sens_rtu_timeout :
    Env.read (C16S_cliRun (ctorRewrite C16S_vRtuTimeout gs_NewClient) C16S_cfgRtuEven).env "mc.conf.Timeout" = .int 1000000000 ∧
    ctorCliObs (C16S_cliRun (ctorRewrite C16S_vRtuTimeout gs_NewClient) C16S_cfgRtuEven) ≠ ctorCliExp C16S_cfgRtuEven := by
  refine ⟨by decide +kernel, by decide +kernel⟩

/-- entry environment of the setter runs below: selectors `e`, `w`, current settings 1 / 1 -/
def C16S_encEnv (e w : Int) : Env :=
  [("endianness", .int e), ("wordOrder", .int w), ("err", .sym "nil"), ("mc.endianness", .int 1),
   ("mc.wordOrder", .int 1)]

/-- endianness assigned before the word-order test: `SetEncoding(LITTLE_ENDIAN, 7)` returns
    `ErrUnexpectedParameters` AND has changed `mc.endianness` to 2; the source term leaves it at 1 -/
theorem C16S_sens_early_endianness :
    Env.read (exec (fun _ _ => none) 8 (ctorRewrite C16S_vEarlyEndianness gs_ModbusClient_SetEncoding)
      (C16S_encEnv 2 7)).env "err" = .sym "ErrUnexpectedParameters" ∧
    Env.read (exec (fun _ _ => none) 8 (ctorRewrite C16S_vEarlyEndianness gs_ModbusClient_SetEncoding)
      (C16S_encEnv 2 7)).env "mc.endianness" = .int 2 ∧
    Env.read (exec (fun _ _ => none) 8 gs_ModbusClient_SetEncoding (C16S_encEnv 2 7)).env "err" =
      .sym "ErrUnexpectedParameters" ∧
    Env.read (exec (fun _ _ => none) 8 gs_ModbusClient_SetEncoding (C16S_encEnv 2 7)).env "mc.endianness" = .int 1 ∧
    writes "mc.endianness" (exec (fun _ _ => none) 8 gs_ModbusClient_SetEncoding (C16S_encEnv 2 7)).env = 1 ∧
    writes "mc.endianness" (exec (fun _ _ => none) 8
      (ctorRewrite C16S_vEarlyEndianness gs_ModbusClient_SetEncoding) (C16S_encEnv 2 7)).env = 2 ∧
    Env.read (exec (fun _ _ => none) 8 gs_ModbusClient_SetEncoding (C16S_encEnv 2 2)).env "mc.wordOrder" = .int 2 := by
  refine ⟨by decide +kernel, by decide +kernel, by decide +kernel, by decide +kernel, by decide +kernel,
    by decide +kernel, by decide +kernel⟩

/-- `NewServer` without the empty-address test: `tcp://` is accepted, transport type 4 -/
theorem C16S_sens_no_host_test :
    Env.read (C16S_srvRun (ctorRewrite C16S_vNoHostTest gs_NewServer) C16S_cfgSrvNoHost).env "err" = .sym "nil" ∧
    Env.read (C16S_srvRun (ctorRewrite C16S_vNoHostTest gs_NewServer) C16S_cfgSrvNoHost).env "ms.transportType" = .int 4 ∧
    ctorSrvObs (C16S_srvRun (ctorRewrite C16S_vNoHostTest gs_NewServer) C16S_cfgSrvNoHost) ≠ ctorSrvExp C16S_cfgSrvNoHost := by
  refine ⟨by decide +kernel, by decide +kernel, by decide +kernel⟩

end sensitivity


/-! ## 7. the property theorems of Props/C16, on the evaluated source -/

/-- **C16 for the source of `NewClient`**: the outcome of the evaluated term (for every model
    configuration, every answer of the opaque calls, every fuel ≥ `ctorFuel`) is a success exactly for
    the six schemes (tcp+tls with both credentials), every other configuration is refused with the
    configuration error, and a success has the documented mode, the rest of the URL, the documented
    defaults on zero fields only, unit id 1, big endian, high word first
    (`C16_client_ok_iff`, `C16_client_refused`, `C16_client_wiring`, `C16_client_defaults` through
    `C16S_newClient_model`) -/
theorem C16S_newClient_property (c : ClientConf) (sp lg : GoEval.Val) (fuel : Nat) (hf : ctorFuel ≤ fuel) :
    let out := C16S_clientOutcome (exec (ctorOracle sp lg) fuel gs_NewClient (ctorCliEnv (C16S_cliIn c)))
    ((∃ st, out = some (.ok st)) ↔
      ∃ scheme rest, splitScheme c.url = some (scheme, rest) ∧ scheme ∈ Spec.Config.clientSchemes ∧
        (scheme = "tcp+tls" → c.hasCert = true ∧ c.hasRoots = true)) ∧
    ((¬ ∃ st, out = some (.ok st)) → out = some (.error .configuration)) ∧
    (∀ st, out = some (.ok st) →
      ∃ scheme rest, splitScheme c.url = some (scheme, rest) ∧ st.url = rest ∧
        Spec.Config.modeOf scheme =
          some ⟨scheme, st.kind, (openWiring st.kind).1, (openWiring st.kind).2.1⟩ ∧
        st.timeoutNs = (if c.timeoutNs ≠ 0 then c.timeoutNs else Spec.Config.defaultTimeoutNs scheme) ∧
        (scheme ∈ Spec.Config.rtuSchemes →
          st.speed = if c.speed ≠ 0 then c.speed else Spec.Config.defaultSpeed) ∧
        (scheme ∉ Spec.Config.rtuSchemes → st.speed = c.speed) ∧
        (scheme = "rtu" →
          st.dataBits = (if c.dataBits ≠ 0 then c.dataBits else Spec.Config.defaultDataBits) ∧
          st.stopBits = (if c.stopBits ≠ 0 then c.stopBits else Spec.Config.defaultStopBits c.parity)) ∧
        (scheme ≠ "rtu" → st.dataBits = c.dataBits ∧ st.stopBits = c.stopBits) ∧
        st.parity = c.parity ∧ st.unitId = 1 ∧ st.endian = .big ∧ st.word = .highFirst) := by
  intro out
  have h : out = some (newClient c) := C16S_newClient_model c sp lg fuel hf
  rw [h]
  simp only [Option.some.injEq]
  refine ⟨C16_client_ok_iff c, ?_, ?_⟩
  · intro hn
    cases hc : newClient c with
    | ok st => exact absurd ⟨st, hc⟩ hn
    | error e => rw [newClient_error hc]
  · intro st hst
    obtain ⟨scheme, rest, hs, hu, hm⟩ := C16_client_wiring hst
    exact ⟨scheme, rest, hs, hu, hm, C16_client_defaults hs hst⟩

/-- **C16 for the source of `NewServer`** (`C16_server` through `C16S_newServer_model`) -/
theorem C16S_newServer_property (c : ServerConf) (sp lg : GoEval.Val) (fuel : Nat) (hf : ctorFuel ≤ fuel) :
    let out := C16S_serverOutcome (exec (ctorOracle sp lg) fuel gs_NewServer (ctorSrvEnv (C16S_srvIn c)))
    ((∃ st, out = some (.ok st)) ↔
      ∃ scheme rest, splitScheme c.url = some (scheme, rest) ∧ rest ≠ "" ∧
        scheme ∈ Spec.Config.serverSchemes ∧
        (scheme = "tcp+tls" → c.hasCert = true ∧ c.hasCAs = true)) ∧
    ((¬ ∃ st, out = some (.ok st)) → out = some (.error .configuration)) ∧
    (∀ st scheme rest, splitScheme c.url = some (scheme, rest) → out = some (.ok st) →
      st.url = rest ∧ (st.tls = true ↔ scheme = "tcp+tls") ∧
      st.timeoutNs = (if c.timeoutNs ≠ 0 then c.timeoutNs else 120000000000) ∧
      st.maxClients = (if c.maxClients ≠ 0 then c.maxClients else 10)) := by
  intro out
  have h : out = some (newServer c) := C16S_newServer_model c sp lg fuel hf
  rw [h]
  simp only [Option.some.injEq]
  exact C16_server c

end Modbus.Props.C16

#print axioms Modbus.Props.C16.C16S_schemeType_ne_zero
#print axioms Modbus.Props.C16.C16S_accepted_iff_ok
#print axioms Modbus.Props.C16.C16S_clientEnv_writes
#print axioms Modbus.Props.C16.C16S_newClient_run
#print axioms Modbus.Props.C16.C16S_refused_client_unusable
#print axioms Modbus.Props.C16.C16S_client_table
#print axioms Modbus.Props.C16.C16S_read_of_read?
#print axioms Modbus.Props.C16.C16S_nat?_cast
#print axioms Modbus.Props.C16.C16S_nat?_orDflt
#print axioms Modbus.Props.C16.C16S_orDefault_zero
#print axioms Modbus.Props.C16.C16S_ptr_ne_nil
#print axioms Modbus.Props.C16.C16S_newClient_model
#print axioms Modbus.Props.C16.C16S_srvAccepted_iff_ok
#print axioms Modbus.Props.C16.C16S_serverEnv_writes
#print axioms Modbus.Props.C16.C16S_newServer_run
#print axioms Modbus.Props.C16.C16S_server_table
#print axioms Modbus.Props.C16.C16S_newServer_model
#print axioms Modbus.Props.C16.C16S_setEncoding
#print axioms Modbus.Props.C16.C16S_setUnitId
#print axioms Modbus.Props.C16.C16S_setEncoding_model
#print axioms Modbus.Props.C16.C16S_setUnitId_model
#print axioms Modbus.Props.C16.C16S_setters_locked
#print axioms Modbus.Props.C16.C16S_newClient_static
#print axioms Modbus.Props.C16.C16S_newServer_static
#print axioms Modbus.Props.C16.C16S_setters_static
#print axioms Modbus.Props.C16.C16S_sens_sites
#print axioms Modbus.Props.C16.C16S_sens_source
#print axioms Modbus.Props.C16.C16S_sens_parity
#print axioms Modbus.Props.C16.C16S_sens_fall_through
#print axioms Modbus.Props.C16.C16S_sens_join_creds
#print axioms Modbus.Props.C16.C16S_sens_rtu_timeout
#print axioms Modbus.Props.C16.C16S_sens_early_endianness
#print axioms Modbus.Props.C16.C16S_sens_no_host_test
#print axioms Modbus.Props.C16.C16S_newClient_property
#print axioms Modbus.Props.C16.C16S_newServer_property
